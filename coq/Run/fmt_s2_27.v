From FP Require Import Lexer Parser ShowPT Digest Formatter.
From Coq Require Import String List NArith.
Import ListNotations.
Open Scope string_scope.
Set Printing Width 100000000.
Set Printing Depth 100000000.
Definition show_fres (r : fres) : string :=
  match r with
  | FOk s => "OK:" ++ sh_escaped s ""
  | FErr s => "ERR:" ++ sh_escaped s ""
  | FPanic p => "PANIC:" ++ p
  end.
Definition check (rs : list rune) : string := digest (show_fres (format_res rs)).
Definition full (rs : list rune) : string := show_fres (format_res rs).
Eval vm_compute in ("<<<M310>>>" ++ check (runes_of_ascii "root packet rootA {@calculatedFrom(
""""
)match packetx as x_y_z
{ // `tick` ""quote"" 'q'
""" ++ [28040; 24687]%N ++ runes_of_ascii """ : crc , ""a	b""
    :
i8i8, ""it's"" : msg_type
10
    :
string_,0123456789:int ,
}	,	zchar[ 0123456789
    ]
_x	`say ""hi""` , @lengthOf(	lengthOf )
repeat
    //x
    chars
{ repeat i16 u , }, i16 u @lengthOf( Pad ) `say ""hi""`
, string
    u8x @calculatedFrom(
    ""\n""
    ) //	t
`" ++ [233]%N ++ runes_of_ascii "` //x
,MetaDataX`" ++ [233]%N ++ runes_of_ascii "` , char[] Header  @lengthOf(
    //	t
    Foo )`u8 x,`, //
}
// c
// " ++ [128512]%N ++ runes_of_ascii " emoji
packet  repeatCount	{
@tag( 7
    // `tick` ""quote"" 'q'
    )
char[] x_y_z //x
`it's` , @calculatedFrom(""`tick`"" )repeat o,
    @lengthOf(
    pack )
@lengthOf( u128 ) @lengthOf(stringy	)
match zchar as MetaDataX { [ ""// no comment"",0 ] // " ++ [27880; 37322]%N ++ runes_of_ascii "
: options1
    ,
    [
    ""a	b"" ,
""`tick`""
    ,""" ++ [233]%N ++ runes_of_ascii "t" ++ [233]%N ++ runes_of_ascii """, 7
    // trailing space 
    , 0123456789
] :	string_
    , ""a\""b"" :len, ""a\\"" : MetaDataX	, }, u8x
{ repeat
chars MetaDataX
`two words`, repeat Header	len `` , pack { u16
asx @calculatedFrom(
    ""`tick`"")
    //x
    `line1
line2` , f64 string_ ,float32 zchar // " ++ [27880; 37322]%N ++ runes_of_ascii "
@lengthOf(i8i8 )
, As @lengthOf(
    //	t
    _x ) `u8 x,`, } ,int32 roots`doc` , }
    , } packet As { @lengthOf( leftPad )
@calculatedFrom(	"""" ) x_y_z
@lengthOf(
    i8i8 )	`" ++ [233]%N ++ runes_of_ascii "` , repeat float32 Z9_
    //	t
    ,// `tick` ""quote"" 'q'
pack ,
    msg_type
, // `tick` ""quote"" 'q'
@rightPad // a // b
(
'0' )
// a // b
// @lengthOf(
u16 crc ,
    @lengthOf( chars)	repeat
x`it's`
, } packet body/// triple
{@calculatedFrom(  """ ++ [28040; 24687]%N ++ runes_of_ascii """ ) T @lengthOf(
    u8x ) , @tag( 3)
    // packet A { u8 x, }
    u32
    u
//	t
// @lengthOf(
@lengthOf(
    msg_type
    // c
    )
    , @calculatedFrom(
""" ++ [128512]%N ++ runes_of_ascii """
)	repeat char[ 10] A // c
, x{ string o
, match  Pad // " ++ [27880; 37322]%N ++ runes_of_ascii "
as rootA { ""packet"" :matchKey } ,u64
x_y_z ,char[]
leftPad @lengthOf( float // @lengthOf(
)
    , /// triple
}
,
    repeat uint8x falsey	`" ++ [233]%N ++ runes_of_ascii "`, @lengthOf( Z9_ )u8 f32a , @tag( 0123456789 )
// @lengthOf(
// `tick` ""quote"" 'q'
u8 matchKey ``
, Pad trueish `say ""hi""`
    ,}
")).
Eval vm_compute in ("<<<M948>>>" ++ check (runes_of_ascii "//
root packet
    T
    { match Foo as Packet {
""\n"":
// c
// a // b
roots""abc"": Foo ,3 : packetx,
}, match Z9_ as u8x { 65535 :
tag , }	, Pad{
i16 BodyLength ,
    stringy
    chars, uint8 trueish
    /// triple
    ,
} ,	pack {
    match//	t
asx
as
stringy { 0 :matchKey } // " ++ [128512]%N ++ runes_of_ascii " emoji
,	repeat
char uint8x
, }
// @lengthOf(
//
,
    @calculatedFrom( ""\n"")
    body,
_x , string tag , char[ // packet A { u8 x, }
3 ]rootA`a\`
    // c
    ,
@calculatedFrom(""\n"" )
@lengthOf( uint8x
    ) char[] A , i8
    // @lengthOf(
    string_`{ , }` ,
    // packet A { u8 x, }
    } packet body {
    char[] o	, string options1 ,
repeat // a // b
char[]
    pack, u128{ packetx options1
    ,
repeat
Packet
,repeat // trailing space 
int `` // " ++ [27880; 37322]%N ++ runes_of_ascii "
, u16
Logon	,	} ,  match
    T as x_y_z {
    255 : Header ,
    1 :
    f32a , """ ++ [128512]%N ++ runes_of_ascii """
:	Pad
// a // b
// a // b
""abc"" :
    /// triple
    A } ,	@tag(// " ++ [27880; 37322]%N ++ runes_of_ascii "
00
// " ++ [128512]%N ++ runes_of_ascii " emoji
// @lengthOf(
) int8 i8i8 @calculatedFrom( """ ++ [28040; 24687]%N ++ runes_of_ascii """) `tab	here`, @lengthOf(
    matchKey )
repeat uint16
// a // b
// trailing space 
roots `doc`
    ,f64 a1 ,@lengthOf( metadata
    // " ++ [27880; 37322]%N ++ runes_of_ascii "
    )
    // @lengthOf(
    Foo
@lengthOf(
msg_type )	`" ++ [233]%N ++ runes_of_ascii "` , } packet /// triple
tag{@rightPad
( '0' )char[]
    x
    @calculatedFrom(
    ""a\\"")
    ,
    float  @calculatedFrom( ""\" ++ [233]%N ++ runes_of_ascii """  ) `
`// " ++ [27880; 37322]%N ++ runes_of_ascii "
,
@calculatedFrom(
    ""{,}"" ) repeat zchar[ 00 ]
    i64_  `" ++ [28040; 24687; 31867; 22411]%N ++ runes_of_ascii "`
,
char[ 007
    ] charz ,
    } packet metadata {
    string_ {
    repeat A
    , repeat char[// trailing space 
00
] A// " ++ [128512]%N ++ runes_of_ascii " emoji
, i32 i64_ @lengthOf( body )  `" ++ [233]%N ++ runes_of_ascii "`
    , //x
repeat
    //x
    zchar `say ""hi""` ,} ,
}")).
Eval vm_compute in ("<<<M4195>>>" ++ check (runes_of_ascii "packet o {
    @tag(0)
    match leftPad as metadata {
        1 : calculatedFrom,
        7 : i64_,
        ""it's"" : i64_,
        0123456789 : repeatCount,
        0 : Foo,
    },
    lengthOf {
        A `doc`,
    },
    char[3] matchKey `{ , }`,
    leftPad {
        repeat u8 options1,
        body @calculatedFrom(""" ++ [128512]%N ++ runes_of_ascii """),
        zchar {
            // `tick` ""quote"" 'q'
            u64 Logon @lengthOf(u8x),
            char[007] packetx @lengthOf(zchar) `
            `,
        },
        repeat metadata x,
    },
    u32 repeatCount,
    @tag(10)
    @lengthOf(T)
    u16 repeatCount `say ""hi""`,/// triple
    repeat u128 {
        //
        // packet A { u8 x, }
        zchar[4294967296] BodyLength,
    },
    i32 x `doc`,
}

packet MetaDataX {
    // a // b
    @tag(7)
    repeat lengthOf,
}

root packet As {
    @lengthOf(lengthOf)
    match _x as T {
        ""packet"" : string_,
        3 : BodyLength,
        """ ++ [128512]%N ++ runes_of_ascii """ : i64_,
        0 : lengthOf,
        /// triple
        7 : Logon,
    },
    Z9_ @calculatedFrom(""\" ++ [233]%N ++ runes_of_ascii """),
    float32 int @lengthOf(msg_type) `// not a comment`,
    char[] A @calculatedFrom(""\n""),
    @tag(4294967296)
    i8i8 {
        uint32 u8x,
    },
    zchar[00] uint8x,
    repeat msg_type string_,
    repeat zchar[007] Pad `doc`,
    match rootA as stringy {
        007 : leftPad,
        [""" ++ [233]%N ++ runes_of_ascii "t" ++ [233]%N ++ runes_of_ascii """, 7] : x,
    },
}")).
Eval vm_compute in ("<<<M1283>>>" ++ check (runes_of_ascii "packet
u
{ float64 A @calculatedFrom(
    // @lengthOf(
    ""it's"" // packet A { u8 x, }
) ,  string roots  , @rightPad (// packet A { u8 x, }
'\x00' ) char[]int @lengthOf( // a // b
metadata ) , // trailing space 
u8x {
    int
{  f64
    Pad
,asx{
repeat tag `two words` ,rootA , u16 matchKey `
` ,
} , repeat
roots { // @lengthOf(
options1 @calculatedFrom( ""a\""b"" // " ++ [27880; 37322]%N ++ runes_of_ascii "
)
    ,
char[]
    chars
, } , float64 zchar ,
    }
    , // c
} , uint16 leftPad, uint8 f32a @lengthOf( i8i8 ) , repeat
float64 stringy
, i8i8
{roots@lengthOf( repeatCount ) , }
    ,
repeat matchKey	, @leftPad	(' ' ) match	int // @lengthOf(
as trueish{
    """": a1
    ,00 : a1,
1 : crc , }
,
    // trailing space 
    } root
    packet f32a
    // trailing space 
    {@tag(0 ) // " ++ [27880; 37322]%N ++ runes_of_ascii "
zchar[ 4294967296 ]
tag
    , @tag(
    4294967296
) match	uint8x  as calculatedFrom {	""""  :BodyLength""a\\"" : MetaDataX, """ ++ [233]%N ++ runes_of_ascii "t" ++ [233]%N ++ runes_of_ascii """ : u128,
    } /// triple
,
    } options {
x = i8 x =
' '
    x_y_z='\x00'zchar=	""" ++ [128512]%N ++ runes_of_ascii """// c
;
BodyLength = float32
    ; }
// packet A { u8 x, }
//
root packet
    Packet { }
MetaData // a // b
roots { zchar u8x /// triple
`
` ,// trailing space 
char[ 42 //x
]	uint8x ,
//
// " ++ [128512]%N ++ runes_of_ascii " emoji
asx lengthOf`// not a comment` ,
Packet stringy
, repeatCount len``
, } // c")).
Eval vm_compute in ("<<<M4417>>>" ++ check (runes_of_ascii "packet i8i8 {
    @lengthOf(body)
    // trailing space 
    // " ++ [128512]%N ++ runes_of_ascii " emoji
    @lengthOf(T)
    calculatedFrom @calculatedFrom(""""),
    uint32 x `crlf
        line`,
    uint64 string_ `{ , }`,
    i64 _x @calculatedFrom(""a	b"") `doc`,
    @lengthOf(len)
    asx `doc`,
    charz `two words`,
}

packet u {
    @rightPad()
    repeat u128 u8x,// trailing space 
    float64 stringy @calculatedFrom(""" ++ [128512]%N ++ runes_of_ascii """) `crlf
        line`,
    @rightPad()
    @tag(10)
    repeat options1 `crlf
        line`,
    zchar[0] i8i8,
    int16 matchKey @calculatedFrom(""CRC32""),
}

packet string_ {
    zchar @calculatedFrom(""packet""),
    repeat asx chars `tab	here`,
}

packet falsey {
    body BodyLength `two words`,
    match Z9_ as lengthOf {
        4294967296 : roots,
        // " ++ [27880; 37322]%N ++ runes_of_ascii "
    },
    char[3] asx `crlf
        line`,
}

root packet float {
    repeat i8i8,
    @lengthOf(options1)
    roots roots,
    repeat zchar[1] pack,
    i64_,
    falsey ``,
    match options1 as x_y_z {
        0 : int,
    },
    zchar[007] A @calculatedFrom(""a	b""),
    trueish {
        repeat char[] i8i8 `doc`,
    },
    i8i8 `
        `,
    uint8 roots `two words`,
}")).
Eval vm_compute in ("<<<M610>>>" ++ check (runes_of_ascii "
packet  Packet { }
// @lengthOf(
// packet A { u8 x, }
packet f32a{ f32 zchar @calculatedFrom( ""\n"" ) ,
match
    float
    as
stringy { ""1"" :
    options1
""x y"" : pack
, [
// " ++ [27880; 37322]%N ++ runes_of_ascii "
//	t
""`tick`""
,
""a\""b"",
""// no comment"" ,
// @lengthOf(
/// triple
7,
""1"" ] : leftPad , 007	:
    Packet""" ++ [28040; 24687]%N ++ runes_of_ascii """/// triple
:
    x_y_z
    , //x
},
@rightPad (
)
repeat zchar[ 255] u8x`it's` // " ++ [27880; 37322]%N ++ runes_of_ascii "
, @calculatedFrom(  ""abc"" // @lengthOf(
) match	float as uint8x { ""\n"" :len , [1 ]
: crc[
    ""packet"" , 0123456789
, ""\n""
    // trailing space 
    ] : asx , """": calculatedFrom
""\" ++ [233]%N ++ runes_of_ascii """ :
    roots,
    } ,	trueish
    , @lengthOf(
    i8i8
)string// @lengthOf(
body `doc`, @lengthOf(
    // a // b
    o ) u32 u , @leftPad
    (	'0' ) match	zchar	as lengthOf {// `tick` ""quote"" 'q'
007 // trailing space 
:  leftPad , } , }packet BodyLength{ a1
{	repeat
    char[] calculatedFrom , }
    , @calculatedFrom(  ""1"" ) repeat
roots `" ++ [233]%N ++ runes_of_ascii "`,
@lengthOf( u128 )
    _x  , match a1 as Logon
    { 1: len , // a // b
} ,
@calculatedFrom(""packet"" ) charz x `tab	here`
,
    i64
    matchKey ,
//x
/// triple
}")).
Eval vm_compute in ("<<<M4515>>>" ++ check (runes_of_ascii "packet charz {
    zchar @lengthOf(body),
    string BodyLength ``,
    float `" ++ [233]%N ++ runes_of_ascii "`,
    @lengthOf(len)
    @tag(255)
    @calculatedFrom(""{,}"")
    a1 int `two words`,
    char[3] float @calculatedFrom(""CRC32""),
    repeat int32 stringy,//
    @tag(3)
    @tag(3)
    a1 {
        match chars as roots {
            ""it's"" : o,
            ""CRC32"" : stringy,
            0123456789 : Pad,
            [""a	b"", """ ++ [128512]%N ++ runes_of_ascii """] : body,
        },
        char[42] u8x,
        char[255] x_y_z @calculatedFrom(""packet""),
        match body as BodyLength {
            10 : zchar,
            007 : uint8x,
            ""a\""b"" : Header,
            ""x y"" : chars,
            007 : f32a,
        },
    },
    match T as stringy {
        10 : float,
        // trailing space 
        0 : string_,
        10 : crc,
        7 : chars,
        7 : body,
    },
    repeat crc `
    `,
}

MetaData roots {
    char[] string_ `{ , }`,
}

root packet As {
    @rightPad(' ')
    i64 leftPad @calculatedFrom(""abc"") `doc`,
    char[] options1,
}")).
Eval vm_compute in ("<<<M502>>>" ++ check (runes_of_ascii "  root packet  roots { @tag(
    0123456789) repeat As msg_type ,
    roots
@calculatedFrom(	""abc""),@rightPad (
)// " ++ [27880; 37322]%N ++ runes_of_ascii "
Pad {  int32
rootA@calculatedFrom(// c
""1"" )
, repeat int
    float `say ""hi""`
    ,// c
zchar[
    65535 ]  i8i8 @calculatedFrom(""a\\""	)// c
,
    } , // `tick` ""quote"" 'q'
@calculatedFrom(
    ""1"" // `tick` ""quote"" 'q'
)
i8i8 @lengthOf( x),@tag(7 )
    match T as repeatCount
{ ""a\\"" :
o [//
""""
, // @lengthOf(
""it's""
]	:
    i64_ , 10 :
    trueish , }// @lengthOf(
,
    Z9_
, // a // b
@calculatedFrom(
"""" ) @leftPad  (' ' )  f32 zchar @lengthOf( charz ) , @leftPad
// " ++ [27880; 37322]%N ++ runes_of_ascii "
// c
(
    ) falsey @lengthOf(
BodyLength )
    ,
// a // b
// " ++ [27880; 37322]%N ++ runes_of_ascii "
} packet
    leftPad { // trailing space 
u8 //x
msg_type@calculatedFrom(""packet"")
`u8 x,`
    , @lengthOf( chars ) char[]  Packet
, //
@leftPad
('0' ) int64 As ,
    char[]  Packet
// packet A { u8 x, }
//
, // a // b
@calculatedFrom(  ""\n"" ) x @calculatedFrom( ""\n""
    ) , // `tick` ""quote"" 'q'
}")).
Eval vm_compute in ("<<<M3644>>>" ++ check (runes_of_ascii "
root 
	//
// `tick` ""quote"" 'q'
    packet
lengthOf	{

repeat 
char[]  asx	`// not a comment`// trailing space 
	,
    lengthOf  {
string
options1
,  char[] A @calculatedFrom(	""\n""
) , int16
trueish
    , },
repeat  int16
	stringy ,
	string 
Logon`{ , }`  , @lengthOf( 
metadata

    )

    match
	trueish as
Foo 
{  00  :	T
    ,	7	:
Z9_

    , }, 
string_
	a1
`" ++ [28040; 24687; 31867; 22411]%N ++ runes_of_ascii "` // packet A { u8 x, }

	,  } 
packet zchar {
@calculatedFrom( ""x y""	//x

  )
	repeatCount
`
` ,  match
    //
  	stringy 
as

    u {  255	// `tick` ""quote"" 'q'
:
charz }  ,	zchar[ 0123456789
]
	    // a // b
    Z9_ @lengthOf( crc
    )`it's`
, @leftPad 
('\x00'	) 
zchar[
0 
]
	rootA@calculatedFrom(""CRC32""),@lengthOf( leftPad	)
// packet A { u8 x, }
    Foo @calculatedFrom( ""{,}""
	) ,
uint32
    Foo `// not a comment`
    ,	f32

    float

    ,
repeat matchKey ,
    Logon @lengthOf( rootA
	)
    `" ++ [28040; 24687; 31867; 22411]%N ++ runes_of_ascii "`
    ,
}
")).
Eval vm_compute in ("<<<M3568>>>" ++ check (runes_of_ascii "
// top
options// c0
      {
// c1
chars 	 // c2a
  	// c2b
	= ""a\\"" 	 // c4a

// c4b
  } 	 // c5a
  // c5b
  packet 
    // c6
		Z9_	// c7a
	// c7b
{// c8a
// c8b

  match  // c9
    	BodyLength 
    // c10

as

    roots
// c12
      { 
""" ++ [28040; 24687]%N ++ runes_of_ascii """ 	 // c14a
      // c14b

:falsey 

    // c16
, 
      // c17

00
	    // c18
    :	u128// c20a

// c20b
    0 
// c21
	: 
    // c22
	len,  // c24a
    // c24b
	007// c25
: 
      // c26
    f32a}

    // c28
    	, @tag( 
        // c30

	3 // c31
    )
@calculatedFrom(// c33

""`tick`""
// c34

	)  @leftPad  ( 
// c37

	' '	)  // c39
  	string  // c40
  asx	// c41
    , 	 // c42a
      // c42b

	string  // c43a
    // c43b
  u @lengthOf( 
options1 ) 	 // c47a
	// c47b
	,
	float32	// c49a
    // c49b
i64_@calculatedFrom(

    ""a\""b"" // c52a
  // c52b
  	) // c53
	  , // c54
  } 	 // c55
")).
Eval vm_compute in ("<<<M826>>>" ++ check (runes_of_ascii "packet i8i8
{
    @leftPad
    // c
    (// " ++ [128512]%N ++ runes_of_ascii " emoji
'0'
    // @lengthOf(
    ) i16 int ,@calculatedFrom( ""\n"" ) crc @calculatedFrom(""abc"" //	t
) ,
    // packet A { u8 x, }
    int16 trueish `it's`  , // trailing space 
@rightPad (' ' )@tag(
3 ) @calculatedFrom( """" ) pack
{ i64_ falsey  ,
i8i8  repeatCount , repeat u16 pack  , u128
//x
// " ++ [27880; 37322]%N ++ runes_of_ascii "
@calculatedFrom( ""it's""
    ) `" ++ [233]%N ++ runes_of_ascii "`
, },
@calculatedFrom( ""1"")
match i64_ as a1{ 42
:MetaDataX,[ ""{,}"",""abc""
    , ""`tick`"",
10
    ]
    : asx ,//
65535
: string_ }//x
, @calculatedFrom(	""" ++ [128512]%N ++ runes_of_ascii """ )  @lengthOf( _x ) @rightPad ( ' '
    ) x
    {// packet A { u8 x, }
f32 tag
    @lengthOf(	calculatedFrom) ,	u32 Logon
    `" ++ [28040; 24687; 31867; 22411]%N ++ runes_of_ascii "`, } , @lengthOf( // " ++ [128512]%N ++ runes_of_ascii " emoji
zchar ) Packet matchKey ,@leftPad/// triple
( '0') f32 charz
`
`//x
, @rightPad
    ('0'
) char[3 ] stringy `tab	here`
, }")).
Eval vm_compute in ("<<<M1167>>>" ++ check (runes_of_ascii "packet a1 {
@tag(
    007 )
    match packetx as a1 { [	0123456789,  0123456789 ]
: tag , ""\n"" : uint8x
, 00 : Z9_ ,""\" ++ [233]%N ++ runes_of_ascii """  :i64_ [ ""// no comment""
    , ""`tick`"" ]
: asx ,
    } , //
} options {crc='0' Logon
=
""""
;
    // packet A { u8 x, }
    falsey = 4294967296 // trailing space 
; }
    packet	string_
    {
repeat leftPad { repeat  uint64 x , u8 uint8x `u8 x,` ,	} ,repeat tag options1// packet A { u8 x, }
,// trailing space 
int64 /// triple
trueish
    @lengthOf( asx )`
`
// trailing space 
//
,
    // c
    match i8i8 as MetaDataX {
""a\\"" :
    //x
    falsey
    , }, repeat char[ 1 ]
    As
    , zchar[42 ]	Pad@lengthOf(
    repeatCount ) ,
@leftPad ( '\x00' /// triple
)
uint64 string_ `say ""hi""` , @calculatedFrom( ""CRC32""
) char MetaDataX , // packet A { u8 x, }
}")).
Eval vm_compute in ("<<<M1313>>>" ++ check (runes_of_ascii "
options { trueish =
    4294967296 ; } root packet float { } packet Header{
repeat Logon , @tag(
    0123456789 )  uint8 asx  `say ""hi""` ,int@calculatedFrom( ""a	b"") // " ++ [27880; 37322]%N ++ runes_of_ascii "
,
repeat
    Logon , } packet i64_{ /// triple
repeat
char[ 0123456789 ]
metadata
`u8 x,`,
repeat
f32
    Packet , repeat crc {	int16 // trailing space 
body
    `" ++ [28040; 24687; 31867; 22411]%N ++ runes_of_ascii "` , int32 stringy,
    // @lengthOf(
    repeat char[ 65535
]
    // " ++ [128512]%N ++ runes_of_ascii " emoji
    int ,
    u64 zchar
// " ++ [27880; 37322]%N ++ runes_of_ascii "
// " ++ [128512]%N ++ runes_of_ascii " emoji
, } , @rightPad
    (	'\x00'  )	@calculatedFrom( ""abc"" )@rightPad ( ' '	)rootA o	, repeat string// a // b
msg_type,
//x
/// triple
char[
3
// `tick` ""quote"" 'q'
/// triple
]
i8i8 `two words`
//	t
// trailing space 
,@calculatedFrom( ""// no comment""	) /// triple
f32a@lengthOf( Z9_) ,	}
")).
Eval vm_compute in ("<<<M3265>>>" ++ check (runes_of_ascii "// top
options // c0
{
    // c1
chars // c2a
  // c2b
= ""a\\"" // c4a
  // c4b
} // c5a
  // c5b
packet
    // c6
Z9_ // c7a
  // c7b
{ // c8a
  // c8b
match // c9
BodyLength
    // c10
as roots
    // c12
{ """ ++ [28040; 24687]%N ++ runes_of_ascii """ // c14a
  // c14b
: falsey
    // c16
,
    // c17
00
    // c18
: u128 // c20a
  // c20b
0
    // c21
:
    // c22
len , // c24a
  // c24b
007 // c25
:
    // c26
f32a }
    // c28
, @tag(
    // c30
3 // c31
) @calculatedFrom( // c33
""`tick`""
    // c34
) @leftPad (
    // c37
' ' ) // c39
string // c40
asx // c41
, // c42a
  // c42b
string // c43a
  // c43b
u @lengthOf( options1 ) // c47a
  // c47b
, float32 // c49a
  // c49b
i64_ @calculatedFrom( ""a\""b"" // c52a
  // c52b
) // c53
, // c54
} // c55
")).
Eval vm_compute in ("<<<M4448>>>" ++ check (runes_of_ascii "// " ++ [27880; 37322]%N ++ runes_of_ascii "
  	packet leftPad {  // a // b
	string
As`{ , }` ,
char[ 42]msg_type 
,
    @lengthOf( i8i8
	)
match Foo as

    matchKey 	 //	t
	{1

    :chars  ,
65535
:
o
    7
:
    calculatedFrom, [  65535
    ,
7 
,""a	b""] :	int 
, [
00 ,
	0, ""x y""
    ,

65535//	t

, """ ++ [128512]%N ++ runes_of_ascii """ ,
	007 ,""it's""
,
""""
]:Packet ,
	""""
    :	float,
}

    , u64

    Logon
	@calculatedFrom(
    """ ++ [128512]%N ++ runes_of_ascii """ ),

@calculatedFrom( ""a	b""
	)
pack
    { float32
charz`line1
line2` // `tick` ""quote"" 'q'
	, }
	, 
}
	MetaData
u128

    { repeatCount
len`" ++ [233]%N ++ runes_of_ascii "`
,  BodyLength	//x
	charz ,
	u8x
trueish
`a\`
,  Header
msg_type
    `line1
line2`

,
string

stringy
,	// " ++ [128512]%N ++ runes_of_ascii " emoji

	char[] u128 `" ++ [233]%N ++ runes_of_ascii "` ,
    }options{ } ")).
Eval vm_compute in ("<<<M31>>>" ++ check (runes_of_ascii "packet options1
    {@leftPad
( )
    @calculatedFrom( ""\n"" )
    @leftPad (
' ' // " ++ [27880; 37322]%N ++ runes_of_ascii "
)
chars
T `say ""hi""` // " ++ [27880; 37322]%N ++ runes_of_ascii "
,
    // @lengthOf(
    repeat zchar
{  metadata {
// @lengthOf(
// c
match A as x_y_z {""1"" :
// " ++ [128512]%N ++ runes_of_ascii " emoji
// c
string_// @lengthOf(
[""// no comment""  ,
10 ] : Foo""a\\"": Packet [""a	b"",
    65535 ]
    :	x
,
}
,
} , } // " ++ [128512]%N ++ runes_of_ascii " emoji
,
@rightPad (
) f32
msg_type
    , match f32a as body { [
    ""`tick`"" , ""\n"" ,
    ""a	b"" ,
""{,}"" , 255 ,""x y"", 3
]:// @lengthOf(
x ,
    ""CRC32""
: zchar	, ""x y"" :
rootA // `tick` ""quote"" 'q'
[ 00
    ,
    ""it's""	, 4294967296 ,""CRC32"" ]:
roots 4294967296 : Logon}, @leftPad
('0')pack `crlf
line`
, }")).
Eval vm_compute in ("<<<M872>>>" ++ check (runes_of_ascii "
root // c
packet len {
Logon tag `say ""hi""`// c
, uint16
// packet A { u8 x, }
// trailing space 
Logon ,
match packetx as Foo	{ 65535// trailing space 
: asx
, // @lengthOf(
""abc"" //
: x_y_z
42 :asx} , f64
trueish
    ,  @lengthOf(a1 )repeat// " ++ [128512]%N ++ runes_of_ascii " emoji
char[  4294967296
]
    uint8x `two words`
,	match
    calculatedFrom as string_ { 4294967296 : crc , ""abc"" :
    T //	t
,
[ 255 ] : msg_type , // c
}, match MetaDataX as
len  { 10 : _x// c
,
} , match	float
    as  Pad {
    ""x y""
:BodyLength ,
[""a	b"" ,
""x y"" ]  : chars
, 0 : calculatedFrom//x
, 0123456789
: stringy
,
[ ""abc"" ]
// c
// " ++ [128512]%N ++ runes_of_ascii " emoji
:
i64_
    , }
, }")).
Eval vm_compute in ("<<<M730>>>" ++ check (runes_of_ascii "//x
packet Packet
{ } // " ++ [128512]%N ++ runes_of_ascii " emoji
packet A { @calculatedFrom(
    ""a	b""
    ) @tag(
    // `tick` ""quote"" 'q'
    00 ) char[4294967296]u128 `` , } options {  lengthOf = """ ++ [233]%N ++ runes_of_ascii "t" ++ [233]%N ++ runes_of_ascii """
    ; crc= ""CRC32"" ; }
packet crc {
    @tag(255 ) @rightPad ( ) repeat
    //
    Pad, zchar[ 3 ] charz @lengthOf( zchar
)
`say ""hi""` ,repeat Header string_ `` // @lengthOf(
,
len@calculatedFrom(
    ""`tick`"") ,
@tag( 65535 )
    match chars
as	msg_type {4294967296 : roots
, """ ++ [233]%N ++ runes_of_ascii "t" ++ [233]%N ++ runes_of_ascii """ :_x ,
""CRC32"" : leftPad	, // packet A { u8 x, }
42: MetaDataX,
// a // b
// c
[ ""a	b""]
: i64_/// triple
""`tick`"" :
MetaDataX ,}
,
    }
")).
Eval vm_compute in ("<<<M761>>>" ++ check (runes_of_ascii "packet packetx { @lengthOf( charz)lengthOf { u64	x_y_z @calculatedFrom( ""abc""
)
`tab	here` , }, char zchar @lengthOf(lengthOf
    ) `two words`, chars Logon
//
// @lengthOf(
`line1
line2` ,match int	as u128 // " ++ [128512]%N ++ runes_of_ascii " emoji
{
1 : asx ,// a // b
""CRC32"" : Header ,	}
,
string_
,Header{ match u128 as
    len {  [ 255
    ,10
    ,255 ,
255 , 00 , ""x y""
, // @lengthOf(
""" ++ [28040; 24687]%N ++ runes_of_ascii """ ]: len ,[ ""{,}"", 1 ] : _x""1"": o ,
    ""{,}""
    //
    : x ,
007
    : stringy
    ,} // a // b
, repeat f32a	{ stringy `
` ,
    } ,zchar[ 65535 ] charz ,
    o  , // a // b
} ,}
")).
Eval vm_compute in ("<<<M4275>>>" ++ check (runes_of_ascii "packet rootA {
    string calculatedFrom @lengthOf(matchKey),
}

packet rootA {
    // " ++ [27880; 37322]%N ++ runes_of_ascii "
    //
    repeat string string_,
}

packet x_y_z {
    repeat string i64_ `two words`,
    @leftPad()
    repeat int64 Foo,
    match chars as int {
        """ ++ [28040; 24687]%N ++ runes_of_ascii """ : o,
        /// triple
        """ ++ [233]%N ++ runes_of_ascii "t" ++ [233]%N ++ runes_of_ascii """ : crc,
        4294967296 : repeatCount,
        [1] : As,
        [
            255, """ ++ [128512]%N ++ runes_of_ascii """, ""x y"", ""{,}"", 4294967296,
            """", ""a\""b"", 00
        ] : u128,
        // " ++ [128512]%N ++ runes_of_ascii " emoji
        ""\" ++ [233]%N ++ runes_of_ascii """ : lengthOf,
    },
    int64 uint8x,
}")).
Eval vm_compute in ("<<<M440>>>" ++ check (runes_of_ascii "packet chars	{
@calculatedFrom(
""abc"" ) repeat uint64
Pad`" ++ [233]%N ++ runes_of_ascii "` ,
    uint8  len , asx@lengthOf( _x) ,
    options1 `tab	here` ,
@lengthOf(  i64_
) zchar`it's`
, @tag( 007  )metadata
,	char[]Foo ,
    // packet A { u8 x, }
    } // @lengthOf(
options { charz = ""\" ++ [233]%N ++ runes_of_ascii """ ; metadata = string;Z9_ = ""it's""
zchar = u8 }options{
string_ =  """ ++ [28040; 24687]%N ++ runes_of_ascii """
;msg_type // packet A { u8 x, }
=42
    ;Foo /// triple
= 0123456789;
o = int64 ;}	options{i8i8
= zchar[ 1 ] Foo = 00;
leftPad = // c
uint64 Foo =  int64 }")).
Eval vm_compute in ("<<<M3606>>>" ++ check (runes_of_ascii "
packet float

{
	char[
	00

]
	u8x	,
	}	packet  // " ++ [128512]%N ++ runes_of_ascii " emoji
	A	// @lengthOf(
  { string i8i8
, A 	 //x
	@calculatedFrom( ""a	b""	) `a\`, 
@tag(	1
    )
    chars	@lengthOf(
Pad
	)
    `u8 x,` ,	/// triple
		match

repeatCount
as
    stringy  {
42 :
x 3
: // @lengthOf(
  tag
	,[
00
	,
0123456789 ]

:

    packetx  ,
	[ 
""" ++ [28040; 24687]%N ++ runes_of_ascii """
,
	""packet""
] : string_,
}  ,
	}  options 	 // @lengthOf(
  	{i8i8

    = """ ++ [233]%N ++ runes_of_ascii "t" ++ [233]%N ++ runes_of_ascii """	Foo = false
	// packet A { u8 x, }
    ; Pad =' ' 
; }")).
Eval vm_compute in ("<<<M1366>>>" ++ check (runes_of_ascii "MetaData
matchKey {}packet a1
    {char[]int`" ++ [28040; 24687; 31867; 22411]%N ++ runes_of_ascii "`	, msg_type @lengthOf( As// trailing space 
)
, @leftPad (//	t
) string roots `// not a comment` , @lengthOf( Logon)string Logon  @lengthOf( crc
),	msg_type { repeat
//x
//	t
u64 a1 ,}// a // b
, char[ 65535 ] /// triple
u @calculatedFrom(/// triple
""it's""
    ) ,
    f32a len, }
root packet asx
    { @leftPad (
    ' ' ) // c
uint16 uint8x@lengthOf( charz
// c
// `tick` ""quote"" 'q'
) `two words`	, }")).
Eval vm_compute in ("<<<M382>>>" ++ check (runes_of_ascii "packet x { i64_ , } options // c
{
Logon =true
//	t
//	t
} MetaData //x
f32a { zchar[
0123456789] string_ , i8i8 // @lengthOf(
falsey ,
u8x	string_ , zchar repeatCount `doc`, float64 zchar ,	} root
    // c
    packet
Z9_ {	a1
options1
`u8 x,`	, char// `tick` ""quote"" 'q'
BodyLength `// not a comment`
    , @lengthOf( metadata )	repeat u`line1
line2`  ,	@lengthOf(options1
    ) @lengthOf( zchar )  @calculatedFrom( """ ++ [233]%N ++ runes_of_ascii "t" ++ [233]%N ++ runes_of_ascii """	)x
u128
,}
")).
Eval vm_compute in ("<<<M639>>>" ++ check (runes_of_ascii "options { A = 4294967296 body =0 tag = ""// no comment"";Packet =00
    ;  }root packet leftPad { } root
packet rootA { repeat
charz {repeatCount{
    a1 {repeat uint32 stringy	`` , } ,
    /// triple
    zchar[ 65535
    // `tick` ""quote"" 'q'
    ] tag
, i64_/// triple
metadata
    ,
a1 // " ++ [27880; 37322]%N ++ runes_of_ascii "
{repeat zchar[	3
    ]
    Foo `two words` ,},
    } // `tick` ""quote"" 'q'
, string
a1  @lengthOf( float )
, }
,
    //x
    }")).
Eval vm_compute in ("<<<M3506>>>" ++ check (runes_of_ascii "  packet
Frame
{

    u8

HK
,

    u8	BK,	u8  TK

    ,  match HK
as  Hdr {

    1 :
HdrA

    ,
2
:  HdrB
	,  },match
BK as Body{	1: BodyA,2 :
BodyB  ,
    } 
, match TK
as
	Trl 
{1 :	TrlA,	}
    ,}
	packet HdrA
    {
	u8

a,
	}packet	HdrB {
u16

b  ,

}

packet BodyA 
{ 
u32  c ,
} packet

    BodyB  {

    u64	d , }packet
TrlA { u8

e
,  }  root packet  Msg {	Frame	, u8 x , }")).
Eval vm_compute in ("<<<M3440>>>" ++ check (runes_of_ascii "// top
packet // c0a
  // c0b
B // c1
{ // c2a
  // c2b
u8 // c3
a // c4a
  // c4b
,
    // c5
} // c6
root packet P // c9
{ u8 // c11
K // c12a
  // c12b
, // c13
match
    // c14
K
    // c15
as Body // c17a
  // c17b
{
    // c18
1
    // c19
: B // c21
, }
    // c23
, u16 // c25
L @lengthOf( // c27a
  // c27b
Body // c28a
  // c28b
) // c29
, // c30a
  // c30b
} // c31a
  // c31b
")).
Eval vm_compute in ("<<<M3844>>>" ++ check (runes_of_ascii "MetaData

metadata
    {
char[ 3	// " ++ [128512]%N ++ runes_of_ascii " emoji
]
roots  , As zchar
,u msg_type
`say ""hi""`  , float32  options1
`` ,char[]packetx

    ,

    }
root
packet f32a
    {
    char[]
MetaDataX

`{ , }`

,}
	/// triple

  // c
  	packet

    _x {@lengthOf(
A	)

    i64 
x
    ,int@lengthOf(	// " ++ [128512]%N ++ runes_of_ascii " emoji

	MetaDataX

)
,	repeat
BodyLength {
f32
	lengthOf
,
    }  ,

} ")).
Eval vm_compute in ("<<<M1168>>>" ++ check (runes_of_ascii "
packet
    // `tick` ""quote"" 'q'
    asx	{	@lengthOf( calculatedFrom
)
x float `line1
line2` ,
    // " ++ [128512]%N ++ runes_of_ascii " emoji
    Logon @calculatedFrom(
/// triple
// @lengthOf(
""it's"" )`say ""hi""` ,u16 crc , f64// `tick` ""quote"" 'q'
a1 ,} packet
matchKey { @calculatedFrom( """ ++ [28040; 24687]%N ++ runes_of_ascii """ )  asx {
Header packetx// c
`doc` , } , repeat Header _x // packet A { u8 x, }
, Logon , }")).
Eval vm_compute in ("<<<M3787>>>" ++ check (runes_of_ascii "

  packet
    calculatedFrom  // c1
  { @tag( 	 // c3a
    	// c3b
  4294967296  // c4
  ) 	 // c5
	u // c6a
    // c6b
  msg_type 
// c7
      , 
// c8
char[  // c9
3 
// c10
]  
  // c11
	  crc

    // c12
	@lengthOf( // c13a
  // c13b
	len // c14a
	// c14b
    )// c15a
    // c15b
`u8 x,`
    // c16
  ,// c17
  } 
      // c18")).
Eval vm_compute in ("<<<M3943>>>" ++ check (runes_of_ascii "packet stringy {
    falsey @lengthOf(MetaDataX) `crlf
    line`,
    match tag as uint8x {
        ""a\""b"" : charz,
        00 : repeatCount,
        10 : Header,
        ""a	b"" : Pad,
        65535 : metadata,
    },
    @calculatedFrom(""a\""b"")
    //x
    char[255] falsey,
    x_y_z @calculatedFrom(""packet"") `tab	here`,
}")).
Eval vm_compute in ("<<<M4430>>>" ++ check (runes_of_ascii "packet string_ {
    match Pad as Z9_ {
        [42] : trueish,
        // trailing space 
    },
    float32 x `u8 x,`,
    @leftPad('\x00')
    o @lengthOf(x_y_z),
    msg_type @lengthOf(u) `line1
        line2`,
    @calculatedFrom(""a\\"")
    int @calculatedFrom(""packet""),
    BodyLength `// not a comment`,
}")).
Eval vm_compute in ("<<<M4003>>>" ++ check (runes_of_ascii "// @lengthOf(
packet _x {
    @calculatedFrom(""a	b"")
    T rootA ``,
    u64 body @calculatedFrom(""a	b"") `two words`,
    zchar[7] MetaDataX @calculatedFrom(""it's"") `say ""hi""`,
    // trailing space 
    // `tick` ""quote"" 'q'
    f32a {
        repeat zchar[00] roots `" ++ [233]%N ++ runes_of_ascii "`,
    },
}// `tick` ""quote"" 'q'")).
Eval vm_compute in ("<<<M1612>>>" ++ check (runes_of_ascii "root packet Foo // " ++ [128512]%N ++ runes_of_ascii " emoji
{ } options {
    // a // b
    tag // `tick` ""quote"" 'q'
= //	t
""""
    ; u8x = zchar[0  ] }
MetaData
    int {'1' zchar[ 10]
lengthOf	`` , i64 u8x`// not a comment` ,MetaDataX pack// `tick` ""quote"" 'q'
`crlf
line`
, Logon charz `crlf
line`
    ,
    // a // b
    }
")).
Eval vm_compute in ("<<<M1555>>>" ++ check (runes_of_ascii "root packet Foo // " ++ [128512]%N ++ runes_of_ascii " emoji
{ } options {
    // a // b
    tag // `tick` ""quote"" 'q'
= //	t
""""
    ; u8x = zchar[0  ] }
MetaData
    int {zchar[ 10]
lengthOf	`` , i64 u8x`// not a comment` , ,MetaDataX pack// `tick` ""quote"" 'q'
`crlf
line`
, Logon charz `crlf
line`
    ,
    // a // b
    }
")).
Eval vm_compute in ("<<<M1436>>>" ++ check (runes_of_ascii "root packet Foo // " ++ [128512]%N ++ runes_of_ascii " emoji
{ } { options
    // a // b
    tag // `tick` ""quote"" 'q'
= //	t
""""
    ; u8x = zchar[0  ] }
MetaData
    int {zchar[ 10]
lengthOf	`` , i64 u8x`// not a comment` ,MetaDataX pack// `tick` ""quote"" 'q'
`crlf
line`
, Logon charz `crlf
line`
    ,
    // a // b
    }
")).
Eval vm_compute in ("<<<M1596>>>" ++ check (runes_of_ascii "root packet Foo // " ++ [128512]%N ++ runes_of_ascii " emoji
{ } options {
    // a // b
    tag // `tick` ""quote"" 'q'
= //	t
""""
    ; u8x = zchar[0  ] }
MetaData
    int {zchar[ 10]
lengthOf	`` , i64 u8x`// not a comment` ,MetaDataX pack// `tick` ""quote"" 'q'
`crlf
line`
, Logon charz `crlf
line`
    }
    // a // b
    ,
")).
Eval vm_compute in ("<<<M1514>>>" ++ check (runes_of_ascii "root packet Foo // " ++ [128512]%N ++ runes_of_ascii " emoji
{ } options {
    // a // b
    tag // `tick` ""quote"" 'q'
= //	t
""""
    ; u8x = zchar[0  ] }
MetaData
    int {zchar[ ]
lengthOf	`` , i64 u8x`// not a comment` ,MetaDataX pack// `tick` ""quote"" 'q'
`crlf
line`
, Logon charz `crlf
line`
    ,
    // a // b
    }
")).
Eval vm_compute in ("<<<M474>>>" ++ check (runes_of_ascii "options {body // " ++ [27880; 37322]%N ++ runes_of_ascii "
= u16; asx =char[]
;	} MetaData
leftPad { len rootA , int64	BodyLength `say ""hi""` , char[ 00 ] packetx// " ++ [128512]%N ++ runes_of_ascii " emoji
,char[
    // a // b
    42 ] x `// not a comment`  ,
    int i64_
//	t
// `tick` ""quote"" 'q'
`doc` ,
char Pad `two words`// packet A { u8 x, }
, //
}
")).
Eval vm_compute in ("<<<M4137>>>" ++ check (runes_of_ascii "packet T {
}

packet string_ {
    @tag(7)
    repeat uint8 rootA,
    @lengthOf(o)
    float u,// trailing space 
    Packet @calculatedFrom(""a\\""),
    f32 repeatCount `say ""hi""`,
}

packet MetaDataX {
    match leftPad as Packet {
        007 : x,
    },// trailing space 
}")).
Eval vm_compute in ("<<<M1037>>>" ++ check (runes_of_ascii "packet crc // " ++ [27880; 37322]%N ++ runes_of_ascii "
{  zchar[ 0123456789 ]
    A `say ""hi""`,repeat char[
    255 ]u , zchar`// not a comment`//
,}	packet  uint8x { int16 Packet ,
repeat uint8x {
    asx lengthOf , // @lengthOf(
char[0123456789
] // packet A { u8 x, }
asx `line1
line2`
    , } ,
}")).
Eval vm_compute in ("<<<M3422>>>" ++ check (runes_of_ascii "// top
options // c0a
  // c0b
{ // c1a
  // c1b
LittleEndian
    // c2
= true // c4a
  // c4b
; // c5a
  // c5b
} // c6
root // c7
packet
    // c8
P // c9a
  // c9b
{
    // c10
repeat char cs // c13
, // c14a
  // c14b
u8 // c15
x // c16
, // c17
} ")).
Eval vm_compute in ("<<<M3211>>>" ++ check (runes_of_ascii "// top
packet // c0
Logon // c1
{ // c2
@tag( // c3
42 // c4
) // c5
@rightPad // c6
( // c7
' ' // c8
) // c9
@leftPad // c10
( // c11
) // c12
repeat // c13
trueish // c14
{ // c15
string // c16
T // c17
, // c18
} // c19
, // c20
} // c21
")).
Eval vm_compute in ("<<<M3449>>>" ++ check (runes_of_ascii "// top
options
    // c0
{
    // c1
FixedStringPadFromLeft =
    // c3
true // c4
;
    // c5
}
    // c6
root
    // c7
packet P // c9a
  // c9b
{
    // c10
char[
    // c11
4 // c12a
  // c12b
] z
    // c14
, // c15a
  // c15b
} ")).
Eval vm_compute in ("<<<M4499>>>" ++ check (runes_of_ascii "root packet Foo {
}

options {
    // a // b
    tag = """";
    u8x = zchar[0]
}

MetaData int {
    zchar[10] lengthOf ``,
    i64 u8x `// not a comment`,
    MetaDataX pack,
    Logon charz `crlf
    line`,
    // a // b
}")).
Eval vm_compute in ("<<<M3800>>>" ++ check (runes_of_ascii "MetaData Packet {
}

packet asx {
    @lengthOf(asx)
    falsey `crlf
        line`,
}

packet x {
    uint32 rootA,
    u32 options1 `say " ++ [127]%N ++ runes_of_ascii """hi""`,
    @tag(7)
    // packet A { u8 x, }
    msg_type @lengthOf(stringy),
}")).
Eval vm_compute in ("<<<M2326>>>" ++ check (runes_of_ascii "MetaData Packet { }packet	asx  { @lengthOf( asx) falsey`crlf
line`
,
    }
    packet x	{uint32// @lengthOf(
rootA	,u32 options1 `say ""hi""` , , @tag( 7
    )// packet A { u8 x, }
msg_type @lengthOf(
stringy	)	, }

")).
Eval vm_compute in ("<<<M2232>>>" ++ check (runes_of_ascii "MetaData Packet { }asx	packet  { @lengthOf( asx) falsey`crlf
line`
,
    }
    packet x	{uint32// @lengthOf(
rootA	,u32 options1 `say ""hi""` , @tag( 7
    )// packet A { u8 x, }
msg_type @lengthOf(
stringy	)	, }

")).
Eval vm_compute in ("<<<M2225>>>" ++ check (runes_of_ascii "MetaData Packet { packet	asx  { @lengthOf( asx) falsey`crlf
line`
,
    }
    packet x	{uint32// @lengthOf(
rootA	,u32 options1 `say ""hi""` , @tag( 7
    )// packet A { u8 x, }
msg_type @lengthOf(
stringy	)	, }

")).
Eval vm_compute in ("<<<M2219>>>" ++ check (runes_of_ascii "MetaData as { }packet	asx  { @lengthOf( asx) falsey`crlf
line`
,
    }
    packet x	{uint32// @lengthOf(
rootA	,u32 options1 `say ""hi""` , @tag( 7
    )// packet A { u8 x, }
msg_type @lengthOf(
stringy	)	, }

")).
Eval vm_compute in ("<<<M2345>>>" ++ check (runes_of_ascii "MetaData Packet { }packet	asx  { @lengthOf( asx) falsey`crlf
line`
,
    }
    packet x	{uint32// @lengthOf(
rootA	,u32 options1 `say ""hi""` , @tag( 7
    )// packet A { u8 x, }
 @lengthOf(
stringy	)	, }

")).
Eval vm_compute in ("<<<M781>>>" ++ check (runes_of_ascii "//x
MetaData	Z9_ // `tick` ""quote"" 'q'
{ trueish
stringy``
, } options
    {}
// packet A { u8 x, }
// " ++ [128512]%N ++ runes_of_ascii " emoji
packet
    // a // b
    calculatedFrom { string charz@lengthOf( options1 ) `{ , }` , }
")).
Eval vm_compute in ("<<<M3758>>>" ++ check (runes_of_ascii "// a // b
packet tag {
    match As as o {
        ""`tick`"" : float,
    },
    string u128 `two words`,
}

// " ++ [27880; 37322]%N ++ runes_of_ascii "
// packet A { u8 x, }
packet lengthOf {
    int64 u @calculatedFrom(""" ++ [233]%N ++ runes_of_ascii "t" ++ [233]%N ++ runes_of_ascii """),
}")).
Eval vm_compute in ("<<<M1374>>>" ++ check (runes_of_ascii "// c
packet // `tick` ""quote"" 'q'
f32a{ }  MetaData rootA { zchar[007 // trailing space 
] As
, A u,a1
A
,
} root
packet  Logon // @lengthOf(
{	@tag( 1 )	x_y_z
{ repeat
u
_x , } , }")).
Eval vm_compute in ("<<<M3614>>>" ++ check (runes_of_ascii "packet A {
    match k as n {
        [
            ""a"", ""bb"", ""c c"", ""d"", ""e"",
            ""f"", ""g"", ""h"", ""i"", ""j"",
            ""k"", ""l""
        ] : B,
        2 : C,
    },
}")).
Eval vm_compute in ("<<<M3677>>>" ++ check (runes_of_ascii "
// top
	MetaData// c0

_x 	 // c1

  {  // c2
    zchar[  // c3
4294967296	// c4
      ]	// c5
      lengthOf// c6
    `// not a comment`	// c7

  ,// c8
    } // c9
")).
Eval vm_compute in ("<<<M4423>>>" ++ check (runes_of_ascii "packet i8i8 {
    int64 BodyLength @calculatedFrom(""packet""),
    @leftPad()
    zchar[1] calculatedFrom,
    repeat x_y_z,//	t
    T A,
}

MetaData charz {
}// " ++ [27880; 37322]%N)).
Eval vm_compute in ("<<<M3860>>>" ++ check (runes_of_ascii "packet A {
    match k as n {
        [
            1, 22, 007, 4, 5,
            66, 7, 8, 9, 10,
            11, 12
        ] : B,
        2 : C,
    },
}")).
Eval vm_compute in ("<<<M1164>>>" ++ check (runes_of_ascii "packet metadata
    {
    @tag( 3 ) repeat	Logon ,}
    MetaData crc {
// `tick` ""quote"" 'q'
// `tick` ""quote"" 'q'
}
    root packet
x_y_z
    { }

")).
Eval vm_compute in ("<<<M4148>>>" ++ check (runes_of_ascii "
options
	{	repeatCount
=
	u16 // `tick` ""quote"" 'q'
	;
float

=
' '  Logon  =  string
    ;
packetx

=	// " ++ [128512]%N ++ runes_of_ascii " emoji
3//
a1

=
zchar[ 7 ] }
")).
Eval vm_compute in ("<<<M425>>>" ++ check (runes_of_ascii "MetaData metadata {options1 lengthOf , int x_y_z
    `{ , }`  ,u16	tag `it's` ,i8i8 uint8x ,
u16
BodyLength`crlf
line` , u8x len ``
,}
")).
Eval vm_compute in ("<<<M1013>>>" ++ check (runes_of_ascii "MetaData string_ { char[0123456789 ]
Pad	,u128 // " ++ [27880; 37322]%N ++ runes_of_ascii "
Header`` ,Foo u8x ,	leftPad
    trueish
, char[
    /// triple
    1 ]
i64_,
}
")).
Eval vm_compute in ("<<<M3636>>>" ++ check (runes_of_ascii "

  packet calculatedFrom
{
	@tag(4294967296
	)

    u
msg_type

    ,  char[3
    ]
	crc
@lengthOf(	// c
len

)
`u8 x,`

,}
")).
Eval vm_compute in ("<<<M1149>>>" ++ check (runes_of_ascii "
MetaData matchKey {crc
Pad
`{ , }`, string
    roots `tab	here`
    , stringy u,  uint64 u8x `{ , }`
    ,int A//
`u8 x,`
, }
")).
Eval vm_compute in ("<<<M1889>>>" ++ check (runes_of_ascii "packet
    Pad // a // b
{ i8i8 @calculatedFrom( ""a	b"") `u8 x,` ,
} options{ float// " ++ [128512]%N ++ runes_of_ascii " emoji
= @lengthOf f64 i64_
=//	t
00 }
")).
Eval vm_compute in ("<<<M4522>>>" ++ check (runes_of_ascii "
packet o 
{

    @tag(  42)
    repeat x {
    char[
    0123456789	]

i64_, 
    // c
	} 
,
	}

    options
    {}

")).
Eval vm_compute in ("<<<M491>>>" ++ check (runes_of_ascii "packet crc
{	}options { a1 = char[ 3] ;
} root
packet Pad{ }	packet	crc { int32
zchar // @lengthOf(
, } packet pack
{ }
")).
Eval vm_compute in ("<<<M1711>>>" ++ check (runes_of_ascii "root packet /// triple
rootA {	i32
MetaDataX@calculatedFrom( ""CRC32"" ) `line1
line2` , } MetaData BodyLength {
u8
rootA")).
Eval vm_compute in ("<<<M4480>>>" ++ check (runes_of_ascii "
packet
    A
{u16	len
@lengthOf(
body	)  `a
b`
    ,
u32
    crc @calculatedFrom(  ""CRC32"")`a
b` 
,
string
	body

, }")).
Eval vm_compute in ("<<<M1797>>>" ++ check (runes_of_ascii "packet
    Pad // a // b
{ @calculatedFrom( i8i8 ""a	b"") `u8 x,` ,
} options{ float// " ++ [128512]%N ++ runes_of_ascii " emoji
= f64 i64_
=//	t
00 }
")).
Eval vm_compute in ("<<<M1860>>>" ++ check (runes_of_ascii "packet
    Pad // a // b
{ i8i8 @calculatedFrom( ""a	b"") `u8 x,` ,
} options{ float// " ++ [128512]%N ++ runes_of_ascii " emoji
= f64 i64_
//	t
00 }
")).
Eval vm_compute in ("<<<M1873>>>" ++ check (runes_of_ascii "packet
    Pad // a // b
{ i8i8 @calculatedFrom( ""a	b"") `u8 x,` ,
} options{ float// " ++ [128512]%N ++ runes_of_ascii " emoji
= f64 i64_
=//	t
00")).
Eval vm_compute in ("<<<M1818>>>" ++ check (runes_of_ascii "packet
    Pad // a // b
{ i8i8 @calculatedFrom( ""a	b"") : ,
} options{ float// " ++ [128512]%N ++ runes_of_ascii " emoji
= f64 i64_
=//	t
00 }
")).
Eval vm_compute in ("<<<M2377>>>" ++ check (runes_of_ascii "MetaData Packet { }packet	asx  { @lengthOf( asx) falsey`crlf
line`
,
    }
    packet x	{uint32// @lengthO")).
Eval vm_compute in ("<<<M3585>>>" ++ check (runes_of_ascii "
MetaData
lengthOf// a // b
		{	i64	matchKey
// " ++ [128512]%N ++ runes_of_ascii " emoji
		// packet A { u8 x, }
    `say ""hi""`
    , }")).
Eval vm_compute in ("<<<M3344>>>" ++ check (runes_of_ascii "packet calculatedFrom {
// c
@tag( 4294967296 ) u msg_type , char[ 3 ] crc @lengthOf( len ) `u8 x,` , }")).
Eval vm_compute in ("<<<M3754>>>" ++ check (runes_of_ascii "
MetaData

    charz
{int8
	_x

    `tab	here`

    ,
    u64

    Pad

`say ""hi""` ,

    }
")).
Eval vm_compute in ("<<<M3035>>>" ++ check (runes_of_ascii "packet A {
    Inner {
        u8 x `x
`,
        Deep {
            u8 y `x
`,
        },
    },
}")).
Eval vm_compute in ("<<<M1055>>>" ++ check (runes_of_ascii "
MetaData u { stringy metadata
`// not a comment` , u8 len
, _x a1, string
    Z9_
    ,
    }")).
Eval vm_compute in ("<<<M3220>>>" ++ check (runes_of_ascii "packet Logon { // c
@tag( 42 ) @rightPad ( ' ' ) @leftPad ( ) repeat trueish { string T , } , }")).
Eval vm_compute in ("<<<M3252>>>" ++ check (runes_of_ascii "packet Logon { @tag( 42 ) @rightPad ( ' ' ) @leftPad ( ) repeat trueish { string T , // c
} , }")).
Eval vm_compute in ("<<<M4272>>>" ++ check (runes_of_ascii "  packet
A {
	match

    k  as n{

[1 ,  22 
,
""c c"",

4
	]	:B
2

    :
C

    } 
, }
")).
Eval vm_compute in ("<<<M3592>>>" ++ check (runes_of_ascii "packet A {
    match k as n {
        [""a"", ""bb"", ""c c"", ""d""] : B,
        2 : C,
    },
}")).
Eval vm_compute in ("<<<M3913>>>" ++ check (runes_of_ascii "packet
    A {
match
	k as
n

{
[
""a"" 
, 22
	,

    ""c c"" ]  :

    B 
2  :	C},
	}")).
Eval vm_compute in ("<<<M1458>>>" ++ check (runes_of_ascii "root packet Foo // " ++ [128512]%N ++ runes_of_ascii " emoji
{ } options {
    // a // b
    tag // `tick` ""quote"" 'q'
=")).
Eval vm_compute in ("<<<M1999>>>" ++ check (runes_of_ascii "root
packet crc
    { f32a @calculatedFrom( """ ++ [233]%N ++ runes_of_ascii "t" ++ [233]%N ++ runes_of_ascii """ )
    BodyLength, lengthOf `` ,  }")).
Eval vm_compute in ("<<<M4428>>>" ++ check (runes_of_ascii "

  packet
o {

@rightPad

    ( ) // trailing space 
  x_y_z 
calculatedFrom

,}")).
Eval vm_compute in ("<<<M1989>>>" ++ check (runes_of_ascii "root
packet crc
    { f32a @calculatedFrom( ( )
    `say ""hi""`, lengthOf `` ,  }")).
Eval vm_compute in ("<<<M3319>>>" ++ check (runes_of_ascii "packet o { @tag( 42 ) repeat x { char[ 0123456789 ] i64_
// c
, } , } options { }")).
Eval vm_compute in ("<<<M3621>>>" ++ check (runes_of_ascii "options {
    FixedStringPadFromLeft = true;
}

root packet P {
    char[4] z,
}")).
Eval vm_compute in ("<<<M4140>>>" ++ check (runes_of_ascii "packet A {
    // a
    @tag(1)
    u8 x,// b
    // c
    @tag(2)
    u8 y,
}")).
Eval vm_compute in ("<<<M4473>>>" ++ check (runes_of_ascii "root packet Z9_ {
    @rightPad()
    packetx `" ++ [233]%N ++ runes_of_ascii "`,
}

root packet falsey {
}")).
Eval vm_compute in ("<<<M2158>>>" ++ check (runes_of_ascii "root
    // `tick` ""quote"" 'q'
    packet packet As { trueish Packet , }
")).
Eval vm_compute in ("<<<M3744>>>" ++ check (runes_of_ascii "packet  A

    {

    repeat// a
  B // b
  b	// c
		`d` // e
,
}")).
Eval vm_compute in ("<<<M3411>>>" ++ check (runes_of_ascii "MetaData _x { zchar[ 4294967296 ] lengthOf `// not a comment` , // c
}")).
Eval vm_compute in ("<<<M2187>>>" ++ check (runes_of_ascii "root
    // `tick` ""quote"" 'q'
    packet As { trueish Packet , } }
")).
Eval vm_compute in ("<<<M3617>>>" ++ check (runes_of_ascii "MetaData M {
    u8 x `tab
        	x`,
    T t `tab
        	x`,
}")).
Eval vm_compute in ("<<<M2164>>>" ++ check (runes_of_ascii "root
    // `tick` ""quote"" 'q'
    packet = { trueish Packet , }
")).
Eval vm_compute in ("<<<M3003>>>" ++ check (runes_of_ascii "packet A {
    B b `a
b`,
    B `a
b`,
    repeat B bs `a
b`,
}")).
Eval vm_compute in ("<<<M4077>>>" ++ check (runes_of_ascii "

  packet
    i64_
	{

@calculatedFrom(
""\" ++ [233]%N ++ runes_of_ascii """) u16 
a1
,
}
")).
Eval vm_compute in ("<<<M4468>>>" ++ check (runes_of_ascii "
MetaData 
zchar
{
zchar[ 3

    ]

Pad  // c
    ,	}

")).
Eval vm_compute in ("<<<M3015>>>" ++ check (runes_of_ascii "packet A {
    B b `
`,
    B `
`,
    repeat B bs `
`,
}")).
Eval vm_compute in ("<<<M1907>>>" ++ check (runes_of_ascii "
packet	As @calculatedFrom( {//x
""{,}""	)lengthOf , } 	 ")).
Eval vm_compute in ("<<<M530>>>" ++ check (runes_of_ascii "packet	_x  {repeat crc { char[
7 ]
float , }
, } 	 ")).
Eval vm_compute in ("<<<M2404>>>" ++ check (runes_of_ascii "MetaData A
{
i64
chars	@x, } // `tick` ""quote"" 'q'")).
Eval vm_compute in ("<<<M4354>>>" ++ check (runes_of_ascii "  // " ++ [128512]%N ++ runes_of_ascii " emoji
options
	{

u128
    = '\x00'

;}
")).
Eval vm_compute in ("<<<M1775>>>" ++ check (runes_of_ascii "options ~ { }options {  } // `tick` ""quote"" 'q'")).
Eval vm_compute in ("<<<M2175>>>" ++ check (runes_of_ascii "root
    // `tick` ""quote"" 'q'
    packet As {")).
Eval vm_compute in ("<<<M1756>>>" ++ check (runes_of_ascii "options { }options   } // `tick` ""quote"" 'q'")).
Eval vm_compute in ("<<<M54>>>" ++ check (runes_of_ascii "  MetaData
u128{ uint32 lengthOf ,
    }
")).
Eval vm_compute in ("<<<M3025>>>" ++ check (runes_of_ascii "root packet A {
    u8 x `a
    b
  c`,
}")).
Eval vm_compute in ("<<<M2767>>>" ++ check (runes_of_ascii "?.FnyCC|]4Q^]Wpe|<8w(&q'w{$Q$6>[FB=&=G]#")).
Eval vm_compute in ("<<<M2140>>>" ++ check (runes_of_ascii "MetaData x
{// " ++ [128512]%N ++ runes_of_ascii " emoji
/i16 stringy , }")).
Eval vm_compute in ("<<<M2716>>>" ++ check (runes_of_ascii "*IP{x[7V22]v- 1&ZP{7Zwd8_Yk146R_E;GKs+")).
Eval vm_compute in ("<<<M3160>>>" ++ check (runes_of_ascii "MetaData M {
}// c
MetaData N {
}// d")).
Eval vm_compute in ("<<<M3177>>>" ++ check (runes_of_ascii "root // a
 packet // b
 A // c
 { }")).
Eval vm_compute in ("<<<M2828>>>" ++ check (runes_of_ascii "u64 root options `` char[] """" = :")).
Eval vm_compute in ("<<<M2119>>>" ++ check (runes_of_ascii "MetaData x
{// " ++ [128512]%N ++ runes_of_ascii " emoji
i16  , }")).
Eval vm_compute in ("<<<M3088>>>" ++ check (runes_of_ascii "packet A {
 u8 x `d" ++ [8192]%N ++ runes_of_ascii "`, // c" ++ [8192]%N ++ runes_of_ascii "
}")).
Eval vm_compute in ("<<<M3974>>>" ++ check (runes_of_ascii "// c" ++ [8287]%N ++ runes_of_ascii "
packet
    A {
    }

")).
Eval vm_compute in ("<<<M2588>>>" ++ check (runes_of_ascii "packet A { x @lengthOf(), }")).
Eval vm_compute in ("<<<M2123>>>" ++ check (runes_of_ascii "MetaData x
{// " ++ [128512]%N ++ runes_of_ascii " emoji
i16")).
Eval vm_compute in ("<<<M2719>>>" ++ check (runes_of_ascii ";" ++ [65533; 65533]%N ++ runes_of_ascii "M" ++ [29; 4; 65533; 37727]%N ++ runes_of_ascii "nK?" ++ [19; 65533; 65533; 65533]%N ++ runes_of_ascii "B" ++ [19; 16]%N ++ runes_of_ascii "%" ++ [65533; 65533; 65533; 65533]%N ++ runes_of_ascii "<" ++ [65533]%N)).
Eval vm_compute in ("<<<M2665>>>" ++ check (runes_of_ascii "options { options = 1; }")).
Eval vm_compute in ("<<<M2100>>>" ++ check (runes_of_ascii "MetaData A { u64 a" ++ [769]%N ++ runes_of_ascii "b, }")).
Eval vm_compute in ("<<<M2561>>>" ++ check (runes_of_ascii "packet A { repeat u8 }")).
Eval vm_compute in ("<<<M3774>>>" ++ check (runes_of_ascii "root packet roots {
}")).
Eval vm_compute in ("<<<M2570>>>" ++ check (runes_of_ascii "packet A { x y z, }")).
Eval vm_compute in ("<<<M2026>>>" ++ check (runes_of_ascii "root
packet crc
 ")).
Eval vm_compute in ("<<<M3111>>>" ++ check (runes_of_ascii "packet A {
}
// c" ++ [8287]%N)).
Eval vm_compute in ("<<<M2759>>>" ++ check ([65533; 65533; 65533; 65533; 65533; 65533]%N ++ runes_of_ascii "|G" ++ [65533; 65533; 65533; 65533; 7; 65533; 65533]%N ++ runes_of_ascii "qb")).
Eval vm_compute in ("<<<M2657>>>" ++ check (runes_of_ascii "options { a 1; }")).
Eval vm_compute in ("<<<M2628>>>" ++ check (runes_of_ascii "packet A { } ;")).
Eval vm_compute in ("<<<M532>>>" ++ check (runes_of_ascii " /// triple")).
Eval vm_compute in ("<<<M2480>>>" ++ check (runes_of_ascii "@leftPadx")).
Eval vm_compute in ("<<<M3622>>>" ++ check (runes_of_ascii "// c" ++ [8232]%N ++ runes_of_ascii "
")).
Eval vm_compute in ("<<<M2430>>>" ++ check (runes_of_ascii "charz")).
Eval vm_compute in ("<<<M3115>>>" ++ check (runes_of_ascii "// c" ++ [11]%N)).
Eval vm_compute in ("<<<M2679>>>" ++ check (runes_of_ascii "
	 ")).
Eval vm_compute in ("<<<M2670>>>" ++ check (runes_of_ascii "{ }")).
Eval vm_compute in ("<<<M2453>>>" ++ check (runes_of_ascii "a")).
