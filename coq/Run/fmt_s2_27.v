From FP Require Import Lexer Parser ShowPT Digest Formatter.
From Coq Require Import String List NArith.
Import ListNotations.
Open Scope string_scope.
Set Printing Width 100000000.
Set Printing Depth 100000000.
Definition show_fres (r : fres) : string :=
  match r with
  | FOk s => "OK:" ++ sh_escaped s ""
  | FErr s => "ERR:" ++ sh_escaped s ""
  | FPanic p => "PANIC:" ++ p
  end.
Definition check (rs : list rune) : string := digest (show_fres (format_res rs)).
Definition full (rs : list rune) : string := show_fres (format_res rs).
Eval vm_compute in ("<<<M902>>>" ++ check (runes_of_ascii "root packet charz {repeat o
// a // b
// trailing space 
Packet
,} packet	float
{ match
crc
as
    /// triple
    body{""\" ++ [233]%N ++ runes_of_ascii """ :f32a 4294967296 :len
    [ ""// no comment""
    //x
    ]
: lengthOf, 65535 : // c
i64_ ,
//x
//
4294967296 : Pad,} , Logon // trailing space 
, float64 body	@lengthOf( leftPad )
`say ""hi""`
    , match u8x as repeatCount{
    // @lengthOf(
    """ ++ [128512]%N ++ runes_of_ascii """ :
i8i8
    ,
    ""\n"":tag , 7:pack , """ ++ [28040; 24687]%N ++ runes_of_ascii """
//	t
// " ++ [27880; 37322]%N ++ runes_of_ascii "
: calculatedFrom, /// triple
[
    0 ,""it's""	]
:
    int } // c
,char[0] stringy
, repeat float32 trueish  `u8 x,`,char[]	T , } packet  calculatedFrom //	t
{ matchKey	matchKey,@leftPad
/// triple
// `tick` ""quote"" 'q'
(
)msg_type, int16 // packet A { u8 x, }
BodyLength `" ++ [233]%N ++ runes_of_ascii "` , char[
    /// triple
    255] /// triple
packetx , @calculatedFrom( ""x y"" ) match
    Packet as
    uint8x // c
{ ""\n"": repeatCount ,
    [
// packet A { u8 x, }
// packet A { u8 x, }
65535 ] : leftPad ,
    ""\n"" :
trueish,[""" ++ [233]%N ++ runes_of_ascii "t" ++ [233]%N ++ runes_of_ascii """
,
    1 // " ++ [27880; 37322]%N ++ runes_of_ascii "
, ""abc""	,
10]:f32a // " ++ [27880; 37322]%N ++ runes_of_ascii "
[ ""// no comment"" ] : u// @lengthOf(
65535
: matchKey , } , match _x as float{ ""x y"": len  , } ,
    char a1// c
@lengthOf( i64_
)	,_x @calculatedFrom(""\n"")
`// not a comment`  , repeat calculatedFrom{ zchar[ 1] // " ++ [128512]%N ++ runes_of_ascii " emoji
Foo , char[	7] options1 `tab	here`
, //
match
    chars as A
    { 4294967296 : string_
    , } , u8x	@calculatedFrom(""`tick`""
)
, }
    ,
} packet calculatedFrom  {
    @lengthOf(tag ) @leftPad(
    //x
    '\x00'
    // " ++ [27880; 37322]%N ++ runes_of_ascii "
    ) @rightPad
    (
'0')char[ 0123456789
] u128 , rootA
{zchar[ // a // b
4294967296  ]
//	t
// a // b
_x// a // b
@lengthOf(
    metadata // trailing space 
) ,
    } ,	Header u , @calculatedFrom(""it's"" )
// @lengthOf(
// trailing space 
Pad @calculatedFrom( ""abc"" ) , @lengthOf(
u
) @lengthOf( len)
    @rightPad	( ) // trailing space 
int64 uint8x `// not a comment` , } root packet roots { u@lengthOf( i8i8 ) , @calculatedFrom(""\" ++ [233]%N ++ runes_of_ascii """)
    BodyLength
Logon, uint16 body @lengthOf(
f32a )	`a\`, int16 // a // b
zchar , @calculatedFrom(""a	b"" ) u32 u128 // @lengthOf(
`
` ,
    Pad T //	t
`
`,
    }")).
Eval vm_compute in ("<<<M4378>>>" ++ check (runes_of_ascii "packet o {
    crc {
        string leftPad @calculatedFrom(""\n"") `it's`,
        uint16 x_y_z,
        Logon,
        string crc @lengthOf(crc),
    },
    @calculatedFrom("""")
    u64 matchKey ``,
    match leftPad as len {
        00 : charz,
    },
    @tag(007)
    @tag(65535)
    // a // b
    //	t
    repeat stringy crc,
    @lengthOf(f32a)
    match tag as leftPad {
        ""1"" : _x,
    },
    roots {
        tag,
        float64 body,// packet A { u8 x, }
        f64 As @lengthOf(tag) `line1
        line2`,
    },
    i64_ @calculatedFrom(""x y""),// " ++ [128512]%N ++ runes_of_ascii " emoji
    Packet @calculatedFrom(""\n""),
    @lengthOf(BodyLength)
    char[42] int @lengthOf(lengthOf) `say ""hi""`,
}

MetaData u {
    f64 msg_type,
    uint8 As `say ""hi""`,
    leftPad packetx,
    int32 As `tab	here`,
    i64 trueish,
    uint16 calculatedFrom,
}

packet f32a {
    roots x_y_z,
    match body as f32a {
        [255, 10] : BodyLength,
        ""// no comment"" : packetx,
        [
            65535, 4294967296, 255, 7, 0,
            ""{,}"", ""{,}"", """"
        ] : uint8x,
        255 : trueish,
        7 : u128,
        0123456789 : asx,
    },// " ++ [128512]%N ++ runes_of_ascii " emoji
    match A as o {
        0 : trueish,
        ""1"" : i8i8,
        42 : Z9_,
    },
    options1,
    @tag(0123456789)
    repeat zchar {
        Foo @lengthOf(float),/// triple
    },
    match msg_type as u {
        // packet A { u8 x, }
        0123456789 : repeatCount,
    },
    @calculatedFrom(""it's"")
    i64_ @lengthOf(x_y_z),
    char[00] Packet `" ++ [28040; 24687; 31867; 22411]%N ++ runes_of_ascii "`,
    u16 lengthOf `a\`,
    @calculatedFrom(""\" ++ [233]%N ++ runes_of_ascii """)
    i64_ int,
}

packet uint8x {
    string Header @lengthOf(matchKey) `" ++ [28040; 24687; 31867; 22411]%N ++ runes_of_ascii "`,
}

packet crc {
}")).
Eval vm_compute in ("<<<M940>>>" ++ check (runes_of_ascii "  options {
    uint8x = u64 ; crc =	'0'
// @lengthOf(
// " ++ [128512]%N ++ runes_of_ascii " emoji
MetaDataX= '0' ;
    len
    ='0' } MetaData
matchKey
{/// triple
}
packet
// " ++ [128512]%N ++ runes_of_ascii " emoji
/// triple
i64_{ BodyLength
    `tab	here`, @tag(
00 )
repeat string_ ,
    @calculatedFrom( """ ++ [28040; 24687]%N ++ runes_of_ascii """ ) @leftPad ( '0' ) crc @calculatedFrom(
    """ ++ [233]%N ++ runes_of_ascii "t" ++ [233]%N ++ runes_of_ascii """
    ) , @tag(
    1	)  zchar[ 007 ] packetx
`
`,
@leftPad (
'0' ) x @calculatedFrom( ""packet""
    )
// `tick` ""quote"" 'q'
// a // b
,
@lengthOf( A ) /// triple
@calculatedFrom(  ""{,}"" //x
)@rightPad (
'0'  ) string Header `say ""hi""`
// a // b
// c
, @lengthOf(	u8x
)
x Header `doc`
// packet A { u8 x, }
//x
,}
    packet uint8x{ @leftPad (
'\x00')
    @lengthOf( //	t
leftPad	)
    BodyLength u , }	root packet A { @rightPad ( '\x00' )
    @lengthOf(
    leftPad  ) char[ 4294967296 ] A @calculatedFrom( ""// no comment"" ),
    @tag(
42	)
@calculatedFrom( ""packet"")	@calculatedFrom( """ ++ [128512]%N ++ runes_of_ascii """ ) repeat
Z9_ `" ++ [28040; 24687; 31867; 22411]%N ++ runes_of_ascii "` ,
rootA crc // " ++ [27880; 37322]%N ++ runes_of_ascii "
,
    Header ,  char[
    4294967296	]
charz`{ , }` , @calculatedFrom( ""\n"" ) @calculatedFrom(
    ""it's"" ) u64//
stringy
    `" ++ [233]%N ++ runes_of_ascii "` , repeat options1 {
    body
    { lengthOf @calculatedFrom(
    //x
    ""a\\""
)
, options1{ repeat chars leftPad `two words` ,
// " ++ [27880; 37322]%N ++ runes_of_ascii "
// " ++ [27880; 37322]%N ++ runes_of_ascii "
} , } ,repeat// " ++ [27880; 37322]%N ++ runes_of_ascii "
char[] _x , zchar[ 3] options1
    //x
    ,
} ,@lengthOf( packetx ) @leftPad
    ( ' '
    )
    @lengthOf( rootA )float  Packet , @tag( 7 )
repeat
// " ++ [27880; 37322]%N ++ runes_of_ascii "
// trailing space 
u8	matchKey,}
//	t
")).
Eval vm_compute in ("<<<M531>>>" ++ check (runes_of_ascii "root packet
    uint8x// packet A { u8 x, }
{ match trueish
    as body
{
[
    007, ""packet"" ] : metadata
42 : metadata , }
    , }
    MetaData roots{ i64 MetaDataX`a\` // a // b
,
    uint8	float,char[42
]
    u8x , i64 a1 // @lengthOf(
,
o Pad`line1
line2` ,	}
options
{ Foo
= true //	t
;
f32a
    =""a	b"" ; falsey =
true ; } packet //x
float { @calculatedFrom(	""packet"" )repeat
    len , lengthOf
BodyLength ,@lengthOf(charz ) // @lengthOf(
@calculatedFrom( ""{,}"") A
,@tag( 0123456789
//
// @lengthOf(
)
crc,
/// triple
//x
zchar[  1] leftPad`it's` , // @lengthOf(
@lengthOf( metadata ) //x
@lengthOf(matchKey)// trailing space 
@lengthOf( As
    )int16 packetx `// not a comment` //x
, A // " ++ [128512]%N ++ runes_of_ascii " emoji
string_ `{ , }` ,} root
    packet
    roots { @tag(
4294967296)
@lengthOf(
chars  ) repeat tag
//
// packet A { u8 x, }
`// not a comment` ,//	t
@leftPad
    (//	t
' ' )uint16 falsey `say ""hi""` , @tag( 10
    ) leftPad	{
    int8	len `a\`, // a // b
f32a i8i8 , // " ++ [128512]%N ++ runes_of_ascii " emoji
u16 i8i8 ,  uint8
options1
, }
    ,
    @lengthOf( falsey )@tag(
255
) // @lengthOf(
@leftPad (
' ' // " ++ [27880; 37322]%N ++ runes_of_ascii "
)
    repeat float
Foo , zchar[ 3 ]  rootA `tab	here`, @lengthOf(
    uint8x )
packetx Z9_,
    @tag(7) // " ++ [27880; 37322]%N ++ runes_of_ascii "
repeat char[// " ++ [128512]%N ++ runes_of_ascii " emoji
10]calculatedFrom
, }")).
Eval vm_compute in ("<<<M478>>>" ++ check (runes_of_ascii "packet	leftPad {
    } root	packet u128 { char[0 ] body @lengthOf(int)//	t
`two words` , @lengthOf(
// c
// `tick` ""quote"" 'q'
body )// @lengthOf(
Pad { float
    @lengthOf( crc), zchar[ 255 ]roots `tab	here`/// triple
,
    }
,float64 stringy `tab	here` ,
    u x ,
float32 _x	``,x_y_z// c
@lengthOf(matchKey
)
    `it's` , @leftPad
    // trailing space 
    ( '0' ) char[ 65535
    ]
pack `// not a comment`,
char
repeatCount , u8x , charz `" ++ [233]%N ++ runes_of_ascii "` ,
}packet
metadata { zchar[
3 ] As
    @calculatedFrom(
/// triple
// @lengthOf(
""x y"" )
, @leftPad (
' ') // trailing space 
matchKey`two words` , // packet A { u8 x, }
@tag(  3 // packet A { u8 x, }
) BodyLength
    { match zchar as int {
    ""a	b"" :int } // `tick` ""quote"" 'q'
, } , @tag( 7 ) // packet A { u8 x, }
match	x
as
    A	{ //
10 : metadata ,
} , zchar[ //x
3 ] chars ,}
    root
// `tick` ""quote"" 'q'
// a // b
packet u128{ char[]
    Z9_
    @calculatedFrom( ""a\\""// a // b
)
, repeat string lengthOf , string tag, u32 a1 /// triple
`it's`
    , }
packet charz//
{repeat
chars
, @leftPad ( '\x00')
    u16//
u
`two words` , match
    BodyLength as
_x {
7 :
    zchar ,}  ,
}")).
Eval vm_compute in ("<<<M273>>>" ++ check (runes_of_ascii "root packet T // trailing space 
{
//	t
//
@rightPad( // " ++ [27880; 37322]%N ++ runes_of_ascii "
'\x00'
    ) repeat metadata {repeat
    i64 Z9_ , }
    , } options {_x = char[] ; tag
    =
    // packet A { u8 x, }
    uint32 calculatedFrom	=u16;  } packet // c
packetx { @leftPad /// triple
(' '	) int trueish , packetx
{
    leftPad	@lengthOf( //	t
string_ )
    , // `tick` ""quote"" 'q'
repeat o	string_	,  match // " ++ [27880; 37322]%N ++ runes_of_ascii "
stringy as packetx{ 0 :// `tick` ""quote"" 'q'
pack,
    // @lengthOf(
    ""CRC32""	:tag ,
    // trailing space 
    """ ++ [128512]%N ++ runes_of_ascii """:
    Z9_	4294967296 :  chars//x
,007 : calculatedFrom ,10
    : u8x , }
    , } // " ++ [27880; 37322]%N ++ runes_of_ascii "
, repeat BodyLength{ //	t
repeat char[ 3 ]	metadata `a\` ,  repeat char
pack`a\` , char
Header
    //	t
    @calculatedFrom(
""// no comment"")
    ,
    uint32 roots
    @lengthOf( i64_ ) ,
    }
    ,
// a // b
// trailing space 
pack , repeat len Header `
` ,	f64	f32a, char[] x,
    Header @lengthOf(a1	) , asx
@lengthOf( calculatedFrom	) ,  } MetaData roots {
options1 As// a // b
, string_
// `tick` ""quote"" 'q'
// c
float
`{ , }`
/// triple
// packet A { u8 x, }
, // trailing space 
} 	 ")).
Eval vm_compute in ("<<<M154>>>" ++ check (runes_of_ascii "root packet // packet A { u8 x, }
a1 {
    // " ++ [27880; 37322]%N ++ runes_of_ascii "
    repeat leftPad {
    // a // b
    lengthOf
, }
    ,
    @tag(// c
0123456789)int64 repeatCount ``,	match
int as len {
1 : repeatCount , """" : lengthOf,
[
""a\""b""
    , 255,
7 ,""it's"" ,255,
    00 , 7 , ""`tick`""
    //
    ]
    : msg_type , 42 :body
    ,
    } ,
    repeat asx { charz { char[ 007 ]f32a ,
    // a // b
    } ,match
    u as
    Z9_ { """ ++ [233]%N ++ runes_of_ascii "t" ++ [233]%N ++ runes_of_ascii """ : float
,
    // c
    ""1""
: Pad , [
    """", 10 ] // packet A { u8 x, }
: Header , [ 42 ]: repeatCount , 00// a // b
: T , } , } ,
@rightPad ( ' ' )
falsey,
    @tag( 0) @calculatedFrom(	""1"" )
@leftPad (
    '\x00') o , }
    MetaData i64_{ } packet x{
@lengthOf( Header) repeat
msg_type {
    repeat char[ 0123456789 ] u,
    // packet A { u8 x, }
    uint32
BodyLength	@lengthOf( _x) `crlf
line` , },} MetaData Header { Header
    options1,
    f32a
stringy ,
    char[] uint8x `a\` , char[ // trailing space 
1
    // packet A { u8 x, }
    ] u128, i32 Z9_
    ,
    float32 // a // b
msg_type,
    }

")).
Eval vm_compute in ("<<<M903>>>" ++ check (runes_of_ascii "MetaData falsey {
    i8 Logon,// packet A { u8 x, }
len
    metadata
    `doc` ,
} MetaData // " ++ [27880; 37322]%N ++ runes_of_ascii "
Foo{ char[	65535]  calculatedFrom `
`
// a // b
//x
, matchKey// c
zchar ,	u stringy `
` ,
    MetaDataX u `say ""hi""` ,// c
} packet
msg_type {@lengthOf(Z9_)
//x
//x
@lengthOf(
x
)
    @tag( 0
    ) calculatedFrom
    {
msg_type@calculatedFrom(""CRC32"") `say ""hi""` ,repeat	matchKey { repeat
    T
{ char[ // " ++ [27880; 37322]%N ++ runes_of_ascii "
1 ] T ,
repeatCount `line1
line2`
    ,match	int as x {""packet"" //x
:  options1 ,
00
: calculatedFrom 00 : falsey , } , } ,
    char[] uint8x
, match Packet as falsey {
7:// packet A { u8 x, }
f32a , // a // b
10:
u
, 1
:Header ,
[ ""packet"" // " ++ [27880; 37322]%N ++ runes_of_ascii "
, 0
// " ++ [27880; 37322]%N ++ runes_of_ascii "
// @lengthOf(
,""a	b"" ]
:o
0123456789:
    chars}
    , zchar[ 65535 ]
Foo ,} ,
}
    , }// packet A { u8 x, }
root packet u//x
{ @tag(
007
) i32// trailing space 
stringy @lengthOf(
    //
    a1) `{ , }` , } MetaData
string_ { uint64 chars
`crlf
line` ,
    char[ // @lengthOf(
3
    ] u8x `a\` , }")).
Eval vm_compute in ("<<<M387>>>" ++ check (runes_of_ascii "
root  packet chars{
match options1
as zchar { ""a\\""
: Packet }
    // c
    ,u16	metadata @calculatedFrom( ""{,}"" ) ,	repeat A msg_type , @calculatedFrom( ""CRC32"")@lengthOf(
    float ) @lengthOf(MetaDataX )
repeat zchar[0123456789 ] Z9_// c
`{ , }` , @tag(7)
// trailing space 
// a // b
float32
crc
// trailing space 
// packet A { u8 x, }
@lengthOf(charz )
, @tag(
// packet A { u8 x, }
//	t
3 ) calculatedFrom Pad, // c
repeat int32 trueish
, }
    options  {A = zchar[
65535 ] Logon = ""abc""
chars =
    7 Pad = ""\" ++ [233]%N ++ runes_of_ascii """
    }packet int // @lengthOf(
{ @lengthOf(
MetaDataX ) @calculatedFrom(
// packet A { u8 x, }
// a // b
""\" ++ [233]%N ++ runes_of_ascii """
) zchar[
    4294967296
] matchKey @lengthOf( Pad)
`" ++ [28040; 24687; 31867; 22411]%N ++ runes_of_ascii "`
    ,
}
packet As
{
@lengthOf( BodyLength )
    u64 matchKey ,u64
    trueish `" ++ [28040; 24687; 31867; 22411]%N ++ runes_of_ascii "` , @rightPad
( )char[
00]
    A
@calculatedFrom(
    """ ++ [128512]%N ++ runes_of_ascii """ )`say ""hi""`	, repeatCount@lengthOf(BodyLength
// a // b
// `tick` ""quote"" 'q'
) ,
len  ,}")).
Eval vm_compute in ("<<<M1096>>>" ++ check (runes_of_ascii "
MetaData T { char[
    007] x	`// not a comment` , u8 x_y_z
`// not a comment`
//	t
// trailing space 
, As body // " ++ [27880; 37322]%N ++ runes_of_ascii "
, T chars `tab	here`
    , }	root packet
len { A  , @calculatedFrom(""" ++ [128512]%N ++ runes_of_ascii """ )
crc ,x_y_z {falsey { Foo {x@lengthOf(
MetaDataX)`u8 x,` , u64 As
    `// not a comment`	,} , u32 //x
lengthOf `two words` , char[ 42 ]
x_y_z
    // `tick` ""quote"" 'q'
    @lengthOf(Z9_ )
,} ,uint64 asx `it's` , pack	packetx ,
}
    , @rightPad	( ) match
    Foo
    as Packet
{3:
float
// a // b
// " ++ [27880; 37322]%N ++ runes_of_ascii "
, ""x y""  : chars
, [ 7 ] :	trueish	,
    ""`tick`""
:
    x ,
    ""\" ++ [233]%N ++ runes_of_ascii """ : Pad ""// no comment"" : MetaDataX , } , x repeatCount
    //
    `" ++ [28040; 24687; 31867; 22411]%N ++ runes_of_ascii "` , repeat char[
7
] falsey ,
    @lengthOf(int ) @calculatedFrom(
    //
    """"
    /// triple
    ) @tag( 255
)match
u as chars{ 0: Pad 0 : charz,
    ""a\""b"" :	matchKey
    , 42 /// triple
: x}
, @calculatedFrom(
""abc""	) repeat
int64
len  , }")).
Eval vm_compute in ("<<<M4492>>>" ++ check (runes_of_ascii "packet lengthOf {
    crc @calculatedFrom("""") `two words`,
    @lengthOf(crc)
    @calculatedFrom(""x y"")
    u16 Logon `line1
    line2`,
}

MetaData u128 {
}

packet len {
    match options1 as pack {
        00 : BodyLength,
    },
    @calculatedFrom(""a	b"")
    asx Z9_ ``,
    @rightPad()
    u32 calculatedFrom @lengthOf(asx) `doc`,
    @calculatedFrom(""" ++ [28040; 24687]%N ++ runes_of_ascii """)
    uint8x,
    repeat zchar[007] u128,
    stringy {
        repeat zchar[3] A,
        repeat i64 o ``,
        f32 packetx @calculatedFrom(""\" ++ [233]%N ++ runes_of_ascii """),
        packetx charz,
    },
    match int as Z9_ {
        ""a\\"" : crc,
        """" : trueish,
        [00, 4294967296, ""\" ++ [233]%N ++ runes_of_ascii """] : Packet,
    },
    /// triple
    // packet A { u8 x, }
    u8 msg_type @lengthOf(i64_),
}

root packet A {
    BodyLength @lengthOf(stringy),
    rootA As,
    repeat BodyLength options1 `a\`,
}")).
Eval vm_compute in ("<<<M4474>>>" ++ check (runes_of_ascii "  // top
  options 	 // c0
{	// c1
chars 	 // c2
	= // c3
  ""a\\"" // c4
} // c5
    packet  // c6
		Z9_ 	 // c7
  	{ 	 // c8
  match 	 // c9
	BodyLength	// c10
	  as// c11
    roots// c12
	  {  // c13
	""" ++ [28040; 24687]%N ++ runes_of_ascii """ // c14
  : 	 // c15
      falsey // c16

, 	 // c17
      00 	 // c18
:  // c19
u128	// c20
	  0 	 // c21
	: // c22

len // c23
	,  // c24
  007  // c25
: 	 // c26
f32a  // c27
    } // c28
	, 	 // c29
  @tag( // c30

3  // c31
      )// c32
  @calculatedFrom( 	 // c33

	""`tick`""  // c34

)// c35
@leftPad// c36
		( // c37
	' '// c38
  )// c39

string	// c40

  asx// c41
	  ,	// c42
  string // c43
u  // c44
@lengthOf( 	 // c45
		options1 	 // c46
	) 	 // c47

,  // c48
float32// c49
	i64_// c50

	@calculatedFrom( // c51
      ""a\""b""	// c52
)// c53

,// c54
	}// c55
")).
Eval vm_compute in ("<<<M3937>>>" ++ check (runes_of_ascii "packet o {
    repeat char[65535] rootA,
}

packet repeatCount {
    @tag(10)
    @lengthOf(_x)
    repeat int64 f32a `" ++ [233]%N ++ runes_of_ascii "`,
    @leftPad('0')
    @leftPad(' ')
    @tag(3)
    // trailing space 
    o `doc`,
    @calculatedFrom("""")
    string o,
    @lengthOf(msg_type)
    match A as T {
        [
            1, 10, 3, ""packet"", ""a\\"",
            ""x y""
        ] : leftPad,
        ""packet"" : calculatedFrom,
        //	t
        [255] : o,
        42 : int,
    },
    Z9_ float `a\`,
    char[] u,
    @lengthOf(i64_)
    string A @lengthOf(int) `it's`,
    @rightPad('0')
    roots {
        pack @lengthOf(As) `crlf
        line`,// c
        zchar[00] zchar @lengthOf(u8x),
    },
    @tag(0)
    @rightPad()
    @calculatedFrom(""" ++ [128512]%N ++ runes_of_ascii """)
    f32a lengthOf `{ , }`,
}")).
Eval vm_compute in ("<<<M395>>>" ++ check (runes_of_ascii "root packet x { f32
uint8x @calculatedFrom(""it's"" ) , @calculatedFrom(""CRC32"" ) uint8x
// packet A { u8 x, }
// c
`line1
line2`,match
    // packet A { u8 x, }
    uint8x as falsey { 0	:
    chars """ ++ [128512]%N ++ runes_of_ascii """// packet A { u8 x, }
: roots
, 0123456789 : stringy ,""x y""
    : Logon
, } ,  } packet	metadata {  match calculatedFrom as repeatCount // c
{
""it's"" : calculatedFrom 4294967296
    : int,	} ,
    string packetx
    ,
match T // " ++ [128512]%N ++ runes_of_ascii " emoji
as pack {
// `tick` ""quote"" 'q'
// packet A { u8 x, }
""it's"":
    //
    Z9_
, 00:Packet	,
"""" : leftPad , [ 65535]  : pack, }
,
    }
    // " ++ [128512]%N ++ runes_of_ascii " emoji
    MetaData zchar	{Logon uint8x `" ++ [233]%N ++ runes_of_ascii "` ,
stringy leftPad , char[] // packet A { u8 x, }
As `" ++ [28040; 24687; 31867; 22411]%N ++ runes_of_ascii "`
    ,_x trueish  `two words` , u8 o`
`, } 	 ")).
Eval vm_compute in ("<<<M429>>>" ++ check (runes_of_ascii "options
    { Header
    //
    =
    7 // trailing space 
;
Z9_ =true
//
// trailing space 
;  f32a = false Packet
    // c
    = true
    ; }
packet matchKey { char[] Foo
`crlf
line` ,
}
    packet // " ++ [27880; 37322]%N ++ runes_of_ascii "
Pad{ repeat  char[ 7]crc , calculatedFrom , @leftPad
    ()
//x
// " ++ [128512]%N ++ runes_of_ascii " emoji
i16 BodyLength
, @tag(// @lengthOf(
42 // packet A { u8 x, }
) match rootA  as uint8x {""a	b"" :	As, }
,
    @calculatedFrom( """"
    ) repeat x`" ++ [233]%N ++ runes_of_ascii "`	,  @tag(
007 )
    Packet Pad,
uint64
u8x`tab	here` ,
    asx {packetx MetaDataX
,
repeat _x{ asx
{ string rootA `line1
line2` , // a // b
}
, } ,
} // " ++ [128512]%N ++ runes_of_ascii " emoji
, @tag( 007
    ) i64
i64_ ,// " ++ [27880; 37322]%N ++ runes_of_ascii "
@lengthOf(
    Z9_
    ) char[] asx @lengthOf( body )
    ,
}

")).
Eval vm_compute in ("<<<M3263>>>" ++ check (runes_of_ascii "// top
options // c0
{ // c1
chars // c2
= // c3
""a\\"" // c4
} // c5
packet // c6
Z9_ // c7
{ // c8
match // c9
BodyLength // c10
as // c11
roots // c12
{ // c13
""" ++ [28040; 24687]%N ++ runes_of_ascii """ // c14
: // c15
falsey // c16
, // c17
00 // c18
: // c19
u128 // c20
0 // c21
: // c22
len // c23
, // c24
007 // c25
: // c26
f32a // c27
} // c28
, // c29
@tag( // c30
3 // c31
) // c32
@calculatedFrom( // c33
""`tick`"" // c34
) // c35
@leftPad // c36
( // c37
' ' // c38
) // c39
string // c40
asx // c41
, // c42
string // c43
u // c44
@lengthOf( // c45
options1 // c46
) // c47
, // c48
float32 // c49
i64_ // c50
@calculatedFrom( // c51
""a\""b"" // c52
) // c53
, // c54
} // c55
")).
Eval vm_compute in ("<<<M3711>>>" ++ check (runes_of_ascii "
packet

    A	// c1a

// c1b
	{ 

    // c2
  u8	// c3a
  // c3b
a 
// c4
  , 
    // c5
		} 	 // c6a
// c6b
  	packet
    // c7
	B // c8
	{
    // c9
  u16
    // c10

b // c11a

  // c11b
  , }
root  
  // c14
packet
	P 
// c16
{// c17
  u8
    K

, 	 // c20

match
// c21

	K// c22

  as  // c23
	M 
	    // c24
{ 
    // c25

  [ 
	    // c26
	1 // c27a
	// c27b

	, 2 ] 	 // c30
	:

    // c31
A 
    // c32
, 	 // c33a
// c33b

3
	// c34
  :  // c35a
	// c35b
B
	,  // c37
	7: // c39a
    // c39b
  	A  // c40
      , 
    // c41
} 
      // c42
      ,  // c43a
	// c43b
		}
    // c44")).
Eval vm_compute in ("<<<M4428>>>" ++ check (runes_of_ascii "// packet A { u8 x, }
MetaData f32a {
    int64 i8i8,
    u64 Packet ``,
    falsey _x,
    tag roots ``,
    uint32 Foo `two words`,
    char[] asx,
}

packet options1 {
    char[00] u128,
    @calculatedFrom(""`tick`"")
    Header @calculatedFrom(""1""),
    @leftPad()
    match u as o {
        [""a\\""] : stringy,
        ""abc"" : f32a,
    },
    f64 x_y_z @lengthOf(o),
    repeat char[00] int `
        `,
    char[] options1 `{ , }`,// `tick` ""quote"" 'q'
    zchar[00] charz,
    char[] MetaDataX `a\`,
    match packetx as zchar {
        [10, 1] : i8i8,
        ""CRC32"" : Logon,
    },
}")).
Eval vm_compute in ("<<<M4302>>>" ++ check (runes_of_ascii "packet T {
    @calculatedFrom(""\" ++ [233]%N ++ runes_of_ascii """)
    string f32a,
    repeat f32 falsey,/// triple
    @leftPad('0')
    match repeatCount as repeatCount {
        ""a	b"" : body,
    },
    x_y_z @lengthOf(trueish),
    f64 crc,
    @calculatedFrom(""x y"")
    @tag(0)
    @tag(65535)
    int16 u128 @lengthOf(string_) `" ++ [233]%N ++ runes_of_ascii "`,
    @calculatedFrom(""\n"")
    char[0123456789] Foo @calculatedFrom(""CRC32""),
    @calculatedFrom(""a\\"")
    match T as msg_type {
        [65535, 3, 255, 0, ""x y""] : T,
        [3, 10, 65535, ""CRC32"", ""1""] : u,
        4294967296 : a1,
    },
}")).
Eval vm_compute in ("<<<M566>>>" ++ check (runes_of_ascii "packet rootA { } // " ++ [27880; 37322]%N ++ runes_of_ascii "
packet MetaDataX
    // packet A { u8 x, }
    { @leftPad (	'0' )@calculatedFrom( ""`tick`"" ) pack @calculatedFrom( ""1""
) ,f32a {
a1 {lengthOf	{ repeat  uint8 charz	`crlf
line` ,
} , match roots	as
    Packet {
7 : Foo  , ""\" ++ [233]%N ++ runes_of_ascii """
    // c
    : metadata , ""a	b"" ://
trueish
// @lengthOf(
//x
, 0123456789 :
Z9_,  [
    4294967296 , ""packet""
,
"""" /// triple
, 3 , """ ++ [233]%N ++ runes_of_ascii "t" ++ [233]%N ++ runes_of_ascii """ ] : pack
    10 : a1, }	, u16 u128 // " ++ [128512]%N ++ runes_of_ascii " emoji
`" ++ [28040; 24687; 31867; 22411]%N ++ runes_of_ascii "` , } ,}
    ,zchar[ 00]
_x @calculatedFrom( ""x y"" ) `doc`
    ,  } packet
pack { }
")).
Eval vm_compute in ("<<<M3969>>>" ++ check (runes_of_ascii "MetaData	uint8x { _x
    stringy  , 
i8i8	_x	, char[	1
    ]
a1
`it's`

    ,	crc
metadata, 
}packet

Logon{ 	 /// triple
repeat	Logon stringy, 
match
falsey
    as  T 	 /// triple
  	{ [	1 ]:packetx 65535
	:
pack

, [ """ ++ [28040; 24687]%N ++ runes_of_ascii """
    ,  ""abc"" ]:
    metadata 
, 
} // @lengthOf(
    	,@calculatedFrom( ""x y"" 
	    //	t
//
	  )  repeat
	len
{lengthOf
	@calculatedFrom( ""`tick`""  ),	u8x	msg_type	, 
} ,
    @calculatedFrom(
	""\n""

    )
repeat 
    // @lengthOf(
  i64

    BodyLength
    ,} ")).
Eval vm_compute in ("<<<M1262>>>" ++ check (runes_of_ascii "packet MetaDataX {@tag( // @lengthOf(
3  ) int16//	t
Pad `line1
line2`  ,
    @lengthOf( i8i8 ) match u8x
as Packet { 1: u128
    , ""`tick`""
:
matchKey, },@lengthOf(
packetx ) zchar[ 4294967296 ] Z9_// @lengthOf(
@calculatedFrom(
    // a // b
    ""abc""	)  , //	t
@tag( 255)
    int64
i64_ @lengthOf( Packet )  , repeat uint8 u128
    ,As metadata // @lengthOf(
, @lengthOf(
    asx	)
@lengthOf(  A ) //	t
@calculatedFrom( ""CRC32"") //
u8 options1 `say ""hi""`
    , }
")).
Eval vm_compute in ("<<<M1366>>>" ++ check (runes_of_ascii "MetaData
matchKey {}packet a1
    {char[]int`" ++ [28040; 24687; 31867; 22411]%N ++ runes_of_ascii "`	, msg_type @lengthOf( As// trailing space 
)
, @leftPad (//	t
) string roots `// not a comment` , @lengthOf( Logon)string Logon  @lengthOf( crc
),	msg_type { repeat
//x
//	t
u64 a1 ,}// a // b
, char[ 65535 ] /// triple
u @calculatedFrom(/// triple
""it's""
    ) ,
    f32a len, }
root packet asx
    { @leftPad (
    ' ' ) // c
uint16 uint8x@lengthOf( charz
// c
// `tick` ""quote"" 'q'
) `two words`	, }")).
Eval vm_compute in ("<<<M598>>>" ++ check (runes_of_ascii "// a // b
MetaData	options1 { //
Z9_
    calculatedFrom , } root packet Z9_{ int falsey `tab	here` ,	@lengthOf( a1
) @tag(
    007
    // trailing space 
    ) match trueish
as string_ {""a\""b""
:	Pad , ""`tick`"":a1
, [ ""// no comment"" ,7,0 , // " ++ [128512]%N ++ runes_of_ascii " emoji
0 , ""a\""b""
, 10
    , 4294967296 , 007 ] : packetx , [ 00 , // trailing space 
""a\\""] :// c
a1 ""CRC32""
:
    //
    string_,
    3
    :uint8x,} , } packet //
x_y_z{
char//
Logon , }
")).
Eval vm_compute in ("<<<M3434>>>" ++ check (runes_of_ascii "// top
packet
    // c0
B // c1
{
    // c2
u8 a // c4a
  // c4b
,
    // c5
} // c6a
  // c6b
root packet // c8
P // c9
{
    // c10
u8 K
    // c12
, // c13
u8 // c14a
  // c14b
L // c15a
  // c15b
@lengthOf( // c16a
  // c16b
Body
    // c17
)
    // c18
, // c19
match // c20a
  // c20b
K // c21a
  // c21b
as
    // c22
Body // c23a
  // c23b
{ // c24a
  // c24b
1 : // c26
B , }
    // c29
, // c30
} // c31a
  // c31b
")).
Eval vm_compute in ("<<<M1043>>>" ++ check (runes_of_ascii "packet // `tick` ""quote"" 'q'
i8i8 {
    // c
    } MetaData repeatCount
    //	t
    {f32a leftPad
    /// triple
    `" ++ [233]%N ++ runes_of_ascii "` /// triple
, BodyLength leftPad `line1
line2`	, }packet lengthOf
{	@lengthOf( tag)zchar[ 65535] stringy `
` ,match // packet A { u8 x, }
f32a
    as
u8x { 255 : o, [	007
, // c
""" ++ [28040; 24687]%N ++ runes_of_ascii """ , 255, 7, 3
]//x
:body , ""\" ++ [233]%N ++ runes_of_ascii """
    :  zchar	, }, @leftPad( '\x00' ) Pad @calculatedFrom(  """ ++ [28040; 24687]%N ++ runes_of_ascii """
) , }")).
Eval vm_compute in ("<<<M117>>>" ++ check (runes_of_ascii "
packet x { @leftPad ( )	i32 float
,}
    options{  chars =
'0'
    ;Header // c
=
""`tick`""  x =
// `tick` ""quote"" 'q'
//
'\x00' ; rootA = char[	65535  ] ;
}options	{
x =
""it's"" asx
    // " ++ [27880; 37322]%N ++ runes_of_ascii "
    = char[ 007] ;  zchar= int8 ;
//	t
// a // b
zchar =true ; chars= char[]
/// triple
// `tick` ""quote"" 'q'
}
    options {  o  = 7 Logon
=	10 /// triple
body =
    false a1 // c
= ""x y"" }
")).
Eval vm_compute in ("<<<M892>>>" ++ check (runes_of_ascii "// c
packet	uint8x
{ @calculatedFrom(
    ""CRC32"" )  repeat BodyLength,// " ++ [128512]%N ++ runes_of_ascii " emoji
f32a
    ,
}
// @lengthOf(
//x
root packet rootA
    { @lengthOf( BodyLength )
@lengthOf(
roots )	repeat int // " ++ [27880; 37322]%N ++ runes_of_ascii "
roots
,
    @tag(
    007)repeat
float64 o	, @calculatedFrom( """" )
char[ 255	] repeatCount ,
    // " ++ [128512]%N ++ runes_of_ascii " emoji
    int {repeat roots roots , u32 tag  `crlf
line` ,}
    ,	}")).
Eval vm_compute in ("<<<M1014>>>" ++ check (runes_of_ascii "// c
MetaData
    asx {i64_ f32a /// triple
,
stringy	pack
`` , }MetaData  repeatCount
//x
// " ++ [27880; 37322]%N ++ runes_of_ascii "
{ } options { // `tick` ""quote"" 'q'
x=7// @lengthOf(
; Foo
    //
    = 42 x = u64 ;/// triple
x_y_z
= u16 u8x =// c
' ' }
    //x
    packet len	{
    @lengthOf(
    metadata ) @tag( 00 )
@calculatedFrom( """ ++ [233]%N ++ runes_of_ascii "t" ++ [233]%N ++ runes_of_ascii """ ) len , } MetaData repeatCount { A Z9_,
} // c")).
Eval vm_compute in ("<<<M828>>>" ++ check (runes_of_ascii "options {
} //	t
options { MetaDataX =	"""" ; int //x
= true ;
    int
    =""abc"";// @lengthOf(
repeatCount=true T= ""a\\""  ;}
    MetaData len {	A
int ,string T`tab	here` , repeatCount lengthOf	`it's`
,
    Pad
Pad, }MetaData MetaDataX
/// triple
// " ++ [27880; 37322]%N ++ runes_of_ascii "
{
//	t
// trailing space 
uint8
    matchKey `" ++ [233]%N ++ runes_of_ascii "` ,	repeatCount crc  , char[] As
    , }
")).
Eval vm_compute in ("<<<M1220>>>" ++ check (runes_of_ascii "root packet
charz {// packet A { u8 x, }
float64 rootA`
`,	@tag(00 )
    repeat calculatedFrom //	t
a1
`say ""hi""`
    , u8 Foo @lengthOf( T )
    // `tick` ""quote"" 'q'
    , /// triple
}	options {options1 =  i32
    ; Logon // @lengthOf(
=""CRC32"" tag
    // packet A { u8 x, }
    = ""CRC32""}MetaData
_x  { u16 msg_type ,
}

")).
Eval vm_compute in ("<<<M141>>>" ++ check (runes_of_ascii "packet u  { @calculatedFrom( ""CRC32"" ) repeat zchar[ 1] x_y_z`crlf
line` ,
@leftPad
    ( // `tick` ""quote"" 'q'
)
zchar[ // `tick` ""quote"" 'q'
255
]crc// c
, } root
    packet MetaDataX{@tag( 255 )
rootA//x
, }packet f32a {@lengthOf( packetx	) uint8 Z9_ @calculatedFrom(
""CRC32"" )
    /// triple
    ,
    }
")).
Eval vm_compute in ("<<<M927>>>" ++ check (runes_of_ascii "  options
    {calculatedFrom = i32 ; // @lengthOf(
string_
    =
    7 uint8x  =// c
true ;
    } packet chars { string	stringy @lengthOf(
    // c
    stringy )
, } options{ lengthOf
// " ++ [27880; 37322]%N ++ runes_of_ascii "
// c
= //	t
'\x00'
// c
/// triple
matchKey ='0' ; Z9_ = string ;
calculatedFrom =
true	;
metadata= ""a	b"" ; }
")).
Eval vm_compute in ("<<<M3826>>>" ++ check (runes_of_ascii "root packet charz {
    @calculatedFrom(""x y"")
    zchar[0] u128 @calculatedFrom(""x y""),
    u16 MetaDataX,
    zchar[0123456789] u128,
    uint16 u128,
    @lengthOf(int)
    _x Foo `
    `,
    zchar[00] o @calculatedFrom(""packet""),
    rootA `doc`,
    char[] msg_type @calculatedFrom(""" ++ [233]%N ++ runes_of_ascii "t" ++ [233]%N ++ runes_of_ascii """),
}")).
Eval vm_compute in ("<<<M1430>>>" ++ check (runes_of_ascii "root packet Foo // " ++ [128512]%N ++ runes_of_ascii " emoji
{ } } options {
    // a // b
    tag // `tick` ""quote"" 'q'
= //	t
""""
    ; u8x = zchar[0  ] }
MetaData
    int {zchar[ 10]
lengthOf	`` , i64 u8x`// not a comment` ,MetaDataX pack// `tick` ""quote"" 'q'
`crlf
line`
, Logon charz `crlf
line`
    ,
    // a // b
    }
")).
Eval vm_compute in ("<<<M1619>>>" ++ check (runes_of_ascii "root packet Foo // " ++ [128512]%N ++ runes_of_ascii " emoji
{ } options {
    // a //# b
    tag // `tick` ""quote"" 'q'
= //	t
""""
    ; u8x = zchar[0  ] }
MetaData
    int {zchar[ 10]
lengthOf	`` , i64 u8x`// not a comment` ,MetaDataX pack// `tick` ""quote"" 'q'
`crlf
line`
, Logon charz `crlf
line`
    ,
    // a // b
    }
")).
Eval vm_compute in ("<<<M1546>>>" ++ check (runes_of_ascii "root packet Foo // " ++ [128512]%N ++ runes_of_ascii " emoji
{ } options {
    // a // b
    tag // `tick` ""quote"" 'q'
= //	t
""""
    ; u8x = zchar[0  ] }
MetaData
    int {zchar[ 10]
lengthOf	`` , i64 `// not a comment`u8x ,MetaDataX pack// `tick` ""quote"" 'q'
`crlf
line`
, Logon charz `crlf
line`
    ,
    // a // b
    }
")).
Eval vm_compute in ("<<<M1599>>>" ++ check (runes_of_ascii "root packet Foo // " ++ [128512]%N ++ runes_of_ascii " emoji
{ } options {
    // a // b
    tag // `tick` ""quote"" 'q'
= //	t
""""
    ; u8x = zchar[0  ] }
MetaData
    int {zchar[ 10]
lengthOf	`` , i64 u8x`// not a comment` ,MetaDataX pack// `tick` ""quote"" 'q'
`crlf
line`
, Logon charz `crlf
line`
    ,
    // a // b
    
")).
Eval vm_compute in ("<<<M1584>>>" ++ check (runes_of_ascii "root packet Foo // " ++ [128512]%N ++ runes_of_ascii " emoji
{ } options {
    // a // b
    tag // `tick` ""quote"" 'q'
= //	t
""""
    ; u8x = zchar[0  ] }
MetaData
    int {zchar[ 10]
lengthOf	`` , i64 u8x`// not a comment` ,MetaDataX pack// `tick` ""quote"" 'q'
`crlf
line`
, Logon  `crlf
line`
    ,
    // a // b
    }
")).
Eval vm_compute in ("<<<M993>>>" ++ check (runes_of_ascii "packet chars // a // b
{ }
packet int
    { options1 // " ++ [128512]%N ++ runes_of_ascii " emoji
{ repeat int32 u ,char[] Pad `" ++ [28040; 24687; 31867; 22411]%N ++ runes_of_ascii "`, },
    repeat char[] T
/// triple
//	t
,	match u128 as Packet {
""\n"": MetaDataX , ""\n""
    :
falsey
    ""a	b""
:
    i8i8 ,""it's"" : options1	,""`tick`"":
pack , ""\" ++ [233]%N ++ runes_of_ascii """:int  , }	, }
")).
Eval vm_compute in ("<<<M536>>>" ++ check (runes_of_ascii "root packet A  { @rightPad ( ) char[ 0
// @lengthOf(
// trailing space 
] Logon
    //
    @calculatedFrom( ""abc""
)
    `line1
line2` , @calculatedFrom(
""// no comment"" )repeat f64 u128// " ++ [27880; 37322]%N ++ runes_of_ascii "
`line1
line2`// @lengthOf(
, }	options  {BodyLength =	' ' packetx =
""abc"" }")).
Eval vm_compute in ("<<<M3547>>>" ++ check (runes_of_ascii "packet  Sub{ 
u8 
a	,@calculatedFrom( ""CRC16"" )  i16

SubSum

    ,
}root packet

Frame {	u16

    MsgType
,
u16	BodyLen

    @lengthOf( Body)
    ,

    Sub
	Body ,
	string	note 
,

@calculatedFrom(
""CRC16""
	)	i16	Checksum

,
    u8
    tail  ,}")).
Eval vm_compute in ("<<<M3829>>>" ++ check (runes_of_ascii "MetaData trueish

{ 
tag
	Foo
`say ""hi""`  ,

zchar[4294967296 
]
	charz// packet A { u8 x, }

  , 

/// triple
  	// a // b
	Z9_

    _x ,
    char[ 0123456789 ] 
lengthOf
    ,i64
u8x`// not a comment`
,

    f32a a1

    `doc` 
,
    }")).
Eval vm_compute in ("<<<M1207>>>" ++ check (runes_of_ascii "packet repeatCount{ @rightPad ( )@rightPad // " ++ [27880; 37322]%N ++ runes_of_ascii "
(
    // c
    '\x00' ) matchKey // " ++ [27880; 37322]%N ++ runes_of_ascii "
@lengthOf( zchar ) ,	match int as  int { 00:Header, }
    ,
//x
/// triple
@leftPad (
'\x00')
    // @lengthOf(
    repeat o options1`u8 x,`
    ,}
")).
Eval vm_compute in ("<<<M2321>>>" ++ check (runes_of_ascii "MetaData Packet { }packet	asx  { @lengthOf( asx) falsey`crlf
line`
,
    }
    packet x	{uint32// @lengthOf(
rootA	,u32 options1 `say ""hi""` `say ""hi""` , @tag( 7
    )// packet A { u8 x, }
msg_type @lengthOf(
stringy	)	, }

")).
Eval vm_compute in ("<<<M2296>>>" ++ check (runes_of_ascii "MetaData Packet { }packet	asx  { @lengthOf( asx) falsey`crlf
line`
,
    }
    packet x	{uint32 uint32// @lengthOf(
rootA	,u32 options1 `say ""hi""` , @tag( 7
    )// packet A { u8 x, }
msg_type @lengthOf(
stringy	)	, }

")).
Eval vm_compute in ("<<<M1364>>>" ++ check (runes_of_ascii "packet
MetaDataX {
    @lengthOf(
    calculatedFrom // `tick` ""quote"" 'q'
) repeat char[
    3 ] lengthOf ,uint32 msg_type//x
@lengthOf(falsey )
`
`
    , u32 // a // b
u8x@calculatedFrom(  """ ++ [28040; 24687]%N ++ runes_of_ascii """	)`crlf
line` , }
")).
Eval vm_compute in ("<<<M2385>>>" ++ check (runes_of_ascii "MetaData Packet { }packet	asx  { @lengthOf( asx) falsey`crlf
line`
,
    }
    packet x	{uint32// @lengthOf(
rootA	,u32 options1 `say ""hi""` , @tag( 7
    )// packet A { u8 x, }
msg_type @lengthOf(
stringy	)	@, }

")).
Eval vm_compute in ("<<<M2337>>>" ++ check (runes_of_ascii "MetaData Packet { }packet	asx  { @lengthOf( asx) falsey`crlf
line`
,
    }
    packet x	{uint32// @lengthOf(
rootA	,u32 options1 `say ""hi""` , @tag( )
    7// packet A { u8 x, }
msg_type @lengthOf(
stringy	)	, }

")).
Eval vm_compute in ("<<<M2253>>>" ++ check (runes_of_ascii "MetaData Packet { }packet	asx  { @lengthOf( =) falsey`crlf
line`
,
    }
    packet x	{uint32// @lengthOf(
rootA	,u32 options1 `say ""hi""` , @tag( 7
    )// packet A { u8 x, }
msg_type @lengthOf(
stringy	)	, }

")).
Eval vm_compute in ("<<<M3854>>>" ++ check (runes_of_ascii "

  packet
	int {

match roots 

//	t
	// @lengthOf(

	as	//	t
  u8x {
    7	:	packetx, 
0 :As
    ""packet"" : 
	    // a // b
    a1
    // " ++ [27880; 37322]%N ++ runes_of_ascii "

  //x
    , ""packet""	: float

}
, 
Z9_ @lengthOf(	u128
)	,  } ")).
Eval vm_compute in ("<<<M169>>>" ++ check (runes_of_ascii "packet u128 {
string
T
, }
packet
A { Pad { metadata f32a, match  i8i8
    as //x
crc { 7:a1,[ ""1"" ] :Foo	, 7
    : metadata
    // c
    , 65535 : pack
    ,	} , repeat char[] string_, }/// triple
,
}
")).
Eval vm_compute in ("<<<M973>>>" ++ check (runes_of_ascii "// a // b
packet/// triple
tag
    { match	As as o
{
""`tick`"" :
    float , },	string // c
u128 `two words` ,	}
// " ++ [27880; 37322]%N ++ runes_of_ascii "
// packet A { u8 x, }
packet lengthOf	{ int64 u	@calculatedFrom( """ ++ [233]%N ++ runes_of_ascii "t" ++ [233]%N ++ runes_of_ascii """ ) ,	}
")).
Eval vm_compute in ("<<<M1212>>>" ++ check (runes_of_ascii "packet
As {@tag(
7) repeat char[ 4294967296 ]	stringy,int16 falsey
,@tag(
00 )
    repeat u16 rootA
    `crlf
line`// @lengthOf(
,
calculatedFrom charz ,} MetaData a1 {}MetaData asx
{ }
")).
Eval vm_compute in ("<<<M1197>>>" ++ check (runes_of_ascii "
options  { Z9_ =
""\n"" ;calculatedFrom = ""packet"" ;zchar
= ' ' ; } MetaData
    asx { repeatCount	uint8x  `two words`
    ,  a1 A `u8 x,`,
Packet Z9_`crlf
line`
, } options { }
")).
Eval vm_compute in ("<<<M4458>>>" ++ check (runes_of_ascii "root 
packet
	// c1
P 	 // c2

{  u8  // c4

s_u8 	 // c5
	,	// c6
repeat	// c7
    u8 	 // c8
r_u8
	,  u16 	 // c11
    b_len 
// c12

, // c13a
  // c13b

}
    // c14
")).
Eval vm_compute in ("<<<M4064>>>" ++ check (runes_of_ascii "packet A {
    match k as n {
        [
            1, 007, 5, 7, 9,
            11, ""bb"", ""d"", ""f"", ""h"",
            ""j"", ""l""
        ] : B,
        2 : C,
    },
}")).
Eval vm_compute in ("<<<M4098>>>" ++ check (runes_of_ascii "packet float {
    @lengthOf(T)
    repeat charz {
        // c
        packetx @calculatedFrom(""" ++ [28040; 24687]%N ++ runes_of_ascii """) `" ++ [233]%N ++ runes_of_ascii "`,
        char[4294967296] Header,
    },
}/// triple")).
Eval vm_compute in ("<<<M4469>>>" ++ check (runes_of_ascii "MetaData chars {
    char[] body,
    char[] leftPad `tab	here`,
    char Packet,
    f32a trueish,
    rootA i64_,
}

options {
    rootA = zchar[0]
}")).
Eval vm_compute in ("<<<M4131>>>" ++ check (runes_of_ascii "MetaData stringy {
    zchar[255] u `
        `,
    string repeatCount,
    As i8i8 `{ , }`,
    string x_y_z,
    uint16 Pad,
    uint32 asx,
}")).
Eval vm_compute in ("<<<M3846>>>" ++ check (runes_of_ascii "MetaData  Header{ 
f64
lengthOf 
,zchar[
    7 ]
	zchar 

    // `tick` ""quote"" 'q'
	  // `tick` ""quote"" 'q'
    `doc`
	,len
	x_y_z 
,}
")).
Eval vm_compute in ("<<<M719>>>" ++ check (runes_of_ascii "// packet A { u8 x, }
options { falsey =
int64 crc
= i16 // a // b
;
}packet options1
// `tick` ""quote"" 'q'
//x
{ // trailing space 
}")).
Eval vm_compute in ("<<<M4209>>>" ++ check (runes_of_ascii "// c
options {
    //
    repeatCount = '0';
    leftPad = ' ';
    // c
    /// triple
    msg_type = char[10];
}

packet Packet {
}")).
Eval vm_compute in ("<<<M1708>>>" ++ check (runes_of_ascii "root packet /// triple
rootA {	i32
MetaDataX@calculatedFrom( ""CRC32"" ) `line1
line2` , } MetaData BodyLength {
u8
rootA, , } // c")).
Eval vm_compute in ("<<<M1684>>>" ++ check (runes_of_ascii "root packet /// triple
rootA {	i32
MetaDataX@calculatedFrom( ""CRC32"" ) `line1
line2` , } BodyLength MetaData {
u8
rootA, } // c")).
Eval vm_compute in ("<<<M1697>>>" ++ check (runes_of_ascii "root packet /// triple
rootA {	i32
MetaDataX@calculatedFrom( ""CRC32"" ) `line1
line2` , } MetaData BodyLength {

rootA, } // c")).
Eval vm_compute in ("<<<M1782>>>" ++ check (runes_of_ascii "packet packet
    Pad // a // b
{ i8i8 @calculatedFrom( ""a	b"") `u8 x,` ,
} options{ float// " ++ [128512]%N ++ runes_of_ascii " emoji
= f64 i64_
=//	t
00 }
")).
Eval vm_compute in ("<<<M1715>>>" ++ check (runes_of_ascii "root packet /// triple
rootA {	i32
MetaDataX@calculatedFrom( ""CRC32"" ) `line1
line2` , } MetaData BodyLength {
u8
rootA,")).
Eval vm_compute in ("<<<M1826>>>" ++ check (runes_of_ascii "packet
    Pad // a // b
{ i8i8 @calculatedFrom( ""a	b"") `u8 x,` ,
} } options{ float// " ++ [128512]%N ++ runes_of_ascii " emoji
= f64 i64_
=//	t
00 }
")).
Eval vm_compute in ("<<<M4114>>>" ++ check (runes_of_ascii "packet Logon {
    @tag(42)
    @rightPad(' ')
    @leftPad()
    // c
    repeat trueish {
        string T,
    },
}")).
Eval vm_compute in ("<<<M437>>>" ++ check (runes_of_ascii "options { calculatedFrom= ""a\""b"" calculatedFrom=
i64 MetaDataX //
=  ""x y""msg_type = char[1
/// triple
// c
] ;} //x")).
Eval vm_compute in ("<<<M99>>>" ++ check (runes_of_ascii "// c
packet Logon
    {
@tag(
42 )
    repeat i64_ {As crc , }, } packet x_y_z { @lengthOf( x_y_z ) i8
u `it's`, }")).
Eval vm_compute in ("<<<M3187>>>" ++ check (runes_of_ascii "MetaData zchar // c1
{ // c2a
  // c2b
zchar[ // c3a
  // c3b
3 ]
    // c5
Pad // c6
, // c7a
  // c7b
} // c8
")).
Eval vm_compute in ("<<<M2374>>>" ++ check (runes_of_ascii "MetaData Packet { }packet	asx  { @lengthOf( asx) falsey`crlf
line`
,
    }
    packet x	{uint32// @lengthOf")).
Eval vm_compute in ("<<<M2987>>>" ++ check (runes_of_ascii "packet A {
  match k as n {
    [""a"", ""bb"", 007, ""d"", ""e"", 66, ""g"", ""h"", 9, ""j"", ""k""] : B
    2 : C
  },
}")).
Eval vm_compute in ("<<<M3029>>>" ++ check (runes_of_ascii "packet A {
    Inner {
        u8 x `a

b`,
        Deep {
            u8 y `a

b`,
        },
    },
}")).
Eval vm_compute in ("<<<M3369>>>" ++ check (runes_of_ascii "packet calculatedFrom { @tag( 4294967296 ) u msg_type , char[ 3 ] crc @lengthOf( len ) // c
`u8 x,` , }")).
Eval vm_compute in ("<<<M3800>>>" ++ check (runes_of_ascii "  packet  A {	match	k as	n
	{
	[
    1 ,

    ""bb""
    ,
	007
,
""d"",  5	] :

    B
	2	:
C},
}
")).
Eval vm_compute in ("<<<M3017>>>" ++ check (runes_of_ascii "packet A {
    Inner {
        u8 x `
`,
        Deep {
            u8 y `
`,
        },
    },
}")).
Eval vm_compute in ("<<<M3219>>>" ++ check (runes_of_ascii "packet Logon
// c
{ @tag( 42 ) @rightPad ( ' ' ) @leftPad ( ) repeat trueish { string T , } , }")).
Eval vm_compute in ("<<<M3251>>>" ++ check (runes_of_ascii "packet Logon { @tag( 42 ) @rightPad ( ' ' ) @leftPad ( ) repeat trueish { string T
// c
, } , }")).
Eval vm_compute in ("<<<M3807>>>" ++ check (runes_of_ascii "packet	o {
@tag( 42 
)repeat	x
{char[  0123456789
]
i64_ ,
	} 
	// c
  ,
}

options {

} ")).
Eval vm_compute in ("<<<M3889>>>" ++ check (runes_of_ascii "options {
    matchKey = ' '
    tag = '\x00';
    metadata = string;
    charz = 65535;
}")).
Eval vm_compute in ("<<<M1972>>>" ++ check (runes_of_ascii "root
packet crc
    { { f32a @calculatedFrom( """ ++ [233]%N ++ runes_of_ascii "t" ++ [233]%N ++ runes_of_ascii """ )
    `say ""hi""`, lengthOf `` ,  }")).
Eval vm_compute in ("<<<M4036>>>" ++ check (runes_of_ascii "packet

A
	{
Inner{ u8 
x

`x
`
,

Deep

{

    u8
    y
    `x
` ,	}	, 
},
    } ")).
Eval vm_compute in ("<<<M2001>>>" ++ check (runes_of_ascii "root
packet crc
    { f32a @calculatedFrom( """ ++ [233]%N ++ runes_of_ascii "t" ++ [233]%N ++ runes_of_ascii """ )
    `say ""hi""` lengthOf `` ,  }")).
Eval vm_compute in ("<<<M3333>>>" ++ check (runes_of_ascii "packet o { @tag( 42 ) repeat x { char[ 0123456789 ] i64_ , } , } options { }
// c
")).
Eval vm_compute in ("<<<M3310>>>" ++ check (runes_of_ascii "packet o { @tag( 42 ) repeat x { // c
char[ 0123456789 ] i64_ , } , } options { }")).
Eval vm_compute in ("<<<M2020>>>" ++ check (runes_of_ascii "root
packet crc
    { f32a @calculatedFrom( """ ++ [233]%N ++ runes_of_ascii "t" ++ [233]%N ++ runes_of_ascii """ )
    `say ""hi""`, lengthOf ``")).
Eval vm_compute in ("<<<M2904>>>" ++ check (runes_of_ascii "packet A {
  match k as n {
    [""a"", 22, ""c c"", 4, ""e""] : B,
    2 : C
  },
}")).
Eval vm_compute in ("<<<M1211>>>" ++ check (runes_of_ascii "packet
uint8x{ options1 @lengthOf(calculatedFrom
)`crlf
line`, // " ++ [27880; 37322]%N ++ runes_of_ascii "
}
")).
Eval vm_compute in ("<<<M2891>>>" ++ check (runes_of_ascii "packet A {
  match k as n {
    [""a"", 22, ""c c"", 4] : B,
    2 : C
  },
}")).
Eval vm_compute in ("<<<M617>>>" ++ check (runes_of_ascii "  packet	Packet { repeat int16
charz // a // b
,zchar[	65535 ]	tag , }")).
Eval vm_compute in ("<<<M4172>>>" ++ check (runes_of_ascii "  packet

A
{
B
b

    `x
` , B`x
`
    ,repeat 
B bs
`x
` ,
    }")).
Eval vm_compute in ("<<<M2203>>>" ++ check (runes_of_ascii "root
    // `tick` ""quote"" 'q'
    packet As { trueish Packet , "" }
")).
Eval vm_compute in ("<<<M1327>>>" ++ check (runes_of_ascii "MetaData Foo{ lengthOf tag /// triple
,
}
// packet A { u8 x, }
")).
Eval vm_compute in ("<<<M2186>>>" ++ check (runes_of_ascii "root
    // `tick` ""quote"" 'q'
    packet As { trueish Packet , 
")).
Eval vm_compute in ("<<<M3971>>>" ++ check (runes_of_ascii "packet

    A  { match	k
as

n{ 1
: B	// c
,// d
}
	, }

")).
Eval vm_compute in ("<<<M497>>>" ++ check (runes_of_ascii "packet T { u64
asx @calculatedFrom( ""// no comment"" ) ,	} 	 ")).
Eval vm_compute in ("<<<M4177>>>" ++ check (runes_of_ascii "options {
    leftPad = ""it's""
    u8x = 1
    tag = true
}")).
Eval vm_compute in ("<<<M3015>>>" ++ check (runes_of_ascii "packet A {
    B b `
`,
    B `
`,
    repeat B bs `
`,
}")).
Eval vm_compute in ("<<<M1917>>>" ++ check (runes_of_ascii "
packet	As { @calculatedFrom(//x
)	""{,}""lengthOf , } 	 ")).
Eval vm_compute in ("<<<M4260>>>" ++ check (runes_of_ascii "  MetaData
zchar
{

    zchar[3 
]

Pad
	, }// c
")).
Eval vm_compute in ("<<<M1938>>>" ++ check (runes_of_ascii "
packet	As { @calculatedFrom(//x
""{,}""	)lengthOf ,")).
Eval vm_compute in ("<<<M3743>>>" ++ check (runes_of_ascii "
options
	{
a

= 
1	// c
    b

=2  ;// d
    }
")).
Eval vm_compute in ("<<<M1770>>>" ++ check (runes_of_ascii "options { }options {  } // `tick` ""quo''te"" 'q'")).
Eval vm_compute in ("<<<M4002>>>" ++ check (runes_of_ascii "packet Z9_ {
}// a // b

root packet roots {
}")).
Eval vm_compute in ("<<<M2170>>>" ++ check (runes_of_ascii "root
    // `tick` ""quote"" 'q'
    packet As")).
Eval vm_compute in ("<<<M847>>>" ++ check (runes_of_ascii "// a // b
options{ Logon = 255 // " ++ [27880; 37322]%N ++ runes_of_ascii "
;}

")).
Eval vm_compute in ("<<<M3207>>>" ++ check (runes_of_ascii "MetaData zchar { zchar[ 3 ] Pad , }
// c
")).
Eval vm_compute in ("<<<M2781>>>" ++ check (runes_of_ascii "} char[] uint64 @calculatedFrom( ""a	b"" :")).
Eval vm_compute in ("<<<M2145>>>" ++ check (runes_of_ascii "MetaData x
{// " ++ [128512]%N ++ runes_of_ascii " emoji
i16 " ++ [233]%N ++ runes_of_ascii "stringy , }")).
Eval vm_compute in ("<<<M2716>>>" ++ check (runes_of_ascii "*IP{x[7V22]v- 1&ZP{7Zwd8_Yk146R_E;GKs+")).
Eval vm_compute in ("<<<M3836>>>" ++ check (runes_of_ascii "packet A {
}

options {
    T = '0'
}")).
Eval vm_compute in ("<<<M2776>>>" ++ check (runes_of_ascii "@rightPad char : = char packet true")).
Eval vm_compute in ("<<<M2610>>>" ++ check (runes_of_ascii "packet A { match k n { 1 : B }, }")).
Eval vm_compute in ("<<<M3884>>>" ++ check (runes_of_ascii "options {
    x = zchar[65535]
}")).
Eval vm_compute in ("<<<M2853>>>" ++ check (runes_of_ascii "$+K" ++ [807]%N ++ runes_of_ascii "j6N" ++ [31; 65533]%N ++ runes_of_ascii "x" ++ [65533; 65533; 65533]%N ++ runes_of_ascii "+" ++ [65533]%N ++ runes_of_ascii "d" ++ [15; 65533]%N ++ runes_of_ascii "m" ++ [65533; 23]%N ++ runes_of_ascii "+" ++ [24; 1; 65533; 65533; 65533]%N ++ runes_of_ascii "cb" ++ [65533]%N)).
Eval vm_compute in ("<<<M2725>>>" ++ check (runes_of_ascii ", packet as MetaData ] int8 (")).
Eval vm_compute in ("<<<M943>>>" ++ check (runes_of_ascii "
MetaData a1{ // a // b
}")).
Eval vm_compute in ("<<<M2086>>>" ++ check (runes_of_ascii "MetaData A { u64 pack, }@x")).
Eval vm_compute in ("<<<M2576>>>" ++ check (runes_of_ascii "packet A { char[ x ] y, }")).
Eval vm_compute in ("<<<M2578>>>" ++ check (runes_of_ascii "packet A { char[ 3 ] , }")).
Eval vm_compute in ("<<<M2100>>>" ++ check (runes_of_ascii "MetaData A { u64 a" ++ [769]%N ++ runes_of_ascii "b, }")).
Eval vm_compute in ("<<<M2700>>>" ++ check (runes_of_ascii "K gGV$myFaQIVqDT=DBdbG")).
Eval vm_compute in ("<<<M4173>>>" ++ check (runes_of_ascii "// c" ++ [8287]%N ++ runes_of_ascii "
	packet	A
	{}

")).
Eval vm_compute in ("<<<M2537>>>" ++ check (runes_of_ascii ": , ; = ( ) [ ] { }")).
Eval vm_compute in ("<<<M2712>>>" ++ check (runes_of_ascii "dA]ucOM4KH8ZrzZ}/;")).
Eval vm_compute in ("<<<M3121>>>" ++ check (runes_of_ascii "packet A {
}
// c" ++ [12]%N)).
Eval vm_compute in ("<<<M2819>>>" ++ check (runes_of_ascii "1c9fP,9u8%sQZ4{.)")).
Eval vm_compute in ("<<<M2793>>>" ++ check (runes_of_ascii ", ] = ""`tick`"" {")).
Eval vm_compute in ("<<<M2627>>>" ++ check (runes_of_ascii "packet A { } }")).
Eval vm_compute in ("<<<M4041>>>" ++ check (runes_of_ascii "packet A {
}")).
Eval vm_compute in ("<<<M2478>>>" ++ check (runes_of_ascii "@rightPad")).
Eval vm_compute in ("<<<M2461>>>" ++ check (runes_of_ascii "repeats")).
Eval vm_compute in ("<<<M3582>>>" ++ check (runes_of_ascii "///
 
")).
Eval vm_compute in ("<<<M3075>>>" ++ check (runes_of_ascii "// c" ++ [133]%N)).
Eval vm_compute in ("<<<M2524>>>" ++ check (runes_of_ascii "0x10")).
Eval vm_compute in ("<<<M2531>>>" ++ check (runes_of_ascii "a_b")).
Eval vm_compute in ("<<<M2553>>>" ++ check ([233]%N ++ runes_of_ascii "a")).
