From FP Require Import Lexer Parser ShowPT Digest Formatter.
From Coq Require Import String List NArith.
Import ListNotations.
Open Scope string_scope.
Set Printing Width 100000000.
Set Printing Depth 100000000.
Definition show_fres (r : fres) : string :=
  match r with
  | FOk s => "OK:" ++ sh_escaped s ""
  | FErr s => "ERR:" ++ sh_escaped s ""
  | FPanic p => "PANIC:" ++ p
  end.
Definition check (rs : list rune) : string := digest (show_fres (format_res rs)).
Definition full (rs : list rune) : string := show_fres (format_res rs).
Eval vm_compute in ("<<<M1458>>>" ++ check (runes_of_ascii "// top
options
    // c0
{ // c1
LittleEndian // c2a
  // c2b
= // c3
true // c4
; // c5a
  // c5b
FixedStringPadFromLeft // c6a
  // c6b
= true // c8
; FixedStringPadChar = // c11
'0' // c12
;
    // c13
}
    // c14
packet // c15a
  // c15b
Trade
    // c16
{ string clOrdID
    // c19
, char[]
    // c21
Px // c22
, // c23
u32 // c24a
  // c24b
x // c25
, // c26a
  // c26b
} // c27
packet // c28
Reject
    // c29
{ // c30
int32 Side2 // c32
,
    // c33
repeat // c34
char[ // c35a
  // c35b
3 ] // c37
clOrdID // c38a
  // c38b
, i32 // c40
tag7 // c41a
  // c41b
, // c42a
  // c42b
} // c43a
  // c43b
packet
    // c44
Leg
    // c45
{ } root
    // c48
packet Quote
    // c50
{
    // c51
string // c52
Side2 , string
    // c55
lastPx
    // c56
,
    // c57
InSym58 { int16 OrderId // c61a
  // c61b
, // c62a
  // c62b
Reject // c63
, // c64
i8 Qty // c66
,
    // c67
i64
    // c68
venue , f32 // c71
Note , // c73
} // c74
, // c75a
  // c75b
char[]
    // c76
count // c77
, zchar[ 9 ] // c81a
  // c81b
price
    // c82
, // c83
u16 // c84a
  // c84b
Qty
    // c85
,
    // c86
match // c87a
  // c87b
Qty // c88
as // c89
Body
    // c90
{ // c91
69 // c92a
  // c92b
: // c93
Leg , 48 // c96a
  // c96b
: // c97
Trade // c98a
  // c98b
,
    // c99
51
    // c100
: // c101
Reject // c102a
  // c102b
, // c103
} // c104
, u16
    // c106
Acct // c107
@calculatedFrom( // c108
""CRC32"" // c109a
  // c109b
) , // c111a
  // c111b
} ")).
Eval vm_compute in ("<<<M2002>>>" ++ check (runes_of_ascii "// top
  	root 
    // c0
  packet
// c1
	  msg_type 

// c2

	{ 

    // c3
		i64  
      // c4
		options1  
  // c5
	, 
// c6
  @lengthOf(
	// c7
      f32a
// c8
	) 
      // c9
  repeat 
    // c10
	uint16 
  // c11
		Foo
    // c12
  ,
    // c13

	@calculatedFrom( 
  // c14
		""x y"" 

// c15

) 
    // c16
  	repeat 

// c17
int64
        // c18
  	pack

    // c19

	, 

    // c20
	@leftPad 
    // c21
(
	    // c22
    ' ' 
    // c23
    ) 
    // c24
		uint8
    // c25
	Foo
// c26
, 
        // c27
  }
// c28
	packet 
      // c29
	rootA  
  // c30

	{
    // c31
  f32a
// c32

x 

// c33

	`two words` 
  // c34
		, 
      // c35
  char 

    // c36
  asx
    // c37
    	@lengthOf( 

    // c38
      falsey 
	// c39
) 

// c40
	`u8 x,` 
// c41
  , 

// c42
    @lengthOf( 
  // c43
	i64_ 
    // c44
	)
// c45

  uint16
// c46
  	chars
	    // c47
  	,  
      // c48
  @tag(
    // c49
    0 
        // c50

  ) 
	// c51
    string

    // c52
	_x 
        // c53
@calculatedFrom( 

// c54
	""abc""  
  // c55
  )

// c56
`// not a comment` 

// c57

, 
        // c58
	}  
      // c59
")).
Eval vm_compute in ("<<<M165>>>" ++ check (runes_of_ascii "packet uint8x { @lengthOf( Pad )
    Foo ,} root packet Foo  {
char[] i64_
    @calculatedFrom( ""a	b"" ) `u8 x,`
    // @lengthOf(
    , zchar[
    // trailing space 
    3]
    tag
@lengthOf( tag ), @lengthOf(	falsey) options1
//x
/// triple
@lengthOf(  repeatCount ) ,
string
matchKey `crlf
line` ,} packet metadata { //	t
uint32
    i8i8 , }
root packet
Header {
@lengthOf( _x ) @lengthOf(
A )metadata
    tag
    // trailing space 
    `
` ,x_y_z `tab	here`
    ,
    Pad // " ++ [128512]%N ++ runes_of_ascii " emoji
, @calculatedFrom(
    """ ++ [128512]%N ++ runes_of_ascii """ )
    //x
    repeat string f32a`crlf
line`, string packetx	@calculatedFrom( ""a\\""
)
    , }  packet
    // packet A { u8 x, }
    u8x { pack, @calculatedFrom( ""// no comment"" // `tick` ""quote"" 'q'
)packetx, match options1// trailing space 
as chars { ""1"" :
Logon
// a // b
// a // b
, 7 :
trueish } ,
match asx  as
    /// triple
    Logon {	[ 3 ]: _x , [
    ""// no comment"" , 7 , """ ++ [233]%N ++ runes_of_ascii "t" ++ [233]%N ++ runes_of_ascii """  ,""it's""
,1 ]
    : i8i8 // " ++ [27880; 37322]%N ++ runes_of_ascii "
[
/// triple
// " ++ [27880; 37322]%N ++ runes_of_ascii "
""1"" ] : T , } , } // a // b")).
Eval vm_compute in ("<<<M1427>>>" ++ check (runes_of_ascii "options {
    LittleEndian = true;
    StringPrefixLenType = u32;
    FixedStringPadChar = '0';
}
packet Logout {
    repeat InMsgkind49 {
        u8 pad0,
    },
    repeat char[5] seqNo,
    repeat u8 price,
}
packet Party {
    zchar[7] Qty,
}
packet Logon {
    repeat InRef10 {
        string price,
        char[] sym,
        repeat Logout,
    },
    repeat char[3] count,
    repeat Party,
    char[] tag7,
    @rightPad('0') char[2] clOrdID,
}
packet Order {
    InTail13 {
        Party,
    },
    repeat char[4] count,
}
root packet Cancel {
    Logout,
    @leftPad('0') char[9] msgKind,
    string lastPx,
    string tag7,
    zchar[1] OrderId,
    repeat Party,
    u16 sym,
    u16 Acct @lengthOf(Body),
    match sym as Body {
        [24, 44] : Logout,
        160 : Order,
        91 : Logon,
        43 : Party,
    },
    u16 Tail @calculatedFrom(""CRC32""),
}
")).
Eval vm_compute in ("<<<M5>>>" ++ check (runes_of_ascii "root packet // a // b
chars{
    u32
u8x `it's`
    , A o
,
Packet {u/// triple
`doc` , repeat
// @lengthOf(
// " ++ [128512]%N ++ runes_of_ascii " emoji
Header
    u8x  ,
i8i8
As , } , @calculatedFrom(
// `tick` ""quote"" 'q'
// trailing space 
""a\\"" ) charz
    { //x
char[]a1 , //
string Pad , x repeatCount
, metadata {
chars{ body`a\`  , match
    trueish as lengthOf
    { 0:u8x
    , } , match packetx as	string_  {0123456789
:BodyLength , } , } ,
repeat calculatedFrom
    roots
    ,
repeat
Packet
    ,int32 Logon, }
    ,// c
}, repeatCount,
    @lengthOf( float) match trueish as Header { [ ""{,}"" , ""1""
]
    : // " ++ [27880; 37322]%N ++ runes_of_ascii "
f32a ,} ,	i16 chars
    , match As  as Pad { 3: f32a , [ 4294967296
    ] : body,[	""{,}""
]
: u8x // `tick` ""quote"" 'q'
, ""a	b"" :
    Z9_,
    // packet A { u8 x, }
    } ,// " ++ [27880; 37322]%N ++ runes_of_ascii "
} //x")).
Eval vm_compute in ("<<<M1179>>>" ++ check (runes_of_ascii "// top
options // c0
{
    // c1
chars // c2a
  // c2b
= ""a\\"" // c4a
  // c4b
} // c5a
  // c5b
packet
    // c6
Z9_ // c7a
  // c7b
{ // c8a
  // c8b
match // c9
BodyLength
    // c10
as roots
    // c12
{ """ ++ [28040; 24687]%N ++ runes_of_ascii """ // c14a
  // c14b
: falsey
    // c16
,
    // c17
00
    // c18
: u128 // c20a
  // c20b
0
    // c21
:
    // c22
len , // c24a
  // c24b
007 // c25
:
    // c26
f32a }
    // c28
, @tag(
    // c30
3 // c31
) @calculatedFrom( // c33
""`tick`""
    // c34
) @leftPad (
    // c37
' ' ) // c39
string // c40
asx // c41
, // c42a
  // c42b
string // c43a
  // c43b
u @lengthOf( options1 ) // c47a
  // c47b
, float32 // c49a
  // c49b
i64_ @calculatedFrom( ""a\""b"" // c52a
  // c52b
) // c53
, // c54
} // c55
")).
Eval vm_compute in ("<<<M1404>>>" ++ check (runes_of_ascii "// top
packet // c0
MDSnapshotZZ { // c2a
  // c2b
u8 a
    // c4
, } // c6
packet // c7a
  // c7b
OrderACK // c8a
  // c8b
{ u16 b
    // c11
, // c12a
  // c12b
} // c13
packet
    // c14
HTTPServerInfo {
    // c16
string s
    // c18
, } root // c21a
  // c21b
packet // c22
FIXMsg // c23
{ // c24
u8 // c25
KType , MDSnapshotZZ , repeat // c30a
  // c30b
OrderACK
    // c31
, // c32a
  // c32b
match
    // c33
KType // c34a
  // c34b
as
    // c35
Body // c36
{ 1 : // c39
HTTPServerInfo // c40
, // c41
2 // c42
: // c43
OrderACK // c44a
  // c44b
, // c45
} // c46a
  // c46b
, // c47a
  // c47b
} // c48a
  // c48b
")).
Eval vm_compute in ("<<<M194>>>" ++ check (runes_of_ascii "// " ++ [128512]%N ++ runes_of_ascii " emoji
packet// @lengthOf(
int { match zchar
as _x {	[ 4294967296 ]
    :
x_y_z ,[
""a\""b"" // @lengthOf(
]  :chars ,
    [
    ""it's"" , ""\" ++ [233]%N ++ runes_of_ascii """ , ""packet""
    ,""{,}"" ] :
f32a
}, x { repeat asx{ zchar[  0123456789
]crc `crlf
line`, msg_type	i8i8`crlf
line` ,
    uint16
rootA @calculatedFrom( ""a\\"" )
    // @lengthOf(
    , Logon x_y_z
`" ++ [233]%N ++ runes_of_ascii "` , },
} , } packet
u{ match
    pack as trueish //x
{ ""1"" : len """ ++ [128512]%N ++ runes_of_ascii """ : leftPad ,4294967296 // @lengthOf(
:	metadata
, }
    ,int T  `line1
line2` ,f32 Logon
    , } options {
    }
")).
Eval vm_compute in ("<<<M1578>>>" ++ check (runes_of_ascii "root packet options1 {
    @lengthOf(msg_type)
    Logon @lengthOf(packetx) `
    `,
    As {
        repeat T `
        `,
        float64 Foo `crlf
        line`,
        repeat repeatCount x_y_z `a\`,
        int8 msg_type,
    },// `tick` ""quote"" 'q'
    msg_type @lengthOf(body),
    u64 rootA @calculatedFrom(""" ++ [128512]%N ++ runes_of_ascii """),
    @calculatedFrom(""packet"")
    i32 Header,
    uint32 BodyLength @lengthOf(trueish),
    @lengthOf(f32a)
    f32 Z9_ `{ , }`,
}// a // b")).
Eval vm_compute in ("<<<M220>>>" ++ check (runes_of_ascii "
packet	float // a // b
{ // c
}
packet u128 { @calculatedFrom(	""1"") asx x_y_z `" ++ [28040; 24687; 31867; 22411]%N ++ runes_of_ascii "` ,}
    root packet
    u8x { repeat uint8x	T
, }
packet leftPad
    {
i64_,@leftPad ( '0' )
repeat	tag
,repeat  uint8x  {	matchKey @calculatedFrom( ""abc""
    ) , string charz ,
    }// trailing space 
,@rightPad
( )zchar[ 10] charz
    @calculatedFrom( """ ++ [128512]%N ++ runes_of_ascii """ )	`// not a comment` , // trailing space 
}
// @lengthOf(
")).
Eval vm_compute in ("<<<M235>>>" ++ check (runes_of_ascii "root //x
packet
rootA
{ @leftPad ( '\x00'
    ) @rightPad
    (' ' )
    // a // b
    @tag(0 ) repeat zchar[ 3 ] matchKey
    , // packet A { u8 x, }
} packet u8x { } options
    { packetx= '0'
Pad = '\x00' Logon
    =  false ;}
// " ++ [128512]%N ++ runes_of_ascii " emoji
// c
MetaData u8x {i32 rootA
    , MetaDataX zchar`" ++ [233]%N ++ runes_of_ascii "` , // packet A { u8 x, }
int64 Foo `// not a comment` ,
}
")).
Eval vm_compute in ("<<<M219>>>" ++ check (runes_of_ascii "root packet x {string
packetx
    // @lengthOf(
    `{ , }`, char stringy`// not a comment`
, match charz as
u128
{ """ ++ [128512]%N ++ runes_of_ascii """
: _x,0 : options1 // packet A { u8 x, }
42
    :trueish , [
// @lengthOf(
// `tick` ""quote"" 'q'
""it's"" , 00
, """ ++ [28040; 24687]%N ++ runes_of_ascii """  , ""\n""
    // trailing space 
    , 255 , 00 ]
: lengthOf ,
    1:len
    , },}
")).
Eval vm_compute in ("<<<M1958>>>" ++ check (runes_of_ascii "options {
    LittleEndian = true;
    ArrayPrefixLenType = u64;
    FixedStringPadFromLeft = false;
}

packet Quote {
}

root packet Order {
    i64 Side2,
    Quote,
    u32 Px,
    match Px as Body {
        [119, 147] : Quote,
    },
    u16 Flags @calculatedFrom(""CR\
    C32""),
}")).
Eval vm_compute in ("<<<M1336>>>" ++ check (runes_of_ascii "// top
options // c0a
  // c0b
{ // c1a
  // c1b
LittleEndian
    // c2
= true // c4a
  // c4b
; // c5a
  // c5b
} // c6
root // c7
packet
    // c8
P // c9a
  // c9b
{
    // c10
repeat char cs // c13
, // c14a
  // c14b
u8 // c15
x // c16
, // c17
} ")).
Eval vm_compute in ("<<<M462>>>" ++ check (runes_of_ascii "options
{
matchKey = 42/// triple
x='0' ;
// packet A { u8 x, }
//
charz
=
// packet A { u8 x, }
// trailing space 
true  ; } MetaData BodyLength BodyLength
{
uint8
pack,zchar[ 1]float ,  float32 x_y_z `` ,u32
_x,i16 body  , }
")).
Eval vm_compute in ("<<<M559>>>" ++ check (runes_of_ascii "options
{
matchKey = 42/// triple
x='0' ;
// packet A { u8 x, }
//
charz
=
// packet A { u8 x, }
// trailing space 
true  ; } MetaData BodyLength
{
uint8
pack,zchar[ 1]float ,  float32 x_y_z `` ,u32
_x,i16 body  char[] }
")).
Eval vm_compute in ("<<<M507>>>" ++ check (runes_of_ascii "options
{
matchKey = 42/// triple
x='0' ;
// packet A { u8 x, }
//
charz
=
// packet A { u8 x, }
// trailing space 
true  ; } MetaData BodyLength
{
uint8
pack,zchar[ 1]float , ,  float32 x_y_z `` ,u32
_x,i16 body  , }
")).
Eval vm_compute in ("<<<M398>>>" ++ check (runes_of_ascii "options
{
= matchKey 42/// triple
x='0' ;
// packet A { u8 x, }
//
charz
=
// packet A { u8 x, }
// trailing space 
true  ; } MetaData BodyLength
{
uint8
pack,zchar[ 1]float ,  float32 x_y_z `` ,u32
_x,i16 body  , }
")).
Eval vm_compute in ("<<<M548>>>" ++ check (runes_of_ascii "options
{
matchKey = 42/// triple
x='0' ;
// packet A { u8 x, }
//
charz
=
// packet A { u8 x, }
// trailing space 
true  ; } MetaData BodyLength
{
uint8
pack,zchar[ 1]float ,  float32 x_y_z `` ,u32
_x,body i16  , }
")).
Eval vm_compute in ("<<<M1818>>>" ++ check (runes_of_ascii "options {
    matchKey = 42/// triple
    x = char[];
    // packet A { u8 x, }
    //
    charz = true;
}

MetaData BodyLength {
    uint8 pack,
    zchar[1] float,
    float32 x_y_z ``,
    u32 _x,
    i16 body,
}")).
Eval vm_compute in ("<<<M7>>>" ++ check (runes_of_ascii "MetaData trueish {	tag Foo `say ""hi""` , zchar[ 4294967296 ]
    charz // packet A { u8 x, }
,
/// triple
// a // b
Z9_ _x ,
char[	0123456789 ] lengthOf
    , i64 u8x `// not a comment` , f32a a1 `doc`,	}
")).
Eval vm_compute in ("<<<M86>>>" ++ check (runes_of_ascii "
packet calculatedFrom { } MetaData charz
{
Z9_
    // @lengthOf(
    Pad // a // b
, uint64
// packet A { u8 x, }
// a // b
u `" ++ [233]%N ++ runes_of_ascii "` , char[
00]
Z9_,	}// `tick` ""quote"" 'q'
options {} 	 ")).
Eval vm_compute in ("<<<M713>>>" ++ check (runes_of_ascii "// c
packet i64_ {	char[] calculatedFrom , } packet
trueish  { {@calculatedFrom(
""a\\"" ) o { i32 falsey@lengthOf( uint8x ),
} , } // `tick` ""quote"" 'q'
options {// c
Z9_ = ' '//
}
")).
Eval vm_compute in ("<<<M162>>>" ++ check (runes_of_ascii "packet float {// a // b
@lengthOf(
    T ) repeat charz
    {
    // c
    packetx @calculatedFrom( """ ++ [28040; 24687]%N ++ runes_of_ascii """)
    `" ++ [233]%N ++ runes_of_ascii "` // " ++ [27880; 37322]%N ++ runes_of_ascii "
, char[
4294967296 //x
]Header	,  }
    , } /// triple")).
Eval vm_compute in ("<<<M1749>>>" ++ check (runes_of_ascii "MetaData falsey {
    uint64 matchKey `// not a comment`,
    char Pad,
    int16 Pad `" ++ [28040; 24687; 31867; 22411]%N ++ runes_of_ascii "`,
    zchar[00] x_y_z,
    char[] i64_,
    Logon repeatCount `tab	here`,
}")).
Eval vm_compute in ("<<<M1935>>>" ++ check (runes_of_ascii "
MetaData

chars
{
char[] Header

`say ""hi""` 
,

char[] matchKey
    ,	char[ 1 
] u8x , zchar
A

,
x  falsey  ,	zchar[42]

    calculatedFrom

, 
} ")).
Eval vm_compute in ("<<<M1590>>>" ++ check (runes_of_ascii "
packet
i8i8 //x
	{ 
int16 // trailing space 

  stringy	// " ++ [128512]%N ++ runes_of_ascii " emoji
    @calculatedFrom( 
""// no comment""
	) ,
} 
packet
_x
    {

    }
")).
Eval vm_compute in ("<<<M1304>>>" ++ check (runes_of_ascii "// top
MetaData // c0
_x // c1
{ // c2
zchar[ // c3
4294967296 // c4
] // c5
lengthOf // c6
`// not a comment` // c7
, // c8
} // c9
")).
Eval vm_compute in ("<<<M622>>>" ++ check (runes_of_ascii "MetaData
    // trailing space 
    matchKey
{ u64 chars // a // b
,char[] lengthOf lengthOf `// not a comment`
    , //	t
}")).
Eval vm_compute in ("<<<M1679>>>" ++ check (runes_of_ascii "packet
	calculatedFrom{@tag(

    4294967296 )u
msg_type
, 	 // c
    char[

3  ] crc
@lengthOf(len	)
`u8 x,` , 
}
")).
Eval vm_compute in ("<<<M655>>>" ++ check (runes_of_ascii "MetaData
    // trailing space 
    matchKey
{ u64 chars // a // b
,char[] lengthOf `?// not a comment`
    , //	t
}")).
Eval vm_compute in ("<<<M611>>>" ++ check (runes_of_ascii "MetaData
    // trailing space 
    matchKey
{ u64 chars // a // b
char[] lengthOf `// not a comment`
    , //	t
}")).
Eval vm_compute in ("<<<M1408>>>" ++ check (runes_of_ascii "

  packet FooBar 
{u8
a,  }  packet

    foo_bar 
{u16	b ,
    }
root packet
    R
    {FooBar ,foo_bar
,
} ")).
Eval vm_compute in ("<<<M2013>>>" ++ check (runes_of_ascii "
packet
	A

    {
match
k

    as
n{
    [ ""a""
, 22
,

    ""c c"" 
]:
B 
,

2 :	C
    }

    ,
	}
")).
Eval vm_compute in ("<<<M1290>>>" ++ check (runes_of_ascii "packet calculatedFrom { @tag( 4294967296 ) u msg_type , char[ 3 ] crc @lengthOf( len ) `u8 x,` , }
// c
")).
Eval vm_compute in ("<<<M1275>>>" ++ check (runes_of_ascii "packet calculatedFrom { @tag( 4294967296 ) u msg_type , char[ 3 ] // c
crc @lengthOf( len ) `u8 x,` , }")).
Eval vm_compute in ("<<<M895>>>" ++ check (runes_of_ascii "packet A {
  match k as n {
    [1, ""bb"", 007, ""d"", 5, ""f"", 7, ""h"", 9, ""j"", 11] : B
    2 : C
  },
}")).
Eval vm_compute in ("<<<M1172>>>" ++ check (runes_of_ascii "packet Logon { @tag( 42 ) @rightPad ( ' ' ) @leftPad ( ) repeat trueish { string T , } , } // c
")).
Eval vm_compute in ("<<<M1153>>>" ++ check (runes_of_ascii "packet Logon { @tag( 42 ) @rightPad ( ' ' ) @leftPad (
// c
) repeat trueish { string T , } , }")).
Eval vm_compute in ("<<<M886>>>" ++ check (runes_of_ascii "packet A {
  match k as n {
    [1, 22, ""c c"", 4, 5, ""f"", 7, 8, ""i"", 10] : B
    2 : C
  },
}")).
Eval vm_compute in ("<<<M1501>>>" ++ check (runes_of_ascii "  packet 
A
{match
k
    as

    n

    {
1
	: 
B// a
// b
    2
:  C }
    , 
}

")).
Eval vm_compute in ("<<<M968>>>" ++ check (runes_of_ascii "packet A {
    u32 crc @calculatedFrom(""x\
y""),
    @calculatedFrom(""x\
y"") u8 y,
}")).
Eval vm_compute in ("<<<M832>>>" ++ check (runes_of_ascii "packet A {
  match k as n {
    [""a"", 22, ""c c"", 4, ""e"", 66] : B
    2 : C
  },
}")).
Eval vm_compute in ("<<<M1236>>>" ++ check (runes_of_ascii "packet o { @tag( 42 ) repeat x { char[ 0123456789 ] i64_ , } // c
, } options { }")).
Eval vm_compute in ("<<<M915>>>" ++ check (runes_of_ascii "packet A { Inner { match k as n { [1,22,007,4,5,66,7,8,9,10,11,12] : B, }, }, }")).
Eval vm_compute in ("<<<M1519>>>" ++ check (runes_of_ascii "packet A {
    match k as n {
        [1, ""bb""] : B,
        2 : C,
    },
}")).
Eval vm_compute in ("<<<M1720>>>" ++ check (runes_of_ascii "
packet A{ match k

    as 
n
	{
	[
""a""] :
    B

2 : C}

    ,
}

")).
Eval vm_compute in ("<<<M1318>>>" ++ check (runes_of_ascii "MetaData _x { zchar[ 4294967296
// c
] lengthOf `// not a comment` , }")).
Eval vm_compute in ("<<<M850>>>" ++ check (runes_of_ascii "packet A { Inner { match k as n { [1,22,007,4,5,66,7] : B, }, }, }")).
Eval vm_compute in ("<<<M777>>>" ++ check (runes_of_ascii "packet A {
  match k as n {
    [1, 22] : B,
    2 : C
  },
}")).
Eval vm_compute in ("<<<M929>>>" ++ check (runes_of_ascii "packet A {
    B b `
`,
    B `
`,
    repeat B bs `
`,
}")).
Eval vm_compute in ("<<<M1072>>>" ++ check (runes_of_ascii "packet A {} packet B {} MetaData M {} options {}")).
Eval vm_compute in ("<<<M1103>>>" ++ check (runes_of_ascii "
// c
MetaData zchar { zchar[ 3 ] Pad , }")).
Eval vm_compute in ("<<<M170>>>" ++ check (runes_of_ascii "options { Foo
    //	t
    = string }
")).
Eval vm_compute in ("<<<M1089>>>" ++ check (runes_of_ascii "packet A { @tag( // a
 1 ) u8 x, }")).
Eval vm_compute in ("<<<M1851>>>" ++ check (runes_of_ascii "packet int {
}

packet u128 {
}")).
Eval vm_compute in ("<<<M916>>>" ++ check (runes_of_ascii "packet A {
    u8 x `a
b`,
}")).
Eval vm_compute in ("<<<M1183>>>" ++ check (runes_of_ascii "// c
options { u8x = 3 }")).
Eval vm_compute in ("<<<M769>>>" ++ check (runes_of_ascii "N"".iUCO#o(E!r_snCd~>|")).
Eval vm_compute in ("<<<M990>>>" ++ check (runes_of_ascii "packet A {
}
// c" ++ [133]%N)).
Eval vm_compute in ("<<<M728>>>" ++ check (runes_of_ascii "// only a comment")).
Eval vm_compute in ("<<<M1640>>>" ++ check (runes_of_ascii "
packet
A
{ }")).
Eval vm_compute in ("<<<M984>>>" ++ check (runes_of_ascii "// c" ++ [160]%N)).
