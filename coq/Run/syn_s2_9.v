From FP Require Import Lexer Parser ShowPT Digest.
From Coq Require Import String List NArith.
Import ListNotations.
Open Scope string_scope.
Set Printing Width 100000000.
Set Printing Depth 100000000.
Definition nl : string := String (Ascii.ascii_of_nat 10) EmptyString.
Definition model_lex (rs : list rune) : string := show_toks (lex rs).
Definition model_parse (rs : list rune) : string :=
  show_pt (match lex rs with Some ts => parse ts | None => None end).
(* coqc is slow at printing long strings: digests first (Digest.v), full texts on demand *)
Definition check (rs : list rune) : string :=
  digest (model_lex rs) ++ " " ++ digest (model_parse rs).
Definition full (rs : list rune) : string := model_lex rs ++ nl ++ model_parse rs.
Definition terms (ts : list tok) (t : pt) : string :=
  digest (show_toks (Some ts)) ++ " " ++ digest (show_pt (Some t)) ++ " " ++ digest (show_pt (parse ts)).
Definition terms_full (ts : list tok) (t : pt) : string :=
  show_toks (Some ts) ++ nl ++ show_pt (Some t) ++ nl ++ show_pt (parse ts).
Eval vm_compute in ("<<<M9>>>" ++ check (runes_of_ascii "options { i64_ =// a // b
""it's"" ;
Foo =  ""\n""	; x_y_z = '\x00';
len= '0'
}	root packet Packet
{ @tag(  0)  match	crc
as A// " ++ [27880; 37322]%N ++ runes_of_ascii "
{[ ""`tick`"",
    ""`tick`""
// @lengthOf(
// a // b
, ""packet""
,
    ""CRC32""
    ,
// " ++ [27880; 37322]%N ++ runes_of_ascii "
//
""\n""
,""a\\""
,
    255 ]
    : T // c
} // @lengthOf(
, repeat float64 x,
zchar[ 00 // `tick` ""quote"" 'q'
] chars,
} //	t")).
Eval vm_compute in ("<<<M19>>>" ++ check (runes_of_ascii "//
packet
/// triple
// a // b
chars {int16 int ,	match calculatedFrom as
    zchar { 4294967296:
i8i8 , [
""// no comment"" ] :stringy, ""a\""b"" :	u128 007
// @lengthOf(
//x
: msg_type , 65535
    : a1 ,""""	: u128} ,
Packet @lengthOf( f32a )
`it's` , int16 stringy`u8 x,` , roots @lengthOf( trueish
) , match charz as A
    {	10
    :A ,
} ,  string
    Header@calculatedFrom( ""`tick`"" )`doc` , }MetaData	roots { asx metadata,	int64 MetaDataX , char[  42 ] o `// not a comment` ,
    f32 packetx ,rootA As `it's` , msg_type tag
, }

")).
Eval vm_compute in ("<<<M29>>>" ++ check (runes_of_ascii "packet chars// packet A { u8 x, }
{} packet u {
}
//	t
")).
Eval vm_compute in ("<<<M39>>>" ++ check (runes_of_ascii "
 	 ")).
Eval vm_compute in ("<<<M49>>>" ++ check (runes_of_ascii "  root packet rootA { @leftPad
(
'\x00' // `tick` ""quote"" 'q'
) @lengthOf(
    crc ) @lengthOf( string_ ) uint16 Z9_ `
`	, @lengthOf( Z9_ )char[4294967296
    ]  zchar `say ""hi""` ,
    u, match
int as
    stringy {
3 :
    body, }
    ,	} 	 ")).
Eval vm_compute in ("<<<M59>>>" ++ check (runes_of_ascii "
")).
Eval vm_compute in ("<<<M69>>>" ++ check (runes_of_ascii "
")).
Eval vm_compute in ("<<<T69>>>" ++ terms [mkTok 0 "<EOF>" 2 0 false] (mkPacket (mkPtok 0 "<EOF>" 2 0 0) None [])).
Eval vm_compute in ("<<<M79>>>" ++ check (runes_of_ascii "// packet A { u8 x, }
root packet
charz {
    matchKey { repeat
    Foo { // trailing space 
uint8 chars @lengthOf(	x
    ) , } //
, pack{rootA@lengthOf( MetaDataX// c
) , } // a // b
, roots{zchar[	10	]
    leftPad ,
    } ,	repeat pack
stringy`two words` ,	}, } packet rootA {char[ 10 ]
    x_y_z
`{ , }` , uint64 falsey ,
    // " ++ [27880; 37322]%N ++ runes_of_ascii "
    }
")).
Eval vm_compute in ("<<<M89>>>" ++ check (runes_of_ascii "packet // trailing space 
msg_type { repeat string
// `tick` ""quote"" 'q'
// @lengthOf(
BodyLength  `two words`
// packet A { u8 x, }
// packet A { u8 x, }
, }
")).
Eval vm_compute in ("<<<M99>>>" ++ check (runes_of_ascii "MetaData  falsey { i64
    A // " ++ [27880; 37322]%N ++ runes_of_ascii "
, string
Header
,	zchar[	10 ]
Foo `" ++ [28040; 24687; 31867; 22411]%N ++ runes_of_ascii "`
    // @lengthOf(
    ,packetx
    body, f32a  MetaDataX `it's`,  }
")).
Eval vm_compute in ("<<<M109>>>" ++ check (runes_of_ascii "packet
trueish {
@calculatedFrom(	"""" ) u
    @lengthOf( a1
) ,
} options //	t
{
    trueish =
42 }
options { //	t
}packet Foo {match matchKey
as body	{
    // `tick` ""quote"" 'q'
    [4294967296 ]	: Packet , 00 : A ,
    } , @calculatedFrom( ""x y"" ) // " ++ [27880; 37322]%N ++ runes_of_ascii "
@lengthOf(	a1)
    repeat f64	rootA , } packet len{ @calculatedFrom( ""// no comment"") string T @lengthOf(
f32a )
    , float32 chars
    , @rightPad ( ' ' ) repeat chars{ string A , string
i64_ `line1
line2`
,
float32
    //
    i8i8 ,uint64
    /// triple
    matchKey @calculatedFrom( ""abc"" )
/// triple
// `tick` ""quote"" 'q'
`" ++ [233]%N ++ runes_of_ascii "` , } , A
    `a\` ,
@tag( 00
)
    @tag( 0123456789 )
    @tag( 1	)
u128 {i64_
    {
// c
// trailing space 
BodyLength , i64 u
`{ , }` , match
    Z9_
    as
chars /// triple
{ ["""" ] : // `tick` ""quote"" 'q'
float , [ 0123456789  , 42
    , 3 ,
    //	t
    10  , 10 ]
// a // b
/// triple
: stringy , ""1"" :trueish , // packet A { u8 x, }
""packet"" : u128 [
""x y"" ,7 ] : A
} ,
    int32	a1 ,} , rootA
//x
/// triple
`doc` ,
//x
// `tick` ""quote"" 'q'
} , @rightPad ( ' ' ) repeat options1  { int
    @calculatedFrom( ""packet"" ) , // " ++ [128512]%N ++ runes_of_ascii " emoji
} , repeat char[65535]
    falsey
    // packet A { u8 x, }
    , @rightPad ( ) repeat char[] i8i8,
repeat calculatedFrom  msg_type ,@rightPad (	) @tag(
65535 ) repeat calculatedFrom crc , } 	 ")).
Eval vm_compute in ("<<<M119>>>" ++ check (runes_of_ascii "root packet Pad{ @lengthOf( _x) As i8i8 ,f32 lengthOf
`a\`	,
    // " ++ [27880; 37322]%N ++ runes_of_ascii "
    repeat len  `tab	here` , zchar[ //	t
3 ] body, int8 matchKey
    `crlf
line` ,}
    MetaData metadata { matchKey  packetx
    ,
}
    packet options1	{ repeat charz `line1
line2`, int8 options1
    // " ++ [27880; 37322]%N ++ runes_of_ascii "
    ,
    repeat	roots
{
repeat	float32	x_y_z `say ""hi""`,	}
// c
// a // b
,int64 options1 // `tick` ""quote"" 'q'
`line1
line2` , match  falsey
as falsey
    {
    [ ""// no comment""// packet A { u8 x, }
, """"]:_x  , 42 : // @lengthOf(
crc ""packet"" : repeatCount, """ ++ [128512]%N ++ runes_of_ascii """
    //	t
    :u8x , ""abc""
: falsey, } , repeat	float64
x_y_z `a\`,
}")).
Eval vm_compute in ("<<<M129>>>" ++ check (runes_of_ascii "root packet u128{} root packet
charz {// packet A { u8 x, }
@tag( 7
    )MetaDataX	, _x { uint32
As,
    charz ,}	,
len {  int64	u128 , repeat falsey
{x_y_z@lengthOf(
asx )
//	t
// c
, // c
}
,repeatCount
    {	metadata
@calculatedFrom( ""\n""
) `doc` , Logon Foo
// trailing space 
// " ++ [128512]%N ++ runes_of_ascii " emoji
,} // " ++ [27880; 37322]%N ++ runes_of_ascii "
,
float  rootA , }
, }
// a // b
")).
Eval vm_compute in ("<<<M139>>>" ++ check (runes_of_ascii "  packet float { }
")).
Eval vm_compute in ("<<<T139>>>" ++ terms [mkTok 35 "packet" 1 2 false; mkTok 42 "float" 1 9 false; mkTok 2 "{" 1 15 false; mkTok 3 "}" 1 17 false; mkTok 0 "<EOF>" 2 0 false] (mkPacket (mkPtok 35 "packet" 1 2 0) (Some (mkPtok 3 "}" 1 17 3)) [(DPacket (mkPacketDef (mkSpan (mkPtok 35 "packet" 1 2 0) (mkPtok 3 "}" 1 17 3)) None (mkPtok 35 "packet" 1 2 0) (mkPtok 42 "float" 1 9 1) (mkPtok 2 "{" 1 15 2) [] (mkPtok 3 "}" 1 17 3)))])).
Eval vm_compute in ("<<<M149>>>" ++ check (runes_of_ascii "options  { }
MetaData metadata  {	float32 u128 `" ++ [28040; 24687; 31867; 22411]%N ++ runes_of_ascii "` ,
}packet
roots {
i64 uint8x``
// `tick` ""quote"" 'q'
// `tick` ""quote"" 'q'
, @tag(  3) // packet A { u8 x, }
@tag(
    0123456789	) stringy @lengthOf(Header )`u8 x,` , f64 u //x
`tab	here`,  match  u8x as u8x
    // `tick` ""quote"" 'q'
    { 10 : string_ , }, zchar[
7 ]  u@calculatedFrom( // a // b
""packet"" ) ,  @leftPad
    ( ) repeat asx _x
    ,zchar[ // `tick` ""quote"" 'q'
7] uint8x
,body
{repeat zchar[
3]
    As , string Header
,
    char[] u, }
, repeat Logon{
repeat zchar[65535 ] packetx `// not a comment` , }
, } // packet A { u8 x, }
MetaData
msg_type{
f64
    crc	`{ , }`
, }
")).
Eval vm_compute in ("<<<M159>>>" ++ check (@nil rune)).
Eval vm_compute in ("<<<M169>>>" ++ check (runes_of_ascii "packet BodyLength
    { repeat string As `{ , }`
,	@tag(4294967296 ) match Pad as
lengthOf { //	t
007	: // `tick` ""quote"" 'q'
i8i8 /// triple
,""a\""b"": //x
msg_type,	}, repeat
    uint32 Z9_ , @tag( 00 )// `tick` ""quote"" 'q'
charz
    , string
    // trailing space 
    i8i8 // packet A { u8 x, }
@lengthOf( BodyLength ) ,@calculatedFrom(
    ""{,}""  )
    // a // b
    @leftPad// " ++ [27880; 37322]%N ++ runes_of_ascii "
( )
leftPad metadata  ,
//
// " ++ [128512]%N ++ runes_of_ascii " emoji
string i8i8 ``
    , uint64 trueish@calculatedFrom(
""1""
/// triple
// " ++ [27880; 37322]%N ++ runes_of_ascii "
) `
`, }")).
Eval vm_compute in ("<<<M179>>>" ++ check (runes_of_ascii "packet // trailing space 
crc {	match	trueish
    as pack {[// trailing space 
007
    , ""`tick`""
    , 42 ,3 ,
""x y"" ] :
    // " ++ [128512]%N ++ runes_of_ascii " emoji
    u128
, } , // packet A { u8 x, }
@tag( 255
)
    lengthOf
    // " ++ [128512]%N ++ runes_of_ascii " emoji
    lengthOf , repeat zchar[ 0123456789]
    calculatedFrom`" ++ [233]%N ++ runes_of_ascii "` , // trailing space 
@calculatedFrom(
""" ++ [28040; 24687]%N ++ runes_of_ascii """ ) repeat/// triple
f32a ,repeat char[]
// packet A { u8 x, }
/// triple
msg_type
`u8 x,` ,
    x @calculatedFrom( ""{,}"" ) , f32 uint8x// packet A { u8 x, }
`two words`,
    char[  0 ]
i8i8 , @calculatedFrom(
""1"" ) rootA BodyLength,
repeat string a1 //	t
, } root// " ++ [128512]%N ++ runes_of_ascii " emoji
packet
// c
// " ++ [27880; 37322]%N ++ runes_of_ascii "
metadata
{ @calculatedFrom( ""abc"" ) options1 // trailing space 
Header ,
// @lengthOf(
// " ++ [27880; 37322]%N ++ runes_of_ascii "
}root
packet charz{
repeat stringy ,@tag( 3 // trailing space 
)
    Foo x_y_z`{ , }` ,
    char[
    1]
Logon
@lengthOf( float)
,	int8
    int
    ,
    } //	t
packet Packet { char[] zchar
//x
// " ++ [128512]%N ++ runes_of_ascii " emoji
`
`
    // c
    , }
")).
Eval vm_compute in ("<<<M189>>>" ++ check (runes_of_ascii "packet As {
int16
A , }packet u	{ @lengthOf( Pad
)
    f64
    metadata	@lengthOf( a1
)
    ,
}
")).
Eval vm_compute in ("<<<M199>>>" ++ check (runes_of_ascii "root packet A
{  match
u8x as body {
7:
    BodyLength // trailing space 
, 007 : _x , 10 :
    Header},// `tick` ""quote"" 'q'
@lengthOf( pack ) tag @lengthOf( rootA  )
,match a1 as  calculatedFrom
{ 1 :
string_
, } ,  @lengthOf( x_y_z
) a1,
    @lengthOf(	MetaDataX
) int ,} packet
repeatCount { uint64 string_ `two words` , } options	{chars
    = false; float
//	t
// " ++ [27880; 37322]%N ++ runes_of_ascii "
= """ ++ [28040; 24687]%N ++ runes_of_ascii """ crc=u8 a1 = 1;
} MetaData // a // b
leftPad {
    u128 Header , } options {
    }

")).
Eval vm_compute in ("<<<M209>>>" ++ check (runes_of_ascii "packet
a1
    { @rightPad
    ( ' '  ) repeat	a1 ,
    //	t
    repeat
float32 i8i8	`two words`, @lengthOf( A ) float zchar ,@rightPad(
'0'
)	uint32 o `doc`
, @calculatedFrom( ""packet""
    )	repeat
asx `crlf
line`//	t
, @tag( 007 )
@calculatedFrom(	""CRC32""
)repeat uint64 A `line1
line2` , @leftPad ( '\x00'
)
// packet A { u8 x, }
//x
string stringy `` , @rightPad( '\x00' ) @tag( 255 /// triple
)
body
    @lengthOf( Z9_	)
,match
x_y_z
// packet A { u8 x, }
// " ++ [128512]%N ++ runes_of_ascii " emoji
as
falsey{""\" ++ [233]%N ++ runes_of_ascii """: options1
, } ,Logon falsey
// c
// " ++ [27880; 37322]%N ++ runes_of_ascii "
`say ""hi""`
, } packet// " ++ [128512]%N ++ runes_of_ascii " emoji
Foo { }options {
// @lengthOf(
// `tick` ""quote"" 'q'
f32a
=	""a\""b"" ;
float= '0' ;  calculatedFrom
    = 65535
    ; msg_type= '0';
    // trailing space 
    A = """"
} root packet
string_ {
match float as u128{ [ ""\n""
]	:// trailing space 
Packet , }
    ,} packet charz { lengthOf @calculatedFrom(
    // " ++ [128512]%N ++ runes_of_ascii " emoji
    """ ++ [28040; 24687]%N ++ runes_of_ascii """)
,
    @leftPad
( ' ' ) repeat chars`" ++ [28040; 24687; 31867; 22411]%N ++ runes_of_ascii "`, match leftPad
    as a1 {
    ""`tick`"" :
    string_ // c
,
// c
// c
10
:
    string_, 4294967296// a // b
: Foo
, } , }")).
Eval vm_compute in ("<<<T209>>>" ++ terms [mkTok 35 "packet" 1 0 false; mkTok 42 "a1" 2 0 false; mkTok 2 "{" 3 4 false; mkTok 32 "@rightPad" 3 6 false; mkTok 8 "(" 4 4 false; mkTok 33 "' '" 4 6 false; mkTok 6 ")" 4 11 false; mkTok 36 "repeat" 4 13 false; mkTok 42 "a1" 4 20 false; mkTok 40 "," 4 23 false; mkTok 44 (string_of_bytes [47; 47; 9; 116]%N) 5 4 true; mkTok 36 "repeat" 6 4 false; mkTok 28 "float32" 7 0 false; mkTok 42 "i8i8" 7 8 false; mkTok 43 "`two words`" 7 13 false; mkTok 40 "," 7 24 false; mkTok 7 "@lengthOf(" 7 26 false; mkTok 42 "A" 7 37 false; mkTok 6 ")" 7 39 false; mkTok 42 "float" 7 41 false; mkTok 42 "zchar" 7 47 false; mkTok 40 "," 7 53 false; mkTok 32 "@rightPad" 7 54 false; mkTok 8 "(" 7 63 false; mkTok 33 "'0'" 8 0 false; mkTok 6 ")" 9 0 false; mkTok 22 "uint32" 9 2 false; mkTok 42 "o" 9 9 false; mkTok 43 "`doc`" 9 11 false; mkTok 40 "," 10 0 false; mkTok 5 "@calculatedFrom(" 10 2 false; mkTok 31 """packet""" 10 19 false; mkTok 6 ")" 11 4 false; mkTok 36 "repeat" 11 6 false; mkTok 42 "asx" 12 0 false; mkTok 43 (string_of_bytes [96; 99; 114; 108; 102; 13; 10; 108; 105; 110; 101; 96]%N) 12 4 false; mkTok 44 (string_of_bytes [47; 47; 9; 116]%N) 13 5 true; mkTok 40 "," 14 0 false; mkTok 9 "@tag(" 14 2 false; mkTok 30 "007" 14 8 false; mkTok 6 ")" 14 12 false; mkTok 5 "@calculatedFrom(" 15 0 false; mkTok 31 """CRC32""" 15 17 false; mkTok 6 ")" 16 0 false; mkTok 36 "repeat" 16 1 false; mkTok 23 "uint64" 16 8 false; mkTok 42 "A" 16 15 false; mkTok 43 (string_of_bytes [96; 108; 105; 110; 101; 49; 10; 108; 105; 110; 101; 50; 96]%N) 16 17 false; mkTok 40 "," 17 7 false; mkTok 32 "@leftPad" 17 9 false; mkTok 8 "(" 17 18 false; mkTok 33 "'\x00'" 17 20 false; mkTok 6 ")" 18 0 false; mkTok 44 "// packet A { u8 x, }" 19 0 true; mkTok 44 "//x" 20 0 true; mkTok 15 "string" 21 0 false; mkTok 42 "stringy" 21 7 false; mkTok 43 "``" 21 15 false; mkTok 40 "," 21 18 false; mkTok 32 "@rightPad" 21 20 false; mkTok 8 "(" 21 29 false; mkTok 33 "'\x00'" 21 31 false; mkTok 6 ")" 21 38 false; mkTok 9 "@tag(" 21 40 false; mkTok 30 "255" 21 46 false; mkTok 44 "/// triple" 21 50 true; mkTok 6 ")" 22 0 false; mkTok 42 "body" 23 0 false; mkTok 7 "@lengthOf(" 24 4 false; mkTok 42 "Z9_" 24 15 false; mkTok 6 ")" 24 19 false; mkTok 40 "," 25 0 false; mkTok 38 "match" 25 1 false; mkTok 42 "x_y_z" 26 0 false; mkTok 44 "// packet A { u8 x, }" 27 0 true; mkTok 44 (string_of_bytes [47; 47; 32; 240; 159; 152; 128; 32; 101; 109; 111; 106; 105]%N) 28 0 true; mkTok 17 "as" 29 0 false; mkTok 42 "falsey" 30 0 false; mkTok 2 "{" 30 6 false; mkTok 31 (string_of_bytes [34; 92; 195; 169; 34]%N) 30 7 false; mkTok 39 ":" 30 11 false; mkTok 42 "options1" 30 13 false; mkTok 40 "," 31 0 false; mkTok 3 "}" 31 2 false; mkTok 40 "," 31 4 false; mkTok 42 "Logon" 31 5 false; mkTok 42 "falsey" 31 11 false; mkTok 44 "// c" 32 0 true; mkTok 44 (string_of_bytes [47; 47; 32; 230; 179; 168; 233; 135; 138]%N) 33 0 true; mkTok 43 "`say ""hi""`" 34 0 false; mkTok 40 "," 35 0 false; mkTok 3 "}" 35 2 false; mkTok 35 "packet" 35 4 false; mkTok 44 (string_of_bytes [47; 47; 32; 240; 159; 152; 128; 32; 101; 109; 111; 106; 105]%N) 35 10 true; mkTok 42 "Foo" 36 0 false; mkTok 2 "{" 36 4 false; mkTok 3 "}" 36 6 false; mkTok 1 "options" 36 7 false; mkTok 2 "{" 36 15 false; mkTok 44 "// @lengthOf(" 37 0 true; mkTok 44 "// `tick` ""quote"" 'q'" 38 0 true; mkTok 42 "f32a" 39 0 false; mkTok 4 "=" 40 0 false; mkTok 31 """a\""b""" 40 2 false; mkTok 41 ";" 40 9 false; mkTok 42 "float" 41 0 false; mkTok 4 "=" 41 5 false; mkTok 33 "'0'" 41 7 false; mkTok 41 ";" 41 11 false; mkTok 42 "calculatedFrom" 41 14 false; mkTok 4 "=" 42 4 false; mkTok 30 "65535" 42 6 false; mkTok 41 ";" 43 4 false; mkTok 42 "msg_type" 43 6 false; mkTok 4 "=" 43 14 false; mkTok 33 "'0'" 43 16 false; mkTok 41 ";" 43 19 false; mkTok 44 "// trailing space " 44 4 true; mkTok 42 "A" 45 4 false; mkTok 4 "=" 45 6 false; mkTok 31 """""" 45 8 false; mkTok 3 "}" 46 0 false; mkTok 34 "root" 46 2 false; mkTok 35 "packet" 46 7 false; mkTok 42 "string_" 47 0 false; mkTok 2 "{" 47 8 false; mkTok 38 "match" 48 0 false; mkTok 42 "float" 48 6 false; mkTok 17 "as" 48 12 false; mkTok 42 "u128" 48 15 false; mkTok 2 "{" 48 19 false; mkTok 18 "[" 48 21 false; mkTok 31 """\n""" 48 23 false; mkTok 13 "]" 49 0 false; mkTok 39 ":" 49 2 false; mkTok 44 "// trailing space " 49 3 true; mkTok 42 "Packet" 50 0 false; mkTok 40 "," 50 7 false; mkTok 3 "}" 50 9 false; mkTok 40 "," 51 4 false; mkTok 3 "}" 51 5 false; mkTok 35 "packet" 51 7 false; mkTok 42 "charz" 51 14 false; mkTok 2 "{" 51 20 false; mkTok 42 "lengthOf" 51 22 false; mkTok 5 "@calculatedFrom(" 51 31 false; mkTok 44 (string_of_bytes [47; 47; 32; 240; 159; 152; 128; 32; 101; 109; 111; 106; 105]%N) 52 4 true; mkTok 31 (string_of_bytes [34; 230; 182; 136; 230; 129; 175; 34]%N) 53 4 false; mkTok 6 ")" 53 8 false; mkTok 40 "," 54 0 false; mkTok 32 "@leftPad" 55 4 false; mkTok 8 "(" 56 0 false; mkTok 33 "' '" 56 2 false; mkTok 6 ")" 56 6 false; mkTok 36 "repeat" 56 8 false; mkTok 42 "chars" 56 15 false; mkTok 43 (string_of_bytes [96; 230; 182; 136; 230; 129; 175; 231; 177; 187; 229; 158; 139; 96]%N) 56 20 false; mkTok 40 "," 56 26 false; mkTok 38 "match" 56 28 false; mkTok 42 "leftPad" 56 34 false; mkTok 17 "as" 57 4 false; mkTok 42 "a1" 57 7 false; mkTok 2 "{" 57 10 false; mkTok 31 """`tick`""" 58 4 false; mkTok 39 ":" 58 13 false; mkTok 42 "string_" 59 4 false; mkTok 44 "// c" 59 12 true; mkTok 40 "," 60 0 false; mkTok 44 "// c" 61 0 true; mkTok 44 "// c" 62 0 true; mkTok 30 "10" 63 0 false; mkTok 39 ":" 64 0 false; mkTok 42 "string_" 65 4 false; mkTok 40 "," 65 11 false; mkTok 30 "4294967296" 65 13 false; mkTok 44 "// a // b" 65 23 true; mkTok 39 ":" 66 0 false; mkTok 42 "Foo" 66 2 false; mkTok 40 "," 67 0 false; mkTok 3 "}" 67 2 false; mkTok 40 "," 67 4 false; mkTok 3 "}" 67 6 false; mkTok 0 "<EOF>" 67 7 false] (mkPacket (mkPtok 35 "packet" 1 0 0) (Some (mkPtok 3 "}" 67 6 181)) [(DPacket (mkPacketDef (mkSpan (mkPtok 35 "packet" 1 0 0) (mkPtok 3 "}" 35 2 91)) None (mkPtok 35 "packet" 1 0 0) (mkPtok 42 "a1" 2 0 1) (mkPtok 2 "{" 3 4 2) [(mkFieldWithAttr (mkSpan (mkPtok 32 "@rightPad" 3 6 3) (mkPtok 40 "," 4 23 9)) [(FAPadding (mkSpan (mkPtok 32 "@rightPad" 3 6 3) (mkPtok 6 ")" 4 11 6)) (mkPaddingAttr (mkSpan (mkPtok 32 "@rightPad" 3 6 3) (mkPtok 6 ")" 4 11 6)) (mkPtok 32 "@rightPad" 3 6 3) (mkPtok 8 "(" 4 4 4) (Some (mkPtok 33 "' '" 4 6 5)) (mkPtok 6 ")" 4 11 6)))] (ObjectField (mkSpan (mkPtok 36 "repeat" 4 13 7) (mkPtok 40 "," 4 23 9)) (Some (mkPtok 36 "repeat" 4 13 7)) (mkPtok 42 "a1" 4 20 8) None None (mkPtok 40 "," 4 23 9))); (mkFieldWithAttr (mkSpan (mkPtok 36 "repeat" 6 4 11) (mkPtok 40 "," 7 24 15)) [] (MetaField (mkSpan (mkPtok 36 "repeat" 6 4 11) (mkPtok 40 "," 7 24 15)) (Some (mkPtok 36 "repeat" 6 4 11)) (mkMetaDecl (mkSpan (mkPtok 28 "float32" 7 0 12) (mkPtok 40 "," 7 24 15)) (TyBasic (mkSpan (mkPtok 28 "float32" 7 0 12) (mkPtok 28 "float32" 7 0 12)) (mkBasicType (mkSpan (mkPtok 28 "float32" 7 0 12) (mkPtok 28 "float32" 7 0 12)) (mkPtok 28 "float32" 7 0 12))) (mkPtok 42 "i8i8" 7 8 13) (Some (mkPtok 43 "`two words`" 7 13 14)) (mkPtok 40 "," 7 24 15)))); (mkFieldWithAttr (mkSpan (mkPtok 7 "@lengthOf(" 7 26 16) (mkPtok 40 "," 7 53 21)) [(FALengthOf (mkSpan (mkPtok 7 "@lengthOf(" 7 26 16) (mkPtok 6 ")" 7 39 18)) (mkLengthOf (mkSpan (mkPtok 7 "@lengthOf(" 7 26 16) (mkPtok 6 ")" 7 39 18)) (mkPtok 7 "@lengthOf(" 7 26 16) (mkPtok 42 "A" 7 37 17) (mkPtok 6 ")" 7 39 18)))] (ObjectField (mkSpan (mkPtok 42 "float" 7 41 19) (mkPtok 40 "," 7 53 21)) None (mkPtok 42 "float" 7 41 19) (Some (mkPtok 42 "zchar" 7 47 20)) None (mkPtok 40 "," 7 53 21))); (mkFieldWithAttr (mkSpan (mkPtok 32 "@rightPad" 7 54 22) (mkPtok 40 "," 10 0 29)) [(FAPadding (mkSpan (mkPtok 32 "@rightPad" 7 54 22) (mkPtok 6 ")" 9 0 25)) (mkPaddingAttr (mkSpan (mkPtok 32 "@rightPad" 7 54 22) (mkPtok 6 ")" 9 0 25)) (mkPtok 32 "@rightPad" 7 54 22) (mkPtok 8 "(" 7 63 23) (Some (mkPtok 33 "'0'" 8 0 24)) (mkPtok 6 ")" 9 0 25)))] (MetaField (mkSpan (mkPtok 22 "uint32" 9 2 26) (mkPtok 40 "," 10 0 29)) None (mkMetaDecl (mkSpan (mkPtok 22 "uint32" 9 2 26) (mkPtok 40 "," 10 0 29)) (TyBasic (mkSpan (mkPtok 22 "uint32" 9 2 26) (mkPtok 22 "uint32" 9 2 26)) (mkBasicType (mkSpan (mkPtok 22 "uint32" 9 2 26) (mkPtok 22 "uint32" 9 2 26)) (mkPtok 22 "uint32" 9 2 26))) (mkPtok 42 "o" 9 9 27) (Some (mkPtok 43 "`doc`" 9 11 28)) (mkPtok 40 "," 10 0 29)))); (mkFieldWithAttr (mkSpan (mkPtok 5 "@calculatedFrom(" 10 2 30) (mkPtok 40 "," 14 0 37)) [(FACalculatedFrom (mkSpan (mkPtok 5 "@calculatedFrom(" 10 2 30) (mkPtok 6 ")" 11 4 32)) (mkCalculatedFrom (mkSpan (mkPtok 5 "@calculatedFrom(" 10 2 30) (mkPtok 6 ")" 11 4 32)) (mkPtok 5 "@calculatedFrom(" 10 2 30) (mkPtok 31 """packet""" 10 19 31) (mkPtok 6 ")" 11 4 32)))] (ObjectField (mkSpan (mkPtok 36 "repeat" 11 6 33) (mkPtok 40 "," 14 0 37)) (Some (mkPtok 36 "repeat" 11 6 33)) (mkPtok 42 "asx" 12 0 34) None (Some (mkPtok 43 (string_of_bytes [96; 99; 114; 108; 102; 13; 10; 108; 105; 110; 101; 96]%N) 12 4 35)) (mkPtok 40 "," 14 0 37))); (mkFieldWithAttr (mkSpan (mkPtok 9 "@tag(" 14 2 38) (mkPtok 40 "," 17 7 48)) [(FATag (mkSpan (mkPtok 9 "@tag(" 14 2 38) (mkPtok 6 ")" 14 12 40)) (mkTagAttr (mkSpan (mkPtok 9 "@tag(" 14 2 38) (mkPtok 6 ")" 14 12 40)) (mkPtok 9 "@tag(" 14 2 38) (mkPtok 30 "007" 14 8 39) (mkPtok 6 ")" 14 12 40))); (FACalculatedFrom (mkSpan (mkPtok 5 "@calculatedFrom(" 15 0 41) (mkPtok 6 ")" 16 0 43)) (mkCalculatedFrom (mkSpan (mkPtok 5 "@calculatedFrom(" 15 0 41) (mkPtok 6 ")" 16 0 43)) (mkPtok 5 "@calculatedFrom(" 15 0 41) (mkPtok 31 """CRC32""" 15 17 42) (mkPtok 6 ")" 16 0 43)))] (MetaField (mkSpan (mkPtok 36 "repeat" 16 1 44) (mkPtok 40 "," 17 7 48)) (Some (mkPtok 36 "repeat" 16 1 44)) (mkMetaDecl (mkSpan (mkPtok 23 "uint64" 16 8 45) (mkPtok 40 "," 17 7 48)) (TyBasic (mkSpan (mkPtok 23 "uint64" 16 8 45) (mkPtok 23 "uint64" 16 8 45)) (mkBasicType (mkSpan (mkPtok 23 "uint64" 16 8 45) (mkPtok 23 "uint64" 16 8 45)) (mkPtok 23 "uint64" 16 8 45))) (mkPtok 42 "A" 16 15 46) (Some (mkPtok 43 (string_of_bytes [96; 108; 105; 110; 101; 49; 10; 108; 105; 110; 101; 50; 96]%N) 16 17 47)) (mkPtok 40 "," 17 7 48)))); (mkFieldWithAttr (mkSpan (mkPtok 32 "@leftPad" 17 9 49) (mkPtok 40 "," 21 18 58)) [(FAPadding (mkSpan (mkPtok 32 "@leftPad" 17 9 49) (mkPtok 6 ")" 18 0 52)) (mkPaddingAttr (mkSpan (mkPtok 32 "@leftPad" 17 9 49) (mkPtok 6 ")" 18 0 52)) (mkPtok 32 "@leftPad" 17 9 49) (mkPtok 8 "(" 17 18 50) (Some (mkPtok 33 "'\x00'" 17 20 51)) (mkPtok 6 ")" 18 0 52)))] (MetaField (mkSpan (mkPtok 15 "string" 21 0 55) (mkPtok 40 "," 21 18 58)) None (mkMetaDecl (mkSpan (mkPtok 15 "string" 21 0 55) (mkPtok 40 "," 21 18 58)) (TyDynamic (mkSpan (mkPtok 15 "string" 21 0 55) (mkPtok 15 "string" 21 0 55)) (mkDynamicString (mkSpan (mkPtok 15 "string" 21 0 55) (mkPtok 15 "string" 21 0 55)) (mkPtok 15 "string" 21 0 55))) (mkPtok 42 "stringy" 21 7 56) (Some (mkPtok 43 "``" 21 15 57)) (mkPtok 40 "," 21 18 58)))); (mkFieldWithAttr (mkSpan (mkPtok 32 "@rightPad" 21 20 59) (mkPtok 40 "," 25 0 71)) [(FAPadding (mkSpan (mkPtok 32 "@rightPad" 21 20 59) (mkPtok 6 ")" 21 38 62)) (mkPaddingAttr (mkSpan (mkPtok 32 "@rightPad" 21 20 59) (mkPtok 6 ")" 21 38 62)) (mkPtok 32 "@rightPad" 21 20 59) (mkPtok 8 "(" 21 29 60) (Some (mkPtok 33 "'\x00'" 21 31 61)) (mkPtok 6 ")" 21 38 62))); (FATag (mkSpan (mkPtok 9 "@tag(" 21 40 63) (mkPtok 6 ")" 22 0 66)) (mkTagAttr (mkSpan (mkPtok 9 "@tag(" 21 40 63) (mkPtok 6 ")" 22 0 66)) (mkPtok 9 "@tag(" 21 40 63) (mkPtok 30 "255" 21 46 64) (mkPtok 6 ")" 22 0 66)))] (LengthField (mkSpan (mkPtok 42 "body" 23 0 67) (mkPtok 40 "," 25 0 71)) (mkLengthFieldDecl (mkSpan (mkPtok 42 "body" 23 0 67) (mkPtok 40 "," 25 0 71)) None (mkPtok 42 "body" 23 0 67) (mkLengthOf (mkSpan (mkPtok 7 "@lengthOf(" 24 4 68) (mkPtok 6 ")" 24 19 70)) (mkPtok 7 "@lengthOf(" 24 4 68) (mkPtok 42 "Z9_" 24 15 69) (mkPtok 6 ")" 24 19 70)) None (mkPtok 40 "," 25 0 71)))); (mkFieldWithAttr (mkSpan (mkPtok 38 "match" 25 1 72) (mkPtok 40 "," 31 4 84)) [] (MatchField (mkSpan (mkPtok 38 "match" 25 1 72) (mkPtok 40 "," 31 4 84)) (mkMatchFieldDecl (mkSpan (mkPtok 38 "match" 25 1 72) (mkPtok 3 "}" 31 2 83)) (mkPtok 38 "match" 25 1 72) (mkPtok 42 "x_y_z" 26 0 73) (mkPtok 17 "as" 29 0 76) (mkPtok 42 "falsey" 30 0 77) (mkPtok 2 "{" 30 6 78) [(mkMatchPair (mkSpan (mkPtok 31 (string_of_bytes [34; 92; 195; 169; 34]%N) 30 7 79) (mkPtok 40 "," 31 0 82)) (MKString (mkPtok 31 (string_of_bytes [34; 92; 195; 169; 34]%N) 30 7 79)) (mkPtok 39 ":" 30 11 80) (mkPtok 42 "options1" 30 13 81) (Some (mkPtok 40 "," 31 0 82)))] (mkPtok 3 "}" 31 2 83)) (mkPtok 40 "," 31 4 84))); (mkFieldWithAttr (mkSpan (mkPtok 42 "Logon" 31 5 85) (mkPtok 40 "," 35 0 90)) [] (ObjectField (mkSpan (mkPtok 42 "Logon" 31 5 85) (mkPtok 40 "," 35 0 90)) None (mkPtok 42 "Logon" 31 5 85) (Some (mkPtok 42 "falsey" 31 11 86)) (Some (mkPtok 43 "`say ""hi""`" 34 0 89)) (mkPtok 40 "," 35 0 90)))] (mkPtok 3 "}" 35 2 91))); (DPacket (mkPacketDef (mkSpan (mkPtok 35 "packet" 35 4 92) (mkPtok 3 "}" 36 6 96)) None (mkPtok 35 "packet" 35 4 92) (mkPtok 42 "Foo" 36 0 94) (mkPtok 2 "{" 36 4 95) [] (mkPtok 3 "}" 36 6 96))); (DOption (mkOptionDef (mkSpan (mkPtok 1 "options" 36 7 97) (mkPtok 3 "}" 46 0 121)) (mkPtok 1 "options" 36 7 97) (mkPtok 2 "{" 36 15 98) [(mkOptionDecl (mkSpan (mkPtok 42 "f32a" 39 0 101) (mkPtok 41 ";" 40 9 104)) (mkPtok 42 "f32a" 39 0 101) (mkPtok 4 "=" 40 0 102) (VString (mkSpan (mkPtok 31 """a\""b""" 40 2 103) (mkPtok 31 """a\""b""" 40 2 103)) (mkPtok 31 """a\""b""" 40 2 103)) (Some (mkPtok 41 ";" 40 9 104))); (mkOptionDecl (mkSpan (mkPtok 42 "float" 41 0 105) (mkPtok 41 ";" 41 11 108)) (mkPtok 42 "float" 41 0 105) (mkPtok 4 "=" 41 5 106) (VPaddingChar (mkSpan (mkPtok 33 "'0'" 41 7 107) (mkPtok 33 "'0'" 41 7 107)) (mkPtok 33 "'0'" 41 7 107)) (Some (mkPtok 41 ";" 41 11 108))); (mkOptionDecl (mkSpan (mkPtok 42 "calculatedFrom" 41 14 109) (mkPtok 41 ";" 43 4 112)) (mkPtok 42 "calculatedFrom" 41 14 109) (mkPtok 4 "=" 42 4 110) (VDigits (mkSpan (mkPtok 30 "65535" 42 6 111) (mkPtok 30 "65535" 42 6 111)) (mkPtok 30 "65535" 42 6 111)) (Some (mkPtok 41 ";" 43 4 112))); (mkOptionDecl (mkSpan (mkPtok 42 "msg_type" 43 6 113) (mkPtok 41 ";" 43 19 116)) (mkPtok 42 "msg_type" 43 6 113) (mkPtok 4 "=" 43 14 114) (VPaddingChar (mkSpan (mkPtok 33 "'0'" 43 16 115) (mkPtok 33 "'0'" 43 16 115)) (mkPtok 33 "'0'" 43 16 115)) (Some (mkPtok 41 ";" 43 19 116))); (mkOptionDecl (mkSpan (mkPtok 42 "A" 45 4 118) (mkPtok 31 """""" 45 8 120)) (mkPtok 42 "A" 45 4 118) (mkPtok 4 "=" 45 6 119) (VString (mkSpan (mkPtok 31 """""" 45 8 120) (mkPtok 31 """""" 45 8 120)) (mkPtok 31 """""" 45 8 120)) None)] (mkPtok 3 "}" 46 0 121))); (DPacket (mkPacketDef (mkSpan (mkPtok 34 "root" 46 2 122) (mkPtok 3 "}" 51 5 140)) (Some (mkPtok 34 "root" 46 2 122)) (mkPtok 35 "packet" 46 7 123) (mkPtok 42 "string_" 47 0 124) (mkPtok 2 "{" 47 8 125) [(mkFieldWithAttr (mkSpan (mkPtok 38 "match" 48 0 126) (mkPtok 40 "," 51 4 139)) [] (MatchField (mkSpan (mkPtok 38 "match" 48 0 126) (mkPtok 40 "," 51 4 139)) (mkMatchFieldDecl (mkSpan (mkPtok 38 "match" 48 0 126) (mkPtok 3 "}" 50 9 138)) (mkPtok 38 "match" 48 0 126) (mkPtok 42 "float" 48 6 127) (mkPtok 17 "as" 48 12 128) (mkPtok 42 "u128" 48 15 129) (mkPtok 2 "{" 48 19 130) [(mkMatchPair (mkSpan (mkPtok 18 "[" 48 21 131) (mkPtok 40 "," 50 7 137)) (MKList (mkKeyList (mkSpan (mkPtok 18 "[" 48 21 131) (mkPtok 13 "]" 49 0 133)) (mkPtok 18 "[" 48 21 131) (mkPtok 31 """\n""" 48 23 132) [] (mkPtok 13 "]" 49 0 133))) (mkPtok 39 ":" 49 2 134) (mkPtok 42 "Packet" 50 0 136) (Some (mkPtok 40 "," 50 7 137)))] (mkPtok 3 "}" 50 9 138)) (mkPtok 40 "," 51 4 139)))] (mkPtok 3 "}" 51 5 140))); (DPacket (mkPacketDef (mkSpan (mkPtok 35 "packet" 51 7 141) (mkPtok 3 "}" 67 6 181)) None (mkPtok 35 "packet" 51 7 141) (mkPtok 42 "charz" 51 14 142) (mkPtok 2 "{" 51 20 143) [(mkFieldWithAttr (mkSpan (mkPtok 42 "lengthOf" 51 22 144) (mkPtok 40 "," 54 0 149)) [] (CheckSumField (mkSpan (mkPtok 42 "lengthOf" 51 22 144) (mkPtok 40 "," 54 0 149)) (mkChecksumFieldDecl (mkSpan (mkPtok 42 "lengthOf" 51 22 144) (mkPtok 40 "," 54 0 149)) None (mkPtok 42 "lengthOf" 51 22 144) (mkCalculatedFrom (mkSpan (mkPtok 5 "@calculatedFrom(" 51 31 145) (mkPtok 6 ")" 53 8 148)) (mkPtok 5 "@calculatedFrom(" 51 31 145) (mkPtok 31 (string_of_bytes [34; 230; 182; 136; 230; 129; 175; 34]%N) 53 4 147) (mkPtok 6 ")" 53 8 148)) None (mkPtok 40 "," 54 0 149)))); (mkFieldWithAttr (mkSpan (mkPtok 32 "@leftPad" 55 4 150) (mkPtok 40 "," 56 26 157)) [(FAPadding (mkSpan (mkPtok 32 "@leftPad" 55 4 150) (mkPtok 6 ")" 56 6 153)) (mkPaddingAttr (mkSpan (mkPtok 32 "@leftPad" 55 4 150) (mkPtok 6 ")" 56 6 153)) (mkPtok 32 "@leftPad" 55 4 150) (mkPtok 8 "(" 56 0 151) (Some (mkPtok 33 "' '" 56 2 152)) (mkPtok 6 ")" 56 6 153)))] (ObjectField (mkSpan (mkPtok 36 "repeat" 56 8 154) (mkPtok 40 "," 56 26 157)) (Some (mkPtok 36 "repeat" 56 8 154)) (mkPtok 42 "chars" 56 15 155) None (Some (mkPtok 43 (string_of_bytes [96; 230; 182; 136; 230; 129; 175; 231; 177; 187; 229; 158; 139; 96]%N) 56 20 156)) (mkPtok 40 "," 56 26 157))); (mkFieldWithAttr (mkSpan (mkPtok 38 "match" 56 28 158) (mkPtok 40 "," 67 4 180)) [] (MatchField (mkSpan (mkPtok 38 "match" 56 28 158) (mkPtok 40 "," 67 4 180)) (mkMatchFieldDecl (mkSpan (mkPtok 38 "match" 56 28 158) (mkPtok 3 "}" 67 2 179)) (mkPtok 38 "match" 56 28 158) (mkPtok 42 "leftPad" 56 34 159) (mkPtok 17 "as" 57 4 160) (mkPtok 42 "a1" 57 7 161) (mkPtok 2 "{" 57 10 162) [(mkMatchPair (mkSpan (mkPtok 31 """`tick`""" 58 4 163) (mkPtok 40 "," 60 0 167)) (MKString (mkPtok 31 """`tick`""" 58 4 163)) (mkPtok 39 ":" 58 13 164) (mkPtok 42 "string_" 59 4 165) (Some (mkPtok 40 "," 60 0 167))); (mkMatchPair (mkSpan (mkPtok 30 "10" 63 0 170) (mkPtok 40 "," 65 11 173)) (MKDigits (mkPtok 30 "10" 63 0 170)) (mkPtok 39 ":" 64 0 171) (mkPtok 42 "string_" 65 4 172) (Some (mkPtok 40 "," 65 11 173))); (mkMatchPair (mkSpan (mkPtok 30 "4294967296" 65 13 174) (mkPtok 40 "," 67 0 178)) (MKDigits (mkPtok 30 "4294967296" 65 13 174)) (mkPtok 39 ":" 66 0 176) (mkPtok 42 "Foo" 66 2 177) (Some (mkPtok 40 "," 67 0 178)))] (mkPtok 3 "}" 67 2 179)) (mkPtok 40 "," 67 4 180)))] (mkPtok 3 "}" 67 6 181)))])).
Eval vm_compute in ("<<<M219>>>" ++ check (runes_of_ascii "options
    {As
=false	;
}root packet calculatedFrom // a // b
{ zchar[
255 ] Z9_
,  }  MetaData metadata{ int8 chars
, char[]
charz `two words` , char[ 0]
rootA, }")).
Eval vm_compute in ("<<<M229>>>" ++ check (runes_of_ascii "
MetaData string_ {Header
    roots ,} MetaData
MetaDataX	{ }")).
Eval vm_compute in ("<<<M239>>>" ++ check (runes_of_ascii "packet MetaDataX {	int64 x_y_z //
@calculatedFrom( ""// no comment""
// packet A { u8 x, }
// `tick` ""quote"" 'q'
)
, }	MetaData int { u16 // packet A { u8 x, }
roots , zchar[ 7 // " ++ [27880; 37322]%N ++ runes_of_ascii "
]u8x ,  int16 //x
Logon, } MetaData i64_ // a // b
{// c
zchar[ 1 ] // `tick` ""quote"" 'q'
crc	, }

")).
Eval vm_compute in ("<<<M249>>>" ++ check (runes_of_ascii "packet	As{ match  repeatCount as metadata
{ 007 : //x
crc, ""a	b"" :
    A} , }
")).
Eval vm_compute in ("<<<M259>>>" ++ check (runes_of_ascii "MetaData falsey { string tag
`// not a comment` , } packet x
{ char[]int @lengthOf( u)
`u8 x,`
    ,
@calculatedFrom( ""abc"" ) @leftPad ('0')@tag( 255) repeat T {
f32a
`" ++ [233]%N ++ runes_of_ascii "`  ,
u128 @calculatedFrom( """ ++ [128512]%N ++ runes_of_ascii """ ) // a // b
,
    // c
    repeat
float { char[] x ,}
    ,
},@lengthOf( Header
)string_ @lengthOf(Logon )//	t
, body
Pad `" ++ [28040; 24687; 31867; 22411]%N ++ runes_of_ascii "`,
}packet matchKey { }
    //	t
    packet options1	{
    string	a1 @calculatedFrom( ""{,}"" ) ,}	packet x {match a1 as i64_ { 1
: Packet , ""abc"": crc ,
    }
    , int8
calculatedFrom@lengthOf( i8i8
    //	t
    ),
    @calculatedFrom( """"	)
@calculatedFrom( """ ++ [128512]%N ++ runes_of_ascii """ ) lengthOf
`a\`, char[1  ] u8x , zchar[ 007]// packet A { u8 x, }
metadata  @calculatedFrom(// a // b
""\n"" ) , @lengthOf(
len) @rightPad ( ) char[
    // " ++ [27880; 37322]%N ++ runes_of_ascii "
    10 // packet A { u8 x, }
]	Pad , repeat options1 `{ , }`,
    char[] tag @lengthOf( Packet ),}
")).
Eval vm_compute in ("<<<M269>>>" ++ check (runes_of_ascii "packet pack
{ @rightPad (' ' ) A// c
@calculatedFrom( ""a\\"" )
// " ++ [128512]%N ++ runes_of_ascii " emoji
// " ++ [128512]%N ++ runes_of_ascii " emoji
`
` , u8
    f32a, zchar[007 ] rootA
    `u8 x,`, repeat
/// triple
// a // b
string u128 //
`u8 x,`, @leftPad( ' ' ) char[ 1 ] repeatCount@calculatedFrom( //x
""\n"" ) `doc`,
    o
,
falsey
    leftPad,@calculatedFrom(""a\""b"") @leftPad
    ('0' )
//
// " ++ [27880; 37322]%N ++ runes_of_ascii "
roots	{
u8
zchar @lengthOf(	Logon ) // trailing space 
,
// c
//	t
} , }")).
Eval vm_compute in ("<<<M279>>>" ++ check (runes_of_ascii "packet zchar
{
    roots
{ i64 f32a
    `" ++ [28040; 24687; 31867; 22411]%N ++ runes_of_ascii "`	, float32 zchar , }
, }")).
Eval vm_compute in ("<<<T279>>>" ++ terms [mkTok 35 "packet" 1 0 false; mkTok 42 "zchar" 1 7 false; mkTok 2 "{" 2 0 false; mkTok 42 "roots" 3 4 false; mkTok 2 "{" 4 0 false; mkTok 27 "i64" 4 2 false; mkTok 42 "f32a" 4 6 false; mkTok 43 (string_of_bytes [96; 230; 182; 136; 230; 129; 175; 231; 177; 187; 229; 158; 139; 96]%N) 5 4 false; mkTok 40 "," 5 11 false; mkTok 28 "float32" 5 13 false; mkTok 42 "zchar" 5 21 false; mkTok 40 "," 5 27 false; mkTok 3 "}" 5 29 false; mkTok 40 "," 6 0 false; mkTok 3 "}" 6 2 false; mkTok 0 "<EOF>" 6 3 false] (mkPacket (mkPtok 35 "packet" 1 0 0) (Some (mkPtok 3 "}" 6 2 14)) [(DPacket (mkPacketDef (mkSpan (mkPtok 35 "packet" 1 0 0) (mkPtok 3 "}" 6 2 14)) None (mkPtok 35 "packet" 1 0 0) (mkPtok 42 "zchar" 1 7 1) (mkPtok 2 "{" 2 0 2) [(mkFieldWithAttr (mkSpan (mkPtok 42 "roots" 3 4 3) (mkPtok 40 "," 6 0 13)) [] (InerObjectField (mkSpan (mkPtok 42 "roots" 3 4 3) (mkPtok 40 "," 6 0 13)) None (InerObjectDecl (mkSpan (mkPtok 42 "roots" 3 4 3) (mkPtok 3 "}" 5 29 12)) (mkPtok 42 "roots" 3 4 3) (mkPtok 2 "{" 4 0 4) [(MetaField (mkSpan (mkPtok 27 "i64" 4 2 5) (mkPtok 40 "," 5 11 8)) None (mkMetaDecl (mkSpan (mkPtok 27 "i64" 4 2 5) (mkPtok 40 "," 5 11 8)) (TyBasic (mkSpan (mkPtok 27 "i64" 4 2 5) (mkPtok 27 "i64" 4 2 5)) (mkBasicType (mkSpan (mkPtok 27 "i64" 4 2 5) (mkPtok 27 "i64" 4 2 5)) (mkPtok 27 "i64" 4 2 5))) (mkPtok 42 "f32a" 4 6 6) (Some (mkPtok 43 (string_of_bytes [96; 230; 182; 136; 230; 129; 175; 231; 177; 187; 229; 158; 139; 96]%N) 5 4 7)) (mkPtok 40 "," 5 11 8))); (MetaField (mkSpan (mkPtok 28 "float32" 5 13 9) (mkPtok 40 "," 5 27 11)) None (mkMetaDecl (mkSpan (mkPtok 28 "float32" 5 13 9) (mkPtok 40 "," 5 27 11)) (TyBasic (mkSpan (mkPtok 28 "float32" 5 13 9) (mkPtok 28 "float32" 5 13 9)) (mkBasicType (mkSpan (mkPtok 28 "float32" 5 13 9) (mkPtok 28 "float32" 5 13 9)) (mkPtok 28 "float32" 5 13 9))) (mkPtok 42 "zchar" 5 21 10) None (mkPtok 40 "," 5 27 11)))] (mkPtok 3 "}" 5 29 12)) (mkPtok 40 "," 6 0 13)))] (mkPtok 3 "}" 6 2 14)))])).
Eval vm_compute in ("<<<M289>>>" ++ check (runes_of_ascii "root packet Header {
int16 repeatCount ,
    } //x
root packet len {  match i8i8
    as// c
roots{ [""abc"" , 255 ]
    : Pad, }  ,	@rightPad ( '\x00' ) @lengthOf(	leftPad
)float32 As `" ++ [28040; 24687; 31867; 22411]%N ++ runes_of_ascii "` , @calculatedFrom( ""1""
) zchar[  007
] // " ++ [128512]%N ++ runes_of_ascii " emoji
stringy @lengthOf( f32a ) ,}
    // @lengthOf(
    packet  BodyLength{
@lengthOf( trueish ) char[
7 ]
    falsey
@calculatedFrom( """ ++ [128512]%N ++ runes_of_ascii """ )	, @calculatedFrom(""a\""b""
) x`// not a comment` , @lengthOf(chars ) char[ 65535 ]leftPad
@calculatedFrom(""" ++ [128512]%N ++ runes_of_ascii """
) , trueish ,
string lengthOf
    , }root
    packet
_x
{ match _x as
uint8x
{// c
[""`tick`"" ,
""packet""] :
u, [// `tick` ""quote"" 'q'
007 , ""abc""
,255
    , ""\n"" , 7 , // c
""a	b"" , 0
    ]
    :
    // c
    Foo	[ 007 , """ ++ [233]%N ++ runes_of_ascii "t" ++ [233]%N ++ runes_of_ascii """ , 0 ]
:
x_y_z //	t
} ,
}
")).
Eval vm_compute in ("<<<M299>>>" ++ check (runes_of_ascii "MetaData charz {
Pad tag `two words` ,
    u32 matchKey ,u128 Foo ,
char[ 255 ] body ,}
")).
Eval vm_compute in ("<<<M309>>>" ++ check (runes_of_ascii " packet asx { @tag(007 ) // @lengthOf(
repeat
    u64  leftPad , } packet
i64_{ // packet A { u8 x, }
@calculatedFrom(
""a\""b"" )
    zchar[
    10]
    chars,
    }
    MetaData A { charz
uint8x
    // trailing space 
    , len uint8x , u8
    charz,	string_ msg_type ,}
")).
Eval vm_compute in ("<<<M319>>>" ++ check (runes_of_ascii "root packet  { @tag(007 ) // @lengthOf(
repeat
    u64  leftPad , } packet
i64_{ // packet A { u8 x, }
@calculatedFrom(
""a\""b"" )
    zchar[
    10]
    chars,
    }
    MetaData A { charz
uint8x
    // trailing space 
    , len uint8x , u8
    charz,	string_ msg_type ,}
")).
Eval vm_compute in ("<<<M329>>>" ++ check (runes_of_ascii "root packet asx { 007 ) // @lengthOf(
repeat
    u64  leftPad , } packet
i64_{ // packet A { u8 x, }
@calculatedFrom(
""a\""b"" )
    zchar[
    10]
    chars,
    }
    MetaData A { charz
uint8x
    // trailing space 
    , len uint8x , u8
    charz,	string_ msg_type ,}
")).
Eval vm_compute in ("<<<M339>>>" ++ check (runes_of_ascii "root packet asx { @tag(007  // @lengthOf(
repeat
    u64  leftPad , } packet
i64_{ // packet A { u8 x, }
@calculatedFrom(
""a\""b"" )
    zchar[
    10]
    chars,
    }
    MetaData A { charz
uint8x
    // trailing space 
    , len uint8x , u8
    charz,	string_ msg_type ,}
")).
Eval vm_compute in ("<<<M349>>>" ++ check (runes_of_ascii "root packet asx { @tag(007 ) // @lengthOf(
repeat
      leftPad , } packet
i64_{ // packet A { u8 x, }
@calculatedFrom(
""a\""b"" )
    zchar[
    10]
    chars,
    }
    MetaData A { charz
uint8x
    // trailing space 
    , len uint8x , u8
    charz,	string_ msg_type ,}
")).
Eval vm_compute in ("<<<M359>>>" ++ check (runes_of_ascii "root packet asx { @tag(007 ) // @lengthOf(
repeat
    u64  leftPad  } packet
i64_{ // packet A { u8 x, }
@calculatedFrom(
""a\""b"" )
    zchar[
    10]
    chars,
    }
    MetaData A { charz
uint8x
    // trailing space 
    , len uint8x , u8
    charz,	string_ msg_type ,}
")).
Eval vm_compute in ("<<<M369>>>" ++ check (runes_of_ascii "root packet asx { @tag(007 ) // @lengthOf(
repeat
    u64  leftPad , } 
i64_{ // packet A { u8 x, }
@calculatedFrom(
""a\""b"" )
    zchar[
    10]
    chars,
    }
    MetaData A { charz
uint8x
    // trailing space 
    , len uint8x , u8
    charz,	string_ msg_type ,}
")).
Eval vm_compute in ("<<<M379>>>" ++ check (runes_of_ascii "root packet asx { @tag(007 ) // @lengthOf(
repeat
    u64  leftPad , } packet
i64_ // packet A { u8 x, }
@calculatedFrom(
""a\""b"" )
    zchar[
    10]
    chars,
    }
    MetaData A { charz
uint8x
    // trailing space 
    , len uint8x , u8
    charz,	string_ msg_type ,}
")).
Eval vm_compute in ("<<<M389>>>" ++ check (runes_of_ascii "root packet asx { @tag(007 ) // @lengthOf(
repeat
    u64  leftPad , } packet
i64_{ // packet A { u8 x, }
@calculatedFrom(
 )
    zchar[
    10]
    chars,
    }
    MetaData A { charz
uint8x
    // trailing space 
    , len uint8x , u8
    charz,	string_ msg_type ,}
")).
Eval vm_compute in ("<<<M399>>>" ++ check (runes_of_ascii "root packet asx { @tag(007 ) // @lengthOf(
repeat
    u64  leftPad , } packet
i64_{ // packet A { u8 x, }
@calculatedFrom(
""a\""b"" )
    
    10]
    chars,
    }
    MetaData A { charz
uint8x
    // trailing space 
    , len uint8x , u8
    charz,	string_ msg_type ,}
")).
Eval vm_compute in ("<<<M409>>>" ++ check (runes_of_ascii "root packet asx { @tag(007 ) // @lengthOf(
repeat
    u64  leftPad , } packet
i64_{ // packet A { u8 x, }
@calculatedFrom(
""a\""b"" )
    zchar[
    10
    chars,
    }
    MetaData A { charz
uint8x
    // trailing space 
    , len uint8x , u8
    charz,	string_ msg_type ,}
")).
Eval vm_compute in ("<<<M419>>>" ++ check (runes_of_ascii "root packet asx { @tag(007 ) // @lengthOf(
repeat
    u64  leftPad , } packet
i64_{ // packet A { u8 x, }
@calculatedFrom(
""a\""b"" )
    zchar[
    10]
    chars
    }
    MetaData A { charz
uint8x
    // trailing space 
    , len uint8x , u8
    charz,	string_ msg_type ,}
")).
Eval vm_compute in ("<<<M429>>>" ++ check (runes_of_ascii "root packet asx { @tag(007 ) // @lengthOf(
repeat
    u64  leftPad , } packet
i64_{ // packet A { u8 x, }
@calculatedFrom(
""a\""b"" )
    zchar[
    10]
    chars,
    }
     A { charz
uint8x
    // trailing space 
    , len uint8x , u8
    charz,	string_ msg_type ,}
")).
Eval vm_compute in ("<<<M439>>>" ++ check (runes_of_ascii "root packet asx { @tag(007 ) // @lengthOf(
repeat
    u64  leftPad , } packet
i64_{ // packet A { u8 x, }
@calculatedFrom(
""a\""b"" )
    zchar[
    10]
    chars,
    }
    MetaData A  charz
uint8x
    // trailing space 
    , len uint8x , u8
    charz,	string_ msg_type ,}
")).
Eval vm_compute in ("<<<M449>>>" ++ check (runes_of_ascii "root packet asx { @tag(007 ) // @lengthOf(
repeat
    u64  leftPad , } packet
i64_{ // packet A { u8 x, }
@calculatedFrom(
""a\""b"" )
    zchar[
    10]
    chars,
    }
    MetaData A { charz

    // trailing space 
    , len uint8x , u8
    charz,	string_ msg_type ,}
")).
Eval vm_compute in ("<<<M459>>>" ++ check (runes_of_ascii "root packet asx { @tag(007 ) // @lengthOf(
repeat
    u64  leftPad , } packet
i64_{ // packet A { u8 x, }
@calculatedFrom(
""a\""b"" )
    zchar[
    10]
    chars,
    }
    MetaData A { charz
uint8x
    // trailing space 
    ,  uint8x , u8
    charz,	string_ msg_type ,}
")).
Eval vm_compute in ("<<<M469>>>" ++ check (runes_of_ascii "root packet asx { @tag(007 ) // @lengthOf(
repeat
    u64  leftPad , } packet
i64_{ // packet A { u8 x, }
@calculatedFrom(
""a\""b"" )
    zchar[
    10]
    chars,
    }
    MetaData A { charz
uint8x
    // trailing space 
    , len uint8x  u8
    charz,	string_ msg_type ,}
")).
Eval vm_compute in ("<<<M479>>>" ++ check (runes_of_ascii "root packet asx { @tag(007 ) // @lengthOf(
repeat
    u64  leftPad , } packet
i64_{ // packet A { u8 x, }
@calculatedFrom(
""a\""b"" )
    zchar[
    10]
    chars,
    }
    MetaData A { charz
uint8x
    // trailing space 
    , len uint8x , u8
    ,	string_ msg_type ,}
")).
Eval vm_compute in ("<<<M489>>>" ++ check (runes_of_ascii "root packet asx { @tag(007 ) // @lengthOf(
repeat
    u64  leftPad , } packet
i64_{ // packet A { u8 x, }
@calculatedFrom(
""a\""b"" )
    zchar[
    10]
    chars,
    }
    MetaData A { charz
uint8x
    // trailing space 
    , len uint8x , u8
    charz,	 msg_type ,}
")).
Eval vm_compute in ("<<<M499>>>" ++ check (runes_of_ascii "root packet asx { @tag(007 ) // @lengthOf(
repeat
    u64  leftPad , } packet
i64_{ // packet A { u8 x, }
@calculatedFrom(
""a\""b"" )
    zchar[
    10]
    chars,
    }
    MetaData A { charz
uint8x
    // trailing space 
    , len uint8x , u8
    charz,	string_ msg_type }
")).
Eval vm_compute in ("<<<M509>>>" ++ check (runes_of_ascii "root packet asx { @tag(007 ) // @lengthOf(
repeat
    u64  leftPad , } packet
i64_{ // packet A { u8 x, }
@calculatedFrom(")).
Eval vm_compute in ("<<<M519>>>" ++ check (runes_of_ascii "root packet asx { @tag(007 ) // @lengthOf(
repeat
    u64  leftPad , } packet
i64_%{ // packet A { u8 x, }
@calculatedFrom(
""a\""b"" )
    zchar[
    10]
    chars,
    }
    MetaData A { charz
uint8x
    // trailing space 
    , len uint8x , u8
    charz,	string_ msg_type ,}
")).
Eval vm_compute in ("<<<M529>>>" ++ check (runes_of_ascii "root packet asx { @tag(007 ) // @lengthOf(
repeat
    u64  leftPad , } packet
i64_{ // packet A { u8 x, }
@calculatedFrom(
""a\""b"" )
    zchar[
    10]
    chars,
    }
    MetaData A { charz
x" ++ [178]%N ++ runes_of_ascii "
    // trailing space 
    , len uint8x , u8
    charz,	string_ msg_type ,}
")).
Eval vm_compute in ("<<<M539>>>" ++ check (runes_of_ascii "MetaData asx
{ zchar[ 7
] roots
,leftPad
Foo
    `" ++ [233]%N ++ runes_of_ascii "`
, Header Header , int16
falsey ( // `tick` ""quote"" 'q'
u16 Packet , int64 packetx// " ++ [128512]%N ++ runes_of_ascii " emoji
,}")).
Eval vm_compute in ("<<<M549>>>" ++ check (runes_of_ascii "MetaData asx
{ zchar[ 7
] roots
,leftPad
Foo
    `" ++ [233]%N ++ runes_of_ascii "`
, Header Header , int16
falsey , , // `tick` ""quote"" 'q'
u16 Packet , int64 packetx// " ++ [128512]%N ++ runes_of_ascii " emoji
,}")).
Eval vm_compute in ("<<<M559>>>" ++ check (runes_of_ascii "MetaData asx
{ zchar[ 7
] roots
,leftPad
Foo
    `" ++ [233]%N ++ runes_of_ascii "`
 Header Header , int16
falsey , // `tick` ""quote"" 'q'
u16 Packet , int64 packetx// " ++ [128512]%N ++ runes_of_ascii " emoji
,}")).
Eval vm_compute in ("<<<M569>>>" ++ check (runes_of_ascii "// only a comment")).
Eval vm_compute in ("<<<T569>>>" ++ terms [mkTok 44 "// only a comment" 1 0 true; mkTok 0 "<EOF>" 1 17 false] (mkPacket (mkPtok 0 "<EOF>" 1 17 1) None [])).
Eval vm_compute in ("<<<M579>>>" ++ check (runes_of_ascii "zchar[ `say ""hi""` , uint8 uint8")).
Eval vm_compute in ("<<<M589>>>" ++ check ([28; 65533; 65533]%N ++ runes_of_ascii "HY" ++ [20; 22; 65533; 65533; 127; 65533; 26330]%N ++ runes_of_ascii "=" ++ [65533]%N ++ runes_of_ascii "x" ++ [65533; 65533; 65533; 65533; 65533; 65533]%N ++ runes_of_ascii "--" ++ [65533; 65533]%N ++ runes_of_ascii "%" ++ [65533]%N ++ runes_of_ascii "J" ++ [65533; 65533]%N ++ runes_of_ascii """" ++ [65533; 0; 65533; 800; 65533]%N ++ runes_of_ascii "^")).
Eval vm_compute in ("<<<M599>>>" ++ check (runes_of_ascii "char[] @calculatedFrom( as ""it's"" true 3")).
