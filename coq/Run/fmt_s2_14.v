From FP Require Import Lexer Parser ShowPT Digest Formatter.
From Coq Require Import String List NArith.
Import ListNotations.
Open Scope string_scope.
Set Printing Width 100000000.
Set Printing Depth 100000000.
Definition show_fres (r : fres) : string :=
  match r with
  | FOk s => "OK:" ++ sh_escaped s ""
  | FErr s => "ERR:" ++ sh_escaped s ""
  | FPanic p => "PANIC:" ++ p
  end.
Definition check (rs : list rune) : string := digest (show_fres (format_res rs)).
Definition full (rs : list rune) : string := show_fres (format_res rs).
Eval vm_compute in ("<<<M4274>>>" ++ check (runes_of_ascii "packet u {
    @tag(007)
    @calculatedFrom("""")
    match i64_ as roots {
        [0, 3, ""`tick`"", ""1""] : rootA,
        //x
        // c
        00 : pack,
        [0123456789, 0123456789, 255, ""1""] : msg_type,
        10 : chars,
        ""it's"" : o,
        /// triple
    },
    BodyLength {
        char[255] metadata `
        `,
    },
    options1 {
        match asx as packetx {
            ""abc"" : u128,
            [3, 4294967296, 4294967296, """", """ ++ [28040; 24687]%N ++ runes_of_ascii """] : leftPad,
            0 : Header,
            """ ++ [233]%N ++ runes_of_ascii "t" ++ [233]%N ++ runes_of_ascii """ : T,
        },
        repeat char[] Z9_ `{ , }`,
    },
    @calculatedFrom(""packet"")
    @calculatedFrom(""x y"")
    @tag(255)
    leftPad {
        repeat leftPad {
            float32 falsey @lengthOf(falsey) `a\`,
            zchar[0] matchKey,
            zchar[4294967296] a1,
            match packetx as u {
                [
                    00, 00, ""abc"", """ ++ [233]%N ++ runes_of_ascii "t" ++ [233]%N ++ runes_of_ascii """, ""a\\"",
                    ""{,}""
                ] : BodyLength,
                """ ++ [233]%N ++ runes_of_ascii "t" ++ [233]%N ++ runes_of_ascii """ : asx,
                [007, ""a	b""] : body,
                [00, 0123456789] : crc,
            },
        },
    },
    repeat uint8x o `doc`,
    @tag(65535)
    u16 Logon @lengthOf(uint8x) `a\`,
    f32a {
        repeat char[] matchKey `
        `,
        zchar[4294967296] i64_,
        // packet A { u8 x, }
        repeat lengthOf {
            repeat i16 matchKey,
            u8 falsey,
            i32 Pad @lengthOf(u8x) ``,
            charz `crlf
            line`,
        },
        packetx {
            int64 trueish,
            char[42] u @lengthOf(u) `// not a comment`,
            repeat char[1] i8i8,
            match x_y_z as u8x {
                [""\n""] : calculatedFrom,
            },
        },
    },
    @leftPad('0')
    As @calculatedFrom(""it's""),
    @calculatedFrom(""CRC32"")
    x_y_z @lengthOf(crc),
    @leftPad('0')
    @calculatedFrom(""`tick`"")
    @tag(10)
    char[42] Z9_ @calculatedFrom(""abc""),
}

MetaData repeatCount {
    i8 u `tab	here`,
    char[255] u,
    u32 msg_type `doc`,
    i64_ _x,
}

options {
    repeatCount = 255;
    x_y_z = ' ';
    charz = uint8;
    Packet = false
    BodyLength = true;
}

options {
    asx = """ ++ [128512]%N ++ runes_of_ascii """
    uint8x = char[4294967296];
    u = '0'
}")).
Eval vm_compute in ("<<<M891>>>" ++ check (runes_of_ascii "packet o
    {
    i64 Packet `
`, } root packet falsey { i8 zchar @lengthOf(i64_ )
    // trailing space 
    , @tag( 255 )
    char[ 10]// c
i64_@calculatedFrom(""\n"" ) `u8 x,`	,
@leftPad(	' ' ) i64 uint8x ,
repeat
u8x
    {// " ++ [27880; 37322]%N ++ runes_of_ascii "
rootA
{ MetaDataX
    @lengthOf( // `tick` ""quote"" 'q'
trueish
)	, T@lengthOf(
    f32a) ,
    // a // b
    repeat
    stringy,} , pack  @calculatedFrom(
""it's"" ) ,
    i16
    metadata
`u8 x,` , repeat
int
    ,} ,
    // @lengthOf(
    } packet
    // " ++ [128512]%N ++ runes_of_ascii " emoji
    body { leftPad { match u8x
    as
i64_
    { // @lengthOf(
[ 007 ,0 ] :
    a1 ,[ 42 ]:	A  ,	} ,
match	x as Z9_ { 007
    :MetaDataX
    ,
0
    //	t
    :leftPad ,""" ++ [128512]%N ++ runes_of_ascii """ :
    MetaDataX ,
""abc"" :uint8x ,007: trueish,
    // c
    } , } ,
zchar @calculatedFrom( ""// no comment"")  ,
trueish	@lengthOf( u ) `line1
line2` , @calculatedFrom( ""abc"" ) char[]
    /// triple
    len /// triple
`tab	here`
, float64 zchar
`line1
line2`
, match i64_ //
as body
{[ // @lengthOf(
0123456789
    // c
    ]
    : float 10:  Foo ,
[ ""CRC32""
]: Foo ""x y"" :metadata , [ 10 ,	255 , ""abc"" ,0123456789, //x
0 , 1 ,
7 ]
:	f32a, } , @calculatedFrom(""{,}"" )
    @lengthOf(
    len // a // b
)
    match x_y_z as uint8x {
""\" ++ [233]%N ++ runes_of_ascii """:T ,  } , o @lengthOf(// trailing space 
body )
    ,	u64 //
o @calculatedFrom(
""a	b""
    ) // c
`say ""hi""`
,repeat  string Header
    , }packet
zchar {
// `tick` ""quote"" 'q'
// packet A { u8 x, }
@rightPad ( // " ++ [27880; 37322]%N ++ runes_of_ascii "
'0'
//	t
/// triple
)
repeat
zchar[ 3]  o `doc` , zchar[
    // packet A { u8 x, }
    4294967296 ] x_y_z , @calculatedFrom(""{,}""
    /// triple
    )	@calculatedFrom(	""" ++ [28040; 24687]%N ++ runes_of_ascii """ ) float32
    A @lengthOf(Pad ),
    @tag(
    7 )
    // `tick` ""quote"" 'q'
    Packet
    @calculatedFrom(
    ""// no comment""
    )
,zchar[ 10 ]
asx
    // " ++ [27880; 37322]%N ++ runes_of_ascii "
    `` /// triple
, tag len `tab	here`,	}
")).
Eval vm_compute in ("<<<M4249>>>" ++ check (runes_of_ascii "  packet  trueish

{
    @calculatedFrom(
    """"
    ) u
@lengthOf(
a1
    ),
	}

options//	t

  {	trueish
	=
    42 } options	{	//	t
}

packet	Foo{ 
match
matchKey as
body 
{ 
// `tick` ""quote"" 'q'
	[
4294967296]

    :
	Packet 
, 
00 : 
A 
,
}
, @calculatedFrom(
""x y""	) 	 // " ++ [27880; 37322]%N ++ runes_of_ascii "
	@lengthOf(	a1
)	repeat 
f64 
rootA , }packet
    len
{ @calculatedFrom(""// no comment"")string	T

    @lengthOf(f32a
)  ,float32	chars
,

    @rightPad  (
    ' '

)repeat
    chars {

    string
A 
, string

    i64_
`line1
line2`

    , float32
    //
    i8i8

    ,uint64 
/// triple
      matchKey 
@calculatedFrom(""abc"" )  
      /// triple
    // `tick` ""quote"" 'q'
`" ++ [233]%N ++ runes_of_ascii "`
,

    }

,

A 
`a\`,
    @tag( 00 ) @tag( 0123456789 )

@tag(1 )	u128 { i64_ {
    // c

	// trailing space 

  BodyLength, i64 u
    `{ , }`

,
	match

Z9_ as

    chars /// triple
    {	[	""""  ]:	// `tick` ""quote"" 'q'

float	, [0123456789
    ,
	42 ,	3 
,

    //	t
      10 ,10
]
// a // b
  /// triple
	:stringy  ,
	""1""	: trueish  , 	 // packet A { u8 x, }
	""packet""
: u128 
[ ""x y"", 
7

    ] :

    A
    } ,	int32
	a1,
	} ,
	rootA
    //x
  	/// triple

	`doc`
	, 
//x
	  // `tick` ""quote"" 'q'
  }
    ,	@rightPad(  ' '
)
    repeat options1	{ int @calculatedFrom(
""packet""
) 
, // " ++ [128512]%N ++ runes_of_ascii " emoji
  	} 
, 
repeat
    char[65535
]
falsey 
	    // packet A { u8 x, }
		,
	@rightPad
    (
    )
repeat
char[] i8i8 ,repeat

calculatedFrom  msg_type ,
@rightPad
    (

)
@tag(

65535 )
repeat
calculatedFrom
    crc

, } ")).
Eval vm_compute in ("<<<M995>>>" ++ check (runes_of_ascii "// " ++ [128512]%N ++ runes_of_ascii " emoji
packet options1 {
match
    MetaDataX  as
matchKey
{ 4294967296:  i8i8 ,  7	: // a // b
Header ,
    // trailing space 
    } ,
    crc Pad `doc`, @leftPad
/// triple
//
( ) repeat o f32a `u8 x,` , @lengthOf( calculatedFrom
    ) repeat int32 body
,// trailing space 
@tag(0123456789)
@tag( 42 ) @calculatedFrom( ""\n"" ) Foo { A	,//x
} , @tag(
    3 )@tag(3	)char	Header
    `it's`
    // packet A { u8 x, }
    , repeat float { char[ 007
    // `tick` ""quote"" 'q'
    ] // " ++ [27880; 37322]%N ++ runes_of_ascii "
u8x `tab	here` ,	f32a
    { // packet A { u8 x, }
match As as MetaDataX {4294967296 :u
, 1
    // @lengthOf(
    :Pad ,
// " ++ [128512]%N ++ runes_of_ascii " emoji
//x
3 // " ++ [27880; 37322]%N ++ runes_of_ascii "
:  x_y_z,
""" ++ [28040; 24687]%N ++ runes_of_ascii """
    :
asx , 1
    // " ++ [27880; 37322]%N ++ runes_of_ascii "
    :matchKey
// `tick` ""quote"" 'q'
// packet A { u8 x, }
,  """"
:leftPad,
} // `tick` ""quote"" 'q'
,
repeat // `tick` ""quote"" 'q'
i16
float
    `u8 x,` ,
match
chars as
int {"""" : rootA , // c
""packet"":f32a
, [ ""a	b""  , 3
    ,4294967296 , """ ++ [28040; 24687]%N ++ runes_of_ascii """
    // " ++ [27880; 37322]%N ++ runes_of_ascii "
    ]: Packet
[
""a\""b"" ,""a	b"" , 0123456789
    , 255 , ""\n""
,
    ""a	b"" ,
00
, ""1""
    ]
: //
stringy 0123456789  : lengthOf ,10 :i64_
, }
    , matchKey{
// a // b
//	t
repeat int16 zchar `crlf
line`
    // " ++ [128512]%N ++ runes_of_ascii " emoji
    ,
    } ,
} ,
    } ,repeat Pad { float32
trueish`// not a comment` ,
    } , repeat char[
    0] i64_ `say ""hi""` , @tag(65535 )
    // c
    u128
, }")).
Eval vm_compute in ("<<<M673>>>" ++ check (runes_of_ascii "options
    {  asx= true ; matchKey
= ' '// packet A { u8 x, }
;
    Z9_  =int8 BodyLength=
char[]
}MetaData
    calculatedFrom {
float32 tag,  char[]Header , float64 charz
, falsey
Z9_ ,
string
    A, char[
    65535] leftPad, }
    packet BodyLength { i16
    Foo , @tag( 65535 ) @lengthOf( lengthOf )@tag( 007)
x@calculatedFrom( ""packet""  )	`u8 x,` , Logon	@calculatedFrom( ""1"" )
`two words`, }	MetaData options1 // packet A { u8 x, }
{ }
packet Packet { pack// a // b
,repeat char[] o ,@lengthOf(
    // c
    uint8x ) string_ //
@calculatedFrom(""a\""b""
),
    @tag(
0 )
u16 repeatCount `
`  , string
Packet
    , @tag(
0123456789 //
)  match x
as zchar
    { 42: msg_type , [ 3 ,""{,}"" ] :
// " ++ [27880; 37322]%N ++ runes_of_ascii "
//
u,//
4294967296: repeatCount , [ ""a\\"" ,	""`tick`"" , ""// no comment"" ,
//	t
// a // b
3 ,
""""	,
    // packet A { u8 x, }
    ""a\\"" ] :
    i64_	, ""`tick`""/// triple
: zchar, [
    ""// no comment"" ]	:MetaDataX } // packet A { u8 x, }
,
    Foo @lengthOf( A
    ) , char[65535
] Pad `it's` , match
    matchKey
as
x { [""" ++ [128512]%N ++ runes_of_ascii """  ,
""\" ++ [233]%N ++ runes_of_ascii """ ,
0123456789,//
""CRC32""// @lengthOf(
,
""`tick`""
    ,	""a\""b"",
""a	b"" ] :stringy
, } ,
// " ++ [128512]%N ++ runes_of_ascii " emoji
//	t
repeat uint16 Logon
//
/// triple
, }
")).
Eval vm_compute in ("<<<M4218>>>" ++ check (runes_of_ascii "  // a // b
    	packet 
chars { 
i64_

tag

`say ""hi""`
,}  
  // " ++ [128512]%N ++ runes_of_ascii " emoji
    // `tick` ""quote"" 'q'
	packet

    tag
	{} // c
  packet	roots
    {
repeat  //x
	x_y_z`
` ,

    }
	packet  lengthOf { // c
i64  int  `{ , }`

,
@lengthOf(  trueish

    )@lengthOf(	stringy  // packet A { u8 x, }
    )// @lengthOf(
  repeat
x
    repeatCount`u8 x,` ,
    char[] rootA

    ,
uint16  int @calculatedFrom( 	 // " ++ [128512]%N ++ runes_of_ascii " emoji
		""\" ++ [233]%N ++ runes_of_ascii """
)`say ""hi""`/// triple
	, @lengthOf(string_
// a // b
    )  char[]int@calculatedFrom(""a\\""
) ,
@tag(
0 )@calculatedFrom(
	""\n"" ) 	 // " ++ [128512]%N ++ runes_of_ascii " emoji
  	i32
    string_	@lengthOf(
falsey
) `say ""hi""`	,

    @tag( 3
	)

    @lengthOf(BodyLength  )
	repeat

    Z9_{
	match	// " ++ [27880; 37322]%N ++ runes_of_ascii "
T // @lengthOf(

as
charz
{	// packet A { u8 x, }
  [

    255
, ""a\""b"",	"""" ,

00 ,

0123456789

    ,""\n""
	,

""\" ++ [233]%N ++ runes_of_ascii """ //x
		]  :
    x_y_z 3
: Foo,
	    // @lengthOf(
}	, 
char[ 4294967296  ]
calculatedFrom
@lengthOf(	Z9_  ) ,}
    , 
i64 trueish

@lengthOf(/// triple
T
    )
`" ++ [233]%N ++ runes_of_ascii "`
,
@lengthOf(body
)	@lengthOf(
    matchKey // `tick` ""quote"" 'q'
	  ) 
tag

trueish
	``

    ,
	}
packet
	Foo 
{ }
")).
Eval vm_compute in ("<<<M4034>>>" ++ check (runes_of_ascii "
root
    packet
    //	t
	  len
	{
	roots 
@calculatedFrom( ""\n"")

    ,
}  root

    packet
	u 
{ @lengthOf(

i8i8
)float64
    Header@calculatedFrom(	""1""
	)

    `a\`
    , lengthOf{stringy @lengthOf( BodyLength

)
	,float64
    BodyLength 	 // trailing space 
`tab	here`

, /// triple
    int16

a1
@calculatedFrom( 
""{,}"") `{ , }`

    ,  BodyLength ,}
	,
	@tag(1 
) @rightPad

(  )
@rightPad
	( '0'  )  // @lengthOf(

	packetx  @calculatedFrom(  ""\n"" 
)	, // @lengthOf(
  @lengthOf(Pad
    )
	zchar[65535

    // packet A { u8 x, }
	// trailing space 
	]
	    // trailing space 
    lengthOf,	char[	// " ++ [27880; 37322]%N ++ runes_of_ascii "
  007]
	string_
`// not a comment`	,
@rightPad

( )repeat //	t
	  string falsey

,
	@tag(
4294967296
	) 
	    //x
char
	Foo `
`,
	match
    options1

as 
body{  65535
: o

    4294967296

:

tag,  ""x y""

    : trueish 

// packet A { u8 x, }
    ,	""packet""

:
    As,

    [

0123456789
]
:

    rootA

    , ""x y"" 
: 
uint8x

, }
    , } MetaData

x {	metadata zchar
`" ++ [28040; 24687; 31867; 22411]%N ++ runes_of_ascii "`, 
}
	options{
Foo=char[  255  ] ;	}")).
Eval vm_compute in ("<<<M694>>>" ++ check (runes_of_ascii "packet Logon { @leftPad('0' )
    @calculatedFrom(	""CRC32"" )
match x_y_z as calculatedFrom
    {[
// trailing space 
// " ++ [128512]%N ++ runes_of_ascii " emoji
65535 ,
10 ]
:asx 0 :	BodyLength
,}
//
// a // b
, @lengthOf(	metadata
    )int16 leftPad , match charz
as i8i8 { [
    65535// a // b
] :
    repeatCount , ""CRC32""  : Packet
    ,
""a\""b""
: Z9_ , 00 :
    falsey , 7 :falsey ,
}
, // " ++ [27880; 37322]%N ++ runes_of_ascii "
@lengthOf( body  )
i32 i8i8
`two words`,
    @calculatedFrom( ""`tick`"") body
    { zchar[ 0 ]BodyLength `doc`
    ,  u
`
` , } ,@tag( 0123456789 ) @leftPad ( '\x00'  )@calculatedFrom(""a	b"" )
    match As as x_y_z	{ """ ++ [128512]%N ++ runes_of_ascii """ :
i64_, 0123456789:
Foo
,
65535  :matchKey , 65535 :lengthOf 4294967296 // a // b
:
    f32a
, },
zchar[
0] string_ @lengthOf( packetx ) `" ++ [233]%N ++ runes_of_ascii "`
,@calculatedFrom( ""x y"" )
    BodyLength { char[1 ] int,
f32a
    , repeat Pad	tag `say ""hi""` ,  } ,
    //x
    zchar[
    // `tick` ""quote"" 'q'
    0 ]
    Foo
@calculatedFrom(
""// no comment""
) ,
@tag( 00 ) u16 roots `it's`
,	}
root packet roots
{
    }
")).
Eval vm_compute in ("<<<M357>>>" ++ check (runes_of_ascii "MetaData msg_type{ string
charz , crc u8x  ,
    u16 x_y_z
    `u8 x,`
, i64	zchar
,
    }
    // @lengthOf(
    packet T
{
@calculatedFrom( ""a\\"" ) uint16 chars @calculatedFrom(
    ""x y"") `
` , } packet pack // a // b
{}
    options { }	packet trueish
{
    // trailing space 
    @calculatedFrom(//x
""abc""	) match chars as lengthOf  {  [ 4294967296
]
: a1[""CRC32"" ,/// triple
7	, ""1""
, 4294967296// c
,  ""a\\"" ,
    0, 65535 , ""{,}""
] :  a1 , }
// packet A { u8 x, }
// trailing space 
, string	lengthOf  `" ++ [28040; 24687; 31867; 22411]%N ++ runes_of_ascii "` ,
@lengthOf( // trailing space 
x ) match
charz as a1 { 255:// trailing space 
Logon,
    }, @calculatedFrom(
""a	b""// a // b
)  @tag(00
// " ++ [27880; 37322]%N ++ runes_of_ascii "
// `tick` ""quote"" 'q'
)	@lengthOf( zchar ) body @lengthOf(
    /// triple
    msg_type)
    , MetaDataX	@lengthOf( len ) /// triple
`a\`/// triple
, @rightPad
( '\x00' ) @lengthOf(
Packet
    ) string u128// `tick` ""quote"" 'q'
`u8 x,` // c
,
packetx @lengthOf(	o )
, }
// @lengthOf(
")).
Eval vm_compute in ("<<<M4326>>>" ++ check (runes_of_ascii "options {
    string_ = zchar[00];
}

packet falsey {
    @lengthOf(float)
    string o,
    repeat msg_type,
    match MetaDataX as _x {
        3 : Pad,
    },
    leftPad @lengthOf(i8i8),
    @tag(0123456789)
    i16 Packet `
        `,
    o pack `tab	here`,
    zchar[10] int,
    int16 Foo @calculatedFrom(""CRC32"") `u8 x,`,
    match f32a as u8x {
        [""{,}""] : T,
        [
            65535, 3, 0, 0123456789, ""1"",
            ""`tick`"", """ ++ [128512]%N ++ runes_of_ascii """, ""a\\""
        ] : uint8x,
        255 : a1,
        ""a	b"" : falsey,
        """ ++ [28040; 24687]%N ++ runes_of_ascii """ : x,
        //	t
        [3, ""packet""] : int,
    },
    repeat Foo {
        zchar[1] body ``,
        roots rootA,
        char[0] rootA `doc`,
    },
}// `tick` ""quote"" 'q'

options {
}

options {
    Header = int16;
    roots = false;
    repeatCount = uint8;
    stringy = ""x y"";
    leftPad = ""it's"";
}

MetaData u {
    string_ Header,
    zchar[3] i64_,
}")).
Eval vm_compute in ("<<<M3974>>>" ++ check (runes_of_ascii "MetaData asx {
}

options {
    body = char[];// @lengthOf(
    repeatCount = true;
    packetx = ""a\""b"";
    float = ""x y"";
    zchar = ""\" ++ [233]%N ++ runes_of_ascii """;
}

MetaData _x {
    u16 falsey ``,
}

root packet metadata {
}

packet Foo {
    repeat u128,
    @tag(7)
    uint16 MetaDataX,
    @tag(1)
    /// triple
    falsey `say ""hi""`,
    @rightPad()
    @tag(3)
    u,
    @lengthOf(roots)
    match body as repeatCount {
        ""CRC32"" : asx,
        42 : msg_type,
    },// packet A { u8 x, }
    stringy {
        repeat char[3] uint8x,
        match Logon as A {
            ""abc"" : i8i8,
        },
        match BodyLength as len {
            [0123456789, 007, 4294967296, ""{,}""] : Foo,
        },
    },
    @leftPad('0')
    uint8x @lengthOf(i8i8),//	t
    _x {
        repeat x `line1
        line2`,
    },
    @tag(42)
    falsey u128,
    int64 MetaDataX,
}")).
Eval vm_compute in ("<<<M17>>>" ++ check (runes_of_ascii "  root
//
// `tick` ""quote"" 'q'
packet lengthOf {repeat char[]asx`// not a comment` // trailing space 
,	lengthOf{ string options1	, char[] A @calculatedFrom( ""\n"" )
    ,	int16 trueish , },repeat  int16	stringy  , string Logon `{ , }`
, @lengthOf(	metadata )
match trueish	as
    Foo { 00
:
T , 7
: Z9_ , } ,
string_ a1
`" ++ [28040; 24687; 31867; 22411]%N ++ runes_of_ascii "`// packet A { u8 x, }
, } packet zchar { @calculatedFrom(
    ""x y"" //x
) repeatCount`
`, match
    //
    stringy as u {255 // `tick` ""quote"" 'q'
:charz } , zchar[ 0123456789]
    // a // b
    Z9_
@lengthOf(
    crc )
`it's` , @leftPad
    ( '\x00' )zchar[
    0 ]rootA @calculatedFrom( ""CRC32"" ) , @lengthOf( leftPad )
    // packet A { u8 x, }
    Foo @calculatedFrom(
""{,}"" ) ,
uint32 Foo
`// not a comment` , f32 float , repeat matchKey ,
Logon @lengthOf(
    rootA
) `" ++ [28040; 24687; 31867; 22411]%N ++ runes_of_ascii "` ,
    }
")).
Eval vm_compute in ("<<<M4057>>>" ++ check (runes_of_ascii "root packet As {
    @tag(4294967296)
    packetx,
    @calculatedFrom(""" ++ [128512]%N ++ runes_of_ascii """)
    i32 crc,
    @lengthOf(x_y_z)
    @lengthOf(body)
    BodyLength {
        match repeatCount as int {
            ""\" ++ [233]%N ++ runes_of_ascii """ : body,
            // packet A { u8 x, }
            ""// no comment"" : falsey,
            ""abc"" : tag,
            ""a	b"" : zchar,
            // trailing space 
            007 : Packet,
        },// " ++ [128512]%N ++ runes_of_ascii " emoji
    },
    repeat falsey trueish,
    @leftPad(' ')
    @lengthOf(Logon)
    @leftPad()
    int @lengthOf(u8x),
    zchar[007] falsey,
    @rightPad()
    float @lengthOf(Logon),
    @rightPad('\x00')
    @calculatedFrom(""a	b"")
    Z9_ u8x,
    @tag(3)
    string_ u128,
}

options {
    u128 = ""it's"";
    metadata = ""abc""
    string_ = true;
    f32a = true
}

packet i8i8 {
}")).
Eval vm_compute in ("<<<M272>>>" ++ check (runes_of_ascii "root packet Header {
int16 repeatCount ,
    } //x
root packet len {  match i8i8
    as// c
roots{ [""abc"" , 255 ]
    : Pad, }  ,	@rightPad ( '\x00' ) @lengthOf(	leftPad
)float32 As `" ++ [28040; 24687; 31867; 22411]%N ++ runes_of_ascii "` , @calculatedFrom( ""1""
) zchar[  007
] // " ++ [128512]%N ++ runes_of_ascii " emoji
stringy @lengthOf( f32a ) ,}
    // @lengthOf(
    packet  BodyLength{
@lengthOf( trueish ) char[
7 ]
    falsey
@calculatedFrom( """ ++ [128512]%N ++ runes_of_ascii """ )	, @calculatedFrom(""a\""b""
) x`// not a comment` , @lengthOf(chars ) char[ 65535 ]leftPad
@calculatedFrom(""" ++ [128512]%N ++ runes_of_ascii """
) , trueish ,
string lengthOf
    , }root
    packet
_x
{ match _x as
uint8x
{// c
[""`tick`"" ,
""packet""] :
u, [// `tick` ""quote"" 'q'
007 , ""abc""
,255
    , ""\n"" , 7 , // c
""a	b"" , 0
    ]
    :
    // c
    Foo	[ 007 , """ ++ [233]%N ++ runes_of_ascii "t" ++ [233]%N ++ runes_of_ascii """ , 0 ]
:
x_y_z //	t
} ,
}
")).
Eval vm_compute in ("<<<M840>>>" ++ check (runes_of_ascii "packet a1  { @tag(00 )
    charz{
    // @lengthOf(
    char[ 007 ] i8i8	@calculatedFrom( ""// no comment"" ) ,
    float {char[  1 ] Packet @lengthOf(len ) `crlf
line` , }, }	, @rightPad//x
(' ' ) match x_y_z
as repeatCount
    {
// c
//	t
""`tick`""  :
    pack
,  ""`tick`"":
    u ""abc""
:
u128, [ """ ++ [233]%N ++ runes_of_ascii "t" ++ [233]%N ++ runes_of_ascii """ , ""x y""
//
//	t
]//	t
:float
,
0123456789
/// triple
// a // b
:calculatedFrom },
repeat zchar[ 1 //x
]
    zchar ,	char[ 255 ]  matchKey , repeat float { match
chars  as asx {
[ 0
,
0 ,	""""  ] :i64_ 00 : BodyLength  ,
//
// " ++ [27880; 37322]%N ++ runes_of_ascii "
""// no comment""
:a1 , } , repeat
    T i64_ ,
// packet A { u8 x, }
// c
repeat char[ 0 ] len ,
}// " ++ [27880; 37322]%N ++ runes_of_ascii "
, zchar[42 ] uint8x @calculatedFrom(
    //	t
    ""// no comment""
),}
")).
Eval vm_compute in ("<<<M1236>>>" ++ check (runes_of_ascii "MetaData
o { u128 a1 , _x	trueish `it's`
,	zchar[
42]
    repeatCount,char[] T ,
    float32 charz ,u16  falsey
    , }	packet
    Logon{
}packet Header
{ }	root packet
rootA
    //
    {@calculatedFrom( ""{,}""
)match Logon
as x
    //x
    { 007 /// triple
:Packet, } ,
    } root
packet msg_type { @tag( 42
) char[] crc , @rightPad( //	t
) trueish `tab	here`
,len , As @calculatedFrom(
""x y"" //
)
, @calculatedFrom(
    //
    ""`tick`"")
// `tick` ""quote"" 'q'
//	t
@calculatedFrom(	""""
// packet A { u8 x, }
//	t
)@calculatedFrom( ""x y"" )match Packet as
    /// triple
    BodyLength{	""\n""
: u
    ,
} ,@calculatedFrom(  """"  ) repeat Logon `// not a comment` , }")).
Eval vm_compute in ("<<<M333>>>" ++ check (runes_of_ascii "// a // b
packet matchKey{
@rightPad( // c
' ' // trailing space 
)
@tag(007) @lengthOf( float )
repeat	packetx ,
    // @lengthOf(
    @calculatedFrom(""a\""b"" )/// triple
@tag(
    255 )@tag( 00 )
    Pad
    @calculatedFrom(
""" ++ [28040; 24687]%N ++ runes_of_ascii """ ) `{ , }` , } root
packet
string_
    { repeat Logon
//
//x
{ match Z9_ as float {
""packet""
: packetx
    , [
""CRC32"" , 42 // a // b
,	00
    // `tick` ""quote"" 'q'
    , ""packet"" //
] : Foo, """ ++ [28040; 24687]%N ++ runes_of_ascii """ : BodyLength , [
""CRC32""] : x_y_z	,
    00 :
    packetx, 7 : rootA , } ,
}
, repeat
    // c
    metadata { u16 Logon `
` ,
    matchKey @calculatedFrom(
"""" //	t
) , repeat// c
char[]leftPad,
} , }
")).
Eval vm_compute in ("<<<M1095>>>" ++ check (runes_of_ascii "//
packet
// @lengthOf(
// `tick` ""quote"" 'q'
u8x
    { repeat int _x`line1
line2`
, @lengthOf( rootA  )
    int16
leftPad , repeat Logon  _x
    , } packet float {
    repeat u8x // " ++ [128512]%N ++ runes_of_ascii " emoji
{ match asx as asx {	""a\""b""
    // `tick` ""quote"" 'q'
    :
BodyLength , [ 0 ] : len ,
    //	t
    """ ++ [28040; 24687]%N ++ runes_of_ascii """ : BodyLength,
[ 0 // " ++ [128512]%N ++ runes_of_ascii " emoji
, ""\" ++ [233]%N ++ runes_of_ascii """ ]
/// triple
// " ++ [27880; 37322]%N ++ runes_of_ascii "
:leftPad ,
    4294967296: T
// @lengthOf(
/// triple
,
} //	t
, } , chars {match Pad as zchar // packet A { u8 x, }
{
    10 :
i8i8
[ 3
    // a // b
    ,
10 ] : u8x
    , } , zchar[ 4294967296//
] stringy @calculatedFrom( ""\" ++ [233]%N ++ runes_of_ascii """
) , } ,
    //
    }
")).
Eval vm_compute in ("<<<M3487>>>" ++ check (runes_of_ascii "options { // c1a
  // c1b
FixedStringPadChar = // c3
'0'
    // c4
; // c5
} packet
    // c7
Q { zchar[ // c10a
  // c10b
4 // c11
] // c12a
  // c12b
z ,
    // c14
@rightPad // c15
( // c16
'\x00' )
    // c18
char[ // c19a
  // c19b
3 ] // c21
n
    // c22
,
    // c23
char[
    // c24
5
    // c25
] // c26a
  // c26b
d , // c28a
  // c28b
} // c29a
  // c29b
root // c30
packet // c31
R // c32
{ // c33a
  // c33b
Q // c34a
  // c34b
, zchar[
    // c36
8
    // c37
] // c38
top
    // c39
, // c40
repeat // c41
zchar[ // c42
2 ] // c44
zs // c45
,
    // c46
} ")).
Eval vm_compute in ("<<<M3878>>>" ++ check (runes_of_ascii "
packet	asx
    {@lengthOf(	falsey  
  //	t

  )
    repeat uint64

charz, 
repeat	// " ++ [128512]%N ++ runes_of_ascii " emoji
    	char[]As `it's`, } packet u8x  { @tag(4294967296
    ) @calculatedFrom( 
""`tick`""
	)
    @calculatedFrom(	""abc"") repeat 	 // @lengthOf(
i64 options1
`it's`

,match 
Logon  as
o

    {
    3 
: Z9_
3  : 
T ,

    3  // c
: 	 // @lengthOf(
	  u128

    ,
	4294967296:	Z9_
,[ """"	,
10 ]	:
body  , 
	    // c
  """ ++ [233]%N ++ runes_of_ascii "t" ++ [233]%N ++ runes_of_ascii """: string_
	    //
	/// triple
		, },  @tag( 
7 
) uint8x	@lengthOf(
//
  Foo) , 
repeat
T
    _x 	 //
    `" ++ [233]%N ++ runes_of_ascii "` ,
    }")).
Eval vm_compute in ("<<<M4292>>>" ++ check (runes_of_ascii "
// top
    packet	// c0a
  // c0b
    A	{  // c2
u8// c3a
	// c3b
  a 
// c4
      , // c5
	} // c6a
	  // c6b
	packet

B	// c8a
  // c8b
    	{ 
        // c9
  u16
    b // c11
    , 	 // c12a

	// c12b
  }	root	// c14
  packet	// c15

P
{ 	 // c17
	u8  // c18a
// c18b
    K

,  // c20
      match// c21
  K

// c22
  as 	 // c23
    M
    {// c25
    1 
	    // c26

  :	// c27a
    	// c27b
	A // c28
    , 1	// c30
	: B 	 // c32a
  // c32b
,// c33a
    // c33b
  }// c34
	, // c35
  }
")).
Eval vm_compute in ("<<<M785>>>" ++ check (runes_of_ascii "packet asx {
// c
// " ++ [27880; 37322]%N ++ runes_of_ascii "
u8 float , //	t
}
packet Logon { @tag(10 )@calculatedFrom(// @lengthOf(
""packet"" ) i64
    Logon @lengthOf(f32a ) ,zchar[ 1 ]stringy
    @calculatedFrom(
    ""// no comment"" )
    `crlf
line` ,
    // @lengthOf(
    match lengthOf as trueish { 255
: string_// `tick` ""quote"" 'q'
,
// c
// c
4294967296: u
    ,
    } , @tag( 7 ) tag{ repeat crc, zchar
    @calculatedFrom( ""\" ++ [233]%N ++ runes_of_ascii """
)`{ , }` , } , char[] msg_type, repeat string Packet
    `" ++ [28040; 24687; 31867; 22411]%N ++ runes_of_ascii "`  , }
//x
")).
Eval vm_compute in ("<<<M4217>>>" ++ check (runes_of_ascii "

  MetaData 
	    // `tick` ""quote"" 'q'
  	o
    {i64  crc , }	packet falsey

    { @tag(
0 )
zchar
@calculatedFrom(	""x y""
), crc // `tick` ""quote"" 'q'
{
char[ 7
	] 
Packet @lengthOf( asx ), } ,
@tag(	4294967296
) @calculatedFrom(

""" ++ [128512]%N ++ runes_of_ascii """
)x_y_z  trueish
,@calculatedFrom( ""\n""
)// c
	  falsey

Packet

    ,
float
    {

T

    o,	zchar[ 4294967296

] chars 
,
zchar[
7  ]
    options1@calculatedFrom( ""a\\"" 
)	,
repeat float32 Pad  ,

} ,

}

")).
Eval vm_compute in ("<<<M3832>>>" ++ check (runes_of_ascii "
packet x  {	@leftPad ( 
) 
i32 float	,
    }options {

    chars ='0' ;
	Header// c

=
""`tick`"" x
= 
      // `tick` ""quote"" 'q'
  //
  '\x00'
    ;

    rootA =

    char[ 65535  ]
; } options	{ x
=
""it's""	asx
	// " ++ [27880; 37322]%N ++ runes_of_ascii "
      =char[

007
]
;
    zchar =
	int8 ; 
  //	t
  	// a // b
	zchar	= true ; chars = char[]
/// triple
	// `tick` ""quote"" 'q'
  }
options  { 
o =7
    Logon	=
10  /// triple
body
=
	false
a1 // c
	= ""x y"" 
}
")).
Eval vm_compute in ("<<<M129>>>" ++ check (runes_of_ascii "root packet options1
{ @lengthOf(	msg_type ) Logon @lengthOf( packetx )`
` , As  {
repeat	T
`
`
    ,float64 Foo	`crlf
line`
//x
// a // b
,repeat repeatCount x_y_z`a\` ,	int8 msg_type
,
    } , // `tick` ""quote"" 'q'
msg_type @lengthOf( body ) , u64 rootA @calculatedFrom(
""" ++ [128512]%N ++ runes_of_ascii """
    ) ,@calculatedFrom(""packet""	) i32
    Header ,	uint32 BodyLength @lengthOf(
trueish //x
)
, @lengthOf(
f32a ) f32
    Z9_ `{ , }`, } // a // b")).
Eval vm_compute in ("<<<M3649>>>" ++ check (runes_of_ascii "

  MetaData a1 
{ u128// @lengthOf(
  As  , char[ 4294967296
]	lengthOf
    ,uint64 
msg_type
, 
x_y_z
f32a

    ,float32

o 	 // " ++ [27880; 37322]%N ++ runes_of_ascii "
  ,
} options 
	    // " ++ [27880; 37322]%N ++ runes_of_ascii "
	// " ++ [128512]%N ++ runes_of_ascii " emoji

{

//x

// @lengthOf(
  }	MetaData  string_  {
}packet	roots  {	repeat f32 As
	`" ++ [28040; 24687; 31867; 22411]%N ++ runes_of_ascii "`,	}
    options
	{ 
    // " ++ [128512]%N ++ runes_of_ascii " emoji
	uint8x= ""a	b""	Packet//
    =

42  ; pack=
	10
; tag	=
string ;	repeatCount
= 	 // " ++ [27880; 37322]%N ++ runes_of_ascii "
  char[ 0

    ]  ;

}
")).
Eval vm_compute in ("<<<M4032>>>" ++ check (runes_of_ascii "// packet A { u8 x, }
root packet charz {
    matchKey {
        repeat Foo {
            // trailing space 
            uint8 chars @lengthOf(x),
        },
        pack {
            rootA @lengthOf(MetaDataX),
        },
        roots {
            zchar[10] leftPad,
        },
        repeat pack stringy `two words`,
    },
}

packet rootA {
    char[10] x_y_z `{ , }`,
    uint64 falsey,
}")).
Eval vm_compute in ("<<<M1354>>>" ++ check (runes_of_ascii "root
packet i8i8 {repeat
x float
, @rightPad // c
( '\x00'
)As {
    matchKey `two words` , zchar[ 255// c
]
x
`line1
line2` ,} ,// c
}packet metadata {
    } packet
    A{ char[
65535]
    crc , u64 trueish
    // `tick` ""quote"" 'q'
    @lengthOf( o
)
,@calculatedFrom( ""// no comment""
) falsey
@lengthOf(A  )
,//x
@calculatedFrom(
""CRC32"" ) u8
    matchKey`tab	here` ,}
")).
Eval vm_compute in ("<<<M4092>>>" ++ check (runes_of_ascii "packet pack {
    @rightPad(' ')
    A @calculatedFrom(""a\\"") `
    `,
    u8 f32a,
    zchar[007] rootA `u8 x,`,
    repeat string u128 `u8 x,`,
    @leftPad(' ')
    char[1] repeatCount @calculatedFrom(""\n"") `doc`,
    o,
    falsey leftPad,
    @calculatedFrom(""a\""b"")
    @leftPad('0')
    //
    // " ++ [27880; 37322]%N ++ runes_of_ascii "
    roots {
        u8 zchar @lengthOf(Logon),
    },
}")).
Eval vm_compute in ("<<<M3991>>>" ++ check (runes_of_ascii "

  packet
charz
{	@lengthOf(
    Pad  ) match rootA
as	string_
    { 
[
0123456789 ] 
// a // b
    //
	: repeatCount  [
	00 ,

""it's""] :

    T
,

    0 	 // packet A { u8 x, }
		:stringy
    , 4294967296
:  msg_type	,  /// triple
    } 
,  }

    packet  lengthOf
{
	@tag( 
7 
)
char[	255  ] float
    @calculatedFrom(
""packet"")
, 
} ")).
Eval vm_compute in ("<<<M4030>>>" ++ check (runes_of_ascii "packet Pad {
    @lengthOf(x)
    match Header as A {
        """ ++ [128512]%N ++ runes_of_ascii """ : x_y_z,
        [""" ++ [233]%N ++ runes_of_ascii "t" ++ [233]%N ++ runes_of_ascii """] : body,
    },
    @calculatedFrom(""a\""b"")
    float32 uint8x,
    int16 roots,
    @calculatedFrom(""abc"")
    i8 len @lengthOf(x_y_z),
}

packet chars {
    string Packet `doc`,
    rootA {
        repeat o,
    },
    pack stringy `" ++ [28040; 24687; 31867; 22411]%N ++ runes_of_ascii "`,
}")).
Eval vm_compute in ("<<<M718>>>" ++ check (runes_of_ascii "packet
metadata {
    char[
    0 ] Z9_
`line1
line2` , }
    root packet
chars {
/// triple
// @lengthOf(
As { zchar[ 3 ] BodyLength @calculatedFrom( ""it's"") `line1
line2` ,  }  ,
} packet o {
    @rightPad
// trailing space 
// trailing space 
( '\x00' )
    string
f32a@calculatedFrom( ""it's"" ) `// not a comment` ,}")).
Eval vm_compute in ("<<<M4026>>>" ++ check (runes_of_ascii "packet Pad {
    int16 charz ``,
    @calculatedFrom(""a\""b"")
    @tag(1)
    zchar[4294967296] A,
    @rightPad()
    chars,// " ++ [27880; 37322]%N ++ runes_of_ascii "
    uint8x {
        zchar[0] zchar `tab	here`,
        msg_type f32a,
        u8 roots @calculatedFrom(""x y"") `crlf
                line`,/// triple
        As rootA,
    },
}")).
Eval vm_compute in ("<<<M1415>>>" ++ check (runes_of_ascii "root packet packet Foo // " ++ [128512]%N ++ runes_of_ascii " emoji
{ } options {
    // a // b
    tag // `tick` ""quote"" 'q'
= //	t
""""
    ; u8x = zchar[0  ] }
MetaData
    int {zchar[ 10]
lengthOf	`` , i64 u8x`// not a comment` ,MetaDataX pack// `tick` ""quote"" 'q'
`crlf
line`
, Logon charz `crlf
line`
    ,
    // a // b
    }
")).
Eval vm_compute in ("<<<M1507>>>" ++ check (runes_of_ascii "root packet Foo // " ++ [128512]%N ++ runes_of_ascii " emoji
{ } options {
    // a // b
    tag // `tick` ""quote"" 'q'
= //	t
""""
    ; u8x = zchar[0  ] }
MetaData
    int i32 zchar[ 10]
lengthOf	`` , i64 u8x`// not a comment` ,MetaDataX pack// `tick` ""quote"" 'q'
`crlf
line`
, Logon charz `crlf
line`
    ,
    // a // b
    }
")).
Eval vm_compute in ("<<<M1613>>>" ++ check (runes_of_ascii "root packet Foo // " ++ [128512]%N ++ runes_of_ascii " emoji
{ } options {
    // a // b
    tag // `tick` ""quote"" 'q'
= //	t
""""
    ; u8x = zchar[0  ] }
MetaData
    int {zchar[ 10]
lengthOf	`` , i64 u8x`// not a comment` ,MetaDataX pack// `tick` ""quote"" 'q'
`crlf
line`
, Logon charz `crlf
line`
    ,
    // a // b
   '' }
")).
Eval vm_compute in ("<<<M1471>>>" ++ check (runes_of_ascii "root packet Foo // " ++ [128512]%N ++ runes_of_ascii " emoji
{ } options {
    // a // b
    tag // `tick` ""quote"" 'q'
= //	t
""""
    ; u8x zchar[ =0  ] }
MetaData
    int {zchar[ 10]
lengthOf	`` , i64 u8x`// not a comment` ,MetaDataX pack// `tick` ""quote"" 'q'
`crlf
line`
, Logon charz `crlf
line`
    ,
    // a // b
    }
")).
Eval vm_compute in ("<<<M1449>>>" ++ check (runes_of_ascii "root packet Foo // " ++ [128512]%N ++ runes_of_ascii " emoji
{ } options {
    // a // b
    tag // `tick` ""quote"" 'q'
 //	t
""""
    ; u8x = zchar[0  ] }
MetaData
    int {zchar[ 10]
lengthOf	`` , i64 u8x`// not a comment` ,MetaDataX pack// `tick` ""quote"" 'q'
`crlf
line`
, Logon charz `crlf
line`
    ,
    // a // b
    }
")).
Eval vm_compute in ("<<<M1544>>>" ++ check (runes_of_ascii "root packet Foo // " ++ [128512]%N ++ runes_of_ascii " emoji
{ } options {
    // a // b
    tag // `tick` ""quote"" 'q'
= //	t
""""
    ; u8x = zchar[0  ] }
MetaData
    int {zchar[ 10]
lengthOf	`` , i64 `// not a comment` ,MetaDataX pack// `tick` ""quote"" 'q'
`crlf
line`
, Logon charz `crlf
line`
    ,
    // a // b
    }
")).
Eval vm_compute in ("<<<M224>>>" ++ check (runes_of_ascii "packet MetaDataX {	int64 x_y_z //
@calculatedFrom( ""// no comment""
// packet A { u8 x, }
// `tick` ""quote"" 'q'
)
, }	MetaData int { u16 // packet A { u8 x, }
roots , zchar[ 7 // " ++ [27880; 37322]%N ++ runes_of_ascii "
]u8x ,  int16 //x
Logon, } MetaData i64_ // a // b
{// c
zchar[ 1 ] // `tick` ""quote"" 'q'
crc	, }

")).
Eval vm_compute in ("<<<M3776>>>" ++ check (runes_of_ascii "packet stringy {
    @lengthOf(Packet)
    lengthOf @calculatedFrom(""it's""),
}

MetaData x_y_z {
    asx rootA `it's`,
    float32 trueish,
    o Packet,
}

options {
    leftPad = true;
    len = 7;
    Pad = 42;
    chars = 65535;
    A = 4294967296
}

MetaData int {
}")).
Eval vm_compute in ("<<<M711>>>" ++ check (runes_of_ascii "packet
tag {u32 crc
    @lengthOf(
    a1 ) ,	string falsey `say ""hi""`, @tag( 1 )
    asx
, }	options { f32a	=true ; zchar
= '\x00'
; }packet BodyLength
//
// " ++ [128512]%N ++ runes_of_ascii " emoji
{@tag( 007
    ) @calculatedFrom( """ ++ [128512]%N ++ runes_of_ascii """ )repeat zchar[
007 ]
    packetx ,
    }
/// triple
")).
Eval vm_compute in ("<<<M982>>>" ++ check (runes_of_ascii "packet	pack{ uint8 metadata`line1
line2`
    , @tag(
    0123456789
)
    string matchKey @calculatedFrom( ""`tick`"" ) `" ++ [28040; 24687; 31867; 22411]%N ++ runes_of_ascii "`
    ,
@tag( 1 ) // trailing space 
i8i8 `doc`, o `crlf
line`  , }MetaData leftPad { f32a
    int , // packet A { u8 x, }
}

")).
Eval vm_compute in ("<<<M1151>>>" ++ check (runes_of_ascii "packet a1{
@calculatedFrom(""// no comment"")
repeat
f32a { body// `tick` ""quote"" 'q'
`// not a comment`,  } , o @calculatedFrom(""a	b""
)
    //	t
    `line1
line2`
, @calculatedFrom(""`tick`""
) repeat	tag	,
// @lengthOf(
// " ++ [128512]%N ++ runes_of_ascii " emoji
}
// c
")).
Eval vm_compute in ("<<<M3577>>>" ++ check (runes_of_ascii "packet BodyLength {
    repeat char[1] options1 `it's`,
    x_y_z {
        packetx @lengthOf(zchar) `tab	here`,
        repeat _x a1,
    },
}

packet roots {
}

options {
    Foo = char[1];
    charz = 1;
    Packet = ""`tick`""
}")).
Eval vm_compute in ("<<<M1388>>>" ++ check (runes_of_ascii "options{ roots =0123456789; body = int64
repeatCount = ""// no comment""
; pack  =
""abc""
    ;charz =// " ++ [27880; 37322]%N ++ runes_of_ascii "
string ;
/// triple
// " ++ [128512]%N ++ runes_of_ascii " emoji
}
packet //
trueish{ @calculatedFrom( ""a	b""	) repeat u16 As
    `" ++ [233]%N ++ runes_of_ascii "` // " ++ [128512]%N ++ runes_of_ascii " emoji
, }
")).
Eval vm_compute in ("<<<M2223>>>" ++ check (runes_of_ascii "MetaData Packet @tag( }packet	asx  { @lengthOf( asx) falsey`crlf
line`
,
    }
    packet x	{uint32// @lengthOf(
rootA	,u32 options1 `say ""hi""` , @tag( 7
    )// packet A { u8 x, }
msg_type @lengthOf(
stringy	)	, }

")).
Eval vm_compute in ("<<<M2384>>>" ++ check (runes_of_ascii "MetaData Packet { }packet	asx  { @lengthOf( asx) falsey`crlf
line`
,
    }
    packet x	{uint32// @lengthOf(
rootA	,u32 options1 `say ""hi""` , @tag( 7
    )// packet A { ''u8 x, }
msg_type @lengthOf(
stringy	)	, }

")).
Eval vm_compute in ("<<<M2267>>>" ++ check (runes_of_ascii "MetaData Packet { }packet	asx  { @lengthOf( asx) falsey,
`crlf
line`
    }
    packet x	{uint32// @lengthOf(
rootA	,u32 options1 `say ""hi""` , @tag( 7
    )// packet A { u8 x, }
msg_type @lengthOf(
stringy	)	, }

")).
Eval vm_compute in ("<<<M2285>>>" ++ check (runes_of_ascii "MetaData Packet { }packet	asx  { @lengthOf( asx) falsey`crlf
line`
,
    }
    packet 	{uint32// @lengthOf(
rootA	,u32 options1 `say ""hi""` , @tag( 7
    )// packet A { u8 x, }
msg_type @lengthOf(
stringy	)	, }

")).
Eval vm_compute in ("<<<M27>>>" ++ check (runes_of_ascii "packet
    MetaDataX {
    match Header as // a // b
zchar { 0
: pack	[ 42
// packet A { u8 x, }
// c
,	65535 ]
:
crc } , // @lengthOf(
@tag(
    1 )@rightPad (' ' // " ++ [27880; 37322]%N ++ runes_of_ascii "
)
int64  Foo, } // packet A { u8 x, }")).
Eval vm_compute in ("<<<M2248>>>" ++ check (runes_of_ascii "MetaData Packet { }packet	asx  { ; asx) falsey`crlf
line`
,
    }
    packet x	{uint32// @lengthOf(
rootA	,u32 options1 `say ""hi""` , @tag( 7
    )// packet A { u8 x, }
msg_type @lengthOf(
stringy	)	, }

")).
Eval vm_compute in ("<<<M3996>>>" ++ check (runes_of_ascii "  MetaData
    roots {}MetaData  stringy
{Logon
    leftPad 	 // " ++ [27880; 37322]%N ++ runes_of_ascii "
`crlf
line` ,char[] 
metadata  `{ , }`
	,
    falsey

pack	`" ++ [233]%N ++ runes_of_ascii "`,
    i8 repeatCount// " ++ [27880; 37322]%N ++ runes_of_ascii "

,  }  options
{
    matchKey 
=	' '
	}

")).
Eval vm_compute in ("<<<M3431>>>" ++ check (runes_of_ascii "// top
root // c0
packet // c1
P
    // c2
{ hdr
    // c4
{ // c5
u8 // c6
a
    // c7
, // c8a
  // c8b
} // c9a
  // c9b
, // c10
u8 // c11a
  // c11b
x // c12a
  // c12b
, // c13
} // c14
")).
Eval vm_compute in ("<<<M3761>>>" ++ check (runes_of_ascii "packet a1 {
}

root packet float {
    char[] pack,
    @tag(65535)
    u16 string_,
    repeat rootA {
        // `tick` ""quote"" 'q'
        //x
        repeat asx charz `a\`,
    },
}")).
Eval vm_compute in ("<<<M351>>>" ++ check (runes_of_ascii "root packet
stringy { charz T// " ++ [128512]%N ++ runes_of_ascii " emoji
`u8 x,` ,	char tag , uint64 u128 ,}
options { x
=
    '0' // `tick` ""quote"" 'q'
rootA =""CRC32"" ; // " ++ [27880; 37322]%N ++ runes_of_ascii "
i64_=""a\\"" ; } options{
}
// " ++ [27880; 37322]%N ++ runes_of_ascii "
")).
Eval vm_compute in ("<<<M77>>>" ++ check (runes_of_ascii "MetaData o
    { char[] i64_
`{ , }`	, u16 tag  ,
char[]
lengthOf	`u8 x,` , Z9_  rootA`
`,
zchar[	3 // trailing space 
] u, // " ++ [27880; 37322]%N ++ runes_of_ascii "
float T
//	t
//	t
`{ , }`
    , }
")).
Eval vm_compute in ("<<<M4130>>>" ++ check (runes_of_ascii "MetaData pack {
    Header len,
}

packet i8i8 {
    pack @lengthOf(int),
}

root packet MetaDataX {
    char[007] metadata,
}

MetaData MetaDataX {
    int o,
}")).
Eval vm_compute in ("<<<M1248>>>" ++ check (runes_of_ascii "MetaData u128{ zchar asx
    /// triple
    , As chars`" ++ [28040; 24687; 31867; 22411]%N ++ runes_of_ascii "`,
    char[]repeatCount
    `doc` , u64 body , string Packet `say ""hi""` ,	body MetaDataX , }
")).
Eval vm_compute in ("<<<M775>>>" ++ check (runes_of_ascii "packet
Logon
    { // " ++ [27880; 37322]%N ++ runes_of_ascii "
repeat MetaDataX { /// triple
MetaDataX @lengthOf(// @lengthOf(
matchKey ), } , @lengthOf(len) repeat zchar[00	]u8x , }
")).
Eval vm_compute in ("<<<M4362>>>" ++ check (runes_of_ascii "options {
    chars = ""abc"";
}

packet string_ {
    uint8x x_y_z,
    string Header `
    `,
}

packet pack {
    Z9_ @lengthOf(chars) `" ++ [233]%N ++ runes_of_ascii "`,
}")).
Eval vm_compute in ("<<<M4430>>>" ++ check (runes_of_ascii "  packet f32a
    {i16

    uint8x@lengthOf(

    a1
	)	, 
    /// triple
@lengthOf(
    body
)u64 
u
,  // packet A { u8 x, }

	}

")).
Eval vm_compute in ("<<<M3903>>>" ++ check (runes_of_ascii "packet A {
    match k as n {
        [
            22, 4, 66, ""a"", ""c c"",
            ""e"", ""g""
        ] : B,
        2 : C,
    },
}")).
Eval vm_compute in ("<<<M3684>>>" ++ check (runes_of_ascii "

  packet Logon

{
	@tag(

    42)
@rightPad ( ' ' )
    @leftPad
    (
	) repeat 
trueish{ 
  // c
	  string 
T , 
} ,
    }
")).
Eval vm_compute in ("<<<M1627>>>" ++ check (runes_of_ascii "packet root /// triple
rootA {	i32
MetaDataX@calculatedFrom( ""CRC32"" ) `line1
line2` , } MetaData BodyLength {
u8
rootA, } // c")).
Eval vm_compute in ("<<<M1712>>>" ++ check (runes_of_ascii "root packet /// triple
rootA {	i32
MetaDataX@calculatedFrom( ""CRC32"" ) `line1
line2` , } MetaData BodyLength {
u8
rootA,  // c")).
Eval vm_compute in ("<<<M1890>>>" ++ check (runes_of_ascii "packet
    Pad // a // b
{ i8i8 @calculatedFrom( ""a	b"") `u8 x,` ,
} options{ float// " ++ [128512]%N ++ runes_of_ascii " emoji
= f64 i64_
=//	t
@leftpad00 }
")).
Eval vm_compute in ("<<<M1323>>>" ++ check (runes_of_ascii "options {
tag = ""// no comment""/// triple
calculatedFrom= 10
    Packet
    // `tick` ""quote"" 'q'
    ='0' ; }
// a // b
")).
Eval vm_compute in ("<<<M3423>>>" ++ check (runes_of_ascii "
options

    { LittleEndian

=	true

    ; } root packet 
P 
{ 
repeat char
	cs
    ,

    u8

    x ,
    }

")).
Eval vm_compute in ("<<<M1837>>>" ++ check (runes_of_ascii "packet
    Pad // a // b
{ i8i8 @calculatedFrom( ""a	b"") `u8 x,` ,
} options float {// " ++ [128512]%N ++ runes_of_ascii " emoji
= f64 i64_
=//	t
00 }
")).
Eval vm_compute in ("<<<M1842>>>" ++ check (runes_of_ascii "packet
    Pad // a // b
{ i8i8 @calculatedFrom( ""a	b"") `u8 x,` ,
} options{ =// " ++ [128512]%N ++ runes_of_ascii " emoji
float f64 i64_
=//	t
00 }
")).
Eval vm_compute in ("<<<M358>>>" ++ check (runes_of_ascii "MetaData Packet { u128  u128 `say ""hi""` ,
    // @lengthOf(
    zchar
    len ,
Pad T `say ""hi""` // " ++ [128512]%N ++ runes_of_ascii " emoji
,
}
")).
Eval vm_compute in ("<<<M907>>>" ++ check (runes_of_ascii "options{ zchar
/// triple
// a // b
=42 //
i64_ = char[]T=
    // trailing space 
    char repeatCount =
' ' ;}

")).
Eval vm_compute in ("<<<M799>>>" ++ check (runes_of_ascii "root packet trueish {
@tag(255
    )
    // `tick` ""quote"" 'q'
    repeat f32a
    leftPad /// triple
`doc`,}
")).
Eval vm_compute in ("<<<M862>>>" ++ check (runes_of_ascii "MetaData// " ++ [27880; 37322]%N ++ runes_of_ascii "
Pad { roots options1`tab	here`
, //	t
char[ 0123456789
// `tick` ""quote"" 'q'
// c
] Foo , }
")).
Eval vm_compute in ("<<<M3338>>>" ++ check (runes_of_ascii "
// c
packet calculatedFrom { @tag( 4294967296 ) u msg_type , char[ 3 ] crc @lengthOf( len ) `u8 x,` , }")).
Eval vm_compute in ("<<<M3356>>>" ++ check (runes_of_ascii "packet calculatedFrom { @tag( 4294967296 ) u msg_type ,
// c
char[ 3 ] crc @lengthOf( len ) `u8 x,` , }")).
Eval vm_compute in ("<<<M1800>>>" ++ check (runes_of_ascii "packet
    Pad // a // b
{ i8i8  ""a	b"") `u8 x,` ,
} options{ float// " ++ [128512]%N ++ runes_of_ascii " emoji
= f64 i64_
=//	t
00 }
")).
Eval vm_compute in ("<<<M3986>>>" ++ check (runes_of_ascii "packet A {
    Inner {
        match k as n {
            [1, 22, 007, 4] : B,
        },
    },
}")).
Eval vm_compute in ("<<<M393>>>" ++ check (runes_of_ascii "MetaData len {
i64
tag `// not a comment`
, int32 i8i8
,
crc
    i8i8 `{ , }` ,} // @lengthOf(")).
Eval vm_compute in ("<<<M3238>>>" ++ check (runes_of_ascii "packet Logon { @tag( 42 ) @rightPad ( ' ' ) @leftPad ( // c
) repeat trueish { string T , } , }")).
Eval vm_compute in ("<<<M2957>>>" ++ check (runes_of_ascii "packet A {
  match k as n {
    [""a"", 22, ""c c"", 4, ""e"", 66, ""g"", 8, ""i""] : B
    2 : C
  },
}")).
Eval vm_compute in ("<<<M3738>>>" ++ check (runes_of_ascii "MetaData trueish {
    _x asx,
    trueish roots,
    falsey asx `" ++ [233]%N ++ runes_of_ascii "`,
    rootA options1,
}")).
Eval vm_compute in ("<<<M555>>>" ++ check (runes_of_ascii "
options {
    len
= char[
10 ]
    asx =
false
; string_ = """"; } // `tick` ""quote"" 'q'")).
Eval vm_compute in ("<<<M2030>>>" ++ check (runes_of_ascii "root
packet crc
    `{ f32a @calculatedFrom( """ ++ [233]%N ++ runes_of_ascii "t" ++ [233]%N ++ runes_of_ascii """ )
    `say ""hi""`, lengthOf `` ,  }")).
Eval vm_compute in ("<<<M2013>>>" ++ check (runes_of_ascii "root
packet crc
    { f32a @calculatedFrom( """ ++ [233]%N ++ runes_of_ascii "t" ++ [233]%N ++ runes_of_ascii """ )
    `say ""hi""`, lengthOf , ``  }")).
Eval vm_compute in ("<<<M2929>>>" ++ check (runes_of_ascii "packet A {
  match k as n {
    [1, ""bb"", 007, ""d"", 5, ""f"", 7] : B
    2 : C
  },
}")).
Eval vm_compute in ("<<<M3297>>>" ++ check (runes_of_ascii "packet o
// c
{ @tag( 42 ) repeat x { char[ 0123456789 ] i64_ , } , } options { }")).
Eval vm_compute in ("<<<M3329>>>" ++ check (runes_of_ascii "packet o { @tag( 42 ) repeat x { char[ 0123456789 ] i64_ , } , } options
// c
{ }")).
Eval vm_compute in ("<<<M2924>>>" ++ check (runes_of_ascii "packet A {
  match k as n {
    [1, 22, 007, 4, 5, 66, 7] : B,
    2 : C
  },
}")).
Eval vm_compute in ("<<<M2284>>>" ++ check (runes_of_ascii "MetaData Packet { }packet	asx  { @lengthOf( asx) falsey`crlf
line`
,
    }")).
Eval vm_compute in ("<<<M3774>>>" ++ check (runes_of_ascii "packet A {
    @leftPad()
    char[4] x,
    @rightPad()
    zchar[2] y,
}")).
Eval vm_compute in ("<<<M1671>>>" ++ check (runes_of_ascii "root packet /// triple
rootA {	i32
MetaDataX@calculatedFrom( ""CRC32"" )")).
Eval vm_compute in ("<<<M3401>>>" ++ check (runes_of_ascii "MetaData _x { zchar[ // c
4294967296 ] lengthOf `// not a comment` , }")).
Eval vm_compute in ("<<<M294>>>" ++ check (runes_of_ascii "
packet
    //x
    MetaDataX { repeat rootA `two words` //x
,//
}")).
Eval vm_compute in ("<<<M2205>>>" ++ check (runes_of_ascii "root
    // `tick` ""quote"" 'q'
    packet As { trueish @Packet , }
")).
Eval vm_compute in ("<<<M3750>>>" ++ check (runes_of_ascii "MetaData _x {
    zchar[4294967296] lengthOf `// not a comment`,
}")).
Eval vm_compute in ("<<<M252>>>" ++ check (runes_of_ascii "packet
f32a { //
@tag( 1 )  Z9_ chars ,chars// " ++ [128512]%N ++ runes_of_ascii " emoji
`
`, }
")).
Eval vm_compute in ("<<<M1950>>>" ++ check (runes_of_ascii "
packet	As { @cal'\x01'culatedFrom(//x
""{,}""	)lengthOf , } 	 ")).
Eval vm_compute in ("<<<M618>>>" ++ check (runes_of_ascii "options { crc =true ;lengthOf
= // a // b
char[	0 ] } //	t")).
Eval vm_compute in ("<<<M1908>>>" ++ check (runes_of_ascii "
packet	As f64 @calculatedFrom(//x
""{,}""	)lengthOf , } 	 ")).
Eval vm_compute in ("<<<M2788>>>" ++ check (runes_of_ascii "repeat } ( f32 char[ repeat false int32 uint64 @rightPad")).
Eval vm_compute in ("<<<M3818>>>" ++ check (runes_of_ascii "MetaData trueish {
    char[] chars,
    char[] int,
}")).
Eval vm_compute in ("<<<M2409>>>" ++ check (runes_of_ascii "MetaData A
{
string
chars	, } // `tick` ""quote"" 'q'")).
Eval vm_compute in ("<<<M620>>>" ++ check (runes_of_ascii "MetaData //
body{
    } // c
options { // " ++ [27880; 37322]%N ++ runes_of_ascii "
}
")).
Eval vm_compute in ("<<<M3849>>>" ++ check (runes_of_ascii "
packet
    asx
{	calculatedFrom

lengthOf,  }
")).
Eval vm_compute in ("<<<M1342>>>" ++ check (runes_of_ascii "
packet u128  {  char[00// " ++ [128512]%N ++ runes_of_ascii " emoji
]
Pad , }
")).
Eval vm_compute in ("<<<M2817>>>" ++ check (runes_of_ascii "i8 root char[] as `a\` uint8x f64 @rightPad ]")).
Eval vm_compute in ("<<<M2741>>>" ++ check (runes_of_ascii ": f32 false string u32 ; `crlf
line` ""{,}""")).
Eval vm_compute in ("<<<M1939>>>" ++ check (runes_of_ascii "
packet	As { @calculatedFrom(//x
""{,}""	)l")).
Eval vm_compute in ("<<<M2125>>>" ++ check (runes_of_ascii "MetaData x
{// " ++ [128512]%N ++ runes_of_ascii " emoji
i16 stringy , , }")).
Eval vm_compute in ("<<<M3461>>>" ++ check (runes_of_ascii "

  root 
packet	P{
	string	s,

    } ")).
Eval vm_compute in ("<<<M1752>>>" ++ check (runes_of_ascii "options { } {  } // `tick` ""quote"" 'q'")).
Eval vm_compute in ("<<<M2580>>>" ++ check (runes_of_ascii "packet A { zchar[3] x @lengthOf(y), }")).
Eval vm_compute in ("<<<M197>>>" ++ check (runes_of_ascii "  options { leftPad =	""it's""
    }
")).
Eval vm_compute in ("<<<M2805>>>" ++ check (runes_of_ascii "`// not a comment` int64 int8 true")).
Eval vm_compute in ("<<<M2836>>>" ++ check (runes_of_ascii "root float64 } packet true i32 ,")).
Eval vm_compute in ("<<<M1289>>>" ++ check (runes_of_ascii "
packet //x
Header // " ++ [27880; 37322]%N ++ runes_of_ascii "
{	}")).
Eval vm_compute in ("<<<M3727>>>" ++ check (runes_of_ascii "packet A {
    u8 x `
    `,
}")).
Eval vm_compute in ("<<<M2708>>>" ++ check (runes_of_ascii "M#T%6 >pw-dCYhy71MjW^j+tv~#}")).
Eval vm_compute in ("<<<M4047>>>" ++ check (runes_of_ascii "

  MetaData
leftPad	{ }
")).
Eval vm_compute in ("<<<M880>>>" ++ check (runes_of_ascii "// " ++ [128512]%N ++ runes_of_ascii " emoji
packet f32a{}
")).
Eval vm_compute in ("<<<M807>>>" ++ check (runes_of_ascii "  packet stringy {
    }")).
Eval vm_compute in ("<<<M3384>>>" ++ check (runes_of_ascii "packet lengthOf // c
{ }")).
Eval vm_compute in ("<<<M772>>>" ++ check (runes_of_ascii "packet
    crc {
    }")).
Eval vm_compute in ("<<<M2069>>>" ++ check (runes_of_ascii "MetaData A { u64 ,, }")).
Eval vm_compute in ("<<<M2768>>>" ++ check (runes_of_ascii "} float64 ""a	b"" : u8")).
Eval vm_compute in ("<<<M4450>>>" ++ check (runes_of_ascii "// @lengthOf(

//	t")).
Eval vm_compute in ("<<<M3087>>>" ++ check (runes_of_ascii "// c" ++ [8192]%N ++ runes_of_ascii "
packet A {
}")).
Eval vm_compute in ("<<<M2565>>>" ++ check (runes_of_ascii "packet A { u8 , }")).
Eval vm_compute in ("<<<M3921>>>" ++ check (runes_of_ascii "root packet u {
}")).
Eval vm_compute in ("<<<M2568>>>" ++ check (runes_of_ascii "packet A { x, }")).
Eval vm_compute in ("<<<M3572>>>" ++ check (runes_of_ascii "// @lengthOf(")).
Eval vm_compute in ("<<<M2483>>>" ++ check (runes_of_ascii "@centerPad")).
Eval vm_compute in ("<<<M2843>>>" ++ check (runes_of_ascii "] repeat")).
Eval vm_compute in ("<<<M2456>>>" ++ check (runes_of_ascii "string")).
Eval vm_compute in ("<<<M2508>>>" ++ check (runes_of_ascii """a\""""")).
Eval vm_compute in ("<<<M2441>>>" ++ check (runes_of_ascii "uint")).
Eval vm_compute in ("<<<M2472>>>" ++ check (runes_of_ascii "'1'")).
Eval vm_compute in ("<<<M2475>>>" ++ check (runes_of_ascii "'0")).
Eval vm_compute in ("<<<M2674>>>" ++ check (runes_of_ascii ",")).
