From FP Require Import Lexer Parser ShowPT Digest Formatter.
From Coq Require Import String List NArith.
Import ListNotations.
Open Scope string_scope.
Set Printing Width 100000000.
Set Printing Depth 100000000.
Definition show_fres (r : fres) : string :=
  match r with
  | FOk s => "OK:" ++ sh_escaped s ""
  | FErr s => "ERR:" ++ sh_escaped s ""
  | FPanic p => "PANIC:" ++ p
  end.
Definition check (rs : list rune) : string := digest (show_fres (format_res rs)).
Definition full (rs : list rune) : string := show_fres (format_res rs).
Eval vm_compute in ("<<<M3526>>>" ++ check (runes_of_ascii "options { LittleEndian // c2a
  // c2b
=
    // c3
true ;
    // c5
StringPrefixLenType // c6
= u64
    // c8
; ArrayPrefixLenType // c10
=
    // c11
u8 // c12
; FixedStringPadChar // c14
= '0' // c16
; // c17a
  // c17b
} // c18
packet // c19
Reject // c20
{ // c21
i32 // c22
Ref ,
    // c24
repeat f64 // c26a
  // c26b
OrderId , // c28a
  // c28b
repeat // c29
InNote12 // c30a
  // c30b
{ // c31a
  // c31b
u8 // c32a
  // c32b
pad0 ,
    // c34
} , // c36
@leftPad // c37
( // c38
' ' // c39
) char[ 6 // c42a
  // c42b
]
    // c43
count ,
    // c45
}
    // c46
packet // c47a
  // c47b
Logout // c48a
  // c48b
{ // c49a
  // c49b
zchar[
    // c50
6 // c51a
  // c51b
] // c52
Tail , // c54
repeat
    // c55
string // c56
venue // c57
, // c58a
  // c58b
} // c59a
  // c59b
packet Cancel
    // c61
{ // c62a
  // c62b
u64 // c63
count
    // c64
, repeat // c66
char[ // c67a
  // c67b
5
    // c68
] // c69a
  // c69b
lastPx
    // c70
, // c71
i64 // c72a
  // c72b
Tail // c73a
  // c73b
,
    // c74
repeat InF140 { // c77
repeat Logout // c79
,
    // c80
repeat // c81
Reject // c82a
  // c82b
, // c83
} // c84
,
    // c85
} root // c87a
  // c87b
packet // c88a
  // c88b
Trade {
    // c90
repeat // c91
InMsgkind39 // c92a
  // c92b
{ // c93a
  // c93b
repeat Reject ,
    // c96
char[ // c97
4 // c98a
  // c98b
] // c99
Px // c100
, } , // c103a
  // c103b
string // c104a
  // c104b
Acct // c105
, uint16
    // c107
price // c108
, // c109a
  // c109b
f32 OrderId
    // c111
, // c112a
  // c112b
u16 // c113a
  // c113b
x
    // c114
,
    // c115
u16 // c116a
  // c116b
clOrdID
    // c117
@lengthOf( Body ) // c120
, // c121
match // c122
x // c123a
  // c123b
as // c124
Body // c125
{ // c126
178
    // c127
: // c128a
  // c128b
Logout
    // c129
, 13 : // c132
Cancel // c133
, // c134a
  // c134b
174
    // c135
: // c136a
  // c136b
Reject
    // c137
, // c138
} // c139a
  // c139b
, // c140a
  // c140b
u16
    // c141
Flags // c142a
  // c142b
@calculatedFrom( // c143
""CRC32"" // c144a
  // c144b
) // c145a
  // c145b
,
    // c146
} // c147a
  // c147b
")).
Eval vm_compute in ("<<<M1242>>>" ++ check (runes_of_ascii "// " ++ [128512]%N ++ runes_of_ascii " emoji
packet f32a { falsey, } packet metadata { //	t
@lengthOf(tag )
u8 A @calculatedFrom(  """ ++ [28040; 24687]%N ++ runes_of_ascii """
) `// not a comment` ,
@calculatedFrom( """ ++ [28040; 24687]%N ++ runes_of_ascii """
) i64 i64_ @calculatedFrom( ""abc""// packet A { u8 x, }
)`a\` ,u8
u128  ,
string_ `line1
line2` ,@calculatedFrom(// " ++ [128512]%N ++ runes_of_ascii " emoji
""\" ++ [233]%N ++ runes_of_ascii """  ) // " ++ [27880; 37322]%N ++ runes_of_ascii "
@calculatedFrom( ""it's"" ) @calculatedFrom( // c
""\n"") repeat pack { zchar[ 0
    ] Foo
    @lengthOf(
uint8x ) , float32 x , } , repeat roots`a\` ,f64 Header @calculatedFrom(
""// no comment"" ) , zchar[42 ] zchar	, options1 o// " ++ [27880; 37322]%N ++ runes_of_ascii "
`" ++ [28040; 24687; 31867; 22411]%N ++ runes_of_ascii "`
, repeat
    zchar[ 7 ] len
, // " ++ [27880; 37322]%N ++ runes_of_ascii "
}
packet MetaDataX{ @calculatedFrom( ""a	b"" )repeat u128 { match rootA as
crc {007
:
pack
    , 10 : u8x ,""a\\"" : falsey , [
    //x
    ""{,}"",
0 , """ ++ [233]%N ++ runes_of_ascii "t" ++ [233]%N ++ runes_of_ascii """ , 42
    // a // b
    ,
255
, ""\n"", 10 , ""// no comment""// c
] : leftPad
, ""1"" :
    x_y_z ,
7
    :	Z9_ ,} // " ++ [27880; 37322]%N ++ runes_of_ascii "
, } ,
msg_type { repeat char[]  Pad ,/// triple
uint16 body
, }
,
    // `tick` ""quote"" 'q'
    uint16 u@lengthOf(leftPad)
    ,	@tag( 255 //
) repeat u128
{ repeat string_, repeatCount pack , repeat	stringy
{
    zchar[ 10 ] crc
    `doc`, i16
leftPad @calculatedFrom( ""it's"" ) `
`
    ,
    tag { repeat
char[] repeatCount `u8 x,`
//	t
// trailing space 
, match	stringy
as Foo	{
1 : asx, }
,match i64_ as Packet
{ ""a\""b"" :  Pad,
    ""a\\"": o ,
    [0, 0123456789 ,7 , 1 , //x
1, 7 ]
// @lengthOf(
//x
: matchKey
, },  } ,
} , i64 body
@lengthOf( metadata)  `u8 x,`  , } ,
string crc `two words` , @lengthOf(
charz )@calculatedFrom(""" ++ [233]%N ++ runes_of_ascii "t" ++ [233]%N ++ runes_of_ascii """ )
match
    string_ as
stringy{ // @lengthOf(
[	0  ] :
pack // c
,""CRC32"": crc , 1
: int ,
}//
, repeat // `tick` ""quote"" 'q'
u8
matchKey `` ,repeat int8 // a // b
matchKey , Header // `tick` ""quote"" 'q'
crc , } // `tick` ""quote"" 'q'")).
Eval vm_compute in ("<<<M940>>>" ++ check (runes_of_ascii "  options {
    uint8x = u64 ; crc =	'0'
// @lengthOf(
// " ++ [128512]%N ++ runes_of_ascii " emoji
MetaDataX= '0' ;
    len
    ='0' } MetaData
matchKey
{/// triple
}
packet
// " ++ [128512]%N ++ runes_of_ascii " emoji
/// triple
i64_{ BodyLength
    `tab	here`, @tag(
00 )
repeat string_ ,
    @calculatedFrom( """ ++ [28040; 24687]%N ++ runes_of_ascii """ ) @leftPad ( '0' ) crc @calculatedFrom(
    """ ++ [233]%N ++ runes_of_ascii "t" ++ [233]%N ++ runes_of_ascii """
    ) , @tag(
    1	)  zchar[ 007 ] packetx
`
`,
@leftPad (
'0' ) x @calculatedFrom( ""packet""
    )
// `tick` ""quote"" 'q'
// a // b
,
@lengthOf( A ) /// triple
@calculatedFrom(  ""{,}"" //x
)@rightPad (
'0'  ) string Header `say ""hi""`
// a // b
// c
, @lengthOf(	u8x
)
x Header `doc`
// packet A { u8 x, }
//x
,}
    packet uint8x{ @leftPad (
'\x00')
    @lengthOf( //	t
leftPad	)
    BodyLength u , }	root packet A { @rightPad ( '\x00' )
    @lengthOf(
    leftPad  ) char[ 4294967296 ] A @calculatedFrom( ""// no comment"" ),
    @tag(
42	)
@calculatedFrom( ""packet"")	@calculatedFrom( """ ++ [128512]%N ++ runes_of_ascii """ ) repeat
Z9_ `" ++ [28040; 24687; 31867; 22411]%N ++ runes_of_ascii "` ,
rootA crc // " ++ [27880; 37322]%N ++ runes_of_ascii "
,
    Header ,  char[
    4294967296	]
charz`{ , }` , @calculatedFrom( ""\n"" ) @calculatedFrom(
    ""it's"" ) u64//
stringy
    `" ++ [233]%N ++ runes_of_ascii "` , repeat options1 {
    body
    { lengthOf @calculatedFrom(
    //x
    ""a\\""
)
, options1{ repeat chars leftPad `two words` ,
// " ++ [27880; 37322]%N ++ runes_of_ascii "
// " ++ [27880; 37322]%N ++ runes_of_ascii "
} , } ,repeat// " ++ [27880; 37322]%N ++ runes_of_ascii "
char[] _x , zchar[ 3] options1
    //x
    ,
} ,@lengthOf( packetx ) @leftPad
    ( ' '
    )
    @lengthOf( rootA )float  Packet , @tag( 7 )
repeat
// " ++ [27880; 37322]%N ++ runes_of_ascii "
// trailing space 
u8	matchKey,}
//	t
")).
Eval vm_compute in ("<<<M3620>>>" ++ check (runes_of_ascii "MetaData body {
asx stringy
, f64
        // " ++ [27880; 37322]%N ++ runes_of_ascii "
    	// c
      As

    ``

,

Foo Logon
`a\` 
// " ++ [27880; 37322]%N ++ runes_of_ascii "
, packetx
	asx
    `" ++ [28040; 24687; 31867; 22411]%N ++ runes_of_ascii "`
,  u32
    matchKey `line1
line2`,u16	chars	,
}	root
packet
    _x  //	t
		{ 
match
	rootA  as
	repeatCount{ 
      /// triple

  //x
	007

:msg_type /// triple
	[	4294967296 , ""// no comment""	]:  leftPad,
"""":packetx
,

    0123456789
:
    Logon 
, 10
:
	a1

,
[
""abc""

    ,7  // packet A { u8 x, }
		, ""CRC32"",
0123456789

    ,

255  ,

    ""a\""b""
    , 
""" ++ [128512]%N ++ runes_of_ascii """

    ] :len  ,}
    ,
    repeat 
string
trueish , @rightPad(

    ) int64
f32a
@lengthOf(tag
) 
, 

// a // b
// @lengthOf(
    zchar[
	42

    ] 
lengthOf
	@lengthOf(  tag
)  `{ , }` ,
@tag(

10) int32
    //
//	t
leftPad

    `doc`
, x_y_z
chars ,  @calculatedFrom(
	""// no comment""
	) @lengthOf(
	_x )
    @lengthOf(
	matchKey
    ) repeat
	zchar 
zchar	,
@calculatedFrom(	/// triple
""a	b""	)  repeat
	Pad	i8i8
,@tag(
	1
    // c
  )

    repeat  int16 
metadata	,	} options	{
    T
=
""`tick`""
    // packet A { u8 x, }
    ; 
crc = 
'\x00'; 	 // packet A { u8 x, }
  o
	= ' '

    ;

    } packet 
matchKey// trailing space 
  {  zchar[  0123456789

    ] crc	, @lengthOf(packetx)char[]	//	t
    	uint8x

`say ""hi""` , repeat
    As  A ,}  
  // c")).
Eval vm_compute in ("<<<M873>>>" ++ check (runes_of_ascii "packet i8i8  {
@lengthOf( body )
// trailing space 
// " ++ [128512]%N ++ runes_of_ascii " emoji
@lengthOf(  T
    )calculatedFrom @calculatedFrom( """" ) , uint32 x`crlf
line`
    , uint64 string_ `{ , }` ,i64 _x // `tick` ""quote"" 'q'
@calculatedFrom(""a	b""
    )
`doc` , @lengthOf( len )
asx `doc`,charz `two words`,
}  packet	u { @rightPad (	) repeat u128 u8x
    , // trailing space 
float64 stringy @calculatedFrom(
    """ ++ [128512]%N ++ runes_of_ascii """)`crlf
line` ,
@rightPad( ) @tag(10 ) repeat
    options1 `crlf
line`, zchar[ 0 ] i8i8 , int16 // " ++ [128512]%N ++ runes_of_ascii " emoji
matchKey@calculatedFrom(""CRC32"" )
,}packet string_	{ zchar
    // @lengthOf(
    @calculatedFrom( ""packet"" ), repeat
asx chars `tab	here` , }packet falsey { body
BodyLength`two words`
// a // b
// trailing space 
,
match Z9_	as lengthOf{
4294967296 : roots // " ++ [27880; 37322]%N ++ runes_of_ascii "
} , char[	3
    // @lengthOf(
    ]asx `crlf
line` , }root packet float	{
repeat  i8i8 , @lengthOf(options1 ) roots
roots  ,
repeat zchar[ 1 ]
    /// triple
    pack , i64_ , falsey`` , match options1 as
    // @lengthOf(
    x_y_z { 0// packet A { u8 x, }
: int , } ,	zchar[ 007 ] A@calculatedFrom( ""a	b""	)
, trueish {repeat char[]i8i8 `doc` , }  , i8i8 `
`
    //
    , uint8 roots `two words`// c
,} 	 ")).
Eval vm_compute in ("<<<M1119>>>" ++ check (runes_of_ascii "packet msg_type {  char[ 10
    ]Logon  @lengthOf(	u8x ) `` , repeat
    i16
    Logon `two words`
,} MetaData matchKey  { zchar[ 0
] tag`" ++ [28040; 24687; 31867; 22411]%N ++ runes_of_ascii "` , }
    packet leftPad { repeat// trailing space 
roots
    // trailing space 
    { match zchar	as
T { ""{,}""
//x
// " ++ [27880; 37322]%N ++ runes_of_ascii "
:
    Z9_ , ""\n"" : tag
""a\\"": lengthOf ,} , }
, }root  packet a1
{
@tag(	3 )
    u128`it's`
    ,MetaDataX
{match // `tick` ""quote"" 'q'
metadata
    as o  { ""`tick`""
:roots 10 : u, ""\" ++ [233]%N ++ runes_of_ascii """ :	float , } , char[ 3 ]
    /// triple
    pack
@calculatedFrom( ""`tick`""  ) , match
pack  as asx {7
    : rootA [
42 , 1	,
    ""\" ++ [233]%N ++ runes_of_ascii """ , ""a	b""  , """ ++ [28040; 24687]%N ++ runes_of_ascii """  ,00 ,10, ""a\\"" ]	:	x_y_z ,/// triple
42 :f32a // " ++ [128512]%N ++ runes_of_ascii " emoji
42:u // c
, """ ++ [128512]%N ++ runes_of_ascii """ // @lengthOf(
: A
1 : Z9_// `tick` ""quote"" 'q'
},} ,i64 roots , zchar[ 65535
    ] stringy,crc @calculatedFrom( ""a\\"") , zchar[ 007]
stringy
    , /// triple
string
    Z9_ ,  @calculatedFrom( // c
""x y"" )@lengthOf(calculatedFrom)@calculatedFrom( ""abc"") u128`it's`
,//
@tag(
    // a // b
    1 ) zchar[ 0123456789	] string_
    , } options {//x
metadata= '\x00' u = false
T
=	10 ;
_x= ""abc"" asx = false ; } // packet A { u8 x, }")).
Eval vm_compute in ("<<<M607>>>" ++ check (runes_of_ascii "packet
Header
// " ++ [27880; 37322]%N ++ runes_of_ascii "
// a // b
{
    msg_type@lengthOf( leftPad// @lengthOf(
) , @calculatedFrom( ""x y""
) int16 A @calculatedFrom( """ ++ [233]%N ++ runes_of_ascii "t" ++ [233]%N ++ runes_of_ascii """ ) , @calculatedFrom( ""packet"") metadata@lengthOf( leftPad
    )
,
match len  as pack {	7/// triple
:a1
    , 10: uint8x
    ,""`tick`""// `tick` ""quote"" 'q'
: // c
options1 00
: repeatCount , } ,
@rightPad ( '\x00')//	t
@tag(	10 ) @tag(
7 // @lengthOf(
)repeat char[ 42 ]	As`two words` , @tag( 65535 )
    zchar
// a // b
// " ++ [27880; 37322]%N ++ runes_of_ascii "
@lengthOf(
    // packet A { u8 x, }
    body
)
    `" ++ [28040; 24687; 31867; 22411]%N ++ runes_of_ascii "` , @tag(255 ) // packet A { u8 x, }
repeat// " ++ [128512]%N ++ runes_of_ascii " emoji
Packet
    { repeat
    char
    falsey
`two words`
, repeat T {
char[]chars ,repeat f32a {
    // packet A { u8 x, }
    repeat char[] falsey `tab	here` , } ,
    } , match u8x as pack { [ ""{,}""
,
""\" ++ [233]%N ++ runes_of_ascii """
    ,
// trailing space 
// c
""a	b"" ,
    ""\n""
,1] // " ++ [128512]%N ++ runes_of_ascii " emoji
:
int
    ""x y"" :
    A
,
""CRC32"" : leftPad
, }
    , //x
f32a x //
,} ,  }
packet charz {  repeat lengthOf
lengthOf , }
options{ body =
true;
metadata = 4294967296 ; len= uint32 ;	} // @lengthOf(")).
Eval vm_compute in ("<<<M1058>>>" ++ check (runes_of_ascii "root
    packet rootA {
x_y_z { _x// a // b
, } ,	}
    MetaData leftPad { } packet float {	repeat // trailing space 
Header{  float64 i64_
    @calculatedFrom( ""{,}"" ) `crlf
line` ,// c
}
    , // @lengthOf(
zchar
    // " ++ [27880; 37322]%N ++ runes_of_ascii "
    { charz @calculatedFrom(//x
""a	b""  ),  zchar[	3	]
T @calculatedFrom(
    ""it's"")
, packetx ,	x_y_z As`u8 x,` ,  },
} root packet
// `tick` ""quote"" 'q'
//	t
asx{ repeat
uint32
u128 ,
    @tag( /// triple
3) Z9_
, crc	@calculatedFrom( """"
// @lengthOf(
// " ++ [27880; 37322]%N ++ runes_of_ascii "
) `{ , }` ,  @calculatedFrom(
""a\\"" )@calculatedFrom( ""a\""b"" ) @tag(
0123456789
    )
match
float
as u{ //
[ 1
// `tick` ""quote"" 'q'
//x
, 0 ,
007 , """ ++ [128512]%N ++ runes_of_ascii """ ,
// " ++ [128512]%N ++ runes_of_ascii " emoji
//
3 ,	1
// " ++ [128512]%N ++ runes_of_ascii " emoji
// @lengthOf(
, """ ++ [28040; 24687]%N ++ runes_of_ascii """, 10
    ]: repeatCount ,} ,  repeat char metadata
`tab	here`
,
    // @lengthOf(
    @tag( 65535	)// a // b
i64_ {
    // " ++ [128512]%N ++ runes_of_ascii " emoji
    i32 roots`a\`	, } , @lengthOf( repeatCount
)
    // a // b
    i16
    rootA @lengthOf( u) ,@lengthOf( Header ) _x{ repeat A i8i8
    ,
    }//
, }")).
Eval vm_compute in ("<<<M4397>>>" ++ check (runes_of_ascii "root packet rootA {
    x_y_z {
        _x,
    },
}

MetaData leftPad {
}

packet float {
    repeat Header {
        float64 i64_ @calculatedFrom(""{,}"") `crlf
                line`,// c
    },// @lengthOf(
    zchar {
        charz @calculatedFrom(""a	b""),
        zchar[3] T @calculatedFrom(""it's""),
        packetx,
        x_y_z As `u8 x,`,
    },
}

root packet asx {
    repeat uint32 u128,
    @tag(3)
    Z9_,
    crc @calculatedFrom("""") `{ , }`,
    @calculatedFrom(""a\\"")
    @calculatedFrom(""a\""b"")
    @tag(0123456789)
    match float as u {
        //
        [
            1, 0, 007, """ ++ [128512]%N ++ runes_of_ascii """, 3,
            1, """ ++ [28040; 24687]%N ++ runes_of_ascii """, 10
        ] : repeatCount,
    },
    repeat char metadata `tab	here`,
    // @lengthOf(
    @tag(65535)
    // a // b
    i64_ {
        // " ++ [128512]%N ++ runes_of_ascii " emoji
        i32 roots `a\`,
    },
    @lengthOf(repeatCount)
    // a // b
    i16 rootA @lengthOf(u),
    @lengthOf(Header)
    _x {
        repeat A i8i8,
    },
}")).
Eval vm_compute in ("<<<M881>>>" ++ check (runes_of_ascii "
packet
matchKey { @tag( // `tick` ""quote"" 'q'
00	) x // " ++ [128512]%N ++ runes_of_ascii " emoji
@calculatedFrom( ""a\\"" )
    ,
    } packet metadata{ @tag(	0
) zchar[ 3] // " ++ [27880; 37322]%N ++ runes_of_ascii "
asx @lengthOf( msg_type )
, @tag( 65535 )zchar[ 1
    ] Header ,@calculatedFrom(""`tick`"") @calculatedFrom( ""it's"" ) @lengthOf( i8i8
    // trailing space 
    ) f32a { repeat A{
    repeat repeatCount
// @lengthOf(
// " ++ [128512]%N ++ runes_of_ascii " emoji
T ,
    },
    uint8x { //	t
int64 As`line1
line2` ,	zchar[
007 ]
    //x
    Pad // a // b
`u8 x,`, repeat  trueish
    // trailing space 
    { repeat  char[ 1
    ]
i8i8 `crlf
line` ,string_ metadata
    `` , // a // b
zchar ,	i8i8
    int
    `" ++ [28040; 24687; 31867; 22411]%N ++ runes_of_ascii "` ,} // " ++ [128512]%N ++ runes_of_ascii " emoji
,
} , },
    @calculatedFrom( """"
    // `tick` ""quote"" 'q'
    ) zchar[
007 ]o , } // trailing space 
packet
a1
{
i16 A @calculatedFrom( ""\" ++ [233]%N ++ runes_of_ascii """
    // trailing space 
    ) `line1
line2` ,@leftPad( ) @tag( 7	) pack
{ repeat As ,
} , // c
}")).
Eval vm_compute in ("<<<M619>>>" ++ check (runes_of_ascii "  root packet repeatCount { @tag(10 )char[]
options1 @calculatedFrom(// a // b
""abc"" ) ,
    repeat float32 trueish, int16 x`{ , }`  , }  packet o { char[ 007
/// triple
// packet A { u8 x, }
] falsey `a\`, repeat float crc , match i64_ as roots // packet A { u8 x, }
{ [ 4294967296 ,
""// no comment""  ] : u8x ,	}
    //x
    , @rightPad(
    '0' ) @leftPad ( ) char[] msg_type @calculatedFrom(
""" ++ [233]%N ++ runes_of_ascii "t" ++ [233]%N ++ runes_of_ascii """
    )
// packet A { u8 x, }
// " ++ [128512]%N ++ runes_of_ascii " emoji
, match
// a // b
// " ++ [27880; 37322]%N ++ runes_of_ascii "
tag	as x_y_z { """" :As}, f32 int
    @calculatedFrom(""\" ++ [233]%N ++ runes_of_ascii """
) , match u8x // trailing space 
as repeatCount// c
{ 42  : // packet A { u8 x, }
calculatedFrom , [ 1 , 007
    ] : T  } ,
@lengthOf(
Foo )u128
{ pack
    @lengthOf(zchar)  `u8 x,` ,}
,
i8 u , @lengthOf( Pad) match Header as As { [	00
    ,
"""",0123456789 , ""\n"" , 42 ]
    // " ++ [128512]%N ++ runes_of_ascii " emoji
    :repeatCount }, }
")).
Eval vm_compute in ("<<<M3528>>>" ++ check (runes_of_ascii "options {
    LittleEndian = true;
    StringPrefixLenType = u64;
    ArrayPrefixLenType = u8;
    FixedStringPadChar = '0';
}
packet Reject {
    i32 Ref,
    repeat f64 OrderId,
    repeat InNote12 {
        u8 pad0,
    },
    @leftPad(' ') char[6] count,
}
packet Logout {
    zchar[6] Tail,
    repeat string venue,
}
packet Cancel {
    u64 count,
    repeat char[5] lastPx,
    i64 Tail,
    repeat InF140 {
        repeat Logout,
        repeat Reject,
    },
}
root packet Trade {
    repeat InMsgkind39 {
        repeat Reject,
        char[4] Px,
    },
    string Acct,
    uint16 price,
    f32 OrderId,
    u16 x,
    u16 clOrdID @lengthOf(Body),
    match x as Body {
        178 : Logout,
        13 : Cancel,
        174 : Reject,
    },
    u16 Flags @calculatedFrom(""CR\
C32""),
}
")).
Eval vm_compute in ("<<<M1244>>>" ++ check (runes_of_ascii "// packet A { u8 x, }
options {
As = ""// no comment"";
    } options //x
{
    string_ = float32
int =
'\x00' body
=// " ++ [27880; 37322]%N ++ runes_of_ascii "
zchar[ 1//
]
    }
    MetaData
    trueish {char A , tag falsey `line1
line2` ,
    float32
crc `{ , }` ,	float32 rootA `
` , char[ 1	] As  ,
body
    asx ,} root
packet u8x { zchar[
0123456789 ] Packet @calculatedFrom(
    ""it's"" ) ,@leftPad
    (
// c
//	t
)
    // `tick` ""quote"" 'q'
    Logon `" ++ [233]%N ++ runes_of_ascii "`
    ,	string metadata	`" ++ [28040; 24687; 31867; 22411]%N ++ runes_of_ascii "` ,// trailing space 
u8x // a // b
x
`{ , }` , match string_
as metadata {	10 : float
    // c
    }
    ,
    options1
    @calculatedFrom(""" ++ [28040; 24687]%N ++ runes_of_ascii """
    )
,@rightPad ('0' )
string
packetx// " ++ [27880; 37322]%N ++ runes_of_ascii "
,
char[
007]
x_y_z
    `a\` ,@rightPad ( ' ' ) chars { int32 o// c
,float @calculatedFrom( ""packet"" )`line1
line2`, }
,
}
")).
Eval vm_compute in ("<<<M3515>>>" ++ check (runes_of_ascii "options { // c1a
  // c1b
LittleEndian = // c3a
  // c3b
true
    // c4
;
    // c5
ArrayPrefixLenType // c6a
  // c6b
= u64
    // c8
; // c9a
  // c9b
FixedStringPadFromLeft // c10a
  // c10b
= // c11a
  // c11b
false // c12
; } packet
    // c15
Quote
    // c16
{ } // c18
root // c19a
  // c19b
packet // c20a
  // c20b
Order // c21a
  // c21b
{
    // c22
i64 Side2
    // c24
, // c25
Quote // c26a
  // c26b
,
    // c27
u32 Px // c29
, // c30
match
    // c31
Px
    // c32
as
    // c33
Body { [ // c36
119
    // c37
,
    // c38
147 ] : // c41a
  // c41b
Quote // c42a
  // c42b
, // c43
} ,
    // c45
u16
    // c46
Flags // c47a
  // c47b
@calculatedFrom( // c48a
  // c48b
""CRC32"" ) // c50a
  // c50b
,
    // c51
} ")).
Eval vm_compute in ("<<<M3998>>>" ++ check (runes_of_ascii "MetaData stringy {
    Packet falsey `" ++ [28040; 24687; 31867; 22411]%N ++ runes_of_ascii "`,
}

packet Foo {
    @lengthOf(i8i8)
    zchar[10] chars `{ , }`,
    @calculatedFrom(""1"")
    char[007] x,
    @lengthOf(int)
    zchar[10] string_ `two words`,
    repeat repeatCount {
        u32 len,
        T rootA,
        char[7] falsey @lengthOf(crc),
        // " ++ [128512]%N ++ runes_of_ascii " emoji
        // packet A { u8 x, }
        int16 BodyLength,
    },
    packetx @lengthOf(u),
    zchar[3] chars,
    float32 x_y_z `{ , }`,
    @calculatedFrom(""1"")
    uint16 trueish @calculatedFrom(""" ++ [128512]%N ++ runes_of_ascii """) `line1
        line2`,
    Z9_ chars,
}

root packet crc {
    char[] T,
}

MetaData len {
    uint16 uint8x,
    f64 string_ `" ++ [28040; 24687; 31867; 22411]%N ++ runes_of_ascii "`,
    char[] i8i8 `// not a comment`,
}")).
Eval vm_compute in ("<<<M4241>>>" ++ check (runes_of_ascii "options {
    metadata = '0'
    int = 007;
    zchar = '\x00';
}

packet charz {
    @leftPad('0')
    @tag(42)
    @calculatedFrom(""a\""b"")
    char[] packetx @calculatedFrom(""\" ++ [233]%N ++ runes_of_ascii """) `
    `,
    match charz as msg_type {
        //
        // trailing space 
        4294967296 : o,
        0123456789 : trueish,
        ""// no comment"" : asx,
        //x
        [
            65535, 65535, 3, ""a\""b"", ""a\\"",
            """ ++ [28040; 24687]%N ++ runes_of_ascii """, 0123456789, ""a	b""
        ] : T,
    },
    @rightPad(' ')
    crc,
    repeat char[] stringy `a\`,
}

// " ++ [128512]%N ++ runes_of_ascii " emoji
// " ++ [128512]%N ++ runes_of_ascii " emoji
MetaData tag {
    uint64 metadata,
    int64 trueish `{ , }`,
    uint32 a1,
    f32 Packet `// not a comment`,
}")).
Eval vm_compute in ("<<<M3915>>>" ++ check (runes_of_ascii "// packet A { u8 x, }
MetaData f32a {
    int64 i8i8,
    u64 Packet ``,
    falsey _x,// trailing space 
    tag roots ``,
    uint32 Foo `two words`,
    char[] asx,
}

packet options1 {
    char[00] u128,
    //x
    // a // b
    @calculatedFrom(""`tick`"")
    Header @calculatedFrom(""1""),
    @leftPad()
    match u as o {
        [""a\\""] : stringy,
        ""abc"" : f32a,
    },
    f64 x_y_z @lengthOf(o),
    repeat char[00] int `
        `,
    char[] options1 `{ , }`,// `tick` ""quote"" 'q'
    zchar[00] charz,
    char[] MetaDataX `a\`,
    match packetx as zchar {
        [10, 1] : i8i8,
        ""CRC32"" : Logon,
    },
}
//	t")).
Eval vm_compute in ("<<<M4247>>>" ++ check (runes_of_ascii "
options {
	zchar
    = 
false

;Packet
    =""`tick`"" 
;a1  =
    // c

char[]
; 
Packet =

0123456789
    ;}packet msg_type
{	/// triple
  @lengthOf( u128
	)body	@lengthOf(
len  )

    ,

@calculatedFrom(
""CRC32""
    )zchar[ 
    /// triple

	007  ]	// packet A { u8 x, }

repeatCount

@lengthOf(
    Foo  )

    `it's`, i16
leftPad
	@calculatedFrom( ""a\\"" ) 
`u8 x,`

    ,
    /// triple

  float
	,
@lengthOf(
	a1
    )

    As@lengthOf( rootA  )`doc` // @lengthOf(
, 	 // " ++ [128512]%N ++ runes_of_ascii " emoji
  	f32

    o @calculatedFrom(""a	b"" ) `tab	here` 
,
} options
	// @lengthOf(
    // " ++ [27880; 37322]%N ++ runes_of_ascii "
    {
} options {
} ")).
Eval vm_compute in ("<<<M3555>>>" ++ check (runes_of_ascii "// top
packet
    // c0
Sub { u8
    // c3
a // c4a
  // c4b
,
    // c5
@calculatedFrom( // c6
""CRC16"" // c7
) // c8a
  // c8b
i16 // c9a
  // c9b
SubSum
    // c10
, } // c12
root packet
    // c14
Frame { // c16a
  // c16b
u16 // c17a
  // c17b
MsgType , u16
    // c20
BodyLen @lengthOf(
    // c22
Body // c23a
  // c23b
) // c24a
  // c24b
, Sub // c26a
  // c26b
Body // c27
,
    // c28
string note // c30
, @calculatedFrom( // c32
""CRC16"" // c33
) // c34a
  // c34b
i16 // c35a
  // c35b
Checksum // c36a
  // c36b
, u8 tail // c39
, // c40
} // c41a
  // c41b
")).
Eval vm_compute in ("<<<M4371>>>" ++ check (runes_of_ascii "packet matchKey {
    @rightPad(' ')
    @tag(65535)
    _x @lengthOf(options1) `" ++ [28040; 24687; 31867; 22411]%N ++ runes_of_ascii "`,
    @lengthOf(o)
    tag Logon,
}

packet pack {
    @tag(7)
    zchar[0] u @calculatedFrom(""\n"") `a\`,
    repeat stringy,
    repeat i8i8 a1,
    char[0] pack @calculatedFrom(""\n"") `line1
        line2`,
}

packet u128 {
    @lengthOf(metadata)
    int8 Foo `
        `,
    @leftPad('\x00')
    zchar,
    len Header,
    repeat chars ``,
    f64 trueish @calculatedFrom(""`tick`""),
    @lengthOf(matchKey)
    uint32 i8i8,
    asx int `a\`,
}")).
Eval vm_compute in ("<<<M1089>>>" ++ check (runes_of_ascii "options
{ u128// trailing space 
=i8  T = float64
    body =	char[ 0123456789 ] ;i8i8 = uint64	; }
root packet calculatedFrom{
    zchar[
0123456789 ] As  @calculatedFrom(
""" ++ [28040; 24687]%N ++ runes_of_ascii """ ) , // " ++ [128512]%N ++ runes_of_ascii " emoji
@calculatedFrom( """ ++ [233]%N ++ runes_of_ascii "t" ++ [233]%N ++ runes_of_ascii """ ) repeat
    Logon{ string
    matchKey	@lengthOf( i8i8
// `tick` ""quote"" 'q'
// `tick` ""quote"" 'q'
)
    ,
    repeat
    i64_ ,
} // a // b
,repeat
    uint8 u8x `a\`
,
char[ 255] pack
    ,} MetaData options1 {
string Pad `{ , }`
, Header _x , u16 repeatCount// a // b
`u8 x,`
, }
")).
Eval vm_compute in ("<<<M3908>>>" ++ check (runes_of_ascii "
packet // " ++ [27880; 37322]%N ++ runes_of_ascii "
    	u8x  {u64 
metadata `a\`,
@tag(65535) @rightPad  (
)  repeat 
int16
As  ,

    @rightPad (
)
	match lengthOf
    as 
body
	{ 
7 : 
	    // @lengthOf(
// @lengthOf(
    	chars  ,[

255,
	""// no comment""

,
    //x
	0123456789,
""\n"", 7
	,

    ""a	b"" ]
:	x_y_z

,
	""abc""
:

    metadata

    }

    ,} packet  lengthOf{char[]  // " ++ [128512]%N ++ runes_of_ascii " emoji
    As @calculatedFrom(
""a\\""
	) 
        // " ++ [128512]%N ++ runes_of_ascii " emoji
  // `tick` ""quote"" 'q'
`a\` 
	    //
	, } 
    // c
 
")).
Eval vm_compute in ("<<<M3805>>>" ++ check (runes_of_ascii "packet f32a {
}

packet trueish {
    @rightPad()
    rootA @lengthOf(Pad),
    @tag(0)
    Logon @lengthOf(trueish),
    As `
    `,
    repeat int8 Logon,
    @tag(255)
    // `tick` ""quote"" 'q'
    char A,
    i64 Header,
    match Z9_ as falsey {
        65535 : x_y_z,
        ""CRC32"" : float,
    },
    i8 len,
    @tag(7)
    // `tick` ""quote"" 'q'
    repeat rootA x_y_z,
    @tag(00)
    zchar[007] x_y_z `a\`,
}

MetaData roots {
}// `tick` ""quote"" 'q'")).
Eval vm_compute in ("<<<M981>>>" ++ check (runes_of_ascii "packet
    BodyLength
    //x
    {
//	t
//	t
@lengthOf( tag)
    // " ++ [27880; 37322]%N ++ runes_of_ascii "
    len `{ , }`,
    @calculatedFrom(
""\n"" )
    zchar[ 00]
i64_, repeat
A{ char rootA , MetaDataX
    @calculatedFrom(
    ""\" ++ [233]%N ++ runes_of_ascii """
    ) , }//x
, } packet	Packet
    {	uint64 Packet @calculatedFrom( /// triple
""" ++ [28040; 24687]%N ++ runes_of_ascii """ )
,
char[007
// " ++ [128512]%N ++ runes_of_ascii " emoji
// a // b
]
x ,float64 uint8x // " ++ [128512]%N ++ runes_of_ascii " emoji
@calculatedFrom(
// " ++ [27880; 37322]%N ++ runes_of_ascii "
// a // b
""" ++ [233]%N ++ runes_of_ascii "t" ++ [233]%N ++ runes_of_ascii """ )  , } packet
    float
    {u128
    , } // @lengthOf(")).
Eval vm_compute in ("<<<M4131>>>" ++ check (runes_of_ascii "MetaData uint8x {
    _x stringy,
    i8i8 _x,
    char[1] a1 `it's`,
    crc metadata,
}

packet Logon {
    /// triple
    repeat Logon stringy,
    match falsey as T {
        [1] : packetx,
        65535 : pack,
        [""" ++ [28040; 24687]%N ++ runes_of_ascii """, ""abc""] : metadata,
    },
    @calculatedFrom(""x y"")
    repeat len {
        lengthOf @calculatedFrom(""`tick`""),
        u8x msg_type,
    },
    @calculatedFrom(""\n"")
    repeat i64 BodyLength,
}")).
Eval vm_compute in ("<<<M3547>>>" ++ check (runes_of_ascii "options {
    LittleEndian = false;
    StringPrefixLenType = u8;
    ArrayPrefixLenType = u16;
    FixedStringPadFromLeft = false;
}
packet Heartbeat {
    u8 seqNo,
    @rightPad('\x00') char[8] x,
}
root packet Trade {
    repeat Heartbeat,
    float32 OrderId,
    i64 Acct,
    u16 Qty,
    u16 clOrdID,
    match clOrdID as Body {
        131 : Heartbeat,
    },
    u16 sym @calculatedFrom(""CR\
C32""),
}
")).
Eval vm_compute in ("<<<M818>>>" ++ check (runes_of_ascii "packet	lengthOf
{@calculatedFrom( ""a	b"" )
    char[]charz @calculatedFrom(	""`tick`"")
    `{ , }`
, } MetaData lengthOf {}  options
    { o =
    char[];
// `tick` ""quote"" 'q'
// trailing space 
}	packet o
{repeat repeatCount {repeat
    i8 Header `tab	here`
    ,
//
// packet A { u8 x, }
x_y_z rootA
`doc` , }, zchar[  65535
] _x `
` , @leftPad (
    '\x00'
) i32  options1 `crlf
line`
, }")).
Eval vm_compute in ("<<<M893>>>" ++ check (runes_of_ascii "
packet repeatCount{}packet pack
{ _x @lengthOf(Pad )	, } options // c
{ // " ++ [128512]%N ++ runes_of_ascii " emoji
Foo=
255 ;
    // trailing space 
    }packet tag { @tag( 0123456789 ) @calculatedFrom(// `tick` ""quote"" 'q'
""a\""b"" )uint32 a1 ,repeat string_ {  zchar[ 255 ]T , // @lengthOf(
},
    @rightPad(
) roots@lengthOf( trueish ) `// not a comment` ,	float // c
, uint8x lengthOf	`two words`,}
")).
Eval vm_compute in ("<<<M3437>>>" ++ check (runes_of_ascii "packet B // c1
{ // c2
u8 // c3a
  // c3b
a // c4
,
    // c5
} // c6a
  // c6b
root
    // c7
packet
    // c8
P // c9
{ // c10a
  // c10b
u8 // c11
K // c12a
  // c12b
, // c13a
  // c13b
u64 // c14
L @lengthOf( Body // c17a
  // c17b
) // c18
,
    // c19
match // c20a
  // c20b
K as // c22
Body // c23
{
    // c24
1 // c25
: // c26
B // c27
, } , } // c31
")).
Eval vm_compute in ("<<<M858>>>" ++ check (runes_of_ascii "
root packet f32a {	@leftPad
( '0' ) @tag( 00 )
@rightPad( '0'
)falsey tag//x
, /// triple
float32 packetx`tab	here`
    , Pad
    , @tag( 255
)
    char[]T`" ++ [28040; 24687; 31867; 22411]%N ++ runes_of_ascii "` , repeat char[ 4294967296  ]
    Logon  , repeat zchar[ // @lengthOf(
007 ]x
`
`
    //	t
    ,
uint64 uint8x `two words`
,
    Z9_ @lengthOf( f32a  )
,	} // packet A { u8 x, }")).
Eval vm_compute in ("<<<M4290>>>" ++ check (runes_of_ascii "
root 
packet
packetx
{uint32 
x_y_z
	@calculatedFrom(	""" ++ [233]%N ++ runes_of_ascii "t" ++ [233]%N ++ runes_of_ascii """	) , @calculatedFrom(
""{,}""// trailing space 
  )float

    calculatedFrom`line1
line2`
	,
	u16
	Packet@lengthOf(f32a 
)
    ,	char[] 
o

`tab	here`
	,
@calculatedFrom(
	""x y""	)
    T { 
repeat  i64
    chars,

    }
	,
    i16

roots

    ,

} 	 // @lengthOf(")).
Eval vm_compute in ("<<<M4270>>>" ++ check (runes_of_ascii "MetaData metadata {
    char[3] roots,
    As zchar,
    u msg_type `say ""hi""`,
    float32 options1 ``,
    char[] packetx,
}

root packet f32a {
    char[] MetaDataX `{ , }`,
}

/// triple
// c
packet _x {
    @lengthOf(A)
    i64 x,
    int @lengthOf(MetaDataX),
    repeat BodyLength {
        f32 lengthOf,
    },
}")).
Eval vm_compute in ("<<<M1590>>>" ++ check (runes_of_ascii "root packet Foo // " ++ [128512]%N ++ runes_of_ascii " emoji
{ } options {
    // a // b
    tag // `tick` ""quote"" 'q'
= //	t
""""
    ; u8x = zchar[0  ] }
MetaData
    int {zchar[ 10]
lengthOf	`` , i64 u8x`// not a comment` ,MetaDataX pack// `tick` ""quote"" 'q'
`crlf
line`
, Logon charz `crlf
line` `crlf
line`
    ,
    // a // b
    }
")).
Eval vm_compute in ("<<<M1472>>>" ++ check (runes_of_ascii "root packet Foo // " ++ [128512]%N ++ runes_of_ascii " emoji
{ } options {
    // a // b
    tag // `tick` ""quote"" 'q'
= //	t
""""
    ; u8x packet zchar[0  ] }
MetaData
    int {zchar[ 10]
lengthOf	`` , i64 u8x`// not a comment` ,MetaDataX pack// `tick` ""quote"" 'q'
`crlf
line`
, Logon charz `crlf
line`
    ,
    // a // b
    }
")).
Eval vm_compute in ("<<<M1427>>>" ++ check (runes_of_ascii "root packet Foo // " ++ [128512]%N ++ runes_of_ascii " emoji
f32 } options {
    // a // b
    tag // `tick` ""quote"" 'q'
= //	t
""""
    ; u8x = zchar[0  ] }
MetaData
    int {zchar[ 10]
lengthOf	`` , i64 u8x`// not a comment` ,MetaDataX pack// `tick` ""quote"" 'q'
`crlf
line`
, Logon charz `crlf
line`
    ,
    // a // b
    }
")).
Eval vm_compute in ("<<<M1614>>>" ++ check (runes_of_ascii "root packet Foo // " ++ [128512]%N ++ runes_of_ascii " emoji
{ } options {
    // a // b
    tag // `tick` ""quote"" 'q'
= //	t
""""
    ; u8x = zchar[0  ] }
~MetaData
    int {zchar[ 10]
lengthOf	`` , i64 u8x`// not a comment` ,MetaDataX pack// `tick` ""quote"" 'q'
`crlf
line`
, Logon charz `crlf
line`
    ,
    // a // b
    }
")).
Eval vm_compute in ("<<<M1537>>>" ++ check (runes_of_ascii "root packet Foo // " ++ [128512]%N ++ runes_of_ascii " emoji
{ } options {
    // a // b
    tag // `tick` ""quote"" 'q'
= //	t
""""
    ; u8x = zchar[0  ] }
MetaData
    int {zchar[ 10]
lengthOf	`` : i64 u8x`// not a comment` ,MetaDataX pack// `tick` ""quote"" 'q'
`crlf
line`
, Logon charz `crlf
line`
    ,
    // a // b
    }
")).
Eval vm_compute in ("<<<M1554>>>" ++ check (runes_of_ascii "root packet Foo // " ++ [128512]%N ++ runes_of_ascii " emoji
{ } options {
    // a // b
    tag // `tick` ""quote"" 'q'
= //	t
""""
    ; u8x = zchar[0  ] }
MetaData
    int {zchar[ 10]
lengthOf	`` , i64 u8x`// not a comment` MetaDataX pack// `tick` ""quote"" 'q'
`crlf
line`
, Logon charz `crlf
line`
    ,
    // a // b
    }
")).
Eval vm_compute in ("<<<M1564>>>" ++ check (runes_of_ascii "root packet Foo // " ++ [128512]%N ++ runes_of_ascii " emoji
{ } options {
    // a // b
    tag // `tick` ""quote"" 'q'
= //	t
""""
    ; u8x = zchar[0  ] }
MetaData
    int {zchar[ 10]
lengthOf	`` , i64 u8x`// not a comment` ,MetaDataX // `tick` ""quote"" 'q'
`crlf
line`
, Logon charz `crlf
line`
    ,
    // a // b
    }
")).
Eval vm_compute in ("<<<M1075>>>" ++ check (runes_of_ascii "
root packet u  {@rightPad('\x00')
Logon @calculatedFrom( ""{,}"" ) `" ++ [233]%N ++ runes_of_ascii "` , @tag(3	) string repeatCount ,match packetx // " ++ [128512]%N ++ runes_of_ascii " emoji
as u8x  {
65535 :i8i8
    //x
    , 007 // trailing space 
:roots // " ++ [27880; 37322]%N ++ runes_of_ascii "
,""a	b"" : BodyLength //	t
,
} ,
@tag( 00 ) uint32
repeatCount @lengthOf( u128) , }")).
Eval vm_compute in ("<<<M264>>>" ++ check (runes_of_ascii "
packet tag { char[]i64_
    `crlf
line`, @tag(4294967296	)
repeat // c
f32a { char[]
u8x @lengthOf( Foo)
    `{ , }` ,
match
Foo // " ++ [128512]%N ++ runes_of_ascii " emoji
as
packetx {255 : uint8x [	""\" ++ [233]%N ++ runes_of_ascii """ ]
: matchKey ,} ,	},
As @calculatedFrom( ""a	b"" )
`doc`, char[] BodyLength `two words`	, }
")).
Eval vm_compute in ("<<<M3452>>>" ++ check (runes_of_ascii "// top
options // c0a
  // c0b
{ LittleEndian = // c3a
  // c3b
true ; // c5a
  // c5b
} // c6
root
    // c7
packet P
    // c9
{ u16
    // c11
a , u32 // c14a
  // c14b
Sum @calculatedFrom( // c16a
  // c16b
""CRC32"" // c17
) , // c19
} // c20a
  // c20b
")).
Eval vm_compute in ("<<<M714>>>" ++ check (runes_of_ascii "root packet  u128 {	} root packet x_y_z
{ @tag( 10	)//x
repeat
    char[]
roots
,
    @calculatedFrom( ""it's""	) zchar[ 00]
trueish`a\` ,zchar[ 10]
crc @calculatedFrom(""// no comment""
    ),
    float32
    BodyLength @calculatedFrom(  ""\n"" )
, }
")).
Eval vm_compute in ("<<<M3478>>>" ++ check (runes_of_ascii "packet order_item // c1a
  // c1b
{ u8 // c3
a
    // c4
, } // c6a
  // c6b
root // c7a
  // c7b
packet // c8a
  // c8b
new_order {
    // c10
order_item // c11
, // c12a
  // c12b
u8
    // c13
x
    // c14
, // c15
} // c16a
  // c16b
")).
Eval vm_compute in ("<<<M2266>>>" ++ check (runes_of_ascii "MetaData Packet { }packet	asx  { @lengthOf( asx) falsey`crlf
line` `crlf
line`
,
    }
    packet x	{uint32// @lengthOf(
rootA	,u32 options1 `say ""hi""` , @tag( 7
    )// packet A { u8 x, }
msg_type @lengthOf(
stringy	)	, }

")).
Eval vm_compute in ("<<<M2243>>>" ++ check (runes_of_ascii "MetaData Packet { }packet	asx  @leftPad @lengthOf( asx) falsey`crlf
line`
,
    }
    packet x	{uint32// @lengthOf(
rootA	,u32 options1 `say ""hi""` , @tag( 7
    )// packet A { u8 x, }
msg_type @lengthOf(
stringy	)	, }

")).
Eval vm_compute in ("<<<M1364>>>" ++ check (runes_of_ascii "packet
MetaDataX {
    @lengthOf(
    calculatedFrom // `tick` ""quote"" 'q'
) repeat char[
    3 ] lengthOf ,uint32 msg_type//x
@lengthOf(falsey )
`
`
    , u32 // a // b
u8x@calculatedFrom(  """ ++ [28040; 24687]%N ++ runes_of_ascii """	)`crlf
line` , }
")).
Eval vm_compute in ("<<<M2386>>>" ++ check (runes_of_ascii "MetaData Packet { }packet	asx  { @lengthOf( asx) falsey`crlf
line`
,
    }
    pac?ket x	{uint32// @lengthOf(
rootA	,u32 options1 `say ""hi""` , @tag( 7
    )// packet A { u8 x, }
msg_type @lengthOf(
stringy	)	, }

")).
Eval vm_compute in ("<<<M2337>>>" ++ check (runes_of_ascii "MetaData Packet { }packet	asx  { @lengthOf( asx) falsey`crlf
line`
,
    }
    packet x	{uint32// @lengthOf(
rootA	,u32 options1 `say ""hi""` , @tag( )
    7// packet A { u8 x, }
msg_type @lengthOf(
stringy	)	, }

")).
Eval vm_compute in ("<<<M251>>>" ++ check (runes_of_ascii "MetaData rootA	{
roots Header ,} root packet chars{ @tag(  1  )
repeat char[] stringy `doc` ,}
    root packet int{ uint8x MetaDataX	, }MetaData Logon {
x_y_z
i64_// @lengthOf(
,Z9_
_x , body crc `say ""hi""`,
}
")).
Eval vm_compute in ("<<<M4117>>>" ++ check (runes_of_ascii "MetaData Packet {
}

packet asx {
    @lengthOf(asx)
    falsey `crlf
        line`,
}

packet x {
    uint32 rootA,
    u32 options1,
    @tag(7)
    // packet A { u8 x, }
    msg_type @lengthOf(stringy),
}")).
Eval vm_compute in ("<<<M3981>>>" ++ check (runes_of_ascii "packet chars {
    repeat float32 x_y_z,
    @tag(0123456789)
    char[255] rootA `{ , }`,
}

options {
    x = zchar[00];
    Packet = '\x00';
}

options {
    Z9_ = ""CRC32"";
    As = uint32;
}// a // b")).
Eval vm_compute in ("<<<M336>>>" ++ check (runes_of_ascii "packet
    a1//	t
{ @tag( 10 )	match x
    as float { 007
: falsey
    , }	,}
options
    { uint8x  = false ; } MetaData
    rootA
    {
//	t
// packet A { u8 x, }
u32 i64_	,zchar[ 42] zchar, }
")).
Eval vm_compute in ("<<<M1077>>>" ++ check (runes_of_ascii "// @lengthOf(
MetaData u
{ char[]	float
    ,u8
    leftPad
`
` ,
// a // b
// a // b
metadata
string_ ,char[] // c
Header
    // trailing space 
    , zchar[
    0123456789]  a1`
` ,}
")).
Eval vm_compute in ("<<<M4216>>>" ++ check (runes_of_ascii "options {
    // `tick` ""quote"" 'q'
    len = """ ++ [28040; 24687]%N ++ runes_of_ascii """;
    options1 = int32
    zchar = ""1"";
    float = true
    tag = """ ++ [28040; 24687]%N ++ runes_of_ascii """;
}

MetaData u128 {
    msg_type i8i8 `doc`,
    o body,
}")).
Eval vm_compute in ("<<<M3619>>>" ++ check (runes_of_ascii "

  packet u128 { u128
    @lengthOf(

    matchKey 
)
,
u64	//x
crc 
`a\`
    , @calculatedFrom(

""x y""	)

    float32 zchar,	repeat char[ 007
] 
uint8x, a1
, }
")).
Eval vm_compute in ("<<<M4097>>>" ++ check (runes_of_ascii "
root
packet

    BodyLength

{

}// `tick` ""quote"" 'q'

root 
	// `tick` ""quote"" 'q'
packet
f32a	// c
  {
@leftPad

    ( '0'
    ) 
//
    int8  Z9_ ,  }

")).
Eval vm_compute in ("<<<M1252>>>" ++ check (runes_of_ascii "  root packet pack  {
    /// triple
    @calculatedFrom(
""it's"" ) //
zchar[ 0123456789
    ] packetx
@calculatedFrom( ""CRC32"" ) , char[]
BodyLength , }
// c
")).
Eval vm_compute in ("<<<M1178>>>" ++ check (runes_of_ascii "//x
options {Header= ' 'string_ = '\x00' ;
    pack=""a\""b"" ;
    trueish = 255 }
options
// " ++ [27880; 37322]%N ++ runes_of_ascii "
// @lengthOf(
{ asx// `tick` ""quote"" 'q'
= ""`tick`"" ; }
")).
Eval vm_compute in ("<<<M10>>>" ++ check (runes_of_ascii "MetaData
    chars{
char[]Header `say ""hi""`
,
    char[] matchKey
,char[ 1
    ]  u8x , zchar A ,x falsey
,
zchar[ 42
    ] calculatedFrom , }
")).
Eval vm_compute in ("<<<M1688>>>" ++ check (runes_of_ascii "root packet /// triple
rootA {	i32
MetaDataX@calculatedFrom( ""CRC32"" ) `line1
line2` , } MetaData BodyLength BodyLength {
u8
rootA, } // c")).
Eval vm_compute in ("<<<M719>>>" ++ check (runes_of_ascii "// packet A { u8 x, }
options { falsey =
int64 crc
= i16 // a // b
;
}packet options1
// `tick` ""quote"" 'q'
//x
{ // trailing space 
}")).
Eval vm_compute in ("<<<M3605>>>" ++ check (runes_of_ascii "packet A {
    match k as n {
        [
            1, 22, ""c c"", 4, 5,
            ""f"", 7, 8
        ] : B,
        2 : C,
    },
}")).
Eval vm_compute in ("<<<M3681>>>" ++ check (runes_of_ascii "
packet 
      // @lengthOf(
    	roots	{ u32 calculatedFrom
@calculatedFrom( ""\" ++ [233]%N ++ runes_of_ascii """ // @lengthOf(
  	)  // `tick` ""quote"" 'q'
,}
")).
Eval vm_compute in ("<<<M1704>>>" ++ check (runes_of_ascii "root packet /// triple
rootA {	i32
MetaDataX@calculatedFrom( ""CRC32"" ) `line1
line2` , } MetaData BodyLength {
u8
,rootA } // c")).
Eval vm_compute in ("<<<M1632>>>" ++ check (runes_of_ascii "root u16 /// triple
rootA {	i32
MetaDataX@calculatedFrom( ""CRC32"" ) `line1
line2` , } MetaData BodyLength {
u8
rootA, } // c")).
Eval vm_compute in ("<<<M1633>>>" ++ check (runes_of_ascii "root packet /// triple
 {	i32
MetaDataX@calculatedFrom( ""CRC32"" ) `line1
line2` , } MetaData BodyLength {
u8
rootA, } // c")).
Eval vm_compute in ("<<<M1851>>>" ++ check (runes_of_ascii "packet
    Pad // a // b
{ i8i8 @calculatedFrom( ""a	b"") `u8 x,` ,
} options{ float// " ++ [128512]%N ++ runes_of_ascii " emoji
= f64 f64 i64_
=//	t
00 }
")).
Eval vm_compute in ("<<<M1836>>>" ++ check (runes_of_ascii "packet
    Pad // a // b
{ i8i8 @calculatedFrom( ""a	b"") `u8 x,` ,
} options{ { float// " ++ [128512]%N ++ runes_of_ascii " emoji
= f64 i64_
=//	t
00 }
")).
Eval vm_compute in ("<<<M4018>>>" ++ check (runes_of_ascii "packet Logon {
    @tag(42)
    @rightPad(' ')
    @leftPad()
    // c
    repeat trueish {
        string T,
    },
}")).
Eval vm_compute in ("<<<M3590>>>" ++ check (runes_of_ascii "options
{ } packet

    u128 {
repeat
uint8x

x`say ""hi""`
,// trailing space 
	  }
    MetaData

    crc	{
    }")).
Eval vm_compute in ("<<<M3746>>>" ++ check (runes_of_ascii "MetaData u128 {
    x_y_z x_y_z `tab	here`,
    string charz,
    i64 roots `{ , }`,/// triple
    Logon packetx,
}")).
Eval vm_compute in ("<<<M2978>>>" ++ check (runes_of_ascii "packet A {
  match k as n {
    [""a"", ""bb"", ""c c"", ""d"", ""e"", ""f"", ""g"", ""h"", ""i"", ""j"", ""k""] : B,
    2 : C
  },
}")).
Eval vm_compute in ("<<<M498>>>" ++ check (runes_of_ascii "packet  options1 {
    _x string_ , string
    zchar @lengthOf(f32a// packet A { u8 x, }
)
, uint64
x ,
    }")).
Eval vm_compute in ("<<<M2987>>>" ++ check (runes_of_ascii "packet A {
  match k as n {
    [""a"", ""bb"", 007, ""d"", ""e"", 66, ""g"", ""h"", 9, ""j"", ""k""] : B
    2 : C
  },
}")).
Eval vm_compute in ("<<<M1100>>>" ++ check (runes_of_ascii "MetaData //
trueish {_x asx ,
trueish roots,	falsey
    asx `" ++ [233]%N ++ runes_of_ascii "`
    //
    , rootA	options1
    ,} 	 ")).
Eval vm_compute in ("<<<M3363>>>" ++ check (runes_of_ascii "packet calculatedFrom { @tag( 4294967296 ) u msg_type , char[ 3 ] crc // c
@lengthOf( len ) `u8 x,` , }")).
Eval vm_compute in ("<<<M3005>>>" ++ check (runes_of_ascii "packet A {
    Inner {
        u8 x `a
b`,
        Deep {
            u8 y `a
b`,
        },
    },
}")).
Eval vm_compute in ("<<<M575>>>" ++ check (runes_of_ascii "// @lengthOf(
packet o/// triple
{string
pack
, // packet A { u8 x, }
trueish `" ++ [233]%N ++ runes_of_ascii "`, } /// triple")).
Eval vm_compute in ("<<<M586>>>" ++ check (runes_of_ascii "options {charz=//	t
""" ++ [28040; 24687]%N ++ runes_of_ascii """rootA= '0'//	t
trueish=  ""// no comment""; }
options { body
=
char[] }
")).
Eval vm_compute in ("<<<M3239>>>" ++ check (runes_of_ascii "packet Logon { @tag( 42 ) @rightPad ( ' ' ) @leftPad (
// c
) repeat trueish { string T , } , }")).
Eval vm_compute in ("<<<M1408>>>" ++ check (runes_of_ascii "root packet SimpleMessage {
    uint16 MsgType `" ++ [28040; 24687; 31867; 22411]%N ++ runes_of_ascii "`,
    string JsonBody `Json" ++ [23383; 31526; 20018; 28040; 24687; 20307]%N ++ runes_of_ascii "`,
}")).
Eval vm_compute in ("<<<M2927>>>" ++ check (runes_of_ascii "packet A {
  match k as n {
    [""a"", ""bb"", ""c c"", ""d"", ""e"", ""f"", ""g""] : B
    2 : C
  },
}")).
Eval vm_compute in ("<<<M2963>>>" ++ check (runes_of_ascii "packet A {
  match k as n {
    [1, 22, 007, 4, 5, 66, 7, 8, 9, 10] : B,
    2 : C
  },
}")).
Eval vm_compute in ("<<<M3171>>>" ++ check (runes_of_ascii "packet A { match k as n // a
 { // b
 1 // c
 : // d
 B // e
 , // f
 } // g
 , // h
 }")).
Eval vm_compute in ("<<<M1371>>>" ++ check (runes_of_ascii "
options { repeatCount =	""CRC32""x =true //x
u  = ""\" ++ [233]%N ++ runes_of_ascii """
    ; stringy = //
'\x00'; }
")).
Eval vm_compute in ("<<<M2016>>>" ++ check (runes_of_ascii "root
packet crc
    { f32a @calculatedFrom( """ ++ [233]%N ++ runes_of_ascii "t" ++ [233]%N ++ runes_of_ascii """ )
    `say ""hi""`, lengthOf ``   }")).
Eval vm_compute in ("<<<M2900>>>" ++ check (runes_of_ascii "packet A {
  match k as n {
    [""a"", ""bb"", ""c c"", ""d"", ""e""] : B,
    2 : C
  },
}")).
Eval vm_compute in ("<<<M3306>>>" ++ check (runes_of_ascii "packet o { @tag( 42 ) repeat // c
x { char[ 0123456789 ] i64_ , } , } options { }")).
Eval vm_compute in ("<<<M68>>>" ++ check (runes_of_ascii "options { stringy=""x y""  ;
chars
=true Logon = string crc = true Logon
= char }")).
Eval vm_compute in ("<<<M4147>>>" ++ check (runes_of_ascii "packet Inner {
    u8 a,
}

root packet P {
    repeat Inner items,
    u8 x,
}")).
Eval vm_compute in ("<<<M1839>>>" ++ check (runes_of_ascii "packet
    Pad // a // b
{ i8i8 @calculatedFrom( ""a	b"") `u8 x,` ,
} options")).
Eval vm_compute in ("<<<M3424>>>" ++ check (runes_of_ascii "packet Inner {
    u8 a,
}
root packet P {
    Inner ref_obj,
    u8 x,
}
")).
Eval vm_compute in ("<<<M263>>>" ++ check (runes_of_ascii "packet zchar
{
    roots
{ i64 f32a
    `" ++ [28040; 24687; 31867; 22411]%N ++ runes_of_ascii "`	, float32 zchar , }
, }")).
Eval vm_compute in ("<<<M3398>>>" ++ check (runes_of_ascii "MetaData _x
// c
{ zchar[ 4294967296 ] lengthOf `// not a comment` , }")).
Eval vm_compute in ("<<<M3738>>>" ++ check (runes_of_ascii "packet A {
    B b `
    `,
    B `
    `,
    repeat B bs `
    `,
}")).
Eval vm_compute in ("<<<M2005>>>" ++ check (runes_of_ascii "root
packet crc
    { f32a @calculatedFrom( """ ++ [233]%N ++ runes_of_ascii "t" ++ [233]%N ++ runes_of_ascii """ )
    `say ""hi""`")).
Eval vm_compute in ("<<<M3027>>>" ++ check (runes_of_ascii "packet A {
    B b `a

b`,
    B `a

b`,
    repeat B bs `a

b`,
}")).
Eval vm_compute in ("<<<M3691>>>" ++ check (runes_of_ascii "  //x

packet

zchar
	{@calculatedFrom(""CRC32""  )lengthOf ,
	}

")).
Eval vm_compute in ("<<<M671>>>" ++ check (runes_of_ascii "options
    {i64_ = string tag =
    float32 Pad  = ""{,}"" ; }")).
Eval vm_compute in ("<<<M1933>>>" ++ check (runes_of_ascii "
packet	As { @calculatedFrom(//x
""{,}""	)lengthOf int64 } 	 ")).
Eval vm_compute in ("<<<M1908>>>" ++ check (runes_of_ascii "
packet	As f64 @calculatedFrom(//x
""{,}""	)lengthOf , } 	 ")).
Eval vm_compute in ("<<<M2421>>>" ++ check (runes_of_ascii "MetaData A
@leftpad{
i64
chars	, } // `tick` ""quote"" 'q'")).
Eval vm_compute in ("<<<M4360>>>" ++ check (runes_of_ascii "options	{

} 
options{
    }  // `tick` ""quote"" " ++ [65279]%N ++ runes_of_ascii "'q'
")).
Eval vm_compute in ("<<<M3377>>>" ++ check (runes_of_ascii "// top
packet // c0
lengthOf // c1
{ // c2
} // c3
")).
Eval vm_compute in ("<<<M1809>>>" ++ check (runes_of_ascii "packet
    Pad // a // b
{ i8i8 @calculatedFrom(")).
Eval vm_compute in ("<<<M195>>>" ++ check (runes_of_ascii "root
packet
// packet A { u8 x, }
//	t
Z9_ {
}
")).
Eval vm_compute in ("<<<M342>>>" ++ check (runes_of_ascii "packet o{ char[0123456789 ] asx `doc`
    ,	}
")).
Eval vm_compute in ("<<<M2737>>>" ++ check (runes_of_ascii "65535 MetaData [ repeat u64 zchar[ false char")).
Eval vm_compute in ("<<<M1399>>>" ++ check (runes_of_ascii "  packet asx{
calculatedFrom lengthOf
,	}
")).
Eval vm_compute in ("<<<M404>>>" ++ check (runes_of_ascii "options
{
    stringy
=
true
    ;  } //")).
Eval vm_compute in ("<<<M2112>>>" ++ check (runes_of_ascii "MetaData x
f64// " ++ [128512]%N ++ runes_of_ascii " emoji
i16 stringy , }")).
Eval vm_compute in ("<<<M3415>>>" ++ check (runes_of_ascii "root packet P {
    char c,
    u8 x,
}
")).
Eval vm_compute in ("<<<M1752>>>" ++ check (runes_of_ascii "options { } {  } // `tick` ""quote"" 'q'")).
Eval vm_compute in ("<<<M2124>>>" ++ check (runes_of_ascii "MetaData x
{// " ++ [128512]%N ++ runes_of_ascii " emoji
i16 stringy  }")).
Eval vm_compute in ("<<<M499>>>" ++ check (runes_of_ascii "packet Packet {crc u `two words` ,}")).
Eval vm_compute in ("<<<M3894>>>" ++ check (runes_of_ascii "// c
  options
	{u8x =3

    }
")).
Eval vm_compute in ("<<<M3148>>>" ++ check (runes_of_ascii "packet A {
 u8 x `d x`, // c x
}")).
Eval vm_compute in ("<<<M2101>>>" ++ check (runes_of_ascii " x
{// " ++ [128512]%N ++ runes_of_ascii " emoji
i16 stringy , }")).
Eval vm_compute in ("<<<M1765>>>" ++ check (runes_of_ascii "options { }options {  } // `t")).
Eval vm_compute in ("<<<M3637>>>" ++ check (runes_of_ascii "
MetaData
M
{
    x y
, 
}")).
Eval vm_compute in ("<<<M445>>>" ++ check (runes_of_ascii "
options  { Z9_ =	'\x00'}")).
Eval vm_compute in ("<<<M2087>>>" ++ check (runes_of_ascii "MetaData A { /u64 pack, }")).
Eval vm_compute in ("<<<M1192>>>" ++ check (runes_of_ascii "options { Foo= ' ' ;  }
")).
Eval vm_compute in ("<<<M3387>>>" ++ check (runes_of_ascii "packet lengthOf {
// c
}")).
Eval vm_compute in ("<<<M413>>>" ++ check (runes_of_ascii "
packet msg_type {
}
")).
Eval vm_compute in ("<<<M2572>>>" ++ check (runes_of_ascii "packet A { x y `d`, }")).
Eval vm_compute in ("<<<M2841>>>" ++ check (runes_of_ascii "29" ++ [5; 6]%N ++ runes_of_ascii "<" ++ [65533]%N ++ runes_of_ascii "F>" ++ [6]%N ++ runes_of_ascii "r " ++ [65533]%N ++ runes_of_ascii "C" ++ [65533; 65533; 0; 65533]%N ++ runes_of_ascii "2N" ++ [65533]%N)).
Eval vm_compute in ("<<<M4187>>>" ++ check (runes_of_ascii "packet
	chars
{ }
")).
Eval vm_compute in ("<<<M3077>>>" ++ check (runes_of_ascii "// c" ++ [133]%N ++ runes_of_ascii "
packet A {
}")).
Eval vm_compute in ("<<<M1148>>>" ++ check (runes_of_ascii "packet f32a
{ }

")).
Eval vm_compute in ("<<<M3134>>>" ++ check (runes_of_ascii "packet A {
}// c" ++ [65279]%N)).
Eval vm_compute in ("<<<M2564>>>" ++ check (runes_of_ascii "packet A { u8 }")).
Eval vm_compute in ("<<<M303>>>" ++ check (runes_of_ascii "options	{
}
")).
Eval vm_compute in ("<<<M2484>>>" ++ check (runes_of_ascii "@lengthOf(")).
Eval vm_compute in ("<<<M2424>>>" ++ check (runes_of_ascii "char[ ]")).
Eval vm_compute in ("<<<M2723>>>" ++ check (runes_of_ascii "y)5" ++ [65533; 65533; 65533]%N)).
Eval vm_compute in ("<<<M2810>>>" ++ check ([14]%N ++ runes_of_ascii "'" ++ [65533]%N ++ runes_of_ascii "s" ++ [65533]%N)).
Eval vm_compute in ("<<<M2498>>>" ++ check (runes_of_ascii "// x")).
Eval vm_compute in ("<<<M2522>>>" ++ check (runes_of_ascii "`""`")).
Eval vm_compute in ("<<<M2528>>>" ++ check (runes_of_ascii "-1")).
Eval vm_compute in ("<<<M44>>>" ++ check (@nil rune)).
