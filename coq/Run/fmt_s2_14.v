From FP Require Import Lexer Parser ShowPT Digest Formatter.
From Coq Require Import String List NArith.
Import ListNotations.
Open Scope string_scope.
Set Printing Width 100000000.
Set Printing Depth 100000000.
Definition show_fres (r : fres) : string :=
  match r with
  | FOk s => "OK:" ++ sh_escaped s ""
  | FErr s => "ERR:" ++ sh_escaped s ""
  | FPanic p => "PANIC:" ++ p
  end.
Definition check (rs : list rune) : string := digest (show_fres (format_res rs)).
Definition full (rs : list rune) : string := show_fres (format_res rs).
Eval vm_compute in ("<<<M3854>>>" ++ check (runes_of_ascii "options {
    LittleEndian = true;
    ArrayPrefixLenType = u8;
    FixedStringPadChar = '0';
    JavaPackage = ""co\
        m.example.msg"";
    GoPackage = ""ms\
        g"";
    GoModule = ""example.com/msg"";
}

MetaData Meta {
    u32 SeqNum `sequence number`,
    char[8] Symbol `symbol`,
    zchar[5] ZSym `z symbol`,
    string Note,
    Symbol AltSymbol `alias of symbol`,
    f64 Price,
}

packet Inner {
    u8 a,
    i16 b,
    string c,
}

packet Inner2 {
    u8 a2,
    char[3] c2,
}

packet Logon {
    u8 x,
    string user,
    repeat u16 codes,
}

packet Logout {
    u16 reason,
}

packet Empty {
}

root packet Msg {
    u8 su8,
    uint8 luint8,
    u16 su16,
    uint16 luint16,
    u32 su32,
    uint32 luint32,
    u64 su64,
    uint64 luint64,
    i8 si8,
    int8 lint8,
    i16 si16,
    int16 lint16,
    i32 si32,
    int32 lint32,
    i64 si64,
    int64 lint64,
    f32 sf32,
    float32 lfloat32,
    f64 sf64,
    float64 lfloat64,
    char[6] fsplain,
    @leftPad('0')
    char[4] fs0,
    @rightPad('0')
    char[5] fs1,
    @leftPad(' ')
    char[6] fs2,
    @rightPad(' ')
    char[7] fs3,
    @leftPad('\x00')
    char[8] fs4,
    @rightPad('\x00')
    char[9] fs5,
    @leftPad()
    char[10] fs6,
    @rightPad()
    char[11] fs7,
    zchar[7] fz,
    @leftPad('0')
    zchar[3] fzl0,
    string s1 `doc`,
    char[] s2,
    Inner,
    Sub {
        u8 q,
        string w,
        Deep {
            u16 z,
            repeat i32 zs,
        },
    },
    repeat u8 ru8,
    repeat u16 ru16,
    repeat u32 ru32,
    repeat u64 ru64,
    repeat i8 ri8,
    repeat i16 ri16,
    repeat i32 ri32,
    repeat i64 ri64,
    repeat f32 rf32,
    repeat f64 rf64,
    repeat string rstr,
    repeat char[] rstr2,
    repeat char[3] rfs,
    repeat zchar[3] rfz,
    repeat Inner2,
    repeat Grp {
        u8 k,
        char[2] v,
    },
    SeqNum,
    SeqNum seq2,
    repeat SeqNum seqs,
    Symbol,
    AltSymbol alt,
    ZSym,
    Note,
    repeat Symbol syms,
    Price px,
    u16 MsgType,
    u32 BodyLen @lengthOf(Body),
    match MsgType as Body {
        1 : Logon,
        [2, 3] : Logout,
        7 : Logon,
        9 : Empty,
    },
    u32 Checksum @calculatedFrom(""CRC32""),
}")).
Eval vm_compute in ("<<<M3556>>>" ++ check (runes_of_ascii "// top
options // c0a
  // c0b
{ LittleEndian = true ;
    // c5
ArrayPrefixLenType
    // c6
= u32
    // c8
; } // c10
packet // c11
Order
    // c12
{
    // c13
repeat // c14
u64 // c15
Acct , // c17a
  // c17b
i16 price
    // c19
,
    // c20
}
    // c21
packet // c22a
  // c22b
Logon
    // c23
{ // c24
zchar[ // c25a
  // c25b
3 // c26
] // c27a
  // c27b
venue
    // c28
, // c29a
  // c29b
string // c30
Flags
    // c31
, repeat InQty82 // c34
{ // c35a
  // c35b
string // c36
Px // c37a
  // c37b
,
    // c38
} // c39a
  // c39b
, repeat // c41
char[ // c42
1 // c43
] clOrdID // c45
, // c46
}
    // c47
packet
    // c48
Cancel { // c50a
  // c50b
int32 Tail // c52
,
    // c53
repeat Logon // c55
,
    // c56
repeat // c57a
  // c57b
InFlags55
    // c58
{ uint64 // c60
Note // c61a
  // c61b
, // c62a
  // c62b
repeat // c63
InQty28
    // c64
{ char[] // c66a
  // c66b
msgKind
    // c67
, // c68a
  // c68b
char[ // c69a
  // c69b
7 ] // c71a
  // c71b
OrderId // c72
, // c73a
  // c73b
} // c74a
  // c74b
,
    // c75
char[] // c76
Px , // c78
} , // c80a
  // c80b
int16
    // c81
Ref
    // c82
, // c83a
  // c83b
} // c84
root // c85a
  // c85b
packet // c86
Leg // c87a
  // c87b
{ repeat Logon , // c91
char[]
    // c92
venue , u16
    // c95
Flags // c96
,
    // c97
i16 // c98
Tail , // c100
repeat Cancel // c102a
  // c102b
, // c103a
  // c103b
u8 // c104a
  // c104b
Side2 ,
    // c106
match // c107
Side2
    // c108
as
    // c109
Body
    // c110
{ 151 : Logon // c114
, // c115
148 // c116
:
    // c117
Order
    // c118
, // c119
162 // c120a
  // c120b
: // c121
Cancel ,
    // c123
} // c124a
  // c124b
, // c125a
  // c125b
u16 // c126
x @calculatedFrom( // c128a
  // c128b
""CRC32"" // c129
)
    // c130
, // c131a
  // c131b
} // c132a
  // c132b
")).
Eval vm_compute in ("<<<M1002>>>" ++ check (runes_of_ascii "packet // " ++ [128512]%N ++ runes_of_ascii " emoji
rootA
{ string	f32a @calculatedFrom("""" )
, u128@lengthOf( T ) , repeat body {
    match uint8x as
len  { ""`tick`"" :
    Packet
    ,  00
    : x_y_z [
""\" ++ [233]%N ++ runes_of_ascii """ ,""a\\"" ] : trueish	007 : charz ,
    """ ++ [28040; 24687]%N ++ runes_of_ascii """// c
:
    chars ,}
    , repeat
int16 _x`a\`
,
    int16  options1
    //x
    @calculatedFrom(
""a\\"" ),  match BodyLength
    // trailing space 
    as
    options1  { 42
// c
//x
:Packet ,007 : packetx """ ++ [128512]%N ++ runes_of_ascii """
// " ++ [128512]%N ++ runes_of_ascii " emoji
// 50% %s
: crc /// triple
, }
,	} , @tag( 65535
)
@calculatedFrom(	""`tick`"" )
@calculatedFrom(
""a\\"" ) crc `{ , }` ,
@lengthOf( Pad	) zchar[0 ]Pad
`
`
,  Header
@lengthOf(  leftPad )
// " ++ [27880; 37322]%N ++ runes_of_ascii "
// 50% %s
`` , i8i8 Header`two words` , @lengthOf( falsey) @leftPad (
    '\x00')@calculatedFrom( """ ++ [28040; 24687]%N ++ runes_of_ascii """)
    repeat
zchar[7] _x	,	}
packet
    //	t
    matchKey{body
@lengthOf( lengthOf ), // " ++ [27880; 37322]%N ++ runes_of_ascii "
u8
    matchKey
    `say ""hi""` // " ++ [27880; 37322]%N ++ runes_of_ascii "
,
@leftPad () char[3 ] rootA @calculatedFrom(""packet""
),  match As as
// packet A { u8 x, }
// " ++ [128512]%N ++ runes_of_ascii " emoji
x_y_z { [ ""// no comment"", 007 ,
65535] :
int } // 50% %s
, @lengthOf(  lengthOf ) zchar[65535 ] A
@calculatedFrom( ""packet""	) , repeat //	t
tag string_  `tab	here`	,
f64 rootA ,uint16 calculatedFrom @calculatedFrom(
""" ++ [28040; 24687]%N ++ runes_of_ascii """ )`{ , }`,}root
packet
    float {@lengthOf(
a1	)
    // c
    @lengthOf(// trailing space 
Logon )repeat // " ++ [128512]%N ++ runes_of_ascii " emoji
string
Packet ,
Logon falsey `" ++ [28040; 24687; 31867; 22411]%N ++ runes_of_ascii "` ,
    @calculatedFrom(
    ""1"") @calculatedFrom(
""" ++ [28040; 24687]%N ++ runes_of_ascii """
) @lengthOf(T)zchar[
    7]MetaDataX
    `say ""hi""` ,repeat
    a1 { float32 i64_ , }
, char[  65535 ] As , } 	 ")).
Eval vm_compute in ("<<<M777>>>" ++ check (runes_of_ascii "// 50% %s
options {}
packet BodyLength
{ msg_type @lengthOf( Header) , body	u8x	, char[
    //x
    255 ]msg_type	,
    // @lengthOf(
    int {stringy {repeat i8i8 zchar , match o //	t
as lengthOf
    // packet A { u8 x, }
    { 0123456789 :  T // trailing space 
, 255: A}
, repeat char[ 007 ] crc
`` , match  options1
as  falsey { 7 : body  , }
//x
// " ++ [27880; 37322]%N ++ runes_of_ascii "
, }
    , string_
{ match metadata
as As{
3 : x,[ ""\n""
]:Packet, ""a\\"":float
    , 007:
i8i8
    ,
    } , As//
{
As , }//x
, match	x as  matchKey { [ ""CRC32"" , ""abc""
    ] :
    options1// packet A { u8 x, }
, 1
    :	packetx, ""\" ++ [233]%N ++ runes_of_ascii """	:tag
    ,} , match u8x // 50% %s
as
    As// a // b
{ 7 :	MetaDataX [""packet"" , 4294967296
, ""\n""
,""// no comment""
, ""\" ++ [233]%N ++ runes_of_ascii """
// packet A { u8 x, }
//x
] :
body
, 0
    : A , [ """ ++ [233]%N ++ runes_of_ascii "t" ++ [233]%N ++ runes_of_ascii """ ,
// a // b
// a // b
""\n"" ] :
    f32a ,//
""it's"": tag
,
}
, }, pack	@calculatedFrom( ""packet"") `100% of %d` ,}
, char[
    0123456789 ]i8i8
    `" ++ [233]%N ++ runes_of_ascii "`, @calculatedFrom(""\n"" )
    repeat  tag
    // 50% %s
    lengthOf , zchar { i16 falsey,
    // trailing space 
    },
zchar[
//	t
//	t
4294967296 ] len , @leftPad ( '0'
    ) repeat i16
tag
    , repeat a1 repeatCount
    , } packet x{@tag(0123456789)packetx ``, @lengthOf( falsey // " ++ [27880; 37322]%N ++ runes_of_ascii "
)len @lengthOf(
    len	),
@tag(	255 ) repeat matchKey
, } options
{ Foo
= u32 ; // @lengthOf(
x
= char[3 ] }")).
Eval vm_compute in ("<<<M798>>>" ++ check (runes_of_ascii "options {
} packet a1 { char[10
//
// `tick` ""quote"" 'q'
] msg_type@calculatedFrom(""packet"" )`tab	here` ,
string  Foo
@calculatedFrom(
    ""`tick`"") `tab	here` , float64 pack `` , repeat float matchKey`{ , }`
    ,	@calculatedFrom(
    // c
    ""1"" )@calculatedFrom( // trailing space 
""a\""b""
) @tag(4294967296
) repeat
f32 lengthOf	, @lengthOf(
tag ) @lengthOf(
crc
) char[ 0123456789 ] Logon`" ++ [28040; 24687; 31867; 22411]%N ++ runes_of_ascii "` , @tag(4294967296)@tag(
0123456789 ) @lengthOf(u ) char[] calculatedFrom
@lengthOf(// a // b
BodyLength) ,	@tag( 3) repeat // c
len
    { char[]
// `tick` ""quote"" 'q'
// " ++ [128512]%N ++ runes_of_ascii " emoji
x_y_z
, match leftPad	as As { // " ++ [27880; 37322]%N ++ runes_of_ascii "
3 :	f32a,
    // c
    007 //	t
: falsey
    ""// no comment""  : Header 00:
// 50% %s
// " ++ [27880; 37322]%N ++ runes_of_ascii "
Foo , 0 : charz ,  00 : Foo } ,	match
pack as a1 {[
    42
, ""{,}"" , ""\" ++ [233]%N ++ runes_of_ascii """
,
""" ++ [28040; 24687]%N ++ runes_of_ascii """ // @lengthOf(
, 255 , ""`tick`"" , ""x y"" , ""{,}""] : o
    , [// trailing space 
""// no comment"" ]
: As ,
    } ,char[] zchar`tab	here` // " ++ [128512]%N ++ runes_of_ascii " emoji
,}, @leftPad (
    )
/// triple
// " ++ [27880; 37322]%N ++ runes_of_ascii "
MetaDataX@calculatedFrom( ""\n"" ) ,
    @lengthOf( calculatedFrom)
@calculatedFrom(
    ""it's"" ) // " ++ [27880; 37322]%N ++ runes_of_ascii "
@rightPad(' '
)repeat BodyLength
{
repeat chars { repeat u8// trailing space 
u `say ""hi""` ,
}
    , f64 lengthOf
, zchar[ 4294967296]	packetx , }	,
    }")).
Eval vm_compute in ("<<<M97>>>" ++ check (runes_of_ascii "packet x {@lengthOf( msg_type ) i64_ @calculatedFrom(
""""
    )`a\`, @calculatedFrom(""packet"" // a // b
)string
chars `it's` ,repeat Z9_ { repeat metadata `` , char[]zchar
, repeat
    trueish {
    uint8x, } , float32 asx // @lengthOf(
`100% of %d` , }
    ,@lengthOf( pack)
    float32 string_
    `line1
line2` , x @lengthOf( lengthOf
) // " ++ [128512]%N ++ runes_of_ascii " emoji
, repeat	roots
    //	t
    `a\` ,
    } packet falsey { int64	msg_type  @lengthOf( Z9_ )
    , repeat Z9_ , T	, @lengthOf( // " ++ [27880; 37322]%N ++ runes_of_ascii "
BodyLength ) repeat char u128 ,@rightPad ()
@tag(
65535)// c
string a1 @calculatedFrom(
    ""it's""  ) ,repeat // packet A { u8 x, }
char[ 65535 // 50% %s
]matchKey `{ , }` , @lengthOf( asx
    ) // c
match BodyLength as As{
    [ //	t
65535
,
""" ++ [28040; 24687]%N ++ runes_of_ascii """ ,// trailing space 
""a	b""  , 3
, ""// no comment""] : As
    // `tick` ""quote"" 'q'
    ,
    [
    4294967296  ,
""1""
    ,""" ++ [128512]%N ++ runes_of_ascii """
, 42 ,
255 ]
: Header, 42
    :
Z9_, }, @tag( 42 ) @tag( 42)
@calculatedFrom( ""// no comment"" )
    // @lengthOf(
    i8 Pad// @lengthOf(
`" ++ [233]%N ++ runes_of_ascii "` ,@calculatedFrom( """ ++ [28040; 24687]%N ++ runes_of_ascii """
    )@rightPad (' ' )
f32
Foo @calculatedFrom( ""packet""
    // @lengthOf(
    ) , string a1 @lengthOf(uint8x)
, }
")).
Eval vm_compute in ("<<<M3639>>>" ++ check (runes_of_ascii "root packet f32a {
}

root packet matchKey {
    char[1] metadata,
    char[] u128 @lengthOf(msg_type) `doc`,
    @lengthOf(uint8x)
    match zchar as options1 {
        0123456789 : x,
        007 : repeatCount,
        [""packet"", 0123456789, ""// no comment"", ""x y""] : Header,
        3 : MetaDataX,
        ""// no comment"" : len,
        [0] : Header,
    },
    repeat f32a {
        // " ++ [27880; 37322]%N ++ runes_of_ascii "
        repeat Header,
        // 50% %s
        calculatedFrom {
            a1 {
                leftPad `a\`,
                zchar[255] f32a @calculatedFrom(""\n"") `100% of %d`,
                Foo @lengthOf(o) `two words`,
            },
        },
    },
    char[00] f32a @calculatedFrom(""" ++ [128512]%N ++ runes_of_ascii """) `u8 x,`,
    match tag as matchKey {
        [
            3, ""\n"", 255, 007, ""CRC32"",
            ""`tick`""
        ] : o,
    },
    repeat f64 rootA,
}

options {
}

MetaData trueish {
    string int,// " ++ [27880; 37322]%N ++ runes_of_ascii "
    char[65535] trueish,
    char[] body `u8 x,`,
    pack matchKey `a\`,
    f32 Header,
    string_ Foo,
}

options {
    roots = int32;
    Pad = zchar[255]// " ++ [128512]%N ++ runes_of_ascii " emoji
}")).
Eval vm_compute in ("<<<M3875>>>" ++ check (runes_of_ascii "// a // b
root packet asx {
}

root packet asx {
    @calculatedFrom(""\n"")
    metadata @lengthOf(T),
    @lengthOf(x)
    Logon @calculatedFrom(""""),
    @calculatedFrom(""a	b"")
    x_y_z `a\`,
    stringy {
        uint64 float `doc`,//
    },
    @tag(7)
    @lengthOf(MetaDataX)
    @tag(10)
    string packetx `a\`,
    int @calculatedFrom(""it's""),
    A trueish,
    @calculatedFrom(""{,}"")
    i32 chars,
}

root packet lengthOf {
    @leftPad('0')
    @lengthOf(float)
    @tag(00)
    // `tick` ""quote"" 'q'
    repeat f32 metadata ``,
    @lengthOf(As)
    // a // b
    float32 msg_type `line1
    line2`,
    @lengthOf(repeatCount)
    @lengthOf(Logon)
    char[4294967296] BodyLength,
}

packet packetx {
    @leftPad()
    Logon `u8 x,`,
    match matchKey as MetaDataX {
        1 : _x,
        """ ++ [128512]%N ++ runes_of_ascii """ : f32a,
        00 : x,
    },
    @calculatedFrom(""a	b"")
    repeat x_y_z x_y_z,
    zchar[007] calculatedFrom `100% of %d`,
    packetx @lengthOf(msg_type) `a\`,
    char[007] x_y_z `it's`,
}")).
Eval vm_compute in ("<<<M397>>>" ++ check (runes_of_ascii "
options
{ lengthOf = zchar[65535 ] ;len
= char[] ; packetx =  false
    ;len = """ ++ [128512]%N ++ runes_of_ascii """}MetaData i8i8 { uint16 x
    // c
    `
` ,}
// a // b
/// triple
root
    packet // `tick` ""quote"" 'q'
_x { repeat char[] // a // b
Pad, @calculatedFrom(
""abc"" )
char[ 42
]Pad ,
@leftPad
( )
char[]  Pad , zchar[1 ] BodyLength
`{ , }` , }MetaData
Foo { x a1, float
charz ,	} root
packet lengthOf { @leftPad(
    // `tick` ""quote"" 'q'
    ' '
)	x_y_z`say ""hi""` ,
    f64 packetx , @calculatedFrom( ""a	b""
    )string_ { // " ++ [128512]%N ++ runes_of_ascii " emoji
o
@lengthOf( body )	, i8i8	charz	, u32 _x, // trailing space 
char[ 7	] metadata // c
, } ,asx
    { match body as
    // packet A { u8 x, }
    float
{[ 7, ""packet"" ,
    ""a\""b"" ]:
    // 50% %s
    metadata, 0123456789 :
    repeatCount 3 :	crc }	,} ,	@tag(0) @leftPad
( '0' ) @calculatedFrom( ""{,}"" ) repeat char[]
    metadata// `tick` ""quote"" 'q'
, i16 metadata
@calculatedFrom( """ ++ [233]%N ++ runes_of_ascii "t" ++ [233]%N ++ runes_of_ascii """) ,
int16 tag
    ,metadata
,	}")).
Eval vm_compute in ("<<<M4148>>>" ++ check (runes_of_ascii "options {
    LittleEndian = false;
    StringPrefixLenType = u16;
    ArrayPrefixLenType = u8;
    FixedStringPadFromLeft = true;
    FixedStringPadChar = ' ';
}

packet Logon {
}

packet Reject {
    InPx48 {
        repeat string price,
        u32 msgKind,
        repeat InSide223 {
            Logon,
            repeat f64 Ref,
            string tag7,
        },
        InClordid8 {
            zchar[5] Qty,
            u64 x,
            repeat string lastPx,
        },
    },
    Logon,
    i16 lastPx,
    repeat char[5] clOrdID,
    zchar[2] Flags,
    repeat string Side2,
}

root packet Order {
    uint16 sym,
    zchar[8] Side2,
    repeat string clOrdID,
    string tag7,
    zchar[3] OrderId,
    zchar[4] seqNo,
    u32 f1,
    u32 Acct @lengthOf(Body),
    match f1 as Body {
        58 : Reject,
        180 : Logon,
    },
    u32 Px @calculatedFrom(""CR\
    C32""),
}")).
Eval vm_compute in ("<<<M43>>>" ++ check (runes_of_ascii "packet Header{ @lengthOf( matchKey
) @lengthOf(metadata ) @tag(4294967296
    )match f32a as chars {""" ++ [128512]%N ++ runes_of_ascii """  : int , } , match // @lengthOf(
roots as Packet	{ 255 : x_y_z,}
    ,  char[] trueish @lengthOf(
    i64_) `line1
line2`
, match
    f32a as
x_y_z {
    255: a1
    7	: string_
// @lengthOf(
// packet A { u8 x, }
,} , Pad
    @calculatedFrom( """ ++ [128512]%N ++ runes_of_ascii """
) , char[
    65535 ]pack ,
    @lengthOf( x  )// " ++ [27880; 37322]%N ++ runes_of_ascii "
match metadata // " ++ [128512]%N ++ runes_of_ascii " emoji
as metadata {
42
: rootA 65535: packetx , [ 7 ] :zchar , [  ""it's"", ""\n""	, 42 ] :
Logon// a // b
,
65535
    : body ,// trailing space 
} ,	@tag( 00 ) @rightPad  ( '\x00' )float
    `two words` , tag { match
calculatedFrom as rootA
{	[ ""1"" , ""CRC32"" ,
1 , 00
]:
_x
    ,	1 : Z9_
,
    """" : x , } ,},@calculatedFrom(""" ++ [128512]%N ++ runes_of_ascii """) @lengthOf(
lengthOf
// trailing space 
// packet A { u8 x, }
) @calculatedFrom( """") repeat
int16 x, }
")).
Eval vm_compute in ("<<<M3953>>>" ++ check (runes_of_ascii "root packet chars {
    match i64_ as MetaDataX {
        007 : float,
        // trailing space 
        ""a\\"" : leftPad,
        [255, ""x y"", 4294967296, 0, 3] : Packet,
        [""" ++ [128512]%N ++ runes_of_ascii """] : body,
        """ ++ [28040; 24687]%N ++ runes_of_ascii """ : Z9_,
    },
    @calculatedFrom(""abc"")
    @rightPad('0')
    match Z9_ as u128 {
        255 : Header,
    },
    repeat zchar[255] leftPad,
    @tag(255)
    u8 zchar `a\`,
}

packet As {
    @tag(00)
    MetaDataX BodyLength,
    i64 trueish,
    repeat o {
        i8 options1 @lengthOf(BodyLength),
    },
    @lengthOf(Z9_)
    @rightPad()
    @calculatedFrom(""packet"")
    float @lengthOf(x) `line1
        line2`,
}

/// triple
root packet T {
    crc `" ++ [233]%N ++ runes_of_ascii "`,
    match options1 as x {
        7 : int,
        """" : calculatedFrom,
        [""it's""] : packetx,
        7 : u128,
    },
    repeat crc,
}")).
Eval vm_compute in ("<<<M1385>>>" ++ check (runes_of_ascii "
root packet metadata	{ i32 lengthOf @calculatedFrom(
// c
//x
""1"" )`line1
line2` , repeat
calculatedFrom
int , repeat u rootA ,// c
@tag( 0 ) // trailing space 
repeat
    matchKey
    `say ""hi""`
, // c
}	packet metadata {  MetaDataX {f64 stringy
@lengthOf( metadata ) `it's`	,
    //x
    char[  0123456789] repeatCount@calculatedFrom( ""`tick`""
    //x
    ) , repeat zchar[
0 ] x_y_z`say ""hi""` , char
i64_, }
, repeat char[
    // c
    10 ]  trueish,	match roots as charz
{ """ ++ [28040; 24687]%N ++ runes_of_ascii """ :
i8i8  , [
4294967296,
    // 50% %s
    00 ,
255 ,""\n"" , ""x y"" , 10 , 0]  : trueish [ ""\" ++ [233]%N ++ runes_of_ascii """ , 7	] // trailing space 
:
i64_
    // c
    ,
// packet A { u8 x, }
// " ++ [27880; 37322]%N ++ runes_of_ascii "
[ ""\n"" ] :body ,	[ """" ] // @lengthOf(
: asx // 50% %s
, [7 ,1
]	: Z9_
,
} ,
    repeat int16 stringy // `tick` ""quote"" 'q'
,}
")).
Eval vm_compute in ("<<<M540>>>" ++ check (runes_of_ascii "packet i64_ {}packet o {As
//	t
// " ++ [27880; 37322]%N ++ runes_of_ascii "
leftPad `crlf
line`
    // c
    ,@calculatedFrom(
// `tick` ""quote"" 'q'
// a // b
""" ++ [233]%N ++ runes_of_ascii "t" ++ [233]%N ++ runes_of_ascii """) i32 //	t
float`` ,
falsey
    { match rootA as roots { ""a\""b"": body
    ,
1 :trueish// " ++ [27880; 37322]%N ++ runes_of_ascii "
, ""\" ++ [233]%N ++ runes_of_ascii """ : a1  , }
    ,
f32 options1 , char[
    3 ]
falsey	`line1
line2` ,} ,
string matchKey `u8 x,` , @calculatedFrom( """ ++ [233]%N ++ runes_of_ascii "t" ++ [233]%N ++ runes_of_ascii """
    ) uint8x @calculatedFrom( ""{,}""
),
    zchar[0123456789 ] pack //	t
,lengthOf @lengthOf(	chars )  ,//x
@calculatedFrom( """"
    )
packetx
`" ++ [233]%N ++ runes_of_ascii "` // " ++ [128512]%N ++ runes_of_ascii " emoji
,
    @tag( 3
    ) match MetaDataX as
uint8x { 007
    : body , }	, } options
{
// `tick` ""quote"" 'q'
// " ++ [27880; 37322]%N ++ runes_of_ascii "
BodyLength = """ ++ [28040; 24687]%N ++ runes_of_ascii """	; float = 10
;
// " ++ [128512]%N ++ runes_of_ascii " emoji
// trailing space 
string_= '0'packetx = '0' ; // a // b
repeatCount = i64 } 	 ")).
Eval vm_compute in ("<<<M934>>>" ++ check (runes_of_ascii "packet //x
matchKey {@lengthOf( u8x
    )
// 50% %s
//
packetx
@calculatedFrom( ""1"")
,
    repeat string	MetaDataX ,
} root
packet
    Foo{ @lengthOf( As ) x charz
    ,
    } packet a1
//x
// packet A { u8 x, }
{ match Packet// 50% %s
as Packet
    {""it's"" : zchar ,
    }
    , @tag( 255
)@calculatedFrom(
""packet"" )u32 repeatCount
    // trailing space 
    ,string stringy `it's` , f64 a1
``
    ,
//	t
// " ++ [27880; 37322]%N ++ runes_of_ascii "
i64
trueish,
repeat float
{ int32 charz
    @lengthOf( falsey// `tick` ""quote"" 'q'
) `100% of %d` , } ,repeat
f64 // " ++ [128512]%N ++ runes_of_ascii " emoji
x
, uint32 body , } root
packet rootA { match //	t
Z9_
    as
    rootA {
    ""{,}"" : As """ ++ [233]%N ++ runes_of_ascii "t" ++ [233]%N ++ runes_of_ascii """ : i64_ 1:
    charz ""\" ++ [233]%N ++ runes_of_ascii """
    : pack, // trailing space 
},}
")).
Eval vm_compute in ("<<<M529>>>" ++ check (runes_of_ascii "packet f32a { @tag(
// c
// " ++ [27880; 37322]%N ++ runes_of_ascii "
4294967296)charz
matchKey ,
    @calculatedFrom(
""packet"")
repeatCount
@lengthOf( len )	,
uint32 stringy
    // 50% %s
    `
`// `tick` ""quote"" 'q'
,Foo@lengthOf(string_ ) , repeat
char[ 007]	Logon//	t
`// not a comment` ,
zchar[  00 ]len // trailing space 
@calculatedFrom( ""1"" )
,match  len as falsey
    { ""{,}""//
:
    //
    o } ,match body as
    Z9_
{
    7:
// c
// @lengthOf(
BodyLength ,255 :
_x// a // b
}
,
    @leftPad
( '\x00' ) match // c
f32a as f32a {
[ 10 // " ++ [128512]%N ++ runes_of_ascii " emoji
,  0123456789 ]:a1,}
    // " ++ [128512]%N ++ runes_of_ascii " emoji
    ,@calculatedFrom(""" ++ [28040; 24687]%N ++ runes_of_ascii """
) @calculatedFrom( ""abc"" ) int8 // " ++ [128512]%N ++ runes_of_ascii " emoji
_x
    // `tick` ""quote"" 'q'
    `say ""hi""` , }
")).
Eval vm_compute in ("<<<M1244>>>" ++ check (runes_of_ascii "packet
    zchar
{ Z9_	, Header @calculatedFrom(""CRC32"" ) // " ++ [27880; 37322]%N ++ runes_of_ascii "
`say ""hi""`
,repeat string// " ++ [128512]%N ++ runes_of_ascii " emoji
crc
//x
// trailing space 
, As	@lengthOf(
    calculatedFrom
)`{ , }` , @rightPad (
)
    @rightPad (// " ++ [27880; 37322]%N ++ runes_of_ascii "
'\x00' )@lengthOf( repeatCount)  char[]
    body @lengthOf( o )`100% of %d`	, @leftPad( )
uint8 Logon // " ++ [128512]%N ++ runes_of_ascii " emoji
,
    //
    match
x_y_z as stringy {42: metadata }
,
    // trailing space 
    string
Z9_, @tag(
7
    ) @rightPad  (	)
    @tag(4294967296
    ) char[ 1
//x
// " ++ [128512]%N ++ runes_of_ascii " emoji
]
BodyLength `a\` ,
    // trailing space 
    repeatCount ,} packet
uint8x { @lengthOf(//
Header ) string_`" ++ [233]%N ++ runes_of_ascii "`
, }
    packet x_y_z { }
options {}

")).
Eval vm_compute in ("<<<M1099>>>" ++ check (runes_of_ascii "options{ leftPad =""\n"" ; u = uint8; } MetaData msg_type
{ } MetaData
Header
{	zchar[65535 ] // trailing space 
chars `100% of %d`//x
,options1 T
    , }	packet charz	{
    match
    falsey as matchKey {
    """"	:Logon ,
""`tick`""
:
    a1
, ""1"" : stringy
    ,
""// no comment"" : Z9_ ,
    00:
crc
    , 7
    : packetx , } ,
    repeat
u32
metadata ,
    char[
007 ] u  `a\` , @calculatedFrom(""it's"" ) @lengthOf( charz ) match leftPad as
// " ++ [27880; 37322]%N ++ runes_of_ascii "
/// triple
int{00
: x , }
, // c
@tag( //x
10)match u128 as Logon
{
00: tag ,  } , match x	as
MetaDataX { [ 1 ]
:body}
    , } packet BodyLength
// " ++ [128512]%N ++ runes_of_ascii " emoji
// c
{}")).
Eval vm_compute in ("<<<M606>>>" ++ check (runes_of_ascii "
packet float {roots `100% of %d` ,BodyLength
// `tick` ""quote"" 'q'
// `tick` ""quote"" 'q'
{ match repeatCount
as tag
    {
"""" : pack[ 0123456789 ,
    42 , ""a\\"" ] : matchKey
// c
// packet A { u8 x, }
,7	:
len ,	"""" : i8i8 , } , }
    , int16
    float , i16 Packet @calculatedFrom( //
""// no comment"" ) // trailing space 
`a\` ,
@lengthOf( rootA ) trueish, /// triple
@rightPad( '0'
) roots	msg_type, match Header as
Packet {
[ ""a\\"" ,
    ""CRC32"", ""x y""
    ]: Header
,} ,zchar[ 3
//
/// triple
] u	,
    // c
    @tag( 3 )zchar[ 0123456789 ] float
    @calculatedFrom( ""\" ++ [233]%N ++ runes_of_ascii """ ),	}")).
Eval vm_compute in ("<<<M4113>>>" ++ check (runes_of_ascii "// " ++ [27880; 37322]%N ++ runes_of_ascii "
MetaData x_y_z {
    zchar[65535] len `// not a comment`,
    u16 zchar `
        `,
}

packet matchKey {
}

packet int {
    @leftPad('0')
    f32a,
    @calculatedFrom(""abc"")
    match len as BodyLength {
        7 : Logon,
        10 : x,
        //	t
    },
    @calculatedFrom(""{,}"")
    match chars as Packet {
        //
        // c
        0123456789 : Pad,
        0123456789 : falsey,
        [4294967296, 3, 4294967296, 0, ""1""] : roots,
        ""a\\"" : _x,
        3 : packetx,
    },
    string u128 @lengthOf(roots),
}
// packet A { u8 x, }")).
Eval vm_compute in ("<<<M3955>>>" ++ check (runes_of_ascii "packet tag {
    @rightPad()
    repeat options1 T `a\`,
    @calculatedFrom(""it's"")
    /// triple
    float64 float `100% of %d`,
    @rightPad('0')
    Foo repeatCount,// a // b
    repeat float pack `line1
        line2`,// a // b
    @leftPad()
    match Foo as MetaDataX {
        // " ++ [128512]%N ++ runes_of_ascii " emoji
        """ ++ [233]%N ++ runes_of_ascii "t" ++ [233]%N ++ runes_of_ascii """ : f32a,
        00 : roots,
        [""a\\""] : BodyLength,
    },
    int16 body,/// triple
    match roots as Z9_ {
        65535 : tag,
        [""it's"", 255] : Foo,
    },// @lengthOf(
    leftPad `{ , }`,
    f64 chars `a\`,
}")).
Eval vm_compute in ("<<<M318>>>" ++ check (runes_of_ascii "MetaData packetx{char[] // " ++ [128512]%N ++ runes_of_ascii " emoji
Header ,
} packet Foo{ u32
charz/// triple
,
string trueish , @leftPad
// 50% %s
// trailing space 
(' ' // a // b
)
i8i8 {
    float64 T
@lengthOf(leftPad ) ,// c
u128 `two words`,
    zchar[ 007]metadata	`two words`	, repeat
BodyLength  MetaDataX `line1
line2`
,
    } , chars
@calculatedFrom( ""{,}"" )  `100% of %d`,  }
packet	T// 50% %s
{ f32a , @tag( 0
) @calculatedFrom(""\n"")rootA	_x  `{ , }` , @leftPad ( )
    u8 int
    ,
    crc@lengthOf(Logon )	`tab	here`  ,
// c
// " ++ [128512]%N ++ runes_of_ascii " emoji
}
")).
Eval vm_compute in ("<<<M88>>>" ++ check (runes_of_ascii "MetaData T{
    // trailing space 
    } packet
a1 {char[ 007 ]
int // 50% %s
`say ""hi""`
    , @leftPad (	)
@rightPad( ' ' ) match matchKey
    as // trailing space 
Foo	{ [
10 ,255 , """" , 0 ,
42 , ""1"", 10 ]  :packetx ,
[ 0 , 0123456789 , ""it's""
,  4294967296	,
3
, ""CRC32"" , 4294967296] // " ++ [128512]%N ++ runes_of_ascii " emoji
: repeatCount
    , 0123456789: Header , 10
    :
    roots,
} ,
@lengthOf(
tag ) char[ 0// 50% %s
] i64_
    @calculatedFrom( ""1"" )  , @lengthOf(  i8i8 ) u64
    o // " ++ [27880; 37322]%N ++ runes_of_ascii "
`crlf
line` ,
}
")).
Eval vm_compute in ("<<<M490>>>" ++ check (runes_of_ascii "MetaData	uint8x {uint8 //
u ,
int16
packetx	, char[ // trailing space 
7 ]	metadata
`line1
line2`,
    char[]i8i8  `crlf
line`
    ,
    }packet u // c
{ string x_y_z , repeat
Foo
    // trailing space 
    asx // packet A { u8 x, }
, trueish { u@lengthOf( calculatedFrom
    //
    )
    ,
    i8i8 {repeat
    char[ 65535 // @lengthOf(
] Logon ,  }
,char[]o , f64 repeatCount `
` ,	} , packetx
    u128 ,}options// c
{
roots //	t
= false;
    trueish=	char[ 1 ];}
")).
Eval vm_compute in ("<<<M3774>>>" ++ check (runes_of_ascii "
root	packet  metadata { @leftPad
	(	'0' )
@calculatedFrom(""packet"" ) match	Logon

    as  Header 
    // " ++ [128512]%N ++ runes_of_ascii " emoji
  { 3
:	body
1 
:

    f32a 00 :
    o
,""a\""b""
:

    o
,""packet""
	:
asx  ,

}
    ,
//x
// " ++ [27880; 37322]%N ++ runes_of_ascii "
  @tag(0123456789
)
    f64 
msg_type ,  @leftPad
	(	// packet A { u8 x, }
  ' '	) string
	msg_type @calculatedFrom(

    ""CRC32""  ) 

    // @lengthOf(
,  } options 
{_x

=

""1""

    ;
Header  =
f64

; 
}packet 
lengthOf{ }
")).
Eval vm_compute in ("<<<M1022>>>" ++ check (runes_of_ascii "
options {Pad
    = true; // " ++ [27880; 37322]%N ++ runes_of_ascii "
}
root packet u128 {
    repeat zchar[
0123456789 ] x
,
@calculatedFrom(
""" ++ [28040; 24687]%N ++ runes_of_ascii """) @tag(7 ) i32	Logon
    // a // b
    , matchKey u128`100% of %d`,
repeat
    lengthOf	As  `100% of %d` ,
match  x_y_z
as As {""x y"" :stringy , """ ++ [233]%N ++ runes_of_ascii "t" ++ [233]%N ++ runes_of_ascii """  :
    //
    Logon  , [65535 , 007 ] :
    Pad
    , } , f32 leftPad  ,
    // trailing space 
    @rightPad
// " ++ [128512]%N ++ runes_of_ascii " emoji
//x
( ) char[] uint8x
@lengthOf(
Foo) `it's` , } 	 ")).
Eval vm_compute in ("<<<M4322>>>" ++ check (runes_of_ascii "
packet
    Logon {	}options{ } root
    packet 
u128{

    @calculatedFrom( 
""" ++ [128512]%N ++ runes_of_ascii """

    ) 
float64 options1
    ,

    zchar[
007] matchKey  @lengthOf(
A  // " ++ [128512]%N ++ runes_of_ascii " emoji
)
,
    T
	//	t
    /// triple
  calculatedFrom	// trailing space 
      ,	@lengthOf(  stringy )
repeat
    Z9_
	{
u64	repeatCount, 
// @lengthOf(
  MetaDataX
	`two words`  , matchKey  ,

    }
	, 
}
MetaData

    crc{ Pad

MetaDataX ,
} ")).
Eval vm_compute in ("<<<M3523>>>" ++ check (runes_of_ascii "packet Frame {
    u8 HK,
    u8 BK,
    u8 TK,
    match HK as Hdr {
        1 : HdrA,
        2 : HdrB,
    },
    match BK as Body {
        1 : BodyA,
        2 : BodyB,
    },
    match TK as Trl {
        1 : TrlA,
    },
}
packet HdrA {
    u8 a,
}
packet HdrB {
    u16 b,
}
packet BodyA {
    u32 c,
}
packet BodyB {
    u64 d,
}
packet TrlA {
    u8 e,
}
root packet Msg {
    Frame,
    u8 x,
}
")).
Eval vm_compute in ("<<<M1376>>>" ++ check (runes_of_ascii "/// triple
root packet
string_
    { @calculatedFrom(  """ ++ [233]%N ++ runes_of_ascii "t" ++ [233]%N ++ runes_of_ascii """ ) char[] trueish `two words`,
match int
as // packet A { u8 x, }
o{ ""`tick`"" :	A,  [ """ ++ [128512]%N ++ runes_of_ascii """	, 42 , ""it's"" , ""{,}"" , // c
""" ++ [233]%N ++ runes_of_ascii "t" ++ [233]%N ++ runes_of_ascii """ ,
    ""it's""
,  7
    , 007 ] : u 007
    :matchKey ,}
    , @lengthOf( rootA ) @calculatedFrom( //
""a	b""
    ) @rightPad
( ) match
options1
as Foo
{ 007 : u128,  [ 10
,
    """ ++ [28040; 24687]%N ++ runes_of_ascii """
] : string_, } , }
")).
Eval vm_compute in ("<<<M4143>>>" ++ check (runes_of_ascii "MetaData 
MetaDataX{ uint16 stringy  ,  Pad
    Pad
    ,	MetaDataX falsey

`say ""hi""`

    ,
	falsey

Z9_
`say ""hi""`
,
string
	    /// triple
// 50% %s
  Header,  int8
    stringy

    ,
}	root

packet
    calculatedFrom

    { 

    //
    // `tick` ""quote"" 'q'

	}

packet
int	{ char[]

    A,zchar[
0 
    // 50% %s
    	/// triple

] leftPad
	`{ , }`
	,}
")).
Eval vm_compute in ("<<<M94>>>" ++ check (runes_of_ascii "packet
trueish { //x
char // " ++ [128512]%N ++ runes_of_ascii " emoji
msg_type`// not a comment` , repeat  char[] o, @calculatedFrom( ""x y"" )
    u64
    int@calculatedFrom( ""1"" )
    , } options{ Foo //x
=
""it's"" lengthOf = int8 falsey = 7
; //	t
a1 =
false // " ++ [128512]%N ++ runes_of_ascii " emoji
;
}MetaData
repeatCount { T repeatCount ,	u8x msg_type `100% of %d` // `tick` ""quote"" 'q'
,
    repeatCount T ,}
")).
Eval vm_compute in ("<<<M1245>>>" ++ check (runes_of_ascii "packet charz
// " ++ [128512]%N ++ runes_of_ascii " emoji
// packet A { u8 x, }
{
char[ 007
] pack
    @calculatedFrom(""// no comment""
// " ++ [128512]%N ++ runes_of_ascii " emoji
// c
)  ,u128
, @tag( // " ++ [27880; 37322]%N ++ runes_of_ascii "
1 )
    @leftPad ()match zchar// trailing space 
as string_	{ [ 65535 , 00
// " ++ [27880; 37322]%N ++ runes_of_ascii "
// trailing space 
, 4294967296 //
,
255 ,
007 ]
: //x
Pad // packet A { u8 x, }
3  : MetaDataX } ,
metadata string_ ,
}
")).
Eval vm_compute in ("<<<M717>>>" ++ check (runes_of_ascii "
options
{ pack
    = true } //	t
packet	lengthOf{ int8  u `" ++ [28040; 24687; 31867; 22411]%N ++ runes_of_ascii "` ,
u @lengthOf( stringy	)
// a // b
// packet A { u8 x, }
,@lengthOf( roots
)
    @leftPad ('\x00'  ) @calculatedFrom( ""a\\"" )repeat uint16 A `{ , }` , }packet u
{ // c
uint32/// triple
pack @lengthOf(Pad )
    /// triple
    ``	,lengthOf u// packet A { u8 x, }
, }")).
Eval vm_compute in ("<<<M4012>>>" ++ check (runes_of_ascii "packet Pad {
    // @lengthOf(
    /// triple
    @tag(1)
    @leftPad('0')
    repeat zchar[10] Packet,
    uint32 BodyLength `100% of %d`,
    repeat char[10] Z9_,
    @leftPad('0')
    repeat Foo a1,
    char[42] repeatCount `line1
        line2`,
    @rightPad()
    char[] crc,
    pack @calculatedFrom(""\" ++ [233]%N ++ runes_of_ascii """),
}")).
Eval vm_compute in ("<<<M607>>>" ++ check (runes_of_ascii "packet leftPad{
@lengthOf( metadata) @lengthOf( int )	@lengthOf( As ) uint32 zchar @lengthOf( Packet),char[ 255] asx `100% of %d` ,i16 metadata `it's`	, @lengthOf(
// trailing space 
//	t
x
)
    @calculatedFrom(
    ""1"") @tag(42
    //x
    )
repeat
    i8 float
, @calculatedFrom( ""`tick`"") roots , }")).
Eval vm_compute in ("<<<M4306>>>" ++ check (runes_of_ascii "options {
    // c1
    u = 00
    // c4
    stringy = '0'// c7
}// c8a

// c8b
packet stringy {
    // c11a
    // c11b
}

// c12
MetaData repeatCount {
    // c15
    MetaDataX leftPad,// c18a
    // c18b
    string body `
    `,
    // c22
    metadata options1,
    // c25
}// c26a
// c26b")).
Eval vm_compute in ("<<<M2014>>>" ++ check (runes_of_ascii "packet	packetx { // trailing space 
x_y_z
{
string
charz ,
string x// @lengthOf(
`two words`
    ,  u8x { // `tick` ""quote"" 'q'
charz `100% of %d` // packet A { u8 x, }
,}// " ++ [27880; 37322]%N ++ runes_of_ascii "
,} , }
    // a // b
    packet metadata {  @leftPad ( '0') repeat i32 options1 ,`two words` uint8x , }
")).
Eval vm_compute in ("<<<M2012>>>" ++ check (runes_of_ascii "packet	packetx { // trailing space 
x_y_z
{
string
charz ,
string x// @lengthOf(
`two words`
    ,  u8x { // `tick` ""quote"" 'q'
charz `100% of %d` // packet A { u8 x, }
,}// " ++ [27880; 37322]%N ++ runes_of_ascii "
,} , }
    // a // b
    packet metadata {  @leftPad ( '0') repeat i32 options1 ,u64 u64 uint8x , }
")).
Eval vm_compute in ("<<<M2022>>>" ++ check (runes_of_ascii "packet	packetx { // trailing space 
x_y_z
{
string
charz ,
string x// @lengthOf(
`two words`
    ,  u8x { // `tick` ""quote"" 'q'
charz `100% of %d` // packet A { u8 x, }
,}// " ++ [27880; 37322]%N ++ runes_of_ascii "
,} , }
    // a // b
    packet metadata {  @leftPad ( '0') repeat i32 options1 ,u64 uint8x , , }
")).
Eval vm_compute in ("<<<M1923>>>" ++ check (runes_of_ascii "packet	packetx { // trailing space 
x_y_z
{
string
charz ,
string x// @lengthOf(
`two words`
    ,  u8x { // `tick` ""quote"" 'q'
charz , // packet A { u8 x, }
`100% of %d`}// " ++ [27880; 37322]%N ++ runes_of_ascii "
,} , }
    // a // b
    packet metadata {  @leftPad ( '0') repeat i32 options1 ,u64 uint8x , }
")).
Eval vm_compute in ("<<<M1911>>>" ++ check (runes_of_ascii "packet	packetx { // trailing space 
x_y_z
{
string
charz ,
string x// @lengthOf(
`two words`
    ,  u8x  // `tick` ""quote"" 'q'
charz `100% of %d` // packet A { u8 x, }
,}// " ++ [27880; 37322]%N ++ runes_of_ascii "
,} , }
    // a // b
    packet metadata {  @leftPad ( '0') repeat i32 options1 ,u64 uint8x , }
")).
Eval vm_compute in ("<<<M2048>>>" ++ check (runes_of_ascii "packet	packetx { // trailing space 
x_y_z
{
string
x" ++ [178]%N ++ runes_of_ascii " ,
string x// @lengthOf(
`two words`
    ,  u8x { // `tick` ""quote"" 'q'
charz `100% of %d` // packet A { u8 x, }
,}// " ++ [27880; 37322]%N ++ runes_of_ascii "
,} , }
    // a // b
    packet metadata {  @leftPad ( '0') repeat i32 options1 ,u64 uint8x , }
")).
Eval vm_compute in ("<<<M2155>>>" ++ check (runes_of_ascii "packet// packet A { u8 x, }
repeatCount	{// packet A { u8 x, }
@leftPad ( '\x00'
) repeat u8x MetaDataX `crlf
line`,
    repeat
    char[] MetaDataX
    ,
u64	uint8x@calculatedFrom(""a\""b""
// c
// packet A { u8 x, }
) `tab	here` `tab	here`
,//
}MetaData pack
    {
    }
")).
Eval vm_compute in ("<<<M4407>>>" ++ check (runes_of_ascii "root packet _x {
    zchar[65535] x @lengthOf(uint8x) `" ++ [28040; 24687; 31867; 22411]%N ++ runes_of_ascii "`,
    @leftPad('\x00')
    match float as stringy {
        ""// no comment"" : int,
        7 : x_y_z,
        ""`tick`"" : lengthOf,
    },
    @lengthOf(f32a)
    repeat BodyLength Header,
    u Foo `it's`,
}")).
Eval vm_compute in ("<<<M2132>>>" ++ check (runes_of_ascii "packet// packet A { u8 x, }
repeatCount	{// packet A { u8 x, }
@leftPad ( '\x00'
) repeat u8x MetaDataX `crlf
line`,
    repeat
    char[] MetaDataX
    ,
packet	uint8x@calculatedFrom(""a\""b""
// c
// packet A { u8 x, }
) `tab	here`
,//
}MetaData pack
    {
    }
")).
Eval vm_compute in ("<<<M2202>>>" ++ check (runes_of_ascii "packet// packet A { u8 x, }
repeatCou""nt	{// packet A { u8 x, }
@leftPad ( '\x00'
) repeat u8x MetaDataX `crlf
line`,
    repeat
    char[] MetaDataX
    ,
u64	uint8x@calculatedFrom(""a\""b""
// c
// packet A { u8 x, }
) `tab	here`
,//
}MetaData pack
    {
    }
")).
Eval vm_compute in ("<<<M2122>>>" ++ check (runes_of_ascii "packet// packet A { u8 x, }
repeatCount	{// packet A { u8 x, }
@leftPad ( '\x00'
) repeat u8x MetaDataX `crlf
line`,
    repeat
    char[] @rightPad
    ,
u64	uint8x@calculatedFrom(""a\""b""
// c
// packet A { u8 x, }
) `tab	here`
,//
}MetaData pack
    {
    }
")).
Eval vm_compute in ("<<<M300>>>" ++ check (runes_of_ascii "// a // b
options{
    } packet Foo { char[  7 ] int // `tick` ""quote"" 'q'
@calculatedFrom(
""it's"" ) ,  @calculatedFrom( ""1""
) repeat i16
// @lengthOf(
// a // b
msg_type
    , repeat msg_type zchar
`two words` ,
    } MetaData i64_ { f32a Logon `u8 x,`
, }")).
Eval vm_compute in ("<<<M2144>>>" ++ check (runes_of_ascii "packet// packet A { u8 x, }
repeatCount	{// packet A { u8 x, }
@leftPad ( '\x00'
) repeat u8x MetaDataX `crlf
line`,
    repeat
    char[] MetaDataX
    ,
u64	uint8x@calculatedFrom(
// c
// packet A { u8 x, }
) `tab	here`
,//
}MetaData pack
    {
    }
")).
Eval vm_compute in ("<<<M1566>>>" ++ check (runes_of_ascii "packet calculatedFrom
{ @calculatedFrom( ""a\\"" ) zchar[ 4294967296 ]
calculatedFrom@lengthOf( pack )	`100% of %d` ,char[]body@calculatedFrom( ""// no comment"" )  ,
@tag( 007) //x
int8
leftPad`it's` , repeat pack
    false repeat char[ 3] body
,},
}")).
Eval vm_compute in ("<<<M1604>>>" ++ check (runes_of_ascii "packet calculatedFrom
{ @calculatedFrom( ""a\\"" ) zchar[ 4294967296 ]
calculatedFrom@lengthOf( pack )	`100% of %d` ,char[]body@calculatedFrom( ""// no comment"" )  ,
@tag( 007) //x
int8
leftPad`it's` , repeat pack
    { repeat char[ 3] body
,}, ,
}")).
Eval vm_compute in ("<<<M4362>>>" ++ check (runes_of_ascii "options {
    x = uint32;
    _x = true;
    matchKey = ""`tick`"";
    // trailing space 
    //	t
    tag = '0';
    packetx = char[3]
}

options {
}

//x
packet rootA {
    roots,
    @lengthOf(falsey)
    @lengthOf(u128)
    zchar[255] stringy,
}")).
Eval vm_compute in ("<<<M1560>>>" ++ check (runes_of_ascii "packet calculatedFrom
{ @calculatedFrom( ""a\\"" ) zchar[ 4294967296 ]
calculatedFrom@lengthOf( pack )	`100% of %d` ,char[]body@calculatedFrom( ""// no comment"" )  ,
@tag( 007) //x
int8
leftPad`it's` , repeat {
    pack repeat char[ 3] body
,},
}")).
Eval vm_compute in ("<<<M4235>>>" ++ check (runes_of_ascii "MetaData zchar {
    falsey u8x,// @lengthOf(
    i8 u128,
    u i8i8 `
    `,
    i8 asx `{ , }`,
}

options {
    lengthOf = i8
}

packet msg_type {
    match u8x as MetaDataX {
        //
        /// triple
        1 : tag,
        //
    },
}")).
Eval vm_compute in ("<<<M1571>>>" ++ check (runes_of_ascii "packet calculatedFrom
{ @calculatedFrom( ""a\\"" ) zchar[ 4294967296 ]
calculatedFrom@lengthOf( pack )	`100% of %d` ,char[]body@calculatedFrom( ""// no comment"" )  ,
@tag( 007) //x
int8
leftPad`it's` , repeat pack
    { = char[ 3] body
,},
}")).
Eval vm_compute in ("<<<M4500>>>" ++ check (runes_of_ascii "
MetaData rootA

    {

    lengthOf	falsey 
`crlf
line`	,
	u32

    u8x`say ""hi""`	// " ++ [128512]%N ++ runes_of_ascii " emoji
	  ,int16 As
`two words`
,

    zchar[3  
      // c
	  // a // b
      ] x 
        //x
    `
`  
      /// triple
  // c

	,
	}
")).
Eval vm_compute in ("<<<M4510>>>" ++ check (runes_of_ascii "
MetaData

    u

{
	i8

tag  `two words` ,}root	packet 
Logon {@lengthOf(A
    ) @tag( 007
    )A

    matchKey ,

    } 
options

    {

A
= false;

    string_ 
    /// triple

= ' '	;
    a1  =

    ""a	b""	}
")).
Eval vm_compute in ("<<<M1616>>>" ++ check (runes_of_ascii "packet calculatedFrom
{ @calculatedFrom( ""a\\"" ) zchar[ 4294967296 ]
calculatedFrom@lengthOf( pack )	`100% of %d` ,char[]body@calculatedFrom( ""// no comment"" )  ,
@tag( 007) //x
int8
leftPad`it's` , repeat pack
 ")).
Eval vm_compute in ("<<<M1024>>>" ++ check (runes_of_ascii "MetaData stringy { i16 string_ `u8 x,`
    , char T
    ,charz Packet, i64
    int
/// triple
// `tick` ""quote"" 'q'
, f64
    options1 // `tick` ""quote"" 'q'
`tab	here`
,
    f32a stringy
`say ""hi""` ,}
")).
Eval vm_compute in ("<<<M657>>>" ++ check (runes_of_ascii "packet T { @tag( 00)
f32
    metadata
@lengthOf(// @lengthOf(
crc ) `// not a comment` ,
repeat	uint16 As, @tag(65535 ) int8
    // `tick` ""quote"" 'q'
    metadata
@lengthOf(  BodyLength
    ),}
")).
Eval vm_compute in ("<<<M3665>>>" ++ check (runes_of_ascii "

  MetaData	float  {
MetaDataX charz	,
u128  A// @lengthOf(
	`u8 x,`	,

    MetaDataX
    falsey
    ,
u8x
repeatCount
,
	i32	asx , 
float64 
zchar
`" ++ [233]%N ++ runes_of_ascii "` /// triple
  ,}
	options { }

")).
Eval vm_compute in ("<<<M1252>>>" ++ check (runes_of_ascii "
packet	_x {// `tick` ""quote"" 'q'
crc  i64_
    /// triple
    `say ""hi""`
    // @lengthOf(
    , @calculatedFrom( ""packet""
)	crc body, char
    stringy // `tick` ""quote"" 'q'
`
` , }")).
Eval vm_compute in ("<<<M1086>>>" ++ check (runes_of_ascii "options {o=
// @lengthOf(
// trailing space 
""" ++ [28040; 24687]%N ++ runes_of_ascii """ ; } MetaData
T{
pack
    // packet A { u8 x, }
    Header ,
    char[65535 ]	u ,roots
    msg_type ,
uint8x BodyLength , }
")).
Eval vm_compute in ("<<<M868>>>" ++ check (runes_of_ascii "
packet f32a {
    float64 u8x `it's`, @rightPad
( '0')	uint32 x_y_z, @calculatedFrom( """ ++ [28040; 24687]%N ++ runes_of_ascii """ /// triple
)  repeat
// " ++ [128512]%N ++ runes_of_ascii " emoji
// c
asx {f32
    matchKey
    , }	,
} 	 ")).
Eval vm_compute in ("<<<M2377>>>" ++ check (runes_of_ascii "
packet MetaDataX
{
    @leftPad
( // a // b
'0'
) i8 u @lengthOf(
MetaDataX
    ) `say ""hi""` ,	} MetaData BodyLength options
    asx
x_y_z `" ++ [233]%N ++ runes_of_ascii "`
, uint64 u128 , }
")).
Eval vm_compute in ("<<<M1693>>>" ++ check (runes_of_ascii "options { } packet Packet{char[] i64_ ,
@tag(
    255) match match
crc as i8i8{""{,}"" : trueish """" : Pad , ""a\\"" :
Foo ,
    1 :packetx
, """ ++ [128512]%N ++ runes_of_ascii """ : trueish , } , }")).
Eval vm_compute in ("<<<M2421>>>" ++ check (runes_of_ascii "
packet MetaDataX
{
    @leftPad
( // a // b
'0'
) i8 u @lengthOf(
MetaDataX
    ) `say ""hi""` ,	} } MetaData BodyLength {
    asx
x_y_z `" ++ [233]%N ++ runes_of_ascii "`
, uint64 u128 , }
")).
Eval vm_compute in ("<<<M2353>>>" ++ check (runes_of_ascii "
packet MetaDataX
{
    @leftPad
( // a // b
'0'
) i8 u @lengthOf(
MetaDataX
    ) `say ""hi""` }	, MetaData BodyLength {
    asx
x_y_z `" ++ [233]%N ++ runes_of_ascii "`
, uint64 u128 , }
")).
Eval vm_compute in ("<<<M1748>>>" ++ check (runes_of_ascii "options { } packet Packet{char[] i64_ ,
@tag(
    255) match
crc as i8i8{""{,}"" : trueish """" : Pad , , ""a\\"" :
Foo ,
    1 :packetx
, """ ++ [128512]%N ++ runes_of_ascii """ : trueish , } , }")).
Eval vm_compute in ("<<<M1651>>>" ++ check (runes_of_ascii "options { } float32 Packet{char[] i64_ ,
@tag(
    255) match
crc as i8i8{""{,}"" : trueish """" : Pad , ""a\\"" :
Foo ,
    1 :packetx
, """ ++ [128512]%N ++ runes_of_ascii """ : trueish , } , }")).
Eval vm_compute in ("<<<M1684>>>" ++ check (runes_of_ascii "options { } packet Packet{char[] i64_ ,
@tag(
    )255 match
crc as i8i8{""{,}"" : trueish """" : Pad , ""a\\"" :
Foo ,
    1 :packetx
, """ ++ [128512]%N ++ runes_of_ascii """ : trueish , } , }")).
Eval vm_compute in ("<<<M2383>>>" ++ check (runes_of_ascii "
packet MetaDataX
{
    @leftPad
( // a // b

) i8 u @lengthOf(
MetaDataX
    ) `say ""hi""` ,	} MetaData BodyLength {
    asx
x_y_z `" ++ [233]%N ++ runes_of_ascii "`
, uint64 u128 , }
")).
Eval vm_compute in ("<<<M3599>>>" ++ check (runes_of_ascii "MetaData falsey {
    u64 stringy,
    asx T,
    u16 f32a,
    BodyLength tag `line1
    line2`,
    u T,// 50% %s
    int64 repeatCount,// @lengthOf(
}")).
Eval vm_compute in ("<<<M1762>>>" ++ check (runes_of_ascii "options { } packet Packet{char[] i64_ ,
@tag(
    255) match
crc as i8i8{""{,}"" : trueish """" : Pad , ""a\\"" :
 ,
    1 :packetx
, """ ++ [128512]%N ++ runes_of_ascii """ : trueish , } , }")).
Eval vm_compute in ("<<<M735>>>" ++ check (runes_of_ascii "root packet float  { }	options {
float
    = // " ++ [27880; 37322]%N ++ runes_of_ascii "
""packet"" ; o /// triple
= true// @lengthOf(
; pack= zchar[ 7 ];x = false}	root packet Logon { }")).
Eval vm_compute in ("<<<M762>>>" ++ check (runes_of_ascii "  MetaData
u
{ Packet string_ ,}
    MetaData A {
} root packet roots{
@leftPad ( ' ' ) packetx// trailing space 
@lengthOf( Packet ) `" ++ [233]%N ++ runes_of_ascii "`
, }
")).
Eval vm_compute in ("<<<M886>>>" ++ check (runes_of_ascii "MetaData calculatedFrom { x_y_z
tag
    ,  } // @lengthOf(
options {
    BodyLength = true ; // c
} root //
packet
    string_ {
} // " ++ [27880; 37322]%N)).
Eval vm_compute in ("<<<M1035>>>" ++ check (runes_of_ascii "packet
zchar{ string u8x
    , @lengthOf(matchKey ) char[ // c
3 // packet A { u8 x, }
] a1
@lengthOf( lengthOf ) `two words` ,
} //	t")).
Eval vm_compute in ("<<<M308>>>" ++ check (runes_of_ascii "MetaData zchar // " ++ [27880; 37322]%N ++ runes_of_ascii "
{ charz
Logon	`{ , }` , f32 float
, Packet body `crlf
line` , f32 metadata , char lengthOf , } // @lengthOf(")).
Eval vm_compute in ("<<<M4423>>>" ++ check (runes_of_ascii "root packet asx {
    u64 T `doc`,
}

MetaData Header {
    pack o ``,
}

MetaData repeatCount {
    pack roots `" ++ [233]%N ++ runes_of_ascii "`,
    // c
}")).
Eval vm_compute in ("<<<M3278>>>" ++ check (runes_of_ascii "MetaData metadata { } MetaData rootA { i8 i64_ // c
, roots options1 `a\` , lengthOf Header , Z9_ Foo , int16 BodyLength , }")).
Eval vm_compute in ("<<<M4029>>>" ++ check (runes_of_ascii "MetaData float {
    uint8 BodyLength,
}

MetaData charz {
    float32 trueish `a\`,
    i16 metadata `say ""hi""`,
    // c
}")).
Eval vm_compute in ("<<<M559>>>" ++ check (runes_of_ascii "root packet Packet{ @calculatedFrom( ""\" ++ [233]%N ++ runes_of_ascii """ )Header
// a // b
// packet A { u8 x, }
@lengthOf(
    i64_ )
`{ , }`  , }
")).
Eval vm_compute in ("<<<M3844>>>" ++ check (runes_of_ascii "packet A {
    u16 len @lengthOf(body) `x
    `,
    u32 crc @calculatedFrom(""CRC32"") `x
    `,
    string body,
}")).
Eval vm_compute in ("<<<M3316>>>" ++ check (runes_of_ascii "// c
MetaData float { uint8 BodyLength , } MetaData charz { float32 trueish `a\` , i16 metadata `say ""hi""` , }")).
Eval vm_compute in ("<<<M3349>>>" ++ check (runes_of_ascii "MetaData float { uint8 BodyLength , } MetaData charz { float32 trueish `a\` , i16 metadata
// c
`say ""hi""` , }")).
Eval vm_compute in ("<<<M2987>>>" ++ check (runes_of_ascii "packet A {
  match k as n {
    [""a"", ""bb"", ""c c"", ""d"", ""e"", ""f"", ""g"", ""h"", ""i"", ""j""] : B,
    2 : C
  },
}")).
Eval vm_compute in ("<<<M3019>>>" ++ check (runes_of_ascii "packet A {
  match k as n {
    [1, 22, ""c c"", 4, 5, ""f"", 7, 8, ""i"", 10, 11, ""l""] : B,
    2 : C
  },
}")).
Eval vm_compute in ("<<<M3002>>>" ++ check (runes_of_ascii "packet A {
  match k as n {
    [1, ""bb"", 007, ""d"", 5, ""f"", 7, ""h"", 9, ""j"", 11] : B,
    2 : C
  },
}")).
Eval vm_compute in ("<<<M1166>>>" ++ check (runes_of_ascii "
options { Packet = false;} options {
    Pad = char[]  ; }MetaData
msg_type { i64 Foo ,
    }

")).
Eval vm_compute in ("<<<M2245>>>" ++ check (runes_of_ascii "MetaData _x {string x `// not a comment` , string string
i64_ // trailing space 
`a\` ,
    }
")).
Eval vm_compute in ("<<<M2970>>>" ++ check (runes_of_ascii "packet A {
  match k as n {
    [""a"", ""bb"", 007, ""d"", ""e"", 66, ""g"", ""h""] : B
    2 : C
  },
}")).
Eval vm_compute in ("<<<M2220>>>" ++ check (runes_of_ascii "MetaData _x { {string x `// not a comment` , string
i64_ // trailing space 
`a\` ,
    }
")).
Eval vm_compute in ("<<<M2956>>>" ++ check (runes_of_ascii "packet A {
  match k as n {
    [""a"", ""bb"", 007, ""d"", ""e"", 66, ""g""] : B,
    2 : C
  },
}")).
Eval vm_compute in ("<<<M2219>>>" ++ check (runes_of_ascii "MetaData _x string x `// not a comment` , string
i64_ // trailing space 
`a\` ,
    }
")).
Eval vm_compute in ("<<<M2967>>>" ++ check (runes_of_ascii "packet A {
  match k as n {
    [1, 22, ""c c"", 4, 5, ""f"", 7, 8] : B,
    2 : C
  },
}")).
Eval vm_compute in ("<<<M2944>>>" ++ check (runes_of_ascii "packet A {
  match k as n {
    [""a"", ""bb"", 007, ""d"", ""e"", 66] : B
    2 : C
  },
}")).
Eval vm_compute in ("<<<M3499>>>" ++ check (runes_of_ascii "packet orderItem {
    u8 a,
}
root packet newOrder {
    orderItem,
    u8 x,
}
")).
Eval vm_compute in ("<<<M2874>>>" ++ check (runes_of_ascii "] MetaData ) @lengthOf( [ : @rightPad '\x00' packet uint16 @calculatedFrom( u32")).
Eval vm_compute in ("<<<M3897>>>" ++ check (runes_of_ascii "
MetaData
Z9_
	{

    char[] charz,T 
i64_

,  Logon  Z9_
, 
}
    //	t
")).
Eval vm_compute in ("<<<M3382>>>" ++ check (runes_of_ascii "MetaData _x { f64 charz `tab	here` , } options { // c
BodyLength = """ ++ [233]%N ++ runes_of_ascii "t" ++ [233]%N ++ runes_of_ascii """ ; }")).
Eval vm_compute in ("<<<M3675>>>" ++ check (runes_of_ascii "
packet	A
	{ B

    b `a
b` 
,B 
`a
b`	,
repeat

    B
bs `a
b`, }
")).
Eval vm_compute in ("<<<M3076>>>" ++ check (runes_of_ascii "MetaData M {
    u8 x `100% of %s %d %v`,
    T t `100% of %s %d %v`,
}")).
Eval vm_compute in ("<<<M2898>>>" ++ check (runes_of_ascii "packet A {
  match k as n {
    [1, ""bb"", 007] : B,
    2 : C
  },
}")).
Eval vm_compute in ("<<<M4169>>>" ++ check (runes_of_ascii "

  MetaData uint8x	{
	}options
{

    lengthOf = false

    }
")).
Eval vm_compute in ("<<<M3226>>>" ++ check (runes_of_ascii "packet A {
    match k as n {
        1 : B,
        // c
    },
}")).
Eval vm_compute in ("<<<M1231>>>" ++ check (runes_of_ascii "MetaData options1 { u16
matchKey , uint32	Packet
,}
options { }")).
Eval vm_compute in ("<<<M506>>>" ++ check (runes_of_ascii "
MetaData rootA { // `tick` ""quote"" 'q'
} // trailing space ")).
Eval vm_compute in ("<<<M3217>>>" ++ check (runes_of_ascii "packet A { // a
 @tag(1) u8 x, // b
 // c
 @tag(2) u8 y, }")).
Eval vm_compute in ("<<<M1696>>>" ++ check (runes_of_ascii "options { } packet Packet{char[] i64_ ,
@tag(
    255)")).
Eval vm_compute in ("<<<M2893>>>" ++ check (runes_of_ascii "packet A { Inner { match k as n { [1,22] : B, }, }, }")).
Eval vm_compute in ("<<<M108>>>" ++ check (runes_of_ascii "// " ++ [27880; 37322]%N ++ runes_of_ascii "
MetaData len {zchar[ 0123456789
] i64_ , }

")).
Eval vm_compute in ("<<<M2388>>>" ++ check (runes_of_ascii "
packet MetaDataX
{
    @leftPad
( // a // b
'0'")).
Eval vm_compute in ("<<<M2298>>>" ++ check (runes_of_ascii "
MetaData Pad
u32 rootA `line1
line2` ,
    }
")).
Eval vm_compute in ("<<<M2669>>>" ++ check (runes_of_ascii "MetaData M { u8 x `d` , y z `e`, char[3] w, }")).
Eval vm_compute in ("<<<M3058>>>" ++ check (runes_of_ascii "MetaData M {
    u8 x `x
`,
    T t `x
`,
}")).
Eval vm_compute in ("<<<M3249>>>" ++ check (runes_of_ascii "MetaData zchar { zchar[ 3 ] Pad , } // c
")).
Eval vm_compute in ("<<<M4448>>>" ++ check (runes_of_ascii "options {
    a = 1// c
    b = 2;// d
}")).
Eval vm_compute in ("<<<M1145>>>" ++ check (runes_of_ascii "root
    packet tag
    { } // a // b")).
Eval vm_compute in ("<<<M4092>>>" ++ check (runes_of_ascii "packet A {
    u8 x,// c
    u8 y,
}")).
Eval vm_compute in ("<<<M2637>>>" ++ check (runes_of_ascii "packet A { match k as n { 1 B }, }")).
Eval vm_compute in ("<<<M4445>>>" ++ check (runes_of_ascii "

  root packet

    As  {
}

")).
Eval vm_compute in ("<<<M339>>>" ++ check (runes_of_ascii "options
{ zchar=  int16
    }
")).
Eval vm_compute in ("<<<M3030>>>" ++ check (runes_of_ascii "packet A {
    u8 x `a
b`,
}")).
Eval vm_compute in ("<<<M3054>>>" ++ check (runes_of_ascii "packet A {
    u8 x `x
`,
}")).
Eval vm_compute in ("<<<M642>>>" ++ check (runes_of_ascii "options  {
Logon=  42 }
")).
Eval vm_compute in ("<<<M3212>>>" ++ check (runes_of_ascii "packet A { // a
 u8 x, }")).
Eval vm_compute in ("<<<M426>>>" ++ check (runes_of_ascii "
packet matchKey { }
")).
Eval vm_compute in ("<<<M195>>>" ++ check (runes_of_ascii "MetaData
T
    { }
")).
Eval vm_compute in ("<<<M1656>>>" ++ check (runes_of_ascii "options { } packet")).
Eval vm_compute in ("<<<M3167>>>" ++ check (runes_of_ascii "packet A {
}// c 	")).
Eval vm_compute in ("<<<M3102>>>" ++ check (runes_of_ascii "packet A {
}// c ")).
Eval vm_compute in ("<<<M2738>>>" ++ check (runes_of_ascii ": uint32 '0' f64")).
Eval vm_compute in ("<<<M2828>>>" ++ check ([65533]%N ++ runes_of_ascii "5" ++ [65533; 65533; 65533; 65533; 65533]%N ++ runes_of_ascii "lD" ++ [5]%N ++ runes_of_ascii "
" ++ [65533; 174; 65533]%N)).
Eval vm_compute in ("<<<M430>>>" ++ check (runes_of_ascii " /// triple")).
Eval vm_compute in ("<<<M2508>>>" ++ check (runes_of_ascii "@lengthOf")).
Eval vm_compute in ("<<<M2483>>>" ++ check (runes_of_ascii "repeats")).
Eval vm_compute in ("<<<M4400>>>" ++ check (runes_of_ascii "
// c" ++ [8287]%N)).
Eval vm_compute in ("<<<M3138>>>" ++ check (runes_of_ascii "// c" ++ [8232]%N)).
Eval vm_compute in ("<<<M2566>>>" ++ check (runes_of_ascii "a
b")).
Eval vm_compute in ("<<<M2564>>>" ++ check (runes_of_ascii "ab")).
Eval vm_compute in ("<<<M2796>>>" ++ check (runes_of_ascii "C" ++ [65533]%N)).
