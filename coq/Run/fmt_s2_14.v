From FP Require Import Lexer Parser ShowPT Digest Formatter.
From Coq Require Import String List NArith.
Import ListNotations.
Open Scope string_scope.
Set Printing Width 100000000.
Set Printing Depth 100000000.
Definition show_fres (r : fres) : string :=
  match r with
  | FOk s => "OK:" ++ sh_escaped s ""
  | FErr s => "ERR:" ++ sh_escaped s ""
  | FPanic p => "PANIC:" ++ p
  end.
Definition check (rs : list rune) : string := digest (show_fres (format_res rs)).
Definition full (rs : list rune) : string := show_fres (format_res rs).
Eval vm_compute in ("<<<M1454>>>" ++ check (runes_of_ascii "// top
options
    // c0
{ // c1
StringPrefixLenType // c2a
  // c2b
= // c3
u16 ;
    // c5
ArrayPrefixLenType // c6a
  // c6b
= // c7a
  // c7b
u32 // c8
; FixedStringPadFromLeft // c10a
  // c10b
= // c11
false
    // c12
; // c13a
  // c13b
FixedStringPadChar // c14a
  // c14b
= // c15
'0'
    // c16
; // c17
}
    // c18
packet Logout
    // c20
{ // c21
f64 f1 // c23a
  // c23b
, // c24
i16
    // c25
Note // c26
, // c27
@rightPad ( // c29
'\x00' // c30
) char[ // c32
11 // c33
] // c34a
  // c34b
Flags // c35a
  // c35b
,
    // c36
} // c37
packet // c38
Cancel // c39a
  // c39b
{ // c40
float64
    // c41
msgKind ,
    // c43
} // c44
packet
    // c45
Reject // c46a
  // c46b
{ // c47
InQty43 // c48a
  // c48b
{ // c49
float32 // c50a
  // c50b
sym // c51
, // c52
char[ // c53a
  // c53b
10
    // c54
]
    // c55
Tail // c56
, // c57a
  // c57b
uint8 // c58
venue // c59a
  // c59b
, // c60
uint16
    // c61
f1 ,
    // c63
char[ 9 ] Acct
    // c67
, // c68
} , // c70
} // c71a
  // c71b
packet Trade
    // c73
{ // c74
char[] // c75a
  // c75b
x , // c77a
  // c77b
zchar[ // c78
6 ] // c80
Note , // c82a
  // c82b
repeat // c83a
  // c83b
Reject // c84a
  // c84b
, } root
    // c87
packet
    // c88
Order // c89a
  // c89b
{ // c90a
  // c90b
Cancel , Logout // c93
, // c94a
  // c94b
u64 // c95
Acct // c96
, u32 // c98a
  // c98b
OrderId
    // c99
, match // c101
OrderId // c102a
  // c102b
as // c103
Body // c104a
  // c104b
{ [ // c106
127 // c107
, // c108a
  // c108b
70
    // c109
] : // c111a
  // c111b
Reject
    // c112
, 177 // c114a
  // c114b
: // c115
Trade ,
    // c117
58
    // c118
: // c119a
  // c119b
Logout , 75 // c122
:
    // c123
Cancel // c124a
  // c124b
,
    // c125
}
    // c126
, u32 // c128a
  // c128b
Tail
    // c129
@calculatedFrom(
    // c130
""CRC32"" // c131
) // c132a
  // c132b
, // c133
} // c134
")).
Eval vm_compute in ("<<<M1580>>>" ++ check (runes_of_ascii "
MetaData
i8i8

    // trailing space 
{ Pad rootA`tab	here`//
  , 
x_y_z

metadata	,  zchar[
    255
	]
x_y_z	`doc` ,

    metadata i8i8

,	uint8x
leftPad `say ""hi""` 
,

    int32	charz
    `" ++ [28040; 24687; 31867; 22411]%N ++ runes_of_ascii "`,  }
packet

    len 
{ char[ 255
    ]
f32a  //x
@calculatedFrom(  ""a	b"" )  `// not a comment`	, f64
u8x
        //
// `tick` ""quote"" 'q'
, options1

    {
string
	charz  `u8 x,`

, 
string_// packet A { u8 x, }
	  @calculatedFrom(	// " ++ [27880; 37322]%N ++ runes_of_ascii "
      ""a	b""	)

    ,

repeat
    falsey { a1

`it's` , stringy@lengthOf( 
Foo )	,repeat  zchar[	10]

Logon  `line1
line2`,  uint16	repeatCount

    @lengthOf( options1)
	`doc`

    ,
}

, repeat//x
	u packetx,	} ,
falsey 
x_y_z ,	char[]
matchKey`u8 x,`
	,}
    packet
	float{
@lengthOf(Foo

)
u16
	a1

`crlf
line`// `tick` ""quote"" 'q'
	,
    // `tick` ""quote"" 'q'
	@leftPad () 
@lengthOf( string_ // `tick` ""quote"" 'q'
  )match

    asx 
as

lengthOf  { """":f32a
    ,
    }

    , roots
    { 
f32
A `a\` 
,	i8 
trueish
@lengthOf(
    rootA 
) ,

} , options1 
@lengthOf( 
_x	)
	, 	 /// triple
	@lengthOf(

asx	// `tick` ""quote"" 'q'
  )
    charz 
    // " ++ [27880; 37322]%N ++ runes_of_ascii "
    ,
    zchar[
    10
]	a1 
@calculatedFrom(
""// no comment"" ) 
`say ""hi""`

    ,  //x
  uint16
	x
    @calculatedFrom(

    ""a\\""

) 
,
	}

")).
Eval vm_compute in ("<<<M196>>>" ++ check (runes_of_ascii "packet
a1
    { @rightPad
    ( ' '  ) repeat	a1 ,
    //	t
    repeat
float32 i8i8	`two words`, @lengthOf( A ) float zchar ,@rightPad(
'0'
)	uint32 o `doc`
, @calculatedFrom( ""packet""
    )	repeat
asx `crlf
line`//	t
, @tag( 007 )
@calculatedFrom(	""CRC32""
)repeat uint64 A `line1
line2` , @leftPad ( '\x00'
)
// packet A { u8 x, }
//x
string stringy `` , @rightPad( '\x00' ) @tag( 255 /// triple
)
body
    @lengthOf( Z9_	)
,match
x_y_z
// packet A { u8 x, }
// " ++ [128512]%N ++ runes_of_ascii " emoji
as
falsey{""\" ++ [233]%N ++ runes_of_ascii """: options1
, } ,Logon falsey
// c
// " ++ [27880; 37322]%N ++ runes_of_ascii "
`say ""hi""`
, } packet// " ++ [128512]%N ++ runes_of_ascii " emoji
Foo { }options {
// @lengthOf(
// `tick` ""quote"" 'q'
f32a
=	""a\""b"" ;
float= '0' ;  calculatedFrom
    = 65535
    ; msg_type= '0';
    // trailing space 
    A = """"
} root packet
string_ {
match float as u128{ [ ""\n""
]	:// trailing space 
Packet , }
    ,} packet charz { lengthOf @calculatedFrom(
    // " ++ [128512]%N ++ runes_of_ascii " emoji
    """ ++ [28040; 24687]%N ++ runes_of_ascii """)
,
    @leftPad
( ' ' ) repeat chars`" ++ [28040; 24687; 31867; 22411]%N ++ runes_of_ascii "`, match leftPad
    as a1 {
    ""`tick`"" :
    string_ // c
,
// c
// c
10
:
    string_, 4294967296// a // b
: Foo
, } , }")).
Eval vm_compute in ("<<<M1429>>>" ++ check (runes_of_ascii "

  options{ 
LittleEndian
	=
    true
	; StringPrefixLenType =
u32	;	FixedStringPadChar

    = '0'  ;
}
	packet
	Logout
{ repeat

InMsgkind49 {

u8
	pad0  ,
} 
,
repeat char[	5	]  seqNo,

repeat	u8 price  ,	}

packet

Party {
    zchar[7

    ] 
Qty , }packet
Logon
{
repeat InRef10	{
    string  price  ,
char[]sym	, repeat Logout
,} 
, repeat

    char[
    3]

count	, repeat
    Party,
char[]

tag7 ,	@rightPad ('0'
	) char[2
	]
clOrdID , }packet
	Order {

InTail13
    { Party 
,
    }
	,  repeat

    char[
4
    ]count
	, 
}  root

packet	Cancel  { Logout	,	@leftPad

    ( '0' 
)

char[  9]  msgKind
	,string lastPx

    ,
string tag7
,  zchar[  1
	] OrderId
,
repeat
	Party
, u16
sym
	, u16  Acct@lengthOf(
Body)
    , 
match sym

    as 
Body{	[
	24,
44
    ]  :
    Logout
,

160 : Order ,
91 :

Logon

    ,
	43
:
Party

    ,
    }
    ,  u16 Tail
	@calculatedFrom(""CRC32""
    )
,	}
")).
Eval vm_compute in ("<<<M1681>>>" ++ check (runes_of_ascii "
options
    {
	// c

  //x
    u128
=
true

    ;	Header// trailing space 
	=

    ""packet""stringy
=
""CRC32""

A = '0'	; 
}

    packet 
calculatedFrom
{

    repeat u128

Logon ,
    // packet A { u8 x, }

	// " ++ [128512]%N ++ runes_of_ascii " emoji
	} 
packet body
    {
@calculatedFrom( ""\" ++ [233]%N ++ runes_of_ascii """
)
metadata `a\`,

    // c
    // c
    stringy {

//	t
	uint8	A
`tab	here`,
	repeat

u
        // `tick` ""quote"" 'q'
      As
, 	 /// triple
zchar[

65535

]
x_y_z @lengthOf(

    crc

)	//
  ,
} 
,
    @calculatedFrom(
	""{,}"")
    len /// triple
	@lengthOf(
roots	)
    ,
	char[ 7  ]	BodyLength

    `{ , }`
	,
    // c
  int64 
_x 
,

    @calculatedFrom(

    ""it's"" 	 // " ++ [27880; 37322]%N ++ runes_of_ascii "

  )match

    pack as
As  {
""CRC32""	:

o  ,

}
    , zchar[
4294967296

    ]  i64_@calculatedFrom( 
""// no comment"" )

,
    }
")).
Eval vm_compute in ("<<<M1440>>>" ++ check (runes_of_ascii "options { 
LittleEndian =

    false ;  StringPrefixLenType=

    u16
;	ArrayPrefixLenType=  u32
; }

    packet 
Order

    {

    uint8
x
	,repeat
string venue
	, }packet Heartbeat { i64 count,
zchar[

    1 ]
Qty

    ,

    repeat
	InX29  {

InSeqno26
    { 
int64 f1,char[	5 
]

Acct

    ,

    Order , }	,

    repeat
    InSide285{

repeat
	Order
    ,	char[ 10
	]Px, zchar[

9  ]OrderId
    ,}

    , char[]
	venue
,Order,
}

,

@rightPad(
'\x00'	)	char[
	4
    ]
clOrdID

,

} 
root packet	Party { zchar[3]

    f1 
, u32 clOrdID 
,
    u32 Px
	@lengthOf( 
Body)

,match clOrdID as
    Body
{ [

    180
	,
64 
] :Heartbeat , 11  :
Order
,	}
,
u32  Side2  @calculatedFrom(
""CRC32""
    )	,}

")).
Eval vm_compute in ("<<<M326>>>" ++ check (runes_of_ascii "options {
a1 = '\x00';Pad=
char[007 ] ;
} MetaData o{
zchar[  42] crc ,
} /// triple
packet matchKey { @lengthOf( u ) @tag(	65535 )
i8i8
    `// not a comment`,match
    u128 as msg_type
{10 : //	t
zchar
    0 : lengthOf ,3
:uint8x
, ""x y"" :
msg_type , 255  :
matchKey , } ,char[  3 //
] // trailing space 
As `a\`,
@lengthOf( // c
calculatedFrom) match //	t
chars
as u128{
    // packet A { u8 x, }
    [""a	b"" , 00/// triple
] :
zchar , // `tick` ""quote"" 'q'
7 : leftPad [255 // @lengthOf(
,
""x y""
, 4294967296
    //	t
    ,	0 ,
    //
    3
// a // b
//x
] :
    Packet, // `tick` ""quote"" 'q'
[ """ ++ [128512]%N ++ runes_of_ascii """
] : body ,
    """ ++ [28040; 24687]%N ++ runes_of_ascii """
:
    Z9_ , }
,
} options { }
")).
Eval vm_compute in ("<<<M1416>>>" ++ check (runes_of_ascii "packet Logon // c1
{ // c2
string // c3a
  // c3b
user // c4
, // c5a
  // c5b
}
    // c6
root packet Frame // c9a
  // c9b
{
    // c10
u8
    // c11
K , // c13
match
    // c14
K
    // c15
as
    // c16
Body // c17a
  // c17b
{ 1 // c19a
  // c19b
: Logon // c21
, // c22a
  // c22b
2 :
    // c24
Logout
    // c25
, } ,
    // c28
Tail , } packet // c32
Logout
    // c33
{ // c34
u16 // c35a
  // c35b
reason // c36a
  // c36b
, // c37
} // c38a
  // c38b
packet // c39a
  // c39b
Tail // c40
{ u32
    // c42
crc , // c44a
  // c44b
} // c45a
  // c45b
")).
Eval vm_compute in ("<<<M335>>>" ++ check (runes_of_ascii "packet Logon//x
{ @calculatedFrom( ""a	b""
    ) repeat options1 , @calculatedFrom(
    ""a\\"") // c
char[] options1 `it's`, @tag(4294967296 ) repeat Logon
{match trueish as
    u128
    {""x y""
    //	t
    :// c
i64_
    ,
    [ 4294967296 , 007, 10 ]: i8i8 , } ,
//
// @lengthOf(
T	`u8 x,` ,repeat uint64 T `u8 x,`
, } , } options // @lengthOf(
{u128 =// trailing space 
'0'tag =  true
    ; Packet  = char[ 0123456789 ] ;
    Foo = 007 body
= 3 ;
    } packet i64_
{ }
//x
")).
Eval vm_compute in ("<<<M1868>>>" ++ check (runes_of_ascii "// top
packet P1 {
    // c2
    u8 a,// c5
}

// c6
packet P2 {
    // c9
    P1,// c11
}

packet P3 {
    P2,
    P1,
}

// c20
packet P4 {
    repeat P3,
    // c26
    P2,// c28
}

// c29
root packet P5 {
    // c33
    P4,// c35a
    // c35b
    P3,// c37
    P1,
    u8 K,// c42
    match K as Body {
        // c47
        4 : P4,
        3 : P3,
        2 : P2,
        // c59
        1 : P1,
    },// c65
}
// c66")).
Eval vm_compute in ("<<<M1424>>>" ++ check (runes_of_ascii "options {
    LittleEndian = false;
    StringPrefixLenType = u32;
    ArrayPrefixLenType = u16;
}
packet Party {
    @leftPad('0') char[12] Ref,
    repeat char[6] x,
}
packet Logon {
    uint32 clOrdID,
    Party,
}
root packet Ack {
    zchar[2] f1,
    u32 seqNo,
    u32 Side2 @lengthOf(Body),
    match seqNo as Body {
        43 : Logon,
        93 : Party,
    },
}
")).
Eval vm_compute in ("<<<M209>>>" ++ check (runes_of_ascii "
packet //
u8x
    {
    @lengthOf( Logon )
    u128 { //x
Logon@lengthOf( msg_type
), }
    ,  repeat
uint8x
, // @lengthOf(
int64 // c
o `tab	here`
    , }MetaData
    int{// " ++ [128512]%N ++ runes_of_ascii " emoji
char[]
    // `tick` ""quote"" 'q'
    chars `it's`,	int crc `{ , }`, // @lengthOf(
}root packet chars
    { char[]
x_y_z , }
// trailing space 
")).
Eval vm_compute in ("<<<M1399>>>" ++ check (runes_of_ascii "packet
    A 
{	u8
a
	,
    }
packet B{u16 b , } packet
	C{u32 c , 
}
root  packet M{u16

    Kc , 
u16 Kb ,  u16 Ka

,

    match Kc
as

X{ 9
    :

    A, 10
	: 
B

,	}

, match	Kb 
as 
Y	{2 :
C
    ,

    1: A 
,
    }

,

    match 
Ka
as Z{  1
    :
	B
, 
} 
, A, B,
C,
    }

")).
Eval vm_compute in ("<<<M1403>>>" ++ check (runes_of_ascii "packet MDSnapshotZZ {
    u8 a,
}
packet OrderACK {
    u16 b,
}
packet HTTPServerInfo {
    string s,
}
root packet FIXMsg {
    u8 KType,
    MDSnapshotZZ,
    repeat OrderACK,
    match KType as Body {
        1 : HTTPServerInfo,
        2 : OrderACK,
    },
}
")).
Eval vm_compute in ("<<<M1392>>>" ++ check (runes_of_ascii "packet order_item // c1a
  // c1b
{ u8 // c3
a
    // c4
, } // c6a
  // c6b
root // c7a
  // c7b
packet // c8a
  // c8b
new_order {
    // c10
order_item // c11
, // c12a
  // c12b
u8
    // c13
x
    // c14
, // c15
} // c16a
  // c16b
")).
Eval vm_compute in ("<<<M502>>>" ++ check (runes_of_ascii "options
{
matchKey = 42/// triple
x='0' ;
// packet A { u8 x, }
//
charz
=
// packet A { u8 x, }
// trailing space 
true  ; } MetaData BodyLength
{
uint8
pack,zchar[ 1]float float ,  float32 x_y_z `` ,u32
_x,i16 body  , }
")).
Eval vm_compute in ("<<<M402>>>" ++ check (runes_of_ascii "options
{
matchKey = = 42/// triple
x='0' ;
// packet A { u8 x, }
//
charz
=
// packet A { u8 x, }
// trailing space 
true  ; } MetaData BodyLength
{
uint8
pack,zchar[ 1]float ,  float32 x_y_z `` ,u32
_x,i16 body  , }
")).
Eval vm_compute in ("<<<M524>>>" ++ check (runes_of_ascii "options
{
matchKey = 42/// triple
x='0' ;
// packet A { u8 x, }
//
charz
=
// packet A { u8 x, }
// trailing space 
true  ; } MetaData BodyLength
{
uint8
pack,zchar[ 1]float ,  float32 x_y_z u32 ,u32
_x,i16 body  , }
")).
Eval vm_compute in ("<<<M481>>>" ++ check (runes_of_ascii "options
{
matchKey = 42/// triple
x='0' ;
// packet A { u8 x, }
//
charz
=
// packet A { u8 x, }
// trailing space 
true  ; } MetaData BodyLength
{
uint8
pack zchar[ 1]float ,  float32 x_y_z `` ,u32
_x,i16 body  , }
")).
Eval vm_compute in ("<<<M406>>>" ++ check (runes_of_ascii "options
{
matchKey = /// triple
x='0' ;
// packet A { u8 x, }
//
charz
=
// packet A { u8 x, }
// trailing space 
true  ; } MetaData BodyLength
{
uint8
pack,zchar[ 1]float ,  float32 x_y_z `` ,u32
_x,i16 body  , }
")).
Eval vm_compute in ("<<<M459>>>" ++ check (runes_of_ascii "options
{
matchKey = 42/// triple
x='0' ;
// packet A { u8 x, }
//
charz
=
// packet A { u8 x, }
// trailing space 
true  ; } { BodyLength
{
uint8
pack,zchar[ 1]float ,  float32 x_y_z `` ,u32
_x,i16 body  , }
")).
Eval vm_compute in ("<<<M705>>>" ++ check (runes_of_ascii "// c
packet i64_ {	char[] calculatedFrom calculatedFrom , } packet
trueish  {@calculatedFrom(
""a\\"" ) o { i32 falsey@lengthOf( uint8x ),
} , } // `tick` ""quote"" 'q'
options {// c
Z9_ = ' '//
}
")).
Eval vm_compute in ("<<<M1510>>>" ++ check (runes_of_ascii "// top
packet o {
    // c2
    @tag(42)
    // c5
    repeat x {
        // c8
        char[0123456789] i64_,
        // c13
    },
    // c15
}

// c16
options {
    // c18
}
// c19")).
Eval vm_compute in ("<<<M718>>>" ++ check (runes_of_ascii "// c
packet i64_ {	char[] calculatedFrom , } packet
trueish  {@calculatedFrom(
""a\\"" ) o { i32 falsey@lengthOf( ) uint8x,
} , } // `tick` ""quote"" 'q'
options {// c
Z9_ = ' '//
}
")).
Eval vm_compute in ("<<<M1486>>>" ++ check (runes_of_ascii "

  packet

    A

{ match
    k  as
n{
[""a"" 
,""bb""

    ,

    ""c c"" ,""d"" , ""e"",	""f""
,
""g"" 
,
""h""
	,
""i""

    , ""j"",
    ""k"" 
,""l""  ]

:

B 
2
    :	C 
},}
")).
Eval vm_compute in ("<<<M83>>>" ++ check (runes_of_ascii "packet // trailing space 
msg_type { repeat string
// `tick` ""quote"" 'q'
// @lengthOf(
BodyLength  `two words`
// packet A { u8 x, }
// packet A { u8 x, }
, }
")).
Eval vm_compute in ("<<<M93>>>" ++ check (runes_of_ascii "MetaData  falsey { i64
    A // " ++ [27880; 37322]%N ++ runes_of_ascii "
, string
Header
,	zchar[	10 ]
Foo `" ++ [28040; 24687; 31867; 22411]%N ++ runes_of_ascii "`
    // @lengthOf(
    ,packetx
    body, f32a  MetaDataX `it's`,  }
")).
Eval vm_compute in ("<<<M1499>>>" ++ check (runes_of_ascii "packet A {
    match k as n {
        [
            1, ""bb"", 007, ""d"", 5,
            ""f"", 7, ""h""
        ] : B,
        2 : C,
    },
}")).
Eval vm_compute in ("<<<M1907>>>" ++ check (runes_of_ascii "
packet
A
    { match  k
as

    n{

    [ 1,  22
    , ""c c""
, 4 ,

5
,""f""
,
	7 ,

8	,  ""i"" 
] : B
	2:

C
}	,

    }
")).
Eval vm_compute in ("<<<M1353>>>" ++ check (runes_of_ascii "packet B {
    u8 a,
}
root packet P {
    u8 K,
    match K as Body {
        1 : B,
    },
    u16 L @lengthOf(Body),
}
")).
Eval vm_compute in ("<<<M652>>>" ++ check (runes_of_ascii "MetaData
    // trailing space 
    matchKey
{ u64 chars // a // b
,char[] lengthOf `// not a comment`
    , //	t
" ++ [0]%N ++ runes_of_ascii " }")).
Eval vm_compute in ("<<<M614>>>" ++ check (runes_of_ascii "MetaData
    // trailing space 
    matchKey
{ u64 chars // a // b
}char[] lengthOf `// not a comment`
    , //	t
}")).
Eval vm_compute in ("<<<M1887>>>" ++ check (runes_of_ascii "packet Pad{ } packet	options1{// trailing space 

}

// @lengthOf(

root  packet crc {  repeat crc  len

    ,

}")).
Eval vm_compute in ("<<<M924>>>" ++ check (runes_of_ascii "packet A {
    u16 len @lengthOf(body) `a
b`,
    u32 crc @calculatedFrom(""CRC32"") `a
b`,
    string body,
}")).
Eval vm_compute in ("<<<M954>>>" ++ check (runes_of_ascii "packet A {
    u16 len @lengthOf(body) `
x`,
    u32 crc @calculatedFrom(""CRC32"") `
x`,
    string body,
}")).
Eval vm_compute in ("<<<M1262>>>" ++ check (runes_of_ascii "packet calculatedFrom { @tag( 4294967296
// c
) u msg_type , char[ 3 ] crc @lengthOf( len ) `u8 x,` , }")).
Eval vm_compute in ("<<<M866>>>" ++ check (runes_of_ascii "packet A {
  match k as n {
    [""a"", ""bb"", ""c c"", ""d"", ""e"", ""f"", ""g"", ""h"", ""i""] : B,
    2 : C
  },
}")).
Eval vm_compute in ("<<<M874>>>" ++ check (runes_of_ascii "packet A {
  match k as n {
    [""a"", ""bb"", 007, ""d"", ""e"", 66, ""g"", ""h"", 9] : B,
    2 : C
  },
}")).
Eval vm_compute in ("<<<M1140>>>" ++ check (runes_of_ascii "packet Logon { @tag( 42 ) // c
@rightPad ( ' ' ) @leftPad ( ) repeat trueish { string T , } , }")).
Eval vm_compute in ("<<<M1835>>>" ++ check (runes_of_ascii "packet Pad {
    @calculatedFrom(""CRC32"")
    @tag(7)
    float32 u128 @calculatedFrom(""\n""),
}")).
Eval vm_compute in ("<<<M857>>>" ++ check (runes_of_ascii "packet A {
  match k as n {
    [""a"", 22, ""c c"", 4, ""e"", 66, ""g"", 8] : B,
    2 : C
  },
}")).
Eval vm_compute in ("<<<M1181>>>" ++ check (runes_of_ascii "// top
options
    // c0
{
    // c1
u8x
    // c2
=
    // c3
3
    // c4
}
    // c5
")).
Eval vm_compute in ("<<<M177>>>" ++ check (runes_of_ascii "MetaData Header
{ trueish u8x , zchar[ 42 ] Packet
    , char asx	,// @lengthOf(
}")).
Eval vm_compute in ("<<<M1223>>>" ++ check (runes_of_ascii "packet o { @tag( 42 ) repeat x
// c
{ char[ 0123456789 ] i64_ , } , } options { }")).
Eval vm_compute in ("<<<M822>>>" ++ check (runes_of_ascii "packet A {
  match k as n {
    [""a"", ""bb"", 007, ""d"", ""e""] : B,
    2 : C
  },
}")).
Eval vm_compute in ("<<<M1762>>>" ++ check (runes_of_ascii "

  root
	packet P
{
	u16 a	, u32  Sum @calculatedFrom(
	""CRC32""
    ), 
}

")).
Eval vm_compute in ("<<<M803>>>" ++ check (runes_of_ascii "packet A {
  match k as n {
    [1, ""bb"", 007, ""d""] : B,
    2 : C
  },
}")).
Eval vm_compute in ("<<<M796>>>" ++ check (runes_of_ascii "packet A {
  match k as n {
    [""a"", ""bb"", 007] : B,
    2 : C
  },
}")).
Eval vm_compute in ("<<<M794>>>" ++ check (runes_of_ascii "packet A {
  match k as n {
    [1, 22, ""c c""] : B,
    2 : C
  },
}")).
Eval vm_compute in ("<<<M754>>>" ++ check (runes_of_ascii "= uint8 ' ' @tag( { zchar[ 00 zchar uint32 int64 u8 : [ stringy")).
Eval vm_compute in ("<<<M1660>>>" ++ check (runes_of_ascii "MetaData M {
    u8 x `
        x`,
    T t `
        x`,
}")).
Eval vm_compute in ("<<<M1077>>>" ++ check (runes_of_ascii "// a
MetaData M {} // b
// c
MetaData N {} // d
// e")).
Eval vm_compute in ("<<<M1867>>>" ++ check (runes_of_ascii "
root
packet	A
{
u8

    x  `x
` , 
} ")).
Eval vm_compute in ("<<<M1115>>>" ++ check (runes_of_ascii "MetaData zchar { zchar[ 3 ]
// c
Pad , }")).
Eval vm_compute in ("<<<M1782>>>" ++ check (runes_of_ascii "MetaData zchar {
    zchar[3] Pad,
}")).
Eval vm_compute in ("<<<M1852>>>" ++ check (runes_of_ascii "packet A {
    u8 x `d" ++ [8202]%N ++ runes_of_ascii "`,// c" ++ [8202]%N ++ runes_of_ascii "
}")).
Eval vm_compute in ("<<<M1047>>>" ++ check (runes_of_ascii "packet A {
 u8 x `d" ++ [8203]%N ++ runes_of_ascii "`, // c" ++ [8203]%N ++ runes_of_ascii "
}")).
Eval vm_compute in ("<<<M736>>>" ++ check ([25; 65533]%N ++ runes_of_ascii "\" ++ [65533]%N ++ runes_of_ascii "v" ++ [65533]%N ++ runes_of_ascii "
K" ++ [65533; 65533; 65533]%N ++ runes_of_ascii "Xsz" ++ [65533]%N ++ runes_of_ascii "L" ++ [65533; 65533; 17; 65533; 23]%N ++ runes_of_ascii "<=B?")).
Eval vm_compute in ("<<<M127>>>" ++ check (runes_of_ascii "packet Foo{/// triple
}")).
Eval vm_compute in ("<<<M1061>>>" ++ check (runes_of_ascii "// c x
packet A {
}")).
Eval vm_compute in ("<<<M1036>>>" ++ check (runes_of_ascii "// c" ++ [12]%N ++ runes_of_ascii "
packet A {
}")).
Eval vm_compute in ("<<<M1053>>>" ++ check (runes_of_ascii "packet A {
}// c" ++ [6158]%N)).
Eval vm_compute in ("<<<M1856>>>" ++ check (runes_of_ascii "
// c" ++ [11]%N ++ runes_of_ascii "
")).
Eval vm_compute in ("<<<M56>>>" ++ check (runes_of_ascii "
")).
