From FP Require Import Lexer Parser ShowPT Digest.
From Coq Require Import String List NArith.
Import ListNotations.
Open Scope string_scope.
Set Printing Width 100000000.
Set Printing Depth 100000000.
Definition nl : string := String (Ascii.ascii_of_nat 10) EmptyString.
Definition model_lex (rs : list rune) : string := show_toks (lex rs).
Definition model_parse (rs : list rune) : string :=
  show_pt (match lex rs with Some ts => parse ts | None => None end).
(* coqc is slow at printing long strings: digests first (Digest.v), full texts on demand *)
Definition check (rs : list rune) : string :=
  digest (model_lex rs) ++ " " ++ digest (model_parse rs).
Definition full (rs : list rune) : string := model_lex rs ++ nl ++ model_parse rs.
Definition terms (ts : list tok) (t : pt) : string :=
  digest (show_toks (Some ts)) ++ " " ++ digest (show_pt (Some t)) ++ " " ++ digest (show_pt (parse ts)).
Definition terms_full (ts : list tok) (t : pt) : string :=
  show_toks (Some ts) ++ nl ++ show_pt (Some t) ++ nl ++ show_pt (parse ts).
Eval vm_compute in ("<<<M5>>>" ++ check (runes_of_ascii "root
packet zchar {
repeatCount // a // b
@lengthOf(  asx )	, match
string_ as o// @lengthOf(
{ 7 :packetx
    ,
    7 : Pad},// packet A { u8 x, }
zchar[ 65535 ]
    T
@calculatedFrom( /// triple
""" ++ [128512]%N ++ runes_of_ascii """
)
    , tag @lengthOf( // " ++ [27880; 37322]%N ++ runes_of_ascii "
u ) `crlf
line`,
    @calculatedFrom(
    // " ++ [128512]%N ++ runes_of_ascii " emoji
    """" ) _x	@calculatedFrom(// @lengthOf(
""a	b"" )
`// not a comment` ,match Z9_ as float { 0123456789 : calculatedFrom, ""{,}"":u //	t
} , @leftPad( ) @tag( 255	) @lengthOf(i8i8
    ) match
tag as
    trueish { 4294967296:	uint8x
    ,[ //x
65535 ] : u8x ,	10 : i64_,
""""
    :metadata
    } , int64 T , } root packet len { @tag(	0) Logon ,
@tag(255) repeat u64 packetx `it's`
    , @tag(
    4294967296 )
zchar[007 ]repeatCount `a\` , char[ 4294967296
]
// " ++ [128512]%N ++ runes_of_ascii " emoji
// packet A { u8 x, }
asx @calculatedFrom(
""it's"" ), }	root packet asx {	uint16 options1@lengthOf(
    matchKey ) `it's`	, }	root //
packet
Logon{ @lengthOf( asx) @calculatedFrom(  ""packet""
)	Z9_ @calculatedFrom(// " ++ [128512]%N ++ runes_of_ascii " emoji
""" ++ [28040; 24687]%N ++ runes_of_ascii """)
    ,
@tag(	007
    /// triple
    )
zchar[0123456789 ] i64_ ,
msg_type`line1
line2` , repeat zchar[
007 ]Pad
`
`	, falsey {
    chars lengthOf ``
    ,	match Header as lengthOf
    {
""" ++ [233]%N ++ runes_of_ascii "t" ++ [233]%N ++ runes_of_ascii """	: falsey 42:
uint8x , [ 007
,""abc""
    ,
// c
// a // b
""abc"" ,""a\\""  ,
65535 // c
,""a\""b"" ,
42, ""{,}"" ]:charz } , int64 //x
Foo // c
, Z9_@lengthOf( int )`it's`
, }
,
    @rightPad
    ( ) // trailing space 
string As @calculatedFrom(""" ++ [28040; 24687]%N ++ runes_of_ascii """ ) ,
    // c
    match matchKey as repeatCount{
4294967296 :msg_type	, """ ++ [28040; 24687]%N ++ runes_of_ascii """ : zchar 3  : u8x , """":	asx
// trailing space 
// `tick` ""quote"" 'q'
, } ,}
")).
Eval vm_compute in ("<<<M15>>>" ++ check (runes_of_ascii "options { matchKey
    =
10 } MetaData options1{
    matchKey o `doc` , rootA tag
,uint32 _x /// triple
`line1
line2`, char[] chars `say ""hi""`,  }")).
Eval vm_compute in ("<<<M25>>>" ++ check (runes_of_ascii "root packet
    metadata// " ++ [128512]%N ++ runes_of_ascii " emoji
{ } packet // c
u
{@leftPad (
) repeat char[  4294967296 ] A
`a\`  ,
}
")).
Eval vm_compute in ("<<<M35>>>" ++ check (runes_of_ascii "// " ++ [27880; 37322]%N ++ runes_of_ascii "
root packet chars { @rightPad(
    //	t
    )
    u8x @calculatedFrom( ""a	b"" ) `line1
line2` ,
repeat
tag {
    repeat options1 f32a
    `" ++ [28040; 24687; 31867; 22411]%N ++ runes_of_ascii "` , },	}
")).
Eval vm_compute in ("<<<M45>>>" ++ check (runes_of_ascii "packet rootA { @rightPad( ' ') repeat
    Z9_ roots
``,	zchar
tag `two words` , @rightPad ( ' '
    )
len {
// trailing space 
//x
u128
`doc` ,u8x
    ,  char[ 0123456789 // a // b
]calculatedFrom  `" ++ [28040; 24687; 31867; 22411]%N ++ runes_of_ascii "`,msg_type
@lengthOf(
falsey)`u8 x,` , } ,
@calculatedFrom( """"	)	f64 charz
@lengthOf(msg_type) `it's`// trailing space 
,
    }
")).
Eval vm_compute in ("<<<M55>>>" ++ check (runes_of_ascii "MetaData
trueish {int
falsey , char[
10
    ] u  , zchar[ 007 ] leftPad , string
x `two words`
    ,  }
")).
Eval vm_compute in ("<<<T55>>>" ++ terms [mkTok 37 "MetaData" 1 0 false; mkTok 42 "trueish" 2 0 false; mkTok 2 "{" 2 8 false; mkTok 42 "int" 2 9 false; mkTok 42 "falsey" 3 0 false; mkTok 40 "," 3 7 false; mkTok 12 "char[" 3 9 false; mkTok 30 "10" 4 0 false; mkTok 13 "]" 5 4 false; mkTok 42 "u" 5 6 false; mkTok 40 "," 5 9 false; mkTok 14 "zchar[" 5 11 false; mkTok 30 "007" 5 18 false; mkTok 13 "]" 5 22 false; mkTok 42 "leftPad" 5 24 false; mkTok 40 "," 5 32 false; mkTok 15 "string" 5 34 false; mkTok 42 "x" 6 0 false; mkTok 43 "`two words`" 6 2 false; mkTok 40 "," 7 4 false; mkTok 3 "}" 7 7 false; mkTok 0 "<EOF>" 8 0 false] (mkPacket (mkPtok 37 "MetaData" 1 0 0) (Some (mkPtok 3 "}" 7 7 20)) [(DMeta (mkMetaDef (mkSpan (mkPtok 37 "MetaData" 1 0 0) (mkPtok 3 "}" 7 7 20)) (mkPtok 37 "MetaData" 1 0 0) (mkPtok 42 "trueish" 2 0 1) (mkPtok 2 "{" 2 8 2) [(MIRef (mkRefMetaDecl (mkSpan (mkPtok 42 "int" 2 9 3) (mkPtok 40 "," 3 7 5)) (mkPtok 42 "int" 2 9 3) (mkPtok 42 "falsey" 3 0 4) None (mkPtok 40 "," 3 7 5))); (MIDecl (mkMetaDecl (mkSpan (mkPtok 12 "char[" 3 9 6) (mkPtok 40 "," 5 9 10)) (TyFixed (mkSpan (mkPtok 12 "char[" 3 9 6) (mkPtok 13 "]" 5 4 8)) (mkFixedString (mkSpan (mkPtok 12 "char[" 3 9 6) (mkPtok 13 "]" 5 4 8)) (mkPtok 12 "char[" 3 9 6) (mkPtok 30 "10" 4 0 7) (mkPtok 13 "]" 5 4 8))) (mkPtok 42 "u" 5 6 9) None (mkPtok 40 "," 5 9 10))); (MIDecl (mkMetaDecl (mkSpan (mkPtok 14 "zchar[" 5 11 11) (mkPtok 40 "," 5 32 15)) (TyFixed (mkSpan (mkPtok 14 "zchar[" 5 11 11) (mkPtok 13 "]" 5 22 13)) (mkFixedString (mkSpan (mkPtok 14 "zchar[" 5 11 11) (mkPtok 13 "]" 5 22 13)) (mkPtok 14 "zchar[" 5 11 11) (mkPtok 30 "007" 5 18 12) (mkPtok 13 "]" 5 22 13))) (mkPtok 42 "leftPad" 5 24 14) None (mkPtok 40 "," 5 32 15))); (MIDecl (mkMetaDecl (mkSpan (mkPtok 15 "string" 5 34 16) (mkPtok 40 "," 7 4 19)) (TyDynamic (mkSpan (mkPtok 15 "string" 5 34 16) (mkPtok 15 "string" 5 34 16)) (mkDynamicString (mkSpan (mkPtok 15 "string" 5 34 16) (mkPtok 15 "string" 5 34 16)) (mkPtok 15 "string" 5 34 16))) (mkPtok 42 "x" 6 0 17) (Some (mkPtok 43 "`two words`" 6 2 18)) (mkPtok 40 "," 7 4 19)))] (mkPtok 3 "}" 7 7 20)))])).
Eval vm_compute in ("<<<M65>>>" ++ check (runes_of_ascii "MetaData
    Packet { string Logon `" ++ [233]%N ++ runes_of_ascii "`
,
    int8
    _x
//	t
// " ++ [27880; 37322]%N ++ runes_of_ascii "
,
}

")).
Eval vm_compute in ("<<<M75>>>" ++ check (runes_of_ascii "packet MetaDataX
{ @calculatedFrom(
    ""CRC32""
    ) @tag(	255 //
) zchar[ 007
// c
// trailing space 
] Logon , } MetaData
// " ++ [27880; 37322]%N ++ runes_of_ascii "
// `tick` ""quote"" 'q'
u8x{ char[0123456789
    // @lengthOf(
    ]	Foo , i64 x_y_z , o msg_type
    , }
// packet A { u8 x, }
")).
Eval vm_compute in ("<<<M85>>>" ++ check (runes_of_ascii "
")).
Eval vm_compute in ("<<<M95>>>" ++ check (runes_of_ascii "// trailing space 
MetaData u8x
{
i64_
    i64_ `doc`,i16 Z9_ `say ""hi""` , BodyLength
roots ,
}")).
Eval vm_compute in ("<<<M105>>>" ++ check (runes_of_ascii "
root
packet Packet
{ char[0123456789 ] pack @lengthOf(
As ) `{ , }`,
repeat
    // `tick` ""quote"" 'q'
    string
    rootA ,	match
repeatCount
    as
    pack /// triple
{ ""a\""b""
    :uint8x// packet A { u8 x, }
[ ""x y"" ,
    ""it's""
    // " ++ [128512]%N ++ runes_of_ascii " emoji
    ]	: chars
    ""\" ++ [233]%N ++ runes_of_ascii """
: //	t
crc	0123456789 :Packet ,[""1""
]:	A ,
    // @lengthOf(
    } ,// `tick` ""quote"" 'q'
} options /// triple
{ }packet pack // trailing space 
{ i8//x
MetaDataX ,string float
`" ++ [28040; 24687; 31867; 22411]%N ++ runes_of_ascii "`,@lengthOf( trueish)
@calculatedFrom(
    ""`tick`"" ) f64 lengthOf ,repeat pack	packetx
// trailing space 
// packet A { u8 x, }
, }
")).
Eval vm_compute in ("<<<M115>>>" ++ check (@nil rune)).
Eval vm_compute in ("<<<M125>>>" ++ check (runes_of_ascii "root packet // c
falsey { roots { repeat x_y_z ,
} , char[] T `
` , char[	3 ]T/// triple
,zchar { repeat
zchar[ 65535 ]
    rootA  `tab	here`
    , int32 leftPad , }
,
// packet A { u8 x, }
// `tick` ""quote"" 'q'
repeat
    Packet
    //	t
    ,repeat
char[ 00 ] body`" ++ [233]%N ++ runes_of_ascii "` , @tag(
00// @lengthOf(
) a1 i64_
, i8i8 BodyLength `{ , }`
    , match
    crc as u8x
// a // b
//	t
{ [
    // `tick` ""quote"" 'q'
    0 ]:
    matchKey , [ 0123456789,
""a\\""
,
""abc"" ]:As , """ ++ [128512]%N ++ runes_of_ascii """ : tag, 7 :
    u8x , 42 : f32a 00 :options1 } // trailing space 
,} packet// " ++ [27880; 37322]%N ++ runes_of_ascii "
MetaDataX{@tag( 42)@leftPad ( ) @leftPad
    //x
    ( )  body i64_ , } packet int{ @calculatedFrom(
// " ++ [27880; 37322]%N ++ runes_of_ascii "
//
""" ++ [233]%N ++ runes_of_ascii "t" ++ [233]%N ++ runes_of_ascii """)
@tag(42 ) @leftPad	( '\x00' ) repeat u8x ,  repeat len , @tag(	255	)match calculatedFrom as Z9_ {  ""CRC32"" :	len,""packet"" : falsey, [65535,
42//x
]// @lengthOf(
: charz ,
} // @lengthOf(
,i8i8 ,match
i8i8
    as Foo // trailing space 
{ ""a\\"" : x , } , @leftPad
( ) char crc `say ""hi""` ,
} options {	Pad =
    zchar[ // trailing space 
0
]; pack="""" // c
;
    } root
    packet lengthOf
{ @leftPad ('0' ) A
    // trailing space 
    @calculatedFrom(
// " ++ [27880; 37322]%N ++ runes_of_ascii "
//
""\" ++ [233]%N ++ runes_of_ascii """),@calculatedFrom( ""abc""// c
)  repeat// c
char[] a1 ,repeat int  trueish  , @rightPad(
    '\x00'
    )// a // b
zchar[4294967296 ] _x ,repeat
stringy //
x	,@tag( 00  ) @lengthOf( int )  @tag( 0) u8	T	,
@tag(1 ) @lengthOf(
a1 ) @calculatedFrom( ""it's"" ) char[ 10 ] body ,  @lengthOf( f32a )
    rootA
@calculatedFrom(""{,}"" ), // " ++ [128512]%N ++ runes_of_ascii " emoji
} 	 ")).
Eval vm_compute in ("<<<T125>>>" ++ terms [mkTok 34 "root" 1 0 false; mkTok 35 "packet" 1 5 false; mkTok 44 "// c" 1 12 true; mkTok 42 "falsey" 2 0 false; mkTok 2 "{" 2 7 false; mkTok 42 "roots" 2 9 false; mkTok 2 "{" 2 15 false; mkTok 36 "repeat" 2 17 false; mkTok 42 "x_y_z" 2 24 false; mkTok 40 "," 2 30 false; mkTok 3 "}" 3 0 false; mkTok 40 "," 3 2 false; mkTok 16 "char[]" 3 4 false; mkTok 42 "T" 3 11 false; mkTok 43 (string_of_bytes [96; 10; 96]%N) 3 13 false; mkTok 40 "," 4 2 false; mkTok 12 "char[" 4 4 false; mkTok 30 "3" 4 10 false; mkTok 13 "]" 4 12 false; mkTok 42 "T" 4 13 false; mkTok 44 "/// triple" 4 14 true; mkTok 40 "," 5 0 false; mkTok 42 "zchar" 5 1 false; mkTok 2 "{" 5 7 false; mkTok 36 "repeat" 5 9 false; mkTok 14 "zchar[" 6 0 false; mkTok 30 "65535" 6 7 false; mkTok 13 "]" 6 13 false; mkTok 42 "rootA" 7 4 false; mkTok 43 (string_of_bytes [96; 116; 97; 98; 9; 104; 101; 114; 101; 96]%N) 7 11 false; mkTok 40 "," 8 4 false; mkTok 26 "int32" 8 6 false; mkTok 42 "leftPad" 8 12 false; mkTok 40 "," 8 20 false; mkTok 3 "}" 8 22 false; mkTok 40 "," 9 0 false; mkTok 44 "// packet A { u8 x, }" 10 0 true; mkTok 44 "// `tick` ""quote"" 'q'" 11 0 true; mkTok 36 "repeat" 12 0 false; mkTok 42 "Packet" 13 4 false; mkTok 44 (string_of_bytes [47; 47; 9; 116]%N) 14 4 true; mkTok 40 "," 15 4 false; mkTok 36 "repeat" 15 5 false; mkTok 12 "char[" 16 0 false; mkTok 30 "00" 16 6 false; mkTok 13 "]" 16 9 false; mkTok 42 "body" 16 11 false; mkTok 43 (string_of_bytes [96; 195; 169; 96]%N) 16 15 false; mkTok 40 "," 16 19 false; mkTok 9 "@tag(" 16 21 false; mkTok 30 "00" 17 0 false; mkTok 44 "// @lengthOf(" 17 2 true; mkTok 6 ")" 18 0 false; mkTok 42 "a1" 18 2 false; mkTok 42 "i64_" 18 5 false; mkTok 40 "," 19 0 false; mkTok 42 "i8i8" 19 2 false; mkTok 42 "BodyLength" 19 7 false; mkTok 43 "`{ , }`" 19 18 false; mkTok 40 "," 20 4 false; mkTok 38 "match" 20 6 false; mkTok 42 "crc" 21 4 false; mkTok 17 "as" 21 8 false; mkTok 42 "u8x" 21 11 false; mkTok 44 "// a // b" 22 0 true; mkTok 44 (string_of_bytes [47; 47; 9; 116]%N) 23 0 true; mkTok 2 "{" 24 0 false; mkTok 18 "[" 24 2 false; mkTok 44 "// `tick` ""quote"" 'q'" 25 4 true; mkTok 30 "0" 26 4 false; mkTok 13 "]" 26 6 false; mkTok 39 ":" 26 7 false; mkTok 42 "matchKey" 27 4 false; mkTok 40 "," 27 13 false; mkTok 18 "[" 27 15 false; mkTok 30 "0123456789" 27 17 false; mkTok 40 "," 27 27 false; mkTok 31 """a\\""" 28 0 false; mkTok 40 "," 29 0 false; mkTok 31 """abc""" 30 0 false; mkTok 13 "]" 30 6 false; mkTok 39 ":" 30 7 false; mkTok 42 "As" 30 8 false; mkTok 40 "," 30 11 false; mkTok 31 (string_of_bytes [34; 240; 159; 152; 128; 34]%N) 30 13 false; mkTok 39 ":" 30 17 false; mkTok 42 "tag" 30 19 false; mkTok 40 "," 30 22 false; mkTok 30 "7" 30 24 false; mkTok 39 ":" 30 26 false; mkTok 42 "u8x" 31 4 false; mkTok 40 "," 31 8 false; mkTok 30 "42" 31 10 false; mkTok 39 ":" 31 13 false; mkTok 42 "f32a" 31 15 false; mkTok 30 "00" 31 20 false; mkTok 39 ":" 31 23 false; mkTok 42 "options1" 31 24 false; mkTok 3 "}" 31 33 false; mkTok 44 "// trailing space " 31 35 true; mkTok 40 "," 32 0 false; mkTok 3 "}" 32 1 false; mkTok 35 "packet" 32 3 false; mkTok 44 (string_of_bytes [47; 47; 32; 230; 179; 168; 233; 135; 138]%N) 32 9 true; mkTok 42 "MetaDataX" 33 0 false; mkTok 2 "{" 33 9 false; mkTok 9 "@tag(" 33 10 false; mkTok 30 "42" 33 16 false; mkTok 6 ")" 33 18 false; mkTok 32 "@leftPad" 33 19 false; mkTok 8 "(" 33 28 false; mkTok 6 ")" 33 30 false; mkTok 32 "@leftPad" 33 32 false; mkTok 44 "//x" 34 4 true; mkTok 8 "(" 35 4 false; mkTok 6 ")" 35 6 false; mkTok 42 "body" 35 9 false; mkTok 42 "i64_" 35 14 false; mkTok 40 "," 35 19 false; mkTok 3 "}" 35 21 false; mkTok 35 "packet" 35 23 false; mkTok 42 "int" 35 30 false; mkTok 2 "{" 35 33 false; mkTok 5 "@calculatedFrom(" 35 35 false; mkTok 44 (string_of_bytes [47; 47; 32; 230; 179; 168; 233; 135; 138]%N) 36 0 true; mkTok 44 "//" 37 0 true; mkTok 31 (string_of_bytes [34; 195; 169; 116; 195; 169; 34]%N) 38 0 false; mkTok 6 ")" 38 5 false; mkTok 9 "@tag(" 39 0 false; mkTok 30 "42" 39 5 false; mkTok 6 ")" 39 8 false; mkTok 32 "@leftPad" 39 10 false; mkTok 8 "(" 39 19 false; mkTok 33 "'\x00'" 39 21 false; mkTok 6 ")" 39 28 false; mkTok 36 "repeat" 39 30 false; mkTok 42 "u8x" 39 37 false; mkTok 40 "," 39 41 false; mkTok 36 "repeat" 39 44 false; mkTok 42 "len" 39 51 false; mkTok 40 "," 39 55 false; mkTok 9 "@tag(" 39 57 false; mkTok 30 "255" 39 63 false; mkTok 6 ")" 39 67 false; mkTok 38 "match" 39 68 false; mkTok 42 "calculatedFrom" 39 74 false; mkTok 17 "as" 39 89 false; mkTok 42 "Z9_" 39 92 false; mkTok 2 "{" 39 96 false; mkTok 31 """CRC32""" 39 99 false; mkTok 39 ":" 39 107 false; mkTok 42 "len" 39 109 false; mkTok 40 "," 39 112 false; mkTok 31 """packet""" 39 113 false; mkTok 39 ":" 39 122 false; mkTok 42 "falsey" 39 124 false; mkTok 40 "," 39 130 false; mkTok 18 "[" 39 132 false; mkTok 30 "65535" 39 133 false; mkTok 40 "," 39 138 false; mkTok 30 "42" 40 0 false; mkTok 44 "//x" 40 2 true; mkTok 13 "]" 41 0 false; mkTok 44 "// @lengthOf(" 41 1 true; mkTok 39 ":" 42 0 false; mkTok 42 "charz" 42 2 false; mkTok 40 "," 42 8 false; mkTok 3 "}" 43 0 false; mkTok 44 "// @lengthOf(" 43 2 true; mkTok 40 "," 44 0 false; mkTok 42 "i8i8" 44 1 false; mkTok 40 "," 44 6 false; mkTok 38 "match" 44 7 false; mkTok 42 "i8i8" 45 0 false; mkTok 17 "as" 46 4 false; mkTok 42 "Foo" 46 7 false; mkTok 44 "// trailing space " 46 11 true; mkTok 2 "{" 47 0 false; mkTok 31 """a\\""" 47 2 false; mkTok 39 ":" 47 8 false; mkTok 42 "x" 47 10 false; mkTok 40 "," 47 12 false; mkTok 3 "}" 47 14 false; mkTok 40 "," 47 16 false; mkTok 32 "@leftPad" 47 18 false; mkTok 8 "(" 48 0 false; mkTok 6 ")" 48 2 false; mkTok 19 "char" 48 4 false; mkTok 42 "crc" 48 9 false; mkTok 43 "`say ""hi""`" 48 13 false; mkTok 40 "," 48 24 false; mkTok 3 "}" 49 0 false; mkTok 1 "options" 49 2 false; mkTok 2 "{" 49 10 false; mkTok 42 "Pad" 49 12 false; mkTok 4 "=" 49 16 false; mkTok 14 "zchar[" 50 4 false; mkTok 44 "// trailing space " 50 11 true; mkTok 30 "0" 51 0 false; mkTok 13 "]" 52 0 false; mkTok 41 ";" 52 1 false; mkTok 42 "pack" 52 3 false; mkTok 4 "=" 52 7 false; mkTok 31 """""" 52 8 false; mkTok 44 "// c" 52 11 true; mkTok 41 ";" 53 0 false; mkTok 3 "}" 54 4 false; mkTok 34 "root" 54 6 false; mkTok 35 "packet" 55 4 false; mkTok 42 "lengthOf" 55 11 false; mkTok 2 "{" 56 0 false; mkTok 32 "@leftPad" 56 2 false; mkTok 8 "(" 56 11 false; mkTok 33 "'0'" 56 12 false; mkTok 6 ")" 56 16 false; mkTok 42 "A" 56 18 false; mkTok 44 "// trailing space " 57 4 true; mkTok 5 "@calculatedFrom(" 58 4 false; mkTok 44 (string_of_bytes [47; 47; 32; 230; 179; 168; 233; 135; 138]%N) 59 0 true; mkTok 44 "//" 60 0 true; mkTok 31 (string_of_bytes [34; 92; 195; 169; 34]%N) 61 0 false; mkTok 6 ")" 61 4 false; mkTok 40 "," 61 5 false; mkTok 5 "@calculatedFrom(" 61 6 false; mkTok 31 """abc""" 61 23 false; mkTok 44 "// c" 61 28 true; mkTok 6 ")" 62 0 false; mkTok 36 "repeat" 62 3 false; mkTok 44 "// c" 62 9 true; mkTok 16 "char[]" 63 0 false; mkTok 42 "a1" 63 7 false; mkTok 40 "," 63 10 false; mkTok 36 "repeat" 63 11 false; mkTok 42 "int" 63 18 false; mkTok 42 "trueish" 63 23 false; mkTok 40 "," 63 32 false; mkTok 32 "@rightPad" 63 34 false; mkTok 8 "(" 63 43 false; mkTok 33 "'\x00'" 64 4 false; mkTok 6 ")" 65 4 false; mkTok 44 "// a // b" 65 5 true; mkTok 14 "zchar[" 66 0 false; mkTok 30 "4294967296" 66 6 false; mkTok 13 "]" 66 17 false; mkTok 42 "_x" 66 19 false; mkTok 40 "," 66 22 false; mkTok 36 "repeat" 66 23 false; mkTok 42 "stringy" 67 0 false; mkTok 44 "//" 67 8 true; mkTok 42 "x" 68 0 false; mkTok 40 "," 68 2 false; mkTok 9 "@tag(" 68 3 false; mkTok 30 "00" 68 9 false; mkTok 6 ")" 68 13 false; mkTok 7 "@lengthOf(" 68 15 false; mkTok 42 "int" 68 26 false; mkTok 6 ")" 68 30 false; mkTok 9 "@tag(" 68 33 false; mkTok 30 "0" 68 39 false; mkTok 6 ")" 68 40 false; mkTok 20 "u8" 68 42 false; mkTok 42 "T" 68 45 false; mkTok 40 "," 68 47 false; mkTok 9 "@tag(" 69 0 false; mkTok 30 "1" 69 5 false; mkTok 6 ")" 69 7 false; mkTok 7 "@lengthOf(" 69 9 false; mkTok 42 "a1" 70 0 false; mkTok 6 ")" 70 3 false; mkTok 5 "@calculatedFrom(" 70 5 false; mkTok 31 """it's""" 70 22 false; mkTok 6 ")" 70 29 false; mkTok 12 "char[" 70 31 false; mkTok 30 "10" 70 37 false; mkTok 13 "]" 70 40 false; mkTok 42 "body" 70 42 false; mkTok 40 "," 70 47 false; mkTok 7 "@lengthOf(" 70 50 false; mkTok 42 "f32a" 70 61 false; mkTok 6 ")" 70 66 false; mkTok 42 "rootA" 71 4 false; mkTok 5 "@calculatedFrom(" 72 0 false; mkTok 31 """{,}""" 72 16 false; mkTok 6 ")" 72 22 false; mkTok 40 "," 72 23 false; mkTok 44 (string_of_bytes [47; 47; 32; 240; 159; 152; 128; 32; 101; 109; 111; 106; 105]%N) 72 25 true; mkTok 3 "}" 73 0 false; mkTok 0 "<EOF>" 73 4 false] (mkPacket (mkPtok 34 "root" 1 0 0) (Some (mkPtok 3 "}" 73 0 286)) [(DPacket (mkPacketDef (mkSpan (mkPtok 34 "root" 1 0 0) (mkPtok 3 "}" 32 1 101)) (Some (mkPtok 34 "root" 1 0 0)) (mkPtok 35 "packet" 1 5 1) (mkPtok 42 "falsey" 2 0 3) (mkPtok 2 "{" 2 7 4) [(mkFieldWithAttr (mkSpan (mkPtok 42 "roots" 2 9 5) (mkPtok 40 "," 3 2 11)) [] (InerObjectField (mkSpan (mkPtok 42 "roots" 2 9 5) (mkPtok 40 "," 3 2 11)) None (InerObjectDecl (mkSpan (mkPtok 42 "roots" 2 9 5) (mkPtok 3 "}" 3 0 10)) (mkPtok 42 "roots" 2 9 5) (mkPtok 2 "{" 2 15 6) [(ObjectField (mkSpan (mkPtok 36 "repeat" 2 17 7) (mkPtok 40 "," 2 30 9)) (Some (mkPtok 36 "repeat" 2 17 7)) (mkPtok 42 "x_y_z" 2 24 8) None None (mkPtok 40 "," 2 30 9))] (mkPtok 3 "}" 3 0 10)) (mkPtok 40 "," 3 2 11))); (mkFieldWithAttr (mkSpan (mkPtok 16 "char[]" 3 4 12) (mkPtok 40 "," 4 2 15)) [] (MetaField (mkSpan (mkPtok 16 "char[]" 3 4 12) (mkPtok 40 "," 4 2 15)) None (mkMetaDecl (mkSpan (mkPtok 16 "char[]" 3 4 12) (mkPtok 40 "," 4 2 15)) (TyDynamic (mkSpan (mkPtok 16 "char[]" 3 4 12) (mkPtok 16 "char[]" 3 4 12)) (mkDynamicString (mkSpan (mkPtok 16 "char[]" 3 4 12) (mkPtok 16 "char[]" 3 4 12)) (mkPtok 16 "char[]" 3 4 12))) (mkPtok 42 "T" 3 11 13) (Some (mkPtok 43 (string_of_bytes [96; 10; 96]%N) 3 13 14)) (mkPtok 40 "," 4 2 15)))); (mkFieldWithAttr (mkSpan (mkPtok 12 "char[" 4 4 16) (mkPtok 40 "," 5 0 21)) [] (MetaField (mkSpan (mkPtok 12 "char[" 4 4 16) (mkPtok 40 "," 5 0 21)) None (mkMetaDecl (mkSpan (mkPtok 12 "char[" 4 4 16) (mkPtok 40 "," 5 0 21)) (TyFixed (mkSpan (mkPtok 12 "char[" 4 4 16) (mkPtok 13 "]" 4 12 18)) (mkFixedString (mkSpan (mkPtok 12 "char[" 4 4 16) (mkPtok 13 "]" 4 12 18)) (mkPtok 12 "char[" 4 4 16) (mkPtok 30 "3" 4 10 17) (mkPtok 13 "]" 4 12 18))) (mkPtok 42 "T" 4 13 19) None (mkPtok 40 "," 5 0 21)))); (mkFieldWithAttr (mkSpan (mkPtok 42 "zchar" 5 1 22) (mkPtok 40 "," 9 0 35)) [] (InerObjectField (mkSpan (mkPtok 42 "zchar" 5 1 22) (mkPtok 40 "," 9 0 35)) None (InerObjectDecl (mkSpan (mkPtok 42 "zchar" 5 1 22) (mkPtok 3 "}" 8 22 34)) (mkPtok 42 "zchar" 5 1 22) (mkPtok 2 "{" 5 7 23) [(MetaField (mkSpan (mkPtok 36 "repeat" 5 9 24) (mkPtok 40 "," 8 4 30)) (Some (mkPtok 36 "repeat" 5 9 24)) (mkMetaDecl (mkSpan (mkPtok 14 "zchar[" 6 0 25) (mkPtok 40 "," 8 4 30)) (TyFixed (mkSpan (mkPtok 14 "zchar[" 6 0 25) (mkPtok 13 "]" 6 13 27)) (mkFixedString (mkSpan (mkPtok 14 "zchar[" 6 0 25) (mkPtok 13 "]" 6 13 27)) (mkPtok 14 "zchar[" 6 0 25) (mkPtok 30 "65535" 6 7 26) (mkPtok 13 "]" 6 13 27))) (mkPtok 42 "rootA" 7 4 28) (Some (mkPtok 43 (string_of_bytes [96; 116; 97; 98; 9; 104; 101; 114; 101; 96]%N) 7 11 29)) (mkPtok 40 "," 8 4 30))); (MetaField (mkSpan (mkPtok 26 "int32" 8 6 31) (mkPtok 40 "," 8 20 33)) None (mkMetaDecl (mkSpan (mkPtok 26 "int32" 8 6 31) (mkPtok 40 "," 8 20 33)) (TyBasic (mkSpan (mkPtok 26 "int32" 8 6 31) (mkPtok 26 "int32" 8 6 31)) (mkBasicType (mkSpan (mkPtok 26 "int32" 8 6 31) (mkPtok 26 "int32" 8 6 31)) (mkPtok 26 "int32" 8 6 31))) (mkPtok 42 "leftPad" 8 12 32) None (mkPtok 40 "," 8 20 33)))] (mkPtok 3 "}" 8 22 34)) (mkPtok 40 "," 9 0 35))); (mkFieldWithAttr (mkSpan (mkPtok 36 "repeat" 12 0 38) (mkPtok 40 "," 15 4 41)) [] (ObjectField (mkSpan (mkPtok 36 "repeat" 12 0 38) (mkPtok 40 "," 15 4 41)) (Some (mkPtok 36 "repeat" 12 0 38)) (mkPtok 42 "Packet" 13 4 39) None None (mkPtok 40 "," 15 4 41))); (mkFieldWithAttr (mkSpan (mkPtok 36 "repeat" 15 5 42) (mkPtok 40 "," 16 19 48)) [] (MetaField (mkSpan (mkPtok 36 "repeat" 15 5 42) (mkPtok 40 "," 16 19 48)) (Some (mkPtok 36 "repeat" 15 5 42)) (mkMetaDecl (mkSpan (mkPtok 12 "char[" 16 0 43) (mkPtok 40 "," 16 19 48)) (TyFixed (mkSpan (mkPtok 12 "char[" 16 0 43) (mkPtok 13 "]" 16 9 45)) (mkFixedString (mkSpan (mkPtok 12 "char[" 16 0 43) (mkPtok 13 "]" 16 9 45)) (mkPtok 12 "char[" 16 0 43) (mkPtok 30 "00" 16 6 44) (mkPtok 13 "]" 16 9 45))) (mkPtok 42 "body" 16 11 46) (Some (mkPtok 43 (string_of_bytes [96; 195; 169; 96]%N) 16 15 47)) (mkPtok 40 "," 16 19 48)))); (mkFieldWithAttr (mkSpan (mkPtok 9 "@tag(" 16 21 49) (mkPtok 40 "," 19 0 55)) [(FATag (mkSpan (mkPtok 9 "@tag(" 16 21 49) (mkPtok 6 ")" 18 0 52)) (mkTagAttr (mkSpan (mkPtok 9 "@tag(" 16 21 49) (mkPtok 6 ")" 18 0 52)) (mkPtok 9 "@tag(" 16 21 49) (mkPtok 30 "00" 17 0 50) (mkPtok 6 ")" 18 0 52)))] (ObjectField (mkSpan (mkPtok 42 "a1" 18 2 53) (mkPtok 40 "," 19 0 55)) None (mkPtok 42 "a1" 18 2 53) (Some (mkPtok 42 "i64_" 18 5 54)) None (mkPtok 40 "," 19 0 55))); (mkFieldWithAttr (mkSpan (mkPtok 42 "i8i8" 19 2 56) (mkPtok 40 "," 20 4 59)) [] (ObjectField (mkSpan (mkPtok 42 "i8i8" 19 2 56) (mkPtok 40 "," 20 4 59)) None (mkPtok 42 "i8i8" 19 2 56) (Some (mkPtok 42 "BodyLength" 19 7 57)) (Some (mkPtok 43 "`{ , }`" 19 18 58)) (mkPtok 40 "," 20 4 59))); (mkFieldWithAttr (mkSpan (mkPtok 38 "match" 20 6 60) (mkPtok 40 "," 32 0 100)) [] (MatchField (mkSpan (mkPtok 38 "match" 20 6 60) (mkPtok 40 "," 32 0 100)) (mkMatchFieldDecl (mkSpan (mkPtok 38 "match" 20 6 60) (mkPtok 3 "}" 31 33 98)) (mkPtok 38 "match" 20 6 60) (mkPtok 42 "crc" 21 4 61) (mkPtok 17 "as" 21 8 62) (mkPtok 42 "u8x" 21 11 63) (mkPtok 2 "{" 24 0 66) [(mkMatchPair (mkSpan (mkPtok 18 "[" 24 2 67) (mkPtok 40 "," 27 13 73)) (MKList (mkKeyList (mkSpan (mkPtok 18 "[" 24 2 67) (mkPtok 13 "]" 26 6 70)) (mkPtok 18 "[" 24 2 67) (mkPtok 30 "0" 26 4 69) [] (mkPtok 13 "]" 26 6 70))) (mkPtok 39 ":" 26 7 71) (mkPtok 42 "matchKey" 27 4 72) (Some (mkPtok 40 "," 27 13 73))); (mkMatchPair (mkSpan (mkPtok 18 "[" 27 15 74) (mkPtok 40 "," 30 11 83)) (MKList (mkKeyList (mkSpan (mkPtok 18 "[" 27 15 74) (mkPtok 13 "]" 30 6 80)) (mkPtok 18 "[" 27 15 74) (mkPtok 30 "0123456789" 27 17 75) [((mkPtok 40 "," 27 27 76), (mkPtok 31 """a\\""" 28 0 77)); ((mkPtok 40 "," 29 0 78), (mkPtok 31 """abc""" 30 0 79))] (mkPtok 13 "]" 30 6 80))) (mkPtok 39 ":" 30 7 81) (mkPtok 42 "As" 30 8 82) (Some (mkPtok 40 "," 30 11 83))); (mkMatchPair (mkSpan (mkPtok 31 (string_of_bytes [34; 240; 159; 152; 128; 34]%N) 30 13 84) (mkPtok 40 "," 30 22 87)) (MKString (mkPtok 31 (string_of_bytes [34; 240; 159; 152; 128; 34]%N) 30 13 84)) (mkPtok 39 ":" 30 17 85) (mkPtok 42 "tag" 30 19 86) (Some (mkPtok 40 "," 30 22 87))); (mkMatchPair (mkSpan (mkPtok 30 "7" 30 24 88) (mkPtok 40 "," 31 8 91)) (MKDigits (mkPtok 30 "7" 30 24 88)) (mkPtok 39 ":" 30 26 89) (mkPtok 42 "u8x" 31 4 90) (Some (mkPtok 40 "," 31 8 91))); (mkMatchPair (mkSpan (mkPtok 30 "42" 31 10 92) (mkPtok 42 "f32a" 31 15 94)) (MKDigits (mkPtok 30 "42" 31 10 92)) (mkPtok 39 ":" 31 13 93) (mkPtok 42 "f32a" 31 15 94) None); (mkMatchPair (mkSpan (mkPtok 30 "00" 31 20 95) (mkPtok 42 "options1" 31 24 97)) (MKDigits (mkPtok 30 "00" 31 20 95)) (mkPtok 39 ":" 31 23 96) (mkPtok 42 "options1" 31 24 97) None)] (mkPtok 3 "}" 31 33 98)) (mkPtok 40 "," 32 0 100)))] (mkPtok 3 "}" 32 1 101))); (DPacket (mkPacketDef (mkSpan (mkPtok 35 "packet" 32 3 102) (mkPtok 3 "}" 35 21 119)) None (mkPtok 35 "packet" 32 3 102) (mkPtok 42 "MetaDataX" 33 0 104) (mkPtok 2 "{" 33 9 105) [(mkFieldWithAttr (mkSpan (mkPtok 9 "@tag(" 33 10 106) (mkPtok 40 "," 35 19 118)) [(FATag (mkSpan (mkPtok 9 "@tag(" 33 10 106) (mkPtok 6 ")" 33 18 108)) (mkTagAttr (mkSpan (mkPtok 9 "@tag(" 33 10 106) (mkPtok 6 ")" 33 18 108)) (mkPtok 9 "@tag(" 33 10 106) (mkPtok 30 "42" 33 16 107) (mkPtok 6 ")" 33 18 108))); (FAPadding (mkSpan (mkPtok 32 "@leftPad" 33 19 109) (mkPtok 6 ")" 33 30 111)) (mkPaddingAttr (mkSpan (mkPtok 32 "@leftPad" 33 19 109) (mkPtok 6 ")" 33 30 111)) (mkPtok 32 "@leftPad" 33 19 109) (mkPtok 8 "(" 33 28 110) None (mkPtok 6 ")" 33 30 111))); (FAPadding (mkSpan (mkPtok 32 "@leftPad" 33 32 112) (mkPtok 6 ")" 35 6 115)) (mkPaddingAttr (mkSpan (mkPtok 32 "@leftPad" 33 32 112) (mkPtok 6 ")" 35 6 115)) (mkPtok 32 "@leftPad" 33 32 112) (mkPtok 8 "(" 35 4 114) None (mkPtok 6 ")" 35 6 115)))] (ObjectField (mkSpan (mkPtok 42 "body" 35 9 116) (mkPtok 40 "," 35 19 118)) None (mkPtok 42 "body" 35 9 116) (Some (mkPtok 42 "i64_" 35 14 117)) None (mkPtok 40 "," 35 19 118)))] (mkPtok 3 "}" 35 21 119))); (DPacket (mkPacketDef (mkSpan (mkPtok 35 "packet" 35 23 120) (mkPtok 3 "}" 49 0 191)) None (mkPtok 35 "packet" 35 23 120) (mkPtok 42 "int" 35 30 121) (mkPtok 2 "{" 35 33 122) [(mkFieldWithAttr (mkSpan (mkPtok 5 "@calculatedFrom(" 35 35 123) (mkPtok 40 "," 39 41 137)) [(FACalculatedFrom (mkSpan (mkPtok 5 "@calculatedFrom(" 35 35 123) (mkPtok 6 ")" 38 5 127)) (mkCalculatedFrom (mkSpan (mkPtok 5 "@calculatedFrom(" 35 35 123) (mkPtok 6 ")" 38 5 127)) (mkPtok 5 "@calculatedFrom(" 35 35 123) (mkPtok 31 (string_of_bytes [34; 195; 169; 116; 195; 169; 34]%N) 38 0 126) (mkPtok 6 ")" 38 5 127))); (FATag (mkSpan (mkPtok 9 "@tag(" 39 0 128) (mkPtok 6 ")" 39 8 130)) (mkTagAttr (mkSpan (mkPtok 9 "@tag(" 39 0 128) (mkPtok 6 ")" 39 8 130)) (mkPtok 9 "@tag(" 39 0 128) (mkPtok 30 "42" 39 5 129) (mkPtok 6 ")" 39 8 130))); (FAPadding (mkSpan (mkPtok 32 "@leftPad" 39 10 131) (mkPtok 6 ")" 39 28 134)) (mkPaddingAttr (mkSpan (mkPtok 32 "@leftPad" 39 10 131) (mkPtok 6 ")" 39 28 134)) (mkPtok 32 "@leftPad" 39 10 131) (mkPtok 8 "(" 39 19 132) (Some (mkPtok 33 "'\x00'" 39 21 133)) (mkPtok 6 ")" 39 28 134)))] (ObjectField (mkSpan (mkPtok 36 "repeat" 39 30 135) (mkPtok 40 "," 39 41 137)) (Some (mkPtok 36 "repeat" 39 30 135)) (mkPtok 42 "u8x" 39 37 136) None None (mkPtok 40 "," 39 41 137))); (mkFieldWithAttr (mkSpan (mkPtok 36 "repeat" 39 44 138) (mkPtok 40 "," 39 55 140)) [] (ObjectField (mkSpan (mkPtok 36 "repeat" 39 44 138) (mkPtok 40 "," 39 55 140)) (Some (mkPtok 36 "repeat" 39 44 138)) (mkPtok 42 "len" 39 51 139) None None (mkPtok 40 "," 39 55 140))); (mkFieldWithAttr (mkSpan (mkPtok 9 "@tag(" 39 57 141) (mkPtok 40 "," 44 0 169)) [(FATag (mkSpan (mkPtok 9 "@tag(" 39 57 141) (mkPtok 6 ")" 39 67 143)) (mkTagAttr (mkSpan (mkPtok 9 "@tag(" 39 57 141) (mkPtok 6 ")" 39 67 143)) (mkPtok 9 "@tag(" 39 57 141) (mkPtok 30 "255" 39 63 142) (mkPtok 6 ")" 39 67 143)))] (MatchField (mkSpan (mkPtok 38 "match" 39 68 144) (mkPtok 40 "," 44 0 169)) (mkMatchFieldDecl (mkSpan (mkPtok 38 "match" 39 68 144) (mkPtok 3 "}" 43 0 167)) (mkPtok 38 "match" 39 68 144) (mkPtok 42 "calculatedFrom" 39 74 145) (mkPtok 17 "as" 39 89 146) (mkPtok 42 "Z9_" 39 92 147) (mkPtok 2 "{" 39 96 148) [(mkMatchPair (mkSpan (mkPtok 31 """CRC32""" 39 99 149) (mkPtok 40 "," 39 112 152)) (MKString (mkPtok 31 """CRC32""" 39 99 149)) (mkPtok 39 ":" 39 107 150) (mkPtok 42 "len" 39 109 151) (Some (mkPtok 40 "," 39 112 152))); (mkMatchPair (mkSpan (mkPtok 31 """packet""" 39 113 153) (mkPtok 40 "," 39 130 156)) (MKString (mkPtok 31 """packet""" 39 113 153)) (mkPtok 39 ":" 39 122 154) (mkPtok 42 "falsey" 39 124 155) (Some (mkPtok 40 "," 39 130 156))); (mkMatchPair (mkSpan (mkPtok 18 "[" 39 132 157) (mkPtok 40 "," 42 8 166)) (MKList (mkKeyList (mkSpan (mkPtok 18 "[" 39 132 157) (mkPtok 13 "]" 41 0 162)) (mkPtok 18 "[" 39 132 157) (mkPtok 30 "65535" 39 133 158) [((mkPtok 40 "," 39 138 159), (mkPtok 30 "42" 40 0 160))] (mkPtok 13 "]" 41 0 162))) (mkPtok 39 ":" 42 0 164) (mkPtok 42 "charz" 42 2 165) (Some (mkPtok 40 "," 42 8 166)))] (mkPtok 3 "}" 43 0 167)) (mkPtok 40 "," 44 0 169))); (mkFieldWithAttr (mkSpan (mkPtok 42 "i8i8" 44 1 170) (mkPtok 40 "," 44 6 171)) [] (ObjectField (mkSpan (mkPtok 42 "i8i8" 44 1 170) (mkPtok 40 "," 44 6 171)) None (mkPtok 42 "i8i8" 44 1 170) None None (mkPtok 40 "," 44 6 171))); (mkFieldWithAttr (mkSpan (mkPtok 38 "match" 44 7 172) (mkPtok 40 "," 47 16 183)) [] (MatchField (mkSpan (mkPtok 38 "match" 44 7 172) (mkPtok 40 "," 47 16 183)) (mkMatchFieldDecl (mkSpan (mkPtok 38 "match" 44 7 172) (mkPtok 3 "}" 47 14 182)) (mkPtok 38 "match" 44 7 172) (mkPtok 42 "i8i8" 45 0 173) (mkPtok 17 "as" 46 4 174) (mkPtok 42 "Foo" 46 7 175) (mkPtok 2 "{" 47 0 177) [(mkMatchPair (mkSpan (mkPtok 31 """a\\""" 47 2 178) (mkPtok 40 "," 47 12 181)) (MKString (mkPtok 31 """a\\""" 47 2 178)) (mkPtok 39 ":" 47 8 179) (mkPtok 42 "x" 47 10 180) (Some (mkPtok 40 "," 47 12 181)))] (mkPtok 3 "}" 47 14 182)) (mkPtok 40 "," 47 16 183))); (mkFieldWithAttr (mkSpan (mkPtok 32 "@leftPad" 47 18 184) (mkPtok 40 "," 48 24 190)) [(FAPadding (mkSpan (mkPtok 32 "@leftPad" 47 18 184) (mkPtok 6 ")" 48 2 186)) (mkPaddingAttr (mkSpan (mkPtok 32 "@leftPad" 47 18 184) (mkPtok 6 ")" 48 2 186)) (mkPtok 32 "@leftPad" 47 18 184) (mkPtok 8 "(" 48 0 185) None (mkPtok 6 ")" 48 2 186)))] (MetaField (mkSpan (mkPtok 19 "char" 48 4 187) (mkPtok 40 "," 48 24 190)) None (mkMetaDecl (mkSpan (mkPtok 19 "char" 48 4 187) (mkPtok 40 "," 48 24 190)) (TyBasic (mkSpan (mkPtok 19 "char" 48 4 187) (mkPtok 19 "char" 48 4 187)) (mkBasicType (mkSpan (mkPtok 19 "char" 48 4 187) (mkPtok 19 "char" 48 4 187)) (mkPtok 19 "char" 48 4 187))) (mkPtok 42 "crc" 48 9 188) (Some (mkPtok 43 "`say ""hi""`" 48 13 189)) (mkPtok 40 "," 48 24 190))))] (mkPtok 3 "}" 49 0 191))); (DOption (mkOptionDef (mkSpan (mkPtok 1 "options" 49 2 192) (mkPtok 3 "}" 54 4 206)) (mkPtok 1 "options" 49 2 192) (mkPtok 2 "{" 49 10 193) [(mkOptionDecl (mkSpan (mkPtok 42 "Pad" 49 12 194) (mkPtok 41 ";" 52 1 200)) (mkPtok 42 "Pad" 49 12 194) (mkPtok 4 "=" 49 16 195) (VType (mkSpan (mkPtok 14 "zchar[" 50 4 196) (mkPtok 13 "]" 52 0 199)) (TyFixed (mkSpan (mkPtok 14 "zchar[" 50 4 196) (mkPtok 13 "]" 52 0 199)) (mkFixedString (mkSpan (mkPtok 14 "zchar[" 50 4 196) (mkPtok 13 "]" 52 0 199)) (mkPtok 14 "zchar[" 50 4 196) (mkPtok 30 "0" 51 0 198) (mkPtok 13 "]" 52 0 199)))) (Some (mkPtok 41 ";" 52 1 200))); (mkOptionDecl (mkSpan (mkPtok 42 "pack" 52 3 201) (mkPtok 41 ";" 53 0 205)) (mkPtok 42 "pack" 52 3 201) (mkPtok 4 "=" 52 7 202) (VString (mkSpan (mkPtok 31 """""" 52 8 203) (mkPtok 31 """""" 52 8 203)) (mkPtok 31 """""" 52 8 203)) (Some (mkPtok 41 ";" 53 0 205)))] (mkPtok 3 "}" 54 4 206))); (DPacket (mkPacketDef (mkSpan (mkPtok 34 "root" 54 6 207) (mkPtok 3 "}" 73 0 286)) (Some (mkPtok 34 "root" 54 6 207)) (mkPtok 35 "packet" 55 4 208) (mkPtok 42 "lengthOf" 55 11 209) (mkPtok 2 "{" 56 0 210) [(mkFieldWithAttr (mkSpan (mkPtok 32 "@leftPad" 56 2 211) (mkPtok 40 "," 61 5 222)) [(FAPadding (mkSpan (mkPtok 32 "@leftPad" 56 2 211) (mkPtok 6 ")" 56 16 214)) (mkPaddingAttr (mkSpan (mkPtok 32 "@leftPad" 56 2 211) (mkPtok 6 ")" 56 16 214)) (mkPtok 32 "@leftPad" 56 2 211) (mkPtok 8 "(" 56 11 212) (Some (mkPtok 33 "'0'" 56 12 213)) (mkPtok 6 ")" 56 16 214)))] (CheckSumField (mkSpan (mkPtok 42 "A" 56 18 215) (mkPtok 40 "," 61 5 222)) (mkChecksumFieldDecl (mkSpan (mkPtok 42 "A" 56 18 215) (mkPtok 40 "," 61 5 222)) None (mkPtok 42 "A" 56 18 215) (mkCalculatedFrom (mkSpan (mkPtok 5 "@calculatedFrom(" 58 4 217) (mkPtok 6 ")" 61 4 221)) (mkPtok 5 "@calculatedFrom(" 58 4 217) (mkPtok 31 (string_of_bytes [34; 92; 195; 169; 34]%N) 61 0 220) (mkPtok 6 ")" 61 4 221)) None (mkPtok 40 "," 61 5 222)))); (mkFieldWithAttr (mkSpan (mkPtok 5 "@calculatedFrom(" 61 6 223) (mkPtok 40 "," 63 10 231)) [(FACalculatedFrom (mkSpan (mkPtok 5 "@calculatedFrom(" 61 6 223) (mkPtok 6 ")" 62 0 226)) (mkCalculatedFrom (mkSpan (mkPtok 5 "@calculatedFrom(" 61 6 223) (mkPtok 6 ")" 62 0 226)) (mkPtok 5 "@calculatedFrom(" 61 6 223) (mkPtok 31 """abc""" 61 23 224) (mkPtok 6 ")" 62 0 226)))] (MetaField (mkSpan (mkPtok 36 "repeat" 62 3 227) (mkPtok 40 "," 63 10 231)) (Some (mkPtok 36 "repeat" 62 3 227)) (mkMetaDecl (mkSpan (mkPtok 16 "char[]" 63 0 229) (mkPtok 40 "," 63 10 231)) (TyDynamic (mkSpan (mkPtok 16 "char[]" 63 0 229) (mkPtok 16 "char[]" 63 0 229)) (mkDynamicString (mkSpan (mkPtok 16 "char[]" 63 0 229) (mkPtok 16 "char[]" 63 0 229)) (mkPtok 16 "char[]" 63 0 229))) (mkPtok 42 "a1" 63 7 230) None (mkPtok 40 "," 63 10 231)))); (mkFieldWithAttr (mkSpan (mkPtok 36 "repeat" 63 11 232) (mkPtok 40 "," 63 32 235)) [] (ObjectField (mkSpan (mkPtok 36 "repeat" 63 11 232) (mkPtok 40 "," 63 32 235)) (Some (mkPtok 36 "repeat" 63 11 232)) (mkPtok 42 "int" 63 18 233) (Some (mkPtok 42 "trueish" 63 23 234)) None (mkPtok 40 "," 63 32 235))); (mkFieldWithAttr (mkSpan (mkPtok 32 "@rightPad" 63 34 236) (mkPtok 40 "," 66 22 245)) [(FAPadding (mkSpan (mkPtok 32 "@rightPad" 63 34 236) (mkPtok 6 ")" 65 4 239)) (mkPaddingAttr (mkSpan (mkPtok 32 "@rightPad" 63 34 236) (mkPtok 6 ")" 65 4 239)) (mkPtok 32 "@rightPad" 63 34 236) (mkPtok 8 "(" 63 43 237) (Some (mkPtok 33 "'\x00'" 64 4 238)) (mkPtok 6 ")" 65 4 239)))] (MetaField (mkSpan (mkPtok 14 "zchar[" 66 0 241) (mkPtok 40 "," 66 22 245)) None (mkMetaDecl (mkSpan (mkPtok 14 "zchar[" 66 0 241) (mkPtok 40 "," 66 22 245)) (TyFixed (mkSpan (mkPtok 14 "zchar[" 66 0 241) (mkPtok 13 "]" 66 17 243)) (mkFixedString (mkSpan (mkPtok 14 "zchar[" 66 0 241) (mkPtok 13 "]" 66 17 243)) (mkPtok 14 "zchar[" 66 0 241) (mkPtok 30 "4294967296" 66 6 242) (mkPtok 13 "]" 66 17 243))) (mkPtok 42 "_x" 66 19 244) None (mkPtok 40 "," 66 22 245)))); (mkFieldWithAttr (mkSpan (mkPtok 36 "repeat" 66 23 246) (mkPtok 40 "," 68 2 250)) [] (ObjectField (mkSpan (mkPtok 36 "repeat" 66 23 246) (mkPtok 40 "," 68 2 250)) (Some (mkPtok 36 "repeat" 66 23 246)) (mkPtok 42 "stringy" 67 0 247) (Some (mkPtok 42 "x" 68 0 249)) None (mkPtok 40 "," 68 2 250))); (mkFieldWithAttr (mkSpan (mkPtok 9 "@tag(" 68 3 251) (mkPtok 40 "," 68 47 262)) [(FATag (mkSpan (mkPtok 9 "@tag(" 68 3 251) (mkPtok 6 ")" 68 13 253)) (mkTagAttr (mkSpan (mkPtok 9 "@tag(" 68 3 251) (mkPtok 6 ")" 68 13 253)) (mkPtok 9 "@tag(" 68 3 251) (mkPtok 30 "00" 68 9 252) (mkPtok 6 ")" 68 13 253))); (FALengthOf (mkSpan (mkPtok 7 "@lengthOf(" 68 15 254) (mkPtok 6 ")" 68 30 256)) (mkLengthOf (mkSpan (mkPtok 7 "@lengthOf(" 68 15 254) (mkPtok 6 ")" 68 30 256)) (mkPtok 7 "@lengthOf(" 68 15 254) (mkPtok 42 "int" 68 26 255) (mkPtok 6 ")" 68 30 256))); (FATag (mkSpan (mkPtok 9 "@tag(" 68 33 257) (mkPtok 6 ")" 68 40 259)) (mkTagAttr (mkSpan (mkPtok 9 "@tag(" 68 33 257) (mkPtok 6 ")" 68 40 259)) (mkPtok 9 "@tag(" 68 33 257) (mkPtok 30 "0" 68 39 258) (mkPtok 6 ")" 68 40 259)))] (MetaField (mkSpan (mkPtok 20 "u8" 68 42 260) (mkPtok 40 "," 68 47 262)) None (mkMetaDecl (mkSpan (mkPtok 20 "u8" 68 42 260) (mkPtok 40 "," 68 47 262)) (TyBasic (mkSpan (mkPtok 20 "u8" 68 42 260) (mkPtok 20 "u8" 68 42 260)) (mkBasicType (mkSpan (mkPtok 20 "u8" 68 42 260) (mkPtok 20 "u8" 68 42 260)) (mkPtok 20 "u8" 68 42 260))) (mkPtok 42 "T" 68 45 261) None (mkPtok 40 "," 68 47 262)))); (mkFieldWithAttr (mkSpan (mkPtok 9 "@tag(" 69 0 263) (mkPtok 40 "," 70 47 276)) [(FATag (mkSpan (mkPtok 9 "@tag(" 69 0 263) (mkPtok 6 ")" 69 7 265)) (mkTagAttr (mkSpan (mkPtok 9 "@tag(" 69 0 263) (mkPtok 6 ")" 69 7 265)) (mkPtok 9 "@tag(" 69 0 263) (mkPtok 30 "1" 69 5 264) (mkPtok 6 ")" 69 7 265))); (FALengthOf (mkSpan (mkPtok 7 "@lengthOf(" 69 9 266) (mkPtok 6 ")" 70 3 268)) (mkLengthOf (mkSpan (mkPtok 7 "@lengthOf(" 69 9 266) (mkPtok 6 ")" 70 3 268)) (mkPtok 7 "@lengthOf(" 69 9 266) (mkPtok 42 "a1" 70 0 267) (mkPtok 6 ")" 70 3 268))); (FACalculatedFrom (mkSpan (mkPtok 5 "@calculatedFrom(" 70 5 269) (mkPtok 6 ")" 70 29 271)) (mkCalculatedFrom (mkSpan (mkPtok 5 "@calculatedFrom(" 70 5 269) (mkPtok 6 ")" 70 29 271)) (mkPtok 5 "@calculatedFrom(" 70 5 269) (mkPtok 31 """it's""" 70 22 270) (mkPtok 6 ")" 70 29 271)))] (MetaField (mkSpan (mkPtok 12 "char[" 70 31 272) (mkPtok 40 "," 70 47 276)) None (mkMetaDecl (mkSpan (mkPtok 12 "char[" 70 31 272) (mkPtok 40 "," 70 47 276)) (TyFixed (mkSpan (mkPtok 12 "char[" 70 31 272) (mkPtok 13 "]" 70 40 274)) (mkFixedString (mkSpan (mkPtok 12 "char[" 70 31 272) (mkPtok 13 "]" 70 40 274)) (mkPtok 12 "char[" 70 31 272) (mkPtok 30 "10" 70 37 273) (mkPtok 13 "]" 70 40 274))) (mkPtok 42 "body" 70 42 275) None (mkPtok 40 "," 70 47 276)))); (mkFieldWithAttr (mkSpan (mkPtok 7 "@lengthOf(" 70 50 277) (mkPtok 40 "," 72 23 284)) [(FALengthOf (mkSpan (mkPtok 7 "@lengthOf(" 70 50 277) (mkPtok 6 ")" 70 66 279)) (mkLengthOf (mkSpan (mkPtok 7 "@lengthOf(" 70 50 277) (mkPtok 6 ")" 70 66 279)) (mkPtok 7 "@lengthOf(" 70 50 277) (mkPtok 42 "f32a" 70 61 278) (mkPtok 6 ")" 70 66 279)))] (CheckSumField (mkSpan (mkPtok 42 "rootA" 71 4 280) (mkPtok 40 "," 72 23 284)) (mkChecksumFieldDecl (mkSpan (mkPtok 42 "rootA" 71 4 280) (mkPtok 40 "," 72 23 284)) None (mkPtok 42 "rootA" 71 4 280) (mkCalculatedFrom (mkSpan (mkPtok 5 "@calculatedFrom(" 72 0 281) (mkPtok 6 ")" 72 22 283)) (mkPtok 5 "@calculatedFrom(" 72 0 281) (mkPtok 31 """{,}""" 72 16 282) (mkPtok 6 ")" 72 22 283)) None (mkPtok 40 "," 72 23 284))))] (mkPtok 3 "}" 73 0 286)))])).
Eval vm_compute in ("<<<M135>>>" ++ check (runes_of_ascii "MetaData
    charz { } packet
    // " ++ [27880; 37322]%N ++ runes_of_ascii "
    matchKey {
    a1
    repeatCount
    , }
")).
Eval vm_compute in ("<<<M145>>>" ++ check (runes_of_ascii "MetaData
packetx {  zchar[7
]u128 , }
")).
Eval vm_compute in ("<<<M155>>>" ++ check (runes_of_ascii "packet Foo  { Logon A`a\`, a1 A
, @lengthOf(
//	t
// trailing space 
tag ) // trailing space 
x_y_z
@lengthOf( leftPad
    ) `it's`, @tag( 255 ) match crc// @lengthOf(
as  roots {
""" ++ [233]%N ++ runes_of_ascii "t" ++ [233]%N ++ runes_of_ascii """	:Foo ,[ 10 , 007 //
, // a // b
""" ++ [233]%N ++ runes_of_ascii "t" ++ [233]%N ++ runes_of_ascii """ ,
// c
// @lengthOf(
""a	b""]
    :x_y_z}
    , // @lengthOf(
}  root packet As { }	MetaData calculatedFrom // trailing space 
{ Z9_ _x ``	,
} MetaData tag { // " ++ [27880; 37322]%N ++ runes_of_ascii "
string body , string options1 ,i8i8 pack, }
")).
Eval vm_compute in ("<<<M165>>>" ++ check (runes_of_ascii "options { x_y_z =
true;a1 = true ;
options1  =
    true  ; }
")).
Eval vm_compute in ("<<<M175>>>" ++ check (runes_of_ascii "root packet leftPad
    { f32a	tag ,
    }
")).
Eval vm_compute in ("<<<M185>>>" ++ check (runes_of_ascii "
packet
// packet A { u8 x, }
// " ++ [27880; 37322]%N ++ runes_of_ascii "
matchKey {} packet
    string_ { matchKey @lengthOf(
asx)
    ,@rightPad ( ' '
) metadata
,
// a // b
// @lengthOf(
o //
chars ,  uint16 tag `u8 x,` ,
repeat  float32 Logon  `two words` , /// triple
matchKey	@calculatedFrom( ""a	b""
)`doc`
    ,
repeat packetx
a1 ,} MetaData Packet //
{
char[]
    pack, string  zchar ,zchar[
//	t
// trailing space 
1 ] x_y_z, int64
    charz
`say ""hi""`, u32
lengthOf
    `doc`
,}
options
    { a1
= int16 ; crc =' ';tag = char[ 42]
leftPad
    = true ; }")).
Eval vm_compute in ("<<<M195>>>" ++ check (runes_of_ascii "packet options1 {// " ++ [128512]%N ++ runes_of_ascii " emoji
@calculatedFrom( ""abc""
) //
repeat BodyLength , a1
@lengthOf(
    // trailing space 
    i8i8
    // " ++ [128512]%N ++ runes_of_ascii " emoji
    ) ,
    } packet	asx
    {char[ 0] o`crlf
line`
,char[] options1 `crlf
line`
,
@tag( 42 )
    repeat Foo  ,
asx @calculatedFrom(
    ""`tick`"") ,}")).
Eval vm_compute in ("<<<T195>>>" ++ terms [mkTok 35 "packet" 1 0 false; mkTok 42 "options1" 1 7 false; mkTok 2 "{" 1 16 false; mkTok 44 (string_of_bytes [47; 47; 32; 240; 159; 152; 128; 32; 101; 109; 111; 106; 105]%N) 1 17 true; mkTok 5 "@calculatedFrom(" 2 0 false; mkTok 31 """abc""" 2 17 false; mkTok 6 ")" 3 0 false; mkTok 44 "//" 3 2 true; mkTok 36 "repeat" 4 0 false; mkTok 42 "BodyLength" 4 7 false; mkTok 40 "," 4 18 false; mkTok 42 "a1" 4 20 false; mkTok 7 "@lengthOf(" 5 0 false; mkTok 44 "// trailing space " 6 4 true; mkTok 42 "i8i8" 7 4 false; mkTok 44 (string_of_bytes [47; 47; 32; 240; 159; 152; 128; 32; 101; 109; 111; 106; 105]%N) 8 4 true; mkTok 6 ")" 9 4 false; mkTok 40 "," 9 6 false; mkTok 3 "}" 10 4 false; mkTok 35 "packet" 10 6 false; mkTok 42 "asx" 10 13 false; mkTok 2 "{" 11 4 false; mkTok 12 "char[" 11 5 false; mkTok 30 "0" 11 11 false; mkTok 13 "]" 11 12 false; mkTok 42 "o" 11 14 false; mkTok 43 (string_of_bytes [96; 99; 114; 108; 102; 13; 10; 108; 105; 110; 101; 96]%N) 11 15 false; mkTok 40 "," 13 0 false; mkTok 16 "char[]" 13 1 false; mkTok 42 "options1" 13 8 false; mkTok 43 (string_of_bytes [96; 99; 114; 108; 102; 13; 10; 108; 105; 110; 101; 96]%N) 13 17 false; mkTok 40 "," 15 0 false; mkTok 9 "@tag(" 16 0 false; mkTok 30 "42" 16 6 false; mkTok 6 ")" 16 9 false; mkTok 36 "repeat" 17 4 false; mkTok 42 "Foo" 17 11 false; mkTok 40 "," 17 16 false; mkTok 42 "asx" 18 0 false; mkTok 5 "@calculatedFrom(" 18 4 false; mkTok 31 """`tick`""" 19 4 false; mkTok 6 ")" 19 12 false; mkTok 40 "," 19 14 false; mkTok 3 "}" 19 15 false; mkTok 0 "<EOF>" 19 16 false] (mkPacket (mkPtok 35 "packet" 1 0 0) (Some (mkPtok 3 "}" 19 15 43)) [(DPacket (mkPacketDef (mkSpan (mkPtok 35 "packet" 1 0 0) (mkPtok 3 "}" 10 4 18)) None (mkPtok 35 "packet" 1 0 0) (mkPtok 42 "options1" 1 7 1) (mkPtok 2 "{" 1 16 2) [(mkFieldWithAttr (mkSpan (mkPtok 5 "@calculatedFrom(" 2 0 4) (mkPtok 40 "," 4 18 10)) [(FACalculatedFrom (mkSpan (mkPtok 5 "@calculatedFrom(" 2 0 4) (mkPtok 6 ")" 3 0 6)) (mkCalculatedFrom (mkSpan (mkPtok 5 "@calculatedFrom(" 2 0 4) (mkPtok 6 ")" 3 0 6)) (mkPtok 5 "@calculatedFrom(" 2 0 4) (mkPtok 31 """abc""" 2 17 5) (mkPtok 6 ")" 3 0 6)))] (ObjectField (mkSpan (mkPtok 36 "repeat" 4 0 8) (mkPtok 40 "," 4 18 10)) (Some (mkPtok 36 "repeat" 4 0 8)) (mkPtok 42 "BodyLength" 4 7 9) None None (mkPtok 40 "," 4 18 10))); (mkFieldWithAttr (mkSpan (mkPtok 42 "a1" 4 20 11) (mkPtok 40 "," 9 6 17)) [] (LengthField (mkSpan (mkPtok 42 "a1" 4 20 11) (mkPtok 40 "," 9 6 17)) (mkLengthFieldDecl (mkSpan (mkPtok 42 "a1" 4 20 11) (mkPtok 40 "," 9 6 17)) None (mkPtok 42 "a1" 4 20 11) (mkLengthOf (mkSpan (mkPtok 7 "@lengthOf(" 5 0 12) (mkPtok 6 ")" 9 4 16)) (mkPtok 7 "@lengthOf(" 5 0 12) (mkPtok 42 "i8i8" 7 4 14) (mkPtok 6 ")" 9 4 16)) None (mkPtok 40 "," 9 6 17))))] (mkPtok 3 "}" 10 4 18))); (DPacket (mkPacketDef (mkSpan (mkPtok 35 "packet" 10 6 19) (mkPtok 3 "}" 19 15 43)) None (mkPtok 35 "packet" 10 6 19) (mkPtok 42 "asx" 10 13 20) (mkPtok 2 "{" 11 4 21) [(mkFieldWithAttr (mkSpan (mkPtok 12 "char[" 11 5 22) (mkPtok 40 "," 13 0 27)) [] (MetaField (mkSpan (mkPtok 12 "char[" 11 5 22) (mkPtok 40 "," 13 0 27)) None (mkMetaDecl (mkSpan (mkPtok 12 "char[" 11 5 22) (mkPtok 40 "," 13 0 27)) (TyFixed (mkSpan (mkPtok 12 "char[" 11 5 22) (mkPtok 13 "]" 11 12 24)) (mkFixedString (mkSpan (mkPtok 12 "char[" 11 5 22) (mkPtok 13 "]" 11 12 24)) (mkPtok 12 "char[" 11 5 22) (mkPtok 30 "0" 11 11 23) (mkPtok 13 "]" 11 12 24))) (mkPtok 42 "o" 11 14 25) (Some (mkPtok 43 (string_of_bytes [96; 99; 114; 108; 102; 13; 10; 108; 105; 110; 101; 96]%N) 11 15 26)) (mkPtok 40 "," 13 0 27)))); (mkFieldWithAttr (mkSpan (mkPtok 16 "char[]" 13 1 28) (mkPtok 40 "," 15 0 31)) [] (MetaField (mkSpan (mkPtok 16 "char[]" 13 1 28) (mkPtok 40 "," 15 0 31)) None (mkMetaDecl (mkSpan (mkPtok 16 "char[]" 13 1 28) (mkPtok 40 "," 15 0 31)) (TyDynamic (mkSpan (mkPtok 16 "char[]" 13 1 28) (mkPtok 16 "char[]" 13 1 28)) (mkDynamicString (mkSpan (mkPtok 16 "char[]" 13 1 28) (mkPtok 16 "char[]" 13 1 28)) (mkPtok 16 "char[]" 13 1 28))) (mkPtok 42 "options1" 13 8 29) (Some (mkPtok 43 (string_of_bytes [96; 99; 114; 108; 102; 13; 10; 108; 105; 110; 101; 96]%N) 13 17 30)) (mkPtok 40 "," 15 0 31)))); (mkFieldWithAttr (mkSpan (mkPtok 9 "@tag(" 16 0 32) (mkPtok 40 "," 17 16 37)) [(FATag (mkSpan (mkPtok 9 "@tag(" 16 0 32) (mkPtok 6 ")" 16 9 34)) (mkTagAttr (mkSpan (mkPtok 9 "@tag(" 16 0 32) (mkPtok 6 ")" 16 9 34)) (mkPtok 9 "@tag(" 16 0 32) (mkPtok 30 "42" 16 6 33) (mkPtok 6 ")" 16 9 34)))] (ObjectField (mkSpan (mkPtok 36 "repeat" 17 4 35) (mkPtok 40 "," 17 16 37)) (Some (mkPtok 36 "repeat" 17 4 35)) (mkPtok 42 "Foo" 17 11 36) None None (mkPtok 40 "," 17 16 37))); (mkFieldWithAttr (mkSpan (mkPtok 42 "asx" 18 0 38) (mkPtok 40 "," 19 14 42)) [] (CheckSumField (mkSpan (mkPtok 42 "asx" 18 0 38) (mkPtok 40 "," 19 14 42)) (mkChecksumFieldDecl (mkSpan (mkPtok 42 "asx" 18 0 38) (mkPtok 40 "," 19 14 42)) None (mkPtok 42 "asx" 18 0 38) (mkCalculatedFrom (mkSpan (mkPtok 5 "@calculatedFrom(" 18 4 39) (mkPtok 6 ")" 19 12 41)) (mkPtok 5 "@calculatedFrom(" 18 4 39) (mkPtok 31 """`tick`""" 19 4 40) (mkPtok 6 ")" 19 12 41)) None (mkPtok 40 "," 19 14 42))))] (mkPtok 3 "}" 19 15 43)))])).
Eval vm_compute in ("<<<M205>>>" ++ check (runes_of_ascii "MetaData
    //x
    body
    // a // b
    { BodyLength stringy ,
    //	t
    zchar[ 42 ] o
    ,
i64_ lengthOf `{ , }` ,u8 MetaDataX  , }")).
Eval vm_compute in ("<<<M215>>>" ++ check (runes_of_ascii "MetaData
T { Foo  lengthOf , string
    //x
    packetx
    `// not a comment` , zchar[
    //	t
    0] metadata
//x
// `tick` ""quote"" 'q'
`crlf
line` ,
x string_
`line1
line2` , } packet repeatCount {	char[ // `tick` ""quote"" 'q'
255 ]
A @calculatedFrom(""a\\"" )
,float32
    BodyLength @lengthOf(	_x )
// c
//
`doc` , char[] trueish
    // " ++ [128512]%N ++ runes_of_ascii " emoji
    @calculatedFrom( ""packet"")
    ,}
")).
Eval vm_compute in ("<<<M225>>>" ++ check (runes_of_ascii "MetaData msg_type { }root
    packet T{@rightPad (
    )
    repeat char[ 3 ]	x_y_z ,
    @lengthOf(
roots  ) string	i64_ @lengthOf(
u8x // a // b
) `// not a comment`	,}")).
Eval vm_compute in ("<<<M235>>>" ++ check (runes_of_ascii "MetaData trueish { u64// trailing space 
i8i8 , }")).
Eval vm_compute in ("<<<M245>>>" ++ check (runes_of_ascii "MetaData As {  } packet float { // @lengthOf(
options1  Pad `// not a comment` ,
uint16 As `line1
line2` ,float32 stringy@calculatedFrom(
""`tick`""
) `" ++ [233]%N ++ runes_of_ascii "` ,
repeat Packet { zchar[ 3 ] T
    @calculatedFrom(
""x y""),  char[ 7 ]  asx @lengthOf( tag) ,
    //
    int64 charz `u8 x,`
, } , uint32
len , @tag(	0123456789
) Foo packetx `// not a comment`,char[] trueish @lengthOf(
rootA
    ) , @leftPad (//
'0'  ) repeat  x_y_z `{ , }` , i64 u128 ,
    }
    packet msg_type//x
{
char[]
i8i8
    `doc` //	t
,string trueish @calculatedFrom(
    """" ), char[ 7 ]/// triple
string_// packet A { u8 x, }
`say ""hi""`
/// triple
//
,	}
")).
Eval vm_compute in ("<<<M255>>>" ++ check (runes_of_ascii "root packet  roots
{ falsey@calculatedFrom(""a\""b"" ) ,
    @lengthOf(
A )Header @calculatedFrom( ""packet""
) `u8 x,` ,
@leftPad  (' '
) @lengthOf(
    calculatedFrom)
// `tick` ""quote"" 'q'
// packet A { u8 x, }
match rootA as x_y_z {42	:
    //	t
    len, }, } options //x
{ chars =// c
4294967296 ;
    BodyLength
    = 0123456789 roots
    = ""a\""b"";
} //")).
Eval vm_compute in ("<<<M265>>>" ++ check (runes_of_ascii "MetaData metadata { // `tick` ""quote"" 'q'
msg_type
Pad
    , int8
calculatedFrom, } MetaData msg_type{// packet A { u8 x, }
}
packet // a // b
len {_x , }
options { As =
// a // b
// c
true
; // " ++ [27880; 37322]%N ++ runes_of_ascii "
repeatCount
    ='\x00' ; uint8x // packet A { u8 x, }
= ""\" ++ [233]%N ++ runes_of_ascii """;
    chars= true
; }
// " ++ [27880; 37322]%N ++ runes_of_ascii "
// `tick` ""quote"" 'q'
packet crc {matchKey @lengthOf( float	) ,
@leftPad ( '0'
    ) match	i8i8 as x
{[ // " ++ [128512]%N ++ runes_of_ascii " emoji
65535 ,
    // trailing space 
    10 , 4294967296
] :repeatCount ,  ""// no comment"": stringy
    ,} ,
    @calculatedFrom(	""a	b""
)crc
// " ++ [27880; 37322]%N ++ runes_of_ascii "
// trailing space 
,
    /// triple
    }

")).
Eval vm_compute in ("<<<T265>>>" ++ terms [mkTok 37 "MetaData" 1 0 false; mkTok 42 "metadata" 1 9 false; mkTok 2 "{" 1 18 false; mkTok 44 "// `tick` ""quote"" 'q'" 1 20 true; mkTok 42 "msg_type" 2 0 false; mkTok 42 "Pad" 3 0 false; mkTok 40 "," 4 4 false; mkTok 24 "int8" 4 6 false; mkTok 42 "calculatedFrom" 5 0 false; mkTok 40 "," 5 14 false; mkTok 3 "}" 5 16 false; mkTok 37 "MetaData" 5 18 false; mkTok 42 "msg_type" 5 27 false; mkTok 2 "{" 5 35 false; mkTok 44 "// packet A { u8 x, }" 5 36 true; mkTok 3 "}" 6 0 false; mkTok 35 "packet" 7 0 false; mkTok 44 "// a // b" 7 7 true; mkTok 42 "len" 8 0 false; mkTok 2 "{" 8 4 false; mkTok 42 "_x" 8 5 false; mkTok 40 "," 8 8 false; mkTok 3 "}" 8 10 false; mkTok 1 "options" 9 0 false; mkTok 2 "{" 9 8 false; mkTok 42 "As" 9 10 false; mkTok 4 "=" 9 13 false; mkTok 44 "// a // b" 10 0 true; mkTok 44 "// c" 11 0 true; mkTok 10 "true" 12 0 false; mkTok 41 ";" 13 0 false; mkTok 44 (string_of_bytes [47; 47; 32; 230; 179; 168; 233; 135; 138]%N) 13 2 true; mkTok 42 "repeatCount" 14 0 false; mkTok 4 "=" 15 4 false; mkTok 33 "'\x00'" 15 5 false; mkTok 41 ";" 15 12 false; mkTok 42 "uint8x" 15 14 false; mkTok 44 "// packet A { u8 x, }" 15 21 true; mkTok 4 "=" 16 0 false; mkTok 31 (string_of_bytes [34; 92; 195; 169; 34]%N) 16 2 false; mkTok 41 ";" 16 6 false; mkTok 42 "chars" 17 4 false; mkTok 4 "=" 17 9 false; mkTok 10 "true" 17 11 false; mkTok 41 ";" 18 0 false; mkTok 3 "}" 18 2 false; mkTok 44 (string_of_bytes [47; 47; 32; 230; 179; 168; 233; 135; 138]%N) 19 0 true; mkTok 44 "// `tick` ""quote"" 'q'" 20 0 true; mkTok 35 "packet" 21 0 false; mkTok 42 "crc" 21 7 false; mkTok 2 "{" 21 11 false; mkTok 42 "matchKey" 21 12 false; mkTok 7 "@lengthOf(" 21 21 false; mkTok 42 "float" 21 32 false; mkTok 6 ")" 21 38 false; mkTok 40 "," 21 40 false; mkTok 32 "@leftPad" 22 0 false; mkTok 8 "(" 22 9 false; mkTok 33 "'0'" 22 11 false; mkTok 6 ")" 23 4 false; mkTok 38 "match" 23 6 false; mkTok 42 "i8i8" 23 12 false; mkTok 17 "as" 23 17 false; mkTok 42 "x" 23 20 false; mkTok 2 "{" 24 0 false; mkTok 18 "[" 24 1 false; mkTok 44 (string_of_bytes [47; 47; 32; 240; 159; 152; 128; 32; 101; 109; 111; 106; 105]%N) 24 3 true; mkTok 30 "65535" 25 0 false; mkTok 40 "," 25 6 false; mkTok 44 "// trailing space " 26 4 true; mkTok 30 "10" 27 4 false; mkTok 40 "," 27 7 false; mkTok 30 "4294967296" 27 9 false; mkTok 13 "]" 28 0 false; mkTok 39 ":" 28 2 false; mkTok 42 "repeatCount" 28 3 false; mkTok 40 "," 28 15 false; mkTok 31 """// no comment""" 28 18 false; mkTok 39 ":" 28 33 false; mkTok 42 "stringy" 28 35 false; mkTok 40 "," 29 4 false; mkTok 3 "}" 29 5 false; mkTok 40 "," 29 7 false; mkTok 5 "@calculatedFrom(" 30 4 false; mkTok 31 (string_of_bytes [34; 97; 9; 98; 34]%N) 30 21 false; mkTok 6 ")" 31 0 false; mkTok 42 "crc" 31 1 false; mkTok 44 (string_of_bytes [47; 47; 32; 230; 179; 168; 233; 135; 138]%N) 32 0 true; mkTok 44 "// trailing space " 33 0 true; mkTok 40 "," 34 0 false; mkTok 44 "/// triple" 35 4 true; mkTok 3 "}" 36 4 false; mkTok 0 "<EOF>" 38 0 false] (mkPacket (mkPtok 37 "MetaData" 1 0 0) (Some (mkPtok 3 "}" 36 4 91)) [(DMeta (mkMetaDef (mkSpan (mkPtok 37 "MetaData" 1 0 0) (mkPtok 3 "}" 5 16 10)) (mkPtok 37 "MetaData" 1 0 0) (mkPtok 42 "metadata" 1 9 1) (mkPtok 2 "{" 1 18 2) [(MIRef (mkRefMetaDecl (mkSpan (mkPtok 42 "msg_type" 2 0 4) (mkPtok 40 "," 4 4 6)) (mkPtok 42 "msg_type" 2 0 4) (mkPtok 42 "Pad" 3 0 5) None (mkPtok 40 "," 4 4 6))); (MIDecl (mkMetaDecl (mkSpan (mkPtok 24 "int8" 4 6 7) (mkPtok 40 "," 5 14 9)) (TyBasic (mkSpan (mkPtok 24 "int8" 4 6 7) (mkPtok 24 "int8" 4 6 7)) (mkBasicType (mkSpan (mkPtok 24 "int8" 4 6 7) (mkPtok 24 "int8" 4 6 7)) (mkPtok 24 "int8" 4 6 7))) (mkPtok 42 "calculatedFrom" 5 0 8) None (mkPtok 40 "," 5 14 9)))] (mkPtok 3 "}" 5 16 10))); (DMeta (mkMetaDef (mkSpan (mkPtok 37 "MetaData" 5 18 11) (mkPtok 3 "}" 6 0 15)) (mkPtok 37 "MetaData" 5 18 11) (mkPtok 42 "msg_type" 5 27 12) (mkPtok 2 "{" 5 35 13) [] (mkPtok 3 "}" 6 0 15))); (DPacket (mkPacketDef (mkSpan (mkPtok 35 "packet" 7 0 16) (mkPtok 3 "}" 8 10 22)) None (mkPtok 35 "packet" 7 0 16) (mkPtok 42 "len" 8 0 18) (mkPtok 2 "{" 8 4 19) [(mkFieldWithAttr (mkSpan (mkPtok 42 "_x" 8 5 20) (mkPtok 40 "," 8 8 21)) [] (ObjectField (mkSpan (mkPtok 42 "_x" 8 5 20) (mkPtok 40 "," 8 8 21)) None (mkPtok 42 "_x" 8 5 20) None None (mkPtok 40 "," 8 8 21)))] (mkPtok 3 "}" 8 10 22))); (DOption (mkOptionDef (mkSpan (mkPtok 1 "options" 9 0 23) (mkPtok 3 "}" 18 2 45)) (mkPtok 1 "options" 9 0 23) (mkPtok 2 "{" 9 8 24) [(mkOptionDecl (mkSpan (mkPtok 42 "As" 9 10 25) (mkPtok 41 ";" 13 0 30)) (mkPtok 42 "As" 9 10 25) (mkPtok 4 "=" 9 13 26) (VTrue (mkSpan (mkPtok 10 "true" 12 0 29) (mkPtok 10 "true" 12 0 29)) (mkPtok 10 "true" 12 0 29)) (Some (mkPtok 41 ";" 13 0 30))); (mkOptionDecl (mkSpan (mkPtok 42 "repeatCount" 14 0 32) (mkPtok 41 ";" 15 12 35)) (mkPtok 42 "repeatCount" 14 0 32) (mkPtok 4 "=" 15 4 33) (VPaddingChar (mkSpan (mkPtok 33 "'\x00'" 15 5 34) (mkPtok 33 "'\x00'" 15 5 34)) (mkPtok 33 "'\x00'" 15 5 34)) (Some (mkPtok 41 ";" 15 12 35))); (mkOptionDecl (mkSpan (mkPtok 42 "uint8x" 15 14 36) (mkPtok 41 ";" 16 6 40)) (mkPtok 42 "uint8x" 15 14 36) (mkPtok 4 "=" 16 0 38) (VString (mkSpan (mkPtok 31 (string_of_bytes [34; 92; 195; 169; 34]%N) 16 2 39) (mkPtok 31 (string_of_bytes [34; 92; 195; 169; 34]%N) 16 2 39)) (mkPtok 31 (string_of_bytes [34; 92; 195; 169; 34]%N) 16 2 39)) (Some (mkPtok 41 ";" 16 6 40))); (mkOptionDecl (mkSpan (mkPtok 42 "chars" 17 4 41) (mkPtok 41 ";" 18 0 44)) (mkPtok 42 "chars" 17 4 41) (mkPtok 4 "=" 17 9 42) (VTrue (mkSpan (mkPtok 10 "true" 17 11 43) (mkPtok 10 "true" 17 11 43)) (mkPtok 10 "true" 17 11 43)) (Some (mkPtok 41 ";" 18 0 44)))] (mkPtok 3 "}" 18 2 45))); (DPacket (mkPacketDef (mkSpan (mkPtok 35 "packet" 21 0 48) (mkPtok 3 "}" 36 4 91)) None (mkPtok 35 "packet" 21 0 48) (mkPtok 42 "crc" 21 7 49) (mkPtok 2 "{" 21 11 50) [(mkFieldWithAttr (mkSpan (mkPtok 42 "matchKey" 21 12 51) (mkPtok 40 "," 21 40 55)) [] (LengthField (mkSpan (mkPtok 42 "matchKey" 21 12 51) (mkPtok 40 "," 21 40 55)) (mkLengthFieldDecl (mkSpan (mkPtok 42 "matchKey" 21 12 51) (mkPtok 40 "," 21 40 55)) None (mkPtok 42 "matchKey" 21 12 51) (mkLengthOf (mkSpan (mkPtok 7 "@lengthOf(" 21 21 52) (mkPtok 6 ")" 21 38 54)) (mkPtok 7 "@lengthOf(" 21 21 52) (mkPtok 42 "float" 21 32 53) (mkPtok 6 ")" 21 38 54)) None (mkPtok 40 "," 21 40 55)))); (mkFieldWithAttr (mkSpan (mkPtok 32 "@leftPad" 22 0 56) (mkPtok 40 "," 29 7 82)) [(FAPadding (mkSpan (mkPtok 32 "@leftPad" 22 0 56) (mkPtok 6 ")" 23 4 59)) (mkPaddingAttr (mkSpan (mkPtok 32 "@leftPad" 22 0 56) (mkPtok 6 ")" 23 4 59)) (mkPtok 32 "@leftPad" 22 0 56) (mkPtok 8 "(" 22 9 57) (Some (mkPtok 33 "'0'" 22 11 58)) (mkPtok 6 ")" 23 4 59)))] (MatchField (mkSpan (mkPtok 38 "match" 23 6 60) (mkPtok 40 "," 29 7 82)) (mkMatchFieldDecl (mkSpan (mkPtok 38 "match" 23 6 60) (mkPtok 3 "}" 29 5 81)) (mkPtok 38 "match" 23 6 60) (mkPtok 42 "i8i8" 23 12 61) (mkPtok 17 "as" 23 17 62) (mkPtok 42 "x" 23 20 63) (mkPtok 2 "{" 24 0 64) [(mkMatchPair (mkSpan (mkPtok 18 "[" 24 1 65) (mkPtok 40 "," 28 15 76)) (MKList (mkKeyList (mkSpan (mkPtok 18 "[" 24 1 65) (mkPtok 13 "]" 28 0 73)) (mkPtok 18 "[" 24 1 65) (mkPtok 30 "65535" 25 0 67) [((mkPtok 40 "," 25 6 68), (mkPtok 30 "10" 27 4 70)); ((mkPtok 40 "," 27 7 71), (mkPtok 30 "4294967296" 27 9 72))] (mkPtok 13 "]" 28 0 73))) (mkPtok 39 ":" 28 2 74) (mkPtok 42 "repeatCount" 28 3 75) (Some (mkPtok 40 "," 28 15 76))); (mkMatchPair (mkSpan (mkPtok 31 """// no comment""" 28 18 77) (mkPtok 40 "," 29 4 80)) (MKString (mkPtok 31 """// no comment""" 28 18 77)) (mkPtok 39 ":" 28 33 78) (mkPtok 42 "stringy" 28 35 79) (Some (mkPtok 40 "," 29 4 80)))] (mkPtok 3 "}" 29 5 81)) (mkPtok 40 "," 29 7 82))); (mkFieldWithAttr (mkSpan (mkPtok 5 "@calculatedFrom(" 30 4 83) (mkPtok 40 "," 34 0 89)) [(FACalculatedFrom (mkSpan (mkPtok 5 "@calculatedFrom(" 30 4 83) (mkPtok 6 ")" 31 0 85)) (mkCalculatedFrom (mkSpan (mkPtok 5 "@calculatedFrom(" 30 4 83) (mkPtok 6 ")" 31 0 85)) (mkPtok 5 "@calculatedFrom(" 30 4 83) (mkPtok 31 (string_of_bytes [34; 97; 9; 98; 34]%N) 30 21 84) (mkPtok 6 ")" 31 0 85)))] (ObjectField (mkSpan (mkPtok 42 "crc" 31 1 86) (mkPtok 40 "," 34 0 89)) None (mkPtok 42 "crc" 31 1 86) None None (mkPtok 40 "," 34 0 89)))] (mkPtok 3 "}" 36 4 91)))])).
Eval vm_compute in ("<<<M275>>>" ++ check (runes_of_ascii "
root packet u128 { @calculatedFrom( ""// no comment"" ) @tag(	10//	t
) @calculatedFrom( ""packet"" ) BodyLength ``
    , char BodyLength `two words`	, repeat uint32 f32a // trailing space 
, crc {	repeat
repeatCount Packet , MetaDataX@lengthOf(
    chars
),
options1 _x ,
repeat float64 T//x
,} ,@tag( 3 )
    @leftPad
( '\x00') @rightPad
(
// @lengthOf(
/// triple
)
    match string_ as MetaDataX { ""packet"" : float ,[
    ""abc"" // @lengthOf(
, """"
    // packet A { u8 x, }
    ,	3
,
    //x
    65535 ,
    ""a	b""
,//	t
42
    ,
    1 ,
    ""packet"" ]:
i64_
// `tick` ""quote"" 'q'
/// triple
,
// " ++ [27880; 37322]%N ++ runes_of_ascii "
// trailing space 
7 :lengthOf 0:
len
// trailing space 
// packet A { u8 x, }
,
10 :  len , [ //	t
0
] : A
    //	t
    , }, }")).
Eval vm_compute in ("<<<M285>>>" ++ check (runes_of_ascii "
root  packet zchar
    {zchar[007] Foo , }")).
Eval vm_compute in ("<<<M295>>>" ++ check (runes_of_ascii "
packet leftPad { // packet A { u8 x, }
@leftPad ( ' '
)
repeat
    x
`" ++ [233]%N ++ runes_of_ascii "` ,
repeat
    pack ,
// a // b
// a // b
uint32  A , // @lengthOf(
@tag(10  )@leftPad
    ( )
    @calculatedFrom( ""a	b"" ) u32 stringy @lengthOf( lengthOf ) , Foo`line1
line2` , crc `u8 x,`  ,// @lengthOf(
} options {//
x = float64
    // trailing space 
    ; u8x = //x
""" ++ [128512]%N ++ runes_of_ascii """ ; pack =
// `tick` ""quote"" 'q'
// trailing space 
' ';
    // c
    falsey
= ""a\""b"" } packet As
{repeat repeatCount u8x `doc`
    // packet A { u8 x, }
    , @leftPad ( '0' ) @calculatedFrom(""\" ++ [233]%N ++ runes_of_ascii """
    )match asx
as crc//x
{ 4294967296
    //	t
    :
    u8x
    , ""\n"" :u128
    , 0:asx
    [
    255
    // trailing space 
    ,""x y""	] :
    Logon ,0123456789 : A , 255	:i64_ , }
,
    metadata @lengthOf( u8x
)  , repeat crc
{	uint32
Packet	, } /// triple
, @calculatedFrom(""" ++ [128512]%N ++ runes_of_ascii """ )T u128  `{ , }` ,repeat i32	msg_type , @lengthOf(// packet A { u8 x, }
T	)int	,float {
// @lengthOf(
// `tick` ""quote"" 'q'
match trueish	as leftPad
    /// triple
    {
[ 0  ,	""" ++ [28040; 24687]%N ++ runes_of_ascii """  ]:
f32a, }  , uint32 i8i8,Packet{	char[ 65535 ] o
    // trailing space 
    @calculatedFrom( ""it's""  ) , }, // a // b
} , uint8 i8i8 `say ""hi""`, } /// triple
packet
BodyLength{ }
")).
Eval vm_compute in ("<<<M305>>>" ++ check (runes_of_ascii "options {
	StringPrefixLenType = u16;
	ArrayPrefixLenType = u16;
}

packet SampleBinary {
	uint16 MsgType `" ++ [28040; 24687; 31867; 22411]%N ++ runes_of_ascii "`,
	u16 BodyLenght @lengthOf(Body) `" ++ [28040; 24687; 20307; 38271; 24230]%N ++ runes_of_ascii "`,
	match MsgType as Body {
		1 : Logon,
		2 : Logout,
		3 : Heartbeat,
		4 : RiskControlRequest,
		5 : RiskControlResponse,
	},
	@calculatedFrom(""CRC32"")
	u32 Ckecksum `" ++ [26657; 39564; 21644]%N ++ runes_of_ascii "`,
}

packet Logon {
	@leftPad('0')
	char[10] UserName `" ++ [29992; 25143; 21517]%N ++ runes_of_ascii "`,
	string Password `" ++ [23494; 30721]%N ++ runes_of_ascii "`,
	uint64 ClientId `" ++ [23458; 25143; 31471]%N ++ runes_of_ascii "ID`,
	u16 HeartbeatInterval `" ++ [24515; 36339; 38388; 38548]%N ++ runes_of_ascii "`,
}

packet Logout {
	@rightPad('0')
	char[10] UserName `" ++ [29992; 25143; 21517]%N ++ runes_of_ascii "`,
	uint64 ClientId `" ++ [23458; 25143; 31471]%N ++ runes_of_ascii "ID`,
}

packet Heartbeat {
}

packet RiskControlRequest {
	string UniqueOrderId `" ++ [21807; 19968; 35746; 21333; 21495]%N ++ runes_of_ascii "`,
	char[16] ClOrdID `" ++ [23458; 25143; 35746; 21333; 21495]%N ++ runes_of_ascii "`,
	char[3] MarketID `" ++ [24066; 22330]%N ++ runes_of_ascii "id`,
	char[12] SecurityID `" ++ [35777; 21048; 20195; 30721]%N ++ runes_of_ascii "`,
	char Side `" ++ [20080; 21334; 26041; 21521]%N ++ runes_of_ascii "`,
	char OrderType `" ++ [35746; 21333; 31867; 22411]%N ++ runes_of_ascii "`,
	u64 Price `" ++ [20215; 26684]%N ++ runes_of_ascii "`,
	u32 Qty `" ++ [25968; 37327]%N ++ runes_of_ascii "`,
	repeat string ExtraInfo `" ++ [38468; 21152; 20449; 24687]%N ++ runes_of_ascii "`,
	repeat SubOrder {
		char[16] ClOrdID `" ++ [23376; 35746; 21333; 21495]%N ++ runes_of_ascii "`,
		u64 Price `" ++ [23376; 35746; 21333; 20215; 26684]%N ++ runes_of_ascii "`,
		u32 Qty `" ++ [23376; 35746; 21333; 25968; 37327]%N ++ runes_of_ascii "`,
	},
}

packet RiskControlResponse {
	string UniqueOrderId `" ++ [21807; 19968; 35746; 21333; 21495]%N ++ runes_of_ascii "`,
	i32 Status `" ++ [29366; 24577]%N ++ runes_of_ascii "`,
	string Msg `" ++ [32467; 26524; 20449; 24687]%N ++ runes_of_ascii "`,
	repeat Detail,
}

packet Detail {
	string RuleName `" ++ [35268; 21017; 21517; 31216]%N ++ runes_of_ascii "`,
	u16 Code `" ++ [21407; 22240; 20195; 30721]%N ++ runes_of_ascii "`,
}")).
Eval vm_compute in ("<<<M315>>>" ++ check (runes_of_ascii "packet
asx asx
{ Z9_ Header// " ++ [128512]%N ++ runes_of_ascii " emoji
,} packet pack
    { }
")).
Eval vm_compute in ("<<<M325>>>" ++ check (runes_of_ascii "packet
asx
{ Z9_ Z9_ Header// " ++ [128512]%N ++ runes_of_ascii " emoji
,} packet pack
    { }
")).
Eval vm_compute in ("<<<M335>>>" ++ check (runes_of_ascii "packet
asx
{ Z9_ Header// " ++ [128512]%N ++ runes_of_ascii " emoji
, ,} packet pack
    { }
")).
Eval vm_compute in ("<<<M345>>>" ++ check (runes_of_ascii "packet
asx
{ Z9_ Header// " ++ [128512]%N ++ runes_of_ascii " emoji
,} packet packet pack
    { }
")).
Eval vm_compute in ("<<<M355>>>" ++ check (runes_of_ascii "packet
asx
{ Z9_ Header// " ++ [128512]%N ++ runes_of_ascii " emoji
,} packet pack
    { { }
")).
Eval vm_compute in ("<<<M365>>>" ++ check (runes_of_ascii "packet
asx
{ Z9_ H")).
Eval vm_compute in ("<<<M375>>>" ++ check (runes_of_ascii "packet
asx
{ Z9_ Header// " ++ [128512]%N ++ runes_of_ascii " emoji
,} packet " ++ [127]%N ++ runes_of_ascii "pack
    { }
")).
Eval vm_compute in ("<<<M385>>>" ++ check (runes_of_ascii " o { char[ // `tick` ""quote"" 'q'
3] body, } packet o{
u8
charz ,
    }")).
Eval vm_compute in ("<<<M395>>>" ++ check (runes_of_ascii "MetaData o  char[ // `tick` ""quote"" 'q'
3] body, } packet o{
u8
charz ,
    }")).
Eval vm_compute in ("<<<M405>>>" ++ check (runes_of_ascii "MetaData o { char[ // `tick` ""quote"" 'q'
] body, } packet o{
u8
charz ,
    }")).
Eval vm_compute in ("<<<M415>>>" ++ check (runes_of_ascii "MetaData o { char[ // `tick` ""quote"" 'q'
3] , } packet o{
u8
charz ,
    }")).
Eval vm_compute in ("<<<M425>>>" ++ check (runes_of_ascii "MetaData o { char[ // `tick` ""quote"" 'q'
3] body,  packet o{
u8
charz ,
    }")).
Eval vm_compute in ("<<<M435>>>" ++ check (runes_of_ascii "MetaData o { char[ // `tick` ""quote"" 'q'
3] body, } packet {
u8
charz ,
    }")).
Eval vm_compute in ("<<<M445>>>" ++ check (runes_of_ascii "MetaData o { char[ // `tick` ""quote"" 'q'
3] body, } packet o{

charz ,
    }")).
Eval vm_compute in ("<<<M455>>>" ++ check (runes_of_ascii "MetaData o { char[ // `tick` ""quote"" 'q'
3] body, } packet o{
u8
charz 
    }")).
Eval vm_compute in ("<<<M465>>>" ++ check (runes_of_ascii "MetaData o ")).
Eval vm_compute in ("<<<M475>>>" ++ check (runes_of_ascii "MetaData o { char[ // `tick` ""quote"" 'q'
3] body?, } packet o{
u8
charz ,
    }")).
Eval vm_compute in ("<<<M485>>>" ++ check (runes_of_ascii "MetaData o { char[ // `tick` ""quote"" 'q'
3] na" ++ [239]%N ++ runes_of_ascii "ve, } packet o{
u8
charz ,
    }")).
Eval vm_compute in ("<<<M495>>>" ++ check (runes_of_ascii "options")).
Eval vm_compute in ("<<<M505>>>" ++ check (runes_of_ascii "options {calculatedFrom")).
Eval vm_compute in ("<<<M515>>>" ++ check (runes_of_ascii "options {calculatedFrom =	int8")).
Eval vm_compute in ("<<<M525>>>" ++ check ([8232]%N ++ runes_of_ascii "options {calculatedFrom =	int8 ;}

")).
Eval vm_compute in ("<<<M535>>>" ++ check (runes_of_ascii "options {" ++ [233]%N ++ runes_of_ascii " calculatedFrom =	int8 ;}

")).
Eval vm_compute in ("<<<M545>>>" ++ check (runes_of_ascii "
MetaData chars {Logon packetx,
    float calculatedFrom
,  u32 i64_ ,	")).
Eval vm_compute in ("<<<M555>>>" ++ check (runes_of_ascii "
MetaData { chars Logon packetx,
    float calculatedFrom
,  u32 i64_ ,	}")).
Eval vm_compute in ("<<<M565>>>" ++ check (runes_of_ascii "
")).
Eval vm_compute in ("<<<M575>>>" ++ check ([0]%N)).
Eval vm_compute in ("<<<M585>>>" ++ check (runes_of_ascii "n" ++ [23; 65533]%N ++ runes_of_ascii "e" ++ [21]%N ++ runes_of_ascii "f;")).
Eval vm_compute in ("<<<M595>>>" ++ check (runes_of_ascii "f64 [ u8 = @leftPad )")).
