From FP Require Import Lexer Parser ShowPT Digest.
From Coq Require Import String List NArith.
Import ListNotations.
Open Scope string_scope.
Set Printing Width 100000000.
Set Printing Depth 100000000.
Definition nl : string := String (Ascii.ascii_of_nat 10) EmptyString.
Definition model_lex (rs : list rune) : string := show_toks (lex rs).
Definition model_parse (rs : list rune) : string :=
  show_pt (match lex rs with Some ts => parse ts | None => None end).
(* coqc is slow at printing long strings: digests first (Digest.v), full texts on demand *)
Definition check (rs : list rune) : string :=
  digest (model_lex rs) ++ " " ++ digest (model_parse rs).
Definition full (rs : list rune) : string := model_lex rs ++ nl ++ model_parse rs.
Definition terms (ts : list tok) (t : pt) : string :=
  digest (show_toks (Some ts)) ++ " " ++ digest (show_pt (Some t)) ++ " " ++ digest (show_pt (parse ts)).
Definition terms_full (ts : list tok) (t : pt) : string :=
  show_toks (Some ts) ++ nl ++ show_pt (Some t) ++ nl ++ show_pt (parse ts).
Eval vm_compute in ("<<<M5>>>" ++ check (runes_of_ascii "options {
string_ = char[] }
")).
Eval vm_compute in ("<<<M15>>>" ++ check (@nil rune)).
Eval vm_compute in ("<<<M25>>>" ++ check (runes_of_ascii "root packet zchar{
@calculatedFrom( ""\" ++ [233]%N ++ runes_of_ascii """)
@rightPad (
    // a // b
    )
@rightPad	( '\x00' ) int8 Foo ,
    } packet calculatedFrom { u8x `doc`
    , }	MetaData x {
}options{ repeatCount
    = ""x y"" ;leftPad = """ ++ [128512]%N ++ runes_of_ascii """
tag= uint8}
//	t
")).
Eval vm_compute in ("<<<M35>>>" ++ check (runes_of_ascii "MetaData Z9_ { i64_ lengthOf `" ++ [233]%N ++ runes_of_ascii "` , x_y_z uint8x  `" ++ [233]%N ++ runes_of_ascii "` , string_ //x
chars
// a // b
// @lengthOf(
, char[ 1 ] asx `crlf
line`
,char[
    // `tick` ""quote"" 'q'
    7 ]pack	,
    uint8	body , }MetaData x
    { string  x
`100% of %d`
    ,
    }
")).
Eval vm_compute in ("<<<M45>>>" ++ check (runes_of_ascii "root packet // " ++ [27880; 37322]%N ++ runes_of_ascii "
tag { // trailing space 
leftPad , }")).
Eval vm_compute in ("<<<M55>>>" ++ check (runes_of_ascii "options {
leftPad
=""x y""
    T
    =
true ;
    } options	{ _x=u8; } options  { u8x // `tick` ""quote"" 'q'
= char[ 1 ]	;
    // trailing space 
    metadata
    =float32 charz
= false ;
int = true
} // a // b")).
Eval vm_compute in ("<<<T55>>>" ++ terms [mkTok 1 "options" 1 0 false; mkTok 2 "{" 1 8 false; mkTok 42 "leftPad" 2 0 false; mkTok 4 "=" 3 0 false; mkTok 31 """x y""" 3 1 false; mkTok 42 "T" 4 4 false; mkTok 4 "=" 5 4 false; mkTok 10 "true" 6 0 false; mkTok 41 ";" 6 5 false; mkTok 3 "}" 7 4 false; mkTok 1 "options" 7 6 false; mkTok 2 "{" 7 14 false; mkTok 42 "_x" 7 16 false; mkTok 4 "=" 7 18 false; mkTok 20 "u8" 7 19 false; mkTok 41 ";" 7 21 false; mkTok 3 "}" 7 23 false; mkTok 1 "options" 7 25 false; mkTok 2 "{" 7 34 false; mkTok 42 "u8x" 7 36 false; mkTok 44 "// `tick` ""quote"" 'q'" 7 40 true; mkTok 4 "=" 8 0 false; mkTok 12 "char[" 8 2 false; mkTok 30 "1" 8 8 false; mkTok 13 "]" 8 10 false; mkTok 41 ";" 8 12 false; mkTok 44 "// trailing space " 9 4 true; mkTok 42 "metadata" 10 4 false; mkTok 4 "=" 11 4 false; mkTok 28 "float32" 11 5 false; mkTok 42 "charz" 11 13 false; mkTok 4 "=" 12 0 false; mkTok 11 "false" 12 2 false; mkTok 41 ";" 12 8 false; mkTok 42 "int" 13 0 false; mkTok 4 "=" 13 4 false; mkTok 10 "true" 13 6 false; mkTok 3 "}" 14 0 false; mkTok 44 "// a // b" 14 2 true; mkTok 0 "<EOF>" 14 11 false] (mkPacket (mkPtok 1 "options" 1 0 0) (Some (mkPtok 3 "}" 14 0 37)) [(DOption (mkOptionDef (mkSpan (mkPtok 1 "options" 1 0 0) (mkPtok 3 "}" 7 4 9)) (mkPtok 1 "options" 1 0 0) (mkPtok 2 "{" 1 8 1) [(mkOptionDecl (mkSpan (mkPtok 42 "leftPad" 2 0 2) (mkPtok 31 """x y""" 3 1 4)) (mkPtok 42 "leftPad" 2 0 2) (mkPtok 4 "=" 3 0 3) (VString (mkSpan (mkPtok 31 """x y""" 3 1 4) (mkPtok 31 """x y""" 3 1 4)) (mkPtok 31 """x y""" 3 1 4)) None); (mkOptionDecl (mkSpan (mkPtok 42 "T" 4 4 5) (mkPtok 41 ";" 6 5 8)) (mkPtok 42 "T" 4 4 5) (mkPtok 4 "=" 5 4 6) (VTrue (mkSpan (mkPtok 10 "true" 6 0 7) (mkPtok 10 "true" 6 0 7)) (mkPtok 10 "true" 6 0 7)) (Some (mkPtok 41 ";" 6 5 8)))] (mkPtok 3 "}" 7 4 9))); (DOption (mkOptionDef (mkSpan (mkPtok 1 "options" 7 6 10) (mkPtok 3 "}" 7 23 16)) (mkPtok 1 "options" 7 6 10) (mkPtok 2 "{" 7 14 11) [(mkOptionDecl (mkSpan (mkPtok 42 "_x" 7 16 12) (mkPtok 41 ";" 7 21 15)) (mkPtok 42 "_x" 7 16 12) (mkPtok 4 "=" 7 18 13) (VType (mkSpan (mkPtok 20 "u8" 7 19 14) (mkPtok 20 "u8" 7 19 14)) (TyBasic (mkSpan (mkPtok 20 "u8" 7 19 14) (mkPtok 20 "u8" 7 19 14)) (mkBasicType (mkSpan (mkPtok 20 "u8" 7 19 14) (mkPtok 20 "u8" 7 19 14)) (mkPtok 20 "u8" 7 19 14)))) (Some (mkPtok 41 ";" 7 21 15)))] (mkPtok 3 "}" 7 23 16))); (DOption (mkOptionDef (mkSpan (mkPtok 1 "options" 7 25 17) (mkPtok 3 "}" 14 0 37)) (mkPtok 1 "options" 7 25 17) (mkPtok 2 "{" 7 34 18) [(mkOptionDecl (mkSpan (mkPtok 42 "u8x" 7 36 19) (mkPtok 41 ";" 8 12 25)) (mkPtok 42 "u8x" 7 36 19) (mkPtok 4 "=" 8 0 21) (VType (mkSpan (mkPtok 12 "char[" 8 2 22) (mkPtok 13 "]" 8 10 24)) (TyFixed (mkSpan (mkPtok 12 "char[" 8 2 22) (mkPtok 13 "]" 8 10 24)) (mkFixedString (mkSpan (mkPtok 12 "char[" 8 2 22) (mkPtok 13 "]" 8 10 24)) (mkPtok 12 "char[" 8 2 22) (mkPtok 30 "1" 8 8 23) (mkPtok 13 "]" 8 10 24)))) (Some (mkPtok 41 ";" 8 12 25))); (mkOptionDecl (mkSpan (mkPtok 42 "metadata" 10 4 27) (mkPtok 28 "float32" 11 5 29)) (mkPtok 42 "metadata" 10 4 27) (mkPtok 4 "=" 11 4 28) (VType (mkSpan (mkPtok 28 "float32" 11 5 29) (mkPtok 28 "float32" 11 5 29)) (TyBasic (mkSpan (mkPtok 28 "float32" 11 5 29) (mkPtok 28 "float32" 11 5 29)) (mkBasicType (mkSpan (mkPtok 28 "float32" 11 5 29) (mkPtok 28 "float32" 11 5 29)) (mkPtok 28 "float32" 11 5 29)))) None); (mkOptionDecl (mkSpan (mkPtok 42 "charz" 11 13 30) (mkPtok 41 ";" 12 8 33)) (mkPtok 42 "charz" 11 13 30) (mkPtok 4 "=" 12 0 31) (VFalse (mkSpan (mkPtok 11 "false" 12 2 32) (mkPtok 11 "false" 12 2 32)) (mkPtok 11 "false" 12 2 32)) (Some (mkPtok 41 ";" 12 8 33))); (mkOptionDecl (mkSpan (mkPtok 42 "int" 13 0 34) (mkPtok 10 "true" 13 6 36)) (mkPtok 42 "int" 13 0 34) (mkPtok 4 "=" 13 4 35) (VTrue (mkSpan (mkPtok 10 "true" 13 6 36) (mkPtok 10 "true" 13 6 36)) (mkPtok 10 "true" 13 6 36)) None)] (mkPtok 3 "}" 14 0 37)))])).
Eval vm_compute in ("<<<M65>>>" ++ check (runes_of_ascii "
packet calculatedFrom {
repeat string	trueish,}

")).
Eval vm_compute in ("<<<M75>>>" ++ check (runes_of_ascii "// `tick` ""quote"" 'q'
packet
u { }  MetaData Packet { int64 u128//
, x crc `
` ,
    float64 len ,
f32
// @lengthOf(
//
A `
`, // 50% %s
}
//x
// `tick` ""quote"" 'q'
root
packet
crc { body {
    f64
leftPad , a1  , }
    , repeat uint8x{ repeat f32 string_ `
` ,
int8
    // " ++ [27880; 37322]%N ++ runes_of_ascii "
    T @calculatedFrom(
"""" ) `say ""hi""` ,
uint8 repeatCount ,} , }
")).
Eval vm_compute in ("<<<M85>>>" ++ check (runes_of_ascii "options{  }
options
    { o =
//x
//	t
false packetx=
    // @lengthOf(
    """ ++ [233]%N ++ runes_of_ascii "t" ++ [233]%N ++ runes_of_ascii """	asx = 0123456789 Foo = int8 a1
    = uint8
    ;
    } //	t")).
Eval vm_compute in ("<<<M95>>>" ++ check (runes_of_ascii "MetaData	metadata	{}
")).
Eval vm_compute in ("<<<M105>>>" ++ check (runes_of_ascii "// a // b
root
packet falsey // " ++ [27880; 37322]%N ++ runes_of_ascii "
{ }
packet	i8i8 { char[] body `" ++ [233]%N ++ runes_of_ascii "` , }
packet
Logon  { @calculatedFrom( ""\n"") @tag(7 ) @calculatedFrom( ""1"" )
repeat  char[// " ++ [27880; 37322]%N ++ runes_of_ascii "
1
/// triple
// c
] float `" ++ [233]%N ++ runes_of_ascii "` ,
    @lengthOf( As
)
    // " ++ [27880; 37322]%N ++ runes_of_ascii "
    lengthOf@calculatedFrom( ""`tick`"" ), @lengthOf( Foo) repeat char[ 0123456789 ] a1 , Packet `tab	here` ,
}
")).
Eval vm_compute in ("<<<M115>>>" ++ check (runes_of_ascii "
packet repeatCount {
    matchKey roots`crlf
line` , char
    int@lengthOf(
x_y_z  ) , calculatedFrom @calculatedFrom(
""a\""b"" // packet A { u8 x, }
) , }
root packet f32a
    {
/// triple
// trailing space 
@rightPad (
'0' // " ++ [27880; 37322]%N ++ runes_of_ascii "
) repeat u8 Pad, trueish calculatedFrom
    // `tick` ""quote"" 'q'
    , @calculatedFrom(
""" ++ [28040; 24687]%N ++ runes_of_ascii """ ) match msg_type
    as pack {""abc""
:
repeatCount ,
""{,}"" : repeatCount  ""a	b"" : calculatedFrom } ,} root packet repeatCount  { int32
    //
    stringy ,/// triple
}
root packet//	t
BodyLength {@lengthOf( As )//x
repeat charz { match chars
as chars { 0
: MetaDataX ""\n"" :
    // trailing space 
    crc	,
    } , } , }")).
Eval vm_compute in ("<<<M125>>>" ++ check (runes_of_ascii "packet zchar { @tag( 65535 ) @tag(
10 ) charz , char[] MetaDataX
@calculatedFrom( ""x y"" )	`line1
line2` ,
    } 	 ")).
Eval vm_compute in ("<<<T125>>>" ++ terms [mkTok 35 "packet" 1 0 false; mkTok 42 "zchar" 1 7 false; mkTok 2 "{" 1 13 false; mkTok 9 "@tag(" 1 15 false; mkTok 30 "65535" 1 21 false; mkTok 6 ")" 1 27 false; mkTok 9 "@tag(" 1 29 false; mkTok 30 "10" 2 0 false; mkTok 6 ")" 2 3 false; mkTok 42 "charz" 2 5 false; mkTok 40 "," 2 11 false; mkTok 16 "char[]" 2 13 false; mkTok 42 "MetaDataX" 2 20 false; mkTok 5 "@calculatedFrom(" 3 0 false; mkTok 31 """x y""" 3 17 false; mkTok 6 ")" 3 23 false; mkTok 43 (string_of_bytes [96; 108; 105; 110; 101; 49; 10; 108; 105; 110; 101; 50; 96]%N) 3 25 false; mkTok 40 "," 4 7 false; mkTok 3 "}" 5 4 false; mkTok 0 "<EOF>" 5 8 false] (mkPacket (mkPtok 35 "packet" 1 0 0) (Some (mkPtok 3 "}" 5 4 18)) [(DPacket (mkPacketDef (mkSpan (mkPtok 35 "packet" 1 0 0) (mkPtok 3 "}" 5 4 18)) None (mkPtok 35 "packet" 1 0 0) (mkPtok 42 "zchar" 1 7 1) (mkPtok 2 "{" 1 13 2) [(mkFieldWithAttr (mkSpan (mkPtok 9 "@tag(" 1 15 3) (mkPtok 40 "," 2 11 10)) [(FATag (mkSpan (mkPtok 9 "@tag(" 1 15 3) (mkPtok 6 ")" 1 27 5)) (mkTagAttr (mkSpan (mkPtok 9 "@tag(" 1 15 3) (mkPtok 6 ")" 1 27 5)) (mkPtok 9 "@tag(" 1 15 3) (mkPtok 30 "65535" 1 21 4) (mkPtok 6 ")" 1 27 5))); (FATag (mkSpan (mkPtok 9 "@tag(" 1 29 6) (mkPtok 6 ")" 2 3 8)) (mkTagAttr (mkSpan (mkPtok 9 "@tag(" 1 29 6) (mkPtok 6 ")" 2 3 8)) (mkPtok 9 "@tag(" 1 29 6) (mkPtok 30 "10" 2 0 7) (mkPtok 6 ")" 2 3 8)))] (ObjectField (mkSpan (mkPtok 42 "charz" 2 5 9) (mkPtok 40 "," 2 11 10)) None (mkPtok 42 "charz" 2 5 9) None None (mkPtok 40 "," 2 11 10))); (mkFieldWithAttr (mkSpan (mkPtok 16 "char[]" 2 13 11) (mkPtok 40 "," 4 7 17)) [] (CheckSumField (mkSpan (mkPtok 16 "char[]" 2 13 11) (mkPtok 40 "," 4 7 17)) (mkChecksumFieldDecl (mkSpan (mkPtok 16 "char[]" 2 13 11) (mkPtok 40 "," 4 7 17)) (Some (TyDynamic (mkSpan (mkPtok 16 "char[]" 2 13 11) (mkPtok 16 "char[]" 2 13 11)) (mkDynamicString (mkSpan (mkPtok 16 "char[]" 2 13 11) (mkPtok 16 "char[]" 2 13 11)) (mkPtok 16 "char[]" 2 13 11)))) (mkPtok 42 "MetaDataX" 2 20 12) (mkCalculatedFrom (mkSpan (mkPtok 5 "@calculatedFrom(" 3 0 13) (mkPtok 6 ")" 3 23 15)) (mkPtok 5 "@calculatedFrom(" 3 0 13) (mkPtok 31 """x y""" 3 17 14) (mkPtok 6 ")" 3 23 15)) (Some (mkPtok 43 (string_of_bytes [96; 108; 105; 110; 101; 49; 10; 108; 105; 110; 101; 50; 96]%N) 3 25 16)) (mkPtok 40 "," 4 7 17))))] (mkPtok 3 "}" 5 4 18)))])).
Eval vm_compute in ("<<<M135>>>" ++ check (runes_of_ascii "
")).
Eval vm_compute in ("<<<M145>>>" ++ check (runes_of_ascii "root packet
chars{ @rightPad
    ( )o { roots `100% of %d` ,repeat uint64 pack
`` ,} // " ++ [128512]%N ++ runes_of_ascii " emoji
, }
")).
Eval vm_compute in ("<<<M155>>>" ++ check (runes_of_ascii "MetaData float{
// `tick` ""quote"" 'q'
// 50% %s
i64
    stringy,	} packet metadata
{ @calculatedFrom( ""a	b"" ) @rightPad
    ( )
char[]
    // 50% %s
    As , i64 asx ,@calculatedFrom(
""// no comment"" ) x { repeat
MetaDataX {
BodyLength ``, }
    , i32 u128, _x // 50% %s
u128, }
// 50% %s
// packet A { u8 x, }
, match u as o
{ 7 : As ""x y""
:
f32a ,
    } ,
    lengthOf@lengthOf( i8i8 )  , @lengthOf(//x
roots )
@calculatedFrom("""" )
@rightPad( '0' )repeat char[
7 ] falsey,@leftPad
( )
i32 _x `" ++ [28040; 24687; 31867; 22411]%N ++ runes_of_ascii "` , } root packet tag { @tag( 42  )
    repeat
zchar[ 007 ] f32a
    ,
@rightPad // `tick` ""quote"" 'q'
(
    ) zchar[ 65535
] Pad ,int64 body , leftPad
`it's` ,string lengthOf , i32 packetx // a // b
@lengthOf( asx )`two words` ,
    @leftPad ( '0'
)	repeat	msg_type
    rootA,
options1 u8x // a // b
,  @tag(
    //x
    42) zchar[ 65535
// c
//x
] As
@lengthOf( // packet A { u8 x, }
a1
    ) ``
,	} root packet charz{ @tag( 4294967296 )
    string
options1`100% of %d`,} packet Header{}
")).
Eval vm_compute in ("<<<M165>>>" ++ check (runes_of_ascii "MetaData rootA {
    zchar[ 007	] uint8x
    `u8 x,` ,char[] lengthOf `a\` , As MetaDataX ,zchar[ 10 ]
len , // @lengthOf(
chars	As , }	packet pack {
    } root packet chars {@tag( //	t
3 ) i64// 50% %s
leftPad `tab	here` ,	rootA , @leftPad ( '0') repeat
// trailing space 
// trailing space 
int64 uint8x // trailing space 
, f32a tag
    , } // @lengthOf(")).
Eval vm_compute in ("<<<M175>>>" ++ check (runes_of_ascii "options
    {	}")).
Eval vm_compute in ("<<<M185>>>" ++ check (runes_of_ascii "packet Foo
    // packet A { u8 x, }
    { @lengthOf( u128// " ++ [128512]%N ++ runes_of_ascii " emoji
) // c
pack
{
    match x as string_
    // " ++ [128512]%N ++ runes_of_ascii " emoji
    {""" ++ [28040; 24687]%N ++ runes_of_ascii """
: BodyLength ,} , }// a // b
,char[ 4294967296 ] i64_ `" ++ [233]%N ++ runes_of_ascii "` ,@lengthOf(u8x
    ) repeat float64 f32a ,
// a // b
// packet A { u8 x, }
} // 50% %s
options { MetaDataX=  ""a\\""
pack =// packet A { u8 x, }
false;	options1
    // a // b
    = char[]  Pad= '0'
    ;
u8x =false}
")).
Eval vm_compute in ("<<<M195>>>" ++ check (runes_of_ascii "root
// trailing space 
// `tick` ""quote"" 'q'
packet crc
    /// triple
    {
@tag( 0123456789  ) repeat int64 o // 50% %s
,  @calculatedFrom(
    ""1"" ) match
    // trailing space 
    asx as
pack {
[ // " ++ [128512]%N ++ runes_of_ascii " emoji
0 ,255,	4294967296 , ""x y""	,
// " ++ [128512]%N ++ runes_of_ascii " emoji
// packet A { u8 x, }
""x y""
    , 42 ] : u8x,
    },
}")).
Eval vm_compute in ("<<<T195>>>" ++ terms [mkTok 34 "root" 1 0 false; mkTok 44 "// trailing space " 2 0 true; mkTok 44 "// `tick` ""quote"" 'q'" 3 0 true; mkTok 35 "packet" 4 0 false; mkTok 42 "crc" 4 7 false; mkTok 44 "/// triple" 5 4 true; mkTok 2 "{" 6 4 false; mkTok 9 "@tag(" 7 0 false; mkTok 30 "0123456789" 7 6 false; mkTok 6 ")" 7 18 false; mkTok 36 "repeat" 7 20 false; mkTok 27 "int64" 7 27 false; mkTok 42 "o" 7 33 false; mkTok 44 "// 50% %s" 7 35 true; mkTok 40 "," 8 0 false; mkTok 5 "@calculatedFrom(" 8 3 false; mkTok 31 """1""" 9 4 false; mkTok 6 ")" 9 8 false; mkTok 38 "match" 9 10 false; mkTok 44 "// trailing space " 10 4 true; mkTok 42 "asx" 11 4 false; mkTok 17 "as" 11 8 false; mkTok 42 "pack" 12 0 false; mkTok 2 "{" 12 5 false; mkTok 18 "[" 13 0 false; mkTok 44 (string_of_bytes [47; 47; 32; 240; 159; 152; 128; 32; 101; 109; 111; 106; 105]%N) 13 2 true; mkTok 30 "0" 14 0 false; mkTok 40 "," 14 2 false; mkTok 30 "255" 14 3 false; mkTok 40 "," 14 6 false; mkTok 30 "4294967296" 14 8 false; mkTok 40 "," 14 19 false; mkTok 31 """x y""" 14 21 false; mkTok 40 "," 14 27 false; mkTok 44 (string_of_bytes [47; 47; 32; 240; 159; 152; 128; 32; 101; 109; 111; 106; 105]%N) 15 0 true; mkTok 44 "// packet A { u8 x, }" 16 0 true; mkTok 31 """x y""" 17 0 false; mkTok 40 "," 18 4 false; mkTok 30 "42" 18 6 false; mkTok 13 "]" 18 9 false; mkTok 39 ":" 18 11 false; mkTok 42 "u8x" 18 13 false; mkTok 40 "," 18 16 false; mkTok 3 "}" 19 4 false; mkTok 40 "," 19 5 false; mkTok 3 "}" 20 0 false; mkTok 0 "<EOF>" 20 1 false] (mkPacket (mkPtok 34 "root" 1 0 0) (Some (mkPtok 3 "}" 20 0 45)) [(DPacket (mkPacketDef (mkSpan (mkPtok 34 "root" 1 0 0) (mkPtok 3 "}" 20 0 45)) (Some (mkPtok 34 "root" 1 0 0)) (mkPtok 35 "packet" 4 0 3) (mkPtok 42 "crc" 4 7 4) (mkPtok 2 "{" 6 4 6) [(mkFieldWithAttr (mkSpan (mkPtok 9 "@tag(" 7 0 7) (mkPtok 40 "," 8 0 14)) [(FATag (mkSpan (mkPtok 9 "@tag(" 7 0 7) (mkPtok 6 ")" 7 18 9)) (mkTagAttr (mkSpan (mkPtok 9 "@tag(" 7 0 7) (mkPtok 6 ")" 7 18 9)) (mkPtok 9 "@tag(" 7 0 7) (mkPtok 30 "0123456789" 7 6 8) (mkPtok 6 ")" 7 18 9)))] (MetaField (mkSpan (mkPtok 36 "repeat" 7 20 10) (mkPtok 40 "," 8 0 14)) (Some (mkPtok 36 "repeat" 7 20 10)) (mkMetaDecl (mkSpan (mkPtok 27 "int64" 7 27 11) (mkPtok 40 "," 8 0 14)) (TyBasic (mkSpan (mkPtok 27 "int64" 7 27 11) (mkPtok 27 "int64" 7 27 11)) (mkBasicType (mkSpan (mkPtok 27 "int64" 7 27 11) (mkPtok 27 "int64" 7 27 11)) (mkPtok 27 "int64" 7 27 11))) (mkPtok 42 "o" 7 33 12) None (mkPtok 40 "," 8 0 14)))); (mkFieldWithAttr (mkSpan (mkPtok 5 "@calculatedFrom(" 8 3 15) (mkPtok 40 "," 19 5 44)) [(FACalculatedFrom (mkSpan (mkPtok 5 "@calculatedFrom(" 8 3 15) (mkPtok 6 ")" 9 8 17)) (mkCalculatedFrom (mkSpan (mkPtok 5 "@calculatedFrom(" 8 3 15) (mkPtok 6 ")" 9 8 17)) (mkPtok 5 "@calculatedFrom(" 8 3 15) (mkPtok 31 """1""" 9 4 16) (mkPtok 6 ")" 9 8 17)))] (MatchField (mkSpan (mkPtok 38 "match" 9 10 18) (mkPtok 40 "," 19 5 44)) (mkMatchFieldDecl (mkSpan (mkPtok 38 "match" 9 10 18) (mkPtok 3 "}" 19 4 43)) (mkPtok 38 "match" 9 10 18) (mkPtok 42 "asx" 11 4 20) (mkPtok 17 "as" 11 8 21) (mkPtok 42 "pack" 12 0 22) (mkPtok 2 "{" 12 5 23) [(mkMatchPair (mkSpan (mkPtok 18 "[" 13 0 24) (mkPtok 40 "," 18 16 42)) (MKList (mkKeyList (mkSpan (mkPtok 18 "[" 13 0 24) (mkPtok 13 "]" 18 9 39)) (mkPtok 18 "[" 13 0 24) (mkPtok 30 "0" 14 0 26) [((mkPtok 40 "," 14 2 27), (mkPtok 30 "255" 14 3 28)); ((mkPtok 40 "," 14 6 29), (mkPtok 30 "4294967296" 14 8 30)); ((mkPtok 40 "," 14 19 31), (mkPtok 31 """x y""" 14 21 32)); ((mkPtok 40 "," 14 27 33), (mkPtok 31 """x y""" 17 0 36)); ((mkPtok 40 "," 18 4 37), (mkPtok 30 "42" 18 6 38))] (mkPtok 13 "]" 18 9 39))) (mkPtok 39 ":" 18 11 40) (mkPtok 42 "u8x" 18 13 41) (Some (mkPtok 40 "," 18 16 42)))] (mkPtok 3 "}" 19 4 43)) (mkPtok 40 "," 19 5 44)))] (mkPtok 3 "}" 20 0 45)))])).
Eval vm_compute in ("<<<M205>>>" ++ check (runes_of_ascii "packet stringy { repeat	f32a o`" ++ [28040; 24687; 31867; 22411]%N ++ runes_of_ascii "`
    , @lengthOf( f32a) /// triple
char[
    42 ] uint8x ,
@tag( 42// trailing space 
)
    float @lengthOf( MetaDataX ),
    string
    T	,
    match
_x as
leftPad {
0123456789  : stringy, }
    ,
@leftPad ( )
    repeat
uint8x { string_{ char[	255]
a1 @calculatedFrom(
    // " ++ [27880; 37322]%N ++ runes_of_ascii "
    ""abc"" ) , metadata
@lengthOf( asx
    ) // packet A { u8 x, }
,}
//	t
// " ++ [27880; 37322]%N ++ runes_of_ascii "
,
    repeat
    falsey , Logon {As,
    repeat char[] u , }, }  , @leftPad (' ' // a // b
)	char[10
] charz @lengthOf(float
    )
    // 50% %s
    ,@calculatedFrom( """ ++ [233]%N ++ runes_of_ascii "t" ++ [233]%N ++ runes_of_ascii """)
i64 trueish `" ++ [28040; 24687; 31867; 22411]%N ++ runes_of_ascii "` // `tick` ""quote"" 'q'
,
}options
// c
// a // b
{ options1 =  7 ; u =
""""
    ;
} root packet
Packet {
char As `` ,
    repeat leftPad //x
{match
    x_y_z
    as x_y_z	{	""abc"" : f32a
    [
    1
    //x
    ,42 ]
:	rootA
, 7 : pack	,
    ""abc""
    : _x
""1""  :	asx, ""packet"" :int// trailing space 
}
, }// a // b
, @calculatedFrom( ""\n"" )repeat
    f64 u8x
, @lengthOf(
    zchar )
    o,
    pack @lengthOf(
falsey ) `two words` , zchar[ 1]asx @lengthOf( uint8x)
    , @calculatedFrom( ""\n""
// c
// 50% %s
)
    char[ 42 ] // a // b
u @calculatedFrom(""packet"" )
    , match // " ++ [27880; 37322]%N ++ runes_of_ascii "
rootA as i8i8{ 00
// `tick` ""quote"" 'q'
// packet A { u8 x, }
: A ,	0 : o 0123456789
    :
len	,
    65535 : zchar
    } ,
}
//
")).
Eval vm_compute in ("<<<M215>>>" ++ check (runes_of_ascii "packet i8i8  { string
    // `tick` ""quote"" 'q'
    string_ `crlf
line`
    , pack , As
// trailing space 
// trailing space 
@calculatedFrom( ""a	b""
    ) ,  f32 body
`tab	here` , repeatCount
@calculatedFrom( """ ++ [28040; 24687]%N ++ runes_of_ascii """), char[  255 ] packetx , @calculatedFrom(
    ""\" ++ [233]%N ++ runes_of_ascii """ ) @calculatedFrom(  ""abc""  ) @rightPad ( ) // @lengthOf(
x`two words` , @calculatedFrom( ""a	b"")i32 stringy
    , @rightPad // trailing space 
()
    Header
    `tab	here`	,
} packet i64_ {
@rightPad ( )
    char[
10 ]i8i8	, u {
char[]
    roots
    @calculatedFrom(
""a\\"" // trailing space 
) `it's` , } , len charz , float64 Z9_, int64 asx
@lengthOf(
    stringy ) `doc` ,uint8 repeatCount , uint16 i64_ , }
MetaData// c
Header {
    // c
    }
    packet As // a // b
{ match //	t
uint8x as tag {[
    ""CRC32"" ,
""it's""  , 1
    , ""{,}"" ,
"""" ] // c
: charz ,
""""
    //
    : asx } ,//x
}
    packet lengthOf
{ string_
@lengthOf(f32a// c
) `say ""hi""`  ,
    @leftPad// `tick` ""quote"" 'q'
(//	t
) char[] matchKey ,repeat
    float32
Packet `crlf
line`, @tag( 255
/// triple
//	t
) float { repeat
x
    {
int , int16
Packet@calculatedFrom(  """")
    , } ,trueish { match calculatedFrom	as// @lengthOf(
matchKey {  [
10 ]  :Foo, ""\n""  :MetaDataX // `tick` ""quote"" 'q'
,}
, u16 options1
// 50% %s
// 50% %s
`line1
line2`, } ,
a1
crc
    `{ , }` ,repeat zchar `` ,
}	,
// 50% %s
//	t
@tag(// `tick` ""quote"" 'q'
4294967296	)@tag( 007/// triple
)
    @calculatedFrom(
    """" )
i16 _x ``, @leftPad( '0' ) repeat	uint16 roots
    ,repeat stringy{Header{
// @lengthOf(
// " ++ [27880; 37322]%N ++ runes_of_ascii "
i16 As @calculatedFrom( ""\" ++ [233]%N ++ runes_of_ascii """
    // @lengthOf(
    ) `` , x {	repeat zchar[ 007 ]
    asx , match Packet as string_{
007: chars , [ /// triple
""\" ++ [233]%N ++ runes_of_ascii """ , 255 ,	""" ++ [28040; 24687]%N ++ runes_of_ascii """
    , 42
,00 ,""\" ++ [233]%N ++ runes_of_ascii """ ,""abc""
    , 007
    ]	:// " ++ [27880; 37322]%N ++ runes_of_ascii "
leftPad ,42 : metadata [
    """ ++ [28040; 24687]%N ++ runes_of_ascii """ , ""\n""//x
]
:
T 3 :
repeatCount ,	},
char[	4294967296] MetaDataX
,i64 f32a , } , } , repeat int32 msg_type,
    // a // b
    } , @lengthOf( charz
) // " ++ [27880; 37322]%N ++ runes_of_ascii "
trueish
    // trailing space 
    leftPad  `doc`
    , @lengthOf( f32a) T u `` //x
,	@leftPad (
'\x00' )
    u8 x_y_z@lengthOf(
T ) `two words` ,}")).
Eval vm_compute in ("<<<M225>>>" ++ check (runes_of_ascii "packet	crc { //
match	uint8x as x { 0: charz [0123456789, 00, 65535 ,
    //x
    ""abc""
//
// c
,
// " ++ [128512]%N ++ runes_of_ascii " emoji
//	t
10	, 42
,
""`tick`"" ,00
    ] //
:
// packet A { u8 x, }
// c
crc
    ,[ ""{,}"" ] :
    tag,	""abc""
    :
len , ""`tick`"" /// triple
: int }
    , }
packet u {
    string
// a // b
// " ++ [27880; 37322]%N ++ runes_of_ascii "
Header, @calculatedFrom( """ ++ [233]%N ++ runes_of_ascii "t" ++ [233]%N ++ runes_of_ascii """ )
repeat int Z9_ ,@calculatedFrom(
    ""// no comment""
) float32 // trailing space 
uint8x`u8 x,` , Foo
@calculatedFrom( // " ++ [128512]%N ++ runes_of_ascii " emoji
""a\\"" )`
` , }")).
Eval vm_compute in ("<<<M235>>>" ++ check (runes_of_ascii "options // packet A { u8 x, }
{ MetaDataX
=
00
    // trailing space 
    ; stringy = ""packet"" Header= char[ 42 ]} packet As  {
} packet trueish{ BodyLength ,
    @tag(
42 )u8 msg_type @calculatedFrom(
""a\""b"" ) ,
repeat  u16 u128
, @calculatedFrom(
    ""abc"")
// `tick` ""quote"" 'q'
// packet A { u8 x, }
match charz as x_y_z {3	:
    //	t
    Z9_, 7: repeatCount [ //x
1 , ""a\\""// c
] :
    i64_
    , ""it's"":
    Logon },
f32 // 50% %s
int `it's`, @calculatedFrom( ""{,}""
    )
falsey @calculatedFrom( ""a\""b"" )
, @lengthOf(A	)
    Header
// 50% %s
/// triple
@calculatedFrom( ""packet"" )
    `tab	here`  ,char[3 // trailing space 
] zchar@lengthOf( rootA ) , }

")).
Eval vm_compute in ("<<<M245>>>" ++ check (runes_of_ascii "packet
    body { @tag( 42
    ) char[ 4294967296
] chars @calculatedFrom( ""{,}"")
`doc` // " ++ [27880; 37322]%N ++ runes_of_ascii "
,
repeat string lengthOf , @tag(
    3 /// triple
) string float @lengthOf( o
),
    u32 pack `100% of %d`, stringy
@lengthOf( repeatCount
    ) `say ""hi""`  , float32 crc `two words` , } packet zchar { @tag(
    0
    )
    @tag(  1 // a // b
)
@lengthOf(
    // `tick` ""quote"" 'q'
    Z9_) u32 Logon	@calculatedFrom(  ""x y""
)	, @tag( //	t
1 )  string
    packetx@lengthOf( u8x
//	t
// `tick` ""quote"" 'q'
)	, zchar[10 ] uint8x
    /// triple
    `// not a comment`
, repeat // a // b
stringy{ i16
    Z9_`// not a comment` ,repeat zchar[
    4294967296 ] u
,zchar @calculatedFrom(  ""{,}"" ) `a\` , }
,
rootA  u128 , } packet asx {
repeat i64_ ,@lengthOf( msg_type )repeat Z9_ rootA
    , }")).
Eval vm_compute in ("<<<M255>>>" ++ check (runes_of_ascii "
packet body { u32 BodyLength , i64 Pad	@calculatedFrom(//	t
""// no comment"" ) , @tag( 00 )
    @tag( 0123456789 ) @calculatedFrom(	""CRC32"" ) char i8i8 // trailing space 
@calculatedFrom( ""// no comment"" )	,
@tag( 3 ) @leftPad(
    '\x00'
)@rightPad
( ) match
string_ as MetaDataX//x
{""packet"" :float , [
    ""abc""
, """", 3
,
// @lengthOf(
/// triple
65535
    , ""a	b"" , 42 , 1 , ""packet"" ]:
    i64_ // @lengthOf(
, 7
    // packet A { u8 x, }
    :	lengthOf
0
    //x
    : len
    ,
10// 50% %s
: len , [0  ] :A, }
, }
// `tick` ""quote"" 'q'
")).
Eval vm_compute in ("<<<M265>>>" ++ check (runes_of_ascii "packet metadata {
    zchar[
1 ] stringy
    ,repeat float uint8x,
@tag(
255 )
    // `tick` ""quote"" 'q'
    zchar
    // `tick` ""quote"" 'q'
    @lengthOf( _x	), tag
@lengthOf( /// triple
i64_ ) , repeat repeatCount
{ char o
    // `tick` ""quote"" 'q'
    ,
    char[ 7 ]
    T , }
    ,
} root
packet	u8x
{ @tag( 0)repeat
    falsey string_ , @calculatedFrom( """"
    ) lengthOf, u16 calculatedFrom ,}
")).
Eval vm_compute in ("<<<T265>>>" ++ terms [mkTok 35 "packet" 1 0 false; mkTok 42 "metadata" 1 7 false; mkTok 2 "{" 1 16 false; mkTok 14 "zchar[" 2 4 false; mkTok 30 "1" 3 0 false; mkTok 13 "]" 3 2 false; mkTok 42 "stringy" 3 4 false; mkTok 40 "," 4 4 false; mkTok 36 "repeat" 4 5 false; mkTok 42 "float" 4 12 false; mkTok 42 "uint8x" 4 18 false; mkTok 40 "," 4 24 false; mkTok 9 "@tag(" 5 0 false; mkTok 30 "255" 6 0 false; mkTok 6 ")" 6 4 false; mkTok 44 "// `tick` ""quote"" 'q'" 7 4 true; mkTok 42 "zchar" 8 4 false; mkTok 44 "// `tick` ""quote"" 'q'" 9 4 true; mkTok 7 "@lengthOf(" 10 4 false; mkTok 42 "_x" 10 15 false; mkTok 6 ")" 10 18 false; mkTok 40 "," 10 19 false; mkTok 42 "tag" 10 21 false; mkTok 7 "@lengthOf(" 11 0 false; mkTok 44 "/// triple" 11 11 true; mkTok 42 "i64_" 12 0 false; mkTok 6 ")" 12 5 false; mkTok 40 "," 12 7 false; mkTok 36 "repeat" 12 9 false; mkTok 42 "repeatCount" 12 16 false; mkTok 2 "{" 13 0 false; mkTok 19 "char" 13 2 false; mkTok 42 "o" 13 7 false; mkTok 44 "// `tick` ""quote"" 'q'" 14 4 true; mkTok 40 "," 15 4 false; mkTok 12 "char[" 16 4 false; mkTok 30 "7" 16 10 false; mkTok 13 "]" 16 12 false; mkTok 42 "T" 17 4 false; mkTok 40 "," 17 6 false; mkTok 3 "}" 17 8 false; mkTok 40 "," 18 4 false; mkTok 3 "}" 19 0 false; mkTok 34 "root" 19 2 false; mkTok 35 "packet" 20 0 false; mkTok 42 "u8x" 20 7 false; mkTok 2 "{" 21 0 false; mkTok 9 "@tag(" 21 2 false; mkTok 30 "0" 21 8 false; mkTok 6 ")" 21 9 false; mkTok 36 "repeat" 21 10 false; mkTok 42 "falsey" 22 4 false; mkTok 42 "string_" 22 11 false; mkTok 40 "," 22 19 false; mkTok 5 "@calculatedFrom(" 22 21 false; mkTok 31 """""" 22 38 false; mkTok 6 ")" 23 4 false; mkTok 42 "lengthOf" 23 6 false; mkTok 40 "," 23 14 false; mkTok 21 "u16" 23 16 false; mkTok 42 "calculatedFrom" 23 20 false; mkTok 40 "," 23 35 false; mkTok 3 "}" 23 36 false; mkTok 0 "<EOF>" 24 0 false] (mkPacket (mkPtok 35 "packet" 1 0 0) (Some (mkPtok 3 "}" 23 36 62)) [(DPacket (mkPacketDef (mkSpan (mkPtok 35 "packet" 1 0 0) (mkPtok 3 "}" 19 0 42)) None (mkPtok 35 "packet" 1 0 0) (mkPtok 42 "metadata" 1 7 1) (mkPtok 2 "{" 1 16 2) [(mkFieldWithAttr (mkSpan (mkPtok 14 "zchar[" 2 4 3) (mkPtok 40 "," 4 4 7)) [] (MetaField (mkSpan (mkPtok 14 "zchar[" 2 4 3) (mkPtok 40 "," 4 4 7)) None (mkMetaDecl (mkSpan (mkPtok 14 "zchar[" 2 4 3) (mkPtok 40 "," 4 4 7)) (TyFixed (mkSpan (mkPtok 14 "zchar[" 2 4 3) (mkPtok 13 "]" 3 2 5)) (mkFixedString (mkSpan (mkPtok 14 "zchar[" 2 4 3) (mkPtok 13 "]" 3 2 5)) (mkPtok 14 "zchar[" 2 4 3) (mkPtok 30 "1" 3 0 4) (mkPtok 13 "]" 3 2 5))) (mkPtok 42 "stringy" 3 4 6) None (mkPtok 40 "," 4 4 7)))); (mkFieldWithAttr (mkSpan (mkPtok 36 "repeat" 4 5 8) (mkPtok 40 "," 4 24 11)) [] (ObjectField (mkSpan (mkPtok 36 "repeat" 4 5 8) (mkPtok 40 "," 4 24 11)) (Some (mkPtok 36 "repeat" 4 5 8)) (mkPtok 42 "float" 4 12 9) (Some (mkPtok 42 "uint8x" 4 18 10)) None (mkPtok 40 "," 4 24 11))); (mkFieldWithAttr (mkSpan (mkPtok 9 "@tag(" 5 0 12) (mkPtok 40 "," 10 19 21)) [(FATag (mkSpan (mkPtok 9 "@tag(" 5 0 12) (mkPtok 6 ")" 6 4 14)) (mkTagAttr (mkSpan (mkPtok 9 "@tag(" 5 0 12) (mkPtok 6 ")" 6 4 14)) (mkPtok 9 "@tag(" 5 0 12) (mkPtok 30 "255" 6 0 13) (mkPtok 6 ")" 6 4 14)))] (LengthField (mkSpan (mkPtok 42 "zchar" 8 4 16) (mkPtok 40 "," 10 19 21)) (mkLengthFieldDecl (mkSpan (mkPtok 42 "zchar" 8 4 16) (mkPtok 40 "," 10 19 21)) None (mkPtok 42 "zchar" 8 4 16) (mkLengthOf (mkSpan (mkPtok 7 "@lengthOf(" 10 4 18) (mkPtok 6 ")" 10 18 20)) (mkPtok 7 "@lengthOf(" 10 4 18) (mkPtok 42 "_x" 10 15 19) (mkPtok 6 ")" 10 18 20)) None (mkPtok 40 "," 10 19 21)))); (mkFieldWithAttr (mkSpan (mkPtok 42 "tag" 10 21 22) (mkPtok 40 "," 12 7 27)) [] (LengthField (mkSpan (mkPtok 42 "tag" 10 21 22) (mkPtok 40 "," 12 7 27)) (mkLengthFieldDecl (mkSpan (mkPtok 42 "tag" 10 21 22) (mkPtok 40 "," 12 7 27)) None (mkPtok 42 "tag" 10 21 22) (mkLengthOf (mkSpan (mkPtok 7 "@lengthOf(" 11 0 23) (mkPtok 6 ")" 12 5 26)) (mkPtok 7 "@lengthOf(" 11 0 23) (mkPtok 42 "i64_" 12 0 25) (mkPtok 6 ")" 12 5 26)) None (mkPtok 40 "," 12 7 27)))); (mkFieldWithAttr (mkSpan (mkPtok 36 "repeat" 12 9 28) (mkPtok 40 "," 18 4 41)) [] (InerObjectField (mkSpan (mkPtok 36 "repeat" 12 9 28) (mkPtok 40 "," 18 4 41)) (Some (mkPtok 36 "repeat" 12 9 28)) (InerObjectDecl (mkSpan (mkPtok 42 "repeatCount" 12 16 29) (mkPtok 3 "}" 17 8 40)) (mkPtok 42 "repeatCount" 12 16 29) (mkPtok 2 "{" 13 0 30) [(MetaField (mkSpan (mkPtok 19 "char" 13 2 31) (mkPtok 40 "," 15 4 34)) None (mkMetaDecl (mkSpan (mkPtok 19 "char" 13 2 31) (mkPtok 40 "," 15 4 34)) (TyBasic (mkSpan (mkPtok 19 "char" 13 2 31) (mkPtok 19 "char" 13 2 31)) (mkBasicType (mkSpan (mkPtok 19 "char" 13 2 31) (mkPtok 19 "char" 13 2 31)) (mkPtok 19 "char" 13 2 31))) (mkPtok 42 "o" 13 7 32) None (mkPtok 40 "," 15 4 34))); (MetaField (mkSpan (mkPtok 12 "char[" 16 4 35) (mkPtok 40 "," 17 6 39)) None (mkMetaDecl (mkSpan (mkPtok 12 "char[" 16 4 35) (mkPtok 40 "," 17 6 39)) (TyFixed (mkSpan (mkPtok 12 "char[" 16 4 35) (mkPtok 13 "]" 16 12 37)) (mkFixedString (mkSpan (mkPtok 12 "char[" 16 4 35) (mkPtok 13 "]" 16 12 37)) (mkPtok 12 "char[" 16 4 35) (mkPtok 30 "7" 16 10 36) (mkPtok 13 "]" 16 12 37))) (mkPtok 42 "T" 17 4 38) None (mkPtok 40 "," 17 6 39)))] (mkPtok 3 "}" 17 8 40)) (mkPtok 40 "," 18 4 41)))] (mkPtok 3 "}" 19 0 42))); (DPacket (mkPacketDef (mkSpan (mkPtok 34 "root" 19 2 43) (mkPtok 3 "}" 23 36 62)) (Some (mkPtok 34 "root" 19 2 43)) (mkPtok 35 "packet" 20 0 44) (mkPtok 42 "u8x" 20 7 45) (mkPtok 2 "{" 21 0 46) [(mkFieldWithAttr (mkSpan (mkPtok 9 "@tag(" 21 2 47) (mkPtok 40 "," 22 19 53)) [(FATag (mkSpan (mkPtok 9 "@tag(" 21 2 47) (mkPtok 6 ")" 21 9 49)) (mkTagAttr (mkSpan (mkPtok 9 "@tag(" 21 2 47) (mkPtok 6 ")" 21 9 49)) (mkPtok 9 "@tag(" 21 2 47) (mkPtok 30 "0" 21 8 48) (mkPtok 6 ")" 21 9 49)))] (ObjectField (mkSpan (mkPtok 36 "repeat" 21 10 50) (mkPtok 40 "," 22 19 53)) (Some (mkPtok 36 "repeat" 21 10 50)) (mkPtok 42 "falsey" 22 4 51) (Some (mkPtok 42 "string_" 22 11 52)) None (mkPtok 40 "," 22 19 53))); (mkFieldWithAttr (mkSpan (mkPtok 5 "@calculatedFrom(" 22 21 54) (mkPtok 40 "," 23 14 58)) [(FACalculatedFrom (mkSpan (mkPtok 5 "@calculatedFrom(" 22 21 54) (mkPtok 6 ")" 23 4 56)) (mkCalculatedFrom (mkSpan (mkPtok 5 "@calculatedFrom(" 22 21 54) (mkPtok 6 ")" 23 4 56)) (mkPtok 5 "@calculatedFrom(" 22 21 54) (mkPtok 31 """""" 22 38 55) (mkPtok 6 ")" 23 4 56)))] (ObjectField (mkSpan (mkPtok 42 "lengthOf" 23 6 57) (mkPtok 40 "," 23 14 58)) None (mkPtok 42 "lengthOf" 23 6 57) None None (mkPtok 40 "," 23 14 58))); (mkFieldWithAttr (mkSpan (mkPtok 21 "u16" 23 16 59) (mkPtok 40 "," 23 35 61)) [] (MetaField (mkSpan (mkPtok 21 "u16" 23 16 59) (mkPtok 40 "," 23 35 61)) None (mkMetaDecl (mkSpan (mkPtok 21 "u16" 23 16 59) (mkPtok 40 "," 23 35 61)) (TyBasic (mkSpan (mkPtok 21 "u16" 23 16 59) (mkPtok 21 "u16" 23 16 59)) (mkBasicType (mkSpan (mkPtok 21 "u16" 23 16 59) (mkPtok 21 "u16" 23 16 59)) (mkPtok 21 "u16" 23 16 59))) (mkPtok 42 "calculatedFrom" 23 20 60) None (mkPtok 40 "," 23 35 61))))] (mkPtok 3 "}" 23 36 62)))])).
Eval vm_compute in ("<<<M275>>>" ++ check (runes_of_ascii "root packet body { o {a1
rootA , },@leftPad
( ' ' // a // b
)
    // packet A { u8 x, }
    charz int, repeat packetx
// trailing space 
// " ++ [128512]%N ++ runes_of_ascii " emoji
{ repeat Z9_{  lengthOf @calculatedFrom( ""`tick`""
    )
`a\` ,
} ,int8 i64_
// `tick` ""quote"" 'q'
// 50% %s
,} , @lengthOf(
    len ) repeat
    zchar{
    /// triple
    Pad a1 , int16 a1 @calculatedFrom(
    ""1""// 50% %s
) `` ,	rootA	{ match a1 as options1	{ 4294967296 :  Header ,""{,}""
    :i8i8 [ """ ++ [28040; 24687]%N ++ runes_of_ascii """ , 7 ] :x , """":i64_ , }
, f32a // " ++ [27880; 37322]%N ++ runes_of_ascii "
{
    repeat
    a1 ,
    // c
    len // c
@calculatedFrom( ""abc"") , } ,// `tick` ""quote"" 'q'
repeat	zchar[10 ] stringy	`a\`,
repeat calculatedFrom // " ++ [128512]%N ++ runes_of_ascii " emoji
{ repeat repeatCount
// c
//	t
, repeat i32 Pad `" ++ [28040; 24687; 31867; 22411]%N ++ runes_of_ascii "` ,	}
,} ,
lengthOf{ lengthOf @calculatedFrom( ""it's"") ,  char[]  Pad`say ""hi""`
, },
} ,
zchar[
0123456789 ]
chars,	float
@lengthOf(
asx )
, zchar{
    match msg_type as Packet { ""packet"" : packetx 1: chars , 0123456789
: metadata 255 : lengthOf
// trailing space 
/// triple
,""// no comment"": a1,// 50% %s
4294967296 :  pack , } ,
    }	, @leftPad (  ) char[ 00
    ] rootA ,
    MetaDataX { match float
    as body{
// `tick` ""quote"" 'q'
// @lengthOf(
[ ""a\""b"" , 007] :
// @lengthOf(
// 50% %s
_x  , } , match calculatedFrom as
x_y_z { // a // b
0123456789 :o 0 : a1 , }  ,_x{ match body// a // b
as	As	{
7: pack
,
// trailing space 
// `tick` ""quote"" 'q'
""it's""
    : f32a , } , }
, repeat
char[] x
    `a\`, } , }
packet x_y_z{repeat
Pad
    // c
    { int32 int
//	t
// a // b
@calculatedFrom( ""CRC32""
    )
    // c
    , }  , @tag( 3	)
    @lengthOf(roots )	@tag( 00 ) match rootA
    as
// trailing space 
// c
u{ [7] : string_ [// " ++ [128512]%N ++ runes_of_ascii " emoji
10
, ""CRC32""
,
007
]
    :
Logon
, 007
:metadata // `tick` ""quote"" 'q'
,
255:
/// triple
// c
As [ // " ++ [27880; 37322]%N ++ runes_of_ascii "
""packet""
    ]:zchar}
//x
// a // b
, }	packet roots	{	float64
/// triple
// `tick` ""quote"" 'q'
Packet, }
")).
Eval vm_compute in ("<<<M285>>>" ++ check (runes_of_ascii "
")).
Eval vm_compute in ("<<<M295>>>" ++ check (runes_of_ascii "options
    {As=""" ++ [28040; 24687]%N ++ runes_of_ascii """ ; } // @lengthOf(")).
Eval vm_compute in ("<<<M305>>>" ++ check (runes_of_ascii "options {
	StringPrefixLenType = u16;
	ArrayPrefixLenType = u16;
}

packet SampleBinary {
	uint16 MsgType `" ++ [28040; 24687; 31867; 22411]%N ++ runes_of_ascii "`,
	u16 BodyLenght @lengthOf(Body) `" ++ [28040; 24687; 20307; 38271; 24230]%N ++ runes_of_ascii "`,
	match MsgType as Body {
		1 : Logon,
		2 : Logout,
		3 : Heartbeat,
		4 : RiskControlRequest,
		5 : RiskControlResponse,
	},
	@calculatedFrom(""CRC32"")
	u32 Ckecksum `" ++ [26657; 39564; 21644]%N ++ runes_of_ascii "`,
}

packet Logon {
	@leftPad('0')
	char[10] UserName `" ++ [29992; 25143; 21517]%N ++ runes_of_ascii "`,
	string Password `" ++ [23494; 30721]%N ++ runes_of_ascii "`,
	uint64 ClientId `" ++ [23458; 25143; 31471]%N ++ runes_of_ascii "ID`,
	u16 HeartbeatInterval `" ++ [24515; 36339; 38388; 38548]%N ++ runes_of_ascii "`,
}

packet Logout {
	@rightPad('0')
	char[10] UserName `" ++ [29992; 25143; 21517]%N ++ runes_of_ascii "`,
	uint64 ClientId `" ++ [23458; 25143; 31471]%N ++ runes_of_ascii "ID`,
}

packet Heartbeat {
}

packet RiskControlRequest {
	string UniqueOrderId `" ++ [21807; 19968; 35746; 21333; 21495]%N ++ runes_of_ascii "`,
	char[16] ClOrdID `" ++ [23458; 25143; 35746; 21333; 21495]%N ++ runes_of_ascii "`,
	char[3] MarketID `" ++ [24066; 22330]%N ++ runes_of_ascii "id`,
	char[12] SecurityID `" ++ [35777; 21048; 20195; 30721]%N ++ runes_of_ascii "`,
	char Side `" ++ [20080; 21334; 26041; 21521]%N ++ runes_of_ascii "`,
	char OrderType `" ++ [35746; 21333; 31867; 22411]%N ++ runes_of_ascii "`,
	u64 Price `" ++ [20215; 26684]%N ++ runes_of_ascii "`,
	u32 Qty `" ++ [25968; 37327]%N ++ runes_of_ascii "`,
	repeat string ExtraInfo `" ++ [38468; 21152; 20449; 24687]%N ++ runes_of_ascii "`,
	repeat SubOrder {
		char[16] ClOrdID `" ++ [23376; 35746; 21333; 21495]%N ++ runes_of_ascii "`,
		u64 Price `" ++ [23376; 35746; 21333; 20215; 26684]%N ++ runes_of_ascii "`,
		u32 Qty `" ++ [23376; 35746; 21333; 25968; 37327]%N ++ runes_of_ascii "`,
	},
}

packet RiskControlResponse {
	string UniqueOrderId `" ++ [21807; 19968; 35746; 21333; 21495]%N ++ runes_of_ascii "`,
	i32 Status `" ++ [29366; 24577]%N ++ runes_of_ascii "`,
	string Msg `" ++ [32467; 26524; 20449; 24687]%N ++ runes_of_ascii "`,
	repeat Detail,
}

packet Detail {
	string RuleName `" ++ [35268; 21017; 21517; 31216]%N ++ runes_of_ascii "`,
	u16 Code `" ++ [21407; 22240; 20195; 30721]%N ++ runes_of_ascii "`,
}")).
Eval vm_compute in ("<<<M315>>>" ++ check (runes_of_ascii "MetaData
crc crc	{ char[] Z9_`{ , }`,} options { tag =
    false } packet
// a // b
// @lengthOf(
Pad {Foo @calculatedFrom( // `tick` ""quote"" 'q'
""a\\"" ) ,
    trueish ,
    char[ 00]
    // " ++ [128512]%N ++ runes_of_ascii " emoji
    packetx , }
")).
Eval vm_compute in ("<<<M325>>>" ++ check (runes_of_ascii "MetaData
crc	{ char[] char[] Z9_`{ , }`,} options { tag =
    false } packet
// a // b
// @lengthOf(
Pad {Foo @calculatedFrom( // `tick` ""quote"" 'q'
""a\\"" ) ,
    trueish ,
    char[ 00]
    // " ++ [128512]%N ++ runes_of_ascii " emoji
    packetx , }
")).
Eval vm_compute in ("<<<M335>>>" ++ check (runes_of_ascii "MetaData
crc	{ char[] Z9_`{ , }` `{ , }`,} options { tag =
    false } packet
// a // b
// @lengthOf(
Pad {Foo @calculatedFrom( // `tick` ""quote"" 'q'
""a\\"" ) ,
    trueish ,
    char[ 00]
    // " ++ [128512]%N ++ runes_of_ascii " emoji
    packetx , }
")).
Eval vm_compute in ("<<<M345>>>" ++ check (runes_of_ascii "MetaData
crc	{ char[] Z9_`{ , }`,} } options { tag =
    false } packet
// a // b
// @lengthOf(
Pad {Foo @calculatedFrom( // `tick` ""quote"" 'q'
""a\\"" ) ,
    trueish ,
    char[ 00]
    // " ++ [128512]%N ++ runes_of_ascii " emoji
    packetx , }
")).
Eval vm_compute in ("<<<M355>>>" ++ check (runes_of_ascii "MetaData
crc	{ char[] Z9_`{ , }`,} options { { tag =
    false } packet
// a // b
// @lengthOf(
Pad {Foo @calculatedFrom( // `tick` ""quote"" 'q'
""a\\"" ) ,
    trueish ,
    char[ 00]
    // " ++ [128512]%N ++ runes_of_ascii " emoji
    packetx , }
")).
Eval vm_compute in ("<<<M365>>>" ++ check (runes_of_ascii "MetaData
crc	{ char[] Z9_`{ , }`,} options { tag = =
    false } packet
// a // b
// @lengthOf(
Pad {Foo @calculatedFrom( // `tick` ""quote"" 'q'
""a\\"" ) ,
    trueish ,
    char[ 00]
    // " ++ [128512]%N ++ runes_of_ascii " emoji
    packetx , }
")).
Eval vm_compute in ("<<<M375>>>" ++ check (runes_of_ascii "MetaData
crc	{ char[] Z9_`{ , }`,} options { tag =
    false } } packet
// a // b
// @lengthOf(
Pad {Foo @calculatedFrom( // `tick` ""quote"" 'q'
""a\\"" ) ,
    trueish ,
    char[ 00]
    // " ++ [128512]%N ++ runes_of_ascii " emoji
    packetx , }
")).
Eval vm_compute in ("<<<M385>>>" ++ check (runes_of_ascii "MetaData
crc	{ char[] Z9_`{ , }`,} options { tag =
    false } packet
// a // b
// @lengthOf(
Pad Pad {Foo @calculatedFrom( // `tick` ""quote"" 'q'
""a\\"" ) ,
    trueish ,
    char[ 00]
    // " ++ [128512]%N ++ runes_of_ascii " emoji
    packetx , }
")).
Eval vm_compute in ("<<<M395>>>" ++ check (runes_of_ascii "MetaData
crc	{ char[] Z9_`{ , }`,} options { tag =
    false } packet
// a // b
// @lengthOf(
Pad {Foo Foo @calculatedFrom( // `tick` ""quote"" 'q'
""a\\"" ) ,
    trueish ,
    char[ 00]
    // " ++ [128512]%N ++ runes_of_ascii " emoji
    packetx , }
")).
Eval vm_compute in ("<<<M405>>>" ++ check (runes_of_ascii "MetaData
crc	{ char[] Z9_`{ , }`,} options { tag =
    false } packet
// a // b
// @lengthOf(
Pad {Foo @calculatedFrom( // `tick` ""quote"" 'q'
""a\\"" ""a\\"" ) ,
    trueish ,
    char[ 00]
    // " ++ [128512]%N ++ runes_of_ascii " emoji
    packetx , }
")).
Eval vm_compute in ("<<<M415>>>" ++ check (runes_of_ascii "MetaData
crc	{ char[] Z9_`{ , }`,} options { tag =
    false } packet
// a // b
// @lengthOf(
Pad {Foo @calculatedFrom( // `tick` ""quote"" 'q'
""a\\"" ) , ,
    trueish ,
    char[ 00]
    // " ++ [128512]%N ++ runes_of_ascii " emoji
    packetx , }
")).
Eval vm_compute in ("<<<M425>>>" ++ check (runes_of_ascii "MetaData
crc	{ char[] Z9_`{ , }`,} options { tag =
    false } packet
// a // b
// @lengthOf(
Pad {Foo @calculatedFrom( // `tick` ""quote"" 'q'
""a\\"" ) ,
    trueish , ,
    char[ 00]
    // " ++ [128512]%N ++ runes_of_ascii " emoji
    packetx , }
")).
Eval vm_compute in ("<<<M435>>>" ++ check (runes_of_ascii "MetaData
crc	{ char[] Z9_`{ , }`,} options { tag =
    false } packet
// a // b
// @lengthOf(
Pad {Foo @calculatedFrom( // `tick` ""quote"" 'q'
""a\\"" ) ,
    trueish ,
    char[ 00 00]
    // " ++ [128512]%N ++ runes_of_ascii " emoji
    packetx , }
")).
Eval vm_compute in ("<<<M445>>>" ++ check (runes_of_ascii "MetaData
crc	{ char[] Z9_`{ , }`,} options { tag =
    false } packet
// a // b
// @lengthOf(
Pad {Foo @calculatedFrom( // `tick` ""quote"" 'q'
""a\\"" ) ,
    trueish ,
    char[ 00]
    // " ++ [128512]%N ++ runes_of_ascii " emoji
    packetx packetx , }
")).
Eval vm_compute in ("<<<M455>>>" ++ check (runes_of_ascii "MetaData
crc	{ char[] Z9_`{ , }`,} options { tag =
    false } packet
// a // b
// @lengthOf(
Pad {Foo @calculatedFrom( // `tick` ""quote"" 'q'
""a\\"" ) ,
    trueish ,
    char[ 00]
    // " ++ [128512]%N ++ runes_of_ascii " emoji
    packetx , } }
")).
Eval vm_compute in ("<<<M465>>>" ++ check (runes_of_ascii "MetaData
crc	{ char[] Z9_`{ , }`,} options { @tagtag =
    false } packet
// a // b
// @lengthOf(
Pad {Foo @calculatedFrom( // `tick` ""quote"" 'q'
""a\\"" ) ,
    trueish ,
    char[ 00]
    // " ++ [128512]%N ++ runes_of_ascii " emoji
    packetx , }
")).
Eval vm_compute in ("<<<M475>>>" ++ check (runes_of_ascii "MetaData
crc	{ char[] Z9_`{ , }`,} options { tag |=
    false } packet
// a // b
// @lengthOf(
Pad {Foo @calculatedFrom( // `tick` ""quote"" 'q'
""a\\"" ) ,
    trueish ,
    char[ 00]
    // " ++ [128512]%N ++ runes_of_ascii " emoji
    packetx , }
")).
Eval vm_compute in ("<<<M485>>>" ++ check (runes_of_ascii "root packet _x	{ @rightPad (
' ' ) string u8x @lengthOf(
    _x
) , repeat Pad  { // " ++ [128512]%N ++ runes_of_ascii " emoji
As
// `tick` ""quote"" 'q'
//x
{matchKey chars,
} , }")).
Eval vm_compute in ("<<<M495>>>" ++ check (runes_of_ascii "root")).
Eval vm_compute in ("<<<M505>>>" ++ check (runes_of_ascii "root packet _x	{ @rightPad (
' ' ) zchar[ u8x @lengthOf(
    _x
) , repeat Pad  { // " ++ [128512]%N ++ runes_of_ascii " emoji
As
// `tick` ""quote"" 'q'
//x
{matchKey chars,
} , }, }")).
Eval vm_compute in ("<<<M515>>>" ++ check (runes_of_ascii "root packet _x	{ @rightPad (
' ' ) string u8x @lengthOf(
    _x
) , Pad repeat  { // " ++ [128512]%N ++ runes_of_ascii " emoji
As
// `tick` ""quote"" 'q'
//x
{matchKey chars,
} , }, }")).
Eval vm_compute in ("<<<M525>>>" ++ check (runes_of_ascii "root packet _x	@rightPad { (
' ' ) string u8x @lengthOf(
    _x
) , repeat Pad  { // " ++ [128512]%N ++ runes_of_ascii " emoji
As
// `tick` ""quote"" 'q'
//x
{matchKey chars,
} , }, }")).
Eval vm_compute in ("<<<M535>>>" ++ check (runes_of_ascii "root packet _x	{ @rightPad (
' ' int16 string u8x @lengthOf(
    _x
) , repeat Pad  { // " ++ [128512]%N ++ runes_of_ascii " emoji
As
// `tick` ""quote"" 'q'
//x
{matchKey chars,
} , }, }")).
Eval vm_compute in ("<<<M545>>>" ++ check (runes_of_ascii "root packet _x	{ @rightPad (
' ' ) string u8x @lengthOf(
    _x
) , repeat Pad  { // " ++ [128512]%N ++ runes_of_ascii " emoji
As
// `tick` ""quote"" 'q'
//x
{matchKey chars,
} ,")).
Eval vm_compute in ("<<<M555>>>" ++ check (runes_of_ascii "root packet _x	{ @rightPad (
' ' ) string u8x @lengthOf(
    _x
) , repeat   { // " ++ [128512]%N ++ runes_of_ascii " emoji
As
// `tick` ""quote"" 'q'
//x
{matchKey chars,
} , }, }")).
Eval vm_compute in ("<<<M565>>>" ++ check (runes_of_ascii "
")).
Eval vm_compute in ("<<<M575>>>" ++ check ([0]%N)).
Eval vm_compute in ("<<<M585>>>" ++ check ([65533; 65533; 65533; 65533]%N ++ runes_of_ascii "?jf" ++ [65533]%N ++ runes_of_ascii "8)" ++ [20; 65533]%N)).
Eval vm_compute in ("<<<M595>>>" ++ check (runes_of_ascii "u8 int64 float64 int32 false ; false uint8 @lengthOf( `two words` u16")).
