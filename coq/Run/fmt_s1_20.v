From FP Require Import Lexer Parser ShowPT Digest Formatter.
From Coq Require Import String List NArith.
Import ListNotations.
Open Scope string_scope.
Set Printing Width 100000000.
Set Printing Depth 100000000.
Definition show_fres (r : fres) : string :=
  match r with
  | FOk s => "OK:" ++ sh_escaped s ""
  | FErr s => "ERR:" ++ sh_escaped s ""
  | FPanic p => "PANIC:" ++ p
  end.
Definition check (rs : list rune) : string := digest (show_fres (format_res rs)).
Definition full (rs : list rune) : string := show_fres (format_res rs).
Eval vm_compute in ("<<<M207>>>" ++ check (runes_of_ascii "packet i8i8  { string
    // `tick` ""quote"" 'q'
    string_ `crlf
line`
    , pack , As
// trailing space 
// trailing space 
@calculatedFrom( ""a	b""
    ) ,  f32 body
`tab	here` , repeatCount
@calculatedFrom( """ ++ [28040; 24687]%N ++ runes_of_ascii """), char[  255 ] packetx , @calculatedFrom(
    ""\" ++ [233]%N ++ runes_of_ascii """ ) @calculatedFrom(  ""abc""  ) @rightPad ( ) // @lengthOf(
x`two words` , @calculatedFrom( ""a	b"")i32 stringy
    , @rightPad // trailing space 
()
    Header
    `tab	here`	,
} packet i64_ {
@rightPad ( )
    char[
10 ]i8i8	, u {
char[]
    roots
    @calculatedFrom(
""a\\"" // trailing space 
) `it's` , } , len charz , float64 Z9_, int64 asx
@lengthOf(
    stringy ) `doc` ,uint8 repeatCount , uint16 i64_ , }
MetaData// c
Header {
    // c
    }
    packet As // a // b
{ match //	t
uint8x as tag {[
    ""CRC32"" ,
""it's""  , 1
    , ""{,}"" ,
"""" ] // c
: charz ,
""""
    //
    : asx } ,//x
}
    packet lengthOf
{ string_
@lengthOf(f32a// c
) `say ""hi""`  ,
    @leftPad// `tick` ""quote"" 'q'
(//	t
) char[] matchKey ,repeat
    float32
Packet `crlf
line`, @tag( 255
/// triple
//	t
) float { repeat
x
    {
int , int16
Packet@calculatedFrom(  """")
    , } ,trueish { match calculatedFrom	as// @lengthOf(
matchKey {  [
10 ]  :Foo, ""\n""  :MetaDataX // `tick` ""quote"" 'q'
,}
, u16 options1
// 50% %s
// 50% %s
`line1
line2`, } ,
a1
crc
    `{ , }` ,repeat zchar `` ,
}	,
// 50% %s
//	t
@tag(// `tick` ""quote"" 'q'
4294967296	)@tag( 007/// triple
)
    @calculatedFrom(
    """" )
i16 _x ``, @leftPad( '0' ) repeat	uint16 roots
    ,repeat stringy{Header{
// @lengthOf(
// " ++ [27880; 37322]%N ++ runes_of_ascii "
i16 As @calculatedFrom( ""\" ++ [233]%N ++ runes_of_ascii """
    // @lengthOf(
    ) `` , x {	repeat zchar[ 007 ]
    asx , match Packet as string_{
007: chars , [ /// triple
""\" ++ [233]%N ++ runes_of_ascii """ , 255 ,	""" ++ [28040; 24687]%N ++ runes_of_ascii """
    , 42
,00 ,""\" ++ [233]%N ++ runes_of_ascii """ ,""abc""
    , 007
    ]	:// " ++ [27880; 37322]%N ++ runes_of_ascii "
leftPad ,42 : metadata [
    """ ++ [28040; 24687]%N ++ runes_of_ascii """ , ""\n""//x
]
:
T 3 :
repeatCount ,	},
char[	4294967296] MetaDataX
,i64 f32a , } , } , repeat int32 msg_type,
    // a // b
    } , @lengthOf( charz
) // " ++ [27880; 37322]%N ++ runes_of_ascii "
trueish
    // trailing space 
    leftPad  `doc`
    , @lengthOf( f32a) T u `` //x
,	@leftPad (
'\x00' )
    u8 x_y_z@lengthOf(
T ) `two words` ,}")).
Eval vm_compute in ("<<<M3454>>>" ++ check (runes_of_ascii "// top
options // c0
{ LittleEndian // c2
= // c3a
  // c3b
true // c4a
  // c4b
; // c5a
  // c5b
StringPrefixLenType = u32
    // c8
;
    // c9
ArrayPrefixLenType // c10a
  // c10b
= u32
    // c12
; FixedStringPadChar
    // c14
= // c15a
  // c15b
' '
    // c16
; // c17a
  // c17b
} // c18a
  // c18b
packet Party // c20a
  // c20b
{ // c21
char[
    // c22
12 // c23
] tag7 // c25a
  // c25b
, repeat
    // c27
InMsgkind99 // c28a
  // c28b
{ repeat
    // c30
i32 // c31
Side2
    // c32
,
    // c33
repeat char[
    // c35
6 ] Qty
    // c38
, zchar[
    // c40
6 // c41a
  // c41b
] Ref // c43
, zchar[ // c45a
  // c45b
8 ] // c47a
  // c47b
Px
    // c48
, // c49a
  // c49b
i64 // c50
msgKind
    // c51
, // c52
uint64
    // c53
lastPx // c54
, // c55a
  // c55b
}
    // c56
, } // c58a
  // c58b
root packet
    // c60
Trade { // c62a
  // c62b
repeat
    // c63
InTag752 // c64a
  // c64b
{ // c65a
  // c65b
Party , // c67a
  // c67b
zchar[ 8 ]
    // c70
venue // c71
, // c72a
  // c72b
repeat
    // c73
InFlags40 // c74a
  // c74b
{
    // c75
zchar[ 6 ] // c78a
  // c78b
sym // c79
, } // c81
, repeat
    // c83
InCount33 // c84
{ zchar[ 8 ] // c88
Qty
    // c89
, // c90
int64 // c91a
  // c91b
venue ,
    // c93
u64 // c94a
  // c94b
Acct
    // c95
, // c96a
  // c96b
u16
    // c97
OrderId // c98a
  // c98b
, } // c100
, // c101
repeat // c102
InSeqno96 { // c104a
  // c104b
repeat // c105a
  // c105b
Party
    // c106
, f64 msgKind
    // c109
, // c110a
  // c110b
}
    // c111
,
    // c112
f32 // c113
Px // c114a
  // c114b
, } // c116
, // c117
u8
    // c118
venue
    // c119
,
    // c120
match
    // c121
venue // c122
as
    // c123
Body { 0 // c126a
  // c126b
: Party , // c129a
  // c129b
} // c130a
  // c130b
,
    // c131
} // c132
")).
Eval vm_compute in ("<<<M529>>>" ++ check (runes_of_ascii "//
MetaData u8x{ f64 //x
Z9_
``,char[
    3
    ] _x ,
    u8x matchKey ,
char[ 1 ]
    int
// `tick` ""quote"" 'q'
// packet A { u8 x, }
`tab	here`
,
i32 matchKey `` , msg_type Logon
, } root packet charz {
    zchar
{
repeat MetaDataX // `tick` ""quote"" 'q'
{
    char[ 10
] Pad @calculatedFrom( ""packet"" )
    ,zchar[ 0123456789  ]
o
@lengthOf( rootA
    ) ,	zchar[ 0 ]
u128 ,u32	uint8x @calculatedFrom( ""{,}"") , }	, match	zchar
as trueish { ""packet""
    :
string_ , [00
,
// packet A { u8 x, }
// " ++ [27880; 37322]%N ++ runes_of_ascii "
""1""]	: repeatCount , ""\n"" :tag ,""1""  : matchKey
,
}
,} ,match string_ as BodyLength  {""" ++ [233]%N ++ runes_of_ascii "t" ++ [233]%N ++ runes_of_ascii """: A
    , [
    0 , 1
,
    """ ++ [128512]%N ++ runes_of_ascii """  , ""`tick`"" ]
    : uint8x , """ ++ [28040; 24687]%N ++ runes_of_ascii """ : string_ ,
}
    // " ++ [128512]%N ++ runes_of_ascii " emoji
    , /// triple
@lengthOf(
i64_  ) i8 stringy@calculatedFrom( // 50% %s
""1"" )	, zchar[ 0 ] charz ,
    @lengthOf( matchKey
)repeat As leftPad ,
    @calculatedFrom( ""\" ++ [233]%N ++ runes_of_ascii """ )	match Header as i64_ {
7:
stringy, ""// no comment"": _x
, // " ++ [27880; 37322]%N ++ runes_of_ascii "
0	: options1 , [""// no comment""  , ""packet""
    ,""x y""
, ""a\""b"" ,"""" ,00 ,00 ,
7] :As, [ 007 ] : zchar
// a // b
//
, } //
,// " ++ [27880; 37322]%N ++ runes_of_ascii "
} packet metadata //
{  match string_ // a // b
as x {
// 50% %s
//
""1"": tag
    [ ""1""
    ]//x
: metadata , }, zchar[255]
    // a // b
    matchKey ,
@calculatedFrom( ""a	b""// @lengthOf(
) u64
As// " ++ [27880; 37322]%N ++ runes_of_ascii "
, @rightPad(  '0' ) // a // b
@lengthOf( metadata )
@rightPad ('\x00' ) char[]
T
    @calculatedFrom( //x
""" ++ [128512]%N ++ runes_of_ascii """ )
    `line1
line2` , f32 options1@lengthOf(
MetaDataX ) ,} // trailing space ")).
Eval vm_compute in ("<<<M4433>>>" ++ check (runes_of_ascii "MetaData float {
    u32 x,
    T body,
    string msg_type,
}

root packet options1 {
    @lengthOf(chars)
    @calculatedFrom(""\" ++ [233]%N ++ runes_of_ascii """)
    @leftPad('\x00')
    zchar[0] a1 @calculatedFrom(""a\\""),
    @lengthOf(i8i8)
    int64 crc,
    @rightPad('0')
    repeat char[4294967296] As,
    @rightPad('0')
    repeat pack {
        match u8x as stringy {
            ""a\""b"" : lengthOf,
            """ ++ [233]%N ++ runes_of_ascii "t" ++ [233]%N ++ runes_of_ascii """ : a1,
            """ ++ [128512]%N ++ runes_of_ascii """ : Pad,
            ""\" ++ [233]%N ++ runes_of_ascii """ : metadata,
            [255, 3] : crc,
        },
    },
    // " ++ [128512]%N ++ runes_of_ascii " emoji
    repeat falsey,
    @calculatedFrom(""// no comment"")
    repeat float64 Logon,
    repeat zchar[4294967296] Foo,
}

MetaData stringy {
    char[65535] stringy `two words`,
    i64_ calculatedFrom `say ""hi""`,
    stringy float,// 50% %s
    i8 o,
    i8 T,
}

MetaData roots {
    uint8x leftPad `{ , }`,// " ++ [27880; 37322]%N ++ runes_of_ascii "
    string options1,
    char[] tag,
}

packet uint8x {
    @lengthOf(crc)
    // " ++ [128512]%N ++ runes_of_ascii " emoji
    /// triple
    @tag(255)
    //x
    f32 metadata `// not a comment`,//	t
    @rightPad(' ')
    repeat f32a,
    stringy {
        f32a calculatedFrom `crlf
                line`,
        crc @lengthOf(i64_) `crlf
                line`,
        charz `doc`,
        repeat int16 packetx,
    },
    matchKey o,
    @calculatedFrom(""it's"")
    MetaDataX @lengthOf(tag) `100% of %d`,
}")).
Eval vm_compute in ("<<<M1246>>>" ++ check (runes_of_ascii "
root packet x_y_z {
    @leftPad ( )// @lengthOf(
trueish
a1 , repeat int64
A , //	t
@lengthOf(trueish)trueish @lengthOf(  falsey ) ``,i8i8 { match
    x as// packet A { u8 x, }
x{	""`tick`"" : Logon ,} ,
// `tick` ""quote"" 'q'
// packet A { u8 x, }
uint16 o// " ++ [128512]%N ++ runes_of_ascii " emoji
,
i8i8 {_x {
string
    zchar ,uint8
    matchKey
`a\` , }	,
    len
    Pad , match u8x as
    A { 3 :lengthOf
, [ //
65535 ,
""""
    ,
// " ++ [27880; 37322]%N ++ runes_of_ascii "
/// triple
255 , ""x y""
    ] : x  ,
    ""packet"" : //
x_y_z
    42 : a1
    [
    ""a	b""	]: pack, } , f32 uint8x @calculatedFrom( ""`tick`"")
    `" ++ [233]%N ++ runes_of_ascii "` , }	,// `tick` ""quote"" 'q'
string i8i8@lengthOf(chars
    )// " ++ [128512]%N ++ runes_of_ascii " emoji
,} ,
@leftPad ( ) repeat uint64 lengthOf ,	i8i8 { match crc as a1{""packet"" :int, } ,
    trueish
    {zchar[ // a // b
255 ]
float , len  {repeat Packet Pad `" ++ [233]%N ++ runes_of_ascii "` ,
string_ msg_type, } , string Pad``
,repeat char[ 0 ]float `it's`  ,
} ,repeat string Header	`{ , }` ,repeat zchar[
0123456789  ]o ,} , i64_ @calculatedFrom(// @lengthOf(
""it's"" )`u8 x,`
,@calculatedFrom(""// no comment""	)	rootA{ char[ 4294967296] repeatCount, } , } options { Pad =
"""" ; body=// " ++ [128512]%N ++ runes_of_ascii " emoji
uint8 ; packetx
    = '0' // " ++ [128512]%N ++ runes_of_ascii " emoji
; crc
// @lengthOf(
// @lengthOf(
= ""x y"" ; }
")).
Eval vm_compute in ("<<<M4448>>>" ++ check (runes_of_ascii "root packet
Logon { zchar[65535 ]uint8x	,@leftPad (

) repeat
f32

    Packet ,

    @leftPad 
( ' ' // c
)  match

    i8i8 as
body

    {65535
: 
MetaDataX /// triple
  ,//x
	007: 	 // c
Packet
	}, @calculatedFrom( 
""packet""
)

    uint8x ,	Foo
    @lengthOf(// `tick` ""quote"" 'q'
    asx

    ) , i64 int 
,
@leftPad(' ' 
)
repeat rootA
{ int32

zchar , match	stringy	as
MetaDataX{
	[ """ ++ [28040; 24687]%N ++ runes_of_ascii """
,

    10 
,
42,

""a\""b""
, 

    // trailing space 
  // trailing space 

  42 ,

    7] : msg_type

,

    [ 42]	: stringy  ,  ""a\\""
	:	Header

255
: calculatedFrom ,	[ 007

    ]  :	MetaDataX
	,""a\""b"" 
: stringy
,}

    ,
char[

    007  ] 
int

    @lengthOf( 
o  )

`100% of %d` ,
    } ,

    char[	00
    ]
    leftPad
@lengthOf(zchar)
,
	char[]
zchar @calculatedFrom(
""1"" 
)

,
	i64_
    {Packet @lengthOf( Header)
`two words`
    ,  // a // b
  	match	int as As

    { 
""\" ++ [233]%N ++ runes_of_ascii """ :
As
,
    }  ,

    metadata `// not a comment`,repeat f64
    float, 
    //	t
  } 
, 
}
    options{ //
	u= ""packet"" BodyLength= ""packet""

;
}

    root
packet
u8x
    {
} // packet A { u8 x, }")).
Eval vm_compute in ("<<<M3486>>>" ++ check (runes_of_ascii "options { // c1a
  // c1b
LittleEndian = true
    // c4
;
    // c5
StringPrefixLenType
    // c6
= // c7a
  // c7b
u16 // c8
;
    // c9
ArrayPrefixLenType // c10a
  // c10b
= // c11a
  // c11b
u64
    // c12
; // c13a
  // c13b
FixedStringPadFromLeft = // c15a
  // c15b
true
    // c16
; // c17a
  // c17b
FixedStringPadChar // c18a
  // c18b
= // c19a
  // c19b
' ' // c20a
  // c20b
; // c21a
  // c21b
} // c22a
  // c22b
packet
    // c23
Reject // c24a
  // c24b
{ // c25
zchar[ // c26a
  // c26b
3 ] // c28
OrderId , // c30
int16
    // c31
Flags , // c33a
  // c33b
@leftPad // c34
(
    // c35
' ' ) char[ // c38
11 // c39
] x
    // c41
, // c42
u16 // c43
tag7 // c44a
  // c44b
, // c45
}
    // c46
packet
    // c47
Quote // c48a
  // c48b
{ // c49a
  // c49b
Reject , char[] Qty
    // c53
,
    // c54
repeat
    // c55
f32 f1 // c57
,
    // c58
zchar[ // c59
5 // c60
]
    // c61
Flags , // c63a
  // c63b
} // c64a
  // c64b
root packet
    // c66
Leg { // c68
i32 // c69a
  // c69b
Px // c70
,
    // c71
} // c72a
  // c72b
")).
Eval vm_compute in ("<<<M4327>>>" ++ check (runes_of_ascii "options {
    //x
    //	t
}

MetaData crc {
    //
    uint32 packetx `line1
        line2`,
}

options {
    // packet A { u8 x, }
    trueish = true
    falsey = false
    f32a = zchar[255]
    trueish = 255
    Z9_ = ""\n"";
}

packet repeatCount {
    asx {
        match _x as msg_type {
            0123456789 : trueish,
            [42] : matchKey,
            """ ++ [28040; 24687]%N ++ runes_of_ascii """ : roots,
            [1] : As,
        },
    },
    @calculatedFrom(""// no comment"")
    char metadata,
    repeat rootA {
        int64 stringy @calculatedFrom(""1""),
        u32 T,
    },
    float32 i64_,
    repeat zchar[007] T `say ""hi""`,
    repeat tag {
        int8 crc `crlf
                line`,
        repeat o {
            repeat f32a,
        },
        repeat i16 Z9_ `" ++ [233]%N ++ runes_of_ascii "`,
        zchar[3] body @lengthOf(Packet),
    },
    @lengthOf(o)
    match uint8x as As {
        255 : T,
    },
    f32a @lengthOf(leftPad),
    BodyLength _x `it's`,//	t
    repeat asx {
        char[10] i64_ @lengthOf(u),
    },
}//x")).
Eval vm_compute in ("<<<M407>>>" ++ check (runes_of_ascii "packet roots { // packet A { u8 x, }
@leftPad ( ) calculatedFrom `line1
line2` //x
, @calculatedFrom(""// no comment"" //	t
) match
i8i8 as x
    // trailing space 
    {
    00
:
    chars  , ""// no comment"" :A /// triple
,
    [
    00, ""it's"" ]: roots	, 0:	A ""`tick`""// c
: charz
    ,""\" ++ [233]%N ++ runes_of_ascii """
:  repeatCount , },	@lengthOf( a1 ) u16 i8i8
, @calculatedFrom(""a	b"" )
repeat options1 { uint32
    BodyLength
@calculatedFrom( ""a\\"") `
`
    // @lengthOf(
    ,
    match options1
as // " ++ [27880; 37322]%N ++ runes_of_ascii "
charz {
    /// triple
    007 :
x_y_z ,// " ++ [128512]%N ++ runes_of_ascii " emoji
7 : T , // packet A { u8 x, }
[ ""CRC32"" , ""{,}"" ]
:
    u8x [ 00 , ""CRC32"" , ""// no comment""
    , 4294967296 , ""`tick`"" ,42
,	0123456789 ] :falsey , 42 : pack
    , ""`tick`"":
    As
,
} ,
} ,
@lengthOf(	rootA )  repeatCount { f32 i64_ `tab	here` ,} , @leftPad (// " ++ [27880; 37322]%N ++ runes_of_ascii "
'0'
    ) @tag( 255 )
repeat packetx , falsey `" ++ [233]%N ++ runes_of_ascii "` // `tick` ""quote"" 'q'
, //	t
options1 leftPad
    ,
repeat
string_ roots `" ++ [233]%N ++ runes_of_ascii "` ,
    }")).
Eval vm_compute in ("<<<M416>>>" ++ check (runes_of_ascii "
MetaData lengthOf { calculatedFrom	BodyLength `" ++ [28040; 24687; 31867; 22411]%N ++ runes_of_ascii "` ,Packet x,
char[00 ] metadata
,
options1
BodyLength ,
f32 x  ,
// `tick` ""quote"" 'q'
//x
} MetaData pack{int64
u
`a\`
, int8 asx `tab	here` ,
    char[]
a1`u8 x,` ,repeatCount len `" ++ [233]%N ++ runes_of_ascii "` ,
    } packet charz{
@leftPad ( '\x00' ) float32 options1`two words` , } packet pack{ @tag( 10 )
repeat u
{ repeat i16 trueish`say ""hi""` ,repeat len calculatedFrom ,o Foo ,
}
,
i8 msg_type`crlf
line` , @calculatedFrom(
    ""\n""
) // c
zchar[
    10
]
chars
    @lengthOf(	trueish// 50% %s
) //	t
,
    uint8 o, @calculatedFrom( ""a	b""
) f64/// triple
string_ , a1 {string x
    `" ++ [28040; 24687; 31867; 22411]%N ++ runes_of_ascii "`
, // " ++ [128512]%N ++ runes_of_ascii " emoji
repeat i64_
,
    f64
i8i8 `it's`// 50% %s
,} ,  @calculatedFrom(""abc""	)
    string_ @calculatedFrom( ""`tick`"" )
`{ , }`
    ,match
uint8x as As
    {[
0,
""a\\"" ]
:
    metadata [ ""x y"" , ""a	b""
    ,""{,}"" //
, """ ++ [28040; 24687]%N ++ runes_of_ascii """  , ""{,}"" ,
""{,}"" ]  : asx ,},}")).
Eval vm_compute in ("<<<M3664>>>" ++ check (runes_of_ascii "packet BodyLength {
    Pad {
        Foo i64_ `say ""hi""`,
        Header {
            // a // b
            zchar[10] o,
        },
        repeat zchar[007] crc,
        u16 i64_ @calculatedFrom(""1"") `a\`,
    },
}

packet uint8x {
    @calculatedFrom(""a	b"")
    char[0123456789] x,
    i16 repeatCount @calculatedFrom(""x y""),
    repeat u32 roots,
    @lengthOf(string_)
    @lengthOf(len)
    @rightPad('\x00')
    repeat x_y_z {
        repeat BodyLength,
        repeatCount @lengthOf(charz) `line1
        line2`,
    },
    string u128 @calculatedFrom(""// no comment"") `doc`,
    char[] rootA `// not a comment`,
}

packet T {
    rootA @lengthOf(tag) `{ , }`,
    repeatCount x_y_z `it's`,
    @tag(10)
    o options1,// " ++ [27880; 37322]%N ++ runes_of_ascii "
    match zchar as Pad {
        """ ++ [233]%N ++ runes_of_ascii "t" ++ [233]%N ++ runes_of_ascii """ : trueish,
        1 : x_y_z,
        ""packet"" : float,
        255 : tag,
    },
}")).
Eval vm_compute in ("<<<M253>>>" ++ check (runes_of_ascii "packet stringy{ @leftPad ( ) /// triple
@leftPad// @lengthOf(
('0' ) string  string_
, }
options	{ //x
}  root packet chars//x
{ @tag(	1
    ) @tag( 00 ) // " ++ [128512]%N ++ runes_of_ascii " emoji
rootA ,@calculatedFrom(
""abc"" ) x_y_z , repeat chars{ uint8x @calculatedFrom(""CRC32"" ) `// not a comment`
, match a1
as
lengthOf //x
{ ""// no comment"" //	t
: // a // b
packetx ,} , uint64
    int `100% of %d`
    ,zchar[42 ]  Packet
`two words`
    , }
    //x
    ,@leftPad( '0'
)
// " ++ [128512]%N ++ runes_of_ascii " emoji
// " ++ [128512]%N ++ runes_of_ascii " emoji
@leftPad ()  @leftPad (
)  leftPad {  repeat i8 roots
, i16 float
    @lengthOf( string_
)// " ++ [128512]%N ++ runes_of_ascii " emoji
, repeat Logon msg_type ,repeat x { repeat
zchar[  3
] _x  `two words` , string i8i8 `u8 x,`	, i32 float @calculatedFrom( ""\" ++ [233]%N ++ runes_of_ascii """ ) // c
, } // " ++ [27880; 37322]%N ++ runes_of_ascii "
, }
, // c
repeat
uint64 i64_
, string options1	, char[ 1 ]
i8i8, } // @lengthOf(")).
Eval vm_compute in ("<<<M3478>>>" ++ check (runes_of_ascii "options {
    ArrayPrefixLenType = u64;
    FixedStringPadFromLeft = false;
}
packet Trade {
}
packet Reject {
    InPx94 {
        repeat Trade,
        string count,
        InFlags14 {
            u8 pad0,
        },
        repeat InSide239 {
            char[8] lastPx,
            repeat i64 clOrdID,
            i64 Acct,
        },
    },
    repeat string clOrdID,
    zchar[5] sym,
}
packet Quote {
    repeat Reject,
}
packet Logon {
    repeat Reject,
    char[] Acct,
    @leftPad('0') char[4] tag7,
}
root packet Fill {
    @rightPad('0') char[1] count,
    u8 f1,
    u32 Qty @lengthOf(Body),
    match f1 as Body {
        [195, 3] : Reject,
        110 : Quote,
        141 : Logon,
        21 : Trade,
    },
    u32 Flags @calculatedFrom(""CRC32""),
}
")).
Eval vm_compute in ("<<<M453>>>" ++ check (runes_of_ascii "packet  f32a
    { @tag(1
    // " ++ [27880; 37322]%N ++ runes_of_ascii "
    )
i64 roots @calculatedFrom(""CRC32""
) ,
charz
//x
// @lengthOf(
`crlf
line` , // `tick` ""quote"" 'q'
@calculatedFrom(
    ""\n""
    // `tick` ""quote"" 'q'
    )
    metadata , @lengthOf(o )
repeat zchar[ 1  ] BodyLength,//	t
repeat uint8x u8x  ,
    } root packet body {
repeat Z9_ { //	t
o //	t
Foo , /// triple
match trueish as
//x
// a // b
T { [ 65535]
    :len,10 : pack	, } ,repeat  float32
    // c
    uint8x ,},@lengthOf( u8x) repeat calculatedFrom
{ u64	u8x
//x
// c
, }
    ,
}packet // trailing space 
options1{
    packetx @calculatedFrom(""`tick`"" ), } options
{
a1= ""abc""	i8i8= 1 stringy = true
    options1 =
    """ ++ [128512]%N ++ runes_of_ascii """; } packet Pad {@calculatedFrom(
    ""\" ++ [233]%N ++ runes_of_ascii """ ) crc
    , }
// trailing space 
")).
Eval vm_compute in ("<<<M219>>>" ++ check (runes_of_ascii "//	t
packet	u8x {repeat uint16 body , }MetaData
    trueish // packet A { u8 x, }
{} options
    {
    // 50% %s
    Header
=
false ;
} packet Logon { match i8i8 as options1 { 0
: MetaDataX,""" ++ [128512]%N ++ runes_of_ascii """ : MetaDataX
    , [ """ ++ [233]%N ++ runes_of_ascii "t" ++ [233]%N ++ runes_of_ascii """ ,255 ]
    :T } , repeat a1
a1 `crlf
line` ,	@calculatedFrom(
    ""\" ++ [233]%N ++ runes_of_ascii """
) o
@calculatedFrom(
""a	b"" ) ,
    // a // b
    @rightPad //x
(
) zchar[1]  stringy
@lengthOf(
Z9_), @tag( 1
)char[
65535 ]packetx
, repeat chars {x_y_z	{Logon chars`u8 x,`, } ,
    } ,
    u16	_x
    @lengthOf(Header
) , @tag(
65535
    ) repeat
uint8x	{int/// triple
`crlf
line`
    , } , @leftPad ( // 50% %s
'0' )
@calculatedFrom(
""a\""b"" ) repeat // " ++ [27880; 37322]%N ++ runes_of_ascii "
u64 tag , char[]
MetaDataX
, } options {
}
// " ++ [27880; 37322]%N ++ runes_of_ascii "
")).
Eval vm_compute in ("<<<M3455>>>" ++ check (runes_of_ascii "options	{

    LittleEndian
=
true ;StringPrefixLenType
=u32
; ArrayPrefixLenType =u32;

FixedStringPadChar
    =

    ' ' 
; }packet
Party 
{
char[12
    ]	tag7,  repeat InMsgkind99

{
	repeat

i32

Side2
,  repeat
char[ 
6
	]

Qty 
, zchar[
6 ]	Ref 
, zchar[ 8 ]Px,
i64 
msgKind  ,uint64 
lastPx
,
	}
	,	}root	packet	Trade  {repeat	InTag752{ Party ,zchar[
8 ] venue

,  repeat	InFlags40
{
zchar[ 6 ]sym
,  }

, repeat InCount33	{ 
zchar[
8
    ]
Qty

    , 
int64	venue ,
    u64

Acct
, 
u16
OrderId
    , 
} ,
repeat
InSeqno96

{
	repeat	Party
,	f64
msgKind
,	}
	, f32 Px

,
} , u8
    venue  , match
venue as

    Body
	{ 
0:Party
    ,}

    ,
}
")).
Eval vm_compute in ("<<<M300>>>" ++ check (runes_of_ascii "root
packet  int { @calculatedFrom(
    ""abc"") f32
    int @calculatedFrom(
""a\\"" ) ,@lengthOf(i8i8 ) @rightPad (	' '
) @lengthOf( MetaDataX) zchar[	0
// `tick` ""quote"" 'q'
// `tick` ""quote"" 'q'
]A
,@rightPad( '0') u64 A @calculatedFrom(
""abc""
    ) , /// triple
} MetaData Logon{ int32 Header , i8 // packet A { u8 x, }
i64_ ,	x_y_z a1 , trueish pack `crlf
line` , char[ 1] lengthOf , _x BodyLength, } packet asx
    { repeat	body
, @tag( 255 )repeat // packet A { u8 x, }
char[ 3	]
charz `it's`
    //	t
    ,
// c
// " ++ [128512]%N ++ runes_of_ascii " emoji
o @lengthOf(leftPad )  ,  zchar[4294967296 ] body,@leftPad (
'\x00'
    )char u128 ,}
packet chars{ } packet float //x
{ }
")).
Eval vm_compute in ("<<<M1263>>>" ++ check (runes_of_ascii "MetaData Pad  { }
packet f32a{ @lengthOf(string_
    )msg_type @lengthOf(
    leftPad) , // 50% %s
matchKey // @lengthOf(
`doc`, @rightPad ( '0' ) string_,  falsey
    len `" ++ [233]%N ++ runes_of_ascii "` , zchar[ 4294967296
    ]
packetx
/// triple
// @lengthOf(
@calculatedFrom(""a\""b"") // c
, } root packet
Logon { char[] roots , } packet crc {@lengthOf(stringy
)
string
matchKey
    , @calculatedFrom( ""a\""b"" // c
) uint8	stringy @lengthOf( float ), u , @calculatedFrom( ""\n""
)  A @lengthOf( packetx)	, @lengthOf(
f32a ) string chars `
`, crc  @calculatedFrom(""it's""	) , @tag( 007 )f64	Header , chars
f32a ``
,
// " ++ [27880; 37322]%N ++ runes_of_ascii "
// `tick` ""quote"" 'q'
}  options { } 	 ")).
Eval vm_compute in ("<<<M3467>>>" ++ check (runes_of_ascii "options { LittleEndian = true // c4a
  // c4b
; // c5a
  // c5b
StringPrefixLenType // c6a
  // c6b
= u16 ;
    // c9
ArrayPrefixLenType
    // c10
= // c11a
  // c11b
u8 ; // c13
}
    // c14
packet
    // c15
Reject {
    // c17
repeat
    // c18
char[ 1
    // c20
]
    // c21
price , repeat // c24a
  // c24b
InFlags60 // c25
{ u8
    // c27
pad0 ,
    // c29
} , // c31a
  // c31b
u8 // c32
Qty // c33
, // c34a
  // c34b
} root // c36
packet // c37a
  // c37b
Heartbeat { repeat
    // c40
Reject // c41a
  // c41b
,
    // c42
repeat // c43
string
    // c44
sym // c45
, // c46a
  // c46b
}
    // c47
")).
Eval vm_compute in ("<<<M3439>>>" ++ check (runes_of_ascii "// top
packet // c0a
  // c0b
Logon // c1
{ string user
    // c4
, // c5
} // c6a
  // c6b
root // c7
packet // c8
Frame { // c10
u8
    // c11
K ,
    // c13
match // c14a
  // c14b
K
    // c15
as
    // c16
Body // c17a
  // c17b
{ 1
    // c19
: Logon ,
    // c22
2 // c23a
  // c23b
: // c24
Logout // c25
, // c26
} // c27a
  // c27b
,
    // c28
Tail // c29
, } packet // c32a
  // c32b
Logout
    // c33
{ // c34
u16 // c35a
  // c35b
reason , // c37
}
    // c38
packet
    // c39
Tail // c40a
  // c40b
{ u32 // c42a
  // c42b
crc
    // c43
, // c44a
  // c44b
}
    // c45
")).
Eval vm_compute in ("<<<M3406>>>" ++ check (runes_of_ascii "// top
packet // c0a
  // c0b
A
    // c1
{ // c2
u8
    // c3
a
    // c4
, // c5a
  // c5b
}
    // c6
packet // c7
B // c8
{ // c9
u16 // c10
b , } // c13
root // c14
packet P // c16a
  // c16b
{
    // c17
u8 K1 // c19
,
    // c20
u8 // c21a
  // c21b
K2 // c22a
  // c22b
, // c23a
  // c23b
match K1 as // c26
M1
    // c27
{ // c28
1 // c29
: A // c31a
  // c31b
, // c32
} // c33a
  // c33b
, match // c35
K2 as // c37
M2 // c38
{ // c39a
  // c39b
1 // c40a
  // c40b
:
    // c41
B // c42a
  // c42b
,
    // c43
}
    // c44
, // c45a
  // c45b
} // c46
")).
Eval vm_compute in ("<<<M4193>>>" ++ check (runes_of_ascii "
packet stringy  {
    repeat u
        // c
    //x
	`tab	here`
    ,
crc  ,repeat
    a1 {x	trueish
	`it's`
    ,

zchar[

1
	]

roots
@lengthOf(
    lengthOf
	)
,	int16 
f32a//x
    	,

    uint32
	    // " ++ [128512]%N ++ runes_of_ascii " emoji
a1

@lengthOf( u	)

    ,
    } ,match
    // " ++ [128512]%N ++ runes_of_ascii " emoji
    Logon
    as

//	t
      /// triple
  u128{ [

""x y""
]: uint8x
	""// no comment"":  pack

    ,""1""  :

//	t
    // `tick` ""quote"" 'q'
      crc,
	},

    u16

    uint8x

@lengthOf(int

// trailing space 
	  )

,  @tag(
007	)  //x
	repeat f32a

,
	}")).
Eval vm_compute in ("<<<M582>>>" ++ check (runes_of_ascii "packet body {
    @lengthOf( Pad
    )
@tag( 007)
    @tag( 00
    ) crc// 50% %s
@lengthOf( falsey
// @lengthOf(
//	t
) ,  @leftPad ( ' ' )  repeat	string repeatCount `u8 x,` ,@rightPad ( )@leftPad (' ')
uint8x
    u128 ,@calculatedFrom(
// " ++ [27880; 37322]%N ++ runes_of_ascii "
// 50% %s
""\n""
) packetx
lengthOf , } packet  body
{ @calculatedFrom( ""\" ++ [233]%N ++ runes_of_ascii """ )	metadata // `tick` ""quote"" 'q'
asx
    `100% of %d` , //
match
    chars as uint8x
{""1""
: //	t
options1  ,	7: rootA ,""// no comment"" :float
    }
, char[  4294967296 // " ++ [128512]%N ++ runes_of_ascii " emoji
] o
,}")).
Eval vm_compute in ("<<<M855>>>" ++ check (runes_of_ascii "packet
    //
    calculatedFrom {/// triple
pack matchKey `` , int8 MetaDataX
`a\` ,
    @lengthOf(crc  )
    int16 T , zchar[1]
    Logon @lengthOf(T )`line1
line2` ,
@rightPad ( ) Packet`u8 x,` ,}
packet pack /// triple
{ } packet
Z9_ {
Pad @lengthOf( _x )  `say ""hi""`
, @lengthOf(
matchKey
)@calculatedFrom(  """ ++ [128512]%N ++ runes_of_ascii """ ) f32	matchKey @calculatedFrom(  ""{,}""  ) `// not a comment`	,  } options
    {
    u
=
char[  65535 ]; rootA
=
3 leftPad = ' '
;repeatCount =
    // " ++ [128512]%N ++ runes_of_ascii " emoji
    '\x00' ;
}")).
Eval vm_compute in ("<<<M904>>>" ++ check (runes_of_ascii "root packet options1 { stringy @calculatedFrom(
    // " ++ [27880; 37322]%N ++ runes_of_ascii "
    ""packet"" )
,// @lengthOf(
match a1 as Pad{ ""x y"" : f32a[
""" ++ [233]%N ++ runes_of_ascii "t" ++ [233]%N ++ runes_of_ascii """ ,1
// " ++ [27880; 37322]%N ++ runes_of_ascii "
//
,
    ""it's""
, ""a\""b"", 10 ,42 , """ ++ [233]%N ++ runes_of_ascii "t" ++ [233]%N ++ runes_of_ascii """
    , """ ++ [233]%N ++ runes_of_ascii "t" ++ [233]%N ++ runes_of_ascii """ ]:
Packet //
}
// `tick` ""quote"" 'q'
// " ++ [128512]%N ++ runes_of_ascii " emoji
,
repeat float32 float `" ++ [28040; 24687; 31867; 22411]%N ++ runes_of_ascii "`
    , u8
    u8x
`crlf
line` ,@calculatedFrom(
    """ ++ [28040; 24687]%N ++ runes_of_ascii """
)  @calculatedFrom( ""a\""b"")
char[ 42// " ++ [128512]%N ++ runes_of_ascii " emoji
]
    int
    , float32 _x // c
@calculatedFrom(
""// no comment"" // c
)
    , charz pack  ,}
")).
Eval vm_compute in ("<<<M4269>>>" ++ check (runes_of_ascii "packet  uint8x

{

@tag(
    0123456789  ) 
match
	u8x
as //x
tag
    {
[
""a\\""
	,	""{,}""	, 	 // " ++ [128512]%N ++ runes_of_ascii " emoji
0123456789  // " ++ [128512]%N ++ runes_of_ascii " emoji
	,""it's"" 
] 
:

    tag	}	,

    char[ 
3
] 
packetx ,
repeat
	u8 x_y_z,

    i64
repeatCount
	`{ , }`
,
msg_type ,@lengthOf(body
    )

    repeat
i8i8	_x

`{ , }` 
, 	 /// triple

@lengthOf( Pad )
repeat

T { 
match msg_type// trailing space 

  as tag{ /// triple

""`tick`""

    : len }
,	} ,

    }
")).
Eval vm_compute in ("<<<M166>>>" ++ check (runes_of_ascii "packet int
{
    // " ++ [128512]%N ++ runes_of_ascii " emoji
    } options{
Z9_ = ' ';
    repeatCount = 0
    Header = zchar[ 007
    ] i64_
/// triple
// " ++ [128512]%N ++ runes_of_ascii " emoji
= """ ++ [128512]%N ++ runes_of_ascii """ ;  }root packet leftPad{
roots, }root packet Foo { repeat//x
MetaDataX u8x
    `crlf
line`
, @lengthOf(
    Header ) zchar[ 65535 ] metadata `u8 x,` , @tag( 65535 ) stringy{ options1 @lengthOf( asx ) , } , char[0
]
    Packet `two words`
,@lengthOf( u8x) int @lengthOf(
Logon ) , } 	 ")).
Eval vm_compute in ("<<<M3331>>>" ++ check (runes_of_ascii "// top
packet // c0a
  // c0b
leftPad // c1a
  // c1b
{
    // c2
@calculatedFrom( // c3a
  // c3b
""packet"" // c4
) // c5a
  // c5b
chars // c6a
  // c6b
Header
    // c7
,
    // c8
Z9_ // c9a
  // c9b
{ // c10a
  // c10b
int16 // c11
roots @lengthOf( // c13
f32a // c14
) `line1
line2` // c16
, // c17a
  // c17b
rootA // c18
, // c19
} // c20
, repeat // c22
int8 // c23
int // c24a
  // c24b
, }
    // c26
")).
Eval vm_compute in ("<<<M741>>>" ++ check (runes_of_ascii "options	{ }
packet tag{ repeat
string msg_type , i64	float `it's` , @rightPad ('0'	)@lengthOf(
    MetaDataX  ) body , match Header as leftPad {	42: Header ,} , @calculatedFrom(	""" ++ [233]%N ++ runes_of_ascii "t" ++ [233]%N ++ runes_of_ascii """) string
matchKey
, @rightPad (	'\x00')
char[] matchKey
    @lengthOf(	crc )
`tab	here` , uint64
    charz
``
    ,	}
packet u128
{ u64 A
    `tab	here` ,
    } root packet i8i8
    { } // `tick` ""quote"" 'q'")).
Eval vm_compute in ("<<<M701>>>" ++ check (runes_of_ascii "root
    packet u8x
{@calculatedFrom( """"	) repeat float
    pack // " ++ [128512]%N ++ runes_of_ascii " emoji
,repeat int32
f32a `doc` ,}root
packet Z9_ {
x_y_z { repeat x_y_z  `a\` , repeat
u32 x	, repeat
leftPad `tab	here`
    ,
    }
,
    }root packet repeatCount { falsey BodyLength ``
    ,
    char[ 3 ]
    calculatedFrom // 50% %s
@calculatedFrom(""" ++ [28040; 24687]%N ++ runes_of_ascii """	)	``,	repeat //	t
i8
As
    `// not a comment` ,}
")).
Eval vm_compute in ("<<<M161>>>" ++ check (runes_of_ascii "MetaData rootA {
    zchar[ 007	] uint8x
    `u8 x,` ,char[] lengthOf `a\` , As MetaDataX ,zchar[ 10 ]
len , // @lengthOf(
chars	As , }	packet pack {
    } root packet chars {@tag( //	t
3 ) i64// 50% %s
leftPad `tab	here` ,	rootA , @leftPad ( '0') repeat
// trailing space 
// trailing space 
int64 uint8x // trailing space 
, f32a tag
    , } // @lengthOf(")).
Eval vm_compute in ("<<<M1280>>>" ++ check (runes_of_ascii "packet x_y_z { @calculatedFrom( ""{,}""
)	match pack // `tick` ""quote"" 'q'
as i8i8 { [
    //
    3	] :
    // " ++ [128512]%N ++ runes_of_ascii " emoji
    BodyLength  ,
42
: i8i8 , [ ""CRC32""
    // `tick` ""quote"" 'q'
    ,""a\""b""
]
    : Foo } , Pad {crc `crlf
line`
    // c
    ,u8// `tick` ""quote"" 'q'
x	@calculatedFrom(""abc"" )	`" ++ [28040; 24687; 31867; 22411]%N ++ runes_of_ascii "` , stringy `it's` , } ,
falsey `
` , }")).
Eval vm_compute in ("<<<M769>>>" ++ check (runes_of_ascii "packet
string_ {  match packetx as
    // c
    u128{10
    : calculatedFrom , 42:
    i8i8 , 7 :
rootA [ ""a\\"" // trailing space 
, 007//	t
,10
    ,""1"", """ ++ [28040; 24687]%N ++ runes_of_ascii """,
// a // b
// `tick` ""quote"" 'q'
""// no comment"" , ""a\""b"" ]
: T 42 :
crc ,
    },	len	@lengthOf(
o )
//x
//x
``, // a // b
@rightPad( '\x00' )repeat char[] int , }
")).
Eval vm_compute in ("<<<M71>>>" ++ check (runes_of_ascii "root
    packet //
repeatCount {
    char[] crc `{ , }`
    // `tick` ""quote"" 'q'
    , T { i64_
// a // b
/// triple
asx
, } ,
    // " ++ [27880; 37322]%N ++ runes_of_ascii "
    @leftPad('0' ) char[
    /// triple
    00
    ]
    a1
    @lengthOf( Logon
)
    // c
    `it's` ,
    @tag( 00 )	@calculatedFrom(	""" ++ [233]%N ++ runes_of_ascii "t" ++ [233]%N ++ runes_of_ascii """ )
int32 x ,} root packet tag {}
")).
Eval vm_compute in ("<<<M3767>>>" ++ check (runes_of_ascii "MetaData Foo {
    string msg_type `" ++ [28040; 24687; 31867; 22411]%N ++ runes_of_ascii "`,
}

MetaData u8x {
}

packet Foo {
    @lengthOf(tag)
    u128 msg_type,
    @calculatedFrom(""// no comment"")
    crc @calculatedFrom(""{,}"") `doc`,
    char[007] roots,
}

options {
    calculatedFrom = float32
    pack = '\x00';
    Packet = ""// no comment""
}")).
Eval vm_compute in ("<<<M570>>>" ++ check (runes_of_ascii "MetaData _x {//x
char[3// packet A { u8 x, }
]Pad `crlf
line` , }
    packet trueish{
// a // b
// c
u ,repeat
    f32a{ char[ 65535 ]MetaDataX ,}// " ++ [128512]%N ++ runes_of_ascii " emoji
, @calculatedFrom(
""// no comment""  ) zchar[ 007 ]crc  @calculatedFrom(
""a\""b"" )
    `{ , }`,
@lengthOf( x_y_z ) As //x
`
`, }
//
")).
Eval vm_compute in ("<<<M216>>>" ++ check (runes_of_ascii "packet T { } MetaData MetaDataX {matchKey
    trueish , }
    options { tag
=  false ;	zchar
= i64; //
lengthOf =
    007;T = f32 Pad =
//x
// `tick` ""quote"" 'q'
i32;}packet  uint8x { match
o
as
    u128{
""a\""b""
: Pad ,}
    , } options {
    Logon // " ++ [128512]%N ++ runes_of_ascii " emoji
= string ; } 	 ")).
Eval vm_compute in ("<<<M1637>>>" ++ check (runes_of_ascii "// 50% %s
packet	a1
    { zchar[
// a // b
// 50% %s
007]
T `it's`
    ,@rightPad
    // a // b
    (
'\x00')
    o repeatCount , }  packet Logon {  }packet	Logon //x
{ repeat repeat // " ++ [128512]%N ++ runes_of_ascii " emoji
uint16 u128
    //
    `a\`,
falsey
@calculatedFrom(""packet"" ) ,
    } 	 ")).
Eval vm_compute in ("<<<M1634>>>" ++ check (runes_of_ascii "// 50% %s
packet	a1
    { zchar[
// a // b
// 50% %s
007]
T `it's`
    ,@rightPad
    // a // b
    (
'\x00')
    o repeatCount , }  packet Logon {  }packet	Logon //x
true repeat // " ++ [128512]%N ++ runes_of_ascii " emoji
uint16 u128
    //
    `a\`,
falsey
@calculatedFrom(""packet"" ) ,
    } 	 ")).
Eval vm_compute in ("<<<M1524>>>" ++ check (runes_of_ascii "// 50% %s
packet	i32
    { zchar[
// a // b
// 50% %s
007]
T `it's`
    ,@rightPad
    // a // b
    (
'\x00')
    o repeatCount , }  packet Logon {  }packet	Logon //x
{ repeat // " ++ [128512]%N ++ runes_of_ascii " emoji
uint16 u128
    //
    `a\`,
falsey
@calculatedFrom(""packet"" ) ,
    } 	 ")).
Eval vm_compute in ("<<<M1608>>>" ++ check (runes_of_ascii "// 50% %s
packet	a1
    { zchar[
// a // b
// 50% %s
007]
T `it's`
    ,@rightPad
    // a // b
    (
'\x00')
    o repeatCount , }  packet { Logon  }packet	Logon //x
{ repeat // " ++ [128512]%N ++ runes_of_ascii " emoji
uint16 u128
    //
    `a\`,
falsey
@calculatedFrom(""packet"" ) ,
    } 	 ")).
Eval vm_compute in ("<<<M1631>>>" ++ check (runes_of_ascii "// 50% %s
packet	a1
    { zchar[
// a // b
// 50% %s
007]
T `it's`
    ,@rightPad
    // a // b
    (
'\x00')
    o repeatCount , }  packet Logon {  }packet	Logon //x
 repeat // " ++ [128512]%N ++ runes_of_ascii " emoji
uint16 u128
    //
    `a\`,
falsey
@calculatedFrom(""packet"" ) ,
    } 	 ")).
Eval vm_compute in ("<<<M1606>>>" ++ check (runes_of_ascii "// 50% %s
packet	a1
    { zchar[
// a // b
// 50% %s
007]
T `it's`
    ,@rightPad
    // a // b
    (
'\x00')
    o repeatCount , }  packet  {  }packet	Logon //x
{ repeat // " ++ [128512]%N ++ runes_of_ascii " emoji
uint16 u128
    //
    `a\`,
falsey
@calculatedFrom(""packet"" ) ,
    } 	 ")).
Eval vm_compute in ("<<<M1586>>>" ++ check (runes_of_ascii "// 50% %s
packet	a1
    { zchar[
// a // b
// 50% %s
007]
T `it's`
    ,@rightPad
    // a // b
    (
'\x00')
    o  , }  packet Logon {  }packet	Logon //x
{ repeat // " ++ [128512]%N ++ runes_of_ascii " emoji
uint16 u128
    //
    `a\`,
falsey
@calculatedFrom(""packet"" ) ,
    } 	 ")).
Eval vm_compute in ("<<<M591>>>" ++ check (runes_of_ascii "packet body {zchar[ 1]  x	`it's`, Header
    `100% of %d` , } MetaData
a1 {
/// triple
// 50% %s
i8i8 msg_type ,
int64 asx , T
    Packet , uint8
As ,  } options { // " ++ [27880; 37322]%N ++ runes_of_ascii "
charz =' ' x_y_z /// triple
=
//
//x
' ' ;
packetx = ""// no comment"" }")).
Eval vm_compute in ("<<<M3362>>>" ++ check (runes_of_ascii "// top
packet // c0
Inner // c1
{ // c2
u8
    // c3
a // c4a
  // c4b
, // c5a
  // c5b
} root // c7a
  // c7b
packet // c8a
  // c8b
P {
    // c10
Inner // c11a
  // c11b
ref_obj , // c13a
  // c13b
u8
    // c14
x
    // c15
, } ")).
Eval vm_compute in ("<<<M4095>>>" ++ check (runes_of_ascii "
packet
x

    {
string
    msg_type , 
match
	roots  as // @lengthOf(
  pack
    { ""\" ++ [233]%N ++ runes_of_ascii """
	: leftPad , 
        //	t
  0
:	u8x

255 : options1

, ""x y""
	:  i8i8	// " ++ [27880; 37322]%N ++ runes_of_ascii "
,""x y"" :
	len
	""`tick`"" 
:	metadata
, 
}

    ,} ")).
Eval vm_compute in ("<<<M1189>>>" ++ check (runes_of_ascii "packet /// triple
calculatedFrom
    { @rightPad ( '0' ) char[  1 ] asx , @lengthOf( zchar //
) int32 float @calculatedFrom( """" ), @rightPad(
'\x00' ) x lengthOf , @tag(
    7 ) // packet A { u8 x, }
msg_type , }
")).
Eval vm_compute in ("<<<M1234>>>" ++ check (runes_of_ascii "packet i64_ {match int as	leftPad
{ [ 65535
,
    ""\" ++ [233]%N ++ runes_of_ascii """ , ""1""// 50% %s
, 7
    ] :	trueish , } ,
    asx { char[]
u
,leftPad i64_
, } , @tag( 007 //
)
    x //	t
u128,uint32 options1`// not a comment` ,}
")).
Eval vm_compute in ("<<<M3407>>>" ++ check (runes_of_ascii "

  packet A

    {u8 a, }
packet	B

    {
    u16  b 
,
    }
root 
packet P{u8

    K1 , 
u8 
K2 , 
match K1
as M1 { 1
: 
A  ,
}
	,match
K2

    as M2 {
    1
	:
B
    ,
	}

    ,	}

")).
Eval vm_compute in ("<<<M3602>>>" ++ check (runes_of_ascii "// 50% %s
packet a1 {
    zchar[007] T `it's`,
    @rightPad('\x00')
    o repeatCount,
}

packet Logon {
}

packet Logon {
    repeat u128 `a\`,
    falsey @calculatedFrom(""packet""),
}")).
Eval vm_compute in ("<<<M210>>>" ++ check (runes_of_ascii "MetaData Header{
}	root packet options1 {
crc metadata`" ++ [233]%N ++ runes_of_ascii "` , }packet A { }root packet
leftPad	{ } MetaData Header { MetaDataX
// packet A { u8 x, }
// 50% %s
i8i8 `u8 x,`,	}
")).
Eval vm_compute in ("<<<M964>>>" ++ check (runes_of_ascii "
MetaData x
{x MetaDataX
`tab	here`//
,
    f64 trueish`say ""hi""` ,zchar[ 1 // trailing space 
] f32a
`` ,
Packet // c
body `say ""hi""` , i64 chars
`crlf
line` ,}
")).
Eval vm_compute in ("<<<M595>>>" ++ check (runes_of_ascii "MetaData body { char[ 10
    ]
// packet A { u8 x, }
// " ++ [128512]%N ++ runes_of_ascii " emoji
Packet
    , Foo	lengthOf
, x_y_z a1	`// not a comment`
    , }options
{ repeatCount =
' ' ; }
")).
Eval vm_compute in ("<<<M871>>>" ++ check (runes_of_ascii "  packet	falsey /// triple
{ f32 uint8x `" ++ [28040; 24687; 31867; 22411]%N ++ runes_of_ascii "`,
    } // " ++ [27880; 37322]%N ++ runes_of_ascii "
packet _x
// " ++ [27880; 37322]%N ++ runes_of_ascii "
// @lengthOf(
{	}root packet lengthOf	{
    // @lengthOf(
    trueish
    , }")).
Eval vm_compute in ("<<<M3694>>>" ++ check (runes_of_ascii "root packet float {
    repeat i8i8 {
        pack,
    },
    f64 uint8x,
}

packet chars {
}

root packet float {
    tag @lengthOf(T) `tab	here`,
}")).
Eval vm_compute in ("<<<M894>>>" ++ check (runes_of_ascii "// " ++ [128512]%N ++ runes_of_ascii " emoji
options { u128=  ' ';
    Header =
string
    }
options { zchar
=
//
// @lengthOf(
char
    u128 =
    int8
;
    int =
    false ;}
")).
Eval vm_compute in ("<<<M2097>>>" ++ check (runes_of_ascii "MetaData BodyLength
{ int8 Foo
, string
    MetaDataX , float , zchar pack options1
,asx string_, }
packet u8x {Foo@lengthOf(charz )
`" ++ [28040; 24687; 31867; 22411]%N ++ runes_of_ascii "`,  }
")).
Eval vm_compute in ("<<<M2087>>>" ++ check (runes_of_ascii "MetaData BodyLength
{ int8 Foo
, string
    MetaDataX float , zchar ,pack options1
,asx string_, }
packet u8x {Foo@lengthOf(charz )
`" ++ [28040; 24687; 31867; 22411]%N ++ runes_of_ascii "`,  }
")).
Eval vm_compute in ("<<<M2085>>>" ++ check (runes_of_ascii "MetaData BodyLength
{ int8 Foo
, string
    MetaDataX  float zchar ,pack options1
,asx string_, }
packet u8x {Foo@lengthOf(charz )
`" ++ [28040; 24687; 31867; 22411]%N ++ runes_of_ascii "`,  }
")).
Eval vm_compute in ("<<<M4248>>>" ++ check (runes_of_ascii "  MetaData

    A  {  } packet
zchar 
    // packet A { u8 x, }
    // `tick` ""quote"" 'q'
		{ 
/// triple
    	}

options {
}/// triple
")).
Eval vm_compute in ("<<<M2105>>>" ++ check (runes_of_ascii "MetaData BodyLength
{ int8 Foo
, string
    MetaDataX , float zchar , options1
,asx string_, }
packet u8x {Foo@lengthOf(charz )
`" ++ [28040; 24687; 31867; 22411]%N ++ runes_of_ascii "`,  }
")).
Eval vm_compute in ("<<<M2291>>>" ++ check (runes_of_ascii "options
    {
x_y_z// " ++ [27880; 37322]%N ++ runes_of_ascii "
= 10 ; }
packet body {
    @calculatedFrom(
// trailing space 
// " ++ [27880; 37322]%N ++ runes_of_ascii "
""1""
)	match T as string
    {
255 :T , }
,}")).
Eval vm_compute in ("<<<M2314>>>" ++ check (runes_of_ascii "options
    {
x_y_z// " ++ [27880; 37322]%N ++ runes_of_ascii "
= 10 ; }
packet body {
    @calculatedFrom(
// trailing space 
// " ++ [27880; 37322]%N ++ runes_of_ascii "
""1""
)	match T as Foo
    {
255 :T , , }
,}")).
Eval vm_compute in ("<<<M4428>>>" ++ check (runes_of_ascii "packet A {
    match k as n {
        [
            1, 22, 007, 4, 5,
            66, 7, 8, 9, 10
        ] : B,
        2 : C,
    },
}")).
Eval vm_compute in ("<<<M2220>>>" ++ check (runes_of_ascii "options
    {
=// " ++ [27880; 37322]%N ++ runes_of_ascii "
x_y_z 10 ; }
packet body {
    @calculatedFrom(
// trailing space 
// " ++ [27880; 37322]%N ++ runes_of_ascii "
""1""
)	match T as Foo
    {
255 :T , }
,}")).
Eval vm_compute in ("<<<M1944>>>" ++ check (runes_of_ascii "
packet leftPad {
float64( '0')
u32
i64_ `100% of %d` ,repeat// 50% %s
i8 chars
    ,
} MetaData
    f32a
{ // packet A { u8 x, }
}")).
Eval vm_compute in ("<<<M4360>>>" ++ check (runes_of_ascii "packet A

    { 
match  k  as  n
    { ""\
"": B ,
	[""\
""	, 
1 ]  :C  , 
[
	1 , 2	,	3 
,
4
,

5  ,
	""\
"" 
]
    : D
    ,
} 
,
    }")).
Eval vm_compute in ("<<<M3869>>>" ++ check (runes_of_ascii "packet charz {
    char float,//x
}

packet float {
    // @lengthOf(
    zchar[0123456789] trueish @lengthOf(i8i8),
    i64 Pad,
}")).
Eval vm_compute in ("<<<M636>>>" ++ check (runes_of_ascii "
MetaData crc { // a // b
string repeatCount ,As
    repeatCount `{ , }` ,uint32 Packet `` , uint16 chars `say ""hi""`,//
} // " ++ [27880; 37322]%N)).
Eval vm_compute in ("<<<M4396>>>" ++ check (runes_of_ascii "options  { options1  =
char[] 
	    // c
lengthOf
=string
    Foo	=
	255 
body

    =
	7

    //x
	;

    chars  = true}")).
Eval vm_compute in ("<<<M213>>>" ++ check (runes_of_ascii "options {// " ++ [27880; 37322]%N ++ runes_of_ascii "
len =
    // a // b
    ""a\\""
    stringy = char[] ; // @lengthOf(
A = 0 ;	len =int64 packetx = ""`tick`"" }")).
Eval vm_compute in ("<<<M1865>>>" ++ check (runes_of_ascii "packet o {
    roots `it's`
// trailing space 
//x
, char[ '\x00'
    ]  A, // " ++ [27880; 37322]%N ++ runes_of_ascii "
f64
repeatCount
    `crlf
line`
,}")).
Eval vm_compute in ("<<<M1878>>>" ++ check (runes_of_ascii "packet o {
    roots `it's`
// trailing space 
//x
, char[ 42
    ]  A, , // " ++ [27880; 37322]%N ++ runes_of_ascii "
f64
repeatCount
    `crlf
line`
,}")).
Eval vm_compute in ("<<<M123>>>" ++ check (runes_of_ascii "packet zchar { @tag( 65535 ) @tag(
10 ) charz , char[] MetaDataX
@calculatedFrom( ""x y"" )	`line1
line2` ,
    } 	 ")).
Eval vm_compute in ("<<<M1852>>>" ++ check (runes_of_ascii "packet o {
    roots `it's`
// trailing space 
//x
 char[ 42
    ]  A, // " ++ [27880; 37322]%N ++ runes_of_ascii "
f64
repeatCount
    `crlf
line`
,}")).
Eval vm_compute in ("<<<M1585>>>" ++ check (runes_of_ascii "// 50% %s
packet	a1
    { zchar[
// a // b
// 50% %s
007]
T `it's`
    ,@rightPad
    // a // b
    (
'\x00')")).
Eval vm_compute in ("<<<M3872>>>" ++ check (runes_of_ascii "packet u8x {
    match u as zchar {
        42 : body,
    },
    int8 BodyLength `" ++ [28040; 24687; 31867; 22411]%N ++ runes_of_ascii "`,
}// trailing space ")).
Eval vm_compute in ("<<<M750>>>" ++ check (runes_of_ascii "
packet  tag
{ @tag(
10) string T , @calculatedFrom( ""it's"" ) u8 body, repeat
rootA ,Z9_ , }packet As {}
")).
Eval vm_compute in ("<<<M80>>>" ++ check (runes_of_ascii "options {	Z9_ // packet A { u8 x, }
=	'0'charz
= 10 T =
// `tick` ""quote"" 'q'
//
""// no comment"" ; }
")).
Eval vm_compute in ("<<<M949>>>" ++ check (runes_of_ascii "// " ++ [128512]%N ++ runes_of_ascii " emoji
options// c
{repeatCount= '\x00'	}
// 50% %s
// packet A { u8 x, }
MetaData uint8x {	}

")).
Eval vm_compute in ("<<<M4283>>>" ++ check (runes_of_ascii "
// 50% %s
  packet leftPad
{ 
}  packet  Packet 
{ 
@lengthOf(
	chars
)
repeat u128
	u8x `" ++ [233]%N ++ runes_of_ascii "`, } ")).
Eval vm_compute in ("<<<M3>>>" ++ check (runes_of_ascii "options
    { u
    = ' ' } packet crc
    { @rightPad // @lengthOf(
() u	u`tab	here` , } //x")).
Eval vm_compute in ("<<<M3745>>>" ++ check (runes_of_ascii "
packet

A 
{match
    k as n { [ ""a""
, ""bb""
    ,""c c""
, ""d""
]

: B  ,
	2

    : C}
,	}")).
Eval vm_compute in ("<<<M203>>>" ++ check (runes_of_ascii "MetaData packetx{
char[] x
// `tick` ""quote"" 'q'
//
, body Z9_ //	t
, }
// trailing space 
")).
Eval vm_compute in ("<<<M1439>>>" ++ check (runes_of_ascii "packet
T
{ match repeatCount calculatedFrom	as
{ [65535 ]	: As	,
} ,}
// trailing space 
")).
Eval vm_compute in ("<<<M1452>>>" ++ check (runes_of_ascii "packet
T
{ match repeatCount as	calculatedFrom
{ 65535 ]	: As	,
} ,}
// trailing space 
")).
Eval vm_compute in ("<<<M4104>>>" ++ check (runes_of_ascii "// top
packet u8x {
}

MetaData crc {
    // c6
    char[4294967296] Foo,// c11
}
// c12")).
Eval vm_compute in ("<<<M1786>>>" ++ check (runes_of_ascii "options{  lengthOf =//x
i16;
    BodyLength = 0 ; pack
= false;
    A = = char[ 3 ] }")).
Eval vm_compute in ("<<<M3082>>>" ++ check (runes_of_ascii "packet A {
    u32 crc @calculatedFrom(""x\
y""),
    @calculatedFrom(""x\
y"") u8 y,
}")).
Eval vm_compute in ("<<<M2956>>>" ++ check (runes_of_ascii "packet A {
  match k as n {
    [1, 22, ""c c"", 4, 5, ""f"", 7, 8] : B
    2 : C
  },
}")).
Eval vm_compute in ("<<<M1435>>>" ++ check (runes_of_ascii "packet
T
{ match 255 as	calculatedFrom
{ [65535 ]	: As	,
} ,}
// trailing space 
")).
Eval vm_compute in ("<<<M2729>>>" ++ check (runes_of_ascii "true x_y_z = char[] @calculatedFrom( { char , @calculatedFrom( char true options")).
Eval vm_compute in ("<<<M3249>>>" ++ check (runes_of_ascii "MetaData Foo { // c
zchar[ 0 ] matchKey , } options { lengthOf = i32 u = 00 ; }")).
Eval vm_compute in ("<<<M3364>>>" ++ check (runes_of_ascii "packet Inner {
    u8 a,
}
root packet P {
    repeat Inner items,
    u8 x,
}
")).
Eval vm_compute in ("<<<M2912>>>" ++ check (runes_of_ascii "packet A {
  match k as n {
    [1, ""bb"", 007, ""d"", 5] : B,
    2 : C
  },
}")).
Eval vm_compute in ("<<<M2114>>>" ++ check (runes_of_ascii "MetaData BodyLength
{ int8 Foo
, string
    MetaDataX , float zchar ,pack")).
Eval vm_compute in ("<<<M1886>>>" ++ check (runes_of_ascii "packet o {
    roots `it's`
// trailing space 
//x
, char[ 42
    ]  A,")).
Eval vm_compute in ("<<<M3337>>>" ++ check (runes_of_ascii "// top
options // c0
{ u8x = false // c4a
  // c4b
} // c5a
  // c5b
")).
Eval vm_compute in ("<<<M606>>>" ++ check (runes_of_ascii "// " ++ [128512]%N ++ runes_of_ascii " emoji
packet i64_ {
string a1
@lengthOf(
MetaDataX ) `" ++ [233]%N ++ runes_of_ascii "` ,}
")).
Eval vm_compute in ("<<<M1032>>>" ++ check (runes_of_ascii "options { // c
Z9_= ' ' ;roots=true  ; x
= true ; }
options { }")).
Eval vm_compute in ("<<<M3580>>>" ++ check (runes_of_ascii "  packet A{  match
	k as n	{
[ 1
	,  22
]:

B  2  :C  }	,
}

")).
Eval vm_compute in ("<<<M3305>>>" ++ check (runes_of_ascii "packet u8x { } MetaData crc { char[ // c
4294967296 ] Foo , }")).
Eval vm_compute in ("<<<M1155>>>" ++ check (runes_of_ascii "packet u8x{ @tag( 10
    // a // b
    ) u128
`` , //	t
}
")).
Eval vm_compute in ("<<<M1550>>>" ++ check (runes_of_ascii "// 50% %s
packet	a1
    { zchar[
// a // b
// 50% %s
007]")).
Eval vm_compute in ("<<<M222>>>" ++ check (runes_of_ascii "options {
    // a // b
    a1// c
=
255
;
i8i8 =""" ++ [128512]%N ++ runes_of_ascii """}
")).
Eval vm_compute in ("<<<M560>>>" ++ check (runes_of_ascii "
packet
MetaDataX { repeat f32 MetaDataX
    , }
")).
Eval vm_compute in ("<<<M4336>>>" ++ check (runes_of_ascii "

  root packet// `tick` ""quote"" 'q'
	i8i8 {
}

")).
Eval vm_compute in ("<<<M4260>>>" ++ check (runes_of_ascii "options {
    a = ""\
    "";
    b = ""\
    ""
}")).
Eval vm_compute in ("<<<M3748>>>" ++ check (runes_of_ascii "
root	packet
	f32a
{ 
    // a // b

  }

")).
Eval vm_compute in ("<<<M4105>>>" ++ check (runes_of_ascii "root packet u128 {
    chars `doc`,
}
// c")).
Eval vm_compute in ("<<<M3235>>>" ++ check (runes_of_ascii "root packet u128 { chars `doc` , } // c
")).
Eval vm_compute in ("<<<M3558>>>" ++ check (runes_of_ascii "
root
	packet
P	{ char	c, u8	x 
,

}
")).
Eval vm_compute in ("<<<M2391>>>" ++ check (runes_of_ascii "Me@xtaData
Foo {Header //
pack ,	} 	 ")).
Eval vm_compute in ("<<<M2774>>>" ++ check (runes_of_ascii "yrG@B=*vT0kv)z6-oDaFq1bD]A<RAF""axK(o")).
Eval vm_compute in ("<<<M3077>>>" ++ check (runes_of_ascii "root packet A {
    u8 x `%%d%!`,
}")).
Eval vm_compute in ("<<<M2401>>>" ++ check (runes_of_ascii "MetaData
Foo {Header //
x" ++ [178]%N ++ runes_of_ascii " ,	} 	 ")).
Eval vm_compute in ("<<<M3179>>>" ++ check (runes_of_ascii "packet A {
 u8 x `d x`, // c x
}")).
Eval vm_compute in ("<<<M1182>>>" ++ check (runes_of_ascii "MetaData Z9_	{ BodyLength _x,}")).
Eval vm_compute in ("<<<M2365>>>" ++ check (runes_of_ascii "MetaData
Foo { //
pack ,	} 	 ")).
Eval vm_compute in ("<<<M3343>>>" ++ check (runes_of_ascii "options {
// c
u8x = false }")).
Eval vm_compute in ("<<<M4153>>>" ++ check (runes_of_ascii "
MetaData	metadata
    {	} ")).
Eval vm_compute in ("<<<M2768>>>" ++ check (runes_of_ascii "{ char[] f64 msg_type ; ]")).
Eval vm_compute in ("<<<M1309>>>" ++ check (runes_of_ascii "root packet packetx {}
")).
Eval vm_compute in ("<<<M350>>>" ++ check (runes_of_ascii "options { Z9_
=0 ; }
")).
Eval vm_compute in ("<<<M2674>>>" ++ check (runes_of_ascii "options { a = `d`; }")).
Eval vm_compute in ("<<<M3178>>>" ++ check (runes_of_ascii "// c x
packet A {
}")).
Eval vm_compute in ("<<<M3128>>>" ++ check (runes_of_ascii "// c" ++ [8232]%N ++ runes_of_ascii "
packet A {
}")).
Eval vm_compute in ("<<<M2579>>>" ++ check (runes_of_ascii "packet A { x y, }")).
Eval vm_compute in ("<<<M760>>>" ++ check (runes_of_ascii "
MetaData u { }
")).
Eval vm_compute in ("<<<M60>>>" ++ check (runes_of_ascii " // @lengthOf(")).
Eval vm_compute in ("<<<M1087>>>" ++ check (runes_of_ascii "packet T { }")).
Eval vm_compute in ("<<<M2721>>>" ++ check (runes_of_ascii "as f64 u32")).
Eval vm_compute in ("<<<M1719>>>" ++ check (runes_of_ascii "options")).
Eval vm_compute in ("<<<M2520>>>" ++ check (runes_of_ascii """a\
b""")).
Eval vm_compute in ("<<<M2785>>>" ++ check (runes_of_ascii "t2Yz" ++ [65533]%N)).
Eval vm_compute in ("<<<M2508>>>" ++ check (runes_of_ascii "// x")).
Eval vm_compute in ("<<<M2516>>>" ++ check (runes_of_ascii """a\")).
Eval vm_compute in ("<<<M2515>>>" ++ check (runes_of_ascii """a")).
Eval vm_compute in ("<<<M2851>>>" ++ check ([1143]%N)).
