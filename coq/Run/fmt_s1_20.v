From FP Require Import Lexer Parser ShowPT Digest Formatter.
From Coq Require Import String List NArith.
Import ListNotations.
Open Scope string_scope.
Set Printing Width 100000000.
Set Printing Depth 100000000.
Definition show_fres (r : fres) : string :=
  match r with
  | FOk s => "OK:" ++ sh_escaped s ""
  | FErr s => "ERR:" ++ sh_escaped s ""
  | FPanic p => "PANIC:" ++ p
  end.
Definition check (rs : list rune) : string := digest (show_fres (format_res rs)).
Definition full (rs : list rune) : string := show_fres (format_res rs).
Eval vm_compute in ("<<<M2131>>>" ++ check (runes_of_ascii "// " ++ [27880; 37322]%N ++ runes_of_ascii "
	options{ zchar// a // b
=
""x y""
; options1 
=
u16 ; 
}packet 
Pad

    { Z9_

    @calculatedFrom(  """"	) 
`
` 
, @tag(42
    )//
	@tag(00

) @lengthOf(
    zchar

    )
match
_x // packet A { u8 x, }
	as
	metadata
{
007 
:

As
	""`tick`""  // packet A { u8 x, }
  	: lengthOf, 
255

    :

lengthOf""a	b""
	// trailing space 
	// " ++ [27880; 37322]%N ++ runes_of_ascii "

:	Packet
	255  : a1 ,  // c

	[
    00 
, 0
	,
    10 , ""a\\""
	,
""it's""
    ,

    10	, 7]:Foo,
}
	,	match  Header as

    o  {[ // packet A { u8 x, }
    255 ]:
	zchar 
,
    0123456789: 
leftPad
	[ 
007
,
    3

    ]:
    leftPad
    ,// c
	0
	:packetx
    ,  } ,
}
	MetaData
Pad{// packet A { u8 x, }
} 
packet 
T
	// packet A { u8 x, }

	{
// " ++ [27880; 37322]%N ++ runes_of_ascii "
	charz	@lengthOf( asx
	)
    ``, } packet

matchKey 
{ @tag(3 
) @calculatedFrom(

""a	b"" 
/// triple
// c
	)@calculatedFrom( """"
	)
pack
    rootA
, repeat//	t
	  leftPad`` ,
repeat uint32  Foo
`u8 x,`
    ,
	@calculatedFrom(
""" ++ [233]%N ++ runes_of_ascii "t" ++ [233]%N ++ runes_of_ascii """

    ) repeat

    char[

65535 
]
	u
, @lengthOf(

_x 
) @lengthOf(
u8x) 
repeat

zchar[ 
0123456789
]
x ,
	match

    i64_  // " ++ [27880; 37322]%N ++ runes_of_ascii "
    as

falsey
	{	// trailing space 
255
:	f32a ,

    ""{,}""	: x,	""\" ++ [233]%N ++ runes_of_ascii """ 
: matchKey, 
[ """"	, 
    // trailing space 
  ""{,}""
	,
	10
	, """ ++ [128512]%N ++ runes_of_ascii """  
      // a // b
		// packet A { u8 x, }
,""a	b"",	0  ,
""1""

,
65535 ] 
:len,""\" ++ [233]%N ++ runes_of_ascii """

    :

T 
,
	[

""CRC32"" , 
	// " ++ [128512]%N ++ runes_of_ascii " emoji
  1 , ""// no comment"" ,	007
	,	1, ""`tick`"" , """ ++ [128512]%N ++ runes_of_ascii """
    ] 	 // packet A { u8 x, }

  : a1 }
,

    match x as As
	{ ""a	b""
	: o,  007 :

MetaDataX
,  [
	""a	b"" ]
:
    falsey, ""// no comment""
    : 
Z9_

""packet"":

_x
    // " ++ [128512]%N ++ runes_of_ascii " emoji
  ,}

, repeat
rootA	{
uint8
    MetaDataX	@calculatedFrom( ""abc""

), match  // `tick` ""quote"" 'q'
int as// a // b
  	asx{ [
	10

,  10 , ""`tick`""

    ,  00
    ,	4294967296 ]
	: 
o
,
""CRC32"" : string_ 
,
[ 0	]  :
    roots 65535	: 
// " ++ [27880; 37322]%N ++ runes_of_ascii "
  	// trailing space 
	_x	//
    ,	""it's"" :
Pad
,  4294967296 : 
Pad,  }

    ,u16
chars  `line1
line2`, //x

  }  , 
}")).
Eval vm_compute in ("<<<M1913>>>" ++ check (runes_of_ascii "  options {
    StringPrefixLenType =  u16 ; 
ArrayPrefixLenType

= 
u16
	;}
	packet SampleBinary
    {
    uint16 MsgType `" ++ [28040; 24687; 31867; 22411]%N ++ runes_of_ascii "`
    ,
    u16	BodyLenght @lengthOf( 
Body )`" ++ [28040; 24687; 20307; 38271; 24230]%N ++ runes_of_ascii "`
    ,
match  MsgType

as
    Body  {1

:Logon
    ,
    2
:	Logout
	, 3 :
Heartbeat , 4
: RiskControlRequest , 5:
    RiskControlResponse
    , } 
,@calculatedFrom(
    ""CRC32""
)
    u32	Ckecksum
`" ++ [26657; 39564; 21644]%N ++ runes_of_ascii "`,}	packet

Logon

{

    @leftPad

('0'
)	char[
10]
UserName`" ++ [29992; 25143; 21517]%N ++ runes_of_ascii "`
,	string Password `" ++ [23494; 30721]%N ++ runes_of_ascii "` 
,

uint64
    ClientId
	`" ++ [23458; 25143; 31471]%N ++ runes_of_ascii "ID`,  u16	HeartbeatInterval
`" ++ [24515; 36339; 38388; 38548]%N ++ runes_of_ascii "` ,
}
packet

    Logout
	{
	@rightPad (

    '0')

    char[10	]	UserName	`" ++ [29992; 25143; 21517]%N ++ runes_of_ascii "` ,uint64 ClientId  `" ++ [23458; 25143; 31471]%N ++ runes_of_ascii "ID`,

    }packet 
Heartbeat

{
	}
packet RiskControlRequest {
string
UniqueOrderId

`" ++ [21807; 19968; 35746; 21333; 21495]%N ++ runes_of_ascii "`	,char[
    16] ClOrdID 
`" ++ [23458; 25143; 35746; 21333; 21495]%N ++ runes_of_ascii "`

, char[
	3	] MarketID  `" ++ [24066; 22330]%N ++ runes_of_ascii "id`,

    char[ 
12]	SecurityID

    `" ++ [35777; 21048; 20195; 30721]%N ++ runes_of_ascii "`
	,

char
	Side
	`" ++ [20080; 21334; 26041; 21521]%N ++ runes_of_ascii "`,

char

OrderType `" ++ [35746; 21333; 31867; 22411]%N ++ runes_of_ascii "` ,u64
Price `" ++ [20215; 26684]%N ++ runes_of_ascii "`
,u32
Qty  `" ++ [25968; 37327]%N ++ runes_of_ascii "`
,

    repeat
    string ExtraInfo
	`" ++ [38468; 21152; 20449; 24687]%N ++ runes_of_ascii "`
    , repeat

    SubOrder { 
char[ 16	]

    ClOrdID `" ++ [23376; 35746; 21333; 21495]%N ++ runes_of_ascii "`
	,u64	Price

`" ++ [23376; 35746; 21333; 20215; 26684]%N ++ runes_of_ascii "`, u32
	Qty

`" ++ [23376; 35746; 21333; 25968; 37327]%N ++ runes_of_ascii "`

,

}
	,

    }  packet
RiskControlResponse{

    string UniqueOrderId

`" ++ [21807; 19968; 35746; 21333; 21495]%N ++ runes_of_ascii "`	,
    i32  Status`" ++ [29366; 24577]%N ++ runes_of_ascii "`
    , string
	Msg `" ++ [32467; 26524; 20449; 24687]%N ++ runes_of_ascii "`,  repeat
    Detail

, }

    packet

    Detail

    {  string 
RuleName

`" ++ [35268; 21017; 21517; 31216]%N ++ runes_of_ascii "`,u16  Code

`" ++ [21407; 22240; 20195; 30721]%N ++ runes_of_ascii "`

,
    }")).
Eval vm_compute in ("<<<M378>>>" ++ check (runes_of_ascii "options {
	StringPrefixLenType = u16;
	ArrayPrefixLenType = u16;
}

packet SampleBinary {
	uint16 MsgType `" ++ [28040; 24687; 31867; 22411]%N ++ runes_of_ascii "`,
	u16 BodyLenght @lengthOf(Body) `" ++ [28040; 24687; 20307; 38271; 24230]%N ++ runes_of_ascii "`,
	match MsgType as Body {
		1 : Logon,
		2 : Logout,
		3 : Heartbeat,
		4 : RiskControlRequest,
		5 : RiskControlResponse,
	},
		@calculatedFrom(""CRC32"")
	u32 Ckecksum `" ++ [26657; 39564; 21644]%N ++ runes_of_ascii "`,
}

packet Logon {
	 @leftPad('0')
	char[10] UserName `" ++ [29992; 25143; 21517]%N ++ runes_of_ascii "`,
	string Password `" ++ [23494; 30721]%N ++ runes_of_ascii "`,
	uint64 ClientId `" ++ [23458; 25143; 31471]%N ++ runes_of_ascii "ID`,
	u16 HeartbeatInterval `" ++ [24515; 36339; 38388; 38548]%N ++ runes_of_ascii "`,
}

packet Logout {
	  @rightPad('0')
	char[10] UserName `" ++ [29992; 25143; 21517]%N ++ runes_of_ascii "`,
	uint64 ClientId `" ++ [23458; 25143; 31471]%N ++ runes_of_ascii "ID`,
}

packet Heartbeat {
}

packet RiskControlRequest {
	string UniqueOrderId `" ++ [21807; 19968; 35746; 21333; 21495]%N ++ runes_of_ascii "`,
	char[16] ClOrdID `" ++ [23458; 25143; 35746; 21333; 21495]%N ++ runes_of_ascii "`,
	char[3] MarketID `" ++ [24066; 22330]%N ++ runes_of_ascii "id`,
	char[12] SecurityID `" ++ [35777; 21048; 20195; 30721]%N ++ runes_of_ascii "`,
	char Side `" ++ [20080; 21334; 26041; 21521]%N ++ runes_of_ascii "`,
	char OrderType `" ++ [35746; 21333; 31867; 22411]%N ++ runes_of_ascii "`,
	u64 Price `" ++ [20215; 26684]%N ++ runes_of_ascii "`,
	u32 Qty `" ++ [25968; 37327]%N ++ runes_of_ascii "`,
	repeat string ExtraInfo `" ++ [38468; 21152; 20449; 24687]%N ++ runes_of_ascii "`,
	repeat SubOrder {
			char[16] ClOrdID `" ++ [23376; 35746; 21333; 21495]%N ++ runes_of_ascii "`,
			u64 Price `" ++ [23376; 35746; 21333; 20215; 26684]%N ++ runes_of_ascii "`,
			u32 Qty `" ++ [23376; 35746; 21333; 25968; 37327]%N ++ runes_of_ascii "`,
		},
}

packet RiskControlResponse {
	string UniqueOrderId `" ++ [21807; 19968; 35746; 21333; 21495]%N ++ runes_of_ascii "`,
	i32 Status `" ++ [29366; 24577]%N ++ runes_of_ascii "`,
	string Msg `" ++ [32467; 26524; 20449; 24687]%N ++ runes_of_ascii "`,
	repeat Detail,
}

packet Detail {
	string RuleName `" ++ [35268; 21017; 21517; 31216]%N ++ runes_of_ascii "`,
	u16 Code `" ++ [21407; 22240; 20195; 30721]%N ++ runes_of_ascii "`,
}")).
Eval vm_compute in ("<<<M154>>>" ++ check (runes_of_ascii "options { } packet
    //	t
    falsey /// triple
{	i64 calculatedFrom
    @calculatedFrom(
    //
    ""a\\"" )
`it's` ,
char[ 00 ] falsey ,	@calculatedFrom(""1"" ) @calculatedFrom( ""{,}""
    )
i32	float	,@tag(3 //
)
    @calculatedFrom(  ""CRC32"" ) int64 options1 @lengthOf(roots ) `two words` , @calculatedFrom(""a\\""	) repeat trueish { repeat charz
,trueish // trailing space 
tag //x
`two words` ,
repeat u64 Logon  `" ++ [28040; 24687; 31867; 22411]%N ++ runes_of_ascii "`,},
    @leftPad(
    //x
    '0'
)// " ++ [128512]%N ++ runes_of_ascii " emoji
@rightPad (
// " ++ [128512]%N ++ runes_of_ascii " emoji
//
' ' )
//	t
//
u roots,repeat
A	{i32 int
@lengthOf( zchar
)`" ++ [233]%N ++ runes_of_ascii "`
    ,
    }//	t
, u64 A , @tag( 10 ) char[]
u8x, zchar[
10 ] pack
//
// " ++ [27880; 37322]%N ++ runes_of_ascii "
@calculatedFrom(""1"" ) `say ""hi""` ,	} packet Z9_//	t
{// " ++ [27880; 37322]%N ++ runes_of_ascii "
@leftPad( '0')  repeat
// a // b
// @lengthOf(
As charz
, body @calculatedFrom( ""it's""
    )`crlf
line` ,
    // " ++ [27880; 37322]%N ++ runes_of_ascii "
    @leftPad ('0'
) zchar[ 4294967296 ]
A @calculatedFrom(""packet""
    // trailing space 
    ) `" ++ [233]%N ++ runes_of_ascii "`  , repeat body
    Header`" ++ [233]%N ++ runes_of_ascii "`,}
")).
Eval vm_compute in ("<<<M2037>>>" ++ check (runes_of_ascii "root packet msg_type {
    repeat A {
        repeat a1 {
            repeat len,
        },
        pack string_,
        zchar[7] msg_type @lengthOf(u),
    },
    repeat zchar[00] tag,
    u64 o @calculatedFrom(""a\\""),
}

packet charz {
    @tag(0)
    // c
    repeat u {
        char[007] T,
    },
    repeatCount @calculatedFrom(""\n""),
}

packet trueish {
    @calculatedFrom(""a\\"")
    @rightPad('0')
    // `tick` ""quote"" 'q'
    @lengthOf(BodyLength)
    string asx @lengthOf(A),
    //x
    /// triple
    @rightPad(' ')
    match pack as leftPad {
        [1] : body,
        [""a	b""] : msg_type,
        // `tick` ""quote"" 'q'
        10 : calculatedFrom,
        7 : packetx,
        """ ++ [233]%N ++ runes_of_ascii "t" ++ [233]%N ++ runes_of_ascii """ : roots,
    },
    @calculatedFrom(""1"")
    repeat roots u8x,
}")).
Eval vm_compute in ("<<<M1821>>>" ++ check (runes_of_ascii "// " ++ [27880; 37322]%N ++ runes_of_ascii "
root packet _x {
    //	t
    // packet A { u8 x, }
    @rightPad()
    zchar[007] Logon @calculatedFrom(""x y""),
    zchar[7] string_ @lengthOf(Packet) `two words`,
    @tag(007)
    @calculatedFrom(""x y"")
    repeat calculatedFrom {
        // packet A { u8 x, }
        zchar @calculatedFrom(""" ++ [233]%N ++ runes_of_ascii "t" ++ [233]%N ++ runes_of_ascii """),
        int32 leftPad,
    },
    repeat body chars,
    @lengthOf(options1)
    repeat char[255] Foo,
    // c
    //
    repeat MetaDataX {
        pack,
    },
    char[7] repeatCount @calculatedFrom(""it's""),
}

// trailing space 
packet Packet {
    Header @lengthOf(uint8x) `two words`,
}

options {
}

root packet msg_type {
    int32 body `" ++ [28040; 24687; 31867; 22411]%N ++ runes_of_ascii "`,
}")).
Eval vm_compute in ("<<<M255>>>" ++ check (runes_of_ascii "MetaData metadata { // `tick` ""quote"" 'q'
msg_type
Pad
    , int8
calculatedFrom, } MetaData msg_type{// packet A { u8 x, }
}
packet // a // b
len {_x , }
options { As =
// a // b
// c
true
; // " ++ [27880; 37322]%N ++ runes_of_ascii "
repeatCount
    ='\x00' ; uint8x // packet A { u8 x, }
= ""\" ++ [233]%N ++ runes_of_ascii """;
    chars= true
; }
// " ++ [27880; 37322]%N ++ runes_of_ascii "
// `tick` ""quote"" 'q'
packet crc {matchKey @lengthOf( float	) ,
@leftPad ( '0'
    ) match	i8i8 as x
{[ // " ++ [128512]%N ++ runes_of_ascii " emoji
65535 ,
    // trailing space 
    10 , 4294967296
] :repeatCount ,  ""// no comment"": stringy
    ,} ,
    @calculatedFrom(	""a	b""
)crc
// " ++ [27880; 37322]%N ++ runes_of_ascii "
// trailing space 
,
    /// triple
    }

")).
Eval vm_compute in ("<<<M1815>>>" ++ check (runes_of_ascii "
options
{
    LittleEndian=false
;

ArrayPrefixLenType
	=  u8

    ; FixedStringPadChar ='0'; }
    packet Order
{ InNote94	{

    f32 
f1	, f64

Side2
,repeat InTail47
	{
char[] 
seqNo
    ,
char[]

Tail , char[]
lastPx

,},

    }
, zchar[ 7
]
    f1,
u8
    Side2  , } root	packet
Reject

    {  repeat

    char[

    4] Flags ,

InPrice63
{  InSeqno41
	{ repeat  i8
	OrderId
,

    repeat	i32  clOrdID	, char[

    9] 
tag7,
	char[]
    lastPx, }  , Order  ,uint8 Side2
, } ,
	}

")).
Eval vm_compute in ("<<<M191>>>" ++ check (runes_of_ascii "packet x
{ repeat
    string_
    { repeat asx	Foo
    /// triple
    ,int16 i8i8 , char[] matchKey ,
// @lengthOf(
// trailing space 
match calculatedFrom as // a // b
roots  { 3
: x_y_z , }
    , }
, @lengthOf(x ) repeat o `say ""hi""`
    ,//	t
char[] string_	`" ++ [28040; 24687; 31867; 22411]%N ++ runes_of_ascii "`
, @lengthOf( f32a )	match
    Pad as
    A //	t
{ ""a	b"": u128 , [""\" ++ [233]%N ++ runes_of_ascii """ ,
65535
    , 255
,""CRC32""
,
1 ]
    : i8i8
0123456789 : falsey //	t
, } , }packet zchar { }
")).
Eval vm_compute in ("<<<M1826>>>" ++ check (runes_of_ascii "root packet pack {
    match matchKey as int {
        00 : metadata,
        ""a\\"" : o,
        ""// no comment"" : x,
        [""packet""] : A,
        [
            ""\n"", 0123456789, 00, ""// no comment"", 007,
            255, 1, 0
        ] : metadata,
        [00] : Pad,
    },
}// @lengthOf(

MetaData tag {
    uint64 i64_ `doc`,
}

packet BodyLength {
    repeat u32 u128,
}")).
Eval vm_compute in ("<<<M357>>>" ++ check (runes_of_ascii "options
{
// @lengthOf(
// " ++ [128512]%N ++ runes_of_ascii " emoji
x = 10//
; x_y_z//
=
    true	;
Logon =
    i32 T =
    0 }
MetaData
f32a	{ zchar len,
    }
    options {string_
// c
//
= zchar[
007 ] ;
x_y_z = '0'
    ;
}MetaData msg_type // " ++ [27880; 37322]%N ++ runes_of_ascii "
{ lengthOf msg_type `two words`
    ,	i64 crc , packetx  zchar
`// not a comment`
, string// c
falsey `tab	here` , }
")).
Eval vm_compute in ("<<<M1513>>>" ++ check (runes_of_ascii "// top
packet // c0
FooBar // c1a
  // c1b
{ // c2
u8 a , // c5a
  // c5b
} // c6a
  // c6b
packet // c7a
  // c7b
foo_bar
    // c8
{ // c9a
  // c9b
u16
    // c10
b // c11a
  // c11b
, }
    // c13
root // c14
packet // c15
R // c16
{
    // c17
FooBar // c18
, // c19
foo_bar
    // c20
, } ")).
Eval vm_compute in ("<<<M594>>>" ++ check (runes_of_ascii "root packet tag { }  packet MetaDataX{char[007	]
// c
/// triple
asx  @calculatedFrom( ""a\""b""
) `say ""hi""`// " ++ [27880; 37322]%N ++ runes_of_ascii "
,  @tag(4294967296 )
    char[1//x
] packetx packetx @calculatedFrom(""a\""b""
    ) ,
// " ++ [128512]%N ++ runes_of_ascii " emoji
// a // b
@calculatedFrom(""" ++ [233]%N ++ runes_of_ascii "t" ++ [233]%N ++ runes_of_ascii """  ) repeat pack // " ++ [27880; 37322]%N ++ runes_of_ascii "
,
    } // c")).
Eval vm_compute in ("<<<M526>>>" ++ check (runes_of_ascii "root packet tag { }  packet MetaDataX{char[repeat	]
// c
/// triple
asx  @calculatedFrom( ""a\""b""
) `say ""hi""`// " ++ [27880; 37322]%N ++ runes_of_ascii "
,  @tag(4294967296 )
    char[1//x
] packetx @calculatedFrom(""a\""b""
    ) ,
// " ++ [128512]%N ++ runes_of_ascii " emoji
// a // b
@calculatedFrom(""" ++ [233]%N ++ runes_of_ascii "t" ++ [233]%N ++ runes_of_ascii """  ) repeat pack // " ++ [27880; 37322]%N ++ runes_of_ascii "
,
    } // c")).
Eval vm_compute in ("<<<M580>>>" ++ check (runes_of_ascii "root packet tag { }  packet MetaDataX{char[007	]
// c
/// triple
asx  @calculatedFrom( ""a\""b""
) `say ""hi""`// " ++ [27880; 37322]%N ++ runes_of_ascii "
,  @tag(4294967296 )
    1 char[//x
] packetx @calculatedFrom(""a\""b""
    ) ,
// " ++ [128512]%N ++ runes_of_ascii " emoji
// a // b
@calculatedFrom(""" ++ [233]%N ++ runes_of_ascii "t" ++ [233]%N ++ runes_of_ascii """  ) repeat pack // " ++ [27880; 37322]%N ++ runes_of_ascii "
,
    } // c")).
Eval vm_compute in ("<<<M570>>>" ++ check (runes_of_ascii "root packet tag { }  packet MetaDataX{char[007	]
// c
/// triple
asx  @calculatedFrom( ""a\""b""
) `say ""hi""`// " ++ [27880; 37322]%N ++ runes_of_ascii "
,  @tag() 4294967296
    char[1//x
] packetx @calculatedFrom(""a\""b""
    ) ,
// " ++ [128512]%N ++ runes_of_ascii " emoji
// a // b
@calculatedFrom(""" ++ [233]%N ++ runes_of_ascii "t" ++ [233]%N ++ runes_of_ascii """  ) repeat pack // " ++ [27880; 37322]%N ++ runes_of_ascii "
,
    } // c")).
Eval vm_compute in ("<<<M546>>>" ++ check (runes_of_ascii "root packet tag { }  packet MetaDataX{char[007	]
// c
/// triple
asx  @calculatedFrom( int8
) `say ""hi""`// " ++ [27880; 37322]%N ++ runes_of_ascii "
,  @tag(4294967296 )
    char[1//x
] packetx @calculatedFrom(""a\""b""
    ) ,
// " ++ [128512]%N ++ runes_of_ascii " emoji
// a // b
@calculatedFrom(""" ++ [233]%N ++ runes_of_ascii "t" ++ [233]%N ++ runes_of_ascii """  ) repeat pack // " ++ [27880; 37322]%N ++ runes_of_ascii "
,
    } // c")).
Eval vm_compute in ("<<<M633>>>" ++ check (runes_of_ascii "root packet tag { }  packet MetaDataX{char[007	]
// c
/// triple
asx  @calculatedFrom( ""a\""b""
) `say ""hi""`// " ++ [27880; 37322]%N ++ runes_of_ascii "
,  @tag(4294967296 )
    char[1//x
] packetx @calculatedFrom(""a\""b""
    ) ,
// " ++ [128512]%N ++ runes_of_ascii " emoji
// a // b
@calculatedFrom(""" ++ [233]%N ++ runes_of_ascii "t" ++ [233]%N ++ runes_of_ascii """  )  pack // " ++ [27880; 37322]%N ++ runes_of_ascii "
,
    } // c")).
Eval vm_compute in ("<<<M1758>>>" ++ check (runes_of_ascii "root packet calculatedFrom {
    repeat Header,
}

MetaData Header {
    zchar[10] As,// trailing space 
    string chars,
    crc Logon `u8 x,`,
    Z9_ Logon,
}

packet trueish {
}

MetaData A {
}

options {
    options1 = ' ';//	t
}")).
Eval vm_compute in ("<<<M115>>>" ++ check (runes_of_ascii "
MetaData stringy
{
    i16
    f32a , string  crc `crlf
line`
, f32 o `doc` , float64
calculatedFrom , }	packet o
{ @leftPad // `tick` ""quote"" 'q'
( )string_
    @lengthOf(packetx // `tick` ""quote"" 'q'
), }
")).
Eval vm_compute in ("<<<M354>>>" ++ check (runes_of_ascii "MetaData u128 { char[]falsey ,u8  roots	, i8
u `doc`, packetx int ,
}// c
packet asx
{ }
options	{ matchKey= ""// no comment"" Logon
= char[]
    u128=
false options1 =' '
len
    = '\x00'  }")).
Eval vm_compute in ("<<<M1529>>>" ++ check (runes_of_ascii "

  packet
	u128 
{ u8 a,

    }

root packet	Msg
{
	u8
k,

u24 {
u8
Hi
,u16	Lo	,	}  , 
repeat	i24
    {
	u32
	q ,
}

,
u128

    ,
u16	float32x

    ,  string

s

,
    } ")).
Eval vm_compute in ("<<<M476>>>" ++ check (runes_of_ascii "packet
    // `tick` ""quote"" 'q'
    crc
// packet A { u8 x, }
//	t
{
u32 a1 ,
    // trailing space 
    roots
charz //
`two words`,	}
    MetaData caf" ++ [233]%N ++ runes_of_ascii "_1 {
} /// triple")).
Eval vm_compute in ("<<<M692>>>" ++ check (runes_of_ascii "root packet len // trailing space 
{
// " ++ [27880; 37322]%N ++ runes_of_ascii "
//	t
10 char[
] metadata	@lengthOf( o ) `crlf
line`,
    @rightPad
( ' '
) string
    Header @calculatedFrom( ""a\\""
    ), }
")).
Eval vm_compute in ("<<<M718>>>" ++ check (runes_of_ascii "root packet { // trailing space 
len
// " ++ [27880; 37322]%N ++ runes_of_ascii "
//	t
char[10
] metadata	@lengthOf( o ) `crlf
line`,
    @rightPad
( ' '
) string
    Header @calculatedFrom( ""a\\""
    ), }
")).
Eval vm_compute in ("<<<M716>>>" ++ check (runes_of_ascii "root packet len // trailing space 
{
// " ++ [27880; 37322]%N ++ runes_of_ascii "
//	t
char[10
] metadata	@lengthOf( o ) `crlf
line`,
    @rightPad
( ' '
) string
    Header @calculatedFrom( ""a\\""
    ),")).
Eval vm_compute in ("<<<M34>>>" ++ check (runes_of_ascii "// " ++ [27880; 37322]%N ++ runes_of_ascii "
root packet chars { @rightPad(
    //	t
    )
    u8x @calculatedFrom( ""a	b"" ) `line1
line2` ,
repeat
tag {
    repeat options1 f32a
    `" ++ [28040; 24687; 31867; 22411]%N ++ runes_of_ascii "` , },	}
")).
Eval vm_compute in ("<<<M1791>>>" ++ check (runes_of_ascii "
root

    packet
matchKey
{ zchar[  3
	] pack 
@calculatedFrom(
	""a	b""
)`doc` ,
    // c
    } options
	{ }MetaData  A {  int8	msg_type	,
	}")).
Eval vm_compute in ("<<<M324>>>" ++ check (runes_of_ascii "MetaData metadata {
//x
// " ++ [128512]%N ++ runes_of_ascii " emoji
}
    root packet chars {
    @lengthOf(Packet
    // @lengthOf(
    ) // c
repeat int16 roots `
` ,	}")).
Eval vm_compute in ("<<<M1721>>>" ++ check (runes_of_ascii "MetaData
float { 
float64

    charz

    `
`
	,	} 
root
packet chars
{ @rightPad
	(  '0'  
      // c
		)  Foo
    ,  }

")).
Eval vm_compute in ("<<<M1221>>>" ++ check (runes_of_ascii "// c
root packet matchKey { zchar[ 3 ] pack @calculatedFrom( ""a	b"" ) `doc` , } options { } MetaData A { int8 msg_type , }")).
Eval vm_compute in ("<<<M1254>>>" ++ check (runes_of_ascii "root packet matchKey { zchar[ 3 ] pack @calculatedFrom( ""a	b"" ) `doc` , } options {
// c
} MetaData A { int8 msg_type , }")).
Eval vm_compute in ("<<<M2043>>>" ++ check (runes_of_ascii "packet  A
{
	match k

as

n	{
    [ ""a""
    , ""bb""	, 
""c c""  , 
""d"" ,

""e"" , ""f""

,
""g""
, ""h""	] :
B	2 : C

    },}

")).
Eval vm_compute in ("<<<M889>>>" ++ check (runes_of_ascii "packet A {
  match k as n {
    [""a"", ""bb"", ""c c"", ""d"", ""e"", ""f"", ""g"", ""h"", ""i"", ""j"", ""k""] : B
    2 : C
  },
}")).
Eval vm_compute in ("<<<M35>>>" ++ check (runes_of_ascii "options { body = 42 ;Logon
// @lengthOf(
// " ++ [27880; 37322]%N ++ runes_of_ascii "
=
    '0'
    ; metadata=
""" ++ [128512]%N ++ runes_of_ascii """; Foo =true//
i64_
='\x00'  }
")).
Eval vm_compute in ("<<<M1925>>>" ++ check (runes_of_ascii "
MetaData
    float { // c
      float64
	charz`
`
,

}root
packet	chars
{ @rightPad(

'0')
	Foo	, 
} ")).
Eval vm_compute in ("<<<M1675>>>" ++ check (runes_of_ascii "MetaData float {
    float64 charz `
        `,
}

root packet chars {
    @rightPad('0')
    Foo,
}")).
Eval vm_compute in ("<<<M900>>>" ++ check (runes_of_ascii "packet A {
  match k as n {
    [1, 22, 007, 4, 5, 66, 7, 8, 9, 10, 11, 12] : B
    2 : C
  },
}")).
Eval vm_compute in ("<<<M836>>>" ++ check (runes_of_ascii "packet A {
  match k as n {
    [""a"", ""bb"", ""c c"", ""d"", ""e"", ""f"", ""g""] : B,
    2 : C
  },
}")).
Eval vm_compute in ("<<<M1181>>>" ++ check (runes_of_ascii "MetaData
// c
float { float64 charz `
` , } root packet chars { @rightPad ( '0' ) Foo , }")).
Eval vm_compute in ("<<<M1213>>>" ++ check (runes_of_ascii "MetaData float { float64 charz `
` , } root packet chars { @rightPad ( '0' ) Foo
// c
, }")).
Eval vm_compute in ("<<<M1424>>>" ++ check (runes_of_ascii "packet chars { } packet MetaDataX { @tag( 42 ) i16 string_ , repeat x // c
`say ""hi""` , }")).
Eval vm_compute in ("<<<M841>>>" ++ check (runes_of_ascii "packet A {
  match k as n {
    [""a"", 22, ""c c"", 4, ""e"", 66, ""g""] : B
    2 : C
  },
}")).
Eval vm_compute in ("<<<M1154>>>" ++ check (runes_of_ascii "packet metadata { Logon { A `" ++ [28040; 24687; 31867; 22411]%N ++ runes_of_ascii "` , tag o , } , zchar len `// not a comment` // c
, }")).
Eval vm_compute in ("<<<M1359>>>" ++ check (runes_of_ascii "packet o { repeat Logon uint8x , } options {
// c
asx = zchar[ 3 ] stringy = '\x00' }")).
Eval vm_compute in ("<<<M2007>>>" ++ check (runes_of_ascii "packet A {
    B b `
        x`,
    B `
        x`,
    repeat B bs `
        x`,
}")).
Eval vm_compute in ("<<<M1320>>>" ++ check (runes_of_ascii "MetaData body { i64 pack `it's` , }
// c
packet stringy { int16 calculatedFrom , }")).
Eval vm_compute in ("<<<M1089>>>" ++ check (runes_of_ascii "packet A { u16 // a
 len // b
 @lengthOf( // c
 body // d
 ) // e
 `d` // f
 , }")).
Eval vm_compute in ("<<<M83>>>" ++ check (runes_of_ascii "MetaData
Packet
{
    }options { Z9_ =
char[] ; _x=
'0';
body
=
false }
")).
Eval vm_compute in ("<<<M788>>>" ++ check (runes_of_ascii "packet A {
  match k as n {
    [""a"", 22, ""c c""] : B,
    2 : C
  },
}")).
Eval vm_compute in ("<<<M937>>>" ++ check (runes_of_ascii "packet A {
    B b `a

b`,
    B `a

b`,
    repeat B bs `a

b`,
}")).
Eval vm_compute in ("<<<M820>>>" ++ check (runes_of_ascii "packet A { Inner { match k as n { [1,22,007,4,5] : B, }, }, }")).
Eval vm_compute in ("<<<M1280>>>" ++ check (runes_of_ascii "packet x { // c
@rightPad ( ) repeat roots Logon `doc` , }")).
Eval vm_compute in ("<<<M1065>>>" ++ check (runes_of_ascii "packet A { match k as n { 1 : B // a // b 2 : C }, }")).
Eval vm_compute in ("<<<M1437>>>" ++ check (runes_of_ascii "

  root
packet P 
{
char
	c  ,
	u8

x
, 
}
")).
Eval vm_compute in ("<<<M763>>>" ++ check (runes_of_ascii "char[ string string string : uint8 `a\` i64")).
Eval vm_compute in ("<<<M1108>>>" ++ check (runes_of_ascii "root packet u128 { chars // c
`it's` , }")).
Eval vm_compute in ("<<<M959>>>" ++ check (runes_of_ascii "root packet A {
    u8 x `tab
	x`,
}")).
Eval vm_compute in ("<<<M1708>>>" ++ check (runes_of_ascii "packet A {
    repeat B b `d`,
}")).
Eval vm_compute in ("<<<M80>>>" ++ check (runes_of_ascii "packet u8x {
    //	t
    }

")).
Eval vm_compute in ("<<<M753>>>" ++ check (runes_of_ascii "c%Wbj/?4;1uTXgLctYOdA$q,@")).
Eval vm_compute in ("<<<M1389>>>" ++ check (runes_of_ascii "MetaData o { } // c
")).
Eval vm_compute in ("<<<M996>>>" ++ check (runes_of_ascii "packet A {
}
// c" ++ [8192]%N)).
Eval vm_compute in ("<<<M979>>>" ++ check (runes_of_ascii "packet A {
}// c" ++ [160]%N)).
Eval vm_compute in ("<<<M248>>>" ++ check (runes_of_ascii "
options
{}")).
Eval vm_compute in ("<<<M985>>>" ++ check (runes_of_ascii "// c" ++ [133]%N)).
Eval vm_compute in ("<<<M730>>>" ++ check ([0]%N)).
