From FP Require Import Lexer Parser ShowPT Digest Formatter.
From Coq Require Import String List NArith.
Import ListNotations.
Open Scope string_scope.
Set Printing Width 100000000.
Set Printing Depth 100000000.
Definition show_fres (r : fres) : string :=
  match r with
  | FOk s => "OK:" ++ sh_escaped s ""
  | FErr s => "ERR:" ++ sh_escaped s ""
  | FPanic p => "PANIC:" ++ p
  end.
Definition check (rs : list rune) : string := digest (show_fres (format_res rs)).
Definition full (rs : list rune) : string := show_fres (format_res rs).
Eval vm_compute in ("<<<M1066>>>" ++ check (runes_of_ascii "MetaData	pack
{  } MetaData	trueish
{
    string o,
u // @lengthOf(
roots , Header calculatedFrom
`doc` , zchar[42] metadata `u8 x,`
    , Packet lengthOf , u128 lengthOf ,} root packet Logon{ repeat/// triple
zchar[ 7 ]
// packet A { u8 x, }
// `tick` ""quote"" 'q'
roots ,  match u as x  {  [""" ++ [28040; 24687]%N ++ runes_of_ascii """
    , 0,""a	b""
    // @lengthOf(
    , 3/// triple
,
    ""a\""b"", ""// no comment""	,""packet"" , ""`tick`"" ]	: o ,[0  ,	""x y""] : u ""a\""b"" : pack [ 65535 , 007
    , """ ++ [233]%N ++ runes_of_ascii "t" ++ [233]%N ++ runes_of_ascii """
// " ++ [27880; 37322]%N ++ runes_of_ascii "
// @lengthOf(
,42] // trailing space 
: f32a 255
    : i8i8//	t
, 0123456789 :
Pad
,
} , Foo , @calculatedFrom( ""x y"" )
body{
    repeat string metadata`it's` , repeat zchar
    x_y_z , lengthOf {Logon
    pack
, match options1
as leftPad// c
{ //x
10:a1
, """ ++ [28040; 24687]%N ++ runes_of_ascii """
    :	A , [
// trailing space 
// " ++ [128512]%N ++ runes_of_ascii " emoji
""" ++ [28040; 24687]%N ++ runes_of_ascii """ ,65535 , 0123456789 , 0
] : i64_ , 1 // " ++ [27880; 37322]%N ++ runes_of_ascii "
: string_ ,
65535	:calculatedFrom ,
}
    , crc { u128, u128
@lengthOf( x) , u16 falsey @lengthOf( u )	, } , char[ 42] options1
@calculatedFrom( ""packet"")
`u8 x,`,} , float/// triple
float  `u8 x,` , }
,match  packetx
    as T { ""packet""
// @lengthOf(
// @lengthOf(
: As,
007 : BodyLength , 00:
trueish
, [
    ""abc""  ,
10
    , 3 , 10,
007
    ,
// " ++ [128512]%N ++ runes_of_ascii " emoji
// c
""\n""
, 1
//	t
// a // b
] : _x ,}	, o
    `say ""hi""` ,
@leftPad
( '0' )
@tag( 10 ) @calculatedFrom( ""\" ++ [233]%N ++ runes_of_ascii """ )
u32 //	t
i64_
    // `tick` ""quote"" 'q'
    `{ , }`
,x
body `line1
line2`//	t
,
}
packet
    repeatCount {i64 rootA @calculatedFrom( """ ++ [128512]%N ++ runes_of_ascii """ )	`" ++ [28040; 24687; 31867; 22411]%N ++ runes_of_ascii "` , @rightPad( ' ' ) @rightPad
(	)  int32 rootA	@calculatedFrom( ""{,}"" ) , i16
    BodyLength // " ++ [27880; 37322]%N ++ runes_of_ascii "
, @calculatedFrom( ""`tick`"" )
Logon
    lengthOf `two words`
, zchar[ 4294967296]
x_y_z
    `" ++ [28040; 24687; 31867; 22411]%N ++ runes_of_ascii "` , string zchar
    `say ""hi""`
// `tick` ""quote"" 'q'
// c
, @tag( 1 ) f32 x_y_z `it's`
, } root packet string_ {// @lengthOf(
@leftPad
( '0'
) // a // b
@calculatedFrom( ""// no comment"" ) @leftPad
( ) // " ++ [27880; 37322]%N ++ runes_of_ascii "
char[
1]
tag
    `say ""hi""` , @calculatedFrom( // " ++ [27880; 37322]%N ++ runes_of_ascii "
""it's""
)
    match BodyLength  as A {
    255 :Foo,}, u16 x_y_z
@calculatedFrom( ""CRC32""
    ) , o  MetaDataX `// not a comment`, options1  @lengthOf(
x ) , match  float as
A{ [65535 ] :
    leftPad
, [ 007
,
7 , ""a\\"",1
] : msg_type,  10 :u128 """ ++ [28040; 24687]%N ++ runes_of_ascii """ : As , }  ,}
")).
Eval vm_compute in ("<<<M3995>>>" ++ check (runes_of_ascii "packet body {
    chars `two words`,
    match crc as metadata {
        65535 : trueish,
        ""\" ++ [233]%N ++ runes_of_ascii """ : charz,
        ""abc"" : MetaDataX,
        [
            ""packet"", ""// no comment"", 0, 00, ""// no comment"",
            ""{,}"", 00
        ] : i64_,
        """ ++ [233]%N ++ runes_of_ascii "t" ++ [233]%N ++ runes_of_ascii """ : f32a,
        [""" ++ [128512]%N ++ runes_of_ascii """, ""it's""] : Foo,
    },
    @rightPad(' ')
    repeat char[1] body `it's`,
    @tag(007)
    @calculatedFrom(""" ++ [233]%N ++ runes_of_ascii "t" ++ [233]%N ++ runes_of_ascii """)
    // @lengthOf(
    //
    @calculatedFrom(""a\""b"")
    repeat i64_ {
        roots {
            i16 Header `two words`,
            repeatCount `{ , }`,
            f64 x @calculatedFrom(""a	b""),
            repeatCount @calculatedFrom(""""),
        },
        repeat u8 BodyLength `crlf
        line`,
        // `tick` ""quote"" 'q'
        char As @lengthOf(Foo),
    },
    char[] roots `line1
    line2`,//
    int a1,
    string_ {
        char[] Logon `line1
        line2`,
        repeat float32 trueish,
    },
    @leftPad('0')
    repeat metadata {
        rootA @lengthOf(falsey) ``,
        // " ++ [128512]%N ++ runes_of_ascii " emoji
        // packet A { u8 x, }
    },
}

packet float {
    u16 Logon `tab	here`,
    // @lengthOf(
    // c
    u128 {
        zchar[255] charz `doc`,
    },
    @tag(0)
    repeat Foo {
        i32 body @calculatedFrom(""`tick`"") `" ++ [233]%N ++ runes_of_ascii "`,
    },
    char[] o @calculatedFrom(""1"") `line1
    line2`,
    @lengthOf(zchar)
    i16 BodyLength @lengthOf(BodyLength),
    @lengthOf(T)
    @rightPad(' ')
    @lengthOf(T)
    repeat u64 _x,
    match MetaDataX as options1 {
        //x
        0123456789 : options1,
    },
    repeat u8 charz,
    repeat i8i8 {
        // c
        a1,
        len {
            repeat string o,
            // a // b
        },
        match zchar as Logon {
            """" : matchKey,
            """ ++ [128512]%N ++ runes_of_ascii """ : u,
            007 : repeatCount,
        },// c
    },
}")).
Eval vm_compute in ("<<<M897>>>" ++ check (runes_of_ascii "packet zchar
    /// triple
    {
match calculatedFrom as
repeatCount {	[ ""{,}""]
    : zchar , 00 :
Pad
    , 0 : pack	, }, // @lengthOf(
f64 o`" ++ [28040; 24687; 31867; 22411]%N ++ runes_of_ascii "`,int32 f32a
    @lengthOf( body ) //
`
`
    ,  char[ 3 ] chars //	t
`crlf
line`
    , }
// @lengthOf(
// packet A { u8 x, }
MetaData metadata {
string int
    ,
    len lengthOf , } root
packet	A {
@tag(0123456789 ) zchar[
    0123456789
    ] BodyLength // " ++ [27880; 37322]%N ++ runes_of_ascii "
, @leftPad( '0' ) @rightPad ( ' '//
) zchar[0123456789
]tag `it's` , @tag(
    007
)// trailing space 
@tag(
    7
) falsey	@calculatedFrom(
    ""\" ++ [233]%N ++ runes_of_ascii """//
), @calculatedFrom(""{,}"" )
repeat Packet , @lengthOf(u
    )@calculatedFrom(
""a\""b""
// a // b
// `tick` ""quote"" 'q'
) @lengthOf(lengthOf )char[]
uint8x,@leftPad ( '\x00' )// trailing space 
repeat T { i8i8 a1 ,
    char[	65535] chars
    `u8 x,`,
    Pad , }
,
    @lengthOf( o ) u8 x , @calculatedFrom( // @lengthOf(
""a	b"" )
lengthOf//
`// not a comment`
, A  {  repeat calculatedFrom
matchKey
,
options1 @calculatedFrom( ""a	b""	), // trailing space 
repeat	u	`line1
line2` , } ,} packet i8i8
{} packet pack { zchar[ 0123456789] leftPad`
`	,@rightPad (
    '\x00'
    )
repeat int
`" ++ [28040; 24687; 31867; 22411]%N ++ runes_of_ascii "`  ,match Packet as
BodyLength// @lengthOf(
{[
00 // a // b
, 7 ] //x
: falsey }	,	@tag(00)
repeat zchar[1 ] len // a // b
`u8 x,` , @leftPad(  ) rootA
//	t
//	t
@lengthOf(  len
    ) ,
    @tag(
    42 ) // `tick` ""quote"" 'q'
@lengthOf( i64_ ) repeat	len
{ x { Logon{
options1 Logon,
    }
, stringy  { string body @lengthOf(tag ) , }
, falsey falsey
, } //x
, MetaDataX
roots
`// not a comment` ,} ,}")).
Eval vm_compute in ("<<<M3700>>>" ++ check (runes_of_ascii "
options	{
tag =

0 ;
	}packet 
u8x { 	 // trailing space 

u  Z9_
,
    @tag(00 ) @rightPad	(
    '\x00'
    ) 
@calculatedFrom( ""CRC32"" )	//	t
crc

,	metadata @calculatedFrom(""a	b""

) // c
	, @tag(4294967296  ) u64  rootA `tab	here`	,// @lengthOf(
  	@calculatedFrom(
""\n""
	)

char[]
    pack
@lengthOf(chars  ) 
`" ++ [28040; 24687; 31867; 22411]%N ++ runes_of_ascii "` ,
    zchar[255  ]
    Foo	@lengthOf(

f32a

)  ,  @leftPad
( )
@lengthOf(  string_
) @rightPad (
' '
)  match 
msg_type as// " ++ [128512]%N ++ runes_of_ascii " emoji

falsey {
    // a // b

  ""a	b""

:

x	,	}  ,@calculatedFrom(
	""{,}""
	) 
match body	as
MetaDataX
    {
42 // " ++ [27880; 37322]%N ++ runes_of_ascii "
    : u8x	0123456789  :
options1

, 	 // c
  [  3
	] :

    As , [ 00 
]
    : // c
      A,
""CRC32"":
zchar , [  ""it's"" , """ ++ [233]%N ++ runes_of_ascii "t" ++ [233]%N ++ runes_of_ascii """  ,""1""	, 3

    ,
	""a	b"" ,
1
	    //x
	, 0123456789 , //	t
    4294967296  ]: packetx
	, // " ++ [27880; 37322]%N ++ runes_of_ascii "

	},repeat uint8 o
`{ , }`, 
	    //	t
    //
	} packet

    leftPad  { u32  
      // packet A { u8 x, }
	  //x
  packetx `a\` 
,@calculatedFrom(
""// no comment""	) 
@rightPad
	( 
)
    @lengthOf( 
asx

) 
        // c
  // trailing space 
	char[ 42
] calculatedFrom
    @lengthOf(packetx  ) , @tag(00

    )stringy
	msg_type,u128
i64_

    `it's`
,

@rightPad('\x00') 
u8x

    ,  @calculatedFrom( """ ++ [28040; 24687]%N ++ runes_of_ascii """ 
) len msg_type ,	// packet A { u8 x, }
	MetaDataX
pack 

    // c
,  @calculatedFrom(
""" ++ [28040; 24687]%N ++ runes_of_ascii """
) string

    MetaDataX	//	t
      `
`
,

    }")).
Eval vm_compute in ("<<<M1392>>>" ++ check (runes_of_ascii "options {
    StringPrefixLenType = u16;
    ArrayPrefixLenType = u16;
}

packet SampleBinary {
    uint16 MsgType `" ++ [28040; 24687; 31867; 22411]%N ++ runes_of_ascii "`,
    u16 BodyLenght @lengthOf(Body) `" ++ [28040; 24687; 20307; 38271; 24230]%N ++ runes_of_ascii "`,
    match MsgType as Body {
        1 : Logon,
        2 : Logout,
        3 : Heartbeat,
        4 : RiskControlRequest,
        5 : RiskControlResponse,
    },
    @calculatedFrom(""CRC32"")
    u32 Ckecksum `" ++ [26657; 39564; 21644]%N ++ runes_of_ascii "`,
}

packet Logon {
    @leftPad('0')
    char[10] UserName `" ++ [29992; 25143; 21517]%N ++ runes_of_ascii "`,
    string Password `" ++ [23494; 30721]%N ++ runes_of_ascii "`,
    uint64 ClientId `" ++ [23458; 25143; 31471]%N ++ runes_of_ascii "ID`,
    u16 HeartbeatInterval `" ++ [24515; 36339; 38388; 38548]%N ++ runes_of_ascii "`,
}

packet Logout {
    @rightPad('0')
    char[10] UserName `" ++ [29992; 25143; 21517]%N ++ runes_of_ascii "`,
    uint64 ClientId `" ++ [23458; 25143; 31471]%N ++ runes_of_ascii "ID`,
}

packet Heartbeat {
}

packet RiskControlRequest {
    string UniqueOrderId `" ++ [21807; 19968; 35746; 21333; 21495]%N ++ runes_of_ascii "`,
    char[16] ClOrdID `" ++ [23458; 25143; 35746; 21333; 21495]%N ++ runes_of_ascii "`,
    char[3] MarketID `" ++ [24066; 22330]%N ++ runes_of_ascii "id`,
    char[12] SecurityID `" ++ [35777; 21048; 20195; 30721]%N ++ runes_of_ascii "`,
    char Side `" ++ [20080; 21334; 26041; 21521]%N ++ runes_of_ascii "`,
    char OrderType `" ++ [35746; 21333; 31867; 22411]%N ++ runes_of_ascii "`,
    u64 Price `" ++ [20215; 26684]%N ++ runes_of_ascii "`,
    u32 Qty `" ++ [25968; 37327]%N ++ runes_of_ascii "`,
    repeat string ExtraInfo `" ++ [38468; 21152; 20449; 24687]%N ++ runes_of_ascii "`,
    repeat SubOrder {
        char[16] ClOrdID `" ++ [23376; 35746; 21333; 21495]%N ++ runes_of_ascii "`,
        u64 Price `" ++ [23376; 35746; 21333; 20215; 26684]%N ++ runes_of_ascii "`,
        u32 Qty `" ++ [23376; 35746; 21333; 25968; 37327]%N ++ runes_of_ascii "`,
    },
}

packet RiskControlResponse {
    string UniqueOrderId `" ++ [21807; 19968; 35746; 21333; 21495]%N ++ runes_of_ascii "`,
    i32 Status `" ++ [29366; 24577]%N ++ runes_of_ascii "`,
    string Msg `" ++ [32467; 26524; 20449; 24687]%N ++ runes_of_ascii "`,
    repeat Detail,
}

packet Detail {
    string RuleName `" ++ [35268; 21017; 21517; 31216]%N ++ runes_of_ascii "`,
    u16 Code `" ++ [21407; 22240; 20195; 30721]%N ++ runes_of_ascii "`,
}")).
Eval vm_compute in ("<<<M534>>>" ++ check (runes_of_ascii "
packet
float
{ @leftPad ( // packet A { u8 x, }
'\x00' )
    i64_ {string Z9_
,} ,
    @tag( //x
0 )char[] u8x @calculatedFrom( ""a	b"" ) ,@lengthOf(	u128)int8
    u	`two words` ,
u64 Foo `a\` //x
, @leftPad// packet A { u8 x, }
(
    '0'
    )
repeat
//x
// " ++ [128512]%N ++ runes_of_ascii " emoji
repeatCount //x
{ repeat Pad {repeat  tag {
    char[
00 ] //	t
Logon `it's` , string_, }
    ,  match // " ++ [128512]%N ++ runes_of_ascii " emoji
As // c
as
    matchKey
    {
    7:lengthOf } ,
    match u128  as tag {
    [ 7 ]
    :// " ++ [128512]%N ++ runes_of_ascii " emoji
Packet
    //	t
    , """ ++ [28040; 24687]%N ++ runes_of_ascii """: Foo ,65535 // " ++ [128512]%N ++ runes_of_ascii " emoji
: calculatedFrom
//x
//x
}/// triple
, // a // b
} , // " ++ [128512]%N ++ runes_of_ascii " emoji
f32
options1 `doc`// c
, // trailing space 
} ,@leftPad ( '0'	) match  rootA // packet A { u8 x, }
as
i64_ {3
// " ++ [128512]%N ++ runes_of_ascii " emoji
//
: msg_type , ""abc"": rootA ,
    //	t
    [ ""CRC32"" ]
: float ,10 : pack ,""" ++ [128512]%N ++ runes_of_ascii """
:	tag } ,
@rightPad (
    // trailing space 
    '\x00')	char[ 65535] _x @calculatedFrom( """ ++ [128512]%N ++ runes_of_ascii """	), char[ 4294967296 ] lengthOf @calculatedFrom(""// no comment"" ) ,@leftPad (  ' ' )zchar[007 ] options1 ,/// triple
}	packet
    // " ++ [27880; 37322]%N ++ runes_of_ascii "
    rootA {
} packet charz
    { repeat
As`` ,} packet f32a {	}
    MetaData	roots { body matchKey `// not a comment`,
}
")).
Eval vm_compute in ("<<<M278>>>" ++ check (runes_of_ascii "MetaData f32a { uint8
/// triple
//x
x ,
f64 As
`" ++ [233]%N ++ runes_of_ascii "`
    // packet A { u8 x, }
    , i64 f32a `u8 x,`  , uint32 // " ++ [128512]%N ++ runes_of_ascii " emoji
string_ `crlf
line` , char[ 10] pack
    `a\` /// triple
,Packet lengthOf	,}
    root
packet
    MetaDataX { i32	u8x`tab	here` ,
char[] stringy @lengthOf( repeatCount
    ) `crlf
line` , @rightPad ( )@lengthOf( Foo  ) char[
65535	] body  , repeat pack{
rootA `it's`
    , match msg_type as  x_y_z {
1:
i64_ , 0123456789
:Logon
    , [ ""CRC32""]
:
A 1
: _x , // a // b
[ 42
    // a // b
    ] //
:// @lengthOf(
repeatCount , ""a	b""
: pack
    ,
},
char[
    4294967296]lengthOf @lengthOf( options1//x
), } , @tag( 4294967296 ) // " ++ [128512]%N ++ runes_of_ascii " emoji
@calculatedFrom( //x
""" ++ [128512]%N ++ runes_of_ascii """ )
// " ++ [128512]%N ++ runes_of_ascii " emoji
// " ++ [27880; 37322]%N ++ runes_of_ascii "
repeat string	u, @lengthOf( // @lengthOf(
f32a	) @tag(
    007 ) @tag(
7  ) msg_type Pad  , }
    MetaData roots
    { u64 MetaDataX
,}
packet // " ++ [27880; 37322]%N ++ runes_of_ascii "
roots
{
@tag(
    255 )
    char[
0123456789
]  Logon`" ++ [28040; 24687; 31867; 22411]%N ++ runes_of_ascii "`
    ,
    body // packet A { u8 x, }
@lengthOf( // a // b
u8x) `two words`
// " ++ [27880; 37322]%N ++ runes_of_ascii "
/// triple
, @lengthOf( Z9_
)
    packetx @calculatedFrom( """ ++ [28040; 24687]%N ++ runes_of_ascii """ )// " ++ [27880; 37322]%N ++ runes_of_ascii "
,
    }
")).
Eval vm_compute in ("<<<M3925>>>" ++ check (runes_of_ascii "

  // a // b
packet  body{
	@lengthOf(
	tag 

    // trailing space 
	)
char[ 255 ]

Packet ,
@leftPad 
( )@rightPad	(
'0' )
	repeat  Pad{ repeat	char[007

]

    As ,
    }
	,match
Header
	as crc
    {007

:
	Logon[ ""a\""b"", 0]

:
_x
    ,

255

    :
	_x 	 // trailing space 
	,

3 : 
pack

    ,

""a\\""
: _x ,
""CRC32"":  repeatCount  // trailing space 
	,
    } 
    // `tick` ""quote"" 'q'
// " ++ [128512]%N ++ runes_of_ascii " emoji
  , @lengthOf(	MetaDataX )  charz chars 	 // @lengthOf(

	`it's`	,  @tag(
    10	//
	)  match
    a1

    as 
x_y_z	{""// no comment""  : Foo ,

[""// no comment"" ,10

]: roots ,

}

,
} packet options1  {}

    packet

    asx {
	@rightPad

(  ' '
) 
match

    string_
as MetaDataX  //x
{
	[ 
42 
,	// trailing space 

	3
,
""abc""  ,
	7 ]:  rootA ,
    0123456789
:
	BodyLength 
""abc""

:
BodyLength	,""x y""
    :metadata
,
    }
,	}	MetaData
    u128  {string 
rootA
	, 
}	MetaData
	_x {  i8i8
    matchKey	`it's` 

    //	t
		// a // b
		, uint32
len,
tag

options1 ,  char[
1	]
x ,
	}
")).
Eval vm_compute in ("<<<M3641>>>" ++ check (runes_of_ascii "options
    {  StringPrefixLenType=	u64; ArrayPrefixLenType

= 
u16;

FixedStringPadChar=' '
	;

} packet

Logon
{i32
msgKind

    ,	repeat

    InOrderid65{u8

pad0
,
}
	,
	i8 
tag7,
    @leftPad  (

    ' ' )

    char[
12  ]
x

,
}	packet
	Leg{char[] 
f1

,
	repeat

char[
	5
] 
Px  ,InQty34 {
repeat
    char[ 6 
] 
Qty
    , char[

7]
    seqNo

    , string count,
    }

,Logon  ,
	}

packet
    Party {  @leftPad  (

    '0'

)  char[
    10	]
    OrderId	,
    string Tail , }
	packet	Fill 
{

zchar[  5

    ] 
venue

,
zchar[3
	]  clOrdID, 
InRef95
    {InLastpx25

{u8 pad0

,} ,
	float64 OrderId 
, 
i32 
f1 , float32 
x
,char[]seqNo,} ,

    repeat string seqNo
	,}
root	packet Heartbeat{ repeat
Leg
    ,
	u32
    seqNo  , u16 tag7,
u32  Flags@lengthOf(	Body

    )
	,
match
tag7
    as
Body
	{
[ 
195  ,
75

]:

Party
    , 171 : Fill
	,
78 :Logon  ,142
	:
    Leg
	,}
,

u32 Note @calculatedFrom(	""CRC32""  ), }
")).
Eval vm_compute in ("<<<M4447>>>" ++ check (runes_of_ascii "  root 	 // c
      packet msg_type  {

repeat 	 // packet A { u8 x, }
    A	{
	repeat 
a1{

repeat	len	// trailing space 
  ,  },
pack string_
,

zchar[7
] msg_type
	@lengthOf( 
u
) ,	}	,  repeat
zchar[ // `tick` ""quote"" 'q'
	00
    ]tag,
u64 o@calculatedFrom( 
""a\\"" 
	    // trailing space 
	)
	,

}
	packet
    charz	{@tag(
0) // c
    	repeat
// a // b

	u

{
char[007 ] 
T

    , }  ,repeatCount @calculatedFrom( ""\n"" )
, }
packet
trueish
	{ 
@calculatedFrom( 
""a\\""	)  @rightPad
	('0' )	// `tick` ""quote"" 'q'

@lengthOf( BodyLength	) string
    asx @lengthOf( A ), 
    //x
  /// triple
@rightPad
    ( ' ')  match
pack 
        // @lengthOf(

	as

leftPad
	{
[ 1

    ]	// a // b
  :body
    ,	[

    ""a	b""
	]
	:msg_type

, // `tick` ""quote"" 'q'
    10 : calculatedFrom
    ,
7 : packetx

,

    """ ++ [233]%N ++ runes_of_ascii "t" ++ [233]%N ++ runes_of_ascii """ : roots
,	}

,

    @calculatedFrom(""1"")repeat	roots  
      // c
  	u8x	,
}
")).
Eval vm_compute in ("<<<M4614>>>" ++ check (runes_of_ascii "packet	As
{// " ++ [27880; 37322]%N ++ runes_of_ascii "
	@leftPad
	(  '0' 
        /// triple

)	@lengthOf(
i64_)
	// @lengthOf(
	  /// triple
@leftPad
    (  '\x00'  )

    calculatedFrom
    f32a	,match

x
    as
    x_y_z{ """"
    // c
  	:
	body,

    007 :
o 
,  [	""{,}""  ]
: 
As  ,
""\n""
    :

    stringy
,
	4294967296 :roots
    ,

}

    ,calculatedFrom , match Pad

    as
asx
    {
	[  """ ++ [28040; 24687]%N ++ runes_of_ascii """,""1""
    ,	""a	b""

,3

,	""x y""

    ,
	00  , 10	, ""\" ++ [233]%N ++ runes_of_ascii """
	] :  Pad  65535: x
7
: x_y_z 
3  :
charz ,
""" ++ [233]%N ++ runes_of_ascii "t" ++ [233]%N ++ runes_of_ascii """ :
lengthOf }, @calculatedFrom(	""{,}""
)

    @calculatedFrom( ""CRC32""

)  @calculatedFrom(

    ""a	b"" )  
  /// triple
	  // trailing space 
	crc

    As  /// triple
	, 
calculatedFrom{ char[] x ``, } 
,

@rightPad 	 // `tick` ""quote"" 'q'
    	( '\x00'

)
repeat
char[] asx  /// triple

	`tab	here` ,
    f32a {repeat char
	u  , }  // `tick` ""quote"" 'q'
, 
} ")).
Eval vm_compute in ("<<<M3690>>>" ++ check (runes_of_ascii "

  //x
	packet
zchar
{ match

a1
	as

    BodyLength {
    [// " ++ [128512]%N ++ runes_of_ascii " emoji
      ""a\\""
]: trueish ,} 
,@leftPad  ( 
      //	t
    '0'
)repeatCount	@calculatedFrom(""a	b""	)`tab	here`, int8

    o
	@lengthOf( i64_)
	`u8 x,`
    ,
u8 chars ,
}
	packet

    trueish {  @lengthOf(
	crc

)
@calculatedFrom(
""" ++ [128512]%N ++ runes_of_ascii """
    )
@calculatedFrom(
	""`tick`""
)  //x

match
BodyLength  as	Z9_{ 
3 
:
falsey

[ 42  ,
    00
, 3  ,  10]

:packetx,
	255 :
    metadata , } // trailing space 
  ,repeat x_y_z Header 
,
    @calculatedFrom(
	""CRC32""
)  Z9_// trailing space 
  	{	x 

    // @lengthOf(
    @calculatedFrom( 
""1"" 
	    // packet A { u8 x, }
//x
    )

    `it's`, 
    // packet A { u8 x, }
  // trailing space 
	string
    Header,
	},

    @lengthOf( roots )  i64_,	} 
        // @lengthOf(
 
")).
Eval vm_compute in ("<<<M4352>>>" ++ check (runes_of_ascii "root packet leftPad {
    match As as A {
        00 : i8i8,
        ""x y"" : Packet,
        ""abc"" : falsey,
    },
    float32 trueish,
    @calculatedFrom(""1"")
    u64 roots `line1
        line2`,
    @tag(42)
    string int @lengthOf(Header),
    @tag(1)
    @lengthOf(float)
    rootA Z9_,
    match msg_type as metadata {
        [7, 0123456789] : uint8x,
        [255] : int,
        // @lengthOf(
        255 : lengthOf,
        ""a\\"" : u128,
        ""1"" : u128,
    },
    roots int `two words`,
    repeat BodyLength asx,
    lengthOf @lengthOf(packetx),
    @lengthOf(a1)
    char[10] x,
}

options {
    f32a = '0';
    chars = ' ';
    Header = ' ';
    i8i8 = zchar[007];
    leftPad = ' ';
}

packet falsey {
    @lengthOf(u8x)
    x @lengthOf(tag),
}")).
Eval vm_compute in ("<<<M3862>>>" ++ check (runes_of_ascii "packet Foo {
    @leftPad('\x00')
    chars {
        repeat char[] tag `// not a comment`,
        repeat u8 T,
        repeat Foo BodyLength `it's`,
        zchar {
            u repeatCount `" ++ [233]%N ++ runes_of_ascii "`,
            Header,
            repeat i64 u128,
            repeat charz {
                char[] leftPad,
                zchar[42] lengthOf `{ , }`,
            },
        },
    },
    @calculatedFrom(""it's"")
    Pad {
        i16 f32a,
        repeat char[10] x `{ , }`,
        match metadata as o {
            """ ++ [128512]%N ++ runes_of_ascii """ : metadata,
            1 : rootA,
        },
    },
    packetx `{ , }`,
}

packet falsey {
}

options {
    MetaDataX = zchar[10];
    string_ = '0';
    i8i8 = true
    _x = char[0123456789]
}
// a // b")).
Eval vm_compute in ("<<<M560>>>" ++ check (runes_of_ascii "
packet
    a1 /// triple
{ @lengthOf(
    As
)uint16 // " ++ [128512]%N ++ runes_of_ascii " emoji
matchKey
`line1
line2` , }
options { pack = 7 } packet
    // " ++ [128512]%N ++ runes_of_ascii " emoji
    packetx {@calculatedFrom(  ""packet"" ) int8 metadata
@lengthOf(
metadata
    ) , @tag(	7 )
    lengthOf @lengthOf( u128) // " ++ [128512]%N ++ runes_of_ascii " emoji
, @rightPad (
    )Header
@lengthOf( msg_type
)  ``,
leftPad ,
}
packet
    // packet A { u8 x, }
    string_{ }  packet f32a { @leftPad ( '0'
) @leftPad ( ' '
    /// triple
    )
@leftPad (' '
) x_y_z { char charz @calculatedFrom(
""""  )
//	t
// trailing space 
,
repeat rootA
repeatCount ,
    // packet A { u8 x, }
    repeat u128 f32a `// not a comment` ,},
// " ++ [27880; 37322]%N ++ runes_of_ascii "
// trailing space 
} // packet A { u8 x, }")).
Eval vm_compute in ("<<<M1160>>>" ++ check (runes_of_ascii "
root
    packet
i8i8  {
@tag( 3)  @tag( 3
) match u128 as
f32a
    // packet A { u8 x, }
    {//	t
[
0123456789
    , ""a\""b"" ,
0123456789 ,
42 , ""// no comment"" ]
    :
    Foo }	, } packet Z9_ {@leftPad
(
'0' // packet A { u8 x, }
)	char[] Pad @lengthOf(Z9_ ) `` , u8x u	`doc`
,  @calculatedFrom(
/// triple
// @lengthOf(
""{,}""
    )falsey { u8x f32a , }
,repeat	i8 metadata ,
repeat i64
i8i8, zchar[ 1]u
,  string	crc `crlf
line` ,// " ++ [128512]%N ++ runes_of_ascii " emoji
match i8i8 as
    matchKey { [ 0
,	0123456789  ] : uint8x
    ,
},
    metadata @calculatedFrom( ""CRC32"") `
` ,	@lengthOf(_x ) @tag(	7 )
    @tag( 00) repeat Packet matchKey`it's` , // " ++ [128512]%N ++ runes_of_ascii " emoji
}
")).
Eval vm_compute in ("<<<M4305>>>" ++ check (runes_of_ascii "packet falsey {
    float64 calculatedFrom `
    `,/// triple
    @tag(42)
    repeatCount {
        match repeatCount as A {
            0 : f32a,
        },
        uint16 f32a @calculatedFrom(""a\\"") `// not a comment`,
        crc {
            char[3] Logon @calculatedFrom(""packet""),
            repeat u128 {
                zchar[42] lengthOf `crlf
                line`,
                Pad roots `line1
                line2`,
            },
            // packet A { u8 x, }
            // `tick` ""quote"" 'q'
        },
    },
}

packet uint8x {
    repeat u8 body,
}

packet asx {
    zchar[255] asx,
}")).
Eval vm_compute in ("<<<M255>>>" ++ check (runes_of_ascii "MetaData metadata { // `tick` ""quote"" 'q'
msg_type
Pad
    , int8
calculatedFrom, } MetaData msg_type{// packet A { u8 x, }
}
packet // a // b
len {_x , }
options { As =
// a // b
// c
true
; // " ++ [27880; 37322]%N ++ runes_of_ascii "
repeatCount
    ='\x00' ; uint8x // packet A { u8 x, }
= ""\" ++ [233]%N ++ runes_of_ascii """;
    chars= true
; }
// " ++ [27880; 37322]%N ++ runes_of_ascii "
// `tick` ""quote"" 'q'
packet crc {matchKey @lengthOf( float	) ,
@leftPad ( '0'
    ) match	i8i8 as x
{[ // " ++ [128512]%N ++ runes_of_ascii " emoji
65535 ,
    // trailing space 
    10 , 4294967296
] :repeatCount ,  ""// no comment"": stringy
    ,} ,
    @calculatedFrom(	""a	b""
)crc
// " ++ [27880; 37322]%N ++ runes_of_ascii "
// trailing space 
,
    /// triple
    }

")).
Eval vm_compute in ("<<<M3843>>>" ++ check (runes_of_ascii "
options	{	roots
= '\x00' lengthOf 
=
    true 
;
Packet= // `tick` ""quote"" 'q'
	""packet"" ; o
=  // packet A { u8 x, }
	""packet""

    ;
    A  // " ++ [27880; 37322]%N ++ runes_of_ascii "
    =
        //
  true ;  // trailing space 
}

packet  body  {	_x	,
    zchar[65535 ]
    Header @calculatedFrom( // trailing space 
    """"  )
`u8 x,`	,

}
    root packet 
	//	t
	  T	// trailing space 
    {@tag( // trailing space 
  	7
) 
@tag(
	0
    )
@leftPad
(  '0'
)  // a // b
    int64
    x @lengthOf(  Packet )  ,

    msg_type

    stringy`" ++ [28040; 24687; 31867; 22411]%N ++ runes_of_ascii "` /// triple
,

    }	/// triple")).
Eval vm_compute in ("<<<M861>>>" ++ check (runes_of_ascii "MetaData trueish
    { char[]  i8i8 `" ++ [28040; 24687; 31867; 22411]%N ++ runes_of_ascii "` ,
} packet calculatedFrom
{ @calculatedFrom(""CRC32"")
@lengthOf(u128 )
    metadata // @lengthOf(
stringy `u8 x,`
, string
i8i8@lengthOf( rootA
    // `tick` ""quote"" 'q'
    ) , @calculatedFrom(	""CRC32"" ) @calculatedFrom(	""packet"")@calculatedFrom(""""
) zchar[42 ] body `" ++ [233]%N ++ runes_of_ascii "` , Packet , uint16  Logon ,
rootA len
`u8 x,` ,
T @lengthOf(
// a // b
// " ++ [27880; 37322]%N ++ runes_of_ascii "
T), @rightPad ( ) repeat char[ // @lengthOf(
255 ]//
x_y_z
,repeat uint16 len
,
@rightPad
    ( ) calculatedFrom charz `crlf
line`,
}
")).
Eval vm_compute in ("<<<M3849>>>" ++ check (runes_of_ascii "root packet pack {
    @calculatedFrom(""`tick`"")
    @calculatedFrom(""\n"")
    @tag(0123456789)
    match zchar as string_ {
        [""packet""] : i8i8,
        [0123456789, 7] : string_,
        //x
        // `tick` ""quote"" 'q'
        0 : options1,
        ""\" ++ [233]%N ++ runes_of_ascii """ : Foo,
    },
    @lengthOf(calculatedFrom)
    Foo @lengthOf(x) `crlf
        line`,
    lengthOf @lengthOf(int),
    T,
    @lengthOf(rootA)
    zchar[007] x `crlf
        line`,
    @calculatedFrom(""\n"")
    repeat f64 chars,
    matchKey _x,
}")).
Eval vm_compute in ("<<<M800>>>" ++ check (runes_of_ascii "options {  }packet Packet
    { repeat
zchar[ 0123456789 ]
    crc , repeat zchar[	4294967296
]Z9_ ,// packet A { u8 x, }
rootA ,repeat Packet
    { lengthOf{
u8x `{ , }` , zchar[ 0123456789 ] lengthOf
`{ , }` , // " ++ [27880; 37322]%N ++ runes_of_ascii "
Header { repeat
// c
//x
f32 As `line1
line2`	,
    charz
    @calculatedFrom( ""1""
) , } , },},
i8//	t
float
@lengthOf( T// packet A { u8 x, }
) ,@lengthOf(
    metadata )
@calculatedFrom( ""packet""
    // a // b
    ) @lengthOf( repeatCount ) repeat
f32 Foo	, } 	 ")).
Eval vm_compute in ("<<<M1354>>>" ++ check (runes_of_ascii "options { Packet = u8 ; }packet  metadata // @lengthOf(
{ charz {	match asx
    as
A
{
[ ""\n"",
    // " ++ [128512]%N ++ runes_of_ascii " emoji
    ""a\""b"" ]
:string_
""a\\"" :float
    // @lengthOf(
    , [ 10 ] :
// c
// a // b
leftPad ,
255:
Packet
,[ ""a	b"", ""a	b"" , """ ++ [28040; 24687]%N ++ runes_of_ascii """	, 42 ,
// " ++ [27880; 37322]%N ++ runes_of_ascii "
// packet A { u8 x, }
""a\\"" ] :
    repeatCount , [  255	, """ ++ [128512]%N ++ runes_of_ascii """ ,
0123456789 // trailing space 
,
""" ++ [233]%N ++ runes_of_ascii "t" ++ [233]%N ++ runes_of_ascii """ ]: a1} , } , }  packet o {@calculatedFrom( ""\n"" )
repeat len
    ,
// trailing space 
//
body Logon
,
    }")).
Eval vm_compute in ("<<<M4543>>>" ++ check (runes_of_ascii "// @lengthOf(
MetaData msg_type {
}

MetaData Logon {
    i64 uint8x,
    o u128,
}

packet body {
    @calculatedFrom(""a	b"")
    uint8x ``,
}

root packet roots {
    repeat len f32a `crlf
    line`,
    @rightPad('\x00')
    repeat i8i8 {
        zchar @lengthOf(packetx) `a\`,
        repeat msg_type,
        char[] o `" ++ [233]%N ++ runes_of_ascii "`,
        char[42] roots,
        //x
        // `tick` ""quote"" 'q'
    },
}

MetaData pack {
    repeatCount charz,
}")).
Eval vm_compute in ("<<<M821>>>" ++ check (runes_of_ascii "
options { }options
{ } options
{ }
    packet options1 {
/// triple
// @lengthOf(
repeat stringy repeatCount	, int64 rootA
    ,@lengthOf(
    T)
// trailing space 
// @lengthOf(
chars Foo `line1
line2`, i64_ , repeat tag roots, @calculatedFrom(""CRC32""
) //x
@calculatedFrom( """ ++ [233]%N ++ runes_of_ascii "t" ++ [233]%N ++ runes_of_ascii """)
a1 @calculatedFrom(
    /// triple
    ""1"" )`two words` , }options {Logon =false uint8x	= ""x y""
Header = ""a	b"" ;
    calculatedFrom= true
}
")).
Eval vm_compute in ("<<<M1153>>>" ++ check (runes_of_ascii "packet asx {@tag(// trailing space 
00 )
options1, string repeatCount @calculatedFrom( ""// no comment"" ) `// not a comment`,	@leftPad
(
    '0')
@tag(
    42) packetx @lengthOf(msg_type
// " ++ [128512]%N ++ runes_of_ascii " emoji
/// triple
) `{ , }` // packet A { u8 x, }
,  }  packet
roots { @tag(	1 ) // `tick` ""quote"" 'q'
@tag( 1 ) @lengthOf( // @lengthOf(
BodyLength ) char[ 0123456789
]MetaDataX , /// triple
} MetaData	string_ { }
")).
Eval vm_compute in ("<<<M3841>>>" ++ check (runes_of_ascii "root packet x {
    @calculatedFrom(""a\\"")
    zchar[42] float @calculatedFrom(""a\""b"") `
        `,
}

MetaData o {
    int8 BodyLength,
    string len,
    string len,
    float falsey,
    T float,
}

MetaData pack {
    /// triple
    charz o `// not a comment`,
    float64 f32a `tab	here`,
    int32 u8x `// not a comment`,
    char[10] a1,
    float32 options1,
}// `tick` ""quote"" 'q'")).
Eval vm_compute in ("<<<M4010>>>" ++ check (runes_of_ascii "packet

i8i8 { 
match  tag
as  i8i8  {	""" ++ [28040; 24687]%N ++ runes_of_ascii """
: pack , 3  : rootA	, [

1 
,//	t

  3] :
    falsey

, }  ,
// " ++ [128512]%N ++ runes_of_ascii " emoji
// trailing space 

  zchar[ 10 
]string_
    ,  // @lengthOf(

} packet

    falsey {string 
chars
,  uint8x	, @lengthOf( packetx
    )  char[]Packet, } 
MetaData a1
{
	chars 
roots
        //
`crlf
line`

, /// triple

asx
zchar

    ,

    } ")).
Eval vm_compute in ("<<<M113>>>" ++ check (runes_of_ascii "packet body { Pad {a1`crlf
line`
    , zchar[ 007] a1 ,char[10 ] x_y_z  ,
repeat
zchar[ 1  ] metadata `u8 x,` , } , string  trueish
,repeat uint8x u ,	@tag( /// triple
007 ) calculatedFrom
{repeat BodyLength
`doc` ,
    }/// triple
, int64 lengthOf,/// triple
@lengthOf(
leftPad) @calculatedFrom( ""x y"" ) @calculatedFrom( // " ++ [27880; 37322]%N ++ runes_of_ascii "
""\" ++ [233]%N ++ runes_of_ascii """ )  falsey a1 , }")).
Eval vm_compute in ("<<<M4561>>>" ++ check (runes_of_ascii "options {
    string_ = true;
}

options {
    T = false
}

packet u8x {
    @lengthOf(int)
    zchar[255] BodyLength,
}// trailing space 

root packet f32a {
}

packet roots {
    Foo,
    repeat char[007] Pad,
    repeat int8 packetx,
    match Z9_ as T {
        00 : A,
        ""a\""b"" : falsey,
        //
        ""CRC32"" : a1,
    },
}")).
Eval vm_compute in ("<<<M3781>>>" ++ check (runes_of_ascii "options{} 
root
    // a // b
      packet  x //	t
      {	match
len
as

x

    { [7  ,
42
	,007,	//x
  255// trailing space 
	,""// no comment""
// `tick` ""quote"" 'q'
	// " ++ [128512]%N ++ runes_of_ascii " emoji
  ]: x_y_z
,
	""`tick`"" :

u128 ,3  :
string_ 
  /// triple
, [
    ""CRC32""
    ] :trueish,  4294967296
: Foo
,
[

0 
] :lengthOf 
}
,
}

")).
Eval vm_compute in ("<<<M1963>>>" ++ check (runes_of_ascii "MetaData
    u { }  options {
// c
// @lengthOf(
float = int8 ;rootA =false ; As =	int16 // `tick` ""quote"" 'q'
repeatCount
    // trailing space 
    =
    int16
; @leftPad =
    //	t
    '\x00' ; } options	{
    repeatCount
= 0
u128
    //
    = false ; i64_
// trailing space 
// `tick` ""quote"" 'q'
= '0' ; //	t
}
")).
Eval vm_compute in ("<<<M1921>>>" ++ check (runes_of_ascii "MetaData
    u { }  options {
// c
// @lengthOf(
float = int8 ;rootA =false ; ; As =	int16 // `tick` ""quote"" 'q'
repeatCount
    // trailing space 
    =
    int16
; u8x =
    //	t
    '\x00' ; } options	{
    repeatCount
= 0
u128
    //
    = false ; i64_
// trailing space 
// `tick` ""quote"" 'q'
= '0' ; //	t
}
")).
Eval vm_compute in ("<<<M2059>>>" ++ check (runes_of_ascii "MetaData
    u { }  options {
// c
// @lengthOf(
float = int8 ;rootA =false ; As =	int16 // `tick` ""quote"" 'q'
repeatCount
    // trailing space 
    =
    int16
; u8x =
    //	t
    '\x00' ; } options	{
    repeatCount
""= 0
u128
    //
    = false ; i64_
// trailing space 
// `tick` ""quote"" 'q'
= '0' ; //	t
}
")).
Eval vm_compute in ("<<<M1962>>>" ++ check (runes_of_ascii "MetaData
    u { }  options {
// c
// @lengthOf(
float = int8 ;rootA =false ; As =	int16 // `tick` ""quote"" 'q'
repeatCount
    // trailing space 
    =
    int16
; = u8x
    //	t
    '\x00' ; } options	{
    repeatCount
= 0
u128
    //
    = false ; i64_
// trailing space 
// `tick` ""quote"" 'q'
= '0' ; //	t
}
")).
Eval vm_compute in ("<<<M1900>>>" ++ check (runes_of_ascii "MetaData
    u { }  options {
// c
// @lengthOf(
float = int8 rootA =false ; As =	int16 // `tick` ""quote"" 'q'
repeatCount
    // trailing space 
    =
    int16
; u8x =
    //	t
    '\x00' ; } options	{
    repeatCount
= 0
u128
    //
    = false ; i64_
// trailing space 
// `tick` ""quote"" 'q'
= '0' ; //	t
}
")).
Eval vm_compute in ("<<<M1938>>>" ++ check (runes_of_ascii "MetaData
    u { }  options {
// c
// @lengthOf(
float = int8 ;rootA =false ; As =	[ // `tick` ""quote"" 'q'
repeatCount
    // trailing space 
    =
    int16
; u8x =
    //	t
    '\x00' ; } options	{
    repeatCount
= 0
u128
    //
    = false ; i64_
// trailing space 
// `tick` ""quote"" 'q'
= '0' ; //	t
}
")).
Eval vm_compute in ("<<<M4432>>>" ++ check (runes_of_ascii "// top
options {
    // c1a
    // c1b
    FixedStringPadChar = '0';// c5
}// c6

packet Q {
    // c9
    zchar[4] z,
    // c14
    @rightPad('\x00')
    // c18
    char[3] n,
    char[5] d,
    // c28
}

root packet R {
    // c33
    Q,// c35
    zchar[8] top,
    repeat zchar[2] zs,// c46
}
// c47")).
Eval vm_compute in ("<<<M500>>>" ++ check (runes_of_ascii "root
packet u8x {// @lengthOf(
i16
    metadata @lengthOf(
metadata
) `u8 x,`
    ,zchar[ 7 ] stringy@calculatedFrom( ""abc""  )
    `" ++ [233]%N ++ runes_of_ascii "` // trailing space 
, @rightPad
( // a // b
'0' )
match Header as
f32a { //	t
""" ++ [28040; 24687]%N ++ runes_of_ascii """// c
:calculatedFrom
,[ 10
]
:o , ""// no comment"" :As ""\" ++ [233]%N ++ runes_of_ascii """
: rootA ,},
}")).
Eval vm_compute in ("<<<M3804>>>" ++ check (runes_of_ascii "// trailing space 
packet pack {
    @lengthOf(Pad)
    char[] msg_type,
}

options {
    // " ++ [128512]%N ++ runes_of_ascii " emoji
    // " ++ [128512]%N ++ runes_of_ascii " emoji
    chars = int32;//
    chars = ""CRC32""
}

packet f32a {
    @calculatedFrom(""a\""b"")
    zchar @lengthOf(o),
    int32 o,
    repeat int64 zchar `" ++ [28040; 24687; 31867; 22411]%N ++ runes_of_ascii "`,
}/// triple")).
Eval vm_compute in ("<<<M1078>>>" ++ check (runes_of_ascii "root packet Logon { string MetaDataX @calculatedFrom( ""\" ++ [233]%N ++ runes_of_ascii """ )// a // b
`two words` , @leftPad
( '\x00' //x
) len a1 , // @lengthOf(
@tag( 0123456789 )
    repeat char[]
f32a , repeat uint16 pack
    ,}
MetaData
rootA { BodyLength Z9_ `{ , }` ,
    zchar[65535 ] u ,
}
")).
Eval vm_compute in ("<<<M613>>>" ++ check (runes_of_ascii "MetaData BodyLength {  zchar[ 00 ]a1 ,
i64 A
`" ++ [233]%N ++ runes_of_ascii "` , int8 i8i8
`doc`
,char[ 1 ]Header
``// " ++ [128512]%N ++ runes_of_ascii " emoji
, } options
    {asx
=
false;
    T=	""CRC32""u8x
= ' '
    float =
3 } packet o /// triple
{ @rightPad( '0'
    // a // b
    ) calculatedFrom `crlf
line` ,}")).
Eval vm_compute in ("<<<M1535>>>" ++ check (runes_of_ascii "packet
//	t
// trailing space 
_x {
// packet A { u8 x, }
// c
char[
3
    ] u8x @lengthOf(
u8x match , @calculatedFrom(""" ++ [128512]%N ++ runes_of_ascii """ // @lengthOf(
)
i16	Foo
@lengthOf(	string_
    )`doc`	, repeat	i64 metadata , @lengthOf( string_
) i8 // c
u  `line1
line2`	,
}
")).
Eval vm_compute in ("<<<M1648>>>" ++ check (runes_of_ascii "packet
//	t
// trailing space 
_x {
// packet A { u8 x, }
// c
char[
3
    ] u8x @lengthOf(
u8x ) , @calculatedFrom(""" ++ [128512]%N ++ runes_of_ascii """ // @lengthOf(
)
i16	Foo
@lengthOf(	string_
    )`doc`	, repeat	i64 metadata , @lengthOf( string_
) i8 // c
u  `line1
line2`	,
} }
")).
Eval vm_compute in ("<<<M1514>>>" ++ check (runes_of_ascii "packet
//	t
// trailing space 
_x {
// packet A { u8 x, }
// c
char[
3
    u8x ] @lengthOf(
u8x ) , @calculatedFrom(""" ++ [128512]%N ++ runes_of_ascii """ // @lengthOf(
)
i16	Foo
@lengthOf(	string_
    )`doc`	, repeat	i64 metadata , @lengthOf( string_
) i8 // c
u  `line1
line2`	,
}
")).
Eval vm_compute in ("<<<M3662>>>" ++ check (runes_of_ascii "options {
    LittleEndian = true;
}
packet Logon {
    u8 x,
    string user,
}
packet Logout {
    u16 reason,
}
packet Empty {
}
root packet Frame {
    u16 MsgType,
    u16 BodyLen @lengthOf(Body),
    u8 flags,
    Logon Body,
    u32 trailer,
}
")).
Eval vm_compute in ("<<<M781>>>" ++ check (runes_of_ascii "
packet As {
@calculatedFrom(""" ++ [28040; 24687]%N ++ runes_of_ascii """ ) @rightPad ( ' '
)@leftPad(
    ) rootA `crlf
line` , }
options {len=0
; Z9_= ""\n"" ;repeatCount
=
    //x
    ""// no comment"" ; /// triple
calculatedFrom =
int64  chars = ""\n"" }	options
{ // trailing space 
}")).
Eval vm_compute in ("<<<M1612>>>" ++ check (runes_of_ascii "packet
//	t
// trailing space 
_x {
// packet A { u8 x, }
// c
char[
3
    ] u8x @lengthOf(
u8x ) , @calculatedFrom(""" ++ [128512]%N ++ runes_of_ascii """ // @lengthOf(
)
i16	Foo
@lengthOf(	string_
    )`doc`	, repeat	i64 metadata ,  string_
) i8 // c
u  `line1
line2`	,
}
")).
Eval vm_compute in ("<<<M4156>>>" ++ check (runes_of_ascii "
packet

    Foo {	@tag( 0 )
    @lengthOf( 
Packet 
	// packet A { u8 x, }
    // packet A { u8 x, }
	)
zchar[ 65535
    ]	chars  `it's`
, 
float

    @lengthOf(
    repeatCount
    )

`line1
line2`

    , } options  {

} ")).
Eval vm_compute in ("<<<M260>>>" ++ check (runes_of_ascii "
packet
crc{ } options
{ len= '0' } packet uint8x {T  charz `u8 x,` ,
}
    MetaData  packetx //	t
{
// `tick` ""quote"" 'q'
// trailing space 
} options
    { Header
    =""CRC32""
;
    charz =
    string MetaDataX
=
true ;}
")).
Eval vm_compute in ("<<<M3537>>>" ++ check (runes_of_ascii "// top
packet // c0a
  // c0b
Inner // c1
{ // c2
u8 a // c4a
  // c4b
, // c5a
  // c5b
} root // c7a
  // c7b
packet
    // c8
P
    // c9
{ repeat Inner items // c13a
  // c13b
, // c14
u8 x
    // c16
, // c17
} ")).
Eval vm_compute in ("<<<M1702>>>" ++ check (runes_of_ascii "options { trueish = ""`tick`"" ; string_ string_= """ ++ [233]%N ++ runes_of_ascii "t" ++ [233]%N ++ runes_of_ascii """
    // c
    } root
    packet body { stringy @calculatedFrom(
""a	b"" ) `line1
line2` , }
packet Logon {
    @leftPad(
    ' ' ) //	t
u16 string_ `u8 x,` ,
}
")).
Eval vm_compute in ("<<<M79>>>" ++ check (runes_of_ascii "root packet Foo {i16 BodyLength `// not a comment`
    // c
    ,
    //x
    }options { // packet A { u8 x, }
} options
    {Z9_ = // trailing space 
false msg_type //
=
true f32a = ' ' zchar  =""`tick`"";}
")).
Eval vm_compute in ("<<<M1842>>>" ++ check (runes_of_ascii "options { truei''sh = ""`tick`"" ; string_= """ ++ [233]%N ++ runes_of_ascii "t" ++ [233]%N ++ runes_of_ascii """
    // c
    } root
    packet body { stringy @calculatedFrom(
""a	b"" ) `line1
line2` , }
packet Logon {
    @leftPad(
    ' ' ) //	t
u16 string_ `u8 x,` ,
}
")).
Eval vm_compute in ("<<<M1713>>>" ++ check (runes_of_ascii "options { trueish = ""`tick`"" ; string_= }
    // c
    """ ++ [233]%N ++ runes_of_ascii "t" ++ [233]%N ++ runes_of_ascii """ root
    packet body { stringy @calculatedFrom(
""a	b"" ) `line1
line2` , }
packet Logon {
    @leftPad(
    ' ' ) //	t
u16 string_ `u8 x,` ,
}
")).
Eval vm_compute in ("<<<M1349>>>" ++ check (runes_of_ascii "
root
    packet x_y_z{@lengthOf( _x ) _x  @lengthOf( trueish)	,} packet
    BodyLength {// packet A { u8 x, }
}
    // " ++ [128512]%N ++ runes_of_ascii " emoji
    MetaData // @lengthOf(
a1 { Pad
    repeatCount	,i16 zchar `` ,//	t
}")).
Eval vm_compute in ("<<<M1616>>>" ++ check (runes_of_ascii "packet
//	t
// trailing space 
_x {
// packet A { u8 x, }
// c
char[
3
    ] u8x @lengthOf(
u8x ) , @calculatedFrom(""" ++ [128512]%N ++ runes_of_ascii """ // @lengthOf(
)
i16	Foo
@lengthOf(	string_
    )`doc`	, repeat	i64 metadata ,")).
Eval vm_compute in ("<<<M52>>>" ++ check (runes_of_ascii "  root packet _x// " ++ [128512]%N ++ runes_of_ascii " emoji
{@lengthOf(// c
Packet ) float32 stringy  @calculatedFrom(
""x y"" ) `say ""hi""`, match Pad as
x_y_z{ ""a\\"" : float , 65535 : stringy 007: /// triple
uint8x ,
    } , }
")).
Eval vm_compute in ("<<<M4062>>>" ++ check (runes_of_ascii "root packet Foo {
    i16 BodyLength `// not a comment`,
    //x
}

options {
    // packet A { u8 x, }
}

options {
    Z9_ = false
    msg_type = true
    f32a = ' '
    zchar = ""`tick`"";
}")).
Eval vm_compute in ("<<<M4096>>>" ++ check (runes_of_ascii "MetaData lengthOf {
    char[0123456789] calculatedFrom,
    char[0] options1,
}

MetaData repeatCount {
    // packet A { u8 x, }
    u64 len,
    stringy x_y_z `it's`,
    f32 As,
}")).
Eval vm_compute in ("<<<M4441>>>" ++ check (runes_of_ascii "  packet
    A	//
	{
    @tag( 255
	) @lengthOf( 
// packet A { u8 x, }
	//
	x
)u	`crlf
line`

    , repeat
	body	{	zchar[ 00
        //	t
	  ]  crc `a\` , }  // c

	,
}")).
Eval vm_compute in ("<<<M1836>>>" ++ check (runes_of_ascii "options { trueish = ""`tick`"" ; string_= """ ++ [233]%N ++ runes_of_ascii "t" ++ [233]%N ++ runes_of_ascii """
    // c
    } root
    packet body { stringy @calculatedFrom(
""a	b"" ) `line1
line2` , }
packet Logon {
    @leftPad(
    ' ")).
Eval vm_compute in ("<<<M4492>>>" ++ check (runes_of_ascii "root	packet  rootA 

    /// triple
    //	t
	{

@lengthOf(
	A
) zchar[ 65535  ]
	len`a\`, }
	root
packet
    packetx	{  uint8 
i8i8

    ,
} 
        // c
 
")).
Eval vm_compute in ("<<<M2077>>>" ++ check (runes_of_ascii "options options{
_x
= true
} options
{ o	= /// triple
false
    ; chars
= ""\n"" } root packet	Pad
/// triple
// packet A { u8 x, }
{	chars
    // a // b
    ,}")).
Eval vm_compute in ("<<<M2172>>>" ++ check (runes_of_ascii "options{
_x
= true
} options
{ o	= /// triple
false
    ; chars
= ""\n"" } root packet	Pad
/// triple
// packet A { u8 x, }
uint64	chars
    // a // b
    ,}")).
Eval vm_compute in ("<<<M1091>>>" ++ check (runes_of_ascii "// " ++ [128512]%N ++ runes_of_ascii " emoji
packet// @lengthOf(
string_ {@calculatedFrom(
""" ++ [233]%N ++ runes_of_ascii "t" ++ [233]%N ++ runes_of_ascii """) repeat
    i64 MetaDataX  , u64 i8i8
    `a\`
,
    As
//
// " ++ [27880; 37322]%N ++ runes_of_ascii "
, // packet A { u8 x, }
}
")).
Eval vm_compute in ("<<<M2201>>>" ++ check (runes_of_ascii "options{
_x
= true
} \ options
{ o	= /// triple
false
    ; chars
= ""\n"" } root packet	Pad
/// triple
// packet A { u8 x, }
{	chars
    // a // b
    ,}")).
Eval vm_compute in ("<<<M2199>>>" ++ check (runes_of_ascii "options{
_x
= true
} options
{ o	= /// triple
false
    ; chars
= '""\n"" } root packet	Pad
/// triple
// packet A { u8 x, }
{	chars
    // a // b
    ,}")).
Eval vm_compute in ("<<<M2141>>>" ++ check (runes_of_ascii "options{
_x
= true
} options
{ o	= /// triple
false
    ; chars
""\n"" = } root packet	Pad
/// triple
// packet A { u8 x, }
{	chars
    // a // b
    ,}")).
Eval vm_compute in ("<<<M2169>>>" ++ check (runes_of_ascii "options{
_x
= true
} options
{ o	= /// triple
false
    ; chars
= ""\n"" } root packet	Pad
/// triple
// packet A { u8 x, }
	chars
    // a // b
    ,}")).
Eval vm_compute in ("<<<M2079>>>" ++ check (runes_of_ascii "f64{
_x
= true
} options
{ o	= /// triple
false
    ; chars
= ""\n"" } root packet	Pad
/// triple
// packet A { u8 x, }
{	chars
    // a // b
    ,}")).
Eval vm_compute in ("<<<M4409>>>" ++ check (runes_of_ascii "
options{	x_y_z = """ ++ [128512]%N ++ runes_of_ascii """

    /// triple
// @lengthOf(
	options1 =  ""a\\""

    ;	x_y_z
    = 
255 ;
    }//x
packet 
charz {} 	 // trailing space ")).
Eval vm_compute in ("<<<M1116>>>" ++ check (runes_of_ascii "//x
options {
    pack = ""{,}"" ; asx = 65535 ; u
= zchar[ 007 ] ;
    // trailing space 
    i8i8
=char[]
As //x
=' ' } // packet A { u8 x, }")).
Eval vm_compute in ("<<<M4001>>>" ++ check (runes_of_ascii "MetaData Z9_ {

}packet
lengthOf	{  @tag(
00

)
    u32 
trueish , // trailing space 
		repeat
string

roots 
`doc` ,
    }	// " ++ [128512]%N ++ runes_of_ascii " emoji")).
Eval vm_compute in ("<<<M12>>>" ++ check (runes_of_ascii "packet
    charz //
{ @rightPad( '0')
repeat
    //x
    Packet//x
msg_type `" ++ [233]%N ++ runes_of_ascii "`	, } options {repeatCount
= false falsey  = int64
}")).
Eval vm_compute in ("<<<M3547>>>" ++ check (runes_of_ascii "packet  B
{
    u8
a

    ,
}root
    packet P {

u8 K

,
	u64
L

@lengthOf(	Body ) ,	match
K 
as
Body{
	1
:

B,} 
,
}
")).
Eval vm_compute in ("<<<M1450>>>" ++ check (runes_of_ascii "
packet
    falsey { Header@calculatedFrom(""packet""  ) , char[
    0123456789 options packetx
    , } // `tick` ""quote"" 'q'")).
Eval vm_compute in ("<<<M3319>>>" ++ check (runes_of_ascii "root packet matchKey {
// c
zchar[ 3 ] pack @calculatedFrom( ""a	b"" ) `doc` , } options { } MetaData A { int8 msg_type , }")).
Eval vm_compute in ("<<<M3351>>>" ++ check (runes_of_ascii "root packet matchKey { zchar[ 3 ] pack @calculatedFrom( ""a	b"" ) `doc` , } options { } MetaData A {
// c
int8 msg_type , }")).
Eval vm_compute in ("<<<M4613>>>" ++ check (runes_of_ascii "packet

A
{ 
match

    k  as 
n
{ [
    ""a""
,
	22	,

""c c""
    ,
	4 
,
""e""  ,66	, ""g""
,
8

]	:

B , 2:
C 
} ,} ")).
Eval vm_compute in ("<<<M1434>>>" ++ check (runes_of_ascii "
packet
    falsey { Header@calculatedFrom(""packet""  ) char[ ,
    0123456789 ] packetx
    , } // `tick` ""quote"" 'q'")).
Eval vm_compute in ("<<<M4231>>>" ++ check (runes_of_ascii "
packet
// @lengthOf(

// " ++ [128512]%N ++ runes_of_ascii " emoji

	len
{@calculatedFrom(
    ""it's""

    )
    calculatedFrom
    msg_type	,
}
")).
Eval vm_compute in ("<<<M1402>>>" ++ check (runes_of_ascii "
packet
     { Header@calculatedFrom(""packet""  ) , char[
    0123456789 ] packetx
    , } // `tick` ""quote"" 'q'")).
Eval vm_compute in ("<<<M1026>>>" ++ check (runes_of_ascii "packet
// " ++ [128512]%N ++ runes_of_ascii " emoji
// @lengthOf(
Header
    {	}
MetaData
Packet {
uint64 As `say ""hi""`,	}
// trailing space 
")).
Eval vm_compute in ("<<<M440>>>" ++ check (runes_of_ascii "// `tick` ""quote"" 'q'
packet
    trueish {
    @lengthOf(
MetaDataX ) uint8x	@calculatedFrom(""a\""b""  ) ,}")).
Eval vm_compute in ("<<<M1058>>>" ++ check (runes_of_ascii "options {
    } packet As {f32 int @calculatedFrom(""{,}"")
, u8 packetx ,u128 len, } packet options1 {}")).
Eval vm_compute in ("<<<M1653>>>" ++ check (runes_of_ascii "packet
//	t
// trailing space 
_x {
// packet A { u8 x, }
// c
char[
3
    ] u8x @lengthOf(
u8x ) , ")).
Eval vm_compute in ("<<<M4417>>>" ++ check (runes_of_ascii "packet chars {
}

packet MetaDataX {
    @tag(42)
    i16 string_,
    repeat x `say ""hi""`,
}
// c")).
Eval vm_compute in ("<<<M2372>>>" ++ check (runes_of_ascii "// c
packet x { @lengthOf( metadata ) repeat lengthOf
,a1{
trueish	,// c
repeat//	t
MetaDataX ")).
Eval vm_compute in ("<<<M3721>>>" ++ check (runes_of_ascii "options  {

}
options
	{BodyLength

=
u16 
Header  =
f64
;u128=true
	;  }	// a // b@leftpad
")).
Eval vm_compute in ("<<<M4368>>>" ++ check (runes_of_ascii "
MetaData

body{
i64 pack  `it's` ,} packet  stringy{ 
// c
    int16	calculatedFrom,	}
")).
Eval vm_compute in ("<<<M2962>>>" ++ check (runes_of_ascii "packet A {
  match k as n {
    [1, 22, 007, 4, 5, 66, 7, 8, 9, 10] : B,
    2 : C
  },
}")).
Eval vm_compute in ("<<<M3299>>>" ++ check (runes_of_ascii "MetaData float { float64 charz `
` , } root packet chars { @rightPad ( '0' ) // c
Foo , }")).
Eval vm_compute in ("<<<M3510>>>" ++ check (runes_of_ascii "packet chars { } packet MetaDataX { @tag( 42 ) i16 string_ ,
// c
repeat x `say ""hi""` , }")).
Eval vm_compute in ("<<<M2963>>>" ++ check (runes_of_ascii "packet A {
  match k as n {
    [1, 22, 007, 4, 5, 66, 7, 8, 9, 10] : B
    2 : C
  },
}")).
Eval vm_compute in ("<<<M519>>>" ++ check (runes_of_ascii "options  { Logon =char[0];} packet chars {
u8 u  `u8 x,` ,	} options
{ metadata= 0	}
")).
Eval vm_compute in ("<<<M3218>>>" ++ check (runes_of_ascii "packet metadata {
// c
Logon { A `" ++ [28040; 24687; 31867; 22411]%N ++ runes_of_ascii "` , tag o , } , zchar len `// not a comment` , }")).
Eval vm_compute in ("<<<M4585>>>" ++ check (runes_of_ascii "
packet x {
    @rightPad 
    // c
    () 
repeat
    roots

Logon`doc`

    ,	}

")).
Eval vm_compute in ("<<<M3441>>>" ++ check (runes_of_ascii "packet o { repeat Logon uint8x , // c
} options { asx = zchar[ 3 ] stringy = '\x00' }")).
Eval vm_compute in ("<<<M2927>>>" ++ check (runes_of_ascii "packet A {
  match k as n {
    [1, ""bb"", 007, ""d"", 5, ""f"", 7] : B,
    2 : C
  },
}")).
Eval vm_compute in ("<<<M381>>>" ++ check (runes_of_ascii "/// triple
MetaData zchar // " ++ [128512]%N ++ runes_of_ascii " emoji
{ int32 pack
// trailing space 
//	t
,
    }
")).
Eval vm_compute in ("<<<M3416>>>" ++ check (runes_of_ascii "MetaData body { i64 pack `it's` , } packet stringy { int16 // c
calculatedFrom , }")).
Eval vm_compute in ("<<<M1526>>>" ++ check (runes_of_ascii "packet
//	t
// trailing space 
_x {
// packet A { u8 x, }
// c
char[
3
    ] u8x")).
Eval vm_compute in ("<<<M1234>>>" ++ check (runes_of_ascii "//
options{charz
= ""1"" trueish = """" ;  asx =
'0'i8i8 //	t
=
    ""it's""	;  }")).
Eval vm_compute in ("<<<M1231>>>" ++ check (runes_of_ascii "options	{zchar = 10 As
= u32// packet A { u8 x, }
; A= ""a\\"" // " ++ [128512]%N ++ runes_of_ascii " emoji
}
")).
Eval vm_compute in ("<<<M3183>>>" ++ check (runes_of_ascii "packet A {
    match k as n {
        1 : B // c
        , // d
    },
}")).
Eval vm_compute in ("<<<M1837>>>" ++ check (runes_of_ascii "options { trueish = ""`tick`"" ; string_= """ ++ [233]%N ++ runes_of_ascii "t" ++ [233]%N ++ runes_of_ascii """
    // c
    } root
   ")).
Eval vm_compute in ("<<<M4121>>>" ++ check (runes_of_ascii "options {
    msg_type = 42;
    metadata = """";
    matchKey = u8
}")).
Eval vm_compute in ("<<<M2865>>>" ++ check (runes_of_ascii "packet A {
  match k as n {
    [""a"", ""bb""] : B
    2 : C
  },
}")).
Eval vm_compute in ("<<<M2869>>>" ++ check (runes_of_ascii "packet A {
  match k as n {
    [""a"", 22] : B
    2 : C
  },
}")).
Eval vm_compute in ("<<<M3175>>>" ++ check (runes_of_ascii "packet A { @leftPad() char[4] x, @rightPad( ) zchar[2] y, }")).
Eval vm_compute in ("<<<M3375>>>" ++ check (runes_of_ascii "packet x { @rightPad ( ) // c
repeat roots Logon `doc` , }")).
Eval vm_compute in ("<<<M2345>>>" ++ check (runes_of_ascii "// c
packet x { @lengthOf( metadata ) repeat lengthOf
,")).
Eval vm_compute in ("<<<M2824>>>" ++ check (runes_of_ascii "zchar[ i64 true i32 options MetaData @tag( as true [")).
Eval vm_compute in ("<<<M288>>>" ++ check (runes_of_ascii "options { leftPad //	t
= //	t
""" ++ [28040; 24687]%N ++ runes_of_ascii """ } // " ++ [128512]%N ++ runes_of_ascii " emoji")).
Eval vm_compute in ("<<<M1146>>>" ++ check (runes_of_ascii "
root packet  u128	{	char[ 007 ]MetaDataX
,}")).
Eval vm_compute in ("<<<M2353>>>" ++ check (runes_of_ascii "// c
packet x { @lengthOf( metadata ) repeat")).
Eval vm_compute in ("<<<M31>>>" ++ check (runes_of_ascii "root
packet uint8x {}root packet  Pad
{}")).
Eval vm_compute in ("<<<M3197>>>" ++ check (runes_of_ascii "root packet u128 { chars // c
`it's` , }")).
Eval vm_compute in ("<<<M2655>>>" ++ check (runes_of_ascii "MetaData M { match k as n { 1 : B }, }")).
Eval vm_compute in ("<<<M3048>>>" ++ check (runes_of_ascii "root packet A {
    u8 x `tab
	x`,
}")).
Eval vm_compute in ("<<<M459>>>" ++ check (runes_of_ascii "  MetaData a1 {
    u64 packetx ,}")).
Eval vm_compute in ("<<<M2828>>>" ++ check (runes_of_ascii "@calculatedFrom( x_y_z { """" @tag(")).
Eval vm_compute in ("<<<M1202>>>" ++ check (runes_of_ascii "options
{ lengthOf = false ; }
")).
Eval vm_compute in ("<<<M3092>>>" ++ check (runes_of_ascii "packet A {
 u8 x `d" ++ [8202]%N ++ runes_of_ascii "`, // c" ++ [8202]%N ++ runes_of_ascii "
}")).
Eval vm_compute in ("<<<M2113>>>" ++ check (runes_of_ascii "options{
_x
= true
} options")).
Eval vm_compute in ("<<<M3878>>>" ++ check (runes_of_ascii "

  MetaData
	f32a{A x
, }")).
Eval vm_compute in ("<<<M2703>>>" ++ check (runes_of_ascii "s>z""[<H>6@7M*]R*[1m;4X~)`")).
Eval vm_compute in ("<<<M2701>>>" ++ check (runes_of_ascii "zchar[ float32 ' ' { '0'")).
Eval vm_compute in ("<<<M4092>>>" ++ check (runes_of_ascii "
packet  A	{
x
`d`,	}")).
Eval vm_compute in ("<<<M2698>>>" ++ check ([65533]%N ++ runes_of_ascii "#" ++ [3; 7]%N ++ runes_of_ascii ">" ++ [65533]%N ++ runes_of_ascii "iS" ++ [22; 65533; 65533; 65533; 65533; 65533]%N ++ runes_of_ascii "UsV" ++ [24; 65533; 65533]%N)).
Eval vm_compute in ("<<<M2819>>>" ++ check (runes_of_ascii "uint64 , options1 (")).
Eval vm_compute in ("<<<M3076>>>" ++ check (runes_of_ascii "// c" ++ [133]%N ++ runes_of_ascii "
packet A {
}")).
Eval vm_compute in ("<<<M860>>>" ++ check (runes_of_ascii "packet zchar
{ }")).
Eval vm_compute in ("<<<M4173>>>" ++ check (runes_of_ascii "packet Header {
}")).
Eval vm_compute in ("<<<M640>>>" ++ check (runes_of_ascii " // @lengthOf(")).
Eval vm_compute in ("<<<M2653>>>" ++ check (runes_of_ascii "MetaData { }")).
Eval vm_compute in ("<<<M2483>>>" ++ check (runes_of_ascii "@leftPadx")).
Eval vm_compute in ("<<<M2464>>>" ++ check (runes_of_ascii "repeats")).
Eval vm_compute in ("<<<M2427>>>" ++ check (runes_of_ascii "char[")).
Eval vm_compute in ("<<<M3114>>>" ++ check (runes_of_ascii "// c" ++ [11]%N)).
Eval vm_compute in ("<<<M2693>>>" ++ check (runes_of_ascii "char")).
Eval vm_compute in ("<<<M2673>>>" ++ check (runes_of_ascii "{ }")).
Eval vm_compute in ("<<<M14>>>" ++ check (runes_of_ascii "
")).
