From FP Require Import Lexer Parser ShowPT Digest Formatter.
From Coq Require Import String List NArith.
Import ListNotations.
Open Scope string_scope.
Set Printing Width 100000000.
Set Printing Depth 100000000.
Definition show_fres (r : fres) : string :=
  match r with
  | FOk s => "OK:" ++ sh_escaped s ""
  | FErr s => "ERR:" ++ sh_escaped s ""
  | FPanic p => "PANIC:" ++ p
  end.
Definition check (rs : list rune) : string := digest (show_fres (format_res rs)).
Definition full (rs : list rune) : string := show_fres (format_res rs).
Eval vm_compute in ("<<<M3641>>>" ++ check (runes_of_ascii "// top
options
    // c0
{ // c1
LittleEndian
    // c2
= // c3a
  // c3b
false
    // c4
; // c5
FixedStringPadFromLeft // c6a
  // c6b
= false // c8
; // c9
FixedStringPadChar // c10
=
    // c11
' '
    // c12
; } // c14
packet // c15
Fill // c16a
  // c16b
{ // c17a
  // c17b
uint16 // c18a
  // c18b
Qty // c19a
  // c19b
, uint64 // c21
clOrdID , repeat // c24a
  // c24b
i64 // c25
Flags
    // c26
,
    // c27
} packet Ack // c30a
  // c30b
{
    // c31
zchar[ 7 // c33
] clOrdID // c35
, // c36
u64 // c37a
  // c37b
lastPx , // c39
char[] // c40a
  // c40b
Note , // c42
repeat // c43a
  // c43b
Fill
    // c44
, // c45a
  // c45b
int32 // c46a
  // c46b
count
    // c47
, // c48
}
    // c49
packet // c50
Quote { u8 venue , // c55a
  // c55b
InRef40 {
    // c57
char[] Qty // c59a
  // c59b
, // c60a
  // c60b
}
    // c61
, zchar[ // c63
5
    // c64
] Flags // c66
, // c67a
  // c67b
@rightPad // c68a
  // c68b
( // c69a
  // c69b
'\x00' // c70
) // c71
char[ // c72a
  // c72b
12 ] // c74a
  // c74b
msgKind ,
    // c76
} // c77a
  // c77b
packet Logout
    // c79
{
    // c80
InSym79
    // c81
{
    // c82
int32 Qty , // c85a
  // c85b
Fill // c86a
  // c86b
, char[ 3
    // c89
] // c90
x ,
    // c92
repeat InNote29 { // c95a
  // c95b
i16 price
    // c97
, // c98a
  // c98b
Ack // c99
, // c100a
  // c100b
f64 // c101
x // c102a
  // c102b
, // c103
zchar[ // c104
8 // c105
] count // c107
, // c108a
  // c108b
}
    // c109
, // c110
}
    // c111
,
    // c112
} root // c114a
  // c114b
packet // c115
Logon // c116a
  // c116b
{ zchar[ 1 // c119
] sym // c121a
  // c121b
, u32
    // c123
count , u16 // c126a
  // c126b
tag7
    // c127
@lengthOf( // c128a
  // c128b
Body
    // c129
) // c130a
  // c130b
, match // c132a
  // c132b
count // c133
as Body // c135a
  // c135b
{
    // c136
[ // c137a
  // c137b
122 , // c139a
  // c139b
152
    // c140
]
    // c141
:
    // c142
Ack
    // c143
, 118 // c145a
  // c145b
:
    // c146
Logout // c147a
  // c147b
, // c148
61 : // c150a
  // c150b
Quote
    // c151
, 161 // c153a
  // c153b
: // c154
Fill // c155
, // c156
} , // c158a
  // c158b
u32 // c159
Acct @calculatedFrom( // c161
""CRC32"" // c162a
  // c162b
)
    // c163
, } // c165a
  // c165b
")).
Eval vm_compute in ("<<<M3777>>>" ++ check (runes_of_ascii "packet metadata {
    zchar[10] i64_ `say ""hi""`,
    repeat Header uint8x,
    @lengthOf(falsey)
    int8 _x @calculatedFrom(""x y"") `{ , }`,
    stringy metadata `a\`,// " ++ [128512]%N ++ runes_of_ascii " emoji
    @lengthOf(Packet)
    i64_ {
        match crc as Header {
            [0, 0123456789] : Foo,
            ""abc"" : pack,
        },
        match int as charz {
            1 : packetx,
            7 : MetaDataX,
            // " ++ [128512]%N ++ runes_of_ascii " emoji
            7 : a1,
            007 : zchar,
            ""CRC32"" : stringy,
            [""\" ++ [233]%N ++ runes_of_ascii """, ""CRC32""] : i8i8,
        },
        pack `doc`,
        tag {
            _x @calculatedFrom(""CRC32"") `
                        `,
            repeat asx `{ , }`,
            i32 _x @calculatedFrom(""\n"") `u8 x,`,
        },
    },
    f32a @lengthOf(chars),
    string Packet,
    @leftPad(' ')
    @lengthOf(u8x)
    // trailing space 
    a1 @calculatedFrom(""x y"") `doc`,
    options1,
    body `{ , }`,
}

MetaData Foo {
    uint8 Z9_ `{ , }`,
}

packet Header {
    pack {
        // trailing space 
        leftPad {
            u128 i64_,
            zchar[7] i64_ @calculatedFrom(""packet"") `line1
                        line2`,//
            metadata Logon,
            char[10] asx @lengthOf(uint8x) `it's`,
        },
    },
    @calculatedFrom(""a\\"")
    Logon @lengthOf(uint8x) `
        `,
    int64 msg_type,
    metadata _x,
    @leftPad()
    trueish {
        Header {
            //x
            // `tick` ""quote"" 'q'
            uint8x {
                char[0123456789] leftPad @calculatedFrom(""" ++ [233]%N ++ runes_of_ascii "t" ++ [233]%N ++ runes_of_ascii """) `" ++ [28040; 24687; 31867; 22411]%N ++ runes_of_ascii "`,
            },// " ++ [128512]%N ++ runes_of_ascii " emoji
            char[1] asx @calculatedFrom(""it's""),
            roots,
        },
    },
    zchar[255] Packet,// `tick` ""quote"" 'q'
    repeat i8i8,
    repeat float64 u8x,
    @calculatedFrom(""" ++ [233]%N ++ runes_of_ascii "t" ++ [233]%N ++ runes_of_ascii """)
    asx @calculatedFrom(""a\""b""),
}

MetaData roots {
}")).
Eval vm_compute in ("<<<M96>>>" ++ check (runes_of_ascii "root packet Logon {
    zchar[ 65535
]
uint8x ,@leftPad ()repeat f32
    Packet , @leftPad ( ' '
//x
//	t
) match i8i8 as  body// a // b
{ 65535 : MetaDataX ,
    007
    : Packet
}
,  @calculatedFrom(""packet"")uint8x ,Foo@lengthOf( asx
    //	t
    )
, i64 int , //
@leftPad ( ' ' ) repeat rootA {
int32 zchar
,match stringy  as MetaDataX
    { [ """ ++ [28040; 24687]%N ++ runes_of_ascii """  , 10 ,42 , ""a\""b"" ,	42 ,7]: msg_type ,[
    42 ]	:stringy , ""a\\"" :
Header  255 : calculatedFrom
    //	t
    ,
// a // b
/// triple
[ 007// " ++ [27880; 37322]%N ++ runes_of_ascii "
]
    :
/// triple
//x
MetaDataX , ""a\""b""
    //	t
    ://
stringy // " ++ [128512]%N ++ runes_of_ascii " emoji
, } , char[ 007  ] int @lengthOf(
    o
    )`" ++ [233]%N ++ runes_of_ascii "` // `tick` ""quote"" 'q'
,
// trailing space 
//x
}	, @leftPad (
//
// @lengthOf(
)@lengthOf(
    metadata )match
asx
as leftPad { ""x y""
:
matchKey // packet A { u8 x, }
} // " ++ [27880; 37322]%N ++ runes_of_ascii "
,
    repeat  leftPad `say ""hi""` ,char[//	t
65535// c
] // a // b
Packet , } root packet // a // b
x_y_z { match uint8x as As
    { [0123456789 ] : T
    65535
    :	x_y_z ""\n""
    //
    : u,
    4294967296 :  Packet	[ 65535  ]: T ,
    255 : uint8x },int32 Packet  `tab	here` , @calculatedFrom( """"
) @calculatedFrom(
    ""a\\"" ) u64 repeatCount
    @calculatedFrom( """" ) , Header
zchar
`doc` ,
match
_x as	metadata // " ++ [128512]%N ++ runes_of_ascii " emoji
{ [ 255 ,""1""	] : Logon [
""" ++ [233]%N ++ runes_of_ascii "t" ++ [233]%N ++ runes_of_ascii """ ,00, 65535
    ,	7 , 42	, 00	]
:
packetx , 4294967296 : stringy
    //	t
    ,}, char[00
    ] tag `doc` ,@lengthOf(
int )
string u
    ,  @tag( 007 ) int16 stringy , float64
    crc, @calculatedFrom( ""x y""  ) repeat u16 f32a ,}options  {	u128= ""CRC32"" options1 = // packet A { u8 x, }
false u8x= ""`tick`"";}")).
Eval vm_compute in ("<<<M972>>>" ++ check (runes_of_ascii "packet u/// triple
{
@calculatedFrom( ""1"" ) match o as float{
""x y""	:
    u
    , }
    ,match packetx as
    f32a {
// a // b
// c
[ 4294967296 ,3] :
x , 10
: i8i8, """ ++ [233]%N ++ runes_of_ascii "t" ++ [233]%N ++ runes_of_ascii """ : _x [
    // `tick` ""quote"" 'q'
    ""a	b""
, """ ++ [28040; 24687]%N ++ runes_of_ascii """
    //	t
    ,
    ""1"",""a\\"" ,42 , 4294967296
    , ""a	b""] :
    Header ,//
65535 : i8i8 , 0123456789 :repeatCount ,
    }
    ,
repeat
stringy { //	t
char[	0
]
Logon	`{ , }`, Pad `a\`
, asx
    BodyLength`line1
line2` ,
    repeat string
    Z9_, } ,
    f32a metadata `" ++ [28040; 24687; 31867; 22411]%N ++ runes_of_ascii "`
, @calculatedFrom(
""a\""b"" )
    metadata { Z9_ @calculatedFrom( """ ++ [233]%N ++ runes_of_ascii "t" ++ [233]%N ++ runes_of_ascii """ ) ,  repeat zchar[  1 ] //
options1 `say ""hi""` , i8 options1,
    roots
{string packetx ,
repeat char[//x
65535 ] x // trailing space 
,
    // c
    }
, } , int8 matchKey
    ,
metadata @lengthOf( roots )
// packet A { u8 x, }
//	t
,  string u// " ++ [27880; 37322]%N ++ runes_of_ascii "
@lengthOf(
    As
)
    , } packet //x
x_y_z {
    // " ++ [128512]%N ++ runes_of_ascii " emoji
    len o, match
string_ as
Foo {
[
    255
    ,
""" ++ [233]%N ++ runes_of_ascii "t" ++ [233]%N ++ runes_of_ascii """
    //
    , 255 , 007 , ""a\""b""
    // " ++ [27880; 37322]%N ++ runes_of_ascii "
    , ""abc""  ]
: a1
    // @lengthOf(
    ,""CRC32""
:matchKey } ,@lengthOf(
int )	@calculatedFrom(//	t
""1""// " ++ [27880; 37322]%N ++ runes_of_ascii "
)
@calculatedFrom(//
""it's"") char[ 0 ]
matchKey @calculatedFrom(
""`tick`"" )
    , match a1
as Z9_
{ [ ""CRC32"" , 65535 ] :
    x [ 0123456789 ,  """ ++ [233]%N ++ runes_of_ascii "t" ++ [233]%N ++ runes_of_ascii """]	: packetx ,
    ""packet"" :
//	t
// a // b
msg_type , 10 : // " ++ [27880; 37322]%N ++ runes_of_ascii "
o// " ++ [128512]%N ++ runes_of_ascii " emoji
, }, @lengthOf( repeatCount )
    f32 As , @tag( 3
    )
    string_, } 	 ")).
Eval vm_compute in ("<<<M4142>>>" ++ check (runes_of_ascii "packet Packet
	{  MetaDataX

{ 
        // " ++ [128512]%N ++ runes_of_ascii " emoji
// trailing space 
zchar[
// @lengthOf(
  255 ]

    crc @calculatedFrom(

    ""`tick`""
)
`doc`,	// c
}  ,
	u32
As

    `
`

,
	@lengthOf( chars
) f64
leftPad `// not a comment`,  repeat char[
3 ]len `doc`

    ,
match
    u8x

as
	chars{	4294967296 
:
	f32a

    ,

    [

    255	,
4294967296]: string_
    0: chars

,	// packet A { u8 x, }

""a\""b""
    :	options1 
7

    :
	falsey
,  } ,
	@lengthOf(  // c
  len 
  // `tick` ""quote"" 'q'
    // @lengthOf(
  ) repeat
char[
	10 
    // " ++ [27880; 37322]%N ++ runes_of_ascii "

	] Header`crlf
line` ,	// " ++ [27880; 37322]%N ++ runes_of_ascii "
rootA  asx 
`two words`

    ,

}

packet	//x
  Packet
	{	@tag( //
	00

) u16
	asx ,

    @calculatedFrom(""a\""b""
	)
	charz
@lengthOf( a1

)
,
@lengthOf(
	asx )
	repeat string falsey , u32
options1

    @lengthOf(
packetx
)	`it's`	//x
	  ,
}

packet	metadata
    {

int16  i8i8 ,
	i32
	tag 
    //x
    //
  `line1
line2`
    ,
	@calculatedFrom(	""a\\"" 
    //x
	//	t
    )	// trailing space 
  @lengthOf(
repeatCount
    ) MetaDataX{

    repeat
    x_y_z, } , lengthOf
tag

`" ++ [233]%N ++ runes_of_ascii "`,

}MetaData//	t
		Foo{

    body chars 
,	char[]

asx

    `// not a comment` , char
u8x
//
  // a // b
    ,
x trueish
`crlf
line`
    ,	char[]  options1
`u8 x,` ,
	}
")).
Eval vm_compute in ("<<<M3624>>>" ++ check (runes_of_ascii "// top
options
    // c0
{
    // c1
LittleEndian // c2
= true // c4a
  // c4b
;
    // c5
StringPrefixLenType = // c7
u16 // c8a
  // c8b
; // c9
ArrayPrefixLenType // c10a
  // c10b
= u64 // c12a
  // c12b
;
    // c13
} // c14a
  // c14b
packet // c15
Fill // c16a
  // c16b
{
    // c17
} // c18
packet
    // c19
Logon // c20a
  // c20b
{ // c21a
  // c21b
repeat // c22
char[ 3
    // c24
] // c25a
  // c25b
Tail // c26
,
    // c27
zchar[ // c28
6 ]
    // c30
venue
    // c31
, // c32a
  // c32b
repeat string // c34a
  // c34b
Side2
    // c35
,
    // c36
} // c37a
  // c37b
root packet // c39
Cancel // c40a
  // c40b
{
    // c41
char[]
    // c42
Flags , char[] // c45
OrderId // c46a
  // c46b
, // c47a
  // c47b
zchar[ 6 // c49a
  // c49b
] // c50a
  // c50b
msgKind , Fill // c53a
  // c53b
, // c54a
  // c54b
char[] Acct // c56
, // c57
u8 f1
    // c59
,
    // c60
match // c61a
  // c61b
f1
    // c62
as
    // c63
Body { 188 // c66a
  // c66b
: // c67a
  // c67b
Fill // c68a
  // c68b
, 5 : // c71a
  // c71b
Logon // c72a
  // c72b
, // c73a
  // c73b
} // c74a
  // c74b
, u32 clOrdID // c77a
  // c77b
@calculatedFrom(
    // c78
""CRC32"" // c79
) // c80
, } ")).
Eval vm_compute in ("<<<M1358>>>" ++ check (runes_of_ascii "root  packet
roots {
repeat rootA`{ , }`
,BodyLength, @lengthOf(
    int )
    u64	pack
`// not a comment` , chars @lengthOf( crc
) // packet A { u8 x, }
,
// @lengthOf(
// `tick` ""quote"" 'q'
tag `u8 x,` , match x_y_z	as chars{// " ++ [128512]%N ++ runes_of_ascii " emoji
[ 65535 ,""x y""// a // b
,
    10	, 4294967296]: //x
repeatCount,
[ 255 ] // @lengthOf(
: i8i8,4294967296
    : metadata
, [ 10 , """", 255 ,0 , ""abc""
    , 10 ]  :rootA
    // @lengthOf(
    ,
[ ""1"" , ""1""
    ]
:uint8x , ["""" , 10
    // trailing space 
    ]
:
    options1 ,} ,  }packet trueish {uint16
i64_ , }
    packet zchar
    {Logon {
// " ++ [27880; 37322]%N ++ runes_of_ascii "
// @lengthOf(
match pack as
asx {[
1 ,// `tick` ""quote"" 'q'
10] : Logon , [7 ]: pack
, [
42,  ""// no comment"" ,
    7 ,00 ,65535
]
    : x
, //
""1""
: uint8x, """" :A 65535	:
u8x } ,
}  ,x `u8 x,`, @tag( 65535
) string stringy `say ""hi""`  , repeat uint16 leftPad `
` ,
match options1
as Foo
    { ""abc"" : falsey	,
3:	T
    ,}
,zchar[ 4294967296 ]
charz
    @lengthOf(	As) , i64 Packet , @lengthOf( MetaDataX ) @lengthOf( metadata	) @calculatedFrom( """ ++ [128512]%N ++ runes_of_ascii """ ) uint8 T @calculatedFrom( """ ++ [128512]%N ++ runes_of_ascii """ ) `" ++ [233]%N ++ runes_of_ascii "` , } // `tick` ""quote"" 'q'")).
Eval vm_compute in ("<<<M521>>>" ++ check (runes_of_ascii "// `tick` ""quote"" 'q'
packet msg_type {
    // c
    uint8 leftPad ,  } packet roots {@tag(  3 )
// a // b
// `tick` ""quote"" 'q'
string_ //x
@lengthOf(body )
,  Header@lengthOf( Z9_
//x
/// triple
) , repeat zchar[ 007 ] roots	,	string_
msg_type `crlf
line` , Logon // c
@lengthOf(	pack // c
)
`say ""hi""` ,@rightPad ( '\x00' )
@leftPad
    // a // b
    ( '0' )
    repeat u8 float `it's` /// triple
, @calculatedFrom( ""\n"" )	@lengthOf(  falsey // " ++ [128512]%N ++ runes_of_ascii " emoji
)
    msg_type{ match
Packet
    as tag
{[
    10 ,
007 //x
]
    :int , 4294967296
    : //
asx
,} ,
uint32 string_ @lengthOf(
    _x ) `two words`
    //x
    ,
    _x
    //
    , } ,	f32a {f32 body , uint16  u128 ,
matchKey	@lengthOf(Packet ) , } ,
repeat
    zchar[
0123456789 ] // a // b
float `say ""hi""` ,f32 i8i8 `{ , }`, } root packet	options1 {@tag( 0
    )
packetx
, repeat
float64 BodyLength , }
    options { Pad =
    // packet A { u8 x, }
    true
// a // b
/// triple
; crc = 007; // @lengthOf(
}
MetaData packetx{ roots  Packet  `tab	here` , // " ++ [128512]%N ++ runes_of_ascii " emoji
asx
    len , }

")).
Eval vm_compute in ("<<<M367>>>" ++ check (runes_of_ascii "
options {  Packet = ""packet""len
=
""packet"" ;
    charz =true} packet calculatedFrom// c
{
//	t
// a // b
repeat// " ++ [27880; 37322]%N ++ runes_of_ascii "
Packet, uint8x @calculatedFrom(
// @lengthOf(
// `tick` ""quote"" 'q'
""\n""
    ) , @calculatedFrom( ""// no comment""	)
@rightPad /// triple
(	' ') match
    x
//x
//	t
as Packet
{
00 : Pad [
0	] :// @lengthOf(
As , }
,
@lengthOf( chars )
a1 `it's` , match Logon as int { ""packet"": int [ """ ++ [28040; 24687]%N ++ runes_of_ascii """ ,0123456789 // trailing space 
, ""x y"" , 65535
    //	t
    ] : lengthOf, 10:asx, [  ""// no comment"" ] :  zchar, ""// no comment"": a1
//
// `tick` ""quote"" 'q'
, 0 :len
    ,} // " ++ [27880; 37322]%N ++ runes_of_ascii "
,
match u8x as
    MetaDataX
{
    [
255 ]
    :
string_ // packet A { u8 x, }
, [ ""// no comment"" ,	""CRC32""]: metadata,// packet A { u8 x, }
""a\""b""	:
    // " ++ [27880; 37322]%N ++ runes_of_ascii "
    leftPad }, Header `tab	here`, } packet u128 {
    char[10//x
] trueish `tab	here`, repeat asx {
match
len as chars {1 : MetaDataX ,
42 :
    roots ,
    10:
BodyLength,
""// no comment"" :
    o , ""a\\"" :	i64_ ,
    }
    ,	} ,
    }
")).
Eval vm_compute in ("<<<M3889>>>" ++ check (runes_of_ascii "
packet
	f32a
{	// c
    string len

    @lengthOf( As ) // " ++ [128512]%N ++ runes_of_ascii " emoji
    	`line1
line2`
,	zchar[
1  //x
]
	zchar
`{ , }`,
tag 

//
@lengthOf(rootA

    )
,	// c
	string
	x_y_z	`" ++ [28040; 24687; 31867; 22411]%N ++ runes_of_ascii "`	,
	}  packet

    crc

    { BodyLength@lengthOf(msg_type	)
	,
}

MetaData packetx	{}
	root
packet	lengthOf {  repeat uint32 
zchar
	, 	 // " ++ [27880; 37322]%N ++ runes_of_ascii "
  	T  {msg_type	// a // b
  { f32a{
    charz
    stringy	``	, uint16
u128
, i16
BodyLength
	@lengthOf(
	x
    )

, int8//
      metadata `tab	here`,
    }

    // c
  // trailing space 
,
repeat Packet
`doc`	,// packet A { u8 x, }
  int8
A
    @calculatedFrom(

""CRC32""), }	,
    Pad 
asx
,
    char[0
] 
repeatCount
,  } , u16  Z9_ `" ++ [233]%N ++ runes_of_ascii "`
,
@rightPad(
    // @lengthOf(
	'\x00'
) 
repeat

    Header  
      //	t

  // " ++ [27880; 37322]%N ++ runes_of_ascii "
  `line1
line2` ,@calculatedFrom(""\" ++ [233]%N ++ runes_of_ascii """)
    char[]

rootA
@calculatedFrom(
    ""// no comment""
	) `doc`	,// a // b
	calculatedFrom `a\`
	,
} 
packet
	As

{ 
} ")).
Eval vm_compute in ("<<<M604>>>" ++ check (runes_of_ascii "  packet MetaDataX
    { @calculatedFrom( """ ++ [233]%N ++ runes_of_ascii "t" ++ [233]%N ++ runes_of_ascii """ ) @calculatedFrom( ""x y"" ) match
    crc as A { 1 : As ,}
    ,
    }
options {  uint8x
    = false ;
} packet	Foo {@tag( 007 ) repeat	x repeatCount, match uint8x as	roots { ""{,}"":
Foo  , } , @tag( 10
    // " ++ [128512]%N ++ runes_of_ascii " emoji
    )int32	msg_type@lengthOf( rootA
    //	t
    ) , @calculatedFrom(	""a\""b"")@tag( 10 ) @lengthOf( msg_type )
A `// not a comment`
    , int64 asx @calculatedFrom(
""\" ++ [233]%N ++ runes_of_ascii """ ) , asx @calculatedFrom( ""a\\"" ) ,@calculatedFrom( ""\n""
) u64
// c
// " ++ [128512]%N ++ runes_of_ascii " emoji
stringy
    @calculatedFrom( ""CRC32"" ) `u8 x,`
    ,  @calculatedFrom(
""1"") @lengthOf(/// triple
string_ // `tick` ""quote"" 'q'
)//x
uint16 roots	@lengthOf(
u8x
) `" ++ [28040; 24687; 31867; 22411]%N ++ runes_of_ascii "` ,
}
    root packet //	t
len{ @calculatedFrom(
    // trailing space 
    ""CRC32"" ) @tag(
1)
repeat
    char[] Pad
,} options	{ Pad =
false ;
    string_ = uint16 ;
stringy //
=
string } // " ++ [128512]%N ++ runes_of_ascii " emoji")).
Eval vm_compute in ("<<<M8>>>" ++ check (runes_of_ascii "packet leftPad
    { @tag( 3 )
    @tag( // trailing space 
255 ) @tag( 7 ) Packet @calculatedFrom(
    ""\n"" )
    ,
    @calculatedFrom(
//x
/// triple
""abc""
)
    repeat
    f32a
    trueish `// not a comment` ,
    match
    /// triple
    calculatedFrom
as stringy { [	1
,
    // @lengthOf(
    65535 ] :
    u  ,}
// `tick` ""quote"" 'q'
/// triple
, zchar[ 10 ] o `` , @lengthOf(calculatedFrom
)
char x_y_z ,char[] BodyLength ,stringy o
`line1
line2` ,
@tag( 00 )options1  {// @lengthOf(
float32 asx
@lengthOf( roots ) ,
// " ++ [128512]%N ++ runes_of_ascii " emoji
// `tick` ""quote"" 'q'
match Z9_
as
int
    {""{,}""
: A [ // " ++ [27880; 37322]%N ++ runes_of_ascii "
""a\""b""  ,
""it's""
    ] :	repeatCount ,1 :
    float , ""a\\"": zchar// `tick` ""quote"" 'q'
[0 , ""abc"" ,0,  00,
0
    ,
""" ++ [128512]%N ++ runes_of_ascii """ ]: T
, 0123456789	: As , }
    , }, @lengthOf(
    msg_type ) i8
matchKey , repeat
len len `a\`
,	}")).
Eval vm_compute in ("<<<M3931>>>" ++ check (runes_of_ascii "  packet	a1 /// triple
    {
    @lengthOf(	As )	uint16 // " ++ [128512]%N ++ runes_of_ascii " emoji
	  matchKey `line1
line2` ,}options
{pack

    =
7  } packet 
    // " ++ [128512]%N ++ runes_of_ascii " emoji
    packetx { @calculatedFrom(

""packet""  )

    int8	metadata
	@lengthOf(

    metadata	) , @tag(	7 )

    lengthOf
	@lengthOf(u128  ) 	 // " ++ [128512]%N ++ runes_of_ascii " emoji

	, @rightPad
	(	)
	Header@lengthOf(
	msg_type) ``	,

leftPad ,}packet 
    // packet A { u8 x, }
  string_{

    }
packet

f32a {
@leftPad
( 
'0')

@leftPad

(
' '  
  /// triple

) @leftPad 
(

' ' )

x_y_z	{
char

    charz

@calculatedFrom(
    """"
)
    //	t
    	// trailing space 
      ,repeat
    rootA
    repeatCount , 
	// packet A { u8 x, }
  	repeat
    u128 f32a `// not a comment`
    ,	} ,

    // " ++ [27880; 37322]%N ++ runes_of_ascii "
      // trailing space 
} // packet A { u8 x, }")).
Eval vm_compute in ("<<<M1330>>>" ++ check (runes_of_ascii "  root	packet falsey
{  }
root packet x { asx ,
stringy { //x
f64 roots
, char[]// packet A { u8 x, }
chars@lengthOf( uint8x )
    // `tick` ""quote"" 'q'
    `
`
, }  , @lengthOf(len ) i8	MetaDataX@calculatedFrom( ""packet""
) , match MetaDataX
    as _x
{ 0
: uint8x
, }
,
// c
//x
@leftPad ( '\x00')uint16 // c
roots @calculatedFrom(""abc""
    // `tick` ""quote"" 'q'
    ) ,  @rightPad
    (
' ') int32
leftPad @calculatedFrom( ""packet"" /// triple
) `" ++ [233]%N ++ runes_of_ascii "`, }  options { falsey = 7
i64_
=int16// packet A { u8 x, }
len=
false
//x
// @lengthOf(
;	_x
='0';asx = """ ++ [28040; 24687]%N ++ runes_of_ascii """
    ; } options {
packetx =uint64
    ; len=
    true ;
} packet
tag // `tick` ""quote"" 'q'
{@leftPad ( )
    @calculatedFrom(
""abc"")
    int16 Pad @lengthOf( BodyLength  ) , //x
}
")).
Eval vm_compute in ("<<<M1099>>>" ++ check (runes_of_ascii "packet A
{ repeat//
Logon, match	falsey as
    len { ""x y""
: _x
10 : Packet
    1 : x ,
    }, string
_x , @calculatedFrom(
    // " ++ [27880; 37322]%N ++ runes_of_ascii "
    ""\" ++ [233]%N ++ runes_of_ascii """)
    char[
    10 ] leftPad  `doc`
    ,
    }
packet tag {@calculatedFrom(""" ++ [128512]%N ++ runes_of_ascii """ )	repeat  Logon { match
    a1 as asx {
[ 0123456789
, 3 ] : T , 1 : Foo ,// " ++ [27880; 37322]%N ++ runes_of_ascii "
[
42 ,
    42 ]
    // " ++ [27880; 37322]%N ++ runes_of_ascii "
    :  i64_	,
[007 //
]
:
Header , }
    , repeat zchar[ 0
] As, repeat char body
    ,
},} packet
    u
{ @calculatedFrom(
    """ ++ [233]%N ++ runes_of_ascii "t" ++ [233]%N ++ runes_of_ascii """ ) @calculatedFrom( // trailing space 
""abc""	)
    @tag(
00
    //x
    )	string_ ,
    repeat string crc
    , match
trueish as Foo {
// trailing space 
//
[10 , 255 ] : float
    } , match As as zchar{
    /// triple
    10:T } ,
//
//x
}")).
Eval vm_compute in ("<<<M4191>>>" ++ check (runes_of_ascii "
MetaData i64_
{ int
rootA
    /// triple
// @lengthOf(
    	,char[ 0

]A`{ , }`
    ,
	u128

    rootA  `doc`

    ,	// @lengthOf(
  	zchar[ 	 //x
  42 
]  i8i8 `it's` 
, 
	    /// triple
  char[ 
00
	] u,
zchar[0123456789]A`line1
line2` , 
} packet Z9_	{ @lengthOf(
pack ) @calculatedFrom( ""a\\""

    ) 
BodyLength@calculatedFrom(
""\" ++ [233]%N ++ runes_of_ascii """ )  ,	@rightPad
	( 
)	@tag(
	1	)@lengthOf(
	i8i8
	)

    char[] 
trueish 
,

    f32a
@calculatedFrom( """ ++ [28040; 24687]%N ++ runes_of_ascii """ 
)
	`u8 x,` 
, 
@tag(
/// triple
65535
)

string

trueish
    ,
	}
packet BodyLength {
stringy	@lengthOf( Z9_ )

    ,	char[

007
	] 
metadata
@calculatedFrom( 

/// triple
    // @lengthOf(
""""
) `" ++ [233]%N ++ runes_of_ascii "`
	,
    }
")).
Eval vm_compute in ("<<<M4078>>>" ++ check (runes_of_ascii "

  packet
body

    {@tag( 
00
    ) zchar[
    255
] 

//	t
  // `tick` ""quote"" 'q'
zchar@calculatedFrom(
    ""it's"")
	, int8
i8i8 
,
	x_y_z
@lengthOf( 
options1  ),
    // packet A { u8 x, }

zchar[00  ]T  ,
	repeat 
float64
	chars
, 
f64	repeatCount
    `doc`
,
repeat	i64_

    repeatCount	, repeat
Header

    int 
,
uint16
	len
	`line1
line2` , @lengthOf(
	Header )
@tag(0123456789
) float64 u8x@lengthOf(  options1 )
	`u8 x,`

    ,}
	options{ 
x

=	""\" ++ [233]%N ++ runes_of_ascii """  ;	} 
    // " ++ [128512]%N ++ runes_of_ascii " emoji
		MetaData 
trueish{options1
float
``	, // a // b
	zchar[  3 
] lengthOf
,
}options

    { rootA 
=
""1""

    T =
	""" ++ [128512]%N ++ runes_of_ascii """
}

")).
Eval vm_compute in ("<<<M359>>>" ++ check (runes_of_ascii "  root
    packet o
{ a1 a1	, char[
3 ] i8i8 `
` , @calculatedFrom( ""a\""b"" )// packet A { u8 x, }
repeat /// triple
Pad
    , }
// `tick` ""quote"" 'q'
// `tick` ""quote"" 'q'
packet
    tag{ i8i8 @calculatedFrom( ""x y"" )
`it's`
, @lengthOf(x_y_z
) @calculatedFrom(
//
//	t
""a\""b""
    ) u {
match	a1 as
    Logon { ""\n"" : Pad
,3
:	body , """"
:// `tick` ""quote"" 'q'
Logon ,
""\n"" : T
, ""`tick`""
:
    tag ,
[ """ ++ [233]%N ++ runes_of_ascii "t" ++ [233]%N ++ runes_of_ascii """/// triple
,
7,
""a\""b""	, 0123456789
,""abc"" , """ ++ [28040; 24687]%N ++ runes_of_ascii """ ,0 ] : Z9_
    },
    char[ 00  ]//
string_@lengthOf( asx ), char[
    1 ]falsey , } ,match	crc
as
    lengthOf {
    4294967296 : a1
}, }
")).
Eval vm_compute in ("<<<M3618>>>" ++ check (runes_of_ascii "// top
options
    // c0
{
    // c1
StringPrefixLenType
    // c2
= // c3
u16 // c4
;
    // c5
FixedStringPadChar
    // c6
=
    // c7
' ' // c8
; // c9a
  // c9b
} // c10a
  // c10b
packet
    // c11
Party
    // c12
{ // c13
}
    // c14
packet
    // c15
Quote {
    // c17
repeat // c18
Party
    // c19
, repeat
    // c21
char[
    // c22
2 ] f1
    // c25
, } // c27a
  // c27b
packet
    // c28
Logon { // c30a
  // c30b
} // c31a
  // c31b
root packet // c33a
  // c33b
Cancel // c34
{
    // c35
uint16
    // c36
x // c37
, // c38
zchar[ // c39
6 ] f1 , // c43
} ")).
Eval vm_compute in ("<<<M839>>>" ++ check (runes_of_ascii "options {
uint8x =	true	;	calculatedFrom= '\x00'options1 = // @lengthOf(
""`tick`"" ;
    Header=false ; } root  packet MetaDataX {i16
// c
// `tick` ""quote"" 'q'
A `" ++ [28040; 24687; 31867; 22411]%N ++ runes_of_ascii "`,T
// trailing space 
// trailing space 
Logon,repeat// c
char[ 65535 ] packetx
`tab	here`,
//
//x
@tag(
65535
    )
char[
007] u8x ,
repeat u128 `a\`
, @lengthOf( Pad)  @lengthOf( u8x )
pack @lengthOf(
    pack)
,repeat zchar[
0 ]chars
,zchar[ 65535/// triple
]
T , } options { i8i8 =""CRC32""; metadata = '0'
; // " ++ [128512]%N ++ runes_of_ascii " emoji
lengthOf
    =  '0' ;
}
MetaData float { uint8 int , }
")).
Eval vm_compute in ("<<<M4476>>>" ++ check (runes_of_ascii "

  // @lengthOf(
    	MetaData msg_type
    // `tick` ""quote"" 'q'
  // @lengthOf(
    { 
string
Logon  , i8
repeatCount
`// not a comment` ,  } packet
i64_ { 

    // c
	@leftPad
    (

    '0'
)  repeat
	repeatCount`u8 x,`

,	Header { // " ++ [27880; 37322]%N ++ runes_of_ascii "
  A{
uint32
T

    `crlf
line`
,
} ,	},}MetaData
	Header	// " ++ [27880; 37322]%N ++ runes_of_ascii "
	{
Header
	u

    `doc`
	, 
  // " ++ [27880; 37322]%N ++ runes_of_ascii "
char[ 4294967296 ]
u128  ,	float32
falsey
	, char[ 10
]

    roots
`crlf
line`,	int64 calculatedFrom 
`say ""hi""` 
,

    }
    root
packet i64_{	/// triple
		}
")).
Eval vm_compute in ("<<<M3969>>>" ++ check (runes_of_ascii "options {
    falsey = ""abc"";
    roots = '0';
    MetaDataX = '0';//
    crc = 42// a // b
    x = '0';
}

packet A {
    repeat uint64 u128,
    @tag(65535)
    int16 options1 `line1
        line2`,
}

options {
    // packet A { u8 x, }
    int = ""// no comment""
    msg_type = zchar[0123456789];
    calculatedFrom = u8;
    asx = """ ++ [28040; 24687]%N ++ runes_of_ascii """;
    body = 10
}

options {
    charz = true
    metadata = char[];
    Packet = true
}

packet Logon {
    @calculatedFrom(""" ++ [128512]%N ++ runes_of_ascii """)
    repeat packetx rootA,
}")).
Eval vm_compute in ("<<<M600>>>" ++ check (runes_of_ascii "packet x_y_z{ @calculatedFrom( """ ++ [128512]%N ++ runes_of_ascii """ )match a1	as MetaDataX { // a // b
""" ++ [128512]%N ++ runes_of_ascii """ :
    u8x , [	""" ++ [28040; 24687]%N ++ runes_of_ascii """ ] :asx 255 : falsey , [ 007
]
:
stringy
    10: chars /// triple
, } , string_
{ char[ 4294967296 ] packetx, }, } // trailing space 
root packet
    u128 { calculatedFrom MetaDataX`crlf
line`	, repeat leftPad x_y_z
    //
    ,} packet BodyLength {
char Pad @lengthOf( uint8x ) `" ++ [233]%N ++ runes_of_ascii "` ,@tag(
    42  )  @calculatedFrom( """ ++ [28040; 24687]%N ++ runes_of_ascii """)
    repeat charz ,chars @calculatedFrom(	""" ++ [233]%N ++ runes_of_ascii "t" ++ [233]%N ++ runes_of_ascii """
    ) , }")).
Eval vm_compute in ("<<<M1375>>>" ++ check (runes_of_ascii "
root
    packet _x
    { }
    /// triple
    root packet // `tick` ""quote"" 'q'
rootA
{
    @lengthOf( msg_type
)
    @calculatedFrom( ""a	b""
    ) Z9_ { repeat char[]msg_type `two words` , }, }
options {Logon = 7 ; u8x = '0' len =
'\x00' Foo	=
    10 ; } MetaData leftPad
    {// @lengthOf(
Packet
i8i8 `a\`
,
msg_type
    int// " ++ [27880; 37322]%N ++ runes_of_ascii "
`line1
line2`
// @lengthOf(
/// triple
,
uint8x
i8i8
    `it's`
    ,BodyLength repeatCount ,// packet A { u8 x, }
}
")).
Eval vm_compute in ("<<<M3702>>>" ++ check (runes_of_ascii "options {
    int = 7;
    float = int64;
    /// triple
    // a // b
    stringy = 3
    rootA = ""CRC32""
    x = true// " ++ [128512]%N ++ runes_of_ascii " emoji
}

options {
    A = uint16;
    metadata = ""1""
    // trailing space 
    // `tick` ""quote"" 'q'
    packetx = 10// " ++ [128512]%N ++ runes_of_ascii " emoji
}

MetaData Packet {
    T int `u8 x,`,
    o _x,
    falsey chars,
}

root packet string_ {
    packetx Pad `a\`,
    trueish x_y_z,
    body,
    repeat char[3] options1 `it's`,
}")).
Eval vm_compute in ("<<<M1260>>>" ++ check (runes_of_ascii "
packet As { repeat string
    Logon `two words` , @calculatedFrom( """" ) zchar[ 7 ]chars`crlf
line` ,@rightPad (
    '\x00' ) repeat len
u , uint16 // " ++ [27880; 37322]%N ++ runes_of_ascii "
options1
    , } packet
u
    { @leftPad
    ( ' ' ) repeat a1 packetx, u32 a1 @calculatedFrom( """ ++ [128512]%N ++ runes_of_ascii """
    ) , }packet As { repeat float32 options1
    `doc`, repeat float32
// trailing space 
// trailing space 
x_y_z
,@calculatedFrom( """ ++ [28040; 24687]%N ++ runes_of_ascii """
)u16
    int`a\` , }")).
Eval vm_compute in ("<<<M78>>>" ++ check (runes_of_ascii "packet stringy
{  @calculatedFrom(""a	b""
)uint8x,}
// @lengthOf(
// @lengthOf(
root packet  i8i8
{ @lengthOf( options1
) @tag( 0 )
    repeat
metadata _x `" ++ [233]%N ++ runes_of_ascii "`	, repeat
i8i8`
` // a // b
,
repeat  char[ //x
3 ]o , // " ++ [128512]%N ++ runes_of_ascii " emoji
@calculatedFrom(""a	b""
) repeat
    u16 x `doc`
,string_
`tab	here`  , @calculatedFrom(
    """ ++ [233]%N ++ runes_of_ascii "t" ++ [233]%N ++ runes_of_ascii """)@tag(	4294967296)
repeat Logon stringy , } root
    packet
    tag { }")).
Eval vm_compute in ("<<<M3882>>>" ++ check (runes_of_ascii "root

    packet
	u128 {
match zchar

as

    msg_type // `tick` ""quote"" 'q'
	{
7 
	    //	t
  	:
lengthOf

    , 0123456789 :
	MetaDataX	""{,}""

:o  ,255  
  // trailing space 
  //
  : 	 //
	metadata ,
[
1 
] :
	A ,

    [

    007 ,""a\\""  ,0123456789

, 
255 ,
""\" ++ [233]%N ++ runes_of_ascii """
,

007 ] 
:

// `tick` ""quote"" 'q'
  	// packet A { u8 x, }
  falsey
,
    }

,	}	// a // b
")).
Eval vm_compute in ("<<<M797>>>" ++ check (runes_of_ascii "packet lengthOf {
    @lengthOf( zchar//x
)char[]// trailing space 
metadata  , @tag(
10 ) string leftPad
,
@lengthOf(i8i8  )//
@leftPad
    //x
    (
'\x00')
    repeat Packet `a\`
, options1 { float
@calculatedFrom( ""it's""), repeat
    calculatedFrom
    i64_	,	}
, uint8 A @lengthOf( leftPad
) `two words`
,
} MetaData repeatCount { }MetaData u8x
{}
")).
Eval vm_compute in ("<<<M4274>>>" ++ check (runes_of_ascii "packet chars {
    @leftPad()
    char[42] asx,
    @tag(007)
    matchKey As,
    @leftPad('\x00')
    msg_type `u8 x,`,
    repeat charz {
        int64 f32a,
        Header {
            u32 MetaDataX,
            char[3] repeatCount @calculatedFrom(""packet"") `tab	here`,
            repeat f64 Logon `
            `,
        },
    },
}//	t")).
Eval vm_compute in ("<<<M3784>>>" ++ check (runes_of_ascii "
packet
	zchar	{

    char[]

i64_  , 

    // " ++ [128512]%N ++ runes_of_ascii " emoji
@calculatedFrom( ""// no comment""

    )

match

charz as
tag
{ [  ""it's""  ,
4294967296 ,  /// triple
""a	b"", """ ++ [28040; 24687]%N ++ runes_of_ascii """ ,""" ++ [128512]%N ++ runes_of_ascii """
	,
    255
,
	007

] // packet A { u8 x, }
    : i64_  ,
[0123456789	,3
,00 ]

    : // `tick` ""quote"" 'q'
  Packet

, 
[ """ ++ [233]%N ++ runes_of_ascii "t" ++ [233]%N ++ runes_of_ascii """ ] 
:
a1	,

} , 
}
")).
Eval vm_compute in ("<<<M1986>>>" ++ check (runes_of_ascii "MetaData
    u { }  options {
// c
// @lengthOf(
float = int8 ;rootA =false ; As =	int16 // `tick` ""quote"" 'q'
repeatCount
    // trailing space 
    =
    int16
; u8x =
    //	t
    '\x00' ; } options options	{
    repeatCount
= 0
u128
    //
    = false ; i64_
// trailing space 
// `tick` ""quote"" 'q'
= '0' ; //	t
}
")).
Eval vm_compute in ("<<<M2003>>>" ++ check (runes_of_ascii "MetaData
    u { }  options {
// c
// @lengthOf(
float = int8 ;rootA =false ; As =	int16 // `tick` ""quote"" 'q'
repeatCount
    // trailing space 
    =
    int16
; u8x =
    //	t
    '\x00' ; } options	{
    repeatCount
@tag( 0
u128
    //
    = false ; i64_
// trailing space 
// `tick` ""quote"" 'q'
= '0' ; //	t
}
")).
Eval vm_compute in ("<<<M2008>>>" ++ check (runes_of_ascii "MetaData
    u { }  options {
// c
// @lengthOf(
float = int8 ;rootA =false ; As =	int16 // `tick` ""quote"" 'q'
repeatCount
    // trailing space 
    =
    int16
; u8x =
    //	t
    '\x00' ; } options	{
    repeatCount
= f64
u128
    //
    = false ; i64_
// trailing space 
// `tick` ""quote"" 'q'
= '0' ; //	t
}
")).
Eval vm_compute in ("<<<M1862>>>" ++ check (runes_of_ascii "MetaData
    { u }  options {
// c
// @lengthOf(
float = int8 ;rootA =false ; As =	int16 // `tick` ""quote"" 'q'
repeatCount
    // trailing space 
    =
    int16
; u8x =
    //	t
    '\x00' ; } options	{
    repeatCount
= 0
u128
    //
    = false ; i64_
// trailing space 
// `tick` ""quote"" 'q'
= '0' ; //	t
}
")).
Eval vm_compute in ("<<<M2007>>>" ++ check (runes_of_ascii "MetaData
    u { }  options {
// c
// @lengthOf(
float = int8 ;rootA =false ; As =	int16 // `tick` ""quote"" 'q'
repeatCount
    // trailing space 
    =
    int16
; u8x =
    //	t
    '\x00' ; } options	{
    repeatCount
= u128
0
    //
    = false ; i64_
// trailing space 
// `tick` ""quote"" 'q'
= '0' ; //	t
}
")).
Eval vm_compute in ("<<<M2025>>>" ++ check (runes_of_ascii "MetaData
    u { }  options {
// c
// @lengthOf(
float = int8 ;rootA =false ; As =	int16 // `tick` ""quote"" 'q'
repeatCount
    // trailing space 
    =
    int16
; u8x =
    //	t
    '\x00' ; } options	{
    repeatCount
= 0
u128
    //
    = false  i64_
// trailing space 
// `tick` ""quote"" 'q'
= '0' ; //	t
}
")).
Eval vm_compute in ("<<<M3890>>>" ++ check (runes_of_ascii "
options

{ LittleEndian  =

true

;StringPrefixLenType
=

    u8;
    ArrayPrefixLenType 
=	u8 ;
    }

packet
	Ack 
{}root
packet Quote

    {
    Ack, InSym94 {repeat

Ack  ,

}
, u16	msgKind ,
u16 OrderId@lengthOf( Body
	)
	,	match
msgKind 
as	Body {

    [110

    ,48
	]  :
Ack,
}
,
}

")).
Eval vm_compute in ("<<<M433>>>" ++ check (runes_of_ascii "packet
rootA {@lengthOf(	A ) @leftPad (
    '0' )@lengthOf( _x ) char[ 0
]
// `tick` ""quote"" 'q'
// a // b
len , } root packet
    _x
{ @lengthOf( MetaDataX
) u16 x
`say ""hi""` , match
    string_ as Foo{ 42  :
string_
    ,
00: T , },char[]
trueish ,repeat calculatedFrom // c
x_y_z , // a // b
}")).
Eval vm_compute in ("<<<M3425>>>" ++ check (runes_of_ascii "// top
packet
    // c0
o
    // c1
{
    // c2
repeat
    // c3
Logon
    // c4
uint8x
    // c5
,
    // c6
}
    // c7
options
    // c8
{
    // c9
asx
    // c10
=
    // c11
zchar[
    // c12
3
    // c13
]
    // c14
stringy
    // c15
=
    // c16
'\x00'
    // c17
}
    // c18
")).
Eval vm_compute in ("<<<M116>>>" ++ check (runes_of_ascii "packet string_ { trueish
{options1 @lengthOf( Z9_ ) `// not a comment` , // c
_x
    //	t
    @lengthOf( u128), /// triple
match packetx as charz{[
1 , 3 ,
""a\\"" //x
,10 ] : lengthOf ,
""" ++ [28040; 24687]%N ++ runes_of_ascii """
:float	""CRC32"" : // a // b
calculatedFrom
, """ ++ [128512]%N ++ runes_of_ascii """ : tag , 00
:
rootA, }
    ,} ,}")).
Eval vm_compute in ("<<<M749>>>" ++ check (runes_of_ascii "
MetaData o{ char[]BodyLength
,
}
    options
    { Foo=uint32 i8i8  = char[ 10
    ];
    Logon =  true i64_= string ;
    }root
//
// @lengthOf(
packet a1
{ i8i8
`tab	here` , @calculatedFrom( ""a	b""
    ) string calculatedFrom
    @calculatedFrom( ""abc"" )	``
, }
")).
Eval vm_compute in ("<<<M963>>>" ++ check (runes_of_ascii "packet falsey {
    // a // b
    char[]x_y_z @lengthOf(  u ) `two words` , } MetaData Packet
{
    char[
3  ] rootA `line1
line2`
,
    string
    A ,
} root packet string_ {uint8
calculatedFrom  @lengthOf( u128 )
`line1
line2`, char[ 3] Z9_ ,float , }
")).
Eval vm_compute in ("<<<M1538>>>" ++ check (runes_of_ascii "packet
//	t
// trailing space 
_x {
// packet A { u8 x, }
// c
char[
3
    ] u8x @lengthOf(
u8x ) , , @calculatedFrom(""" ++ [128512]%N ++ runes_of_ascii """ // @lengthOf(
)
i16	Foo
@lengthOf(	string_
    )`doc`	, repeat	i64 metadata , @lengthOf( string_
) i8 // c
u  `line1
line2`	,
}
")).
Eval vm_compute in ("<<<M418>>>" ++ check (runes_of_ascii "/// triple
root
packet Logon{@calculatedFrom(	""CRC32""	) uint8x {
roots pack  `line1
line2`,},
    string u
    ,  }packet body {
uint64 Logon ,
}
    root packet lengthOf { } packet A {u32 pack // `tick` ""quote"" 'q'
@calculatedFrom(// c
""" ++ [128512]%N ++ runes_of_ascii """ ) ,
    }")).
Eval vm_compute in ("<<<M1610>>>" ++ check (runes_of_ascii "packet
//	t
// trailing space 
_x {
// packet A { u8 x, }
// c
char[
3
    ] u8x @lengthOf(
u8x ) , @calculatedFrom(""" ++ [128512]%N ++ runes_of_ascii """ // @lengthOf(
)
i16	Foo
@lengthOf(	string_
    )`doc`	, repeat	i64 metadata ; @lengthOf( string_
) i8 // c
u  `line1
line2`	,
}
")).
Eval vm_compute in ("<<<M1492>>>" ++ check (runes_of_ascii "packet
//	t
// trailing space 
 {
// packet A { u8 x, }
// c
char[
3
    ] u8x @lengthOf(
u8x ) , @calculatedFrom(""" ++ [128512]%N ++ runes_of_ascii """ // @lengthOf(
)
i16	Foo
@lengthOf(	string_
    )`doc`	, repeat	i64 metadata , @lengthOf( string_
) i8 // c
u  `line1
line2`	,
}
")).
Eval vm_compute in ("<<<M1572>>>" ++ check (runes_of_ascii "packet
//	t
// trailing space 
_x {
// packet A { u8 x, }
// c
char[
3
    ] u8x @lengthOf(
u8x ) , @calculatedFrom(""" ++ [128512]%N ++ runes_of_ascii """ // @lengthOf(
)
i16	Foo
@lengthOf(	
    )`doc`	, repeat	i64 metadata , @lengthOf( string_
) i8 // c
u  `line1
line2`	,
}
")).
Eval vm_compute in ("<<<M1637>>>" ++ check (runes_of_ascii "packet
//	t
// trailing space 
_x {
// packet A { u8 x, }
// c
char[
3
    ] u8x @lengthOf(
u8x ) , @calculatedFrom(""" ++ [128512]%N ++ runes_of_ascii """ // @lengthOf(
)
i16	Foo
@lengthOf(	string_
    )`doc`	, repeat	i64 metadata , @lengthOf( string_
) i8 // c
u  	,
}
")).
Eval vm_compute in ("<<<M993>>>" ++ check (runes_of_ascii "packet Logon { repeat
    u64
a1
    //
    `u8 x,`,uint16 string_ @lengthOf( BodyLength )
, @tag( 7 ) @tag( 7 )@rightPad
    (' '
) metadata ,
    repeat	char[ 007 ] Foo
// `tick` ""quote"" 'q'
// trailing space 
`u8 x,` , }

")).
Eval vm_compute in ("<<<M4420>>>" ++ check (runes_of_ascii "options {
    x_y_z = f64
}// " ++ [27880; 37322]%N ++ runes_of_ascii "

root packet As {
    @tag(255)
    string BodyLength,
    @leftPad()
    match Foo as body {
        007 : i8i8,
        42 : metadata,
        // @lengthOf(
        """" : body,
    },
}")).
Eval vm_compute in ("<<<M1719>>>" ++ check (runes_of_ascii "options { trueish = ""`tick`"" ; string_= """ ++ [233]%N ++ runes_of_ascii "t" ++ [233]%N ++ runes_of_ascii """
    // c
    MetaDataX root
    packet body { stringy @calculatedFrom(
""a	b"" ) `line1
line2` , }
packet Logon {
    @leftPad(
    ' ' ) //	t
u16 string_ `u8 x,` ,
}
")).
Eval vm_compute in ("<<<M1709>>>" ++ check (runes_of_ascii "options { trueish = ""`tick`"" ; string_""abc"" """ ++ [233]%N ++ runes_of_ascii "t" ++ [233]%N ++ runes_of_ascii """
    // c
    } root
    packet body { stringy @calculatedFrom(
""a	b"" ) `line1
line2` , }
packet Logon {
    @leftPad(
    ' ' ) //	t
u16 string_ `u8 x,` ,
}
")).
Eval vm_compute in ("<<<M1842>>>" ++ check (runes_of_ascii "options { truei''sh = ""`tick`"" ; string_= """ ++ [233]%N ++ runes_of_ascii "t" ++ [233]%N ++ runes_of_ascii """
    // c
    } root
    packet body { stringy @calculatedFrom(
""a	b"" ) `line1
line2` , }
packet Logon {
    @leftPad(
    ' ' ) //	t
u16 string_ `u8 x,` ,
}
")).
Eval vm_compute in ("<<<M1713>>>" ++ check (runes_of_ascii "options { trueish = ""`tick`"" ; string_= }
    // c
    """ ++ [233]%N ++ runes_of_ascii "t" ++ [233]%N ++ runes_of_ascii """ root
    packet body { stringy @calculatedFrom(
""a	b"" ) `line1
line2` , }
packet Logon {
    @leftPad(
    ' ' ) //	t
u16 string_ `u8 x,` ,
}
")).
Eval vm_compute in ("<<<M1676>>>" ++ check (runes_of_ascii "options  trueish = ""`tick`"" ; string_= """ ++ [233]%N ++ runes_of_ascii "t" ++ [233]%N ++ runes_of_ascii """
    // c
    } root
    packet body { stringy @calculatedFrom(
""a	b"" ) `line1
line2` , }
packet Logon {
    @leftPad(
    ' ' ) //	t
u16 string_ `u8 x,` ,
}
")).
Eval vm_compute in ("<<<M1616>>>" ++ check (runes_of_ascii "packet
//	t
// trailing space 
_x {
// packet A { u8 x, }
// c
char[
3
    ] u8x @lengthOf(
u8x ) , @calculatedFrom(""" ++ [128512]%N ++ runes_of_ascii """ // @lengthOf(
)
i16	Foo
@lengthOf(	string_
    )`doc`	, repeat	i64 metadata ,")).
Eval vm_compute in ("<<<M1791>>>" ++ check (runes_of_ascii "options { trueish = ""`tick`"" ; string_= """ ++ [233]%N ++ runes_of_ascii "t" ++ [233]%N ++ runes_of_ascii """
    // c
    } root
    packet body { stringy @calculatedFrom(
""a	b"" ) `line1
line2` , }
packet Logon {
    (
    ' ' ) //	t
u16 string_ `u8 x,` ,
}
")).
Eval vm_compute in ("<<<M3590>>>" ++ check (runes_of_ascii "// top
packet // c0
orderItem // c1a
  // c1b
{ u8 // c3
a // c4
, } // c6
root
    // c7
packet // c8a
  // c8b
newOrder // c9
{
    // c10
orderItem , // c12a
  // c12b
u8
    // c13
x , } ")).
Eval vm_compute in ("<<<M4086>>>" ++ check (runes_of_ascii "options {
    trueish = ""`tick`"";
    string_ = """ ++ [233]%N ++ runes_of_ascii "t" ++ [233]%N ++ runes_of_ascii """
}

root packet body {
    stringy @calculatedFrom(""a	b""),
}

packet Logon {
    @leftPad(' ')
    //	t
    u16 string_ `u8 x,`,
}")).
Eval vm_compute in ("<<<M1591>>>" ++ check (runes_of_ascii "packet
//	t
// trailing space 
_x {
// packet A { u8 x, }
// c
char[
3
    ] u8x @lengthOf(
u8x ) , @calculatedFrom(""" ++ [128512]%N ++ runes_of_ascii """ // @lengthOf(
)
i16	Foo
@lengthOf(	string_
    )`doc`")).
Eval vm_compute in ("<<<M384>>>" ++ check (runes_of_ascii "
options{ }MetaData len {	crc Foo,
    char[]
x_y_z `// not a comment` ,  } options  {a1= """ ++ [128512]%N ++ runes_of_ascii """ ; _x  =
0123456789 _x =
true u8x
    = ""packet"" trueish=string// " ++ [27880; 37322]%N ++ runes_of_ascii "
;} //")).
Eval vm_compute in ("<<<M3673>>>" ++ check (runes_of_ascii "packet A {
    match k as n {
        [
            22, 4, 66, 8, 10,
            ""a"", ""c c"", ""e"", ""g"", ""i"",
            ""k""
        ] : B,
        2 : C,
    },
}")).
Eval vm_compute in ("<<<M234>>>" ++ check (runes_of_ascii "options
{ f32a= zchar[3
//
// c
]
// " ++ [128512]%N ++ runes_of_ascii " emoji
//	t
}	packet falsey
{
Z9_ ,body
    @calculatedFrom( //
""\n""
// packet A { u8 x, }
// c
)
    ,} options { }
")).
Eval vm_compute in ("<<<M2370>>>" ++ check (runes_of_ascii "// c
packet x { @lengthOf( metadata ) repeat lengthOf
,a1{
trueish	,// c
repeat//	t
MetaDataX , } , zchar[
    42	] rootA // `tick` ""quote"" 'q'
,
    true
")).
Eval vm_compute in ("<<<M2314>>>" ++ check (runes_of_ascii "// c
packet x { @lengthOf( metadata ) repeat lengthOf
,a1 trueish
{	,// c
repeat//	t
MetaDataX , } , zchar[
    42	] rootA // `tick` ""quote"" 'q'
,
    }
")).
Eval vm_compute in ("<<<M2334>>>" ++ check (runes_of_ascii "// c
packet x { @lengthOf( metadata ) repeat lengthOf
,a1{
trueish	,// c
repeat//	t
MetaDataX , } , zchar[
    42	] , // `tick` ""quote"" 'q'
rootA
    }
")).
Eval vm_compute in ("<<<M2354>>>" ++ check (runes_of_ascii "// c
packet x { @lengthOf( metadata ) char[ lengthOf
,a1{
trueish	,// c
repeat//	t
MetaDataX , } , zchar[
    42	] rootA // `tick` ""quote"" 'q'
,
    }
")).
Eval vm_compute in ("<<<M2171>>>" ++ check (runes_of_ascii "options{
_x
= true
} options
{ o	= /// triple
false
    ; chars
= ""\n"" } root packet	Pad
/// triple
// packet A { u8 x, }
chars	{
    // a // b
    ,}")).
Eval vm_compute in ("<<<M2127>>>" ++ check (runes_of_ascii "options{
_x
= true
} options
{ o	= /// triple
u64
    ; chars
= ""\n"" } root packet	Pad
/// triple
// packet A { u8 x, }
{	chars
    // a // b
    ,}")).
Eval vm_compute in ("<<<M4551>>>" ++ check (runes_of_ascii "root packet BodyLength {
    @lengthOf(asx)
    repeat char[007] matchKey,
    char[] MetaDataX @lengthOf(Foo) `tab	here`,
    repeat uint64 f32a,
}")).
Eval vm_compute in ("<<<M4343>>>" ++ check (runes_of_ascii "root packet x_y_z {
    @lengthOf(_x)
    _x @lengthOf(trueish),
}

packet BodyLength {
}

MetaData a1 {
    Pad repeatCount,
    i16 zchar ``,
}")).
Eval vm_compute in ("<<<M4449>>>" ++ check (runes_of_ascii "packet A {
    match k as n {
        [
            1, 22, 4, 5, 7,
            8, 10, ""c c"", ""f"", ""i""
        ] : B,
        2 : C,
    },
}")).
Eval vm_compute in ("<<<M3360>>>" ++ check (runes_of_ascii "// top
packet // c0
x // c1
{ // c2
@rightPad // c3
( // c4
) // c5
repeat // c6
roots // c7
Logon // c8
`doc` // c9
, // c10
} // c11
")).
Eval vm_compute in ("<<<M698>>>" ++ check (runes_of_ascii "MetaData Z9_ {
    } packet lengthOf {
@tag(
    00	) u32
trueish , // trailing space 
repeat string roots
`doc`	,
} // " ++ [128512]%N ++ runes_of_ascii " emoji")).
Eval vm_compute in ("<<<M4269>>>" ++ check (runes_of_ascii "// c
root packet matchKey {
    zchar[3] pack @calculatedFrom(""a	b"") `doc`,
}

options {
}

MetaData A {
    int8 msg_type,
}")).
Eval vm_compute in ("<<<M1154>>>" ++ check (runes_of_ascii "packet MetaDataX
{repeat tag
    i64_
,@calculatedFrom(
    ""packet"")
    // trailing space 
    Packet	`tab	here`
    , }")).
Eval vm_compute in ("<<<M3325>>>" ++ check (runes_of_ascii "root packet matchKey { zchar[ 3 ]
// c
pack @calculatedFrom( ""a	b"" ) `doc` , } options { } MetaData A { int8 msg_type , }")).
Eval vm_compute in ("<<<M3357>>>" ++ check (runes_of_ascii "root packet matchKey { zchar[ 3 ] pack @calculatedFrom( ""a	b"" ) `doc` , } options { } MetaData A { int8 msg_type ,
// c
}")).
Eval vm_compute in ("<<<M1480>>>" ++ check (runes_of_ascii "
packet
    falsey { Header@calculatedFrom(""packet""  ) , char[
    0123456789 ] pa<cketx
    , } // `tick` ""quote"" 'q'")).
Eval vm_compute in ("<<<M4080>>>" ++ check (runes_of_ascii "packet A {
    Inner {
        u8 x `
        `,
        Deep {
            u8 y `
            `,
        },
    },
}")).
Eval vm_compute in ("<<<M4523>>>" ++ check (runes_of_ascii "packet a1 {
}

options {
    MetaDataX = ""`tick`""
    uint8x = false;
    f32a = zchar[00];
}// `tick` ""quote"" 'q'")).
Eval vm_compute in ("<<<M257>>>" ++ check (runes_of_ascii "options
{ u // a // b
=42 x_y_z
    =' ' ;msg_type =
    true ; u
=10 ;  } options { zchar =
uint8
;  } // c")).
Eval vm_compute in ("<<<M3665>>>" ++ check (runes_of_ascii "
options

    {

} options {BodyLength

    = 
u16  Header

    =
	f64 ;u128
= true

; }  // a // 
")).
Eval vm_compute in ("<<<M1248>>>" ++ check (runes_of_ascii "root packet Packet { @rightPad ( ' '  )
int8
//
// `tick` ""quote"" 'q'
rootA // a // b
, char[]i8i8 , } 	 ")).
Eval vm_compute in ("<<<M2997>>>" ++ check (runes_of_ascii "packet A {
  match k as n {
    [1, 22, ""c c"", 4, 5, ""f"", 7, 8, ""i"", 10, 11, ""l""] : B
    2 : C
  },
}")).
Eval vm_compute in ("<<<M4306>>>" ++ check (runes_of_ascii "packet o {
    repeat Logon uint8x,
}

options {
    asx = zchar[3]
    // c
    stringy = '\x00'
}")).
Eval vm_compute in ("<<<M2960>>>" ++ check (runes_of_ascii "packet A {
  match k as n {
    [""a"", ""bb"", 007, ""d"", ""e"", 66, ""g"", ""h"", 9] : B
    2 : C
  },
}")).
Eval vm_compute in ("<<<M128>>>" ++ check (runes_of_ascii "MetaData msg_type
    { char[]
    int
    ,  char[ 255 ]
o ,
    // `tick` ""quote"" 'q'
    }")).
Eval vm_compute in ("<<<M2274>>>" ++ check (runes_of_ascii "options
{ } options { BodyLength= u16 Header= f64 ; u128 string
    true
    ; } // a // b")).
Eval vm_compute in ("<<<M2254>>>" ++ check (runes_of_ascii "options
{ } options { BodyLength= u16 Header""\" ++ [233]%N ++ runes_of_ascii """ f64 ; u128 =
    true
    ; } // a // b")).
Eval vm_compute in ("<<<M3293>>>" ++ check (runes_of_ascii "MetaData float { float64 charz `
` , } root packet chars { @rightPad // c
( '0' ) Foo , }")).
Eval vm_compute in ("<<<M3504>>>" ++ check (runes_of_ascii "packet chars { } packet MetaDataX { @tag( 42 )
// c
i16 string_ , repeat x `say ""hi""` , }")).
Eval vm_compute in ("<<<M2304>>>" ++ check (runes_of_ascii "options
{ } options { BodyLength= u16 Header= f64 ; u128 =
    true
    ; "" } // a // b")).
Eval vm_compute in ("<<<M3247>>>" ++ check (runes_of_ascii "packet metadata { Logon { A `" ++ [28040; 24687; 31867; 22411]%N ++ runes_of_ascii "` , tag o , } , zchar len `// not a comment` , } // c
")).
Eval vm_compute in ("<<<M2930>>>" ++ check (runes_of_ascii "packet A {
  match k as n {
    [""a"", 22, ""c c"", 4, ""e"", 66, ""g""] : B
    2 : C
  },
}")).
Eval vm_compute in ("<<<M3243>>>" ++ check (runes_of_ascii "packet metadata { Logon { A `" ++ [28040; 24687; 31867; 22411]%N ++ runes_of_ascii "` , tag o , } , zchar len `// not a comment` // c
, }")).
Eval vm_compute in ("<<<M3431>>>" ++ check (runes_of_ascii "packet o // c
{ repeat Logon uint8x , } options { asx = zchar[ 3 ] stringy = '\x00' }")).
Eval vm_compute in ("<<<M3463>>>" ++ check (runes_of_ascii "packet o { repeat Logon uint8x , } options { asx = zchar[ 3 ] stringy = '\x00' // c
}")).
Eval vm_compute in ("<<<M2928>>>" ++ check (runes_of_ascii "packet A {
  match k as n {
    [1, ""bb"", 007, ""d"", 5, ""f"", 7] : B
    2 : C
  },
}")).
Eval vm_compute in ("<<<M3408>>>" ++ check (runes_of_ascii "MetaData body { i64 pack `it's` , } // c
packet stringy { int16 calculatedFrom , }")).
Eval vm_compute in ("<<<M1526>>>" ++ check (runes_of_ascii "packet
//	t
// trailing space 
_x {
// packet A { u8 x, }
// c
char[
3
    ] u8x")).
Eval vm_compute in ("<<<M2903>>>" ++ check (runes_of_ascii "packet A {
  match k as n {
    [""a"", 22, ""c c"", 4, ""e""] : B,
    2 : C
  },
}")).
Eval vm_compute in ("<<<M2158>>>" ++ check (runes_of_ascii "options{
_x
= true
} options
{ o	= /// triple
false
    ; chars
= ""\n"" }")).
Eval vm_compute in ("<<<M4507>>>" ++ check (runes_of_ascii "packet 
A{match
	k
as
n{ [	""a"" ,22 
, ""c c"" ]
	:B

,2 :

    C }
,} ")).
Eval vm_compute in ("<<<M3995>>>" ++ check (runes_of_ascii "packet A {
    B b `
    `,
    B `
    `,
    repeat B bs `
    `,
}")).
Eval vm_compute in ("<<<M2935>>>" ++ check (runes_of_ascii "packet A { Inner { match k as n { [1,22,007,4,5,66,7] : B, }, }, }")).
Eval vm_compute in ("<<<M158>>>" ++ check (runes_of_ascii "options { x_y_z =
true;a1 = true ;
options1  =
    true  ; }
")).
Eval vm_compute in ("<<<M481>>>" ++ check (runes_of_ascii "MetaData x_y_z{ i8 //
leftPad
    , string
body `" ++ [28040; 24687; 31867; 22411]%N ++ runes_of_ascii "` , }

")).
Eval vm_compute in ("<<<M3873>>>" ++ check (runes_of_ascii "root

packet

    A	{ u8 x
`a
    b
  c`
    ,

    }

")).
Eval vm_compute in ("<<<M3383>>>" ++ check (runes_of_ascii "packet x { @rightPad ( ) repeat roots Logon `doc` // c
, }")).
Eval vm_compute in ("<<<M1047>>>" ++ check (runes_of_ascii "options
{ stringy =  7;crc = ""x y"";}
MetaData f32a{ }
")).
Eval vm_compute in ("<<<M3162>>>" ++ check (runes_of_ascii "// a
MetaData M {} // b
// c
MetaData N {} // d
// e")).
Eval vm_compute in ("<<<M288>>>" ++ check (runes_of_ascii "options { leftPad //	t
= //	t
""" ++ [28040; 24687]%N ++ runes_of_ascii """ } // " ++ [128512]%N ++ runes_of_ascii " emoji")).
Eval vm_compute in ("<<<M2847>>>" ++ check (runes_of_ascii "zchar[ i64 repeat ) false ) char[ repeat char[")).
Eval vm_compute in ("<<<M1244>>>" ++ check (runes_of_ascii "MetaData msg_type { zchar[ 65535 ] pack
,}
")).
Eval vm_compute in ("<<<M3049>>>" ++ check (runes_of_ascii "options {
    a = ""x\
y"";
    b = ""x\
y""
}")).
Eval vm_compute in ("<<<M3192>>>" ++ check (runes_of_ascii "root packet
// c
u128 { chars `it's` , }")).
Eval vm_compute in ("<<<M2560>>>" ++ check (runes_of_ascii "packet A { repeat u8 x @lengthOf(y), }")).
Eval vm_compute in ("<<<M2787>>>" ++ check ([11; 65533]%N ++ runes_of_ascii "7" ++ [65533; 442; 12]%N ++ runes_of_ascii "r" ++ [951]%N ++ runes_of_ascii "{
7" ++ [65533]%N ++ runes_of_ascii "	" ++ [65533]%N ++ runes_of_ascii "T" ++ [65533; 65533]%N ++ runes_of_ascii "+" ++ [65533]%N ++ runes_of_ascii "U" ++ [65533; 65533]%N ++ runes_of_ascii "Z" ++ [65533; 65533]%N ++ runes_of_ascii "?le" ++ [2015; 30]%N ++ runes_of_ascii "e?Ye" ++ [65533]%N ++ runes_of_ascii "=")).
Eval vm_compute in ("<<<M4066>>>" ++ check (runes_of_ascii "packet pack {
    int64 options1,
}")).
Eval vm_compute in ("<<<M2601>>>" ++ check (runes_of_ascii "packet A { B { @tag(1) u8 x, }, }")).
Eval vm_compute in ("<<<M3772>>>" ++ check (runes_of_ascii "packet A {
    x @lengthOf(y),
}")).
Eval vm_compute in ("<<<M3062>>>" ++ check (runes_of_ascii "packet A {
 u8 x `d `, // c 
}")).
Eval vm_compute in ("<<<M4518>>>" ++ check (runes_of_ascii "MetaData

roots {
u	Logon, }")).
Eval vm_compute in ("<<<M3037>>>" ++ check (runes_of_ascii "packet A {
    u8 x `
x`,
}")).
Eval vm_compute in ("<<<M2622>>>" ++ check (runes_of_ascii "packet A { @tag() u8 x, }")).
Eval vm_compute in ("<<<M4183>>>" ++ check (runes_of_ascii "
packet
	A{ }
    // c" ++ [8239]%N)).
Eval vm_compute in ("<<<M2575>>>" ++ check (runes_of_ascii "packet A { x y `d`, }")).
Eval vm_compute in ("<<<M4044>>>" ++ check (runes_of_ascii "
packet 
i64_ 
{ }

")).
Eval vm_compute in ("<<<M3473>>>" ++ check (runes_of_ascii "MetaData
// c
o { }")).
Eval vm_compute in ("<<<M3081>>>" ++ check (runes_of_ascii "// c" ++ [5760]%N ++ runes_of_ascii "
packet A {
}")).
Eval vm_compute in ("<<<M887>>>" ++ check (runes_of_ascii "  
// @lengthOf(
")).
Eval vm_compute in ("<<<M4358>>>" ++ check (runes_of_ascii "options
{
    }
")).
Eval vm_compute in ("<<<M640>>>" ++ check (runes_of_ascii " // @lengthOf(")).
Eval vm_compute in ("<<<M2844>>>" ++ check ([65533; 1256; 65533; 0; 65533; 7; 65533]%N ++ runes_of_ascii "1" ++ [16]%N ++ runes_of_ascii "wI" ++ [4]%N)).
Eval vm_compute in ("<<<M2481>>>" ++ check (runes_of_ascii "@rightPad")).
Eval vm_compute in ("<<<M2435>>>" ++ check (runes_of_ascii "zchar [")).
Eval vm_compute in ("<<<M2744>>>" ++ check ([65533]%N ++ runes_of_ascii ")i}" ++ [65533]%N ++ runes_of_ascii ")")).
Eval vm_compute in ("<<<M3074>>>" ++ check (runes_of_ascii "// c" ++ [133]%N)).
Eval vm_compute in ("<<<M2526>>>" ++ check (runes_of_ascii "12ab")).
Eval vm_compute in ("<<<M2530>>>" ++ check (runes_of_ascii "1.5")).
Eval vm_compute in ("<<<M2536>>>" ++ check (runes_of_ascii "__")).
Eval vm_compute in ("<<<M111>>>" ++ check (@nil rune)).
