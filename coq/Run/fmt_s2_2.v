From FP Require Import Lexer Parser ShowPT Digest Formatter.
From Coq Require Import String List NArith.
Import ListNotations.
Open Scope string_scope.
Set Printing Width 100000000.
Set Printing Depth 100000000.
Definition show_fres (r : fres) : string :=
  match r with
  | FOk s => "OK:" ++ sh_escaped s ""
  | FErr s => "ERR:" ++ sh_escaped s ""
  | FPanic p => "PANIC:" ++ p
  end.
Definition check (rs : list rune) : string := digest (show_fres (format_res rs)).
Definition full (rs : list rune) : string := show_fres (format_res rs).
Eval vm_compute in ("<<<M1466>>>" ++ check (runes_of_ascii "// top
options // c0
{ // c1
StringPrefixLenType =
    // c3
u8 // c4
; // c5a
  // c5b
ArrayPrefixLenType // c6a
  // c6b
= // c7a
  // c7b
u32 ;
    // c9
FixedStringPadFromLeft =
    // c11
false // c12a
  // c12b
; // c13
FixedStringPadChar = // c15
' ' // c16a
  // c16b
; }
    // c18
packet Party // c20a
  // c20b
{ repeat
    // c22
i16 // c23a
  // c23b
Qty
    // c24
,
    // c25
repeat // c26
string Tail // c28a
  // c28b
,
    // c29
i8 OrderId , // c32
i8 msgKind // c34
,
    // c35
} packet // c37a
  // c37b
Ack { Party // c40
, repeat
    // c42
InRef20 // c43a
  // c43b
{ Party
    // c45
, // c46a
  // c46b
int8 // c47a
  // c47b
tag7 // c48
, char[
    // c50
5 ]
    // c52
OrderId // c53a
  // c53b
, // c54
zchar[ // c55
7 // c56a
  // c56b
]
    // c57
Tail // c58
, // c59a
  // c59b
char[]
    // c60
count // c61a
  // c61b
,
    // c62
InPrice45 // c63
{
    // c64
Party ,
    // c66
char[ // c67
1 // c68
] // c69
Px // c70
, } ,
    // c73
} , // c75
char[
    // c76
12 ] price // c79a
  // c79b
, // c80a
  // c80b
int8 sym // c82a
  // c82b
,
    // c83
} packet
    // c85
Reject { // c87a
  // c87b
repeat // c88
InPrice47 // c89
{ Party // c91a
  // c91b
,
    // c92
} // c93a
  // c93b
, zchar[ // c95a
  // c95b
4
    // c96
]
    // c97
x
    // c98
, repeat Ack , zchar[ 2 // c104
]
    // c105
Ref , repeat // c108a
  // c108b
Party
    // c109
, // c110
} // c111
packet
    // c112
Cancel // c113a
  // c113b
{ // c114a
  // c114b
Reject // c115
, // c116
repeat
    // c117
string f1 // c119a
  // c119b
, // c120
uint16 // c121a
  // c121b
OrderId
    // c122
, // c123
u8 Acct // c125a
  // c125b
, int8 // c127a
  // c127b
msgKind , // c129a
  // c129b
} root packet // c132a
  // c132b
Fill { u8 // c135a
  // c135b
count ,
    // c137
char[] tag7 // c139
,
    // c140
zchar[ // c141a
  // c141b
7 // c142a
  // c142b
] // c143a
  // c143b
Acct
    // c144
, // c145
u32 // c146
OrderId
    // c147
, // c148
u32
    // c149
Note // c150
@lengthOf( // c151a
  // c151b
Body
    // c152
) // c153a
  // c153b
, // c154
match // c155a
  // c155b
OrderId
    // c156
as
    // c157
Body // c158a
  // c158b
{ // c159a
  // c159b
106
    // c160
: // c161a
  // c161b
Cancel // c162
, // c163
196 : // c165
Reject // c166
,
    // c167
74 // c168a
  // c168b
:
    // c169
Party ,
    // c171
75 // c172
: Ack , // c175a
  // c175b
} , // c177a
  // c177b
} // c178a
  // c178b
")).
Eval vm_compute in ("<<<M189>>>" ++ check (runes_of_ascii "packet i64_ { match
    BodyLength as u8x {
[ 0123456789 ]: leftPad ""{,}"" :	lengthOf	,
007 :	A, [  ""a\""b"" ] :float , //x
} , @calculatedFrom( // `tick` ""quote"" 'q'
""" ++ [233]%N ++ runes_of_ascii "t" ++ [233]%N ++ runes_of_ascii """ )// a // b
body
u8x
    , packetx`say ""hi""`, // @lengthOf(
zchar[
    42 ]MetaDataX `line1
line2`
    ,
    f32 // @lengthOf(
matchKey, roots{
    // " ++ [27880; 37322]%N ++ runes_of_ascii "
    u128 @lengthOf( T ) , char[
// " ++ [128512]%N ++ runes_of_ascii " emoji
// packet A { u8 x, }
42
    ]	x_y_z	@calculatedFrom( """" ) ,repeat float64 stringy// " ++ [128512]%N ++ runes_of_ascii " emoji
`` ,
    }
,u16 // @lengthOf(
metadata
    `tab	here` ,@rightPad	( '0'
    // " ++ [128512]%N ++ runes_of_ascii " emoji
    )
@tag( 7 )
// " ++ [27880; 37322]%N ++ runes_of_ascii "
// " ++ [27880; 37322]%N ++ runes_of_ascii "
repeat uint16 // @lengthOf(
x_y_z `say ""hi""`, repeat
    roots{ // a // b
Packet {float{ repeat asx , asx
Foo
    , }
,
    }	,} ,@tag( 42 )//x
u `line1
line2` , // `tick` ""quote"" 'q'
}  packet int { } options {
    // `tick` ""quote"" 'q'
    Logon
    = ""{,}"" ; } packet	As{// packet A { u8 x, }
@calculatedFrom( // @lengthOf(
"""" ) @rightPad ( '\x00'
// " ++ [128512]%N ++ runes_of_ascii " emoji
//	t
) @leftPad (
'0' ) repeat Logon
f32a	, @lengthOf(
// a // b
// a // b
rootA ) @tag(42 )
    @lengthOf(
// " ++ [128512]%N ++ runes_of_ascii " emoji
//
u
//	t
// a // b
)repeat o u8x `u8 x,` , @tag( 7) zchar[
    //x
    42] asx @lengthOf(
    trueish ) , @lengthOf( trueish ) int16
stringy
,
zchar f32a
    `two words` , string u8x@calculatedFrom( ""\n""
    )  , _x `
` , @lengthOf( i8i8  ) i64_@lengthOf(
    uint8x )
    , uint32 rootA `it's` , }
")).
Eval vm_compute in ("<<<M238>>>" ++ check (runes_of_ascii "
packet
    tag{repeat
    stringy {	repeat
i32 lengthOf
, // trailing space 
string msg_type // " ++ [27880; 37322]%N ++ runes_of_ascii "
@calculatedFrom( // " ++ [128512]%N ++ runes_of_ascii " emoji
""// no comment"" ) `" ++ [233]%N ++ runes_of_ascii "` ,
    zchar
    { x @calculatedFrom( """ ++ [28040; 24687]%N ++ runes_of_ascii """ )
    ,repeat u8x len , zchar[ 255 ] i8i8 , } ,
x @calculatedFrom( ""CRC32"")
`` ,} , packetx
//	t
//	t
u8x, @calculatedFrom( ""packet"" )
zchar[  007] body
@calculatedFrom( ""CRC32"" )
    , @lengthOf( x_y_z/// triple
) char[]
int
    `" ++ [28040; 24687; 31867; 22411]%N ++ runes_of_ascii "` , zchar[ 42 ]
Logon@calculatedFrom( ""// no comment""
    ) ,
    int8
f32a , }packet  As { @calculatedFrom(
""it's""
)  int64 msg_type	@calculatedFrom( ""a\""b"" )`it's`, i8i8 pack , tag {i64 _x ,match As as f32a { // trailing space 
007 : _x ,0123456789 : metadata
    , }
, }, @lengthOf( body )repeat
u8
f32a
    `` , char[] Pad `line1
line2` ,
    @lengthOf(msg_type)  string len , @lengthOf(	a1) @tag(00
) @rightPad('\x00' ) char[ 65535 ] Header ,// trailing space 
@calculatedFrom(
    // a // b
    ""1""
) @calculatedFrom(
""a\\""  )
    // @lengthOf(
    @lengthOf( body
//
// " ++ [27880; 37322]%N ++ runes_of_ascii "
)
    i8
x_y_z
, }
root packet a1 {
    }
    packet A{
}
    // " ++ [128512]%N ++ runes_of_ascii " emoji
    packet calculatedFrom {}")).
Eval vm_compute in ("<<<M1452>>>" ++ check (runes_of_ascii "options {
    StringPrefixLenType = u32;
    ArrayPrefixLenType = u8;
    FixedStringPadFromLeft = false;
}
packet Logon {
    i8 venue,
    int16 f1,
    zchar[8] Acct,
    repeat InNote16 {
        InQty73 {
            float32 tag7,
        },
        f32 Acct,
        zchar[5] sym,
    },
    uint16 Side2,
    i32 lastPx,
}
packet Fill {
    repeat InOrderid15 {
        zchar[8] sym,
        repeat char[2] OrderId,
        repeat Logon,
        InQty82 {
            char[] Tail,
            repeat Logon,
            float64 price,
            f64 Side2,
        },
        char[12] venue,
        char[4] Px,
    },
    @rightPad('0') char[2] venue,
    InPrice99 {
        InAcct72 {
            u8 pad0,
        },
        u32 OrderId,
        Logon,
    },
}
root packet Reject {
    zchar[9] msgKind,
    u32 venue,
    u16 seqNo @lengthOf(Body),
    match venue as Body {
        57 : Fill,
        8 : Logon,
    },
    u16 Tail @calculatedFrom(""CR\
C32""),
}
")).
Eval vm_compute in ("<<<M1662>>>" ++ check (runes_of_ascii "

  packet 
	    // `tick` ""quote"" 'q'
// `tick` ""quote"" 'q'
		rootA{  @tag(
3

) 
zchar[00 ]  // trailing space 
  x_y_z  `" ++ [28040; 24687; 31867; 22411]%N ++ runes_of_ascii "`

, _x,

// a // b
		float64 A
@lengthOf( 	 //
    	u8x

),
	u8  rootA

`line1
line2`

, 
zchar[
	7	]// c

stringy  , match

Header as f32a
{

""\" ++ [233]%N ++ runes_of_ascii """
	:o ,

[
	    // `tick` ""quote"" 'q'
  	4294967296  ,
7  ,  // c
  4294967296 ,
    ""packet""	,	""a	b""

    ,
    ""CRC32""

    ,  7
,	""a	b""// trailing space 

]: // packet A { u8 x, }
		repeatCount

    , 
""a\""b"":Header 
[  ""a\""b""
	]

    :crc ,

[

007
	, 007  , ""abc""]

    : metadata  ,

4294967296
:
chars

    ,

} // " ++ [128512]%N ++ runes_of_ascii " emoji
,	@tag(
	1

    )

i8 
matchKey	`a\` ,
        // @lengthOf(
// " ++ [128512]%N ++ runes_of_ascii " emoji
@lengthOf( body
) tag
	,  @lengthOf(matchKey
	)
	@lengthOf(  o  ) @lengthOf(	pack
)

repeat
u{	calculatedFrom @lengthOf( falsey
), },

}")).
Eval vm_compute in ("<<<M1761>>>" ++ check (runes_of_ascii "

  packet	options1 {
	@leftPad(

)
@calculatedFrom( ""\n"" ) @leftPad
	(
' ' // " ++ [27880; 37322]%N ++ runes_of_ascii "
    ) chars

    T`say ""hi""`// " ++ [27880; 37322]%N ++ runes_of_ascii "

	, 
  // @lengthOf(
	repeat 
zchar

{ 
metadata  { 
    // @lengthOf(

  // c
match
    A

as  x_y_z

{
""1"" :
    // " ++ [128512]%N ++ runes_of_ascii " emoji
  // c
  string_ 	 // @lengthOf(
[""// no comment""
    ,
10
	]
:Foo

    ""a\\"" :
Packet[  ""a	b""  ,	65535 
]:x,
}

,	}
    ,

    } 	 // " ++ [128512]%N ++ runes_of_ascii " emoji
, @rightPad(
    ) f32
	msg_type 
,

    match
f32a as
    body{ [
""`tick`"" 
,""\n""
	,""a	b"" ,	""{,}"" 
,255 ,	""x y""

    ,
3
]

:  // @lengthOf(

x ,	""CRC32""	:
    zchar

    ,	""x y"" : rootA 	 // `tick` ""quote"" 'q'
    	[ 00
	,
    ""it's"",
4294967296
    ,

    ""CRC32""
    ]	:
    roots 4294967296 : Logon

    },
	@leftPad (
'0'
)

pack
`crlf
line`  , }

")).
Eval vm_compute in ("<<<M1547>>>" ++ check (runes_of_ascii "//x
root packet Z9_ {
    @calculatedFrom(""a\\"")
    zchar[1] a1 @lengthOf(Z9_),
    @tag(0123456789)
    @lengthOf(Header)
    @tag(4294967296)
    uint8 u128,
    i16 msg_type,
    tag matchKey,
    repeat i8 options1 `tab	here`,
    repeat f32a Z9_,
    /// triple
    //	t
    match tag as Foo {
        42 : Logon,
        [4294967296] : Pad,
        3 : a1,
        [007, 1] : a1,
    },// packet A { u8 x, }
    repeat zchar {
        repeat u8 options1,
        leftPad {
            msg_type,
        },
        leftPad @lengthOf(string_) `a\`,
    },
    zchar charz,
    string tag @calculatedFrom(""{,}""),// " ++ [27880; 37322]%N ++ runes_of_ascii "
}

packet u128 {
    @tag(4294967296)
    @tag(42)
    f32a @lengthOf(float) `" ++ [233]%N ++ runes_of_ascii "`,
}")).
Eval vm_compute in ("<<<M1976>>>" ++ check (runes_of_ascii "options {
    Foo = ""it's""
    lengthOf = int8
    falsey = 7;
    a1 = false;
}

MetaData repeatCount {
    T repeatCount,
    u8x msg_type `// not a comment`,
    repeatCount T,
}

packet repeatCount {
    @tag(007)
    i64_ As,
}

root packet packetx {
    string T @calculatedFrom(""{,}""),
    repeat zchar[4294967296] x,
    @tag(42)
    @lengthOf(lengthOf)
    /// triple
    @calculatedFrom(""`tick`"")
    repeat u16 u128 `say ""hi""`,// trailing space 
    @rightPad()
    @tag(255)
    repeat uint8x Logon,
    repeat zchar[007] Logon `a\`,
    @rightPad('0')
    // @lengthOf(
    string falsey,
}")).
Eval vm_compute in ("<<<M1639>>>" ++ check (runes_of_ascii "packet BodyLength {
    @rightPad()
    i32 packetx @lengthOf(leftPad),
    @lengthOf(MetaDataX)
    leftPad,
    _x {
        match zchar as zchar {
            [""a\\""] : crc,
            """ ++ [28040; 24687]%N ++ runes_of_ascii """ : Foo,
            1 : trueish,
            42 : rootA,
            [4294967296] : float,
            // " ++ [128512]%N ++ runes_of_ascii " emoji
            ""a\\"" : Foo,
        },
        repeat float leftPad,
        uint8x i8i8,
        char[255] As,
    },
    char[4294967296] uint8x `u8 x,`,
    @leftPad()
    float32 body `two words`,
}")).
Eval vm_compute in ("<<<M1997>>>" ++ check (runes_of_ascii "
MetaData a1
{ u128 	 // @lengthOf(
	As	,
char[ 
4294967296 ] 
lengthOf ,
    uint64  msg_type

    ,

    x_y_z

f32a	,

    float32 o // " ++ [27880; 37322]%N ++ runes_of_ascii "
, }options 

    // " ++ [27880; 37322]%N ++ runes_of_ascii "

	// " ++ [128512]%N ++ runes_of_ascii " emoji
    {
    //x
  	// @lengthOf(
    } MetaData
	string_  {} 
packet	roots  { repeat

    f32 As
`" ++ [28040; 24687; 31867; 22411]%N ++ runes_of_ascii "`

,  }	options  {
        // " ++ [128512]%N ++ runes_of_ascii " emoji

uint8x
= ""a	b""  Packet //
    =

42 ;  pack = 10

    ; 
tag =

string
	;repeatCount 
= // " ++ [27880; 37322]%N ++ runes_of_ascii "
		char[  0
	] 
; } ")).
Eval vm_compute in ("<<<M1728>>>" ++ check (runes_of_ascii "  // packet A { u8 x, }
root packet

    charz
{matchKey{ repeat	Foo
{// trailing space 
  uint8 chars	@lengthOf(

x 
)
    ,} //
    	,
pack

    { rootA @lengthOf( MetaDataX// c

) 
,

    }// a // b
    , roots{zchar[

    10  ] leftPad
    , }

    ,
    repeat	pack

stringy 
`two words`  ,

}  , }packet  rootA 
{ char[ 
10 ] 
x_y_z  `{ , }`, uint64

falsey , 
  // " ++ [27880; 37322]%N ++ runes_of_ascii "
		} ")).
Eval vm_compute in ("<<<M1766>>>" ++ check (runes_of_ascii "packet crc
    { // " ++ [128512]%N ++ runes_of_ascii " emoji

	int
`" ++ [28040; 24687; 31867; 22411]%N ++ runes_of_ascii "`
, repeat
Header`doc` 
, @tag(
// " ++ [128512]%N ++ runes_of_ascii " emoji
	65535

) 
leftPad
    BodyLength
    `// not a comment` 	 // " ++ [128512]%N ++ runes_of_ascii " emoji
  , /// triple
	char[
    42 ]  roots`` 	 // a // b
		,	}

    packet uint8x
    // `tick` ""quote"" 'q'
    {

@lengthOf( i8i8
)
    // trailing space 
  	//	t
    Pad

    MetaDataX//	t
		,}

")).
Eval vm_compute in ("<<<M135>>>" ++ check (runes_of_ascii "packet T{ } packet string_ { @tag(7	)repeat uint8 rootA
    // " ++ [27880; 37322]%N ++ runes_of_ascii "
    ,@lengthOf(	o
    )
    float
u ,// trailing space 
Packet @calculatedFrom(
    ""a\\"" ) ,
    f32	repeatCount `say ""hi""` /// triple
, } packet MetaDataX	{match	leftPad as Packet { 007
: // `tick` ""quote"" 'q'
x ,
} , // trailing space 
}")).
Eval vm_compute in ("<<<M324>>>" ++ check (runes_of_ascii "packet charz
    {repeat
Z9_
    x , @calculatedFrom( ""`tick`""
) string A`crlf
line` ,
repeat
    crc// trailing space 
{
repeat u8x , char[42 //
] //x
x @lengthOf(
o )	,} ,} MetaData //
tag { uint16 falsey
    `say ""hi""` ,
i32 asx ,char[ 007 ] As
// a // b
/// triple
, }
")).
Eval vm_compute in ("<<<M59>>>" ++ check (runes_of_ascii "packet _x { Packet { chars
    Logon
,int8 float , i64 rootA `" ++ [233]%N ++ runes_of_ascii "` ,} /// triple
,@calculatedFrom(
""abc"" )
    x_y_z
{ leftPad // trailing space 
charz
`a\` ,i32 metadata `say ""hi""` ,} , charz rootA `u8 x,`, }  root// " ++ [128512]%N ++ runes_of_ascii " emoji
packet f32a//
{ }
")).
Eval vm_compute in ("<<<M388>>>" ++ check (runes_of_ascii "options options
{
matchKey = 42/// triple
x='0' ;
// packet A { u8 x, }
//
charz
=
// packet A { u8 x, }
// trailing space 
true  ; } MetaData BodyLength
{
uint8
pack,zchar[ 1]float ,  float32 x_y_z `` ,u32
_x,i16 body  , }
")).
Eval vm_compute in ("<<<M404>>>" ++ check (runes_of_ascii "options
{
matchKey root 42/// triple
x='0' ;
// packet A { u8 x, }
//
charz
=
// packet A { u8 x, }
// trailing space 
true  ; } MetaData BodyLength
{
uint8
pack,zchar[ 1]float ,  float32 x_y_z `` ,u32
_x,i16 body  , }
")).
Eval vm_compute in ("<<<M575>>>" ++ check (runes_of_ascii "options
{
matchKey = 42/// triple
x='0' ;
// packet A { u8 x, }
//
charz
=
// packet A { u8 x, }
// trailing space 
t@xrue  ; } MetaData BodyLength
{
uint8
pack,zchar[ 1]float ,  float32 x_y_z `` ,u32
_x,i16 body  , }
")).
Eval vm_compute in ("<<<M433>>>" ++ check (runes_of_ascii "options
{
matchKey = 42/// triple
x='0' ;
// packet A { u8 x, }
//
=
charz
// packet A { u8 x, }
// trailing space 
true  ; } MetaData BodyLength
{
uint8
pack,zchar[ 1]float ,  float32 x_y_z `` ,u32
_x,i16 body  , }
")).
Eval vm_compute in ("<<<M426>>>" ++ check (runes_of_ascii "options
{
matchKey = 42/// triple
x='0' 
// packet A { u8 x, }
//
charz
=
// packet A { u8 x, }
// trailing space 
true  ; } MetaData BodyLength
{
uint8
pack,zchar[ 1]float ,  float32 x_y_z `` ,u32
_x,i16 body  , }
")).
Eval vm_compute in ("<<<M431>>>" ++ check (runes_of_ascii "options
{
matchKey = 42/// triple
x='0' ;
// packet A { u8 x, }
//

=
// packet A { u8 x, }
// trailing space 
true  ; } MetaData BodyLength
{
uint8
pack,zchar[ 1]float ,  float32 x_y_z `` ,u32
_x,i16 body  , }
")).
Eval vm_compute in ("<<<M166>>>" ++ check (runes_of_ascii "packet u128 {
@rightPad (
    ' '
    //x
    )// c
Packet , f64
//
// @lengthOf(
Pad `it's` , }packet i64_{ } packet trueish { @leftPad	( '\x00')leftPad
@calculatedFrom( // " ++ [27880; 37322]%N ++ runes_of_ascii "
""`tick`"" ) `u8 x,` , }
")).
Eval vm_compute in ("<<<M706>>>" ++ check (runes_of_ascii "// c
packet i64_ {	char[] calculatedFrom , } packet
trueish  {@calculatedFrom(
""a\\"" ""a\\"" ) o { i32 falsey@lengthOf( uint8x ),
} , } // `tick` ""quote"" 'q'
options {// c
Z9_ = ' '//
}
")).
Eval vm_compute in ("<<<M1908>>>" ++ check (runes_of_ascii "options {
    // `tick` ""quote"" 'q'
    len = """ ++ [28040; 24687]%N ++ runes_of_ascii """;
    options1 = int32
    zchar = ""1"";
    float = true
    tag = """ ++ [28040; 24687]%N ++ runes_of_ascii """;
}

MetaData u128 {
    msg_type i8i8 `doc`,
    o body,
}")).
Eval vm_compute in ("<<<M1839>>>" ++ check (runes_of_ascii "packet A {
    match k as n {
        [
            ""a"", ""bb"", ""c c"", ""d"", ""e"",
            ""f"", ""g"", ""h"", ""i"", ""j"",
            ""k"", ""l""
        ] : B,
        2 : C,
    },
}")).
Eval vm_compute in ("<<<M81>>>" ++ check (runes_of_ascii "root packet
x_y_z {
    @leftPad
    (
' ')uint8x { float32 len @calculatedFrom(""it's""
    //
    )
`" ++ [233]%N ++ runes_of_ascii "` ,match o as stringy{ [""{,}""
    ] : x
    , }
    ,
}
, }
")).
Eval vm_compute in ("<<<M1390>>>" ++ check (runes_of_ascii "packet
A

{ u8

    a
    ,

}
	packet
B
{
u16 b
,
    }
    root
packet P{
u8
K  ,match K	as M
	{
[ 1 ,
	2
] : A , 3	: B , 
7 
:	A, 
} , }
")).
Eval vm_compute in ("<<<M1586>>>" ++ check (runes_of_ascii "packet

Logon

{

    @tag(42

    )
    @rightPad (
' '

    )@leftPad(
)repeat 
trueish {

    string T 
	    // c
	, },

}
")).
Eval vm_compute in ("<<<M2022>>>" ++ check (runes_of_ascii "packet A {
    match k as n {
        [
            1, 22, 007, 4, 5,
            66, 7, 8, 9
        ] : B,
        2 : C,
    },
}")).
Eval vm_compute in ("<<<M455>>>" ++ check (runes_of_ascii "options
{
matchKey = 42/// triple
x='0' ;
// packet A { u8 x, }
//
charz
=
// packet A { u8 x, }
// trailing space 
true  ;")).
Eval vm_compute in ("<<<M1837>>>" ++ check (runes_of_ascii "  packet	calculatedFrom { @tag( 4294967296	) u msg_type, char[  3

    ]
crc  // c
  @lengthOf(
	len 
)
`u8 x,`
,  }")).
Eval vm_compute in ("<<<M1657>>>" ++ check (runes_of_ascii "packet A
{

match
	k  as
n
{
[ ""a"" ,
	""bb"",
	""c c""
,	""d""
    , 
""e""  ,	""f"" ,
""g""
    , ""h""
]
: B
	, 2 
: C}

,}

")).
Eval vm_compute in ("<<<M1611>>>" ++ check (runes_of_ascii "

  packet A {match
k

    as
    n{  [	""a"" , 22
,
""c c""
,

4,  ""e""	, 66
	, 
""g""
, 8  ]	: 
B 2
: C

    } ,}
")).
Eval vm_compute in ("<<<M1573>>>" ++ check (runes_of_ascii "packet
    Logon{ @tag(	42

)	@rightPad	(  ' ') // c
    @leftPad ( )
repeat  trueish 
{ string
T

,
    } ,
}")).
Eval vm_compute in ("<<<M879>>>" ++ check (runes_of_ascii "packet A {
  match k as n {
    [""a"", ""bb"", ""c c"", ""d"", ""e"", ""f"", ""g"", ""h"", ""i"", ""j""] : B,
    2 : C
  },
}")).
Eval vm_compute in ("<<<M925>>>" ++ check (runes_of_ascii "packet A {
    Inner {
        u8 x `a
b`,
        Deep {
            u8 y `a
b`,
        },
    },
}")).
Eval vm_compute in ("<<<M1282>>>" ++ check (runes_of_ascii "packet calculatedFrom { @tag( 4294967296 ) u msg_type , char[ 3 ] crc @lengthOf( len
// c
) `u8 x,` , }")).
Eval vm_compute in ("<<<M955>>>" ++ check (runes_of_ascii "packet A {
    Inner {
        u8 x `
x`,
        Deep {
            u8 y `
x`,
        },
    },
}")).
Eval vm_compute in ("<<<M870>>>" ++ check (runes_of_ascii "packet A {
  match k as n {
    [""a"", 22, ""c c"", 4, ""e"", 66, ""g"", 8, ""i""] : B,
    2 : C
  },
}")).
Eval vm_compute in ("<<<M1160>>>" ++ check (runes_of_ascii "packet Logon { @tag( 42 ) @rightPad ( ' ' ) @leftPad ( ) repeat trueish { // c
string T , } , }")).
Eval vm_compute in ("<<<M1592>>>" ++ check (runes_of_ascii "  packet A{ match k

    as n
    { [
1

,	""bb""	,	007,

""d""

    ]: B,	2 
:C
} ,
    } ")).
Eval vm_compute in ("<<<M849>>>" ++ check (runes_of_ascii "packet A {
  match k as n {
    [""a"", ""bb"", 007, ""d"", ""e"", 66, ""g""] : B
    2 : C
  },
}")).
Eval vm_compute in ("<<<M860>>>" ++ check (runes_of_ascii "packet A {
  match k as n {
    [1, 22, ""c c"", 4, 5, ""f"", 7, 8] : B
    2 : C
  },
}")).
Eval vm_compute in ("<<<M1211>>>" ++ check (runes_of_ascii "packet o
// c
{ @tag( 42 ) repeat x { char[ 0123456789 ] i64_ , } , } options { }")).
Eval vm_compute in ("<<<M1243>>>" ++ check (runes_of_ascii "packet o { @tag( 42 ) repeat x { char[ 0123456789 ] i64_ , } , } options
// c
{ }")).
Eval vm_compute in ("<<<M234>>>" ++ check (runes_of_ascii "packet	As{ match  repeatCount as metadata
{ 007 : //x
crc, ""a	b"" :
    A} , }
")).
Eval vm_compute in ("<<<M1904>>>" ++ check (runes_of_ascii "options {
    metadata = ""a	b""
    u = 0;// trailing space 
    i8i8 = 0;
}")).
Eval vm_compute in ("<<<M789>>>" ++ check (runes_of_ascii "packet A {
  match k as n {
    [""a"", ""bb"", ""c c""] : B
    2 : C
  },
}")).
Eval vm_compute in ("<<<M1325>>>" ++ check (runes_of_ascii "MetaData _x { zchar[ 4294967296 ] lengthOf `// not a comment` , // c
}")).
Eval vm_compute in ("<<<M1899>>>" ++ check (runes_of_ascii "root
packet 

    // packet A { u8 x, }
//	t

  Z9_

    {  }
")).
Eval vm_compute in ("<<<M778>>>" ++ check (runes_of_ascii "packet A {
  match k as n {
    [1, 22] : B
    2 : C
  },
}")).
Eval vm_compute in ("<<<M773>>>" ++ check (runes_of_ascii "packet A {
  match k as n {
    [1] : B
    2 : C
  },
}")).
Eval vm_compute in ("<<<M1612>>>" ++ check (runes_of_ascii "MetaData stringy {
    char[0] chars `{ , }`,
}")).
Eval vm_compute in ("<<<M1102>>>" ++ check (runes_of_ascii "// c
MetaData zchar { zchar[ 3 ] Pad , }")).
Eval vm_compute in ("<<<M348>>>" ++ check (runes_of_ascii "packet
    A
{} options {
T	=
'0' }
")).
Eval vm_compute in ("<<<M1707>>>" ++ check (runes_of_ascii "
packet  A 
{

    }  
  // c" ++ [8203]%N ++ runes_of_ascii "
")).
Eval vm_compute in ("<<<M982>>>" ++ check (runes_of_ascii "packet A {
 u8 x `d" ++ [12288]%N ++ runes_of_ascii "`, // c" ++ [12288]%N ++ runes_of_ascii "
}")).
Eval vm_compute in ("<<<M761>>>" ++ check (runes_of_ascii "6h""i_JCeOcKDsBMyC`8Wv)}U=9O")).
Eval vm_compute in ("<<<M1191>>>" ++ check (runes_of_ascii "options { u8x = // c
3 }")).
Eval vm_compute in ("<<<M218>>>" ++ check (runes_of_ascii "
packet len
    { }")).
Eval vm_compute in ("<<<M1006>>>" ++ check (runes_of_ascii "// c" ++ [8202]%N ++ runes_of_ascii "
packet A {
}")).
Eval vm_compute in ("<<<M988>>>" ++ check (runes_of_ascii "packet A {
}// c" ++ [133]%N)).
Eval vm_compute in ("<<<M1900>>>" ++ check (runes_of_ascii "

  // c" ++ [8202]%N ++ runes_of_ascii "
 
")).
Eval vm_compute in ("<<<M1019>>>" ++ check (runes_of_ascii "// c" ++ [8239]%N)).
