From FP Require Import Lexer Parser ShowPT Digest Formatter.
From Coq Require Import String List NArith.
Import ListNotations.
Open Scope string_scope.
Set Printing Width 100000000.
Set Printing Depth 100000000.
Definition show_fres (r : fres) : string :=
  match r with
  | FOk s => "OK:" ++ sh_escaped s ""
  | FErr s => "ERR:" ++ sh_escaped s ""
  | FPanic p => "PANIC:" ++ p
  end.
Definition check (rs : list rune) : string := digest (show_fres (format_res rs)).
Definition full (rs : list rune) : string := show_fres (format_res rs).
Eval vm_compute in ("<<<M1332>>>" ++ check (runes_of_ascii "packet MetaDataX	{
@lengthOf(// @lengthOf(
len)
charz ,uint8x@lengthOf(
calculatedFrom ) ,
// trailing space 
// " ++ [27880; 37322]%N ++ runes_of_ascii "
@rightPad ( '0' )repeat f32
    // @lengthOf(
    int , zchar[ //	t
65535 ] o,
    f64 i8i8 @calculatedFrom( ""it's""
)  `// not a comment` , @rightPad( ' ') char[
    1 ]
pack @calculatedFrom(
""""
    // c
    ) `" ++ [233]%N ++ runes_of_ascii "`
,
@tag( 0123456789 )
msg_type @lengthOf( rootA ) ,
    @tag( 10
// a // b
// a // b
) repeat //x
rootA , }MetaData
    stringy { char[]
pack , char[
    4294967296 ] calculatedFrom
    , i32	As ,char[
0 ] uint8x ,
    } // c
root packet // trailing space 
Foo { Logon `two words` ,
    match len as
stringy
    { ""\" ++ [233]%N ++ runes_of_ascii """ :  calculatedFrom ,
}
,
    }packet u
    { repeat x falsey
, repeat a1 , @lengthOf(T )
// `tick` ""quote"" 'q'
// " ++ [128512]%N ++ runes_of_ascii " emoji
@lengthOf(options1 ) repeat// packet A { u8 x, }
crc {
// c
// a // b
zchar[10
    // " ++ [128512]%N ++ runes_of_ascii " emoji
    ] u128, match _x as
int { 42 :
// " ++ [27880; 37322]%N ++ runes_of_ascii "
//
o [	""// no comment"" ,  10 ] : chars[
    //	t
    ""`tick`""
    ] : uint8x
,""`tick`""
: leftPad ,[ 42 , ""CRC32""
, ""{,}"" , 4294967296
,// trailing space 
4294967296 ,""" ++ [128512]%N ++ runes_of_ascii """
, """ ++ [128512]%N ++ runes_of_ascii """
,	42 ]:  Z9_  ,// " ++ [128512]%N ++ runes_of_ascii " emoji
""1"":
a1, } ,} , @rightPad (	)@calculatedFrom(""it's""	)
    // `tick` ""quote"" 'q'
    @tag( 1
    )uint8	A ,
f32 f32a	,
// @lengthOf(
//
body {char[] u@lengthOf( i8i8) `it's` , match
    u8x as  a1// `tick` ""quote"" 'q'
{ 7
: float ,
    [ ""a\\""
    ,""packet"", 42 ,
    10 ,  ""it's"",	3
] :uint8x
    ,
""CRC32"":// c
metadata,
""it's"" : asx ,
    [
    ""a\""b""
    // " ++ [128512]%N ++ runes_of_ascii " emoji
    , 10 ] : trueish
    ,
""abc"" :falsey
,
} , calculatedFrom
    repeatCount ,  u16 stringy `a\`
, }
,
repeat tag { match msg_type as x_y_z
{ 10
    : lengthOf
    ,
42 // `tick` ""quote"" 'q'
: Z9_ , 0123456789 :	A , [
3
    ,""" ++ [28040; 24687]%N ++ runes_of_ascii """
    ,42 // trailing space 
, ""abc"",65535,
    ""`tick`""]
: // " ++ [128512]%N ++ runes_of_ascii " emoji
x_y_z ,
[ 42
// c
// packet A { u8 x, }
, 1 ] :
// " ++ [128512]%N ++ runes_of_ascii " emoji
//	t
roots
    , 007 :
leftPad ,
    },match leftPad as chars
    {  3// `tick` ""quote"" 'q'
:
u8x }	, } , string
zchar @calculatedFrom(""a\\"" ) `` ,
    match zchar as
//x
//
string_ // a // b
{ 7 :Z9_ 4294967296 : options1 , ""a\""b"": chars
    ,	""a\""b"" :u8x
, [""CRC32"" , //x
10] :As
    , ""\" ++ [233]%N ++ runes_of_ascii """ : crc  ,
}
,
    zchar `// not a comment` , } packet matchKey { @calculatedFrom(
""\" ++ [233]%N ++ runes_of_ascii """ ) @tag( 007 )
    @calculatedFrom( """") repeat//
metadata chars ,repeat // `tick` ""quote"" 'q'
T //	t
{ repeat char u ,  } , //x
@tag(
65535 ) Pad{
    match
chars  as
    BodyLength
    { 0123456789 :
Packet
,""\" ++ [233]%N ++ runes_of_ascii """ : T// packet A { u8 x, }
,""packet"": u ,
    }
/// triple
// " ++ [128512]%N ++ runes_of_ascii " emoji
, }
    // trailing space 
    , }
")).
Eval vm_compute in ("<<<M1238>>>" ++ check (runes_of_ascii "// " ++ [27880; 37322]%N ++ runes_of_ascii "
packet A	{@calculatedFrom(
    ""a	b"" ) u128 @lengthOf( asx /// triple
)
    `doc` , // `tick` ""quote"" 'q'
charz
    @lengthOf( repeatCount  ), i8 metadata @lengthOf( body )
    `{ , }` ,
@tag(
    // `tick` ""quote"" 'q'
    0123456789
    ) repeat
x_y_z lengthOf
, @calculatedFrom(""{,}"" ) options1 { match metadata
as chars  {""// no comment"": matchKey ,} , } , Z9_
// trailing space 
// @lengthOf(
`` , repeat i64_``,  @tag( 42) uint8	chars @calculatedFrom(""abc"" ) , }MetaData charz
{ char[]Packet
, i64 string_
    `{ , }` , // " ++ [128512]%N ++ runes_of_ascii " emoji
int64 a1`tab	here`, }
packet
    matchKey//	t
{
    repeat x {string
    // c
    Logon`doc`
    , } ,repeat
u32// trailing space 
chars
    ,@calculatedFrom( // c
""`tick`"") o falsey `say ""hi""` ,zchar[	007  ]string_ @lengthOf(Header ) `line1
line2`
    // trailing space 
    ,match  x as uint8x {1 //
:a1  ,  [ ""a	b"" , 42 ,
65535 ]
: T ,
""" ++ [28040; 24687]%N ++ runes_of_ascii """ : metadata
// packet A { u8 x, }
// c
, }
    , match Z9_
as	msg_type // a // b
{ 65535: //	t
u ,[
// " ++ [128512]%N ++ runes_of_ascii " emoji
// c
7 ,
    7// trailing space 
, 42
,""" ++ [28040; 24687]%N ++ runes_of_ascii """ ]
    :
asx ,""" ++ [233]%N ++ runes_of_ascii "t" ++ [233]%N ++ runes_of_ascii """ : _x,[
// `tick` ""quote"" 'q'
// " ++ [27880; 37322]%N ++ runes_of_ascii "
255 ] : metadata , }// `tick` ""quote"" 'q'
, float32 len	, repeat
    len , @tag( 007
    ) repeat f64
pack
    // trailing space 
    ,
} packet stringy
    {
// trailing space 
// packet A { u8 x, }
@lengthOf(As
    ) @calculatedFrom(  ""\" ++ [233]%N ++ runes_of_ascii """ )@tag(
7 ) u8 x_y_z@lengthOf( pack
) `crlf
line` ,
uint8 chars `doc`
,
@calculatedFrom(""CRC32""	)
@leftPad ( '0'	)
    // @lengthOf(
    @lengthOf(  leftPad ) match packetx
// @lengthOf(
// " ++ [128512]%N ++ runes_of_ascii " emoji
as
float	{[ ""// no comment"" ,
007 ] :msg_type
    , //	t
1 // packet A { u8 x, }
:
    rootA
, 7 : lengthOf // " ++ [128512]%N ++ runes_of_ascii " emoji
,	[ // a // b
""" ++ [128512]%N ++ runes_of_ascii """ ] :
x , [ //
42  , // `tick` ""quote"" 'q'
65535 ]:// " ++ [27880; 37322]%N ++ runes_of_ascii "
falsey ,// " ++ [27880; 37322]%N ++ runes_of_ascii "
}
//	t
// packet A { u8 x, }
, char[1 ] lengthOf @lengthOf(metadata	),u8 crc @calculatedFrom(
""" ++ [128512]%N ++ runes_of_ascii """
) `say ""hi""` , }
")).
Eval vm_compute in ("<<<M432>>>" ++ check (runes_of_ascii "packet rootA
{ @rightPad ( '0' ) string
leftPad	@calculatedFrom(
""" ++ [233]%N ++ runes_of_ascii "t" ++ [233]%N ++ runes_of_ascii """ )
    `two words` , } packet // a // b
A{ @calculatedFrom( ""it's""	) char[] // @lengthOf(
msg_type
@lengthOf( asx ) `u8 x,` ,charz
    o ,@calculatedFrom(""`tick`"" )
    @lengthOf( // @lengthOf(
crc
// " ++ [27880; 37322]%N ++ runes_of_ascii "
// trailing space 
)
    //
    match // " ++ [128512]%N ++ runes_of_ascii " emoji
falsey as metadata	{
    // @lengthOf(
    [
65535
, 65535
] :u8x
, ""\n""
// @lengthOf(
// @lengthOf(
: int // " ++ [128512]%N ++ runes_of_ascii " emoji
,
    007 :MetaDataX,
    ""it's""
: f32a ,
    0
:
    i8i8 , [
65535
, 255 ] : u8x
,} ,
    }	packet charz { string
MetaDataX// a // b
,
    // packet A { u8 x, }
    repeat	char[] _x,
@rightPad(
)
    match pack as
    //	t
    string_ {""a	b""	: trueish ,
""it's""
// trailing space 
//
: A 10 :
    T
0
:// trailing space 
msg_type,
    [ 7 ,
    1 , ""1"" ,// `tick` ""quote"" 'q'
00// " ++ [27880; 37322]%N ++ runes_of_ascii "
, 10  ,4294967296
,
10 ]: Pad, }
,// a // b
A {
repeat u128
    { char[ 00 ] a1  `line1
line2`, //x
uint8x rootA `say ""hi""` , match uint8x as i64_
{""" ++ [28040; 24687]%N ++ runes_of_ascii """
: msg_type	,  ""\n"" : i8i8, } ,
i64 x_y_z `{ , }` ,}
// a // b
// a // b
, match zchar
//	t
// c
as Header{	3
:
    pack	, ""x y"" :packetx ,
    //x
    255  : u8x, ""abc"": Z9_ ,""x y"" :
msg_type [""a\\""
    ,
    10 // @lengthOf(
] // `tick` ""quote"" 'q'
:	o } , char[
    // `tick` ""quote"" 'q'
    0 ]
    leftPad `{ , }`, string stringy
@calculatedFrom(
    ""`tick`""
)
    `u8 x,` ,  }, repeat zchar[ 00] // packet A { u8 x, }
Packet ,repeat u16
tag , @tag(65535  ) repeat uint64
    MetaDataX , } MetaData pack { }")).
Eval vm_compute in ("<<<M490>>>" ++ check (runes_of_ascii "root
//
// c
packet
As
    { @calculatedFrom( ""{,}"" )
// packet A { u8 x, }
// @lengthOf(
Header { repeat uint8 uint8x
// a // b
// @lengthOf(
`// not a comment` ,
    } ,@tag(3 ) repeat i64 i64_
`it's`
// a // b
//	t
, @lengthOf( i8i8
// `tick` ""quote"" 'q'
// trailing space 
)  repeat i64
    //x
    metadata,repeat i8
chars`a\`
    // " ++ [27880; 37322]%N ++ runes_of_ascii "
    , repeat zchar[ //x
4294967296 ] x_y_z	, @leftPad( '0' /// triple
)  char[ 42 ] options1, repeat
o
    , } root packet float {
}	packet Packet {uint8x roots
,
zchar[ 0123456789 ]
    msg_type `a\`, @calculatedFrom( """ ++ [233]%N ++ runes_of_ascii "t" ++ [233]%N ++ runes_of_ascii """
)
//
// trailing space 
repeat Packet {
repeat int64 T  , repeat zchar[ 1 ]
falsey`it's` ,
    match leftPad as f32a {
    // " ++ [128512]%N ++ runes_of_ascii " emoji
    ""a\""b""
:MetaDataX , [ 65535 ]
    :
rootA
    , } , } , @tag(007 ) repeat char[
4294967296//x
] Z9_ , string Packet@calculatedFrom(
""CRC32""  ) `u8 x,` ,} root
    packet
    x
    {
pack tag//x
``, // `tick` ""quote"" 'q'
}
packet Z9_ { char[] BodyLength
,
    zchar @lengthOf( x  )	`" ++ [28040; 24687; 31867; 22411]%N ++ runes_of_ascii "`,
uint8 float
    // @lengthOf(
    ,
i64 u8x
    , @lengthOf(
leftPad
)
    //
    int @lengthOf( lengthOf ) , zchar { zchar[ 0 ] Z9_ ,
} ,
float // `tick` ""quote"" 'q'
`crlf
line`
, repeat Z9_ {  repeat options1 , i32 As
,string stringy @lengthOf(
leftPad
// a // b
// a // b
)`" ++ [28040; 24687; 31867; 22411]%N ++ runes_of_ascii "` , } , char[10 ] x , int ,} // c")).
Eval vm_compute in ("<<<M4238>>>" ++ check (runes_of_ascii "packet	_x
	{ repeat

o
int

, 
match
	int
as Logon
{""packet""
    :
        // a // b
	  // packet A { u8 x, }

  string_

}

,
	@leftPad ( 
'0' )	zchar[  1
] asx
,

    } 	 // @lengthOf(
	packet
    leftPad{
}root packet	i8i8{

@calculatedFrom(
	""it's""	)_x
len 	 // " ++ [27880; 37322]%N ++ runes_of_ascii "
		`crlf
line`,

    }
root  packet

    rootA	{char[] rootA  @lengthOf(
leftPad	)
	`u8 x,`,
match

    falsey

    as calculatedFrom { 42 : 
Foo

    }

,
repeat Z9_ {
    uint16

    _x	// " ++ [128512]%N ++ runes_of_ascii " emoji
	`doc`
    ,zchar[  // `tick` ""quote"" 'q'
		42	// " ++ [128512]%N ++ runes_of_ascii " emoji
  ]
    u8x

    , repeat
    zchar[ 
// @lengthOf(
  	// c

42
    /// triple
	  // " ++ [27880; 37322]%N ++ runes_of_ascii "
] Z9_
	`// not a comment` , }	// trailing space 
	,

    string  //
T  ,
	u8x  i8i8
	,
	@calculatedFrom(""CRC32""  ) u64 zchar
    ,
    //
// " ++ [128512]%N ++ runes_of_ascii " emoji
	}packet
	Packet {
repeat  Z9_	int ,
	int16
asx

    `// not a comment`
    , @lengthOf(options1
)  repeat

int8

As

    `" ++ [233]%N ++ runes_of_ascii "` 	 // @lengthOf(
  ,
@leftPad(

'\x00'
        // " ++ [27880; 37322]%N ++ runes_of_ascii "

//	t
  	)
	o
    {
repeat 
	//
	rootA
	`crlf
line` 
    //x
  ,
	Packet ,
} , @calculatedFrom(
	""`tick`""
	    //
)
@lengthOf(	T

)

    //	t
    repeatCount
_x

, _x

    {	i16	x_y_z@lengthOf(
a1)
`
` 
,
    } 
    // packet A { u8 x, }
      //
,
	}")).
Eval vm_compute in ("<<<M275>>>" ++ check (runes_of_ascii "options { u =""a\""b""
//	t
//
;
    Z9_ =""// no comment"" ; tag
    // " ++ [27880; 37322]%N ++ runes_of_ascii "
    =7 } root packet
    // trailing space 
    As { }
packet Header { @lengthOf(
    Foo )  rootA
@calculatedFrom( ""\" ++ [233]%N ++ runes_of_ascii """ ) , @calculatedFrom( ""CRC32""// a // b
)
    float64 crc
,  repeat char[ // packet A { u8 x, }
007
] Logon , //
@tag( 7
    )
//
// c
@calculatedFrom( ""{,}"" ) @lengthOf( stringy
) match //	t
A as
// " ++ [128512]%N ++ runes_of_ascii " emoji
// `tick` ""quote"" 'q'
f32a {
    // `tick` ""quote"" 'q'
    [""a\\""
,	1 , ""CRC32"" , 007 ,	""a	b"" , ""\" ++ [233]%N ++ runes_of_ascii """ ] :trueish, 4294967296
    :
// c
//x
u8x ,//
}  ,
@tag(
255 ) @lengthOf( u8x
    )
@calculatedFrom( ""x y""
    ) pack { uint16 uint8x
    ,
    }
, match
leftPad as
asx {""{,}"" : T 007
    //	t
    : // @lengthOf(
_x
    1  : options1
,
    [ 42	,007]// a // b
:calculatedFrom
, """ ++ [233]%N ++ runes_of_ascii "t" ++ [233]%N ++ runes_of_ascii """ :
    lengthOf } ,
    u8x {int64 charz
`line1
line2`,
} , repeat
    //x
    Header BodyLength `
`  ,
@rightPad  ( // `tick` ""quote"" 'q'
'\x00' ) @lengthOf( tag )
    match o // trailing space 
as
    uint8x {
[ 255 ] :
_x ,1 :
    matchKey ,
// " ++ [128512]%N ++ runes_of_ascii " emoji
//x
65535
:
// c
// @lengthOf(
tag
,  0123456789: zchar,
""a\\"" :metadata
    ,
    }	, }
")).
Eval vm_compute in ("<<<M571>>>" ++ check (runes_of_ascii "root
    packet
BodyLength // `tick` ""quote"" 'q'
{x_y_z
@calculatedFrom(""" ++ [233]%N ++ runes_of_ascii "t" ++ [233]%N ++ runes_of_ascii """)
    //x
    , //	t
@lengthOf( A
    )int8	options1`u8 x,`
, @rightPad ( )
// " ++ [128512]%N ++ runes_of_ascii " emoji
// " ++ [27880; 37322]%N ++ runes_of_ascii "
repeat
zchar[1 ]// " ++ [128512]%N ++ runes_of_ascii " emoji
asx//	t
`
` ,
i8i8@lengthOf( asx) `it's` ,
uint64 i8i8
    , int32
// trailing space 
// @lengthOf(
Packet @lengthOf(  x_y_z  )
,	@tag(1 )	repeat uint8 len
    , char[] matchKey ,char[
7  ] chars
    @calculatedFrom( """ ++ [233]%N ++ runes_of_ascii "t" ++ [233]%N ++ runes_of_ascii """
), } packet i8i8 { match body
as	repeatCount { [ ""a\\"",""// no comment"",0123456789 , ""x y"",""// no comment"", 7 , 1  ]:
Foo 007 : T,[
""a\""b"" , 0] : BodyLength ,
    } ,	repeat Z9_ {
charz @calculatedFrom(""\n"" )
`tab	here` , // `tick` ""quote"" 'q'
repeatCount Pad `tab	here`, i32 asx @lengthOf(
i64_ )
    ,  }
    , } packet uint8x
    {
@calculatedFrom(""" ++ [233]%N ++ runes_of_ascii "t" ++ [233]%N ++ runes_of_ascii """ )
zchar[ 0 ] metadata
, } options{ msg_type= true string_  = 007 a1 = ""// no comment"" ; } MetaData packetx{ BodyLength
body
    `line1
line2`/// triple
, float tag,x_y_z string_`crlf
line` , BodyLength f32a`" ++ [28040; 24687; 31867; 22411]%N ++ runes_of_ascii "`
// a // b
// packet A { u8 x, }
,
    char[ 255
]  stringy , }
")).
Eval vm_compute in ("<<<M3484>>>" ++ check (runes_of_ascii "// top
packet // c0
A // c1
{ // c2a
  // c2b
u8 a // c4
, // c5
}
    // c6
packet // c7
B
    // c8
{ u16
    // c10
b // c11
, }
    // c13
packet // c14a
  // c14b
C { // c16
u32 // c17a
  // c17b
c // c18
, // c19
} // c20a
  // c20b
root packet
    // c22
M // c23a
  // c23b
{
    // c24
u16 Kc // c26a
  // c26b
, // c27a
  // c27b
u16
    // c28
Kb // c29
,
    // c30
u16 // c31a
  // c31b
Ka // c32a
  // c32b
, // c33a
  // c33b
match Kc // c35a
  // c35b
as
    // c36
X // c37
{ 9 // c39
: // c40
A // c41
, // c42
10 // c43
: // c44
B // c45
, // c46a
  // c46b
} // c47a
  // c47b
, match // c49
Kb
    // c50
as Y // c52a
  // c52b
{ // c53
2 // c54a
  // c54b
: // c55a
  // c55b
C ,
    // c57
1
    // c58
: // c59a
  // c59b
A
    // c60
,
    // c61
}
    // c62
,
    // c63
match // c64a
  // c64b
Ka // c65
as // c66a
  // c66b
Z { 1 // c69
: // c70
B , // c72
} // c73
, // c74a
  // c74b
A // c75a
  // c75b
, // c76
B // c77a
  // c77b
, // c78
C
    // c79
, }
    // c81
")).
Eval vm_compute in ("<<<M1281>>>" ++ check (runes_of_ascii "MetaData Packet  { string leftPad
,metadata float
    // `tick` ""quote"" 'q'
    `` , char[ //x
1] u `
`
    , matchKey
u128
`" ++ [28040; 24687; 31867; 22411]%N ++ runes_of_ascii "` , matchKey
msg_type
    `say ""hi""` ,
}
root
    packet string_{ @tag(
1 )
    //x
    char[]
    lengthOf`// not a comment` , @calculatedFrom( ""{,}""//
)
    // " ++ [128512]%N ++ runes_of_ascii " emoji
    match string_ as T { 7 // a // b
: leftPad, },
    Logon @lengthOf(
    stringy ) `crlf
line` // c
,@lengthOf( body
) @tag( 255	)
//
// trailing space 
repeat f32a	, uint32 f32a// c
@lengthOf( asx
)
,
    repeat char Packet , @leftPad (	' ' ) f32 leftPad ,  @tag(7
) repeat Header , } packet x_y_z{ match /// triple
u8x as leftPad
    {
4294967296 :crc
    , ""\" ++ [233]%N ++ runes_of_ascii """ :
matchKey , } ,
    // " ++ [128512]%N ++ runes_of_ascii " emoji
    @calculatedFrom(
// `tick` ""quote"" 'q'
// " ++ [27880; 37322]%N ++ runes_of_ascii "
""1"" ) @tag(	00 )	@rightPad ( //
' ' )
BodyLength @lengthOf( uint8x ) ,
Header `line1
line2` ,	@calculatedFrom(
    """" ) repeat	int32 As
, } packet uint8x {
i16 Header
@lengthOf(calculatedFrom )
, }
")).
Eval vm_compute in ("<<<M3512>>>" ++ check (runes_of_ascii "options {
LittleEndian	=

true

;
	StringPrefixLenType =

u32

; FixedStringPadChar ='0'
;
	}packet
Logout {
repeat
    InMsgkind49
    {
	u8
pad0
,
}, repeat  char[
5

    ] seqNo	,
    repeat
u8
    price
,
}packet

    Party { zchar[
	7	] Qty  ,
	}
packet
	Logon { repeat
InRef10
    {	string
price ,
char[]	sym

, repeat	Logout,

    }	,

    repeat 
char[
    3 
]count
, repeat	Party ,  char[] tag7,
    @rightPad ( '0'
)  char[2 
]
	clOrdID
    ,
	} packet Order
{	InTail13	{

    Party ,  }
,
	repeat
	char[
4 ]count ,

}root  packet
Cancel 
{
Logout ,	@leftPad	(  '0')

char[	9 ]  msgKind	,

string

lastPx ,
    string tag7

    , 
zchar[ 1 ]OrderId
,
repeat
Party ,	u16
    sym,  u16
Acct@lengthOf(	Body ) ,
match
	sym 
as Body

    {
    [24

,	44 ]
    :Logout
,

160 :	Order ,91
	: Logon,
	43
: Party ,}, u16

Tail
    @calculatedFrom( ""CRC32"" 
)
    ,
	}

")).
Eval vm_compute in ("<<<M244>>>" ++ check (runes_of_ascii "MetaData falsey { string tag
`// not a comment` , } packet x
{ char[]int @lengthOf( u)
`u8 x,`
    ,
@calculatedFrom( ""abc"" ) @leftPad ('0')@tag( 255) repeat T {
f32a
`" ++ [233]%N ++ runes_of_ascii "`  ,
u128 @calculatedFrom( """ ++ [128512]%N ++ runes_of_ascii """ ) // a // b
,
    // c
    repeat
float { char[] x ,}
    ,
},@lengthOf( Header
)string_ @lengthOf(Logon )//	t
, body
Pad `" ++ [28040; 24687; 31867; 22411]%N ++ runes_of_ascii "`,
}packet matchKey { }
    //	t
    packet options1	{
    string	a1 @calculatedFrom( ""{,}"" ) ,}	packet x {match a1 as i64_ { 1
: Packet , ""abc"": crc ,
    }
    , int8
calculatedFrom@lengthOf( i8i8
    //	t
    ),
    @calculatedFrom( """"	)
@calculatedFrom( """ ++ [128512]%N ++ runes_of_ascii """ ) lengthOf
`a\`, char[1  ] u8x , zchar[ 007]// packet A { u8 x, }
metadata  @calculatedFrom(// a // b
""\n"" ) , @lengthOf(
len) @rightPad ( ) char[
    // " ++ [27880; 37322]%N ++ runes_of_ascii "
    10 // packet A { u8 x, }
]	Pad , repeat options1 `{ , }`,
    char[] tag @lengthOf( Packet ),}
")).
Eval vm_compute in ("<<<M3990>>>" ++ check (runes_of_ascii "packet o {
    repeat char[65535] rootA,
}

packet repeatCount {
    @tag(10)
    @lengthOf(_x)
    repeat int64 f32a `" ++ [233]%N ++ runes_of_ascii "`,
    @leftPad('0')
    @leftPad(' ')
    @tag(3)
    // trailing space 
    o `doc`,
    // a // b
    @calculatedFrom("""")
    string o,
    @lengthOf(msg_type)
    match A as T {
        [
            ""packet"", ""a\\"", 1, 10, ""x y"",
            3
        ] : leftPad,
        ""packet"" : calculatedFrom,
        //	t
        [255] : o,
        42 : int,
    },
    Z9_ float `a\`,
    char[] u,
    @lengthOf(i64_)
    string A @lengthOf(int) `it's`,
    @rightPad('0')
    roots {
        pack @lengthOf(As) `crlf
                line`,// c
        zchar[00] zchar @lengthOf(u8x),
    },
    @tag(0)
    @rightPad()
    @calculatedFrom(""" ++ [128512]%N ++ runes_of_ascii """)
    f32a lengthOf `{ , }`,
}
// `tick` ""quote"" 'q'")).
Eval vm_compute in ("<<<M1400>>>" ++ check (runes_of_ascii "options
    //	t
    {
    As = false } //	t
packet falsey { @lengthOf(float// packet A { u8 x, }
) @calculatedFrom( ""\n"" ) u32 As , match leftPad
as repeatCount {
    0 :  Z9_ , 1
: repeatCount , [// trailing space 
65535// c
]:
Pad	00
    :
    packetx ""a\\""
:
packetx,00 :crc , } ,
repeat Packet
    , repeat float /// triple
{ u128
    @calculatedFrom( """ ++ [28040; 24687]%N ++ runes_of_ascii """
    ) `say ""hi""` , u64	Foo `say ""hi""` ,  } , @leftPad(
'\x00'
)	@tag(
1 )@calculatedFrom(  ""`tick`""
    ) f64 lengthOf
, @rightPad(
'0' ) @leftPad (
) @lengthOf( f32a)repeat i64_ x_y_z, @rightPad ( '\x00'
)o@calculatedFrom( """"  ) `a\`	,
// a // b
//x
asx
    { repeat T
chars
`` ,repeat char[ 0 ]
string_ ,  } , repeat
char repeatCount `u8 x,` , zchar[7 ]
T@calculatedFrom(
// packet A { u8 x, }
//x
""a\\""
)  , }
")).
Eval vm_compute in ("<<<M633>>>" ++ check (runes_of_ascii "packet u{ uint64
    u8x , @leftPad (
'0' )u16
uint8x@lengthOf( T
    ), @lengthOf(
// `tick` ""quote"" 'q'
// `tick` ""quote"" 'q'
lengthOf) @lengthOf( msg_type)u16
tag @calculatedFrom(""a\""b""
    )
    // a // b
    `crlf
line` ,
} packet As {@calculatedFrom( ""a\\"")u128 { int16
string_
    // c
    @lengthOf( Header ) , repeat i64_ `{ , }`,
    },/// triple
} root packet
    roots { @calculatedFrom( //	t
""`tick`"" ) i32 Header `" ++ [233]%N ++ runes_of_ascii "` ,int8 T ,  @rightPad
( ' ' ) u32
    charz`doc`, char[ 65535 ]f32a
    , metadata,
}  MetaData T { u8x roots
`it's` ,
options1 MetaDataX , int32 f32a , } options { // trailing space 
f32a = '0' Pad =
//x
// trailing space 
0123456789 ;
    repeatCount
    // a // b
    = char[] x_y_z
//x
// " ++ [27880; 37322]%N ++ runes_of_ascii "
=
'\x00'
}
")).
Eval vm_compute in ("<<<M137>>>" ++ check (runes_of_ascii "root packet x_y_z{
    }packet calculatedFrom {char[] Foo @lengthOf( Pad
    ) ,} root packet // @lengthOf(
u128 // @lengthOf(
{} packet u8x { @lengthOf(asx ) match charz
    as msg_type { // @lengthOf(
[ 0123456789
    ] : i64_	,
    [ 0]
: a1  }
,f32 Pad , //x
match /// triple
falsey as BodyLength
    { """ ++ [233]%N ++ runes_of_ascii "t" ++ [233]%N ++ runes_of_ascii """
:// trailing space 
charz 10 :
    roots ,
10
: x_y_z// " ++ [27880; 37322]%N ++ runes_of_ascii "
,
    ""`tick`"" :_x ,""// no comment""
: chars [
    10,
    1
]:	Foo ,	}	, repeat u64	u8x
    `doc`
,
    @lengthOf(
body) uint64 options1  `` ,
@calculatedFrom(
""a\""b"")
    // trailing space 
    match  Packet as x_y_z{[ 007 ]
    // a // b
    :
tag  ,[ ""a\""b"" ] : rootA , //	t
"""" : x_y_z // " ++ [27880; 37322]%N ++ runes_of_ascii "
65535 :
asx  ,	""" ++ [233]%N ++ runes_of_ascii "t" ++ [233]%N ++ runes_of_ascii """ : o  , } , }
")).
Eval vm_compute in ("<<<M4212>>>" ++ check (runes_of_ascii "// " ++ [128512]%N ++ runes_of_ascii " emoji
packet u128 {
    repeat MetaDataX,
    int64 leftPad,//	t
    @lengthOf(matchKey)
    //
    @calculatedFrom(""" ++ [28040; 24687]%N ++ runes_of_ascii """)
    match T as Header {
        255 : repeatCount,
        ""it's"" : roots,
    },
}

//
//	t
packet MetaDataX {
    repeat chars asx `tab	here`,
    repeat o {
        repeat _x {
            repeat uint32 charz `u8 x,`,
            zchar[42] leftPad @calculatedFrom(""" ++ [28040; 24687]%N ++ runes_of_ascii """) `doc`,/// triple
        },
    },
    int16 u @lengthOf(f32a) `tab	here`,
    match f32a as i64_ {
        00 : len,
    },
}

MetaData pack {
    f32a packetx,
    zchar[10] Header `tab	here`,
    zchar[007] string_ `crlf
    line`,
    char[] matchKey,
    float64 float,
}")).
Eval vm_compute in ("<<<M140>>>" ++ check (runes_of_ascii "options  { }
MetaData metadata  {	float32 u128 `" ++ [28040; 24687; 31867; 22411]%N ++ runes_of_ascii "` ,
}packet
roots {
i64 uint8x``
// `tick` ""quote"" 'q'
// `tick` ""quote"" 'q'
, @tag(  3) // packet A { u8 x, }
@tag(
    0123456789	) stringy @lengthOf(Header )`u8 x,` , f64 u //x
`tab	here`,  match  u8x as u8x
    // `tick` ""quote"" 'q'
    { 10 : string_ , }, zchar[
7 ]  u@calculatedFrom( // a // b
""packet"" ) ,  @leftPad
    ( ) repeat asx _x
    ,zchar[ // `tick` ""quote"" 'q'
7] uint8x
,body
{repeat zchar[
3]
    As , string Header
,
    char[] u, }
, repeat Logon{
repeat zchar[65535 ] packetx `// not a comment` , }
, } // packet A { u8 x, }
MetaData
msg_type{
f64
    crc	`{ , }`
, }
")).
Eval vm_compute in ("<<<M4070>>>" ++ check (runes_of_ascii "MetaData o {
    uint8 asx,// " ++ [27880; 37322]%N ++ runes_of_ascii "
}

MetaData _x {
    A Z9_ `a\`,
}

packet string_ {
    repeat x_y_z f32a,
    charz {
        msg_type @lengthOf(A),
    },
    uint16 stringy,
    @calculatedFrom(""" ++ [233]%N ++ runes_of_ascii "t" ++ [233]%N ++ runes_of_ascii """)
    leftPad msg_type,
    @tag(7)
    @calculatedFrom(""" ++ [28040; 24687]%N ++ runes_of_ascii """)
    i64_,
    repeat trueish x `doc`,
    uint16 metadata @lengthOf(i8i8) `tab	here`,
    repeat tag Logon,
    repeat repeatCount metadata ``,// trailing space 
}

packet roots {
    repeat x_y_z {
        // `tick` ""quote"" 'q'
        char[4294967296] stringy `line1
        line2`,
        uint16 body,
    },
    @leftPad(' ')
    MetaDataX stringy,
}")).
Eval vm_compute in ("<<<M296>>>" ++ check (runes_of_ascii "root
packet i64_ // " ++ [27880; 37322]%N ++ runes_of_ascii "
{match // " ++ [128512]%N ++ runes_of_ascii " emoji
rootA as stringy {
    10 : int , 7 : chars
, 7: int 4294967296: // @lengthOf(
Foo , [// trailing space 
7 , """ ++ [28040; 24687]%N ++ runes_of_ascii """  ]  :// c
BodyLength [ 0 ,""1""
    , 00 , 7
    ,""it's"" ] :
As ,
    } ,
repeat char[] a1`u8 x,`, @leftPad
// packet A { u8 x, }
// " ++ [27880; 37322]%N ++ runes_of_ascii "
(
    // trailing space 
    ' '	) packetx , @calculatedFrom(  ""\n"")  repeat matchKey
    { char[7
    // `tick` ""quote"" 'q'
    ] falsey
    `crlf
line` , } ,
// c
/// triple
@lengthOf( f32a ) uint8
Z9_
,
// a // b
//	t
falsey ,	repeat leftPad ,  @tag(1 ) u8x@lengthOf(  i64_
) , }
")).
Eval vm_compute in ("<<<M1266>>>" ++ check (runes_of_ascii "packet matchKey { @rightPad ( ' ' )
    @tag( 65535 ) _x @lengthOf( options1 )
`" ++ [28040; 24687; 31867; 22411]%N ++ runes_of_ascii "`,
@lengthOf( o ) tag /// triple
Logon ,
}
packet
pack // @lengthOf(
{ @tag(
7 ) zchar[ 0
] u @calculatedFrom( ""\n"" )
    `a\` ,repeat stringy ,repeat i8i8 a1 ,char[ 0 ] pack @calculatedFrom(
""\n"" )`line1
line2` , }packet u128{
@lengthOf(
metadata)
int8 Foo
`
` , @leftPad( '\x00') zchar , len // c
Header ,  repeat
    chars
``,
f64 trueish@calculatedFrom( ""`tick`"")
    // " ++ [27880; 37322]%N ++ runes_of_ascii "
    , @lengthOf(
matchKey// @lengthOf(
) uint32 i8i8
, asx int `a\`, }
")).
Eval vm_compute in ("<<<M1147>>>" ++ check (runes_of_ascii "root
    // trailing space 
    packet
    a1 { int16
u8x , match
    pack as i8i8{ ""packet""
    :
i64_ [ 1,
    //
    7 // @lengthOf(
,007	, 0123456789 , """ ++ [233]%N ++ runes_of_ascii "t" ++ [233]%N ++ runes_of_ascii """
    , 0 ] :
chars
    , [
    7 ,
""a\\"" , ""a\""b"", 007  , 0	,""// no comment"" ] : A	,}  ,
int64 metadata , @lengthOf(roots )len ,repeat
    //
    As// trailing space 
`it's`  , //	t
repeat calculatedFrom
    {repeat
//x
// " ++ [27880; 37322]%N ++ runes_of_ascii "
options1 stringy , calculatedFrom matchKey
    `" ++ [28040; 24687; 31867; 22411]%N ++ runes_of_ascii "` , float32
options1 @lengthOf( // trailing space 
float
)
    , } , } 	 ")).
Eval vm_compute in ("<<<M4470>>>" ++ check (runes_of_ascii "

  MetaData

    asx

{
//x
}

packet falsey
	{
@tag(	00
    )

char[1]
options1`crlf
line`	,	// `tick` ""quote"" 'q'
		@tag(	3

    )asx {

Header
    @lengthOf(
    pack)
`say ""hi""`  ,

match

    Pad
as calculatedFrom
        // " ++ [27880; 37322]%N ++ runes_of_ascii "
	{

""{,}""
    :

    string_

    [

""x y"" ,
    007]
	:msg_type ,
""abc""	: string_

,[ 

    // c
	  /// triple
	42

,  1
    , ""// no comment"" 
,	""\" ++ [233]%N ++ runes_of_ascii """ ,	""`tick`""
,
""`tick`""
,	""a\""b""] 
: 
Packet
	,
255:
options1  } 
,

    } ,
}
")).
Eval vm_compute in ("<<<M459>>>" ++ check (runes_of_ascii "packet o{
    @rightPad(  '0'
    ) @tag(00 ) uint16 i64_ `two words` , //	t
As `{ , }` , }//	t
packet len {
lengthOf`crlf
line` , metadata ,i32
    float ,int16 msg_type `" ++ [233]%N ++ runes_of_ascii "` , zchar[ 007 ]
float `line1
line2` ,  char[] // c
falsey ,
    @rightPad/// triple
(' '
) roots stringy`" ++ [233]%N ++ runes_of_ascii "`
,	@calculatedFrom(
    // trailing space 
    """") zchar[ 42 ] trueish , @tag(
1) f32
    // @lengthOf(
    x ,} options
{ A =
    ""abc""
// packet A { u8 x, }
// " ++ [27880; 37322]%N ++ runes_of_ascii "
;
    Packet =42
}")).
Eval vm_compute in ("<<<M427>>>" ++ check (runes_of_ascii "packet asx{
    //	t
    repeat
float64
    uint8x //
,}	packet u128 // packet A { u8 x, }
{ BodyLength , match
BodyLength as
    metadata {0123456789 : calculatedFrom [
10, ""packet""
,
// @lengthOf(
// @lengthOf(
""// no comment"" , ""CRC32"" ,
    // `tick` ""quote"" 'q'
    """ ++ [128512]%N ++ runes_of_ascii """ , 10,
""\n"" ] : BodyLength , 42 // " ++ [27880; 37322]%N ++ runes_of_ascii "
:crc
,
""packet""
// `tick` ""quote"" 'q'
// " ++ [27880; 37322]%N ++ runes_of_ascii "
: x_y_z
// a // b
// " ++ [128512]%N ++ runes_of_ascii " emoji
,	[ 3 ,  ""x y""// a // b
,""packet"" , 3 ,
    ""1"" ]: asx , }
,}
")).
Eval vm_compute in ("<<<M4440>>>" ++ check (runes_of_ascii "  root
	packet

    asx
	{
    @calculatedFrom( ""CRC32"" 
        // " ++ [27880; 37322]%N ++ runes_of_ascii "
    // packet A { u8 x, }
		)

match 
chars  as trueish{ """"

:

T
,42
	:
f32a ,
""{,}"" :
calculatedFrom
    255 :  // c
  	A
,}
	,	}root
packet
matchKey 
{
u16	len

@lengthOf( metadata
    )  `// not a comment` ,}  options {
Z9_

    =""it's""
packetx
	= 
""" ++ [28040; 24687]%N ++ runes_of_ascii """ ;
    falsey 
// a // b
    	// c
=	//
	char[  0]  ;
MetaDataX

= ""a\\""
A =
    true

;
    }")).
Eval vm_compute in ("<<<M467>>>" ++ check (runes_of_ascii "root/// triple
packet//	t
options1 { float64 u128`" ++ [28040; 24687; 31867; 22411]%N ++ runes_of_ascii "`// a // b
,	@tag(  0 ) //	t
match int as
    float { 4294967296 //
:	metadata, ""a\\"" : x// packet A { u8 x, }
, 3
: u
    // packet A { u8 x, }
    ,
// c
// " ++ [128512]%N ++ runes_of_ascii " emoji
0 :falsey } ,
    } options
// @lengthOf(
//x
{
    As
// " ++ [128512]%N ++ runes_of_ascii " emoji
//
=
// a // b
// `tick` ""quote"" 'q'
float64 ;
//	t
//	t
Logon	=""// no comment"" ; float = char[255 ] string_ =
007;  u = '\x00' }
")).
Eval vm_compute in ("<<<M3794>>>" ++ check (runes_of_ascii "packet len {
    repeat crc,
    zchar[7] roots `" ++ [233]%N ++ runes_of_ascii "`,
    u {
        string_ x_y_z,
    },
}

root packet len {
    falsey `a\`,
    @rightPad(' ')
    @rightPad()
    // packet A { u8 x, }
    // `tick` ""quote"" 'q'
    @tag(007)
    repeat float {
        msg_type `" ++ [28040; 24687; 31867; 22411]%N ++ runes_of_ascii "`,
        int8 i8i8 `say ""hi""`,
        match u128 as crc {
            007 : tag,
        },
        char[] As `it's`,
    },
}")).
Eval vm_compute in ("<<<M986>>>" ++ check (runes_of_ascii "//
packet asx { // c
match rootA
    as
u8x
    {
0123456789 :  As, } , @lengthOf(zchar ) i32 Z9_
    @calculatedFrom(
""`tick`""// packet A { u8 x, }
)	, repeat
string_ //x
{  repeat zchar[00] Logon `a\`, u16 packetx `` , } , _x ,repeat
string
    msg_type ,
u64 chars @lengthOf( chars)
    , asx falsey
    `tab	here` /// triple
,i32 u,
//
// trailing space 
} MetaData charz {
}")).
Eval vm_compute in ("<<<M4383>>>" ++ check (runes_of_ascii "packet Logon {
    // c2
    string user,// c5a
    // c5b
}

// c6
root packet Frame {
    // c10
    u8 K,// c13
    match K as Body {
        1 : Logon,
        // c22a
        // c22b
        2 : Logout,
    },
    // c28
    Tail,
}

packet Logout {
    // c34
    u16 reason,// c37
}// c38a

// c38b
packet Tail {
    u32 crc,// c44a
    // c44b
}// c45a
// c45b")).
Eval vm_compute in ("<<<M806>>>" ++ check (runes_of_ascii "  MetaData  As/// triple
{
    zchar[ 255 ] repeatCount ,u32 lengthOf`u8 x,`
// " ++ [27880; 37322]%N ++ runes_of_ascii "
// c
, o crc
    , a1	u ,BodyLength matchKey ,
char[ 00
//	t
// " ++ [128512]%N ++ runes_of_ascii " emoji
]options1
    `
` // `tick` ""quote"" 'q'
, }packet u8x {
char[0 ] As @calculatedFrom( ""packet""	) , @calculatedFrom( ""\" ++ [233]%N ++ runes_of_ascii """ )@lengthOf(
int )	repeat
    //x
    trueish
T
,float32 o
`u8 x,` ,}
//	t
")).
Eval vm_compute in ("<<<M748>>>" ++ check (runes_of_ascii "root packet BodyLength {
    @rightPad ( '\x00'  )
    repeat char[]len	`" ++ [233]%N ++ runes_of_ascii "`, int32	lengthOf `` //x
, } root packet matchKey{repeat string u8x `line1
line2` , Header// @lengthOf(
{ u128 T
, // trailing space 
} , }
packet
uint8x{
    @lengthOf(
    Header
)  a1@calculatedFrom( """" )
    // `tick` ""quote"" 'q'
    `" ++ [233]%N ++ runes_of_ascii "` ,
//
// " ++ [128512]%N ++ runes_of_ascii " emoji
}")).
Eval vm_compute in ("<<<M1138>>>" ++ check (runes_of_ascii "MetaData
metadata{
    char[3// " ++ [128512]%N ++ runes_of_ascii " emoji
] roots , As zchar,
u
msg_type	`say ""hi""` , float32 options1 ``	, char[]
packetx
    ,
}root
packet f32a {
    char[]
MetaDataX `{ , }` , }
/// triple
// c
packet _x{
@lengthOf( A
) i64 x
    ,
    int @lengthOf( // " ++ [128512]%N ++ runes_of_ascii " emoji
MetaDataX), repeat BodyLength{ f32 lengthOf , } , }
")).
Eval vm_compute in ("<<<M135>>>" ++ check (runes_of_ascii "packet T{ } packet string_ { @tag(7	)repeat uint8 rootA
    // " ++ [27880; 37322]%N ++ runes_of_ascii "
    ,@lengthOf(	o
    )
    float
u ,// trailing space 
Packet @calculatedFrom(
    ""a\\"" ) ,
    f32	repeatCount `say ""hi""` /// triple
, } packet MetaDataX	{match	leftPad as Packet { 007
: // `tick` ""quote"" 'q'
x ,
} , // trailing space 
}")).
Eval vm_compute in ("<<<M1292>>>" ++ check (runes_of_ascii "packet body {
i32
options1 , } packet
int {repeat
    f32a
{ options1@calculatedFrom(
    ""abc"" // " ++ [27880; 37322]%N ++ runes_of_ascii "
)
    // a // b
    ,
    zchar[4294967296 ]calculatedFrom , x_y_z
@calculatedFrom(""packet""	) `say ""hi""` , }
,
}packet x_y_z{
repeat
    float64 MetaDataX
    `crlf
line` //	t
, crc A ``
,
    }
")).
Eval vm_compute in ("<<<M1507>>>" ++ check (runes_of_ascii "root packet Foo // " ++ [128512]%N ++ runes_of_ascii " emoji
{ } options {
    // a // b
    tag // `tick` ""quote"" 'q'
= //	t
""""
    ; u8x = zchar[0  ] }
MetaData
    int i32 zchar[ 10]
lengthOf	`` , i64 u8x`// not a comment` ,MetaDataX pack// `tick` ""quote"" 'q'
`crlf
line`
, Logon charz `crlf
line`
    ,
    // a // b
    }
")).
Eval vm_compute in ("<<<M1613>>>" ++ check (runes_of_ascii "root packet Foo // " ++ [128512]%N ++ runes_of_ascii " emoji
{ } options {
    // a // b
    tag // `tick` ""quote"" 'q'
= //	t
""""
    ; u8x = zchar[0  ] }
MetaData
    int {zchar[ 10]
lengthOf	`` , i64 u8x`// not a comment` ,MetaDataX pack// `tick` ""quote"" 'q'
`crlf
line`
, Logon charz `crlf
line`
    ,
    // a // b
   '' }
")).
Eval vm_compute in ("<<<M1466>>>" ++ check (runes_of_ascii "root packet Foo // " ++ [128512]%N ++ runes_of_ascii " emoji
{ } options {
    // a // b
    tag // `tick` ""quote"" 'q'
= //	t
""""
    ; = u8x zchar[0  ] }
MetaData
    int {zchar[ 10]
lengthOf	`` , i64 u8x`// not a comment` ,MetaDataX pack// `tick` ""quote"" 'q'
`crlf
line`
, Logon charz `crlf
line`
    ,
    // a // b
    }
")).
Eval vm_compute in ("<<<M1429>>>" ++ check (runes_of_ascii "root packet Foo // " ++ [128512]%N ++ runes_of_ascii " emoji
{  options {
    // a // b
    tag // `tick` ""quote"" 'q'
= //	t
""""
    ; u8x = zchar[0  ] }
MetaData
    int {zchar[ 10]
lengthOf	`` , i64 u8x`// not a comment` ,MetaDataX pack// `tick` ""quote"" 'q'
`crlf
line`
, Logon charz `crlf
line`
    ,
    // a // b
    }
")).
Eval vm_compute in ("<<<M1444>>>" ++ check (runes_of_ascii "root packet Foo // " ++ [128512]%N ++ runes_of_ascii " emoji
{ } options {
    // a // b
     // `tick` ""quote"" 'q'
= //	t
""""
    ; u8x = zchar[0  ] }
MetaData
    int {zchar[ 10]
lengthOf	`` , i64 u8x`// not a comment` ,MetaDataX pack// `tick` ""quote"" 'q'
`crlf
line`
, Logon charz `crlf
line`
    ,
    // a // b
    }
")).
Eval vm_compute in ("<<<M389>>>" ++ check (runes_of_ascii "MetaData int
{ //x
u8x
float , zchar[3 ] body	`" ++ [28040; 24687; 31867; 22411]%N ++ runes_of_ascii "`, Z9_ leftPad // c
, f32a
    msg_type , i64_ // " ++ [27880; 37322]%N ++ runes_of_ascii "
chars, u8x	o,
    // packet A { u8 x, }
    } options{ Z9_
    // packet A { u8 x, }
    = false ;
MetaDataX = // packet A { u8 x, }
'\x00' ; f32a=
    """ ++ [28040; 24687]%N ++ runes_of_ascii """
; x_y_z = ' ';}

")).
Eval vm_compute in ("<<<M3945>>>" ++ check (runes_of_ascii "
packet Sub { u8

a 
,
@calculatedFrom( ""CRC16""
)

    i16 
SubSum 
,

    }
	root

    packet
	Frame{
	u16
MsgType 
,
u16 BodyLen

    @lengthOf(  Body

)

    ,

Sub 
Body
	, string
    note

    ,
@calculatedFrom(  ""CRC16"" )
    i16  Checksum ,u8	tail,
	}")).
Eval vm_compute in ("<<<M1294>>>" ++ check (runes_of_ascii "packet _x { // packet A { u8 x, }
repeat
    u8
// @lengthOf(
//	t
Logon ,match Packet as repeatCount
{
    65535 : leftPad
    ,[ 7 ]: rootA 4294967296	: Header ,[	00 // trailing space 
]:u8x
    ,42 : MetaDataX , 007 :
// " ++ [27880; 37322]%N ++ runes_of_ascii "
// " ++ [27880; 37322]%N ++ runes_of_ascii "
uint8x , // @lengthOf(
} ,}")).
Eval vm_compute in ("<<<M344>>>" ++ check (runes_of_ascii "packet
chars {repeat float32  x_y_z
    , @tag( 0123456789
    )	char[
255	] rootA `{ , }` , } options  { x= zchar[
    00
] ;
Packet= '\x00' ; }
    options{Z9_ =// packet A { u8 x, }
""CRC32"" ;
    As = // `tick` ""quote"" 'q'
uint32 ; } // a // b")).
Eval vm_compute in ("<<<M3763>>>" ++ check (runes_of_ascii "root packet Foo {
}

options {
    // a // b
    tag = """";
    u8x = zchar[0]
}

MetaData int {
    zchar[10] lengthOf ``,
    i64 u8x `// not a comment`,
    MetaDataX pack `crlf
    line`,
    charz Logon `crlf
    line`,
    // a // b
}")).
Eval vm_compute in ("<<<M3874>>>" ++ check (runes_of_ascii "MetaData len {
    f64 u,
    char[] Z9_ `doc`,
    metadata A,
    i64 stringy `line1
    line2`,
    A int `line1
    line2`,
    f32 i8i8,
}

packet stringy {
    @calculatedFrom(""" ++ [128512]%N ++ runes_of_ascii """)
    char[] roots,
}

root packet metadata {
}")).
Eval vm_compute in ("<<<M2389>>>" ++ check (runes_of_ascii "MetaData Packet { @lengthOf}packet	asx  { @lengthOf( asx) falsey`crlf
line`
,
    }
    packet x	{uint32// @lengthOf(
rootA	,u32 options1 `say ""hi""` , @tag( 7
    )// packet A { u8 x, }
msg_type @lengthOf(
stringy	)	, }

")).
Eval vm_compute in ("<<<M2236>>>" ++ check (runes_of_ascii "MetaData Packet { }packet	asx asx  { @lengthOf( asx) falsey`crlf
line`
,
    }
    packet x	{uint32// @lengthOf(
rootA	,u32 options1 `say ""hi""` , @tag( 7
    )// packet A { u8 x, }
msg_type @lengthOf(
stringy	)	, }

")).
Eval vm_compute in ("<<<M313>>>" ++ check (runes_of_ascii "
packet	stringy
//	t
// " ++ [128512]%N ++ runes_of_ascii " emoji
{ match calculatedFrom // a // b
as MetaDataX { [ ""a\\"", """ ++ [28040; 24687]%N ++ runes_of_ascii """,// `tick` ""quote"" 'q'
""CRC32"" ,
10 ]:x,
    /// triple
    0
:  falsey
, 1 :u8x ,
//x
// c
65535
    :	Foo , }
,
    }")).
Eval vm_compute in ("<<<M2272>>>" ++ check (runes_of_ascii "MetaData Packet { }packet	asx  { @lengthOf( asx) falsey`crlf
line`
}
    ,
    packet x	{uint32// @lengthOf(
rootA	,u32 options1 `say ""hi""` , @tag( 7
    )// packet A { u8 x, }
msg_type @lengthOf(
stringy	)	, }

")).
Eval vm_compute in ("<<<M2290>>>" ++ check (runes_of_ascii "MetaData Packet { }packet	asx  { @lengthOf( asx) falsey`crlf
line`
,
    }
    packet x	uint32// @lengthOf(
rootA	,u32 options1 `say ""hi""` , @tag( 7
    )// packet A { u8 x, }
msg_type @lengthOf(
stringy	)	, }

")).
Eval vm_compute in ("<<<M2300>>>" ++ check (runes_of_ascii "MetaData Packet { }packet	asx  { @lengthOf( asx) falsey`crlf
line`
,
    }
    packet x	{uint32// @lengthOf(
	,u32 options1 `say ""hi""` , @tag( 7
    )// packet A { u8 x, }
msg_type @lengthOf(
stringy	)	, }

")).
Eval vm_compute in ("<<<M26>>>" ++ check (runes_of_ascii "  packet lengthOf// " ++ [27880; 37322]%N ++ runes_of_ascii "
{ @leftPad(
)
    // a // b
    @tag( 7
//x
/// triple
)
u8 BodyLength ,
    char[ 1
] chars
`
`,
@tag( 00 )char[ 0]
    // packet A { u8 x, }
    Z9_ @lengthOf(
float) `u8 x,` ,
}")).
Eval vm_compute in ("<<<M1189>>>" ++ check (runes_of_ascii "options {
}root packet x_y_z { //
int32 f32a
    `u8 x,` , @calculatedFrom( ""{,}"" ) Header @calculatedFrom( """" ) ,//	t
zchar[
4294967296] //x
roots@lengthOf( string_
)
    , }packet rootA
{
    }
")).
Eval vm_compute in ("<<<M1563>>>" ++ check (runes_of_ascii "root packet Foo // " ++ [128512]%N ++ runes_of_ascii " emoji
{ } options {
    // a // b
    tag // `tick` ""quote"" 'q'
= //	t
""""
    ; u8x = zchar[0  ] }
MetaData
    int {zchar[ 10]
lengthOf	`` , i64 u8x`// not a comment` ,")).
Eval vm_compute in ("<<<M3685>>>" ++ check (runes_of_ascii "packet A {
    Inner {
        u8 x `a
                
                b`,
        Deep {
            u8 y `a
                        
                        b`,
        },
    },
}")).
Eval vm_compute in ("<<<M1114>>>" ++ check (runes_of_ascii "
packet stringy{ @tag( 0
    )// packet A { u8 x, }
repeatCount ,@calculatedFrom( """"
)body	falsey,
    @lengthOf(// " ++ [27880; 37322]%N ++ runes_of_ascii "
chars
) repeat x_y_z `two words`	, repeatCount Pad , }
")).
Eval vm_compute in ("<<<M4006>>>" ++ check (runes_of_ascii "// packet A { u8 x, }
packet BodyLength {
    @tag(255)
    repeat uint64 f32a,
}

packet chars {
}

MetaData zchar {
    char[] tag `a\`,
    body Logon `tab	here`,
}")).
Eval vm_compute in ("<<<M1237>>>" ++ check (runes_of_ascii "
MetaData
    int {
    string Z9_  `say ""hi""`, char[]// @lengthOf(
uint8x // packet A { u8 x, }
`// not a comment` , char[]Foo , trueish T , // " ++ [27880; 37322]%N ++ runes_of_ascii "
asx asx , }
")).
Eval vm_compute in ("<<<M4503>>>" ++ check (runes_of_ascii "packet 
A {
    match
k
    as n
    { 
[ ""a"" ,
	""bb"" 
,007

    ,	""d""

,""e"" 
,

    66 ,

""g""

, ""h"", 9  ,

    ""j""
    , ""k"" ] 
:
B
	,2:C
}, } ")).
Eval vm_compute in ("<<<M775>>>" ++ check (runes_of_ascii "packet
Logon
    { // " ++ [27880; 37322]%N ++ runes_of_ascii "
repeat MetaDataX { /// triple
MetaDataX @lengthOf(// @lengthOf(
matchKey ), } , @lengthOf(len) repeat zchar[00	]u8x , }
")).
Eval vm_compute in ("<<<M4280>>>" ++ check (runes_of_ascii "MetaData chars {
    char[] Header `say ""hi""`,
    char[] matchKey,
    char[1] u8x,
    zchar A,
    x falsey,
    zchar[42] calculatedFrom,
}")).
Eval vm_compute in ("<<<M3675>>>" ++ check (runes_of_ascii "options {
    charz = 00;
    leftPad = zchar[0123456789];
    //x
    /// triple
}

options {
    falsey = u32;
}

root packet float {
}")).
Eval vm_compute in ("<<<M1315>>>" ++ check (runes_of_ascii "packet
lengthOf  { @calculatedFrom(
""packet"" // `tick` ""quote"" 'q'
) @lengthOf( /// triple
options1 ) char[]int , } packet
u8x {	}
")).
Eval vm_compute in ("<<<M1180>>>" ++ check (runes_of_ascii "packet
x{ @calculatedFrom("""" )repeat
asx	{ //x
char[ 255 ] x
    ,}// packet A { u8 x, }
,  }
    options  { Pad = // " ++ [27880; 37322]%N ++ runes_of_ascii "
1//	t
}")).
Eval vm_compute in ("<<<M1644>>>" ++ check (runes_of_ascii "root packet /// triple
rootA {	MetaDataX
i32@calculatedFrom( ""CRC32"" ) `line1
line2` , } MetaData BodyLength {
u8
rootA, } // c")).
Eval vm_compute in ("<<<M888>>>" ++ check (runes_of_ascii "MetaData u8x {
_x Z9_, char[ 7] Logon `it's` ,char[] zchar ,
    u
Z9_`two words`
, u16 f32a `a\` , zchar[ 42 ]
    f32a ,}
")).
Eval vm_compute in ("<<<M1395>>>" ++ check (runes_of_ascii "options
{ repeatCount
=
u16 // `tick` ""quote"" 'q'
; float  =  ' ' Logon = string
;packetx = // " ++ [128512]%N ++ runes_of_ascii " emoji
3//
a1=  zchar[7	] }")).
Eval vm_compute in ("<<<M3436>>>" ++ check (runes_of_ascii "packet B {
    u8 a,
}
root packet P {
    u8 K,
    u64 L @lengthOf(Body),
    match K as Body {
        1 : B,
    },
}
")).
Eval vm_compute in ("<<<M4301>>>" ++ check (runes_of_ascii "
packet
	A

    {	match k
as 
n

{	[

1 ,22  , 007,
4

,

5

    ,66

    ]  :

    B
	,
    2
    :  C }
,
}

")).
Eval vm_compute in ("<<<M1853>>>" ++ check (runes_of_ascii "packet
    Pad // a // b
{ i8i8 @calculatedFrom( ""a	b"") `u8 x,` ,
} options{ float// " ++ [128512]%N ++ runes_of_ascii " emoji
= root i64_
=//	t
00 }
")).
Eval vm_compute in ("<<<M1827>>>" ++ check (runes_of_ascii "packet
    Pad // a // b
{ i8i8 @calculatedFrom( ""a	b"") `u8 x,` ,
options }{ float// " ++ [128512]%N ++ runes_of_ascii " emoji
= f64 i64_
=//	t
00 }
")).
Eval vm_compute in ("<<<M3993>>>" ++ check (runes_of_ascii "packet
Logon

{@tag(42
)@rightPad
	(
' ' // c

	) @leftPad

    ()

    repeat  trueish {	string 
T ,

}	,  } ")).
Eval vm_compute in ("<<<M1795>>>" ++ check (runes_of_ascii "packet
    Pad // a // b
{  @calculatedFrom( ""a	b"") `u8 x,` ,
} options{ float// " ++ [128512]%N ++ runes_of_ascii " emoji
= f64 i64_
=//	t
00 }
")).
Eval vm_compute in ("<<<M250>>>" ++ check (runes_of_ascii "
MetaData	Logon {	zchar[ 10 ]float `" ++ [233]%N ++ runes_of_ascii "` , BodyLength Z9_ , float32 o `a\` ,uint64 roots `two words` // " ++ [27880; 37322]%N ++ runes_of_ascii "
,  }
")).
Eval vm_compute in ("<<<M1869>>>" ++ check (runes_of_ascii "packet
    Pad // a // b
{ i8i8 @calculatedFrom( ""a	b"") `u8 x,` ,
} options{ float// " ++ [128512]%N ++ runes_of_ascii " emoji
= f64 i64_
=")).
Eval vm_compute in ("<<<M1473>>>" ++ check (runes_of_ascii "root packet Foo // " ++ [128512]%N ++ runes_of_ascii " emoji
{ } options {
    // a // b
    tag // `tick` ""quote"" 'q'
= //	t
""""
    ; u8x")).
Eval vm_compute in ("<<<M3351>>>" ++ check (runes_of_ascii "packet calculatedFrom { @tag( 4294967296 ) u // c
msg_type , char[ 3 ] crc @lengthOf( len ) `u8 x,` , }")).
Eval vm_compute in ("<<<M2973>>>" ++ check (runes_of_ascii "packet A {
  match k as n {
    [""a"", ""bb"", 007, ""d"", ""e"", 66, ""g"", ""h"", 9, ""j""] : B,
    2 : C
  },
}")).
Eval vm_compute in ("<<<M178>>>" ++ check (runes_of_ascii "packet As {
int16
A , }packet u	{ @lengthOf( Pad
)
    f64
    metadata	@lengthOf( a1
)
    ,
}
")).
Eval vm_compute in ("<<<M3215>>>" ++ check (runes_of_ascii "
// c
packet Logon { @tag( 42 ) @rightPad ( ' ' ) @leftPad ( ) repeat trueish { string T , } , }")).
Eval vm_compute in ("<<<M3227>>>" ++ check (runes_of_ascii "packet Logon { @tag( 42 )
// c
@rightPad ( ' ' ) @leftPad ( ) repeat trueish { string T , } , }")).
Eval vm_compute in ("<<<M4138>>>" ++ check (runes_of_ascii "
packet	o	{	@tag( 42
	) repeat x

{	char[  0123456789  ]

i64_, }

    ,}
options	{ }	// c
")).
Eval vm_compute in ("<<<M2977>>>" ++ check (runes_of_ascii "packet A {
  match k as n {
    [1, 22, 007, 4, 5, 66, 7, 8, 9, 10, 11] : B
    2 : C
  },
}")).
Eval vm_compute in ("<<<M519>>>" ++ check (runes_of_ascii "packet x{ //
Header ,repeat float32 i8i8
,
// `tick` ""quote"" 'q'
// packet A { u8 x, }
}
")).
Eval vm_compute in ("<<<M1972>>>" ++ check (runes_of_ascii "root
packet crc
    { { f32a @calculatedFrom( """ ++ [233]%N ++ runes_of_ascii "t" ++ [233]%N ++ runes_of_ascii """ )
    `say ""hi""`, lengthOf `` ,  }")).
Eval vm_compute in ("<<<M2038>>>" ++ check (runes_of_ascii "root
packet crc
    { f32a @calculatedFrom( """ ++ [233]%N ++ runes_of_ascii "t" ++ [233]%N ++ runes_of_ascii """ )
    `say ""hi""`, lengthOf $`` ,  }")).
Eval vm_compute in ("<<<M2945>>>" ++ check (runes_of_ascii "packet A {
  match k as n {
    [1, 22, ""c c"", 4, 5, ""f"", 7, 8] : B,
    2 : C
  },
}")).
Eval vm_compute in ("<<<M2922>>>" ++ check (runes_of_ascii "packet A {
  match k as n {
    [""a"", ""bb"", 007, ""d"", ""e"", 66] : B
    2 : C
  },
}")).
Eval vm_compute in ("<<<M3294>>>" ++ check (runes_of_ascii "packet // c
o { @tag( 42 ) repeat x { char[ 0123456789 ] i64_ , } , } options { }")).
Eval vm_compute in ("<<<M3326>>>" ++ check (runes_of_ascii "packet o { @tag( 42 ) repeat x { char[ 0123456789 ] i64_ , } , } // c
options { }")).
Eval vm_compute in ("<<<M1250>>>" ++ check (runes_of_ascii "
options
    // " ++ [128512]%N ++ runes_of_ascii " emoji
    {
lengthOf =
    f64 ;body=
    true ; } // a // b")).
Eval vm_compute in ("<<<M2905>>>" ++ check (runes_of_ascii "packet A {
  match k as n {
    [""a"", 22, ""c c"", 4, ""e""] : B
    2 : C
  },
}")).
Eval vm_compute in ("<<<M2912>>>" ++ check (runes_of_ascii "packet A {
  match k as n {
    [1, 22, 007, 4, 5, 66] : B
    2 : C
  },
}")).
Eval vm_compute in ("<<<M237>>>" ++ check (runes_of_ascii "// " ++ [128512]%N ++ runes_of_ascii " emoji
packet	roots
    // trailing space 
    {
    } // @lengthOf(")).
Eval vm_compute in ("<<<M2195>>>" ++ check (runes_of_ascii "root
    // `tick` ""quote"" 'q'
    @tagpacket As { trueish Packet , }
")).
Eval vm_compute in ("<<<M471>>>" ++ check (runes_of_ascii "MetaData charz {  int8 _x `tab	here` ,u64 Pad
`say ""hi""`
    ,
    }
")).
Eval vm_compute in ("<<<M2762>>>" ++ check (runes_of_ascii "@lengthOf( ; @tag( u16 , @tag( ""it's"" @tag( [ @leftPad char[] char[]")).
Eval vm_compute in ("<<<M2159>>>" ++ check (runes_of_ascii "root
    // `tick` ""quote"" 'q'
    As packet { trueish Packet , }
")).
Eval vm_compute in ("<<<M4488>>>" ++ check (runes_of_ascii "MetaData Pad {
    Foo a1,
    f64 metadata,
    zchar string_,
}")).
Eval vm_compute in ("<<<M1750>>>" ++ check (runes_of_ascii "options { `// not a comment`options {  } // `tick` ""quote"" 'q'")).
Eval vm_compute in ("<<<M2176>>>" ++ check (runes_of_ascii "root
    // `tick` ""quote"" 'q'
    packet As { trueish  , }
")).
Eval vm_compute in ("<<<M2832>>>" ++ check (runes_of_ascii "] u8 u32 `line1
line2` root ) char ) match '\x00' int8 = (")).
Eval vm_compute in ("<<<M466>>>" ++ check (runes_of_ascii "options
{ string_=
7 tag = string;
roots
=true  ; } 	 ")).
Eval vm_compute in ("<<<M3748>>>" ++ check (runes_of_ascii "

  MetaData
	trueish
{	i8
	MetaDataX // " ++ [27880; 37322]%N ++ runes_of_ascii "
    	, 
}
")).
Eval vm_compute in ("<<<M3872>>>" ++ check (runes_of_ascii "MetaData
	A {  i64 chars 
,}// `tick` ""qu?ote"" 'q'
")).
Eval vm_compute in ("<<<M3170>>>" ++ check (runes_of_ascii "packet A { B { // a
 u8 x, // b
 } // c
 , // d
 }")).
Eval vm_compute in ("<<<M1934>>>" ++ check (runes_of_ascii "
packet	As { @calculatedFrom(//x
""{,}""	)lengthOf")).
Eval vm_compute in ("<<<M2844>>>" ++ check (runes_of_ascii "char[] options 007 , repeat int64 00 { } zchar[")).
Eval vm_compute in ("<<<M735>>>" ++ check (runes_of_ascii "
options
{ stringy =' ' /// triple
;
    } 	 ")).
Eval vm_compute in ("<<<M2840>>>" ++ check (runes_of_ascii "[ u8 char[] int64 string } ""\" ++ [233]%N ++ runes_of_ascii """ packet char[")).
Eval vm_compute in ("<<<M1741>>>" ++ check (runes_of_ascii "char { }options {  } // `tick` ""quote"" 'q'")).
Eval vm_compute in ("<<<M4507>>>" ++ check (runes_of_ascii "options

{

    Z9_ =

    '\x00'
	}
")).
Eval vm_compute in ("<<<M3194>>>" ++ check (runes_of_ascii "MetaData zchar { // c
zchar[ 3 ] Pad , }")).
Eval vm_compute in ("<<<M2193>>>" ++ check (runes_of_ascii "root
    // `tick` ""quote"" 'q'
    pack")).
Eval vm_compute in ("<<<M3765>>>" ++ check (runes_of_ascii "root packet As {
    trueish Packet,
}")).
Eval vm_compute in ("<<<M2602>>>" ++ check (runes_of_ascii "packet A { match k as n { 1 : B }, }")).
Eval vm_compute in ("<<<M2611>>>" ++ check (runes_of_ascii "packet A { match k as { 1 : B }, }")).
Eval vm_compute in ("<<<M1804>>>" ++ check (runes_of_ascii "packet
    Pad // a // b
{ i8i8")).
Eval vm_compute in ("<<<M4164>>>" ++ check (runes_of_ascii "options {
    Logon = '\x00';
}")).
Eval vm_compute in ("<<<M3123>>>" ++ check (runes_of_ascii "packet A {
 u8 x `d" ++ [12]%N ++ runes_of_ascii "`, // c" ++ [12]%N ++ runes_of_ascii "
}")).
Eval vm_compute in ("<<<M2062>>>" ++ check (runes_of_ascii "MetaData A { u64 u64 pack, }")).
Eval vm_compute in ("<<<M2771>>>" ++ check (runes_of_ascii "yI^UB""SmPxS\Q^)mT~k`!;LS}q%")).
Eval vm_compute in ("<<<M2715>>>" ++ check (runes_of_ascii " " ++ [65533]%N ++ runes_of_ascii "=" ++ [65533; 972; 65533; 65533; 7; 65533; 65533; 1876; 65533; 65533]%N ++ runes_of_ascii "4G" ++ [27; 65533; 18; 65533]%N ++ runes_of_ascii "U" ++ [65533; 65533]%N ++ runes_of_ascii "+" ++ [65533; 23]%N ++ runes_of_ascii "{")).
Eval vm_compute in ("<<<M3381>>>" ++ check (runes_of_ascii "
// c
packet lengthOf { }")).
Eval vm_compute in ("<<<M3275>>>" ++ check (runes_of_ascii "options { u8x // c
= 3 }")).
Eval vm_compute in ("<<<M2789>>>" ++ check (runes_of_ascii "packet `say ""hi""` int32")).
Eval vm_compute in ("<<<M4031>>>" ++ check (runes_of_ascii "packet repeatCount {
}")).
Eval vm_compute in ("<<<M552>>>" ++ check (runes_of_ascii "MetaData Packet  { }")).
Eval vm_compute in ("<<<M2667>>>" ++ check (runes_of_ascii "options options { }")).
Eval vm_compute in ("<<<M2753>>>" ++ check (runes_of_ascii ": ) uint16 root as")).
Eval vm_compute in ("<<<M3131>>>" ++ check (runes_of_ascii "packet A {
}
// c" ++ [8203]%N)).
Eval vm_compute in ("<<<M3069>>>" ++ check (runes_of_ascii "packet A {
}// c" ++ [160]%N)).
Eval vm_compute in ("<<<M325>>>" ++ check (runes_of_ascii "packet Z9_ {	}
")).
Eval vm_compute in ("<<<M4282>>>" ++ check (runes_of_ascii "packet Z9_ {
}")).
Eval vm_compute in ("<<<M2816>>>" ++ check (runes_of_ascii "uint64 as {")).
Eval vm_compute in ("<<<M2462>>>" ++ check (runes_of_ascii "Metadata")).
Eval vm_compute in ("<<<M2426>>>" ++ check (runes_of_ascii "char [")).
Eval vm_compute in ("<<<M2464>>>" ++ check (runes_of_ascii "match")).
Eval vm_compute in ("<<<M4128>>>" ++ check (runes_of_ascii "
// c")).
Eval vm_compute in ("<<<M2436>>>" ++ check (runes_of_ascii "u8x")).
Eval vm_compute in ("<<<M205>>>" ++ check (runes_of_ascii "

")).
Eval vm_compute in ("<<<M2551>>>" ++ check ([233]%N)).
