From FP Require Import Lexer Parser ShowPT Digest Formatter.
From Coq Require Import String List NArith.
Import ListNotations.
Open Scope string_scope.
Set Printing Width 100000000.
Set Printing Depth 100000000.
Definition show_fres (r : fres) : string :=
  match r with
  | FOk s => "OK:" ++ sh_escaped s ""
  | FErr s => "ERR:" ++ sh_escaped s ""
  | FPanic p => "PANIC:" ++ p
  end.
Definition check (rs : list rune) : string := digest (show_fres (format_res rs)).
Definition full (rs : list rune) : string := show_fres (format_res rs).
Eval vm_compute in ("<<<M1332>>>" ++ check (runes_of_ascii "packet MetaDataX	{
@lengthOf(// @lengthOf(
len)
charz ,uint8x@lengthOf(
calculatedFrom ) ,
// trailing space 
// " ++ [27880; 37322]%N ++ runes_of_ascii "
@rightPad ( '0' )repeat f32
    // @lengthOf(
    int , zchar[ //	t
65535 ] o,
    f64 i8i8 @calculatedFrom( ""it's""
)  `// not a comment` , @rightPad( ' ') char[
    1 ]
pack @calculatedFrom(
""""
    // c
    ) `" ++ [233]%N ++ runes_of_ascii "`
,
@tag( 0123456789 )
msg_type @lengthOf( rootA ) ,
    @tag( 10
// a // b
// a // b
) repeat //x
rootA , }MetaData
    stringy { char[]
pack , char[
    4294967296 ] calculatedFrom
    , i32	As ,char[
0 ] uint8x ,
    } // c
root packet // trailing space 
Foo { Logon `two words` ,
    match len as
stringy
    { ""\" ++ [233]%N ++ runes_of_ascii """ :  calculatedFrom ,
}
,
    }packet u
    { repeat x falsey
, repeat a1 , @lengthOf(T )
// `tick` ""quote"" 'q'
// " ++ [128512]%N ++ runes_of_ascii " emoji
@lengthOf(options1 ) repeat// packet A { u8 x, }
crc {
// c
// a // b
zchar[10
    // " ++ [128512]%N ++ runes_of_ascii " emoji
    ] u128, match _x as
int { 42 :
// " ++ [27880; 37322]%N ++ runes_of_ascii "
//
o [	""// no comment"" ,  10 ] : chars[
    //	t
    ""`tick`""
    ] : uint8x
,""`tick`""
: leftPad ,[ 42 , ""CRC32""
, ""{,}"" , 4294967296
,// trailing space 
4294967296 ,""" ++ [128512]%N ++ runes_of_ascii """
, """ ++ [128512]%N ++ runes_of_ascii """
,	42 ]:  Z9_  ,// " ++ [128512]%N ++ runes_of_ascii " emoji
""1"":
a1, } ,} , @rightPad (	)@calculatedFrom(""it's""	)
    // `tick` ""quote"" 'q'
    @tag( 1
    )uint8	A ,
f32 f32a	,
// @lengthOf(
//
body {char[] u@lengthOf( i8i8) `it's` , match
    u8x as  a1// `tick` ""quote"" 'q'
{ 7
: float ,
    [ ""a\\""
    ,""packet"", 42 ,
    10 ,  ""it's"",	3
] :uint8x
    ,
""CRC32"":// c
metadata,
""it's"" : asx ,
    [
    ""a\""b""
    // " ++ [128512]%N ++ runes_of_ascii " emoji
    , 10 ] : trueish
    ,
""abc"" :falsey
,
} , calculatedFrom
    repeatCount ,  u16 stringy `a\`
, }
,
repeat tag { match msg_type as x_y_z
{ 10
    : lengthOf
    ,
42 // `tick` ""quote"" 'q'
: Z9_ , 0123456789 :	A , [
3
    ,""" ++ [28040; 24687]%N ++ runes_of_ascii """
    ,42 // trailing space 
, ""abc"",65535,
    ""`tick`""]
: // " ++ [128512]%N ++ runes_of_ascii " emoji
x_y_z ,
[ 42
// c
// packet A { u8 x, }
, 1 ] :
// " ++ [128512]%N ++ runes_of_ascii " emoji
//	t
roots
    , 007 :
leftPad ,
    },match leftPad as chars
    {  3// `tick` ""quote"" 'q'
:
u8x }	, } , string
zchar @calculatedFrom(""a\\"" ) `` ,
    match zchar as
//x
//
string_ // a // b
{ 7 :Z9_ 4294967296 : options1 , ""a\""b"": chars
    ,	""a\""b"" :u8x
, [""CRC32"" , //x
10] :As
    , ""\" ++ [233]%N ++ runes_of_ascii """ : crc  ,
}
,
    zchar `// not a comment` , } packet matchKey { @calculatedFrom(
""\" ++ [233]%N ++ runes_of_ascii """ ) @tag( 007 )
    @calculatedFrom( """") repeat//
metadata chars ,repeat // `tick` ""quote"" 'q'
T //	t
{ repeat char u ,  } , //x
@tag(
65535 ) Pad{
    match
chars  as
    BodyLength
    { 0123456789 :
Packet
,""\" ++ [233]%N ++ runes_of_ascii """ : T// packet A { u8 x, }
,""packet"": u ,
    }
/// triple
// " ++ [128512]%N ++ runes_of_ascii " emoji
, }
    // trailing space 
    , }
")).
Eval vm_compute in ("<<<M3683>>>" ++ check (runes_of_ascii "// `tick` ""quote"" 'q'
packet A {
    @lengthOf(msg_type)
    repeat int64 rootA,
    x,
    @calculatedFrom("""")
    //x
    x @lengthOf(trueish),
    match x as x_y_z {
        ""a\""b"" : packetx,
    },
    packetx @calculatedFrom("""") `u8 x,`,
    float32 u128 `crlf
    line`,
    match x as T {
        [""packet""] : body,
    },
    x_y_z @calculatedFrom(""""),
    rootA tag,
}

root packet body {
    @calculatedFrom(""a\\"")
    repeat i8 metadata,
    @calculatedFrom(""" ++ [128512]%N ++ runes_of_ascii """)
    repeat pack string_,
    @rightPad(' ')
    char[10] calculatedFrom @lengthOf(pack) `doc`,
    @calculatedFrom(""it's"")
    repeat Packet {
        // " ++ [27880; 37322]%N ++ runes_of_ascii "
        match options1 as body {
            ""\n"" : Foo,
            3 : asx,
        },
    },
    @lengthOf(As)
    float64 Logon @calculatedFrom(""""),
    i64_ {
        match x_y_z as string_ {
            42 : pack,
            ""\" ++ [233]%N ++ runes_of_ascii """ : rootA,
            255 : lengthOf,
            4294967296 : tag,
        },
    },
    @tag(3)
    @tag(7)
    @rightPad()
    repeat uint64 u128,
    int16 packetx `" ++ [233]%N ++ runes_of_ascii "`,
    repeat metadata len,
}

packet rootA {
    repeat A {
        repeat T {
            roots @lengthOf(i64_),
            u16 tag @calculatedFrom(""packet""),
            string falsey @calculatedFrom(""\n""),
            match x as u8x {
                0 : string_,
                """" : _x,
                ""\" ++ [233]%N ++ runes_of_ascii """ : MetaDataX,
            },
        },
    },
    @calculatedFrom(""a\""b"")
    repeat i16 i8i8,
    repeat float32 BodyLength `two words`,
    @leftPad()
    u32 _x @calculatedFrom(""CRC32""),
    @leftPad(' ')
    crc @lengthOf(o) `u8 x,`,
    @lengthOf(Packet)
    msg_type Z9_,
    u {
        repeat o,
    },
}

packet rootA {
    repeat T uint8x,
}

//	t
packet x_y_z {
    @tag(255)
    float64 lengthOf,
    @rightPad('0')
    len @calculatedFrom(""a\\""),
    uint32 Logon @calculatedFrom(""`tick`"") `it's`,
    @rightPad()
    zchar[00] len,
    @tag(3)
    char[255] Header `{ , }`,
    match Logon as metadata {
        ""{,}"" : pack,
    },
}")).
Eval vm_compute in ("<<<M1022>>>" ++ check (runes_of_ascii "packet T
{
repeat	zchar[007 ] x_y_z  ,repeat Logon{ repeat	f32a `// not a comment` , string uint8x `crlf
line`
, }//	t
,	int64 len `// not a comment` ,match
repeatCount as
    // " ++ [27880; 37322]%N ++ runes_of_ascii "
    x_y_z
{ 00
    :
    packetx , [ ""CRC32""
, """ ++ [128512]%N ++ runes_of_ascii """ ] : metadata
, 00// `tick` ""quote"" 'q'
: // trailing space 
metadata
    , }	, repeat
msg_type{ falsey// c
{ repeat len { match float as stringy
{
    // c
    [
//
// " ++ [128512]%N ++ runes_of_ascii " emoji
007 ,	""packet""  ,
007
, ""\n"",""abc""
    ,1 , 4294967296 ]: // " ++ [128512]%N ++ runes_of_ascii " emoji
matchKey ,
42 :f32a// packet A { u8 x, }
,
[ 10
// @lengthOf(
// c
,	""a\\""	]:a1
//
// " ++ [128512]%N ++ runes_of_ascii " emoji
,
    65535 : tag// trailing space 
, // `tick` ""quote"" 'q'
} , } // " ++ [27880; 37322]%N ++ runes_of_ascii "
, } ,u64 _x`two words` //x
, pack  , } , repeat	As//
{
repeat string
    pack , uint8// c
leftPad
@lengthOf( As )
, string options1
@calculatedFrom( ""// no comment"" /// triple
) `" ++ [28040; 24687; 31867; 22411]%N ++ runes_of_ascii "`
    ,  u8 leftPad
    @lengthOf( options1) ,}
    // @lengthOf(
    , }//
packet float
    { @tag( 42
) //
repeat int64 float
    `a\` , @calculatedFrom(	""// no comment"" )	repeat i64_
    packetx  , match lengthOf as // a // b
falsey // @lengthOf(
{ [42 , ""\" ++ [233]%N ++ runes_of_ascii """,10 , 10
    ,
007 , ""abc"" , 1	, 7] : metadata //	t
, }	, repeat	int ,
    repeatCount
, zchar[ 255
] x
    @lengthOf(A
// c
// @lengthOf(
)	, @leftPad (
' '	) @lengthOf(
    o
)
    @rightPad
    (
'\x00'
)
// a // b
// @lengthOf(
repeat float64 leftPad
    , @leftPad (  '0') match	i8i8 as
    // @lengthOf(
    charz
{ """ ++ [28040; 24687]%N ++ runes_of_ascii """ :roots , } , @calculatedFrom(
/// triple
// packet A { u8 x, }
""abc"" )
    repeat zchar[
    00 ] matchKey , // packet A { u8 x, }
uint16
    /// triple
    string_`doc`  , }
//x
")).
Eval vm_compute in ("<<<M441>>>" ++ check (runes_of_ascii "packet // " ++ [27880; 37322]%N ++ runes_of_ascii "
o //x
{  @tag( 0 ) match leftPad as // @lengthOf(
metadata { 1 :	calculatedFrom ,
    7 : i64_ ,
""it's""
    : i64_ 0123456789 :repeatCount , 0
    // packet A { u8 x, }
    :
    Foo }
, lengthOf { A`doc`	, } , char[3
] matchKey `{ , }` ,leftPad // `tick` ""quote"" 'q'
{ repeat
    // a // b
    u8
options1 ,
body @calculatedFrom( """ ++ [128512]%N ++ runes_of_ascii """ )
, zchar { // `tick` ""quote"" 'q'
u64 Logon @lengthOf( u8x	)
,
char[ 007 ] packetx
@lengthOf(
    zchar )`
` ,}
, repeat metadata x ,	}
    , u32 repeatCount
    ,@tag(
    // c
    10
)
    @lengthOf( T  )
u16 repeatCount `say ""hi""`, /// triple
repeat
u128 {
//
// packet A { u8 x, }
zchar[4294967296 ] BodyLength  ,} , i32  x `doc`
, }
    packet MetaDataX { // a // b
@tag(// c
7
) repeat lengthOf
// a // b
//
,
    } root
packet As
    {
@lengthOf(
lengthOf
) match _x	as T{""packet"":string_ ,3 : // @lengthOf(
BodyLength ,""" ++ [128512]%N ++ runes_of_ascii """ // trailing space 
:
    i64_, 0 :
    lengthOf // trailing space 
, /// triple
7
    : Logon} ,Z9_
@calculatedFrom( ""\" ++ [233]%N ++ runes_of_ascii """ //	t
) ,	float32
int @lengthOf(
    msg_type ) `// not a comment`
// packet A { u8 x, }
// `tick` ""quote"" 'q'
,char[] A @calculatedFrom(	""\n""
    )
, @tag(4294967296) i8i8 {uint32
u8x , } ,
zchar[
00
// c
// c
] uint8x ,repeat msg_type string_	, repeat zchar[007//x
]
    Pad // " ++ [27880; 37322]%N ++ runes_of_ascii "
`doc`,  match rootA as stringy {  007: leftPad , [ """ ++ [233]%N ++ runes_of_ascii "t" ++ [233]%N ++ runes_of_ascii """, 7 ] :
    x
},}
")).
Eval vm_compute in ("<<<M281>>>" ++ check (runes_of_ascii "// @lengthOf(
root packet  leftPad{ match Logon as	msg_type { ""it's"" :
    int , """ ++ [128512]%N ++ runes_of_ascii """
    :charz ""a\\""
: options1 , } , @rightPad(
    ' ') asx `doc`
, @leftPad( '0' ) uint32 charz, @tag(
255 ) zchar[ 10 ]Pad ``
, string  asx	`it's` , }
packet
// packet A { u8 x, }
// trailing space 
Pad {@lengthOf(lengthOf )
@lengthOf( crc  )u8x
    `a\` ,
float64 f32a  @calculatedFrom(
""a\""b""
    ) `it's`  ,@lengthOf(	options1 ) @tag( 42 )@calculatedFrom(
// a // b
//x
""1""	) zchar[ 7 ] repeatCount	`say ""hi""` , @calculatedFrom( ""// no comment"" )
    //x
    zchar[ 3] i8i8 @calculatedFrom(
""// no comment"" ) `" ++ [233]%N ++ runes_of_ascii "`,@tag( //
65535 )
    match o
    as float
    { [ // @lengthOf(
10 ]
    :len } ,@tag(3//x
)
match repeatCount as Pad {
    [ ""// no comment"",
42 , ""\n""
,
    007 , 3
    , ""// no comment""
    // c
    ]
:
    calculatedFrom}
    , u8x
{ repeat
    string x `it's` ,	x @calculatedFrom( """ ++ [128512]%N ++ runes_of_ascii """
)//
, falsey
    { match	f32a as// c
u128 { [ ""it's""
    //x
    ,
    0123456789
    , 0, """ ++ [233]%N ++ runes_of_ascii "t" ++ [233]%N ++ runes_of_ascii """ ,42 , 65535 // c
,
1 , 255 ] :
    uint8x ,
0 :asx ,} , repeat packetx u `{ , }` , string Foo	, x @calculatedFrom(
""a	b"")//	t
,
} , o
    pack
    , }  , // a // b
} packet i64_ { repeat
char[ 3 ]
a1
,} options
    // a // b
    {	}")).
Eval vm_compute in ("<<<M3591>>>" ++ check (runes_of_ascii "packet As {
}

MetaData BodyLength {
    uint32 Z9_ `// not a comment`,
}

packet f32a {
    f64 T @lengthOf(As) `u8 x,`,
    repeat i16 i64_ `" ++ [28040; 24687; 31867; 22411]%N ++ runes_of_ascii "`,
    char[007] falsey @lengthOf(Pad),
    repeat leftPad {
        u64 u8x,
        char[] tag,
    },
    match As as len {
        ""1"" : x_y_z,
        255 : len,
        007 : charz,
        [
            42, 10, 3, ""abc"", """ ++ [28040; 24687]%N ++ runes_of_ascii """,
            ""it's""
        ] : matchKey,
        // `tick` ""quote"" 'q'
    },// @lengthOf(
}

packet BodyLength {
    @calculatedFrom(""// no comment"")
    @lengthOf(Logon)
    @tag(42)
    //
    // " ++ [128512]%N ++ runes_of_ascii " emoji
    repeat rootA metadata,
    @tag(4294967296)
    repeat matchKey {
        int8 pack,
    },
    @tag(65535)
    @rightPad()
    @lengthOf(Pad)
    uint8x `{ , }`,
    match Foo as As {
        10 : uint8x,
        0 : rootA,
        007 : matchKey,
        [""x y""] : u8x,
    },
    float64 i64_ @calculatedFrom(""// no comment""),
    match trueish as matchKey {
        // trailing space 
        // trailing space 
        """ ++ [233]%N ++ runes_of_ascii "t" ++ [233]%N ++ runes_of_ascii """ : _x,
    },
    chars @lengthOf(Packet) `crlf
    line`,
    char[] x,
}

MetaData falsey {
    Z9_ options1 ``,
}")).
Eval vm_compute in ("<<<M922>>>" ++ check (runes_of_ascii "root packet o {	@leftPad
// " ++ [128512]%N ++ runes_of_ascii " emoji
//x
( '0' ) u16 Pad , }  packet string_ { match o as
    // c
    chars{ [ 3 , """ ++ [128512]%N ++ runes_of_ascii """ // trailing space 
] : _x  , }
,
char[]
    rootA @lengthOf( f32a ) `it's` , @leftPad (
// " ++ [128512]%N ++ runes_of_ascii " emoji
// a // b
) // packet A { u8 x, }
repeat metadata//x
,@calculatedFrom(	""it's""
// trailing space 
// `tick` ""quote"" 'q'
)zchar[
    // trailing space 
    3 ]i8i8 @lengthOf(	options1)`line1
line2`
    , }
root packet	metadata{
    match MetaDataX as falsey{ 42 :
Header ""1"":Z9_
    , } ,
    As { uint8
// `tick` ""quote"" 'q'
// a // b
pack
    `" ++ [28040; 24687; 31867; 22411]%N ++ runes_of_ascii "` ,	char[
    // " ++ [27880; 37322]%N ++ runes_of_ascii "
    4294967296
]stringy@calculatedFrom(
""`tick`""
)
    ,  i16//x
rootA @lengthOf(  Foo )`u8 x,` //
,
//
//	t
}, @leftPad (
    ) match charz
as f32a { [ ""\n"" , 0123456789] :	x_y_z, """ ++ [28040; 24687]%N ++ runes_of_ascii """
    //
    : string_ }, @lengthOf( Packet )  match
Packet as
asx { [ // a // b
42
,
""\" ++ [233]%N ++ runes_of_ascii """ ] : lengthOf  ,65535:falsey } , body leftPad
    ,
char[
0 ]
o @calculatedFrom(
    // " ++ [27880; 37322]%N ++ runes_of_ascii "
    ""a\""b""
) `it's` , @rightPad ( ' ')char[ 65535 /// triple
] a1`crlf
line` , T @lengthOf(	pack
)
    `" ++ [28040; 24687; 31867; 22411]%N ++ runes_of_ascii "` ,
}
")).
Eval vm_compute in ("<<<M139>>>" ++ check (runes_of_ascii "
packet len{ repeat i8i8 `u8 x,`
    ,
// @lengthOf(
// a // b
repeat char[ // c
0123456789
//x
//
]	a1 ,
@rightPad ( )
// trailing space 
// " ++ [27880; 37322]%N ++ runes_of_ascii "
match options1 as
    string_
{ 007 :uint8x  [
""it's"", // c
""\n"" ] : body } , zchar[ 1
] float @lengthOf( Header) , @lengthOf( rootA )  @tag(
    // packet A { u8 x, }
    00 ) @lengthOf( metadata ) repeat
    //x
    metadata { int16
    // " ++ [27880; 37322]%N ++ runes_of_ascii "
    i64_
    ,} ,
i64_ , zchar[ 0123456789 ] lengthOf @calculatedFrom(""it's"" ) ,  } root
    packet
f32a { @leftPad
    ( '0' ) @leftPad // " ++ [128512]%N ++ runes_of_ascii " emoji
( '\x00' ) i64_`tab	here`
,repeat x Packet ,char[ 42 ] Foo @calculatedFrom( ""abc"" ) , int16  uint8x @lengthOf( MetaDataX ) // @lengthOf(
`a\`
, // " ++ [27880; 37322]%N ++ runes_of_ascii "
i8 Header `
` /// triple
, repeat//
Pad
    A , char[3  ] _x , @calculatedFrom(// trailing space 
""x y"")
match MetaDataX	as As {
//	t
//x
[	""a	b"", """ ++ [28040; 24687]%N ++ runes_of_ascii """
]
:	options1, [""" ++ [28040; 24687]%N ++ runes_of_ascii """ ,
""it's""
    , 3
    , 7
,
42 ,""abc""	] :	_x , """"
    //	t
    :
charz ,
""a\\"" :// trailing space 
a1
, //
} , @tag( 7 ) u8 float ,
    }
")).
Eval vm_compute in ("<<<M3792>>>" ++ check (runes_of_ascii "
root
	packet//
len	{char[ 
1 ]

    As

,	i64
	T	@lengthOf(

u8x
)`u8 x,`
,

    repeat

    int16
    /// triple
// " ++ [128512]%N ++ runes_of_ascii " emoji
  i8i8 `" ++ [233]%N ++ runes_of_ascii "`  , @tag(

    42 )  match  chars as calculatedFrom  { [
	""a\\"",

0	]  : 	 // " ++ [27880; 37322]%N ++ runes_of_ascii "
  trueish
	3
:

    BodyLength  ""{,}""
	: 
len

    } , // a // b
	repeat

    zchar[ 4294967296  ]A
    ``	,
	repeat char uint8x
    `it's`
	, }

packet// " ++ [27880; 37322]%N ++ runes_of_ascii "
  x_y_z
{@lengthOf(	matchKey
    )

    @tag(	3 )  @calculatedFrom( 
""\" ++ [233]%N ++ runes_of_ascii """	)

    string
	lengthOf
    @calculatedFrom(
    """ ++ [233]%N ++ runes_of_ascii "t" ++ [233]%N ++ runes_of_ascii """
)
	,
} root
	packet  //
    int  
      // trailing space 
    // packet A { u8 x, }
  {
	repeat BodyLength{match
Pad as
chars{ [
""`tick`""

    ]

    :
    // a // b
	zchar
    ,	[
""" ++ [28040; 24687]%N ++ runes_of_ascii """,""CRC32""

    ,
""// no comment"" ]
    : repeatCount	,	1
:
metadata  ,

    3	:
	As,
3:
lengthOf
} ,
	u32
    A // " ++ [27880; 37322]%N ++ runes_of_ascii "
    	`// not a comment`	,
	//x

//x
      f64 stringy @lengthOf(
	As  )`" ++ [233]%N ++ runes_of_ascii "`

,
	o
, }
	,

    }
packet
	zchar  {}
// c
")).
Eval vm_compute in ("<<<M3825>>>" ++ check (runes_of_ascii "root
    packet
    options1 //	t

{

    @lengthOf( Packet

    ) 
	    //x
    //	t
  repeat
chars  // " ++ [128512]%N ++ runes_of_ascii " emoji
	{
repeatCount
u128,match u as BodyLength 	 /// triple
		{	[

65535 ] :
    // trailing space 
	  //x
  	packetx  // a // b
	, 
3

    :
zchar

    , 255

    :  roots  """ ++ [233]%N ++ runes_of_ascii "t" ++ [233]%N ++ runes_of_ascii """	// c
		:
Header} ,	i64 Packet 
, 
char[]
    uint8x	@calculatedFrom(  ""// no comment"" )	`crlf
line`
,
    }
	,  string 
trueish  , @leftPad (
' '
    ) 
i8i8
	{ 	 /// triple
    float64
	T
	@lengthOf(

    leftPad ) ,  // @lengthOf(
    u128 `" ++ [233]%N ++ runes_of_ascii "` ,  lengthOf
    ,// a // b
  matchKey
    ,  }, 
repeat

    char[	1] MetaDataX
	`a\`
,
    // c
  // " ++ [128512]%N ++ runes_of_ascii " emoji
@calculatedFrom( 
""1""

)
    string
chars `it's` ,

    char[] calculatedFrom @lengthOf(  calculatedFrom )`doc` 
, rootA 	 // @lengthOf(
  _x 
	// `tick` ""quote"" 'q'
	/// triple
	`" ++ [28040; 24687; 31867; 22411]%N ++ runes_of_ascii "` 
, } 
MetaData	calculatedFrom {
u

    tag `
`,

    } ")).
Eval vm_compute in ("<<<M3501>>>" ++ check (runes_of_ascii "options {
    LittleEndian = true;
    StringPrefixLenType = u32;
    FixedStringPadChar = '0';
}
packet Logout {
    repeat InMsgkind49 {
        u8 pad0,
    },
    repeat char[5] seqNo,
    repeat u8 price,
}
packet Party {
    zchar[7] Qty,
}
packet Logon {
    repeat InRef10 {
        string price,
        char[] sym,
        repeat Logout,
    },
    repeat char[3] count,
    repeat Party,
    char[] tag7,
    @rightPad('0') char[2] clOrdID,
}
packet Order {
    InTail13 {
        Party,
    },
    repeat char[4] count,
}
root packet Cancel {
    Logout,
    @leftPad('0') char[9] msgKind,
    string lastPx,
    string tag7,
    zchar[1] OrderId,
    repeat Party,
    u16 sym,
    u16 Acct @lengthOf(Body),
    match sym as Body {
        [24, 44] : Logout,
        160 : Order,
        91 : Logon,
        43 : Party,
    },
    u16 Tail @calculatedFrom(""CRC32""),
}
")).
Eval vm_compute in ("<<<M381>>>" ++ check (runes_of_ascii "MetaData// " ++ [128512]%N ++ runes_of_ascii " emoji
A  { repeatCount f32a `it's`  ,} root packet rootA { @lengthOf(
//
// trailing space 
Foo ) @rightPad ('0'	)
@calculatedFrom(
""{,}"" ) int16 u8x ,
    @leftPad (	' ' //	t
) @calculatedFrom( // c
""it's""
) f64 metadata `two words`
    , //x
char[] T `{ , }` ,}
    packet crc{ int8 float @lengthOf( u
    // @lengthOf(
    )`" ++ [28040; 24687; 31867; 22411]%N ++ runes_of_ascii "`
    //x
    , // " ++ [128512]%N ++ runes_of_ascii " emoji
string options1  `
`	,
    @calculatedFrom(
""x y"" )
x_y_z o , /// triple
@tag( 007	)  a1
@calculatedFrom( ""a\\"" ) ,
}
    root
    packet Foo
    { repeat i16 chars ,Logon @calculatedFrom(""\" ++ [233]%N ++ runes_of_ascii """ )  ,
@calculatedFrom(
""packet""  )
    x_y_z
// packet A { u8 x, }
// trailing space 
`say ""hi""` ,
repeat string
Foo
, repeat metadata
i8i8`crlf
line`
// packet A { u8 x, }
// @lengthOf(
,@calculatedFrom(
    ""a	b"" ) char[] charz @calculatedFrom(""""
    )
    ,}
")).
Eval vm_compute in ("<<<M3516>>>" ++ check (runes_of_ascii "options {
    LittleEndian = true;
    StringPrefixLenType = u64;
    ArrayPrefixLenType = u8;
    FixedStringPadChar = '0';
}
packet Reject {
    i32 Ref,
    repeat f64 OrderId,
    repeat InNote12 {
        u8 pad0,
    },
    @leftPad(' ') char[6] count,
}
packet Logout {
    zchar[6] Tail,
    repeat string venue,
}
packet Cancel {
    u64 count,
    repeat char[5] lastPx,
    i64 Tail,
    repeat InF140 {
        repeat Logout,
        repeat Reject,
    },
}
root packet Trade {
    repeat InMsgkind39 {
        repeat Reject,
        char[4] Px,
    },
    string Acct,
    uint16 price,
    f32 OrderId,
    u16 x,
    u16 clOrdID @lengthOf(Body),
    match x as Body {
        178 : Logout,
        13 : Cancel,
        174 : Reject,
    },
    u16 Flags @calculatedFrom(""CRC32""),
}
")).
Eval vm_compute in ("<<<M3522>>>" ++ check (runes_of_ascii "
options
	{ 
LittleEndian=

false; StringPrefixLenType=
    u16
; ArrayPrefixLenType

    =
	u64
; 
FixedStringPadFromLeft =true ; FixedStringPadChar  =
' '
;	}
packet
Logon  {  u16
Tail
    ,	repeat string
	x ,

    i16
    count  ,
@leftPad (  '0'
    )char[ 3  ]

    Note
,
}
    packet  Fill {
}
    packet Heartbeat{ } packet
Reject 
{ string
msgKind,
repeat

Logon
, InFlags25
{
repeat InPrice29	{
u8
price
,
Logon
,
    repeat
	char[1]

Note 
, }

,

char[] 
x , Fill
    ,
	} ,repeat  Heartbeat ,

    } root  packet  Order{	InNote88
{
repeat
i32  Acct ,
    repeat
    i16 
clOrdID
,
	repeat
Logon ,  } ,
	u16
tag7 ,	match
    tag7
as
    Body{
	[ 14 , 22
]

:	Logon
,
	55 
:	Heartbeat,93 :
	Reject ,13
    :Fill  , } , }
")).
Eval vm_compute in ("<<<M1011>>>" ++ check (runes_of_ascii "root	packet
_x { falsey, } packet BodyLength
{
    /// triple
    float32 u ,@calculatedFrom( ""a\\""  ) roots @lengthOf(
x_y_z) , options1 Pad
`u8 x,`,
@tag(
0 )
    char[ 1
]T
    , }  packet u128 { repeat
u8
// " ++ [128512]%N ++ runes_of_ascii " emoji
//
x, match
    u8x as //	t
u8x
{
    """" : float[
0123456789 ] : pack , }
,
// `tick` ""quote"" 'q'
// " ++ [27880; 37322]%N ++ runes_of_ascii "
repeat
float32 lengthOf, // packet A { u8 x, }
}packet
    //
    Header { match	len // " ++ [27880; 37322]%N ++ runes_of_ascii "
as	Foo
    { [
    42 , 4294967296	,
    ""a	b"" ] :int 0  : u128 , [ ""\n"" ,
    42 ]: Foo , 3 :  float
,[ ""a\\"" ,	""`tick`""// " ++ [27880; 37322]%N ++ runes_of_ascii "
, // packet A { u8 x, }
""// no comment"", 7, 3	] : x
, [ 65535 , ""a\\""
    // packet A { u8 x, }
    ,	""a\\"" , ""it's""
    , """ ++ [28040; 24687]%N ++ runes_of_ascii """ , ""a\""b"" , ""{,}""]
    : msg_type , } ,
}
")).
Eval vm_compute in ("<<<M803>>>" ++ check (runes_of_ascii "packet int { Packet{ match x  as asx	{	""" ++ [233]%N ++ runes_of_ascii "t" ++ [233]%N ++ runes_of_ascii """:
    //	t
    i64_
1 : /// triple
o 255
    : MetaDataX// packet A { u8 x, }
""\n""
    : chars ,
}// packet A { u8 x, }
, } , pack rootA
    ,
zchar[
// a // b
// " ++ [27880; 37322]%N ++ runes_of_ascii "
1
] T ,
    } packet u{
    zchar `tab	here` , zchar[ 255
    ]metadata ,repeat _x{// " ++ [128512]%N ++ runes_of_ascii " emoji
zchar
{ f32a repeatCount
// packet A { u8 x, }
// packet A { u8 x, }
`it's` //
,  }
,
} ,// @lengthOf(
@leftPad // packet A { u8 x, }
(  ' ' )  x_y_z	@calculatedFrom( // `tick` ""quote"" 'q'
""{,}"" ) `{ , }`
    , repeat
A a1 `u8 x,`, Foo @calculatedFrom( ""{,}""),}packet Pad {
@tag( 7 ) @lengthOf( // c
stringy ) @calculatedFrom(""" ++ [28040; 24687]%N ++ runes_of_ascii """  ) repeat
    stringy ,
char
crc,
    }
")).
Eval vm_compute in ("<<<M452>>>" ++ check (runes_of_ascii "  packet BodyLength{
}
options {} packet uint8x { } packet chars {
@tag( //x
007)
pack { stringy
`doc` , match
    f32a as  calculatedFrom{
[""a	b""
, 00 // c
,
007 ,""a	b"" ]
:
u8x }  ,} , f32 options1@lengthOf(
leftPad ) , @calculatedFrom(
    ""packet""
) leftPad
, // `tick` ""quote"" 'q'
char stringy//x
, char[] A @calculatedFrom( // " ++ [27880; 37322]%N ++ runes_of_ascii "
""abc""
) ,  @tag(0	) char[
    4294967296] int @calculatedFrom( /// triple
""x y""	)
, repeat
x
{ stringy @calculatedFrom(	""packet"" )
`tab	here`
    , i16 asx
    `" ++ [233]%N ++ runes_of_ascii "` ,
f32a ,tag
    @calculatedFrom(  """" )`" ++ [233]%N ++ runes_of_ascii "` ,}, u32
    // a // b
    Header
, repeat f32a u128 `{ , }` , }options { pack = false ; }
")).
Eval vm_compute in ("<<<M1015>>>" ++ check (runes_of_ascii "packet asx	{ options1 @calculatedFrom(
    """ ++ [128512]%N ++ runes_of_ascii """ )
,A // " ++ [128512]%N ++ runes_of_ascii " emoji
u, char[ 1 ]body,
} MetaData u // a // b
{
    zchar[ // packet A { u8 x, }
1 // @lengthOf(
]	options1 ,
    } packet falsey {repeat
Foo { zchar[4294967296 // " ++ [27880; 37322]%N ++ runes_of_ascii "
]  charz
@lengthOf(
    roots )
// @lengthOf(
//	t
,} //	t
, float , @lengthOf(	u8x )
    @calculatedFrom(
    ""{,}"" ) @leftPad	( '0'
)repeat	u128
    MetaDataX  `u8 x,` , @tag( 255 )@rightPad // a // b
()
    repeat calculatedFrom{ repeat string f32a // trailing space 
, match
// " ++ [27880; 37322]%N ++ runes_of_ascii "
// " ++ [128512]%N ++ runes_of_ascii " emoji
_x as x {""a	b""
    : A , }, float32 zchar `
` , string string_//x
`line1
line2` , } ,
}
")).
Eval vm_compute in ("<<<M3262>>>" ++ check (runes_of_ascii "// top
MetaData // c0
x_y_z // c1a
  // c1b
{ // c2
char // c3a
  // c3b
body // c4
, // c5a
  // c5b
f64 // c6
i8i8 // c7a
  // c7b
`two words` // c8
, // c9a
  // c9b
body // c10
body `" ++ [28040; 24687; 31867; 22411]%N ++ runes_of_ascii "`
    // c12
, } // c14a
  // c14b
root packet chars // c17a
  // c17b
{
    // c18
@lengthOf( // c19a
  // c19b
i64_ // c20a
  // c20b
) chars , // c23a
  // c23b
i8i8
    // c24
{ // c25a
  // c25b
falsey
    // c26
@lengthOf( stringy ) // c29a
  // c29b
`doc` ,
    // c31
} // c32
, x @lengthOf( // c35a
  // c35b
A // c36
) // c37a
  // c37b
`crlf
line`
    // c38
, } // c40a
  // c40b
")).
Eval vm_compute in ("<<<M3626>>>" ++ check (runes_of_ascii "MetaData zchar {
}

packet Packet {
    u16 x @calculatedFrom(""" ++ [28040; 24687]%N ++ runes_of_ascii """) ``,
    @tag(7)
    @tag(00)
    Packet u128,
    @lengthOf(float)
    match A as charz {
        00 : x,
        [0, 255, 10, ""it's""] : Packet,
        ""a\\"" : metadata,
        [10, ""`tick`""] : chars,
        [""a\""b""] : trueish,
    },
    uint64 string_,
    @rightPad(' ')
    float64 stringy `line1
    line2`,
    @tag(00)
    uint16 As,
}//	t

options {
    Logon = false;
    // a // b
    body = f64;
}

MetaData asx {
}

packet leftPad {
    float @lengthOf(A) `a\`,
}")).
Eval vm_compute in ("<<<M3475>>>" ++ check (runes_of_ascii "packet A // c1a
  // c1b
{
    // c2
u8 // c3a
  // c3b
a
    // c4
,
    // c5
} // c6a
  // c6b
packet
    // c7
B // c8
{
    // c9
u16
    // c10
b // c11a
  // c11b
, } root
    // c14
packet P
    // c16
{ // c17
u8 K , // c20
match
    // c21
K // c22
as // c23
M
    // c24
{
    // c25
[
    // c26
1 // c27a
  // c27b
, 2 ] // c30
:
    // c31
A
    // c32
, // c33a
  // c33b
3
    // c34
: // c35a
  // c35b
B , // c37
7 : // c39a
  // c39b
A // c40
,
    // c41
}
    // c42
, // c43a
  // c43b
}
    // c44
")).
Eval vm_compute in ("<<<M1393>>>" ++ check (runes_of_ascii "MetaData T {
//
// @lengthOf(
u64 BodyLength `say ""hi""` , i16
a1,
    int64 msg_type `// not a comment`
, x_y_z zchar,u64
T, float32 calculatedFrom
,
    } packet Logon{ @lengthOf( options1 )
    int64 x @lengthOf(
Z9_ )  `{ , }`,} packet
    lengthOf{
    // `tick` ""quote"" 'q'
    @calculatedFrom(""`tick`"" ) A // `tick` ""quote"" 'q'
`" ++ [233]%N ++ runes_of_ascii "`// `tick` ""quote"" 'q'
, falsey lengthOf , @lengthOf( x_y_z)  @lengthOf( options1 ) char[ 4294967296
    ]
body @calculatedFrom( """ ++ [28040; 24687]%N ++ runes_of_ascii """)
    // c
    ,}
")).
Eval vm_compute in ("<<<M1046>>>" ++ check (runes_of_ascii "packet  Packet{ float64 x
@calculatedFrom( ""a\""b"" )
`u8 x,`
,
@rightPad ( '\x00' )
    @rightPad
(
    // " ++ [128512]%N ++ runes_of_ascii " emoji
    '0' ) @leftPad (
    ' '
    ) char[]
    _x ,	Packet @lengthOf(
// a // b
// a // b
crc ) , repeat float64 leftPad
    `
`
,
    @leftPad	(
    '0') matchKey @calculatedFrom( ""{,}"")
,
    repeat  body int,
u16 o, }
    options{
A =
    true leftPad= char[	4294967296 ] ; T  = float64 // trailing space 
; options1 =
/// triple
// a // b
65535 ; }")).
Eval vm_compute in ("<<<M805>>>" ++ check (runes_of_ascii "packet
charz { @lengthOf(
Z9_ ) @leftPad ( )	@tag(
    7 )char[] metadata, repeat
    float asx ,
i8 a1 @calculatedFrom( ""a\\"" )  ,
    leftPad
@calculatedFrom( """ ++ [128512]%N ++ runes_of_ascii """ )	`doc` , uint16	trueish `u8 x,`, //x
match
    Logon as pack { 42	:  tag ,	0:falsey
, [ 3 // c
,	1
//	t
// " ++ [128512]%N ++ runes_of_ascii " emoji
]: x_y_z // `tick` ""quote"" 'q'
, }  ,
repeat
// `tick` ""quote"" 'q'
// trailing space 
leftPad{
char[]
    leftPad  `tab	here`
    , char[ 42 // a // b
] x_y_z, } , }")).
Eval vm_compute in ("<<<M4501>>>" ++ check (runes_of_ascii "MetaData Logon {
    zchar[3] a1 `" ++ [28040; 24687; 31867; 22411]%N ++ runes_of_ascii "`,
    char[007] MetaDataX `a\`,
}

root packet pack {
}

packet i64_ {
    @lengthOf(chars)
    len {
        uint8 rootA `doc`,
        string_ `crlf
        line`,//	t
        match charz as Foo {
            42 : options1,
            [255] : charz,
        },
    },
    roots repeatCount `two words`,
    //	t
    string Logon @calculatedFrom(""a\""b""),
    @calculatedFrom(""a\\"")
    Z9_,
}//x")).
Eval vm_compute in ("<<<M1033>>>" ++ check (runes_of_ascii "packet Pad /// triple
{i16  A @calculatedFrom(
""a\""b"" ) ,}
    packet roots{ @tag(// trailing space 
65535 )repeat f32a{
    char[ 00] a1 @calculatedFrom( ""a\\"" ) , float32
x_y_z , len // packet A { u8 x, }
{
// `tick` ""quote"" 'q'
// c
stringy
    u8x `
`
    ,
    }
//
// packet A { u8 x, }
, f32 Foo@calculatedFrom(
""a\""b""
) ,
} ,
@calculatedFrom(""1""
) u64	calculatedFrom	,
    u32 u8x , u32	calculatedFrom
`` , }
")).
Eval vm_compute in ("<<<M4063>>>" ++ check (runes_of_ascii "/// triple
	packet	Logon
    { char[
	1 ] 
T  // packet A { u8 x, }
  ,

repeat

    f32a	{	repeat options1
    ,//x
zchar[
007	] Z9_

,u64

    packetx  ,	// @lengthOf(
charz  ,

    }	, crc Packet,	@lengthOf(
    charz	//x
	)	@leftPad
( ' ' )float64
	i8i8	`{ , }` 
  //	t
	//x

,
}
MetaData 	 // a // b
a1{ u8

len `say ""hi""`, 
len Logon 	 //x
``

, char[]

pack

    , char
body ,} ")).
Eval vm_compute in ("<<<M1284>>>" ++ check (runes_of_ascii "root packet
Foo{ uint8x @lengthOf(// " ++ [128512]%N ++ runes_of_ascii " emoji
zchar ) // `tick` ""quote"" 'q'
,body { repeat zchar[
4294967296 ]
    tag , }
, int8 _x
`u8 x,`
    , char[]
T , Foo
, @rightPad ( ' '
    // packet A { u8 x, }
    )	repeat uint8 stringy
    ,zchar[ 255] calculatedFrom@calculatedFrom(""x y"") `" ++ [28040; 24687; 31867; 22411]%N ++ runes_of_ascii "` , float32
len @lengthOf(
// " ++ [27880; 37322]%N ++ runes_of_ascii "
// `tick` ""quote"" 'q'
i8i8 ) , uint32
    Pad ,
    }")).
Eval vm_compute in ("<<<M364>>>" ++ check (runes_of_ascii "packet string_{ repeat
crc {
As
@calculatedFrom( ""// no comment"" ) `" ++ [28040; 24687; 31867; 22411]%N ++ runes_of_ascii "` // trailing space 
,char x_y_z @lengthOf( Header )
    `u8 x,`
, } ,} root packet u128{ stringy// a // b
@lengthOf( options1 ) , } packet i64_
// " ++ [128512]%N ++ runes_of_ascii " emoji
// `tick` ""quote"" 'q'
{ @lengthOf( u128 )
@lengthOf(pack
) char[ 4294967296
] falsey@calculatedFrom( """ ++ [233]%N ++ runes_of_ascii "t" ++ [233]%N ++ runes_of_ascii """
// " ++ [27880; 37322]%N ++ runes_of_ascii "
// trailing space 
),
}
")).
Eval vm_compute in ("<<<M3616>>>" ++ check (runes_of_ascii "packet u8x {
    u64 metadata `a\`,
    @tag(65535)
    @rightPad()
    repeat int16 As,
    @rightPad()
    match lengthOf as body {
        7 : chars,
        [
            255, 0123456789, 7, ""// no comment"", ""\n"",
            ""a	b""
        ] : x_y_z,
        ""abc"" : metadata,
    },
}

packet lengthOf {
    char[] As @calculatedFrom(""a\\"") `a\`,
}")).
Eval vm_compute in ("<<<M3618>>>" ++ check (runes_of_ascii "
packet Foo {

    asx

{ falsey , } 
,@calculatedFrom(

// " ++ [128512]%N ++ runes_of_ascii " emoji
  /// triple
""CRC32""
    )

repeat  char[ 007

    ]rootA 
, A

    ,
	repeat  // packet A { u8 x, }
	i8i8
pack
`two words`

// c
	// a // b
      , } options
{}
packet	uint8x // @lengthOf(

{
string Foo	@lengthOf(
u ) 
`u8 x,`
    ,
    i32
BodyLength ,
}
")).
Eval vm_compute in ("<<<M158>>>" ++ check (runes_of_ascii "packet crc { // " ++ [128512]%N ++ runes_of_ascii " emoji
int `" ++ [28040; 24687; 31867; 22411]%N ++ runes_of_ascii "`,  repeat Header	`doc` ,
    @tag(
    // " ++ [128512]%N ++ runes_of_ascii " emoji
    65535 )
    leftPad BodyLength
    `// not a comment` // " ++ [128512]%N ++ runes_of_ascii " emoji
, /// triple
char[ 42 ]
    roots	`` // a // b
, } packet
    uint8x
    // `tick` ""quote"" 'q'
    { @lengthOf(
i8i8 )
// trailing space 
//	t
Pad
    MetaDataX//	t
,}
")).
Eval vm_compute in ("<<<M4094>>>" ++ check (runes_of_ascii "//x
packet BodyLength {
    @tag(10)
    @calculatedFrom(""1"")
    falsey uint8x,
    repeat trueish body,
    @leftPad('0')
    @calculatedFrom(""" ++ [28040; 24687]%N ++ runes_of_ascii """)
    @calculatedFrom(""1"")
    match falsey as matchKey {
        ""x y"" : As,
        [3, ""CRC32""] : Foo,
        """" : roots,
    },
    string stringy `{ , }`,
}")).
Eval vm_compute in ("<<<M212>>>" ++ check (runes_of_ascii "/// triple
packet A
{@calculatedFrom(""a\""b"" ) Logon`u8 x,` , metadata BodyLength
, } // trailing space 
packet	As{ @rightPad (
) repeat
uint8
chars , i64
/// triple
// a // b
zchar `say ""hi""` ,@rightPad
( '\x00' )
@leftPad (
'0')@lengthOf( int
) char[
    65535  ] rootA , } root packet trueish
{}
")).
Eval vm_compute in ("<<<M1542>>>" ++ check (runes_of_ascii "root packet Foo // " ++ [128512]%N ++ runes_of_ascii " emoji
{ } options {
    // a // b
    tag // `tick` ""quote"" 'q'
= //	t
""""
    ; u8x = zchar[0  ] }
MetaData
    int {zchar[ 10]
lengthOf	`` , float64 u8x`// not a comment` ,MetaDataX pack// `tick` ""quote"" 'q'
`crlf
line`
, Logon charz `crlf
line`
    ,
    // a // b
    }
")).
Eval vm_compute in ("<<<M1490>>>" ++ check (runes_of_ascii "root packet Foo // " ++ [128512]%N ++ runes_of_ascii " emoji
{ } options {
    // a // b
    tag // `tick` ""quote"" 'q'
= //	t
""""
    ; u8x = zchar[0  ] } }
MetaData
    int {zchar[ 10]
lengthOf	`` , i64 u8x`// not a comment` ,MetaDataX pack// `tick` ""quote"" 'q'
`crlf
line`
, Logon charz `crlf
line`
    ,
    // a // b
    }
")).
Eval vm_compute in ("<<<M1417>>>" ++ check (runes_of_ascii "root uint64 Foo // " ++ [128512]%N ++ runes_of_ascii " emoji
{ } options {
    // a // b
    tag // `tick` ""quote"" 'q'
= //	t
""""
    ; u8x = zchar[0  ] }
MetaData
    int {zchar[ 10]
lengthOf	`` , i64 u8x`// not a comment` ,MetaDataX pack// `tick` ""quote"" 'q'
`crlf
line`
, Logon charz `crlf
line`
    ,
    // a // b
    }
")).
Eval vm_compute in ("<<<M1581>>>" ++ check (runes_of_ascii "root packet Foo // " ++ [128512]%N ++ runes_of_ascii " emoji
{ } options {
    // a // b
    tag // `tick` ""quote"" 'q'
= //	t
""""
    ; u8x = zchar[0  ] }
MetaData
    int {zchar[ 10]
lengthOf	`` , i64 u8x`// not a comment` ,MetaDataX pack// `tick` ""quote"" 'q'
`crlf
line`
, charz Logon `crlf
line`
    ,
    // a // b
    }
")).
Eval vm_compute in ("<<<M1514>>>" ++ check (runes_of_ascii "root packet Foo // " ++ [128512]%N ++ runes_of_ascii " emoji
{ } options {
    // a // b
    tag // `tick` ""quote"" 'q'
= //	t
""""
    ; u8x = zchar[0  ] }
MetaData
    int {zchar[ ]
lengthOf	`` , i64 u8x`// not a comment` ,MetaDataX pack// `tick` ""quote"" 'q'
`crlf
line`
, Logon charz `crlf
line`
    ,
    // a // b
    }
")).
Eval vm_compute in ("<<<M3920>>>" ++ check (runes_of_ascii "

  packet chars 
{
repeat float32 
x_y_z
	,
@tag(
    0123456789 )char[
255
]
	rootA  `{ , }`
    ,

} options
    {
	x =
zchar[
	00 ] 
;
	Packet

    =
	'\x00'

;

    } 
options{
Z9_= // packet A { u8 x, }
	  ""CRC32""
	;  As	=  // `tick` ""quote"" 'q'
  uint32
	;
} 	 // a // b")).
Eval vm_compute in ("<<<M1005>>>" ++ check (runes_of_ascii "packet o {
@lengthOf(matchKey	) Logon ,
@lengthOf( u128 ) Header metadata `u8 x,` ,
// " ++ [27880; 37322]%N ++ runes_of_ascii "
// `tick` ""quote"" 'q'
@leftPad	(' '
    //
    )
@lengthOf( Header ) @calculatedFrom( ""\" ++ [233]%N ++ runes_of_ascii """ )f32a
@lengthOf( asx)	, } MetaData leftPad{ i32
    // `tick` ""quote"" 'q'
    charz `
` ,
}
")).
Eval vm_compute in ("<<<M1037>>>" ++ check (runes_of_ascii "packet crc // " ++ [27880; 37322]%N ++ runes_of_ascii "
{  zchar[ 0123456789 ]
    A `say ""hi""`,repeat char[
    255 ]u , zchar`// not a comment`//
,}	packet  uint8x { int16 Packet ,
repeat uint8x {
    asx lengthOf , // @lengthOf(
char[0123456789
] // packet A { u8 x, }
asx `line1
line2`
    , } ,
}")).
Eval vm_compute in ("<<<M1606>>>" ++ check (runes_of_ascii "root packet Foo // " ++ [128512]%N ++ runes_of_ascii " emoji
{ } options {
    // a // b
    tag // `tick` ""quote"" 'q'
= //	t
""""
    ; u8x = zchar[0  ] }
MetaData
    int {zchar[ 10]
lengthOf	`` , i64 u8x`// not a comment` ,MetaDataX pack// `tick` ""quote"" 'q'
`crlf
line`
, Logon charz ")).
Eval vm_compute in ("<<<M47>>>" ++ check (runes_of_ascii "  root packet rootA { @leftPad
(
'\x00' // `tick` ""quote"" 'q'
) @lengthOf(
    crc ) @lengthOf( string_ ) uint16 Z9_ `
`	, @lengthOf( Z9_ )char[4294967296
    ]  zchar `say ""hi""` ,
    u, match
int as
    stringy {
3 :
    body, }
    ,	} 	 ")).
Eval vm_compute in ("<<<M3449>>>" ++ check (runes_of_ascii "// top
options
    // c0
{
    // c1
FixedStringPadFromLeft =
    // c3
true // c4
;
    // c5
}
    // c6
root
    // c7
packet P // c9a
  // c9b
{
    // c10
char[
    // c11
4 // c12a
  // c12b
] z
    // c14
, // c15a
  // c15b
} ")).
Eval vm_compute in ("<<<M4210>>>" ++ check (runes_of_ascii "
packet Z9_
	{ i32 body , 
u64 u8x  @lengthOf( 
	// trailing space 
  x_y_z
	) 
, 
@lengthOf(u128 ) zchar[ 00
    ]
    stringy

    ,
	repeat

uint8 
leftPad ,  } packet matchKey

{

} 	 // @lengthOf(
packet  pack//
	{}
")).
Eval vm_compute in ("<<<M2331>>>" ++ check (runes_of_ascii "MetaData Packet { }packet	asx  { @lengthOf( asx) falsey`crlf
line`
,
    }
    packet x	{uint32// @lengthOf(
rootA	,u32 options1 `say ""hi""` , @tag( @tag( 7
    )// packet A { u8 x, }
msg_type @lengthOf(
stringy	)	, }

")).
Eval vm_compute in ("<<<M2286>>>" ++ check (runes_of_ascii "MetaData Packet { }packet	asx  { @lengthOf( asx) falsey`crlf
line`
,
    }
    packet x x	{uint32// @lengthOf(
rootA	,u32 options1 `say ""hi""` , @tag( 7
    )// packet A { u8 x, }
msg_type @lengthOf(
stringy	)	, }

")).
Eval vm_compute in ("<<<M434>>>" ++ check (runes_of_ascii "MetaData
    charz { zchar[ 00 ]
    leftPad
    `tab	here` , zchar[ //x
007
] // " ++ [27880; 37322]%N ++ runes_of_ascii "
matchKey , crc	matchKey  ,char[
    1
// " ++ [27880; 37322]%N ++ runes_of_ascii "
// a // b
]
// `tick` ""quote"" 'q'
//	t
x_y_z ,
    string_ matchKey `say ""hi""` , }
")).
Eval vm_compute in ("<<<M2368>>>" ++ check (runes_of_ascii "MetaData Packet { }packet	asx  { @lengthOf( asx) falsey`crlf
line`
,
    }
    packet x	{uint32// @lengthOf(
rootA	,u32 options1 `say ""hi""` , @tag( 7
    )// packet A { u8 x, }
msg_type @lengthOf(
stringy	)	0 }

")).
Eval vm_compute in ("<<<M2263>>>" ++ check (runes_of_ascii "MetaData Packet { }packet	asx  { @lengthOf( asx) u64`crlf
line`
,
    }
    packet x	{uint32// @lengthOf(
rootA	,u32 options1 `say ""hi""` , @tag( 7
    )// packet A { u8 x, }
msg_type @lengthOf(
stringy	)	, }

")).
Eval vm_compute in ("<<<M2215>>>" ++ check (runes_of_ascii "( Packet { }packet	asx  { @lengthOf( asx) falsey`crlf
line`
,
    }
    packet x	{uint32// @lengthOf(
rootA	,u32 options1 `say ""hi""` , @tag( 7
    )// packet A { u8 x, }
msg_type @lengthOf(
stringy	)	, }

")).
Eval vm_compute in ("<<<M1027>>>" ++ check (runes_of_ascii "packet body { @calculatedFrom( ""a\""b"" ) T uint8x `` , } root packet rootA /// triple
{ float64
    leftPad// packet A { u8 x, }
, u16 zchar,
}
    //	t
    MetaData roots //	t
{ u8 i64_ , } /// triple")).
Eval vm_compute in ("<<<M155>>>" ++ check (runes_of_ascii "packet pack
    { @calculatedFrom(
""CRC32""
) i8i8 { MetaDataX @lengthOf( x
//x
// packet A { u8 x, }
), char As @lengthOf( len	) ,
// " ++ [128512]%N ++ runes_of_ascii " emoji
//x
chars metadata `say ""hi""` , char[ 0] int ,}, }
")).
Eval vm_compute in ("<<<M1201>>>" ++ check (runes_of_ascii "root packet BodyLength
    { lengthOf { char[/// triple
42  ]
Foo `` // trailing space 
, u64 Foo @calculatedFrom(""x y"" //
) ,}  ,rootA
@lengthOf(Packet
)
    , }
options
{ Pad = 00
}
")).
Eval vm_compute in ("<<<M3775>>>" ++ check (runes_of_ascii "root packet stringy {
    charz T `u8 x,`,
    char tag,
    uint64 u128,
}

options {
    x = '0'// `tick` ""quote"" 'q'
    rootA = ""CRC32"";// " ++ [27880; 37322]%N ++ runes_of_ascii "
    i64_ = ""a\\"";
}

options {
}")).
Eval vm_compute in ("<<<M3773>>>" ++ check (runes_of_ascii "packet A {
    match k as n {
        [
            007, 66, 9, 12, ""a"",
            ""bb"", ""d"", ""e"", ""g"", ""h"",
            ""j"", ""k""
        ] : B,
        2 : C,
    },
}")).
Eval vm_compute in ("<<<M1258>>>" ++ check (runes_of_ascii "packet
    stringy { @tag( 007
)
@calculatedFrom(
""packet""
    ) repeat// " ++ [27880; 37322]%N ++ runes_of_ascii "
i64
    x, _x// a // b
, repeat char[7]Packet , }root packet body	{ i32	Pad
,
    }")).
Eval vm_compute in ("<<<M4369>>>" ++ check (runes_of_ascii "

  MetaData	f32a
{
	uint8 	 // a // b
  	repeatCount 
,  x_y_z
	i8i8
,

f32 msg_type
    ,charz  lengthOf
	`tab	here`
,	char[ 7]
	chars	,
float  x
    ,	}
")).
Eval vm_compute in ("<<<M4056>>>" ++ check (runes_of_ascii "

  MetaData u128
{

char[
	3

    ]
    leftPad,char[]
	u8x `{ , }`	,
Header
i8i8, } 
options{ 
    //
crc  = ""// no comment"" asx	= ""CRC32""; 
}
")).
Eval vm_compute in ("<<<M4043>>>" ++ check (runes_of_ascii "packet A {
    match k as n {
        [
            ""a"", ""bb"", ""c c"", ""d"", ""e"",
            ""f"", ""g"", ""h""
        ] : B,
        2 : C,
    },
}")).
Eval vm_compute in ("<<<M1513>>>" ++ check (runes_of_ascii "root packet Foo // " ++ [128512]%N ++ runes_of_ascii " emoji
{ } options {
    // a // b
    tag // `tick` ""quote"" 'q'
= //	t
""""
    ; u8x = zchar[0  ] }
MetaData
    int {")).
Eval vm_compute in ("<<<M3598>>>" ++ check (runes_of_ascii "
packet calculatedFrom  { @tag(  4294967296 )

// c
	u msg_type

    ,
    char[3] crc

    @lengthOf(

    len 
)	`u8 x,` ,
}
")).
Eval vm_compute in ("<<<M4374>>>" ++ check (runes_of_ascii "packet  calculatedFrom{
@tag(4294967296 )u
    msg_type ,

    char[ 3	// c
      ]

    crc@lengthOf(
len

)	`u8 x,`
	,
    }
")).
Eval vm_compute in ("<<<M4340>>>" ++ check (runes_of_ascii "
MetaData float

    {
tag  body
`" ++ [233]%N ++ runes_of_ascii "`
	,f64 i8i8

    `{ , }`
, f32	chars `two words`
,Pad
	i64_// @lengthOf(

	,

}  //	t
")).
Eval vm_compute in ("<<<M1714>>>" ++ check (runes_of_ascii "root packet /// triple
rootA {	i32
MetaDataX@calculatedFrom( ""CRC32"" ) `line1
line2` , } MetaData BodyLength {
u8
rootA, A // c")).
Eval vm_compute in ("<<<M4489>>>" ++ check (runes_of_ascii "MetaData string_ {
    char[] Pad `// not a comment`,
    i32 lengthOf `{ , }`,
    u16 As,
    len x_y_z,
    char[] rootA,
}")).
Eval vm_compute in ("<<<M723>>>" ++ check (runes_of_ascii "packet
    // @lengthOf(
    roots { u32 calculatedFrom @calculatedFrom(
""\" ++ [233]%N ++ runes_of_ascii """ // @lengthOf(
) // `tick` ""quote"" 'q'
, }

")).
Eval vm_compute in ("<<<M2319>>>" ++ check (runes_of_ascii "MetaData Packet { }packet	asx  { @lengthOf( asx) falsey`crlf
line`
,
    }
    packet x	{uint32// @lengthOf(
rootA	,u32")).
Eval vm_compute in ("<<<M1880>>>" ++ check (runes_of_ascii "packet
    Pad // a // b
{ i8i8 @calculatedFrom( ""a	b"") `u8 x,` ,
} options{ float// " ++ [128512]%N ++ runes_of_ascii " emoji
= f64 i6''4_
=//	t
00 }
")).
Eval vm_compute in ("<<<M1783>>>" ++ check (runes_of_ascii "Pad
    packet // a // b
{ i8i8 @calculatedFrom( ""a	b"") `u8 x,` ,
} options{ float// " ++ [128512]%N ++ runes_of_ascii " emoji
= f64 i64_
=//	t
00 }
")).
Eval vm_compute in ("<<<M1833>>>" ++ check (runes_of_ascii "packet
    Pad // a // b
{ i8i8 @calculatedFrom( ""a	b"") `u8 x,` ,
} uint64{ float// " ++ [128512]%N ++ runes_of_ascii " emoji
= f64 i64_
=//	t
00 }
")).
Eval vm_compute in ("<<<M1706>>>" ++ check (runes_of_ascii "root packet /// triple
rootA {	i32
MetaDataX@calculatedFrom( ""CRC32"" ) `line1
line2` , } MetaData BodyLength {
u8")).
Eval vm_compute in ("<<<M757>>>" ++ check (runes_of_ascii "root packet	charz	{ @tag(
    // trailing space 
    0123456789 )
string a1 `// not a comment` , }options {
}

")).
Eval vm_compute in ("<<<M4328>>>" ++ check (runes_of_ascii "packet A	{  match

    k as
n

    {[  ""a"" ,	""bb""
    , ""c c"",  ""d""
]  :

    B

    ,

2 
:C}
,
} ")).
Eval vm_compute in ("<<<M317>>>" ++ check (runes_of_ascii "packet BodyLength
{
@calculatedFrom(	""""
)// c
char[  42 ]uint8x,} packet  len { uint64 a1  `{ , }`//x
,}
")).
Eval vm_compute in ("<<<M3344>>>" ++ check (runes_of_ascii "packet calculatedFrom {
// c
@tag( 4294967296 ) u msg_type , char[ 3 ] crc @lengthOf( len ) `u8 x,` , }")).
Eval vm_compute in ("<<<M3739>>>" ++ check (runes_of_ascii "packet A {
    u32 crc @calculatedFrom(""x\
        y""),
    @calculatedFrom(""x\
        y"")
    u8 y,
}")).
Eval vm_compute in ("<<<M3035>>>" ++ check (runes_of_ascii "packet A {
    Inner {
        u8 x `x
`,
        Deep {
            u8 y `x
`,
        },
    },
}")).
Eval vm_compute in ("<<<M2940>>>" ++ check (runes_of_ascii "packet A {
  match k as n {
    [""a"", ""bb"", ""c c"", ""d"", ""e"", ""f"", ""g"", ""h""] : B
    2 : C
  },
}")).
Eval vm_compute in ("<<<M3226>>>" ++ check (runes_of_ascii "packet Logon { @tag( 42 ) // c
@rightPad ( ' ' ) @leftPad ( ) repeat trueish { string T , } , }")).
Eval vm_compute in ("<<<M4000>>>" ++ check (runes_of_ascii "
MetaData 
  // " ++ [128512]%N ++ runes_of_ascii " emoji
msg_type	{
    As roots
,
i32 
rootA,f64 falsey
	, char[]

rootA 
, }")).
Eval vm_compute in ("<<<M2977>>>" ++ check (runes_of_ascii "packet A {
  match k as n {
    [1, 22, 007, 4, 5, 66, 7, 8, 9, 10, 11] : B
    2 : C
  },
}")).
Eval vm_compute in ("<<<M1967>>>" ++ check (runes_of_ascii "root
packet crc crc
    { f32a @calculatedFrom( """ ++ [233]%N ++ runes_of_ascii "t" ++ [233]%N ++ runes_of_ascii """ )
    `say ""hi""`, lengthOf `` ,  }")).
Eval vm_compute in ("<<<M2289>>>" ++ check (runes_of_ascii "MetaData Packet { }packet	asx  { @lengthOf( asx) falsey`crlf
line`
,
    }
    packet")).
Eval vm_compute in ("<<<M1973>>>" ++ check (runes_of_ascii "root
packet crc
    f32a { @calculatedFrom( """ ++ [233]%N ++ runes_of_ascii "t" ++ [233]%N ++ runes_of_ascii """ )
    `say ""hi""`, lengthOf `` ,  }")).
Eval vm_compute in ("<<<M2951>>>" ++ check (runes_of_ascii "packet A {
  match k as n {
    [1, 22, 007, 4, 5, 66, 7, 8, 9] : B
    2 : C
  },
}")).
Eval vm_compute in ("<<<M1965>>>" ++ check (runes_of_ascii "root
as crc
    { f32a @calculatedFrom( """ ++ [233]%N ++ runes_of_ascii "t" ++ [233]%N ++ runes_of_ascii """ )
    `say ""hi""`, lengthOf `` ,  }")).
Eval vm_compute in ("<<<M3317>>>" ++ check (runes_of_ascii "packet o { @tag( 42 ) repeat x { char[ 0123456789 ]
// c
i64_ , } , } options { }")).
Eval vm_compute in ("<<<M3664>>>" ++ check (runes_of_ascii "root
    packet
    P 
{

    u8
    s_u8 , 
repeat u8 r_u8

,u16  b_len  ,
	}")).
Eval vm_compute in ("<<<M2015>>>" ++ check (runes_of_ascii "root
packet crc
    { f32a @calculatedFrom( """ ++ [233]%N ++ runes_of_ascii "t" ++ [233]%N ++ runes_of_ascii """ )
    `say ""hi""`, lengthOf")).
Eval vm_compute in ("<<<M4241>>>" ++ check (runes_of_ascii "  packet	o
{
@rightPad
	(  )	// trailing space 
x_y_z calculatedFrom

, } ")).
Eval vm_compute in ("<<<M2874>>>" ++ check (runes_of_ascii "packet A {
  match k as n {
    [""a"", ""bb"", ""c c""] : B,
    2 : C
  },
}")).
Eval vm_compute in ("<<<M2279>>>" ++ check (runes_of_ascii "MetaData Packet { }packet	asx  { @lengthOf( asx) falsey`crlf
line`
,")).
Eval vm_compute in ("<<<M2162>>>" ++ check (runes_of_ascii "root
    // `tick` ""quote"" 'q'
    packet As As { trueish Packet , }
")).
Eval vm_compute in ("<<<M2886>>>" ++ check (runes_of_ascii "packet A {
  match k as n {
    [1, 22, 007, 4] : B
    2 : C
  },
}")).
Eval vm_compute in ("<<<M2173>>>" ++ check (runes_of_ascii "root
    // `tick` ""quote"" 'q'
    packet As { Packet trueish , }
")).
Eval vm_compute in ("<<<M1824>>>" ++ check (runes_of_ascii "packet
    Pad // a // b
{ i8i8 @calculatedFrom( ""a	b"") `u8 x,`")).
Eval vm_compute in ("<<<M2153>>>" ++ check (runes_of_ascii "
    // `tick` ""quote"" 'q'
    packet As { trueish Packet , }
")).
Eval vm_compute in ("<<<M2864>>>" ++ check (runes_of_ascii "packet A {
  match k as n {
    [1, 22] : B
    2 : C
  },
}")).
Eval vm_compute in ("<<<M2832>>>" ++ check (runes_of_ascii "] u8 u32 `line1
line2` root ) char ) match '\x00' int8 = (")).
Eval vm_compute in ("<<<M500>>>" ++ check (runes_of_ascii "packet body { i32 Z9_ @lengthOf( roots),
    //	t
    }
")).
Eval vm_compute in ("<<<M3989>>>" ++ check (runes_of_ascii "packet A

{ u8

    x

    `d" ++ [160]%N ++ runes_of_ascii "`
    ,  // c" ++ [160]%N ++ runes_of_ascii "
	  } ")).
Eval vm_compute in ("<<<M2808>>>" ++ check (runes_of_ascii "match , ) u32 @lengthOf( [ int16 00 u8 ) = u16 { u16")).
Eval vm_compute in ("<<<M2412>>>" ++ check (runes_of_ascii "MetaData A
{
< i64
chars	, } // `tick` ""quote"" 'q'")).
Eval vm_compute in ("<<<M801>>>" ++ check (runes_of_ascii "MetaData tag { Logon rootA `` ,
} packet Pad{
}
")).
Eval vm_compute in ("<<<M2259>>>" ++ check (runes_of_ascii "MetaData Packet { }packet	asx  { @lengthOf( asx")).
Eval vm_compute in ("<<<M1264>>>" ++ check (runes_of_ascii "root
packet options1
{ }
root packet int{ }")).
Eval vm_compute in ("<<<M340>>>" ++ check (runes_of_ascii "packet int
    { }
    packet u128 {
    }
")).
Eval vm_compute in ("<<<M2131>>>" ++ check (runes_of_ascii "MetaData x
{// " ++ [128512]%N ++ runes_of_ascii " emoji
i16 stringy , char[")).
Eval vm_compute in ("<<<M4224>>>" ++ check (runes_of_ascii "options 
{

string_
	= zchar[	007 ] ; 
}
")).
Eval vm_compute in ("<<<M3195>>>" ++ check (runes_of_ascii "MetaData zchar {
// c
zchar[ 3 ] Pad , }")).
Eval vm_compute in ("<<<M2845>>>" ++ check (runes_of_ascii "k" ++ [65533]%N ++ runes_of_ascii "4" ++ [65533]%N ++ runes_of_ascii "uQ" ++ [65533]%N ++ runes_of_ascii "az" ++ [65533]%N ++ runes_of_ascii "e" ++ [65533; 65533]%N ++ runes_of_ascii ":" ++ [65533]%N ++ runes_of_ascii "o" ++ [65533; 28; 65533]%N ++ runes_of_ascii "o" ++ [14; 65533]%N ++ runes_of_ascii "9" ++ [65533; 24; 1654; 65533]%N ++ runes_of_ascii "|2" ++ [65533; 65533]%N ++ runes_of_ascii "1\" ++ [65533]%N ++ runes_of_ascii "iI" ++ [65533; 65533]%N ++ runes_of_ascii """")).
Eval vm_compute in ("<<<M4305>>>" ++ check (runes_of_ascii "MetaData trueish {
    i8 MetaDataX,
}")).
Eval vm_compute in ("<<<M2613>>>" ++ check (runes_of_ascii "packet A { match k as n { x : B }, }")).
Eval vm_compute in ("<<<M2029>>>" ++ check (runes_of_ascii "root
packet crc
    { f32a @calcu")).
Eval vm_compute in ("<<<M4067>>>" ++ check (runes_of_ascii "packet u128 {
    char[00] Pad,
}")).
Eval vm_compute in ("<<<M1646>>>" ++ check (runes_of_ascii "root packet /// triple
rootA {")).
Eval vm_compute in ("<<<M3093>>>" ++ check (runes_of_ascii "packet A {
 u8 x `d" ++ [8202]%N ++ runes_of_ascii "`, // c" ++ [8202]%N ++ runes_of_ascii "
}")).
Eval vm_compute in ("<<<M161>>>" ++ check (runes_of_ascii "packet u {A
    trueish , }
")).
Eval vm_compute in ("<<<M2621>>>" ++ check (runes_of_ascii "packet A { @leftPad u8 x, }")).
Eval vm_compute in ("<<<M2592>>>" ++ check (runes_of_ascii "packet A { x @leftPad(), }")).
Eval vm_compute in ("<<<M3270>>>" ++ check (runes_of_ascii "
// c
options { u8x = 3 }")).
Eval vm_compute in ("<<<M3272>>>" ++ check (runes_of_ascii "options
// c
{ u8x = 3 }")).
Eval vm_compute in ("<<<M2789>>>" ++ check (runes_of_ascii "packet `say ""hi""` int32")).
Eval vm_compute in ("<<<M3890>>>" ++ check (runes_of_ascii "  MetaData
asx
{ 
}

")).
Eval vm_compute in ("<<<M477>>>" ++ check (runes_of_ascii "MetaData pack
{ } 	 ")).
Eval vm_compute in ("<<<M2641>>>" ++ check (runes_of_ascii "MetaData M { u8 x }")).
Eval vm_compute in ("<<<M2854>>>" ++ check (runes_of_ascii "8Fa/Ek?q4_g4W,XqgA")).
Eval vm_compute in ("<<<M3141>>>" ++ check (runes_of_ascii "packet A {
}
// c" ++ [6158]%N)).
Eval vm_compute in ("<<<M3084>>>" ++ check (runes_of_ascii "packet A {
}// c" ++ [8192]%N)).
Eval vm_compute in ("<<<M707>>>" ++ check (runes_of_ascii "  options{} //x")).
Eval vm_compute in ("<<<M3706>>>" ++ check (runes_of_ascii "packet len {
}")).
Eval vm_compute in ("<<<M2755>>>" ++ check ([1074; 18; 65533; 65533; 65533]%N ++ runes_of_ascii "G" ++ [23; 65533; 65533]%N ++ runes_of_ascii "+t")).
Eval vm_compute in ("<<<M4410>>>" ++ check (runes_of_ascii "
// c" ++ [8233]%N ++ runes_of_ascii "
")).
Eval vm_compute in ("<<<M3717>>>" ++ check (runes_of_ascii "
// c
")).
Eval vm_compute in ("<<<M2429>>>" ++ check (runes_of_ascii "char_")).
Eval vm_compute in ("<<<M3110>>>" ++ check (runes_of_ascii "// c" ++ [8287]%N)).
Eval vm_compute in ("<<<M3581>>>" ++ check (runes_of_ascii "  //")).
Eval vm_compute in ("<<<M2670>>>" ++ check (runes_of_ascii "{ }")).
Eval vm_compute in ("<<<M2442>>>" ++ check (runes_of_ascii "u")).
