From FP Require Import Lexer Parser ShowPT Digest Formatter.
From Coq Require Import String List NArith.
Import ListNotations.
Open Scope string_scope.
Set Printing Width 100000000.
Set Printing Depth 100000000.
Definition show_fres (r : fres) : string :=
  match r with
  | FOk s => "OK:" ++ sh_escaped s ""
  | FErr s => "ERR:" ++ sh_escaped s ""
  | FPanic p => "PANIC:" ++ p
  end.
Definition check (rs : list rune) : string := digest (show_fres (format_res rs)).
Definition full (rs : list rune) : string := show_fres (format_res rs).
Eval vm_compute in ("<<<M3586>>>" ++ check (runes_of_ascii "// top
options
    // c0
{ // c1
LittleEndian
    // c2
= // c3a
  // c3b
true // c4
; // c5
StringPrefixLenType // c6
=
    // c7
u8 // c8a
  // c8b
;
    // c9
ArrayPrefixLenType // c10a
  // c10b
= u16 ; FixedStringPadChar // c14
=
    // c15
'0' // c16a
  // c16b
;
    // c17
JavaPackage = // c19
""com.example.msg"" // c20
; // c21
GoPackage = // c23a
  // c23b
""msg"" ;
    // c25
GoModule = ""example.com/msg""
    // c28
; }
    // c30
MetaData // c31a
  // c31b
Meta { u32 // c34
SeqNum
    // c35
`sequence number` , // c37a
  // c37b
char[ // c38
8 // c39a
  // c39b
]
    // c40
Symbol // c41
`symbol` // c42a
  // c42b
, // c43
zchar[ 5
    // c45
] // c46
ZSym // c47a
  // c47b
`z symbol` // c48
,
    // c49
string Note , // c52
Symbol
    // c53
AltSymbol `alias of symbol` // c55
, f64
    // c57
Price
    // c58
, // c59
} packet // c61a
  // c61b
Inner
    // c62
{ // c63
u8 a // c65
, // c66a
  // c66b
i16 b , // c69a
  // c69b
string c
    // c71
, // c72
} // c73
packet Inner2 // c75
{ // c76a
  // c76b
u8 a2
    // c78
, // c79a
  // c79b
char[
    // c80
3 ] // c82
c2
    // c83
, // c84a
  // c84b
} packet // c86
Logon {
    // c88
u8 // c89
x
    // c90
, // c91
string
    // c92
user
    // c93
, repeat u16
    // c96
codes
    // c97
, } // c99a
  // c99b
packet // c100
Logout // c101a
  // c101b
{ // c102
u16 reason ,
    // c105
}
    // c106
packet
    // c107
Empty // c108
{ } // c110a
  // c110b
root // c111
packet // c112a
  // c112b
Msg // c113a
  // c113b
{ // c114a
  // c114b
u8
    // c115
su8
    // c116
,
    // c117
uint8
    // c118
luint8
    // c119
, u16 // c121
su16 , uint16 // c124
luint16 // c125
, // c126a
  // c126b
u32
    // c127
su32 // c128
,
    // c129
uint32 // c130a
  // c130b
luint32 // c131a
  // c131b
, // c132
u64 // c133a
  // c133b
su64 // c134
, // c135
uint64 // c136a
  // c136b
luint64
    // c137
, // c138a
  // c138b
i8 // c139a
  // c139b
si8 , int8 // c142
lint8 ,
    // c144
i16 // c145
si16 , int16 lint16
    // c149
, i32 si32 // c152
, int32 // c154a
  // c154b
lint32
    // c155
, // c156a
  // c156b
i64 si64
    // c158
,
    // c159
int64 lint64
    // c161
,
    // c162
f32
    // c163
sf32 // c164a
  // c164b
,
    // c165
float32 // c166a
  // c166b
lfloat32 // c167
, f64 // c169
sf64 // c170
, // c171a
  // c171b
float64 // c172
lfloat64
    // c173
, char[ // c175a
  // c175b
6 // c176
] // c177a
  // c177b
fsplain // c178a
  // c178b
, // c179a
  // c179b
@leftPad // c180a
  // c180b
( '0' ) char[
    // c184
4 // c185
]
    // c186
fs0
    // c187
, // c188a
  // c188b
@rightPad (
    // c190
'0' ) char[ // c193a
  // c193b
5 // c194
]
    // c195
fs1 // c196
, @leftPad ( // c199
' ' // c200a
  // c200b
) // c201
char[ 6
    // c203
]
    // c204
fs2
    // c205
, // c206a
  // c206b
@rightPad
    // c207
( // c208a
  // c208b
' ' ) // c210a
  // c210b
char[ 7 // c212a
  // c212b
] // c213
fs3 , @leftPad // c216a
  // c216b
( // c217
'\x00' // c218a
  // c218b
) char[ // c220
8 // c221
] // c222
fs4 // c223
, // c224
@rightPad (
    // c226
'\x00' // c227
) // c228
char[ // c229
9 // c230
] fs5 // c232a
  // c232b
, // c233
@leftPad // c234
(
    // c235
) // c236a
  // c236b
char[ // c237
10 // c238a
  // c238b
] fs6 // c240
,
    // c241
@rightPad // c242
( // c243a
  // c243b
)
    // c244
char[
    // c245
11 ]
    // c247
fs7
    // c248
, // c249a
  // c249b
zchar[
    // c250
7
    // c251
] // c252a
  // c252b
fz
    // c253
, @leftPad // c255a
  // c255b
(
    // c256
'0' // c257
) // c258a
  // c258b
zchar[ 3 // c260
] // c261a
  // c261b
fzl0
    // c262
,
    // c263
string // c264a
  // c264b
s1 // c265
`doc` // c266a
  // c266b
, // c267
char[]
    // c268
s2
    // c269
,
    // c270
Inner // c271
, // c272a
  // c272b
Sub
    // c273
{ // c274
u8 // c275a
  // c275b
q
    // c276
, string // c278a
  // c278b
w , // c280
Deep // c281
{ // c282
u16
    // c283
z // c284
,
    // c285
repeat i32 // c287a
  // c287b
zs
    // c288
,
    // c289
}
    // c290
, // c291a
  // c291b
} , // c293a
  // c293b
repeat // c294a
  // c294b
u8 // c295a
  // c295b
ru8 // c296
, // c297
repeat // c298a
  // c298b
u16 ru16 // c300a
  // c300b
, repeat // c302a
  // c302b
u32 // c303
ru32 // c304a
  // c304b
, // c305
repeat // c306
u64 ru64 , repeat
    // c310
i8 // c311
ri8 // c312a
  // c312b
,
    // c313
repeat i16
    // c315
ri16 // c316
,
    // c317
repeat i32 ri32
    // c320
,
    // c321
repeat i64 ri64 , // c325
repeat // c326
f32 // c327a
  // c327b
rf32 // c328
, // c329a
  // c329b
repeat
    // c330
f64 rf64 // c332
, // c333
repeat
    // c334
string
    // c335
rstr // c336
, // c337
repeat
    // c338
char[] rstr2 // c340a
  // c340b
, repeat char[ // c343a
  // c343b
3 // c344
] // c345
rfs , repeat // c348
zchar[
    // c349
3 // c350a
  // c350b
] // c351a
  // c351b
rfz ,
    // c353
repeat // c354
Inner2 // c355a
  // c355b
, repeat Grp // c358
{ u8 // c360a
  // c360b
k , // c362a
  // c362b
char[ // c363a
  // c363b
2 ] v // c366a
  // c366b
, // c367
}
    // c368
, // c369
SeqNum // c370
, // c371
SeqNum seq2
    // c373
, repeat SeqNum
    // c376
seqs // c377
, Symbol // c379
, // c380
AltSymbol
    // c381
alt
    // c382
, // c383a
  // c383b
ZSym , Note // c386
,
    // c387
repeat // c388
Symbol // c389
syms , Price px
    // c393
, // c394a
  // c394b
u16 MsgType // c396a
  // c396b
, // c397
u32 BodyLen // c399
@lengthOf( // c400a
  // c400b
Body ) // c402a
  // c402b
,
    // c403
match // c404a
  // c404b
MsgType // c405
as // c406a
  // c406b
Body {
    // c408
1
    // c409
: // c410
Logon // c411
, // c412
[ // c413a
  // c413b
2 // c414a
  // c414b
,
    // c415
3 ]
    // c417
: // c418a
  // c418b
Logout // c419a
  // c419b
, // c420
7
    // c421
: // c422a
  // c422b
Logon , 9
    // c425
: Empty // c427a
  // c427b
, // c428a
  // c428b
} , // c430a
  // c430b
u32 // c431a
  // c431b
Checksum // c432
@calculatedFrom(
    // c433
""CRC32"" // c434a
  // c434b
)
    // c435
,
    // c436
} ")).
Eval vm_compute in ("<<<M3571>>>" ++ check (runes_of_ascii "// top
options
    // c0
{
    // c1
StringPrefixLenType // c2
= // c3a
  // c3b
u64 // c4a
  // c4b
; // c5
ArrayPrefixLenType // c6a
  // c6b
=
    // c7
u8
    // c8
;
    // c9
FixedStringPadFromLeft =
    // c11
true
    // c12
; FixedStringPadChar
    // c14
=
    // c15
'0' // c16a
  // c16b
; // c17a
  // c17b
}
    // c18
packet
    // c19
Ack
    // c20
{ // c21a
  // c21b
@rightPad // c22
( // c23
'0'
    // c24
) // c25a
  // c25b
char[ // c26
7 ] // c28
Px // c29
,
    // c30
u64 msgKind // c32
, // c33
i8 // c34
x
    // c35
, // c36a
  // c36b
} // c37a
  // c37b
packet
    // c38
Party // c39a
  // c39b
{ i8 // c41a
  // c41b
sym // c42a
  // c42b
, // c43
repeat
    // c44
Ack
    // c45
, repeat // c47a
  // c47b
InPx10
    // c48
{ // c49a
  // c49b
repeat // c50
Ack
    // c51
, // c52
zchar[
    // c53
1 ] // c55
Ref
    // c56
, // c57a
  // c57b
uint64
    // c58
Qty ,
    // c60
u16 // c61
tag7
    // c62
,
    // c63
} // c64
, // c65a
  // c65b
int8
    // c66
clOrdID // c67a
  // c67b
,
    // c68
}
    // c69
packet // c70
Fill
    // c71
{ } // c73a
  // c73b
packet // c74a
  // c74b
Order // c75
{ // c76a
  // c76b
}
    // c77
root
    // c78
packet Quote { // c81a
  // c81b
Order , // c83a
  // c83b
@leftPad // c84
(
    // c85
'0' // c86a
  // c86b
) // c87a
  // c87b
char[
    // c88
1 ]
    // c90
Side2 ,
    // c92
string
    // c93
venue , // c95a
  // c95b
char[ // c96
7 // c97a
  // c97b
]
    // c98
lastPx
    // c99
, u16 tag7
    // c102
,
    // c103
u32 // c104a
  // c104b
clOrdID ,
    // c106
match // c107a
  // c107b
clOrdID // c108a
  // c108b
as // c109
Body {
    // c111
30 : // c113
Order
    // c114
, // c115a
  // c115b
196
    // c116
: Party // c118
, // c119
10 // c120
: Fill // c122
,
    // c123
28 : Ack // c126a
  // c126b
, } // c128
, u32
    // c130
sym // c131
@calculatedFrom( // c132a
  // c132b
""CRC32""
    // c133
)
    // c134
,
    // c135
} // c136a
  // c136b
")).
Eval vm_compute in ("<<<M253>>>" ++ check (runes_of_ascii "packet Foo{ calculatedFrom @calculatedFrom(// c
""\n""
    ) `// not a comment` ,
repeat
char[] uint8x`" ++ [28040; 24687; 31867; 22411]%N ++ runes_of_ascii "` , options1//x
@calculatedFrom( // 50% %s
""it's"" ) ,
int64
a1	, @tag( 00 ) match lengthOf as int {""a\""b"" : msg_type
, } , @lengthOf( // trailing space 
stringy) metadata @calculatedFrom( """ ++ [233]%N ++ runes_of_ascii "t" ++ [233]%N ++ runes_of_ascii """), repeat zchar
{ char[
    255 ]
    //x
    u8x ,repeat
    zchar ,	match f32a
    // @lengthOf(
    as
pack{
    ""// no comment""://x
a1 , } , }
, } // @lengthOf(
root packet Packet
{ } packet float {  @calculatedFrom(
    """ ++ [233]%N ++ runes_of_ascii "t" ++ [233]%N ++ runes_of_ascii """
    )	x_y_z ,	char[	3 ] x_y_z
@calculatedFrom(
""a\\""
) `" ++ [28040; 24687; 31867; 22411]%N ++ runes_of_ascii "`,
@tag(	10 )u16 Header@lengthOf(zchar )
`crlf
line` , @lengthOf( charz ) repeat trueish {
metadata @lengthOf( falsey) , repeat
// " ++ [27880; 37322]%N ++ runes_of_ascii "
//	t
char[]
uint8x `tab	here`, int64 rootA
`" ++ [233]%N ++ runes_of_ascii "` , repeat crc {	match i8i8 as T { [
    ""// no comment"" , ""CRC32"",
""" ++ [28040; 24687]%N ++ runes_of_ascii """]	: zchar
    // trailing space 
    ,[
4294967296// `tick` ""quote"" 'q'
]:BodyLength ,  ""\n""
:
    _x
,4294967296 :  BodyLength ,},
    body `" ++ [233]%N ++ runes_of_ascii "`,
repeat metadata zchar ,  repeat f32 crc`// not a comment` , } ,
    }
// a // b
// packet A { u8 x, }
, // 50% %s
@leftPad (
    ) char[]	Pad `" ++ [28040; 24687; 31867; 22411]%N ++ runes_of_ascii "` ,repeat
calculatedFrom
    BodyLength , match
_x
as int {
    ""{,}"" :
trueish
    ,  42:
x_y_z
    [ 7 ]
:
    tag,
    } , @leftPad (//	t
) u8x /// triple
{repeat
char[ 42]
/// triple
// 50% %s
matchKey  , char[ 65535// packet A { u8 x, }
]	len
@lengthOf( roots) , crc ,	char[
// trailing space 
// a // b
0123456789]len @lengthOf( leftPad
)
// c
//	t
,	} ,
    //
    repeat int64
calculatedFrom`" ++ [28040; 24687; 31867; 22411]%N ++ runes_of_ascii "` ,repeat repeatCount
rootA , } packet a1 { /// triple
}
")).
Eval vm_compute in ("<<<M201>>>" ++ check (runes_of_ascii "root	packet string_
    //	t
    {
match roots	as matchKey { ""a\\"" : pack , """":falsey
,
007	:u8x ,
[ ""a\""b"" ,
    ""x y""	,
3 ,//	t
0 , 255 ,
007	,
3, 7 ] : x_y_z , } ,
@lengthOf(
// packet A { u8 x, }
//x
string_) repeat uint16 body`crlf
line` , match rootA as /// triple
Logon
{
    """ ++ [128512]%N ++ runes_of_ascii """ :	MetaDataX
,}
,
// packet A { u8 x, }
// 50% %s
@rightPad
    (	'\x00' )// trailing space 
u
{ match roots as falsey
// c
// " ++ [27880; 37322]%N ++ runes_of_ascii "
{
""\n"" : MetaDataX// " ++ [128512]%N ++ runes_of_ascii " emoji
, """ ++ [233]%N ++ runes_of_ascii "t" ++ [233]%N ++ runes_of_ascii """ :u128 ,
// @lengthOf(
// `tick` ""quote"" 'q'
[
""" ++ [28040; 24687]%N ++ runes_of_ascii """	] :
leftPad, [ ""{,}""  ]
    : float
    , [255 ,""// no comment""
    // trailing space 
    , ""\n"" ,
7 , 65535
, 3
] : len ,} , }
,	char[// trailing space 
00 ] i8i8
    `tab	here`, @tag( 007 ) @calculatedFrom( ""CRC32""
    // " ++ [128512]%N ++ runes_of_ascii " emoji
    )repeat
uint64
    A
`// not a comment` , @leftPad ( '\x00')string stringy`line1
line2`
    , @rightPad (
    '\x00' )
    @tag( // c
255
// c
// c
)
body
    @lengthOf(Z9_ )// a // b
, match
x_y_z as falsey { ""\" ++ [233]%N ++ runes_of_ascii """ : options1
,  } , } root packet charz {
char[]// c
body `// not a comment` ,	@rightPad
    ( ) a1
{ Pad	@lengthOf(
    falsey
    ) `say ""hi""` , }
,
    match zchar as Z9_
    { 0 :u128  ,
} ,match
    f32a  as u128
    //
    { ""1"" :Pad, ""packet""
:len
// c
/// triple
,
    ""{,}"" : charz
,
[1
,
    00 ,//x
""CRC32""
    ,
""x y"", 42 , ""a\\""
, ""packet""
    , 00 ] :
len [ ""1""]
:	crc,
    42 :
Logon ,}
, } packet stringy {
char[ 7
    ]
    trueish , }")).
Eval vm_compute in ("<<<M4524>>>" ++ check (runes_of_ascii "packet u8x {
    float64 tag,
    repeat string As `it's`,
    @calculatedFrom(""" ++ [128512]%N ++ runes_of_ascii """)
    rootA,
    uint32 roots `" ++ [28040; 24687; 31867; 22411]%N ++ runes_of_ascii "`,
    x_y_z @lengthOf(stringy),
    @calculatedFrom(""" ++ [128512]%N ++ runes_of_ascii """)
    repeat u32 int `tab	here`,
    x @calculatedFrom(""" ++ [233]%N ++ runes_of_ascii "t" ++ [233]%N ++ runes_of_ascii """) `line1
        line2`,
}

options {
    // c
    Pad = '\x00'
    float = 0123456789
    // trailing space 
    // 50% %s
    body = uint64;
    i8i8 = ""a\""b"";
    x_y_z = ""packet"";// " ++ [128512]%N ++ runes_of_ascii " emoji
}

root packet trueish {
    repeat uint16 x `100% of %d`,
    uint32 BodyLength,// @lengthOf(
    @calculatedFrom(""" ++ [233]%N ++ runes_of_ascii "t" ++ [233]%N ++ runes_of_ascii """)
    @rightPad('\x00')
    @tag(255)
    chars `
        `,
    char[3] packetx @lengthOf(matchKey),
    repeat zchar[1] u128 `two words`,
    int64 pack,
    string As `line1
        line2`,
    @rightPad('\x00')
    @rightPad('0')
    @tag(10)
    match o as Logon {
        00 : T,
        [""a	b""] : Packet,
        [
            """ ++ [28040; 24687]%N ++ runes_of_ascii """, ""a\""b"", ""packet"", 4294967296, 10,
            4294967296, 0, 007
        ] : trueish,
        ""\" ++ [233]%N ++ runes_of_ascii """ : crc,
        ""// no comment"" : rootA,
        42 : msg_type,
    },// " ++ [128512]%N ++ runes_of_ascii " emoji
    match u128 as u {
        255 : BodyLength,
    },
    match Pad as trueish {
        4294967296 : matchKey,
        [""it's"", 10, 65535, ""1""] : len,
        7 : len,
        ""a	b"" : roots,
    },
}")).
Eval vm_compute in ("<<<M1173>>>" ++ check (runes_of_ascii "
options{  i64_ = '0' }//x
packet
Z9_
    { charz @lengthOf(a1 ) ,
}packet
/// triple
//	t
repeatCount {
body ``
    ,
roots @calculatedFrom( ""a\\"") ,
i32// 50% %s
falsey // " ++ [128512]%N ++ runes_of_ascii " emoji
,@calculatedFrom( ""1"") @calculatedFrom(
    ""\" ++ [233]%N ++ runes_of_ascii """)
@calculatedFrom(	""a\\"" )  roots asx`doc`  , chars
@lengthOf( repeatCount ) `doc`
    , i64
    x_y_z ,
    // " ++ [128512]%N ++ runes_of_ascii " emoji
    @calculatedFrom( ""\n""	)zchar[ 42 ] calculatedFrom
`crlf
line` , @rightPad
( ' ' ) //	t
body
    i8i8	, //	t
}packet
// c
//	t
matchKey {
@calculatedFrom(""" ++ [128512]%N ++ runes_of_ascii """
)
uint8 // `tick` ""quote"" 'q'
int
`
`,
    match MetaDataX as o {[ // packet A { u8 x, }
00  ]: Pad	, [ 0123456789
    ] : uint8x
, [ ""\n""
    ] : Z9_	}
// c
//x
,  @tag( 42
)match calculatedFrom as falsey
{ 3 :
a1
, 00 : o}
    ,@lengthOf(i8i8
    )matchKey@lengthOf(
calculatedFrom )
    , @lengthOf(
string_ ) @calculatedFrom(
    //
    ""packet"" )@leftPad ( //
) repeat
    Pad calculatedFrom , x_y_z , @tag( 007 ) repeat u32//	t
x
,@tag( //x
4294967296) @leftPad
(
    '\x00' )zchar[ 42
]
    o ,@lengthOf(
repeatCount) // trailing space 
@lengthOf(rootA)
    // " ++ [128512]%N ++ runes_of_ascii " emoji
    repeat
// c
//
char[ 65535 // packet A { u8 x, }
]  matchKey,
}
")).
Eval vm_compute in ("<<<M353>>>" ++ check (runes_of_ascii "options
{	x_y_z =
    i32 ; }// " ++ [27880; 37322]%N ++ runes_of_ascii "
packet // @lengthOf(
_x{ @lengthOf( // packet A { u8 x, }
rootA )
match int as
    int { [
    7 , 007, ""abc"" ]//x
:rootA
,
""" ++ [28040; 24687]%N ++ runes_of_ascii """ : u8x ,
    // @lengthOf(
    [
    ""`tick`"", ""CRC32"" , """ ++ [128512]%N ++ runes_of_ascii """] : Z9_	, 10 : charz
    [
    1 /// triple
,""" ++ [128512]%N ++ runes_of_ascii """ ] : calculatedFrom ,
}
,
@calculatedFrom( // `tick` ""quote"" 'q'
""" ++ [28040; 24687]%N ++ runes_of_ascii """ ) options1 { repeat packetx , roots @lengthOf(
roots ) , int8 f32a , } , repeat zchar[ 10
// a // b
/// triple
]
    u8x
,  @lengthOf(
    body
) @lengthOf(
    matchKey ) tag	trueish	`two words`
    ,uint8x // `tick` ""quote"" 'q'
{trueish {
repeat  int8
u`doc`
, } ,	char[]A //
, string metadata // trailing space 
@lengthOf(len)	`{ , }`  ,u8 x , // " ++ [128512]%N ++ runes_of_ascii " emoji
} ,char[ 255 ] i8i8 @calculatedFrom( ""`tick`""	) `a\`, @lengthOf( Packet//	t
)//x
char[]
/// triple
/// triple
Header ,
@tag( 65535 // " ++ [27880; 37322]%N ++ runes_of_ascii "
) i8i8	trueish , } root packet repeatCount{//	t
@calculatedFrom( """" // trailing space 
)@lengthOf( options1
    )
@lengthOf(
// @lengthOf(
// packet A { u8 x, }
Header ) char[4294967296
] len
    , repeat
    f64 options1 ,
    // " ++ [128512]%N ++ runes_of_ascii " emoji
    } // 50% %s")).
Eval vm_compute in ("<<<M1033>>>" ++ check (runes_of_ascii "MetaData x_y_z
{
i16 Pad `line1
line2`,} packet  calculatedFrom {
    f64
options1@calculatedFrom( ""a\""b"") `it's`
// trailing space 
//
,
    @leftPad
() @lengthOf( roots
    //	t
    ) x { // 50% %s
repeat Header `it's` , char[ 0 ] calculatedFrom @lengthOf( zchar ),// " ++ [128512]%N ++ runes_of_ascii " emoji
repeat
    i8 f32a
    // 50% %s
    , } ,char[ 10  ]int
,
    @leftPad	( )
int16
    Foo @lengthOf( Z9_ )
    , @calculatedFrom( ""x y"" )float64 i8i8, u8x
@calculatedFrom(
// c
//	t
""packet"" ) ,@calculatedFrom(
""\n"" ) char[ 65535 // @lengthOf(
]// a // b
stringy , zchar[	3
    ] MetaDataX , repeat uint64 float ,	} // trailing space 
packet tag  { u
    @calculatedFrom( ""1"" ) `it's` ,// c
zchar[
    0 // @lengthOf(
]
    // " ++ [27880; 37322]%N ++ runes_of_ascii "
    i64_ @lengthOf( i64_//x
)  ,uint8  repeatCount	,	@lengthOf(
leftPad )
    string int
@lengthOf( As )	,@tag(65535 )  string i64_
, } packet
// 50% %s
// 50% %s
lengthOf {@rightPad (
'\x00'
) o
    { // 50% %s
int @calculatedFrom( ""a	b"" ) `doc` ,}
    , }root
packet Logon {  @tag(
3 )Z9_ , } // `tick` ""quote"" 'q'")).
Eval vm_compute in ("<<<M3569>>>" ++ check (runes_of_ascii "options {
    LittleEndian = false;
    StringPrefixLenType = u16;
    ArrayPrefixLenType = u16;
    FixedStringPadFromLeft = false;
    FixedStringPadChar = ' ';
}
packet Heartbeat {
    i32 f1,
}
packet Cancel {
    char[] Note,
}
packet Fill {
    u32 price,
    float64 Ref,
    zchar[8] tag7,
    repeat Cancel,
    int64 Acct,
}
packet Quote {
    @rightPad('0') char[12] count,
    char[] seqNo,
}
root packet Party {
    Fill,
    InMsgkind30 {
        repeat u16 Ref,
        repeat InCount61 {
            repeat i8 sym,
            char[] Ref,
            repeat char[4] Qty,
            repeat Heartbeat,
        },
        u32 venue,
        uint16 Flags,
    },
    u8 Px,
    repeat u16 Side2,
    @rightPad('0') char[10] Qty,
    @rightPad('\x00') char[1] clOrdID,
    u8 Tail,
    match Tail as Body {
        [159, 182] : Quote,
        155 : Heartbeat,
        178 : Fill,
        49 : Cancel,
    },
    u16 Ref @calculatedFrom(""CR\
C32""),
}
")).
Eval vm_compute in ("<<<M266>>>" ++ check (runes_of_ascii "packet matchKey {/// triple
Pad@lengthOf(  Pad) `a\` , }	packet pack
    {
zchar[ 65535 ] zchar , match	u8x
as pack
    { [""a\""b"" /// triple
, 7 ] :packetx} ,zchar[
7 ]u128@lengthOf( string_
) `two words` , }
packet
Packet{ match body as //x
stringy {""" ++ [128512]%N ++ runes_of_ascii """:
stringy }, repeat calculatedFrom,  @calculatedFrom( ""{,}"" )
@lengthOf(pack ) @rightPad
/// triple
// `tick` ""quote"" 'q'
(
'\x00') repeat BodyLength	`crlf
line` , @leftPad ( '0'	)
@calculatedFrom(
""it's"" )
@lengthOf(
    falsey
)chars
    // @lengthOf(
    MetaDataX
`u8 x,` , int8 Packet `` , @leftPad  ( )int16 falsey , repeat u16 As, } root  packet calculatedFrom { @lengthOf( int
)char[
00
    ]  Foo ,
    // " ++ [27880; 37322]%N ++ runes_of_ascii "
    repeat uint64 string_
    // " ++ [27880; 37322]%N ++ runes_of_ascii "
    `two words` ,
    string a1 @calculatedFrom( // " ++ [27880; 37322]%N ++ runes_of_ascii "
""a\\"" ) `100% of %d` ,repeat char[
    0123456789
]Foo `" ++ [28040; 24687; 31867; 22411]%N ++ runes_of_ascii "`
,  } packet i64_
{ @leftPad(
// @lengthOf(
// a // b
'\x00' )int8 options1 ,}
")).
Eval vm_compute in ("<<<M341>>>" ++ check (runes_of_ascii "packet lengthOf
{ } options{
    body = 1 ;
    } packet u8x {
    // " ++ [128512]%N ++ runes_of_ascii " emoji
    Z9_ zchar	, float32 u8x ,
repeat As  {
match lengthOf as
// trailing space 
//
As{""`tick`""
:BodyLength //
,
    } , match packetx as charz
    {4294967296 : f32a [ 7 , ""it's"" ] : x_y_z, //x
1  :msg_type , ""CRC32"" :
T ,
//x
/// triple
}  ,zchar , asx{ Header leftPad
, }	,
    }
    ,  @tag( 1 ) i16 Z9_`say ""hi""`, string Logon
    @lengthOf( Foo ) ,repeat	uint32 leftPad `100% of %d` // c
, uint8
falsey	, }packet
Header
{ @calculatedFrom(""""
    )
@calculatedFrom(""" ++ [128512]%N ++ runes_of_ascii """
) @calculatedFrom( ""it's"" )
tag {int32 // 50% %s
repeatCount
    ,  f32a @lengthOf(	BodyLength ) , // `tick` ""quote"" 'q'
calculatedFrom// @lengthOf(
{
i64_ len , trueish @lengthOf( body ) `" ++ [28040; 24687; 31867; 22411]%N ++ runes_of_ascii "` ,  repeat	Z9_ `tab	here`
, repeat i8i8 {options1 A, // a // b
}
,
} , } ,
repeat zchar[ 10
]
trueish
    `two words`,}
")).
Eval vm_compute in ("<<<M3737>>>" ++ check (runes_of_ascii "options {
    metadata = false
    trueish = char[];
    u8x = false;
}

packet MetaDataX {
    f64 _x @lengthOf(T),
    Z9_ {
        x @calculatedFrom(""x y""),
    },
    u8 i8i8 @lengthOf(Z9_) `two words`,
    @tag(007)
    string Z9_ @calculatedFrom(""{,}"") `two words`,
    // 50% %s
    // `tick` ""quote"" 'q'
    @leftPad('\x00')
    @lengthOf(falsey)
    @lengthOf(Pad)
    // `tick` ""quote"" 'q'
    zchar[00] msg_type @lengthOf(asx) `say ""hi""`,
    match string_ as u {
        42 : pack,
        ""it's"" : trueish,
        7 : rootA,
        """" : falsey,
    },
    repeat u8 a1,
    len `line1
        line2`,
    int32 Z9_ @lengthOf(int),
    repeat charz {
        match chars as T {
            ""// no comment"" : float,
            42 : string_,
        },
    },
}

MetaData msg_type {
    // @lengthOf(
    x trueish,
}")).
Eval vm_compute in ("<<<M3745>>>" ++ check (runes_of_ascii "packet

options1 {
}	// c

options{ x_y_z	=	char[

3
	] ; string_=

    ""x y""

    packetx =
	""" ++ [233]%N ++ runes_of_ascii "t" ++ [233]%N ++ runes_of_ascii """
; } packet len
{// " ++ [128512]%N ++ runes_of_ascii " emoji
  	repeat zchar[
    00
	]
	matchKey
	`u8 x,` ,

uint64
	i8i8 ,	rootA  {
    match
	repeatCount
    as	rootA{ [
0123456789
    ,
	7 

    // 50% %s

  ]
    :
    u8x ,
    } ,

} 

//
// `tick` ""quote"" 'q'
    ,  @calculatedFrom( """ ++ [28040; 24687]%N ++ runes_of_ascii """	)
	@calculatedFrom(

    ""abc"")
char[ //
  	10
]string_@calculatedFrom(

""\" ++ [233]%N ++ runes_of_ascii """ ) `doc`
,	@rightPad 
(	'0'
    )
	string	chars	@lengthOf(

matchKey

)	,repeat	//	t
	u8
	x_y_z
`line1
line2`
,

    } packet	crc
{@lengthOf(
	tag 
      //
/// triple
	  )  match
    Header  as float  {[  0,
    ""it's""

    ,1 
,

""" ++ [28040; 24687]%N ++ runes_of_ascii """  ,

""a	b"",
    3

] :  lengthOf,	0123456789
	:Z9_ ,}, @calculatedFrom(
    ""1""

) i64_
u128`
` 
, } ")).
Eval vm_compute in ("<<<M677>>>" ++ check (runes_of_ascii "packet// 50% %s
int
{
    // " ++ [27880; 37322]%N ++ runes_of_ascii "
    u16 trueish// `tick` ""quote"" 'q'
,
zchar[
1 ]
    zchar
@lengthOf( chars ) , repeat zchar[ 10
// c
// " ++ [128512]%N ++ runes_of_ascii " emoji
] msg_type	`line1
line2`
, @calculatedFrom( ""a\\"") @rightPad // trailing space 
( //	t
' '
    ) string Z9_  `it's`
// a // b
// 50% %s
,
repeat // packet A { u8 x, }
rootA { // c
zchar[ 00
]MetaDataX, }, @calculatedFrom( """ ++ [233]%N ++ runes_of_ascii "t" ++ [233]%N ++ runes_of_ascii """ )match
string_// trailing space 
as leftPad{
""a	b"":Z9_
,[ ""`tick`"" ,
65535 ]// " ++ [27880; 37322]%N ++ runes_of_ascii "
: a1 } ,@tag( 007 )
// " ++ [128512]%N ++ runes_of_ascii " emoji
// @lengthOf(
u16 metadata
    //
    ,
    @lengthOf(
body
)
    char[
7 ] Pad`// not a comment`,@calculatedFrom(
    ""a\\"")
    pack _x  ,  lengthOf T , }
packet BodyLength
{
int32 A
,
}
    packet o{ float64 roots,
uint8x @lengthOf(
Logon) `two words` , }
")).
Eval vm_compute in ("<<<M4223>>>" ++ check (runes_of_ascii "packet x {
    zchar[10] metadata @lengthOf(tag),
    @rightPad('0')
    repeat len {
        repeat char[] T,
        int32 asx @lengthOf(msg_type),
        Logon `" ++ [233]%N ++ runes_of_ascii "`,
        falsey trueish `it's`,
    },
    repeat int16 a1 `say ""hi""`,
}

root packet As {
    @tag(10)
    @calculatedFrom(""CRC32"")
    @lengthOf(repeatCount)
    zchar[42] f32a @lengthOf(tag) `doc`,
    match x as u8x {
        """ ++ [128512]%N ++ runes_of_ascii """ : stringy,
        """ ++ [128512]%N ++ runes_of_ascii """ : rootA,
        [""packet"", 0] : i8i8,
        [""`tick`"", 255, ""\n"", 3, ""\n""] : u128,
        [
            00, ""1"", 10, ""`tick`"", 7,
            ""CRC32"", 0
        ] : Foo,
        ""// no comment"" : o,
    },
}

root packet T {
    @tag(65535)
    char[42] u128 @calculatedFrom(""`tick`""),
}")).
Eval vm_compute in ("<<<M4512>>>" ++ check (runes_of_ascii "packet MetaDataX {
    @lengthOf(pack)
    crc tag `it's`,// trailing space 
    match A as calculatedFrom {
        ""a\\"" : o,
        [""packet"", ""a\\"", """ ++ [128512]%N ++ runes_of_ascii """, ""\n""] : string_,
    },
    i32 MetaDataX @calculatedFrom(""a	b""),
    @calculatedFrom(""a	b"")
    @calculatedFrom(""" ++ [233]%N ++ runes_of_ascii "t" ++ [233]%N ++ runes_of_ascii """)
    zchar[65535] x_y_z,
    u8 zchar @lengthOf(crc),
    repeatCount @calculatedFrom(""it's""),
    zchar[7] Z9_ @lengthOf(stringy) `// not a comment`,
    pack {
        asx i8i8,/// triple
        repeat x {
            repeat MetaDataX Logon,
            zchar[10] Z9_ @calculatedFrom(""\n"") `say ""hi""`,
        },
    },
    roots @lengthOf(u) `say ""hi""`,
    @rightPad(' ')
    i8i8 @lengthOf(Logon),
}")).
Eval vm_compute in ("<<<M4424>>>" ++ check (runes_of_ascii "// " ++ [27880; 37322]%N ++ runes_of_ascii "
MetaData rootA {
    f64 As,
    f64 int `two words`,
    f32 body `say ""hi""`,
    zchar[4294967296] x,// a // b
    uint32 lengthOf `
        `,
}

root packet pack {
    match pack as repeatCount {
        ""CRC32"" : crc,
        1 : calculatedFrom,
        [""packet"", ""{,}"", 10, ""a\\""] : float,
        //	t
        ""packet"" : _x,
        10 : o,
    },
    match a1 as T {
        65535 : Z9_,
        0 : _x,
    },
    u64 Pad `" ++ [233]%N ++ runes_of_ascii "`,
    @calculatedFrom(""packet"")
    MetaDataX pack,
    char[007] uint8x,
    i8i8 @lengthOf(msg_type) `u8 x,`,
    @rightPad('\x00')
    string_ `" ++ [233]%N ++ runes_of_ascii "`,
}

root packet a1 {
}

MetaData x_y_z {
    i16 roots `say ""hi""`,
}")).
Eval vm_compute in ("<<<M1384>>>" ++ check (runes_of_ascii "root
packet
    repeatCount  { }
options { metadata = 65535
; falsey
= false; i8i8 =
'\x00'  ; // 50% %s
As=	true }
    //	t
    root packet int
    {	int8 len
    , // a // b
@tag( 3 ) body`it's` , repeat
repeatCount f32a, int8// " ++ [128512]%N ++ runes_of_ascii " emoji
u128 @lengthOf( stringy
)//	t
`{ , }` ,@calculatedFrom(""" ++ [233]%N ++ runes_of_ascii "t" ++ [233]%N ++ runes_of_ascii """ ) @lengthOf(
    f32a // " ++ [128512]%N ++ runes_of_ascii " emoji
)	@calculatedFrom(""abc"" ) match roots
// " ++ [27880; 37322]%N ++ runes_of_ascii "
// trailing space 
as
    int
{ """ ++ [233]%N ++ runes_of_ascii "t" ++ [233]%N ++ runes_of_ascii """
    : A
    ,	}
    , @leftPad
    //
    ( )char[
    // a // b
    42
]
// c
// @lengthOf(
string_@calculatedFrom(
""`tick`"" )
, @calculatedFrom(""`tick`""
    )repeat
    calculatedFrom Header , } /// triple")).
Eval vm_compute in ("<<<M243>>>" ++ check (runes_of_ascii "packet // 50% %s
_x	{
char[]options1 ,
// packet A { u8 x, }
/// triple
}  options {
    Foo = // " ++ [128512]%N ++ runes_of_ascii " emoji
string  ; }
    packet BodyLength {
    }
    root packet Z9_ {@lengthOf(
repeatCount
    // 50% %s
    )i8i8 string_ `line1
line2`, i8i8 ,
    u64 // " ++ [128512]%N ++ runes_of_ascii " emoji
u128 , @leftPad ( '0' )
// `tick` ""quote"" 'q'
// packet A { u8 x, }
match Pad as T { """ ++ [128512]%N ++ runes_of_ascii """:
Packet
// c
// trailing space 
,""x y"" :tag },repeat rootA//x
`it's`	,
    repeat options1 {
lengthOf	,string calculatedFrom @calculatedFrom( ""it's"" ) , metadata
    @calculatedFrom(""" ++ [28040; 24687]%N ++ runes_of_ascii """
) ,
// `tick` ""quote"" 'q'
/// triple
} , // " ++ [128512]%N ++ runes_of_ascii " emoji
}
")).
Eval vm_compute in ("<<<M3664>>>" ++ check (runes_of_ascii "packet f32a {
    @tag(4294967296)
    charz matchKey,
    @calculatedFrom(""packet"")
    repeatCount @lengthOf(len),
    uint32 stringy `
        `,
    Foo @lengthOf(string_),
    repeat char[007] Logon `// not a comment`,
    zchar[00] len @calculatedFrom(""1""),
    match len as falsey {
        ""{,}"" : o,
    },
    match body as Z9_ {
        7 : BodyLength,
        255 : _x,
        // a // b
    },
    @leftPad('\x00')
    match f32a as f32a {
        [10, 0123456789] : a1,
    },
    @calculatedFrom(""" ++ [28040; 24687]%N ++ runes_of_ascii """)
    @calculatedFrom(""abc"")
    int8 _x `say ""hi""`,
}")).
Eval vm_compute in ("<<<M3973>>>" ++ check (runes_of_ascii "// c
MetaData x {
    falsey Logon `a\`,
    char[] a1,
    crc A,
}

packet Pad {
    zchar[4294967296] x_y_z ``,
    repeat matchKey {
        zchar[007] len,
        BodyLength {
            leftPad a1,
            crc i8i8,
            uint64 len @lengthOf(o) `line1
                        line2`,
        },
        trueish,
        lengthOf calculatedFrom,
    },
    @leftPad()
    u8x @calculatedFrom(""" ++ [128512]%N ++ runes_of_ascii """) `line1
        line2`,
}

packet asx {
    float32 Packet,
    @lengthOf(metadata)
    repeat MetaDataX {
        f64 Z9_,
    },
}")).
Eval vm_compute in ("<<<M890>>>" ++ check (runes_of_ascii "root packet u
    { }
packet
    len{ @rightPad	(
'0'
)
@leftPad (
    '0' ) @lengthOf( body
    //	t
    ) A , pack charz
    // trailing space 
    `a\` , @lengthOf(
//
//
u8x ) match repeatCount as
packetx	{ 1
: options1 , ""\" ++ [233]%N ++ runes_of_ascii """: matchKey  , 10:Foo
    , [ ""1""] :
    i64_
    } , @tag(0123456789 )
@tag( 4294967296// " ++ [27880; 37322]%N ++ runes_of_ascii "
) uint16 body`say ""hi""`
    , /// triple
u32 float
@calculatedFrom(""a\\""  )
,
char[ 0
] calculatedFrom ,
    //	t
    A @lengthOf( options1 )
    `line1
line2`
    ,
    } MetaData	o  {	uint8 Logon
    , }
")).
Eval vm_compute in ("<<<M640>>>" ++ check (runes_of_ascii "packet
T { zchar[ 1 ]
    msg_type
,
@tag( 007 )o  ,
@tag( 10
)match//
x// 50% %s
as
a1 { 4294967296
:tag , //x
""`tick`"" : zchar,[ 4294967296	,
    ""a	b"" ] :
//
/// triple
roots ,
    1	:T ,[  7,""CRC32"" ] : zchar [	""packet""
,
// " ++ [128512]%N ++ runes_of_ascii " emoji
//
65535 ] :// a // b
asx
,} , @leftPad
    ('0'
) float64 // packet A { u8 x, }
Foo `line1
line2` ,
    match trueish //
as T
    // " ++ [27880; 37322]%N ++ runes_of_ascii "
    { [""x y"" ]: float , [ 255]
    :
    trueish , 3 :
trueish , [
    ""`tick`""
    , ""x y""
]
:int  , ""{,}"" : //
rootA ,  }, }")).
Eval vm_compute in ("<<<M581>>>" ++ check (runes_of_ascii "packet msg_type{ // @lengthOf(
u64// c
matchKey ``
//x
// " ++ [128512]%N ++ runes_of_ascii " emoji
,@tag(	3
    ) u8 As /// triple
, char[1 ]roots
    , }packet a1  {zchar[
// 50% %s
// packet A { u8 x, }
0 ] i64_	`" ++ [233]%N ++ runes_of_ascii "`
,
@lengthOf( repeatCount ) repeat
    zchar[
    10]
BodyLength  , zchar[ 255 ]  _x
@calculatedFrom( ""packet"" ) , @rightPad
(
) @calculatedFrom(
    // packet A { u8 x, }
    ""x y"" ) zchar[ // " ++ [128512]%N ++ runes_of_ascii " emoji
65535  ]
f32a,
} options{ asx =i32 x= ""packet""
/// triple
// c
; o = 00 ; int =//x
""" ++ [28040; 24687]%N ++ runes_of_ascii """
    }
")).
Eval vm_compute in ("<<<M964>>>" ++ check (runes_of_ascii "  root packet // 50% %s
uint8x{ @leftPad (
    ' ' //	t
) // packet A { u8 x, }
char[ 0	] // 50% %s
matchKey@calculatedFrom(  ""`tick`"" )	, @tag(
0
)
int32 f32a
@lengthOf( msg_type ) , u8x  @calculatedFrom(
    // @lengthOf(
    ""a	b""	),repeat falsey
`" ++ [28040; 24687; 31867; 22411]%N ++ runes_of_ascii "`, } options { roots
    =""\" ++ [233]%N ++ runes_of_ascii """ o= '\x00' // `tick` ""quote"" 'q'
;
u
    =char[ 7 ]	metadata
// " ++ [128512]%N ++ runes_of_ascii " emoji
// trailing space 
=  true float=  ""\n""// trailing space 
;}
MetaData crc
    {
body
A `" ++ [233]%N ++ runes_of_ascii "` , }
")).
Eval vm_compute in ("<<<M479>>>" ++ check (runes_of_ascii "options { /// triple
falsey
=
' ' Pad = ' '
    ; crc = '0' ;
tag=007}
/// triple
//
MetaData  asx { chars metadata`" ++ [28040; 24687; 31867; 22411]%N ++ runes_of_ascii "`, asx chars // `tick` ""quote"" 'q'
, char[ 007 ]
// c
// 50% %s
A `// not a comment` ,	char[] crc,
}// a // b
MetaData T
{ char BodyLength,
    char[ 255//
] f32a ,char[10
] // " ++ [128512]%N ++ runes_of_ascii " emoji
trueish ,	int64 i8i8// " ++ [128512]%N ++ runes_of_ascii " emoji
, u16	rootA
, zchar[ 0 // packet A { u8 x, }
] Z9_`// not a comment` , } options
{ len =
i16 ;  }
")).
Eval vm_compute in ("<<<M627>>>" ++ check (runes_of_ascii "MetaData Z9_{ char[
10 ]i64_
    // `tick` ""quote"" 'q'
    , }packet options1
    { float32//x
pack
    `
`	,
char[
1 ]tag , repeat roots{
    match// `tick` ""quote"" 'q'
x as a1 { 007 :a1 , } //x
,repeat MetaDataX { i8 zchar , i64_{ int32 // c
Packet , match
    // " ++ [128512]%N ++ runes_of_ascii " emoji
    u // " ++ [27880; 37322]%N ++ runes_of_ascii "
as asx
{ [ """ ++ [233]%N ++ runes_of_ascii "t" ++ [233]%N ++ runes_of_ascii """	] : a1 } ,int8 metadata
    `a\`
,} ,
int@lengthOf(	lengthOf
) , repeat // " ++ [128512]%N ++ runes_of_ascii " emoji
x_y_z int `" ++ [28040; 24687; 31867; 22411]%N ++ runes_of_ascii "` ,
}
,
    } , }
")).
Eval vm_compute in ("<<<M4292>>>" ++ check (runes_of_ascii "options {
    Header = '\x00'
}

root packet MetaDataX {
    char[0123456789] leftPad `tab	here`,
    @lengthOf(rootA)
    uint8 u ``,
    match string_ as Pad {
        255 : a1,
        // a // b
        [4294967296] : msg_type,
        [3] : u128,
        255 : crc,
        [
            0123456789, ""a\""b"", ""a\""b"", """", """",
            ""CRC32"", ""CRC32""
        ] : crc,
        // " ++ [27880; 37322]%N ++ runes_of_ascii "
    },
}

packet asx {
}")).
Eval vm_compute in ("<<<M939>>>" ++ check (runes_of_ascii "packet
    charz
    { @lengthOf( x)
    T
    rootA
    // trailing space 
    `u8 x,` , repeat Logon
stringy , } packet len { string //	t
As `` ,
x_y_z {
string x
@calculatedFrom( ""\n"" )
`two words` , u128 @lengthOf(
    pack ) ,
    char[ 10 ] // trailing space 
crc @lengthOf(
    i8i8
) `u8 x,` , repeat char[] MetaDataX
    , } ,
    int16 matchKey `a\`
,
    // packet A { u8 x, }
    }
")).
Eval vm_compute in ("<<<M99>>>" ++ check (runes_of_ascii "packet
// packet A { u8 x, }
/// triple
u
{ repeat
Z9_
u // @lengthOf(
,
match roots as  A {""\n""  :  i64_ // 50% %s
, }, A@calculatedFrom( ""packet"")// " ++ [128512]%N ++ runes_of_ascii " emoji
, u64 tag
@lengthOf( A ) `100% of %d` ,	@lengthOf(Pad ) @rightPad (  )@lengthOf( pack )  match o
    //	t
    as uint8x {4294967296 :o,00
: A , }, @rightPad (
    '\x00'
)char[ 0123456789
    ] msg_type ,}
/// triple
")).
Eval vm_compute in ("<<<M4172>>>" ++ check (runes_of_ascii "root packet lengthOf {
    @tag(7)
    // c
    Pad @lengthOf(roots) `line1
    line2`,
    float64 o @lengthOf(asx),
    repeat uint8 i8i8 `say ""hi""`,
}

packet _x {
    @calculatedFrom(""\n"")
    As @calculatedFrom(""abc"") `// not a comment`,
    options1 @lengthOf(a1),
    // trailing space 
    // `tick` ""quote"" 'q'
    @lengthOf(Z9_)
    //	t
    msg_type ``,
}")).
Eval vm_compute in ("<<<M1300>>>" ++ check (runes_of_ascii "MetaData crc{
int matchKey , i32
    msg_type `tab	here`  ,i8  As `it's`,f64 asx, // " ++ [27880; 37322]%N ++ runes_of_ascii "
}
root
    packet i8i8 { match body as /// triple
o
{ 3 :
i8i8
,007
:
u128
    , 10 : calculatedFrom ,	[ // trailing space 
3
    , 0 ]:rootA
    // @lengthOf(
    , } ,
}
    // " ++ [128512]%N ++ runes_of_ascii " emoji
    MetaData Pad
    { i32
// " ++ [27880; 37322]%N ++ runes_of_ascii "
// " ++ [128512]%N ++ runes_of_ascii " emoji
asx , } // packet A { u8 x, }")).
Eval vm_compute in ("<<<M62>>>" ++ check (runes_of_ascii "packet  trueish{ trueish uint8x ,
char[ 3]roots
    `" ++ [233]%N ++ runes_of_ascii "`, int16
x_y_z , }
    MetaData
//
// a // b
o { // trailing space 
f64 stringy
`100% of %d` ,Z9_ len, len x , char[ 00] _x , } MetaData
    string_ {	msg_type
    T, f32 tag`say ""hi""` ,char[]asx `doc` ,
u //	t
asx // " ++ [128512]%N ++ runes_of_ascii " emoji
, char[ 65535 ] trueish,zchar[0123456789 ] asx , }
")).
Eval vm_compute in ("<<<M245>>>" ++ check (runes_of_ascii "packet  len{x_y_z body  `100% of %d` ,
@tag(  1)
zchar[ 4294967296] u
`two words`
    ,
@tag( 007)match BodyLength	as
    Z9_ {[  007 , 4294967296 , ""packet"" ,
""\n"",  10
,
    ""CRC32""]  :
    repeatCount
    42 :len , [	42
    , ""packet""]
    :MetaDataX ,	}
    ,@rightPad(
) zchar[42 ]
x_y_z @lengthOf(
Pad ) `doc` ,}
")).
Eval vm_compute in ("<<<M998>>>" ++ check (runes_of_ascii "// c
MetaData options1//	t
{ char
    // a // b
    i8i8
`100% of %d`
    // packet A { u8 x, }
    ,
zchar[ // a // b
7 ] tag , } packet
    pack{@tag( // " ++ [27880; 37322]%N ++ runes_of_ascii "
0 )  zchar[
    // " ++ [27880; 37322]%N ++ runes_of_ascii "
    65535] a1
    `two words` , repeat
    msg_type , char[]  Logon ,string
    /// triple
    u8x `two words` ,
chars zchar , }")).
Eval vm_compute in ("<<<M3700>>>" ++ check (runes_of_ascii "packet 
B// c1
	{ // c2

	u8 	 // c3
    a// c4a
// c4b
    ,// c5
	  string  // c6a
  // c6b
	  s	// c7a
// c7b
    ,  }
root // c10a

// c10b
	packet	// c11
	P{// c13

u16
L // c15

	@lengthOf(	B

) 

    // c18
    ,  // c19
	B
	, // c21
    u8	// c22
	  t // c23

	,	// c24
  } // c25
")).
Eval vm_compute in ("<<<M1889>>>" ++ check (runes_of_ascii "packet	packetx { // trailing space 
x_y_z
{
string
charz ,
@calculatedFrom( x// @lengthOf(
`two words`
    ,  u8x { // `tick` ""quote"" 'q'
charz `100% of %d` // packet A { u8 x, }
,}// " ++ [27880; 37322]%N ++ runes_of_ascii "
,} , }
    // a // b
    packet metadata {  @leftPad ( '0') repeat i32 options1 ,u64 uint8x , }
")).
Eval vm_compute in ("<<<M25>>>" ++ check (runes_of_ascii "  MetaData
    BodyLength
// a // b
//	t
{ u64 asx
    , char  string_ , }	packet leftPad
    {
int8 u8x@calculatedFrom( ""a\\"" )  , }
MetaData As {
roots x_y_z
`it's`
    , char
    rootA//x
,zchar[
00 ]
uint8x `doc` ,char[] metadata`100% of %d` ,  Z9_ string_
    ,
} packet o {}")).
Eval vm_compute in ("<<<M1927>>>" ++ check (runes_of_ascii "packet	packetx { // trailing space 
x_y_z
{
string
charz ,
string x// @lengthOf(
`two words`
    ,  u8x { // `tick` ""quote"" 'q'
charz `100% of %d` // packet A { u8 x, }
, ,}// " ++ [27880; 37322]%N ++ runes_of_ascii "
,} , }
    // a // b
    packet metadata {  @leftPad ( '0') repeat i32 options1 ,u64 uint8x , }
")).
Eval vm_compute in ("<<<M1869>>>" ++ check (runes_of_ascii "packet	packetx { // trailing space 
x_y_z
[
string
charz ,
string x// @lengthOf(
`two words`
    ,  u8x { // `tick` ""quote"" 'q'
charz `100% of %d` // packet A { u8 x, }
,}// " ++ [27880; 37322]%N ++ runes_of_ascii "
,} , }
    // a // b
    packet metadata {  @leftPad ( '0') repeat i32 options1 ,u64 uint8x , }
")).
Eval vm_compute in ("<<<M2013>>>" ++ check (runes_of_ascii "packet	packetx { // trailing space 
x_y_z
{
string
charz ,
string x// @lengthOf(
`two words`
    ,  u8x { // `tick` ""quote"" 'q'
charz `100% of %d` // packet A { u8 x, }
,}// " ++ [27880; 37322]%N ++ runes_of_ascii "
,} , }
    // a // b
    packet metadata {  @leftPad ( '0') repeat i32 options1 ,uint8x u64 , }
")).
Eval vm_compute in ("<<<M3559>>>" ++ check (runes_of_ascii "options {
    LittleEndian = false;
    StringPrefixLenType = u32;
    ArrayPrefixLenType = u64;
    FixedStringPadFromLeft = false;
    FixedStringPadChar = '0';
}
packet Fill {
    zchar[6] price,
}
root packet Quote {
    Fill,
    float32 count,
    repeat f64 OrderId,
}
")).
Eval vm_compute in ("<<<M1848>>>" ++ check (runes_of_ascii "	packetx { // trailing space 
x_y_z
{
string
charz ,
string x// @lengthOf(
`two words`
    ,  u8x { // `tick` ""quote"" 'q'
charz `100% of %d` // packet A { u8 x, }
,}// " ++ [27880; 37322]%N ++ runes_of_ascii "
,} , }
    // a // b
    packet metadata {  @leftPad ( '0') repeat i32 options1 ,u64 uint8x , }
")).
Eval vm_compute in ("<<<M3729>>>" ++ check (runes_of_ascii "
packet
chars
{

repeat uint64
repeatCount `100% of %d`, calculatedFrom
{  string  body
@calculatedFrom(
    ""\n""

)

    `doc`,
T

@calculatedFrom( ""x y""

)  ,}  ,	repeat zchar[

    0123456789	]pack  // 50% %s
  ,
repeat

float
	asx

    `tab	here`
,
	}")).
Eval vm_compute in ("<<<M2090>>>" ++ check (runes_of_ascii "packet// packet A { u8 x, }
repeatCount	{// packet A { u8 x, }
@leftPad ( '\x00'
) repeat u8x u8x MetaDataX `crlf
line`,
    repeat
    char[] MetaDataX
    ,
u64	uint8x@calculatedFrom(""a\""b""
// c
// packet A { u8 x, }
) `tab	here`
,//
}MetaData pack
    {
    }
")).
Eval vm_compute in ("<<<M2193>>>" ++ check (runes_of_ascii "packet// packet A { u8 x, }
repeatCount	{// packet A { u8 x, }
@leftPad % ( '\x00'
) repeat u8x MetaDataX `crlf
line`,
    repeat
    char[] MetaDataX
    ,
u64	uint8x@calculatedFrom(""a\""b""
// c
// packet A { u8 x, }
) `tab	here`
,//
}MetaData pack
    {
    }
")).
Eval vm_compute in ("<<<M2081>>>" ++ check (runes_of_ascii "packet// packet A { u8 x, }
repeatCount	{// packet A { u8 x, }
@leftPad ( '\x00'
repeat ) u8x MetaDataX `crlf
line`,
    repeat
    char[] MetaDataX
    ,
u64	uint8x@calculatedFrom(""a\""b""
// c
// packet A { u8 x, }
) `tab	here`
,//
}MetaData pack
    {
    }
")).
Eval vm_compute in ("<<<M2124>>>" ++ check (runes_of_ascii "packet// packet A { u8 x, }
repeatCount	{// packet A { u8 x, }
@leftPad ( '\x00'
) repeat u8x MetaDataX `crlf
line`,
    repeat
    char[] MetaDataX
    
u64	uint8x@calculatedFrom(""a\""b""
// c
// packet A { u8 x, }
) `tab	here`
,//
}MetaData pack
    {
    }
")).
Eval vm_compute in ("<<<M1415>>>" ++ check (runes_of_ascii "packet packet calculatedFrom
{ @calculatedFrom( ""a\\"" ) zchar[ 4294967296 ]
calculatedFrom@lengthOf( pack )	`100% of %d` ,char[]body@calculatedFrom( ""// no comment"" )  ,
@tag( 007) //x
int8
leftPad`it's` , repeat pack
    { repeat char[ 3] body
,},
}")).
Eval vm_compute in ("<<<M1581>>>" ++ check (runes_of_ascii "packet calculatedFrom
{ @calculatedFrom( ""a\\"" ) zchar[ 4294967296 ]
calculatedFrom@lengthOf( pack )	`100% of %d` ,char[]body@calculatedFrom( ""// no comment"" )  ,
@tag( 007) //x
int8
leftPad`it's` , repeat pack
    { repeat char[ string] body
,},
}")).
Eval vm_compute in ("<<<M1484>>>" ++ check (runes_of_ascii "packet calculatedFrom
{ @calculatedFrom( ""a\\"" ) zchar[ 4294967296 ]
calculatedFrom@lengthOf( pack )	`100% of %d` , ,char[]body@calculatedFrom( ""// no comment"" )  ,
@tag( 007) //x
int8
leftPad`it's` , repeat pack
    { repeat char[ 3] body
,},
}")).
Eval vm_compute in ("<<<M1620>>>" ++ check (runes_of_ascii "packet calculatedFrom
{ @calculatedFrom( ""a\\"" ) zchar[ 4294967296 ]
calculatedFrom@lengt""hOf( pack )	`100% of %d` ,char[]body@calculatedFrom( ""// no comment"" )  ,
@tag( 007) //x
int8
leftPad`it's` , repeat pack
    { repeat char[ 3] body
,},
}")).
Eval vm_compute in ("<<<M1495>>>" ++ check (runes_of_ascii "packet calculatedFrom
{ @calculatedFrom( ""a\\"" ) zchar[ 4294967296 ]
calculatedFrom@lengthOf( pack )	`100% of %d` ,char[]@calculatedFrom(body ""// no comment"" )  ,
@tag( 007) //x
int8
leftPad`it's` , repeat pack
    { repeat char[ 3] body
,},
}")).
Eval vm_compute in ("<<<M1508>>>" ++ check (runes_of_ascii "packet calculatedFrom
{ @calculatedFrom( ""a\\"" ) zchar[ 4294967296 ]
calculatedFrom@lengthOf( pack )	`100% of %d` ,char[]body@calculatedFrom( ""// no comment""   ,
@tag( 007) //x
int8
leftPad`it's` , repeat pack
    { repeat char[ 3] body
,},
}")).
Eval vm_compute in ("<<<M1607>>>" ++ check (runes_of_ascii "packet calculatedFrom
{ @calculatedFrom( ""a\\"" ) zchar[ 4294967296 ]
calculatedFrom@lengthOf( pack )	`100% of %d` ,char[]body@calculatedFrom( ""// no comment"" )  ,
@tag( 007) //x
int8
leftPad`it's` , repeat pack
    { repeat char[ 3] body
,}")).
Eval vm_compute in ("<<<M1597>>>" ++ check (runes_of_ascii "packet calculatedFrom
{ @calculatedFrom( ""a\\"" ) zchar[ 4294967296 ]
calculatedFrom@lengthOf( pack )	`100% of %d` ,char[]body@calculatedFrom( ""// no comment"" )  ,
@tag( 007) //x
int8
leftPad`it's` , repeat pack
    { repeat char[ 3] body")).
Eval vm_compute in ("<<<M2168>>>" ++ check (runes_of_ascii "packet// packet A { u8 x, }
repeatCount	{// packet A { u8 x, }
@leftPad ( '\x00'
) repeat u8x MetaDataX `crlf
line`,
    repeat
    char[] MetaDataX
    ,
u64	uint8x@calculatedFrom(""a\""b""
// c
// packet A { u8 x, }
) `tab	here`
,")).
Eval vm_compute in ("<<<M1254>>>" ++ check (runes_of_ascii "packet MetaDataX { i32
    a1 , uint8 Logon
@lengthOf( a1// 50% %s
) , packetx
int `{ , }` , @tag( 7  ) x_y_z @lengthOf(  u)
    ,
    } options{ chars = char[7 ]Pad =
    zchar[ // " ++ [128512]%N ++ runes_of_ascii " emoji
255] ; x = 0123456789 ;
}")).
Eval vm_compute in ("<<<M773>>>" ++ check (runes_of_ascii "// @lengthOf(
MetaData len
{ } MetaData x_y_z { }
packet As{//x
uint16 i64_ ,  @tag( 1	)
    @lengthOf(u )
    @calculatedFrom( ""packet""  )
u128// " ++ [128512]%N ++ runes_of_ascii " emoji
, repeat char[ 1 ] T,
    // packet A { u8 x, }
    }")).
Eval vm_compute in ("<<<M809>>>" ++ check (runes_of_ascii "root packet metadata{
repeat zchar[ 7 ]	roots ,
@tag(
255 )
i64_ @lengthOf( MetaDataX
) `// not a comment`
, } options{ As=
""\n""
;options1
    = ""a\""b""  msg_type= char[ 007 ]
; rootA  = false ;
}")).
Eval vm_compute in ("<<<M46>>>" ++ check (runes_of_ascii "  MetaData Foo
    { char[ // c
0123456789
    ]
Packet ,char[]
packetx
`{ , }` , f32 trueish
// `tick` ""quote"" 'q'
// @lengthOf(
,//	t
uint32
lengthOf
    , options1 body , i32
Logon,  }")).
Eval vm_compute in ("<<<M3526>>>" ++ check (runes_of_ascii "packet u128 {
    u8 a,
}
root packet Msg {
    u8 k,
    u24 {
        u8 Hi,
        u16 Lo,
    },
    repeat i24 {
        u32 q,
    },
    u128,
    u16 float32x,
    string s,
}
")).
Eval vm_compute in ("<<<M283>>>" ++ check (runes_of_ascii "root packet i8i8{u32// @lengthOf(
calculatedFrom `" ++ [28040; 24687; 31867; 22411]%N ++ runes_of_ascii "` , @calculatedFrom( """ ++ [233]%N ++ runes_of_ascii "t" ++ [233]%N ++ runes_of_ascii """) char[ 10]
    x_y_z
@calculatedFrom(
""x y"")	,
} MetaData matchKey{	stringy u128 `say ""hi""` , }")).
Eval vm_compute in ("<<<M1297>>>" ++ check (runes_of_ascii "packet o {int  Packet
,@tag( 255// c
)
    // trailing space 
    @tag( 007) repeat	string lengthOf  ,
}
    packet charz { float float
,leftPad @lengthOf( u )`" ++ [28040; 24687; 31867; 22411]%N ++ runes_of_ascii "` ,
}")).
Eval vm_compute in ("<<<M4231>>>" ++ check (runes_of_ascii "
packet

    o

    { @leftPad
	(// trailing space 
  '\x00'
)
    // 50% %s
	char[]
	roots
@lengthOf(repeatCount

    ) `it's`
    ,} // `tick` ""quote"" 'q'
")).
Eval vm_compute in ("<<<M2399>>>" ++ check (runes_of_ascii "
packet MetaDataX
{
    @leftPad
( // a // b
'0'
) i8 u @lengthOf(
MetaDataX
    ) `say ""hi""` ,	} MetaData BodyLength {
    asx
x_y_z `" ++ [233]%N ++ runes_of_ascii "` `" ++ [233]%N ++ runes_of_ascii "`
, uint64 u128 , }
")).
Eval vm_compute in ("<<<M2356>>>" ++ check (runes_of_ascii "
packet MetaDataX
{
    @leftPad
( // a // b
'0'
) " ++ [8232]%N ++ runes_of_ascii " i8 u @lengthOf(
MetaDataX
    ) `say ""hi""` ,	} MetaData BodyLength {
    asx
x_y_z `" ++ [233]%N ++ runes_of_ascii "`
, uint64 u128 , }
")).
Eval vm_compute in ("<<<M2430>>>" ++ check (runes_of_ascii "
packet MetaDataX
{
    @leftPad
( // a // b
'0'
) i8 u @lengthOf(
MetaDataX
    ) `say ""hi""` ,	} MetaData BodyLength {
    asx
char[] `" ++ [233]%N ++ runes_of_ascii "`
, uint64 u128 , }
")).
Eval vm_compute in ("<<<M4083>>>" ++ check (runes_of_ascii "MetaData	metadata
{
    }MetaData
rootA

{	i8  i64_  
      // c
  ,roots

options1 `a\` ,
    lengthOf 
Header 
,Z9_ Foo,
    int16 BodyLength ,

    }
")).
Eval vm_compute in ("<<<M2369>>>" ++ check (runes_of_ascii "
packet MetaDataX

    @leftPad
( // a // b
'0'
) i8 u @lengthOf(
MetaDataX
    ) `say ""hi""` ,	} MetaData BodyLength {
    asx
x_y_z `" ++ [233]%N ++ runes_of_ascii "`
, uint64 u128 , }
")).
Eval vm_compute in ("<<<M114>>>" ++ check (runes_of_ascii "
packet
    chars{	repeat char[ 0123456789	]
repeatCount , body Foo
, @calculatedFrom(""\n""
    )	char[]  int@lengthOf( len )
,
    // @lengthOf(
    } 	 ")).
Eval vm_compute in ("<<<M1769>>>" ++ check (runes_of_ascii "options { } packet Packet{char[] i64_ ,
@tag(
    255) match
crc as i8i8{""{,}"" : trueish """" : Pad , ""a\\"" :
Foo 1
    , :packetx
, """ ++ [128512]%N ++ runes_of_ascii """ : trueish , } , }")).
Eval vm_compute in ("<<<M1772>>>" ++ check (runes_of_ascii "options { } packet Packet{char[] i64_ ,
@tag(
    255) match
crc as i8i8{""{,}"" : trueish """" : Pad , ""a\\"" :
Foo ,
     :packetx
, """ ++ [128512]%N ++ runes_of_ascii """ : trueish , } , }")).
Eval vm_compute in ("<<<M4105>>>" ++ check (runes_of_ascii "
MetaData	metadata
{  }
MetaData

rootA	{ i8	i64_
    ,roots options1
`a\`,	lengthOf
Header,

    Z9_
Foo

,

int16

    BodyLength, 
	// c
	}")).
Eval vm_compute in ("<<<M1378>>>" ++ check (runes_of_ascii "options // trailing space 
{
rootA =
    ""\n"" ;	}options  {	} packet u {
@tag(
    255 ) repeat char// a // b
len
    // `tick` ""quote"" 'q'
    ,
}
")).
Eval vm_compute in ("<<<M4022>>>" ++ check (runes_of_ascii "
packet

    A {
match
    k as  n

    {[
    ""a""
,
    ""bb""
    , ""c c"" 
, 
""d"" , ""e""
,

""f""
    ]

    :
    B 2
:
    C
	}

    ,	}")).
Eval vm_compute in ("<<<M3857>>>" ++ check (runes_of_ascii "packet A {
    match k as n {
        [
            1, 22, ""c c"", 4, 5,
            ""f"", 7, 8, ""i"", 10
        ] : B,
        2 : C,
    },
}")).
Eval vm_compute in ("<<<M4069>>>" ++ check (runes_of_ascii "packet A {
    match k as n {
        [
            ""a"", 22, ""c c"", 4, ""e"",
            66, ""g"", 8
        ] : B,
        2 : C,
    },
}")).
Eval vm_compute in ("<<<M880>>>" ++ check (runes_of_ascii "
root packet Logon { repeat char[] i64_`
`,
@calculatedFrom( ""1"" )int , }
packet lengthOf
    { repeat
char[ // 50% %s
007
] u8x , }")).
Eval vm_compute in ("<<<M365>>>" ++ check (runes_of_ascii "packet matchKey {
@calculatedFrom(
""a	b""
) As @calculatedFrom(// packet A { u8 x, }
""x y"" ) `" ++ [28040; 24687; 31867; 22411]%N ++ runes_of_ascii "`
// packet A { u8 x, }
//x
,
}")).
Eval vm_compute in ("<<<M3266>>>" ++ check (runes_of_ascii "MetaData metadata { // c
} MetaData rootA { i8 i64_ , roots options1 `a\` , lengthOf Header , Z9_ Foo , int16 BodyLength , }")).
Eval vm_compute in ("<<<M3298>>>" ++ check (runes_of_ascii "MetaData metadata { } MetaData rootA { i8 i64_ , roots options1 `a\` , lengthOf Header , Z9_ Foo // c
, int16 BodyLength , }")).
Eval vm_compute in ("<<<M4375>>>" ++ check (runes_of_ascii "

  MetaData
x_y_z{

    tag	float // packet A { u8 x, }
	`doc`,  i16 
_x

    `crlf
line`,zchar[ 007	]f32a
	,
}

")).
Eval vm_compute in ("<<<M1776>>>" ++ check (runes_of_ascii "options { } packet Packet{char[] i64_ ,
@tag(
    255) match
crc as i8i8{""{,}"" : trueish """" : Pad , ""a\\"" :
Foo ,")).
Eval vm_compute in ("<<<M3354>>>" ++ check (runes_of_ascii "MetaData float { uint8 BodyLength , } MetaData charz { float32 trueish `a\` , i16 metadata `say ""hi""` , } // c
")).
Eval vm_compute in ("<<<M3337>>>" ++ check (runes_of_ascii "MetaData float { uint8 BodyLength , } MetaData charz {
// c
float32 trueish `a\` , i16 metadata `say ""hi""` , }")).
Eval vm_compute in ("<<<M427>>>" ++ check (runes_of_ascii "options  {	_x
=
""" ++ [233]%N ++ runes_of_ascii "t" ++ [233]%N ++ runes_of_ascii """	Pad
=
'0';uint8x
    // a // b
    = true ;
} MetaData
    charz
{ falsey falsey , }")).
Eval vm_compute in ("<<<M3877>>>" ++ check (runes_of_ascii "  MetaData
a1
    { f32 charz `` 
,msg_type	x_y_z	,
leftPad msg_type,
uint8x
leftPad  , string falsey,	}
")).
Eval vm_compute in ("<<<M79>>>" ++ check (runes_of_ascii "packet f32a { match charz// 50% %s
as As
{ ""packet"" :
len
[ ""abc""] : Z9_ 3 : falsey
    ,
    } , }
")).
Eval vm_compute in ("<<<M3748>>>" ++ check (runes_of_ascii "options {
    _x = """ ++ [233]%N ++ runes_of_ascii "t" ++ [233]%N ++ runes_of_ascii """
    Pad = '0';
    uint8x = true;
}

MetaData charz {
    falsey falsey,
}")).
Eval vm_compute in ("<<<M2962>>>" ++ check (runes_of_ascii "packet A {
  match k as n {
    [""a"", ""bb"", ""c c"", ""d"", ""e"", ""f"", ""g"", ""h""] : B
    2 : C
  },
}")).
Eval vm_compute in ("<<<M3476>>>" ++ check (runes_of_ascii "
root  packet

    P
    {
u16

    a
,u32 Sum

    @calculatedFrom(	""CRC32""

)
	,
	}
")).
Eval vm_compute in ("<<<M2949>>>" ++ check (runes_of_ascii "packet A {
  match k as n {
    [""a"", ""bb"", ""c c"", ""d"", ""e"", ""f"", ""g""] : B
    2 : C
  },
}")).
Eval vm_compute in ("<<<M1180>>>" ++ check (runes_of_ascii "options
{} MetaData asx{float64 x_y_z , } options {stringy = '0'
;// packet A { u8 x, }
}")).
Eval vm_compute in ("<<<M2241>>>" ++ check (runes_of_ascii "MetaData _x {string x `// not a comment` string ,
i64_ // trailing space 
`a\` ,
    }
")).
Eval vm_compute in ("<<<M2214>>>" ++ check (runes_of_ascii "MetaData  {string x `// not a comment` , string
i64_ // trailing space 
`a\` ,
    }
")).
Eval vm_compute in ("<<<M2943>>>" ++ check (runes_of_ascii "packet A {
  match k as n {
    [""a"", ""bb"", 007, ""d"", ""e"", 66] : B,
    2 : C
  },
}")).
Eval vm_compute in ("<<<M174>>>" ++ check (runes_of_ascii "packet// a // b
o {
    // " ++ [128512]%N ++ runes_of_ascii " emoji
    }
MetaData len { // packet A { u8 x, }
}
")).
Eval vm_compute in ("<<<M3820>>>" ++ check (runes_of_ascii "options {
    FixedStringPadFromLeft = true;
}

root packet P {
    char[4] z,
}")).
Eval vm_compute in ("<<<M4551>>>" ++ check (runes_of_ascii "root	packet i8i8 {} 	 // packet A { u8 x, }
	packet 
f32a
    { BodyLength, }")).
Eval vm_compute in ("<<<M3370>>>" ++ check (runes_of_ascii "MetaData _x { f64 // c
charz `tab	here` , } options { BodyLength = """ ++ [233]%N ++ runes_of_ascii "t" ++ [233]%N ++ runes_of_ascii """ ; }")).
Eval vm_compute in ("<<<M2917>>>" ++ check (runes_of_ascii "packet A {
  match k as n {
    [""a"", ""bb"", 007, ""d""] : B,
    2 : C
  },
}")).
Eval vm_compute in ("<<<M3620>>>" ++ check (runes_of_ascii "packet A {
    B b `x
    `,
    B `x
    `,
    repeat B bs `x
    `,
}")).
Eval vm_compute in ("<<<M2905>>>" ++ check (runes_of_ascii "packet A {
  match k as n {
    [""a"", ""bb"", 007] : B
    2 : C
  },
}")).
Eval vm_compute in ("<<<M3416>>>" ++ check (runes_of_ascii "packet o { @tag( 4294967296 ) options1 @lengthOf( // c
u8x ) `" ++ [233]%N ++ runes_of_ascii "` , }")).
Eval vm_compute in ("<<<M1345>>>" ++ check (runes_of_ascii "//	t
MetaData
//	t
// packet A { u8 x, }
x{ u64 /// triple
len ,}")).
Eval vm_compute in ("<<<M2888>>>" ++ check (runes_of_ascii "packet A {
  match k as n {
    [""a"", ""bb""] : B
    2 : C
  },
}")).
Eval vm_compute in ("<<<M1220>>>" ++ check (runes_of_ascii "options{ lengthOf= zchar[ 255
    ] BodyLength =
    true} 	 ")).
Eval vm_compute in ("<<<M3449>>>" ++ check (runes_of_ascii "root packet P {
    hdr {
        u8 a,
    },
    u8 x,
}
")).
Eval vm_compute in ("<<<M1036>>>" ++ check (runes_of_ascii "// trailing space 
packet zchar //x
{
    // " ++ [27880; 37322]%N ++ runes_of_ascii "
    }

")).
Eval vm_compute in ("<<<M2799>>>" ++ check (runes_of_ascii "' ' char match ( uint32 u8 root : uint32 ) as u8 int32")).
Eval vm_compute in ("<<<M107>>>" ++ check (runes_of_ascii "packet  uint8x{ Logon @calculatedFrom(
"""" )
    ,}
")).
Eval vm_compute in ("<<<M321>>>" ++ check (runes_of_ascii "packet a1 { @tag(255) repeat
string Pad `a\` , }")).
Eval vm_compute in ("<<<M2310>>>" ++ check (runes_of_ascii "
MetaData Pad{
u32 `line1
line2` rootA ,
    }
")).
Eval vm_compute in ("<<<M4348>>>" ++ check (runes_of_ascii "
root packet
A
	{
u8

x

`a
    b
  c` 
, 
} ")).
Eval vm_compute in ("<<<M4109>>>" ++ check (runes_of_ascii "
options{falsey
=

' '
;	roots =false ; }

")).
Eval vm_compute in ("<<<M1437>>>" ++ check (runes_of_ascii "packet calculatedFrom
{ @calculatedFrom(")).
Eval vm_compute in ("<<<M3238>>>" ++ check (runes_of_ascii "MetaData zchar {
// c
zchar[ 3 ] Pad , }")).
Eval vm_compute in ("<<<M3096>>>" ++ check (runes_of_ascii "options {
    a = ""\
"";
    b = ""\
""
}")).
Eval vm_compute in ("<<<M2724>>>" ++ check (runes_of_ascii "Y65x" ++ [1125; 65533; 65533; 0; 65533; 223]%N ++ runes_of_ascii "Q	" ++ [7; 65533]%N ++ runes_of_ascii "f" ++ [65533; 65533]%N ++ runes_of_ascii "D" ++ [11; 65533]%N ++ runes_of_ascii "6" ++ [65533; 24; 65533; 26]%N ++ runes_of_ascii "g	" ++ [65533]%N ++ runes_of_ascii "g" ++ [65533; 65533; 65533]%N ++ runes_of_ascii "A" ++ [65533]%N ++ runes_of_ascii "j" ++ [65533]%N)).
Eval vm_compute in ("<<<M3089>>>" ++ check (runes_of_ascii "root packet A {
    u8 x `%%d%!`,
}")).
Eval vm_compute in ("<<<M2620>>>" ++ check (runes_of_ascii "packet A { B { @tag(1) u8 x, }, }")).
Eval vm_compute in ("<<<M672>>>" ++ check (runes_of_ascii "options {
BodyLength = ' ' ; }
")).
Eval vm_compute in ("<<<M3204>>>" ++ check (runes_of_ascii "MetaData M {
}// c
packet A {}")).
Eval vm_compute in ("<<<M139>>>" ++ check (runes_of_ascii "packet // 50% %s
Header{ }
")).
Eval vm_compute in ("<<<M2642>>>" ++ check (runes_of_ascii "packet A { @tag(x) u8 x, }")).
Eval vm_compute in ("<<<M4326>>>" ++ check (runes_of_ascii "packet
	A { 
} 	 // c" ++ [65279]%N ++ runes_of_ascii "
 
")).
Eval vm_compute in ("<<<M441>>>" ++ check (runes_of_ascii "options { u8x= u8 ;}

")).
Eval vm_compute in ("<<<M1108>>>" ++ check (runes_of_ascii "
packet
falsey { }
")).
Eval vm_compute in ("<<<M2665>>>" ++ check (runes_of_ascii "MetaData M { x y, }")).
Eval vm_compute in ("<<<M3139>>>" ++ check (runes_of_ascii "packet A {
}
// c" ++ [8232]%N)).
Eval vm_compute in ("<<<M1083>>>" ++ check (runes_of_ascii "root packet u  {}")).
Eval vm_compute in ("<<<M273>>>" ++ check (runes_of_ascii "  packet a1 { }
")).
Eval vm_compute in ("<<<M7>>>" ++ check (runes_of_ascii "// @lengthOf(
")).
Eval vm_compute in ("<<<M846>>>" ++ check (runes_of_ascii "options	{
}")).
Eval vm_compute in ("<<<M2705>>>" ++ check (runes_of_ascii "// a
// b
")).
Eval vm_compute in ("<<<M3724>>>" ++ check (runes_of_ascii "  // c x")).
Eval vm_compute in ("<<<M2471>>>" ++ check (runes_of_ascii "falsey")).
Eval vm_compute in ("<<<M2541>>>" ++ check (runes_of_ascii "`a
b`")).
Eval vm_compute in ("<<<M2520>>>" ++ check (runes_of_ascii "// x")).
Eval vm_compute in ("<<<M2521>>>" ++ check (runes_of_ascii "//")).
Eval vm_compute in ("<<<M2527>>>" ++ check (runes_of_ascii """a")).
Eval vm_compute in ("<<<M2702>>>" ++ check (runes_of_ascii "")).
