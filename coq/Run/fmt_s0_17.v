From FP Require Import Lexer Parser ShowPT Digest Formatter.
From Coq Require Import String List NArith.
Import ListNotations.
Open Scope string_scope.
Set Printing Width 100000000.
Set Printing Depth 100000000.
Definition show_fres (r : fres) : string :=
  match r with
  | FOk s => "OK:" ++ sh_escaped s ""
  | FErr s => "ERR:" ++ sh_escaped s ""
  | FPanic p => "PANIC:" ++ p
  end.
Definition check (rs : list rune) : string := digest (show_fres (format_res rs)).
Definition full (rs : list rune) : string := show_fres (format_res rs).
Eval vm_compute in ("<<<M263>>>" ++ check (runes_of_ascii "
packet Z9_ //x
{ @calculatedFrom( ""1"" )
match
body as u8x{ [ 7 ] :
u ,
[7
,00, ""a\""b""
, """" , ""\n"" , 00
] : charz , 1	: // c
Packet
, """ ++ [28040; 24687]%N ++ runes_of_ascii """ :
f32a ,  00 : // trailing space 
len } ,@lengthOf(calculatedFrom )	MetaDataX
    , Packet	@lengthOf(
    int ) , repeat // `tick` ""quote"" 'q'
char[ 7 ]calculatedFrom, @calculatedFrom(""a\\"" ) zchar[ //
255 // " ++ [128512]%N ++ runes_of_ascii " emoji
] f32a @calculatedFrom( """ ++ [233]%N ++ runes_of_ascii "t" ++ [233]%N ++ runes_of_ascii """ ) ,	@calculatedFrom( ""a\""b"" // packet A { u8 x, }
)char[7
    //	t
    ] i8i8 @calculatedFrom(""a\\"") `crlf
line` ,zchar[
    0123456789	]
x `line1
line2`
,@leftPad () repeat
u64 stringy , @lengthOf( x	) repeat
body
{//	t
Z9_ {
repeat asx , repeat crc i64_ // " ++ [27880; 37322]%N ++ runes_of_ascii "
, repeat rootA { repeat rootA MetaDataX `line1
line2`
    // `tick` ""quote"" 'q'
    ,match
i64_ as
calculatedFrom {
    7
:
x[ 7 ] : stringy , ""1"": i8i8 , [
""1"" , 42 ,
// trailing space 
/// triple
""" ++ [233]%N ++ runes_of_ascii "t" ++ [233]%N ++ runes_of_ascii """ , 10 ,
255 , 0 , 10 ]
: u ,
""x y""
:
    i8i8 }
// `tick` ""quote"" 'q'
//x
,uint64 _x `
` ,char[ 0 ] i64_ @calculatedFrom( ""CRC32""
)
    , }, x_y_z {
char[] T
// a // b
// @lengthOf(
,} ,} ,repeat  u64 Foo `a\`,
    uint8
uint8x,
match
//	t
// trailing space 
roots
as chars {1
    : _x ""a\""b"" :uint8x, 42 : metadata // " ++ [128512]%N ++ runes_of_ascii " emoji
, // `tick` ""quote"" 'q'
[// @lengthOf(
""\n"" ,
255]
: zchar
[ """ ++ [233]%N ++ runes_of_ascii "t" ++ [233]%N ++ runes_of_ascii """ ,3
, 4294967296 ,// trailing space 
0123456789 , ""x y"" ] : metadata[ // c
""it's"" , ""// no comment""
]  :Z9_
    , }
,	}
    , } // a // b
MetaData rootA	{ char[ 4294967296 ] msg_type,// @lengthOf(
char[]  u128, uint64 a1 , int8 crc , Pad
    msg_type `doc`
,
}
//	t
/// triple
packet x_y_z
    {@lengthOf( crc) match packetx as f32a	{ 0123456789:A
,	00 :	u // @lengthOf(
}, }
")).
Eval vm_compute in ("<<<M123>>>" ++ check (runes_of_ascii "
packet _x{  leftPad `it's`
    , match Logon as
    matchKey { ""packet"" :  stringy,3
: u
    ,//
""1"" : Pad }
,  float32 Z9_ @lengthOf( i8i8	)
    `" ++ [233]%N ++ runes_of_ascii "`
    // " ++ [27880; 37322]%N ++ runes_of_ascii "
    , @tag( 3 )match
    //	t
    As as Pad{
"""" : chars
, ""x y"" //
: i64_	,  } ,  @calculatedFrom(""it's"" // c
) @leftPad ( ' '
) zchar[ 0123456789	] falsey , match	A as packetx
{ [ 42]:
matchKey // c
, }// `tick` ""quote"" 'q'
,@leftPad
( ' ' )
    match x
    // c
    as a1 { ""packet"" //x
:
    a1 , 10 : pack""{,}"" :  u8x// a // b
, [ 007
,00// trailing space 
]
:trueish ,
    ""x y"" :pack //	t
,
""" ++ [233]%N ++ runes_of_ascii "t" ++ [233]%N ++ runes_of_ascii """
:
matchKey , } , @leftPad ( '0'
) uint8x u
    ,	zchar[
    3 // a // b
]
    //	t
    u ``
    , @rightPad (
    ' ') repeat _x
`` , } MetaData Foo
    {a1 Z9_ ,
options1 T ,u32 u8x
`crlf
line`, metadata falsey,lengthOf
x_y_z ,
    } packet calculatedFrom { @tag( 3 ) string A,
    match leftPad as a1	{//	t
0123456789: calculatedFrom , }
    ,
    match crc//
as
    body {
    00 : _x, } , o @calculatedFrom(	""x y"" )
//
// " ++ [128512]%N ++ runes_of_ascii " emoji
,  } packet T { }  packet Logon { @leftPad
(// @lengthOf(
'\x00' )
As @calculatedFrom(
""a	b"" ) `line1
line2`	, pack lengthOf // `tick` ""quote"" 'q'
, } // `tick` ""quote"" 'q'")).
Eval vm_compute in ("<<<M316>>>" ++ check (runes_of_ascii "// `tick` ""quote"" 'q'
packet crc { @tag(0 ) //x
chars , i8i8
@lengthOf( packetx ), repeat
f32a
    {
match packetx as a1{
    ""x y""
:
//
// `tick` ""quote"" 'q'
Packet, } ,}
, @leftPad(
'\x00' )
uint8 int ,
match float as a1 {
    // `tick` ""quote"" 'q'
    [4294967296
    ]
:// " ++ [27880; 37322]%N ++ runes_of_ascii "
Packet
    , } //
, repeat zchar[ 007 ] zchar`tab	here`
    , repeat
// " ++ [27880; 37322]%N ++ runes_of_ascii "
// a // b
x
    , }	packet
string_
    // c
    { char[
0123456789] a1
, @calculatedFrom( ""a\\"" ) @tag( 42)
@leftPad
('\x00' ) options1
    @calculatedFrom( """ ++ [28040; 24687]%N ++ runes_of_ascii """
)`it's`	, repeat
rootA// packet A { u8 x, }
{
    //
    match Logon as Packet { [10 ,	255 , 0,
007 ,
""CRC32""
, ""abc"" ] : len , """ ++ [28040; 24687]%N ++ runes_of_ascii """:	a1	, } , match leftPad as Header { 007:  As
, 255: repeatCount , /// triple
"""" // packet A { u8 x, }
: matchKey //
, [ 255 ,
    3,	""abc"" , """", ""\n"" , 1
, """"// " ++ [27880; 37322]%N ++ runes_of_ascii "
,
42//x
] : pack ,
}
, }
// @lengthOf(
// `tick` ""quote"" 'q'
, int
{int64 chars , }// @lengthOf(
, } 	 ")).
Eval vm_compute in ("<<<M1868>>>" ++ check (runes_of_ascii "root
	packet
lengthOf	{	// a // b
	match

    i64_ 
as
options1{ ""// no comment"": 
// packet A { u8 x, }
    	f32a 
// @lengthOf(

  , 65535
    :	falsey ,
} , @tag(	0

    ) char[]body	@lengthOf(
lengthOf
),	u64	string_
    `it's`
    ,	@lengthOf(
	string_ 	 // packet A { u8 x, }

	)
crc 
{ 
repeat

zchar[

3

    ]
    u, pack	// packet A { u8 x, }
`a\`// trailing space 
  ,
char[] crc``
, 
}  //x

,
int16 	 // packet A { u8 x, }

metadata`line1
line2`
,

    }root 
packet  //	t
	leftPad

    {
	repeat 
zchar[ 
4294967296//x
  ]
MetaDataX 
,
@tag(10  // `tick` ""quote"" 'q'
    	)match
tag  as
falsey
	{

7

:BodyLength
,0
    : i64_
    ,},
	repeat

    char[

    255 
  // @lengthOf(
		]
A
	,  char[ 
7
] trueish

    @calculatedFrom(
""a\\""
) `two words`
// " ++ [128512]%N ++ runes_of_ascii " emoji
    //	t
	,
	i16 Logon, }
")).
Eval vm_compute in ("<<<M1638>>>" ++ check (runes_of_ascii "

  //x
  packet

    x {
	@lengthOf( 
string_ 
)  
  // `tick` ""quote"" 'q'
// trailing space 
msg_type
{int // a // b
@lengthOf(

    chars
    ) 

//x
    // " ++ [27880; 37322]%N ++ runes_of_ascii "
  	`" ++ [28040; 24687; 31867; 22411]%N ++ runes_of_ascii "`,	int `a\`

    , }
	,

uint32 chars@calculatedFrom(
	""`tick`"") 
`
`

, @lengthOf( packetx // trailing space 

)	match metadata	as
    x_y_z{
65535 :
    x
    ,	007 
	    // `tick` ""quote"" 'q'
	  // " ++ [128512]%N ++ runes_of_ascii " emoji

:
    u
[

    7,""// no comment""	, """ ++ [28040; 24687]%N ++ runes_of_ascii """
	]
	:
x ""a\\""	: MetaDataX
    ,
0123456789
:	lengthOf
10

    : 
	    //
  // `tick` ""quote"" 'q'
    float  },
u16
	Logon
    @calculatedFrom( ""x y"" )`tab	here` 
      //	t
    	//
  ,
@lengthOf( 
Foo
    )  zchar 	 /// triple
    , }  packet

tag 
{}
root

packet x_y_z{
	}	MetaData
	int  {
	string
    A
`" ++ [233]%N ++ runes_of_ascii "` , }

")).
Eval vm_compute in ("<<<M1327>>>" ++ check (runes_of_ascii "// top
packet
    // c0
Logon { // c2a
  // c2b
string // c3a
  // c3b
user
    // c4
, // c5a
  // c5b
} // c6a
  // c6b
root
    // c7
packet Frame // c9a
  // c9b
{ // c10
u8
    // c11
K // c12
,
    // c13
match // c14
K // c15
as // c16
Body
    // c17
{
    // c18
1 :
    // c20
Logon // c21
, // c22a
  // c22b
2 // c23
: // c24a
  // c24b
Logout // c25a
  // c25b
,
    // c26
} // c27
, // c28a
  // c28b
Tail , // c30a
  // c30b
} // c31a
  // c31b
packet
    // c32
Logout // c33a
  // c33b
{ // c34a
  // c34b
u16 // c35a
  // c35b
reason
    // c36
, }
    // c38
packet
    // c39
Tail
    // c40
{
    // c41
u32 crc
    // c43
, // c44
} // c45a
  // c45b
")).
Eval vm_compute in ("<<<M147>>>" ++ check (runes_of_ascii "root
    packet falsey{	@tag( 255) len@calculatedFrom( ""`tick`""
    )//
,match MetaDataX as
crc
{	[7 ] :
    roots ,} ,	@tag( 10 ) @tag(
// `tick` ""quote"" 'q'
// `tick` ""quote"" 'q'
10//
) @tag( 255)	repeat /// triple
uint64 rootA	, tag // a // b
`" ++ [28040; 24687; 31867; 22411]%N ++ runes_of_ascii "` ,
float32  i64_ , int64 _x  `doc` , @leftPad( ' '
    )
match
// @lengthOf(
// @lengthOf(
i8i8 as pack { // `tick` ""quote"" 'q'
7 : Logon , ""x y"" : lengthOf , } , // trailing space 
match x_y_z as u
{
// `tick` ""quote"" 'q'
// " ++ [27880; 37322]%N ++ runes_of_ascii "
[ 0123456789 ] :	packetx ,007 :x_y_z
// trailing space 
//
, 10 : rootA , 7 : u 0123456789 :falsey
, }	, // packet A { u8 x, }
}
")).
Eval vm_compute in ("<<<M1369>>>" ++ check (runes_of_ascii "  options	{ StringPrefixLenType= u8
; ArrayPrefixLenType	=

u8  ;	FixedStringPadFromLeft
=false; FixedStringPadChar

    =
	' ';

    }
    packet
Ack

{
char[]
	tag7 , } 
packet
    Reject
	{InSym61

{

repeat
Ack
	,

zchar[4

] f1 
, } ,}

packet Logout
{char[

    4
	] clOrdID

,}
root

    packet	Cancel {@leftPad ( ' '

)

char[10]

    price,u8 x ,
    u32 venue

@lengthOf(

Body
    ) ,

match x as Body

{  [
    92,175]

:
Logout, 26

    :	Reject
	, 144 
:

Ack
    , } ,  u16 
count 
@calculatedFrom(
""CRC32""
    )	, }

")).
Eval vm_compute in ("<<<M328>>>" ++ check (runes_of_ascii "
packet
Logon { repeatCount { BodyLength
    `crlf
line`, }
    , zchar a1 `u8 x,`  ,
match Foo as Foo { ""\n"" :i8i8,[
""abc""
    , // trailing space 
""CRC32"" ]
/// triple
// " ++ [128512]%N ++ runes_of_ascii " emoji
: // @lengthOf(
crc
    [ 3 ,
//
// " ++ [128512]%N ++ runes_of_ascii " emoji
""x y"", 42 , ""`tick`""
, 1 , ""a\""b"",
    ""CRC32"" , 255 ]:repeatCount , [// " ++ [128512]%N ++ runes_of_ascii " emoji
1
// a // b
// " ++ [27880; 37322]%N ++ runes_of_ascii "
,007 ,
""\n"",007 , 7 , ""// no comment"" ,
255 ] :
    uint8x 00
: f32a , } ,
    // a // b
    uint16 Pad @lengthOf( uint8x)// packet A { u8 x, }
`doc`  ,
}")).
Eval vm_compute in ("<<<M1297>>>" ++ check (runes_of_ascii "packet A { // c2a
  // c2b
u8
    // c3
a ,
    // c5
} // c6a
  // c6b
packet B // c8
{ // c9
u16
    // c10
b // c11
, // c12
} // c13a
  // c13b
root // c14a
  // c14b
packet // c15a
  // c15b
P
    // c16
{ u8 // c18a
  // c18b
K // c19
, match // c21
K // c22a
  // c22b
as // c23
M // c24
{ // c25a
  // c25b
1 : // c27a
  // c27b
A // c28a
  // c28b
,
    // c29
1
    // c30
: B
    // c32
,
    // c33
} // c34a
  // c34b
,
    // c35
} ")).
Eval vm_compute in ("<<<M126>>>" ++ check (runes_of_ascii "
packet T// c
{ @tag(  00 )repeat char[]	charz
`
` , char[0123456789 ]BodyLength
    @lengthOf( //x
Z9_
    )
    `u8 x,`
,
}	MetaData
crc {
float64
int `" ++ [28040; 24687; 31867; 22411]%N ++ runes_of_ascii "`// a // b
,	As Logon `` , // `tick` ""quote"" 'q'
uint8 // " ++ [27880; 37322]%N ++ runes_of_ascii "
u
, u32  stringy `
`,
// a // b
//	t
uint64 uint8x , asx
calculatedFrom	,//x
} MetaData chars { char[ 1
    // `tick` ""quote"" 'q'
    ] //	t
chars ,
    } // trailing space ")).
Eval vm_compute in ("<<<M1340>>>" ++ check (runes_of_ascii "  options	{
LittleEndian = 
true ;

    StringPrefixLenType  =u16
;  FixedStringPadChar

    =
' ';}
packet Logon
{ @leftPad (	'0' )

    char[ 10]
tag7 
, 
}
root packet	Ack{

    int32 
Px ,  uint16  count, string
Qty
,	string OrderId

, 
string
Flags

    ,
	u8 x
    ,match x
    as

    Body {  [ 58 ,
169
    ] : Logon	,
    }  ,

    }
")).
Eval vm_compute in ("<<<M1942>>>" ++ check (runes_of_ascii "
packet
A
{
u8
    a

    ,} packet
    B { 
u16

    b
	,	} 
packet	C 
{u32 c
    ,
    } root 
packet	M	{
u16 
Kc	,  u16
	Kb , u16 Ka
,	match
    Kc

    as
    X
{
    9

    :  A , 10: B
,  } ,  match
Kb 
as

    Y

    {	2
:
	C

,1

    :
A,}	, match

Ka
as
	Z { 
1 :B
,}

    ,	A  ,  B	,
C
    ,
} ")).
Eval vm_compute in ("<<<M1439>>>" ++ check (runes_of_ascii "
packet

    len{  // trailing space 

repeat
    zchar 
f32a

`// not a comment`  ,
@tag(
    255
)
	repeat 
Pad {
	x
T
,  }
	, 
@calculatedFrom(""{,}"")
    repeat
	    // a // b
  leftPad

    { 
u64

u8x`tab	here`
    ,  o
Packet 
, char[]
	chars  ,
},
    @tag( 
3 ) float64  i8i8
    ,}")).
Eval vm_compute in ("<<<M1603>>>" ++ check (runes_of_ascii "packet MDSnapshotZZ {
    u8 a,
}

packet OrderACK {
    u16 b,
}

packet HTTPServerInfo {
    string s,
}

root packet FIXMsg {
    u8 KType,
    MDSnapshotZZ,
    repeat OrderACK,
    match KType as Body {
        1 : HTTPServerInfo,
        2 : OrderACK,
    },
}")).
Eval vm_compute in ("<<<M214>>>" ++ check (runes_of_ascii "MetaData tag {body Packet	, int16 // @lengthOf(
body // `tick` ""quote"" 'q'
, f32a uint8x , } packet falsey {
x { char[ 7 ] lengthOf , char[] o
    `say ""hi""`
    // `tick` ""quote"" 'q'
    ,
//
/// triple
}
,}
// `tick` ""quote"" 'q'
")).
Eval vm_compute in ("<<<M1498>>>" ++ check (runes_of_ascii "root packet int {
    f32a @calculatedFrom(""packet"") `
    `,
}

options {
    rootA = ""\" ++ [233]%N ++ runes_of_ascii """;
}

packet i8i8 {
    // trailing space 
    uint8 uint8x @lengthOf(string_),
    i32 tag @lengthOf(Logon),
}")).
Eval vm_compute in ("<<<M1623>>>" ++ check (runes_of_ascii "
packet

A 
{

match

    k as n { 
[ ""a""
	,""bb""

    , 
007,	""d""  ,""e""

    ,
	66
    ,
""g""

,  ""h"" ,9

    ,

    ""j"",""k""  ,  12	]

    :
B 2:
	C

    } ,
}
")).
Eval vm_compute in ("<<<M60>>>" ++ check (runes_of_ascii "root packet _x
{ uint32 trueish @calculatedFrom( ""1"" ) `crlf
line`
,  }
    //
    packet	Header { repeat u64
stringy `// not a comment` , float32  msg_type ,}
")).
Eval vm_compute in ("<<<M438>>>" ++ check (runes_of_ascii "packet uint8x
{ match pack
    as msg_type	{
    0123456789 `it's`	float
}
,
} packet //	t
a1
    { } options {packetx
    = '\x00'	; u128= ""a	b""  ; }
")).
Eval vm_compute in ("<<<M486>>>" ++ check (runes_of_ascii "packet uint8x
{ match pack
    as msg_type	{
    0123456789 :	float
}
,
} packet //	t
a1
    { } options { {packetx
    = '\x00'	; u128= ""a	b""  ; }
")).
Eval vm_compute in ("<<<M407>>>" ++ check (runes_of_ascii "packet uint8x
{ pack match
    as msg_type	{
    0123456789 :	float
}
,
} packet //	t
a1
    { } options {packetx
    = '\x00'	; u128= ""a	b""  ; }
")).
Eval vm_compute in ("<<<M425>>>" ++ check (runes_of_ascii "packet uint8x
{ match pack
    as msg_type	
    0123456789 :	float
}
,
} packet //	t
a1
    { } options {packetx
    = '\x00'	; u128= ""a	b""  ; }
")).
Eval vm_compute in ("<<<M1455>>>" ++ check (runes_of_ascii "root packet packetx {
    char[1] chars @calculatedFrom(""packet"") `say ""hi""`,
}

options {
    asx = 65535
    u = float64
    repeatCount = ""\" ++ [233]%N ++ runes_of_ascii """
}")).
Eval vm_compute in ("<<<M500>>>" ++ check (runes_of_ascii "packet uint8x
{ match pack
    as msg_type	{
    0123456789 :	float
}
,
} packet //	t
a1
    { } options {packetx
    = 	; u128= ""a	b""  ; }
")).
Eval vm_compute in ("<<<M185>>>" ++ check (runes_of_ascii "root packet lengthOf{ @leftPad
    (
' '// c
)
repeat char MetaDataX
,
}MetaData
Pad {
msg_type rootA// trailing space 
`// not a comment`, }")).
Eval vm_compute in ("<<<M686>>>" ++ check (runes_of_ascii "// @lengthOf(
packet i8i8 { u128 o , }
options { f64 = true;
    BodyLength =""packet"" x_y_z= 007
crc //x
= ""abc"" ;
    msg_type =
i16 }")).
Eval vm_compute in ("<<<M1296>>>" ++ check (runes_of_ascii "packet A {
    u8 a,
}
packet B {
    u16 b,
}
root packet P {
    u8 K,
    match K as M {
        1 : A,
        1 : B,
    },
}
")).
Eval vm_compute in ("<<<M1506>>>" ++ check (runes_of_ascii "  packet
    A
    { match 
k as
n	{ [
1

    , 22

, 007 , 4

,  5 ,
	66 ]

    : B

    ,
    2 :
    C 
} ,
    } ")).
Eval vm_compute in ("<<<M1147>>>" ++ check (runes_of_ascii "MetaData leftPad { // c
chars MetaDataX , } packet repeatCount { char[ 255 ] uint8x `" ++ [233]%N ++ runes_of_ascii "` , } MetaData pack { As Foo , }")).
Eval vm_compute in ("<<<M1179>>>" ++ check (runes_of_ascii "MetaData leftPad { chars MetaDataX , } packet repeatCount { char[ 255 ] uint8x `" ++ [233]%N ++ runes_of_ascii "` , } MetaData pack // c
{ As Foo , }")).
Eval vm_compute in ("<<<M1796>>>" ++ check (runes_of_ascii "packet	A
{match
    k as 
n
{  [	1

,
22 ,""c c""
, 4
	,

    5 
,""f"" , 
7
    ]
    :

    B
	2
:
C 
},

}
")).
Eval vm_compute in ("<<<M955>>>" ++ check (runes_of_ascii "packet A {
    u16 len @lengthOf(body) `
x`,
    u32 crc @calculatedFrom(""CRC32"") `
x`,
    string body,
}")).
Eval vm_compute in ("<<<M889>>>" ++ check (runes_of_ascii "packet A {
  match k as n {
    [""a"", ""bb"", 007, ""d"", ""e"", 66, ""g"", ""h"", 9, ""j""] : B
    2 : C
  },
}")).
Eval vm_compute in ("<<<M1497>>>" ++ check (runes_of_ascii "root

packet 
SimpleMessage{
uint16
    MsgType `" ++ [28040; 24687; 31867; 22411]%N ++ runes_of_ascii "`

,

string
JsonBody `Json" ++ [23383; 31526; 20018; 28040; 24687; 20307]%N ++ runes_of_ascii "`
	,
    }")).
Eval vm_compute in ("<<<M615>>>" ++ check (runes_of_ascii "
packet
    asx {match u128 as lengthOf
{
//	t
// `tick` ""quote"" 'q'
255 : x ,
    match ,	}")).
Eval vm_compute in ("<<<M645>>>" ++ check (runes_of_ascii "
packet
    asx {match u128 as lengthOf
{
//	t
// `tick` ""quote"" 'q'
255 : a" ++ [769]%N ++ runes_of_ascii "b ,
    } ,	}")).
Eval vm_compute in ("<<<M599>>>" ++ check (runes_of_ascii "
packet
    asx {match u128 as lengthOf
{
//	t
// `tick` ""quote"" 'q'
255 x : ,
    } ,	}")).
Eval vm_compute in ("<<<M845>>>" ++ check (runes_of_ascii "packet A {
  match k as n {
    [""a"", 22, ""c c"", 4, ""e"", 66, ""g""] : B,
    2 : C
  },
}")).
Eval vm_compute in ("<<<M1302>>>" ++ check (runes_of_ascii "packet order_item {
    u8 a,
}
root packet new_order {
    order_item,
    u8 x,
}
")).
Eval vm_compute in ("<<<M1451>>>" ++ check (runes_of_ascii "options {
    FixedStringPadFromLeft = true;
}

root packet P {
    char[4] z,
}")).
Eval vm_compute in ("<<<M803>>>" ++ check (runes_of_ascii "packet A {
  match k as n {
    [""a"", ""bb"", ""c c"", ""d""] : B
    2 : C
  },
}")).
Eval vm_compute in ("<<<M807>>>" ++ check (runes_of_ascii "packet A {
  match k as n {
    [""a"", 22, ""c c"", 4] : B
    2 : C
  },
}")).
Eval vm_compute in ("<<<M792>>>" ++ check (runes_of_ascii "packet A {
  match k as n {
    [1, ""bb"", 007] : B
    2 : C
  },
}")).
Eval vm_compute in ("<<<M365>>>" ++ check (runes_of_ascii "MetaData x_y_z { i8i8 u8x , string	uint8x
    `crlf
line` , }")).
Eval vm_compute in ("<<<M776>>>" ++ check (runes_of_ascii "packet A {
  match k as n {
    [""a""] : B
    2 : C
  },
}")).
Eval vm_compute in ("<<<M1242>>>" ++ check (runes_of_ascii "root packet
    P {

    char
	c
    , u8  x 
,

}
")).
Eval vm_compute in ("<<<M1502>>>" ++ check (runes_of_ascii "MetaData M {
    u8 x `x
    `,
    T t `x
    `,
}")).
Eval vm_compute in ("<<<M763>>>" ++ check (runes_of_ascii "@calculatedFrom( true ; MetaData """ ++ [233]%N ++ runes_of_ascii "t" ++ [233]%N ++ runes_of_ascii """ match")).
Eval vm_compute in ("<<<M1621>>>" ++ check (runes_of_ascii "
packet A
    { 	 // a
  	u8 x
    , }
")).
Eval vm_compute in ("<<<M50>>>" ++ check (runes_of_ascii "options {
    Packet =  char[]  }
")).
Eval vm_compute in ("<<<M1471>>>" ++ check (runes_of_ascii "
// c" ++ [8192]%N ++ runes_of_ascii "
packet
A
    {

    } ")).
Eval vm_compute in ("<<<M1028>>>" ++ check (runes_of_ascii "packet A {
 u8 x `d" ++ [8287]%N ++ runes_of_ascii "`, // c" ++ [8287]%N ++ runes_of_ascii "
}")).
Eval vm_compute in ("<<<M1819>>>" ++ check (runes_of_ascii "packet A {
    char[3] x,
}")).
Eval vm_compute in ("<<<M1104>>>" ++ check (runes_of_ascii "
// c
MetaData tag { }")).
Eval vm_compute in ("<<<M1136>>>" ++ check (runes_of_ascii "MetaData u { } // c
")).
Eval vm_compute in ("<<<M991>>>" ++ check (runes_of_ascii "packet A {
}
// c" ++ [133]%N)).
Eval vm_compute in ("<<<M1233>>>" ++ check (runes_of_ascii "packet x { }
// c
")).
Eval vm_compute in ("<<<M1659>>>" ++ check (runes_of_ascii "packet falsey {
}")).
Eval vm_compute in ("<<<M241>>>" ++ check (runes_of_ascii "/// triple
")).
Eval vm_compute in ("<<<M1050>>>" ++ check (runes_of_ascii "// c" ++ [65279]%N)).
