From FP Require Import Lexer Parser ShowPT Digest Formatter.
From Coq Require Import String List NArith.
Import ListNotations.
Open Scope string_scope.
Set Printing Width 100000000.
Set Printing Depth 100000000.
Definition show_fres (r : fres) : string :=
  match r with
  | FOk s => "OK:" ++ sh_escaped s ""
  | FErr s => "ERR:" ++ sh_escaped s ""
  | FPanic p => "PANIC:" ++ p
  end.
Definition check (rs : list rune) : string := digest (show_fres (format_res rs)).
Definition full (rs : list rune) : string := show_fres (format_res rs).
Eval vm_compute in ("<<<M317>>>" ++ check (runes_of_ascii "MetaData Logon
    {
    char[]u8x , matchKey pack,
u8 int ``, char[ 007
    ]
msg_type ,
BodyLength o	,string_ crc  `a\`, } options	{
    //x
    trueish = int16 Packet
    = char MetaDataX=
char[
//
// trailing space 
255 ] // a // b
;}	root
    //
    packet a1 // packet A { u8 x, }
{ } root packet // c
MetaDataX{
@lengthOf(_x)
repeat
Logon{// " ++ [128512]%N ++ runes_of_ascii " emoji
o
a1 , uint64
    u128 ,  } ,zchar[007] chars
    `line1
line2` ,	repeat Header u128`doc`, // " ++ [128512]%N ++ runes_of_ascii " emoji
@calculatedFrom(""1"")int
trueish
, char[0123456789
    ]
uint8x,
i8 int	@lengthOf( msg_type )`line1
line2`
,
    //x
    @rightPad (
) repeat f64 Z9_, metadata{ falsey @calculatedFrom(
""abc""
) , }, options1 @calculatedFrom( ""\n"" ) ,@calculatedFrom(	""\n"" )  match metadata
    as Header {[
    """" ,  ""1"" ] :	Foo //
, [  ""\n""
, 10
,
// " ++ [27880; 37322]%N ++ runes_of_ascii "
// c
""{,}"" ]
: Logon
,
[
    """"] :
len
, ""\n""  :// trailing space 
msg_type , [ // c
00 ]
    : trueish , 10 : u8x, }
    ,
    } // " ++ [27880; 37322]%N ++ runes_of_ascii "
root
packet
    BodyLength
    { char[42
] body  @calculatedFrom(
    ""{,}"" ) `tab	here` // trailing space 
,
i32
stringy  @calculatedFrom( """ ++ [28040; 24687]%N ++ runes_of_ascii """ ),  @tag(  0123456789	)
@rightPad ( )@tag( 00 )  i16 a1 @lengthOf( pack// a // b
) ,
    @tag( 10
)
@leftPad ('\x00' ) // `tick` ""quote"" 'q'
@calculatedFrom( ""a\""b"" ) repeat char[] // c
stringy `
`	, chars `say ""hi""`,
@lengthOf(  a1 ) @leftPad( '0'  )
    match Z9_
as Header { 00
    //	t
    : As ,
} // " ++ [27880; 37322]%N ++ runes_of_ascii "
, o @calculatedFrom( """ ++ [128512]%N ++ runes_of_ascii """
    )
, @leftPad //	t
(	)As// trailing space 
@calculatedFrom( ""// no comment"") ,
match x_y_z  as
    BodyLength {
""x y"" // `tick` ""quote"" 'q'
:BodyLength
, """ ++ [28040; 24687]%N ++ runes_of_ascii """  : packetx  , 0 :
    Header ,
    ""x y"" : matchKey
    //	t
    ,}, } // trailing space ")).
Eval vm_compute in ("<<<M53>>>" ++ check (runes_of_ascii "root
packet u {
    char[007 ]x_y_z
`two words` , int16 u8x
    @calculatedFrom( ""packet""
    )
    // @lengthOf(
    ,
    float64
    falsey
@calculatedFrom( ""\" ++ [233]%N ++ runes_of_ascii """ ) `u8 x,`
    ,
    trueish @calculatedFrom(
    """ ++ [233]%N ++ runes_of_ascii "t" ++ [233]%N ++ runes_of_ascii """ )
`tab	here` , @tag( 1	) repeat char[
4294967296 ]
    // " ++ [128512]%N ++ runes_of_ascii " emoji
    u , match
    // " ++ [27880; 37322]%N ++ runes_of_ascii "
    i8i8
    //
    as // " ++ [128512]%N ++ runes_of_ascii " emoji
o
    { [""a\\""
    ]:
    matchKey,[ 0123456789
    //x
    , ""x y""  , 0 ,
/// triple
/// triple
00 , ""a	b"" ,""{,}"" , // a // b
""{,}"" ,
007 ] :
u8x,
255 : u128 , [
""" ++ [28040; 24687]%N ++ runes_of_ascii """
    , 0123456789	,65535 ,
    // a // b
    ""\n"" ] : _x, 7 :
falsey} , @leftPad ( )// " ++ [128512]%N ++ runes_of_ascii " emoji
charz @lengthOf(A ) , // `tick` ""quote"" 'q'
} root packet stringy
{
    repeat
    MetaDataX {float32
T , string
    x_y_z `a\`
, repeat	_x  zchar`u8 x,` , }
    , } packet Foo {
    @lengthOf(  roots
    ) calculatedFrom a1, zchar[ 0123456789]	_x,
// @lengthOf(
// trailing space 
match //
roots as MetaDataX // c
{ /// triple
42 :	_x ,
3// a // b
:msg_type  7 : a1, """"	:i8i8 , //x
[ """ ++ [233]%N ++ runes_of_ascii "t" ++ [233]%N ++ runes_of_ascii """ ]: i8i8 , 00 : leftPad ,
    } , @calculatedFrom( // @lengthOf(
"""" ) char[  00 // c
]
Foo
@lengthOf( uint8x) ,  f32 chars , }packet
    metadata
    //	t
    { } MetaData i64_ // packet A { u8 x, }
{ lengthOf options1 ,
// @lengthOf(
//x
a1 A,
    x Header ,
    }
")).
Eval vm_compute in ("<<<M1853>>>" ++ check (runes_of_ascii "root packet metadata {
    @lengthOf(options1)
    int32 zchar @calculatedFrom(""// no comment"") `
    `,
    repeat calculatedFrom `it's`,//
    match BodyLength as lengthOf {
        3 : leftPad,
    },
    repeat u128,
    char[10] chars,// @lengthOf(
    falsey @calculatedFrom(""x y"") `{ , }`,
    @tag(42)
    float64 i64_,
    u8x @calculatedFrom(""{,}"") `two words`,
    @lengthOf(T)
    char[255] pack `it's`,
    match MetaDataX as i64_ {
        //
        """ ++ [28040; 24687]%N ++ runes_of_ascii """ : Header,
        0 : x_y_z,
        3 : int,
        ""abc"" : u8x,
    },
}

packet i64_ {
    @rightPad()
    /// triple
    pack {
        match MetaDataX as trueish {
            1 : len,
            00 : falsey,
            """" : x,
        },
    },
    @tag(1)
    char[] int @lengthOf(metadata),
    a1 @lengthOf(calculatedFrom),
    @tag(7)
    tag @lengthOf(u),
    BodyLength @calculatedFrom(""it's"") `say ""hi""`,
    string msg_type,
}

MetaData Logon {
    BodyLength _x `it's`,
    int32 body,
    // trailing space 
}

root packet body {
}")).
Eval vm_compute in ("<<<M1446>>>" ++ check (runes_of_ascii "// top
    options 
  // c0
{ 	 // c1
	uint8x 	 // c2a
	// c2b
	=
    007  // c4a
    // c4b
; lengthOf
    // c6
  	=
i8
    ; 	 // c9a
    // c9b

} packet
    i64_ 
    // c12

	{	// c13
	  @calculatedFrom(	// c14
	  ""1""
	// c15
) 	 // c16
	@tag( // c17
	3 
) 
// c19
@lengthOf( 

    // c20
  rootA
)	// c22
    repeat  // c23
    int8 // c24a
	// c24b
    	Packet  // c25a
	// c25b
  `u8 x,` 	 // c26

,// c27
  	} // c28a
// c28b
	root
	    // c29
  packet 	 // c30a

  // c30b
stringy

// c31
	  {	// c32a
    // c32b
@rightPad

( ' '// c35
		)// c36

repeat	// c37a
  // c37b
	char[  // c38
      10// c39
]
    repeatCount // c41a
    	// c41b
  ,// c42

  @tag( // c43a
    	// c43b
  	255 
      // c44
	  ) // c45
float64
    // c46
	  msg_type 
  // c47
@calculatedFrom( ""packet"" 

    // c49
    )// c50a
	// c50b
, // c51a
    // c51b

  }	// c52
 
")).
Eval vm_compute in ("<<<M322>>>" ++ check (runes_of_ascii "packet leftPad { //
i8 stringy @calculatedFrom( """ ++ [128512]%N ++ runes_of_ascii """	) , int@calculatedFrom(
// c
// " ++ [128512]%N ++ runes_of_ascii " emoji
""a	b"" )
`it's` ,
    @leftPad () @tag( 0123456789
    )int32 u8x , @lengthOf(A )float64	u128	@calculatedFrom(
    ""a\\"" ), //x
} options { //x
Pad = 0 u =
    ' ' }MetaData
    a1 { char[]
metadata	`// not a comment`
    // @lengthOf(
    ,
}	packet
Foo { @tag(
42 )	repeat BodyLength ,
    int8 metadata`{ , }` ,@leftPad ( // c
)// " ++ [27880; 37322]%N ++ runes_of_ascii "
@calculatedFrom(//
""`tick`""
    ) @calculatedFrom(	""a	b""	) u32 stringy , @lengthOf( roots ) zchar[ 0 ] msg_type @lengthOf( i64_
)`tab	here`	,i8 Header	`{ , }`
, char[ 7
] trueish @lengthOf(	packetx
    )
, u64	charz `
`
    ,
    zchar[
//	t
// c
65535]
repeatCount
`it's`
    ,match // @lengthOf(
calculatedFrom as calculatedFrom  {""a	b""
: roots 42	: MetaDataX	,
},
}")).
Eval vm_compute in ("<<<M1362>>>" ++ check (runes_of_ascii "
options { StringPrefixLenType =  u8;	ArrayPrefixLenType= 
u32
;

FixedStringPadFromLeft=
	true 
; FixedStringPadChar
    =

' ' ; 
}
	packet Leg
    {}
packet Heartbeat
    {

    zchar[

    6]msgKind
    ,
    @rightPad
('0')
char[3
] Qty
, zchar[9 ] Side2,
	i8

    Acct
, } 
packet Logout{int8	x,

} 
packet
Order{

char[]

    Acct  ,
zchar[
8 ]
	count ,

    u32
OrderId 
,uint8 
lastPx	,  u16
clOrdID ,	zchar[ 
7]
    Note	,
    }
    root packet Reject {
@leftPad(
' '
) char[ 8 ]Side2,

i8 
clOrdID , repeat
	f32

x
,
u32
	lastPx,
match
lastPx as Body {
    [30
	, 147] : Heartbeat

    ,	134 :
Leg	, 183	:

    Logout ,
40
	: Order,}, 
u16	Ref 
@calculatedFrom(
	""CRC32"" ), }
")).
Eval vm_compute in ("<<<M1798>>>" ++ check (runes_of_ascii "packet stringy {
    repeat T {
        u64 lengthOf `tab	here`,
        repeat _x {
            match calculatedFrom as Header {
                [""" ++ [233]%N ++ runes_of_ascii "t" ++ [233]%N ++ runes_of_ascii """] : _x,
                // @lengthOf(
                [""packet""] : MetaDataX,
                255 : u128,
                42 : A,
                ""// no comment"" : body,
            },
            repeat crc Foo,
            charz,
        },
        zchar[1] i8i8 @calculatedFrom(""x y""),
        uint8x Pad `line1
                line2`,
    },
    @lengthOf(u)
    char[4294967296] crc,
    @tag(007)
    repeatCount,
    repeat char[] Header,
    @rightPad()
    char[] string_ `a\`,
}")).
Eval vm_compute in ("<<<M1724>>>" ++ check (runes_of_ascii "  packet
    Header

{	char[

    10
	]

    A `it's` , @calculatedFrom( 
""" ++ [28040; 24687]%N ++ runes_of_ascii """ 
)
    calculatedFrom	// a // b
      @lengthOf(
	zchar )	`tab	here`

    , u32 BodyLength  ,

    @lengthOf(
stringy )//
@rightPad (

    ' '
) @tag(0123456789

    )  body{ match	i8i8 as Foo	{  [7,
""CRC32"" ] :
	options1
    ,[
""a\""b""
,

    """ ++ [128512]%N ++ runes_of_ascii """
	,

""it's"" ,
    ""a	b"",
	""// no comment""
	,
    ""it's""

    , 7

,
""abc"" ]
    :
As ,

1 :

    _x 
    // " ++ [128512]%N ++ runes_of_ascii " emoji
//
  }, repeat

    uint8x  {  crc 
@calculatedFrom( ""a\\""  )
,

}  , repeat

    i8
tag ,// " ++ [128512]%N ++ runes_of_ascii " emoji
	} ,
}
")).
Eval vm_compute in ("<<<M1521>>>" ++ check (runes_of_ascii "
options
    {
    ArrayPrefixLenType=u64 ; FixedStringPadFromLeft=	true
;
FixedStringPadChar =

'0'
;
    }

    packet

    Quote{

} packet

Ack 
{
    repeat
InNote66
{
u8 pad0 
,

    } , 
}

    packet 
Reject
{

}

root packet

Order
	{Quote ,

repeat
	Reject
	,  string 
venue
, string	seqNo

    , uint32 Ref ,  u16
    lastPx

,
	u32
clOrdID
    @lengthOf(
    Body  ) ,

match
lastPx as  Body
{

    190
	: Reject,  186:  Quote , 22 :	Ack ,
} , u16 Flags
	@calculatedFrom(  ""CRC32""

)  , }

")).
Eval vm_compute in ("<<<M1412>>>" ++ check (runes_of_ascii "// top
packet Logon {
    // c2a
    // c2b
    string user,// c5a
    // c5b
}// c6a

// c6b
root packet Frame {
    // c10
    u8 K,
    // c13
    match K as Body {
        // c18
        1 : Logon,
        // c22a
        // c22b
        2 : Logout,
        // c26
    },// c28a
    // c28b
    Tail,// c30a
    // c30b
}// c31a

// c31b
packet Logout {
    // c34a
    // c34b
    u16 reason,
}

// c38
packet Tail {
    // c41
    u32 crc,// c44
}// c45a
// c45b")).
Eval vm_compute in ("<<<M68>>>" ++ check (runes_of_ascii "
packet
    Header {  match roots  as packetx
// " ++ [27880; 37322]%N ++ runes_of_ascii "
//	t
{
    // `tick` ""quote"" 'q'
    [
""" ++ [28040; 24687]%N ++ runes_of_ascii """ ,
    0123456789 ]:packetx,
//
// c
4294967296
    : Logon ,	[ ""\n""
    ,""x y"" , // " ++ [128512]%N ++ runes_of_ascii " emoji
""packet"" , ""packet"" ] : i8i8 , 42 // `tick` ""quote"" 'q'
:Foo
    ,
}, //	t
@calculatedFrom( ""x y""	) f64 Logon ,} options
    {
    // " ++ [128512]%N ++ runes_of_ascii " emoji
    chars=
' '
    ; repeatCount =
""" ++ [233]%N ++ runes_of_ascii "t" ++ [233]%N ++ runes_of_ascii """ x	= ""\n"" ; calculatedFrom = ""`tick`"" //x
; }
")).
Eval vm_compute in ("<<<M1262>>>" ++ check (runes_of_ascii "// top
packet // c0
B // c1
{
    // c2
u8
    // c3
a , } root packet // c8a
  // c8b
P // c9a
  // c9b
{
    // c10
u8 // c11
K , // c13
u64 // c14a
  // c14b
L @lengthOf( // c16a
  // c16b
Body
    // c17
) , match // c20a
  // c20b
K as // c22a
  // c22b
Body // c23
{ // c24a
  // c24b
1 : // c26a
  // c26b
B // c27a
  // c27b
,
    // c28
} // c29
, // c30
}
    // c31
")).
Eval vm_compute in ("<<<M127>>>" ++ check (runes_of_ascii "packet a1{ @leftPad ( ) float
@lengthOf(
uint8x ) , }
packet Logon {
char Logon
@calculatedFrom( ""a\\"" )
    ,T stringy ,
//
// c
repeat uint8 stringy `two words` , } MetaData charz{ u
    tag
    `
`
, a1 falsey ,//x
Z9_
matchKey , f64 lengthOf	`a\` // @lengthOf(
,
    f32a roots
    ``
,float64
    x_y_z // @lengthOf(
, }
")).
Eval vm_compute in ("<<<M370>>>" ++ check (runes_of_ascii "  root packet trueish // " ++ [128512]%N ++ runes_of_ascii " emoji
{ char[] MetaDataX , @leftPad (
    // trailing space 
    '0' )match float as
//x
// trailing space 
crc { 0123456789 :// " ++ [27880; 37322]%N ++ runes_of_ascii "
chars	, ""{,}"" : i8i8,
}
, f32a
    // " ++ [128512]%N ++ runes_of_ascii " emoji
    f32a `tab	here` ,// " ++ [128512]%N ++ runes_of_ascii " emoji
@lengthOf( Foo )
    Packet@calculatedFrom( """ ++ [28040; 24687]%N ++ runes_of_ascii """ ) `it's` , }
")).
Eval vm_compute in ("<<<M1865>>>" ++ check (runes_of_ascii "packet P1 {
    u8 a,
}

packet P2 {
    P1,
}

packet P3 {
    P2,
    P1,
}

packet P4 {
    repeat P3,
    P2,
}

root packet P5 {
    P4,
    P3,
    P1,
    u8 K,
    match K as Body {
        4 : P4,
        3 : P3,
        2 : P2,
        1 : P1,
    },
}")).
Eval vm_compute in ("<<<M203>>>" ++ check (runes_of_ascii "root packet Pad {match //	t
falsey as
    A{
255:// `tick` ""quote"" 'q'
T, } , int64
Header	`tab	here`
, repeat i64_ `line1
line2`, @tag( 7 )
    float32	zchar
    @calculatedFrom( ""\" ++ [233]%N ++ runes_of_ascii """
    )
//
// @lengthOf(
,u64 Header ,
    }
")).
Eval vm_compute in ("<<<M1769>>>" ++ check (runes_of_ascii "
packet

    repeatCount{  trueish ,  }packet  uint8x
    { 	 /// triple
    match
u8x 
as 
calculatedFrom  {
    [
4294967296
]

:len

, [""" ++ [128512]%N ++ runes_of_ascii """ 
,""" ++ [233]%N ++ runes_of_ascii "t" ++ [233]%N ++ runes_of_ascii """
,	255
,//

  1 ] : falsey,
    }

    ,
	}
")).
Eval vm_compute in ("<<<M1885>>>" ++ check (runes_of_ascii "packet
    A

    { 
Inner{	match  k
as

    n
	{
    [
1

,  22 ,007

    ,

    4,5  ,  66	,

    7
, 8,
	9

    , 10
,	11
,12 ]

    :
B
    ,},
}
	,
}

")).
Eval vm_compute in ("<<<M224>>>" ++ check (runes_of_ascii "root packet
T
{ zchar[ // a // b
0123456789
] // c
uint8x , }  root packet metadata { @rightPad( )  x_y_z @lengthOf( stringy )
// `tick` ""quote"" 'q'
// c
, }")).
Eval vm_compute in ("<<<M508>>>" ++ check (runes_of_ascii "packet uint8x
{ match pack
    as msg_type	{
    0123456789 :	float
}
,
} packet //	t
a1
    { } options {packetx
    = '\x00'	int16 u128= ""a	b""  ; }
")).
Eval vm_compute in ("<<<M516>>>" ++ check (runes_of_ascii "packet uint8x
{ match pack
    as msg_type	{
    0123456789 :	float
}
,
} packet //	t
a1
    { } options {packetx
    = '\x00'	; u128= = ""a	b""  ; }
")).
Eval vm_compute in ("<<<M427>>>" ++ check (runes_of_ascii "packet uint8x
{ match pack
    as msg_type	0123456789
    { :	float
}
,
} packet //	t
a1
    { } options {packetx
    = '\x00'	; u128= ""a	b""  ; }
")).
Eval vm_compute in ("<<<M445>>>" ++ check (runes_of_ascii "packet uint8x
{ match pack
    as msg_type	{
    0123456789 :	float

,
} packet //	t
a1
    { } options {packetx
    = '\x00'	; u128= ""a	b""  ; }
")).
Eval vm_compute in ("<<<M410>>>" ++ check (runes_of_ascii "packet uint8x
{ match 
    as msg_type	{
    0123456789 :	float
}
,
} packet //	t
a1
    { } options {packetx
    = '\x00'	; u128= ""a	b""  ; }
")).
Eval vm_compute in ("<<<M660>>>" ++ check (runes_of_ascii "/""/ @lengthOf(
packet i8i8 { u128 o , }
options { MetaDataX = true;
    BodyLength =""packet"" x_y_z= 007
crc //x
= ""abc"" ;
    msg_type =
i16 }")).
Eval vm_compute in ("<<<M692>>>" ++ check (runes_of_ascii "// @lengthOf(
packet i8i8 { u128 o , }
options { MetaDataX = true;
    BodyLength =""packet"" x_y_z= 007
u8 //x
= ""abc"" ;
    msg_type =
i16 }")).
Eval vm_compute in ("<<<M1587>>>" ++ check (runes_of_ascii "packet A {
    Inner {
        u8 x `
                `,
        Deep {
            u8 y `
                        `,
        },
    },
}")).
Eval vm_compute in ("<<<M1405>>>" ++ check (runes_of_ascii "packet A
{

match
k

as
n	{  [ ""a""

,

""bb"" , 007 , ""d""

    ,
""e"",  66

, 
""g""
	, ""h""
    ,9
	,

""j""]
    : B,

2
	:  C 
},	} ")).
Eval vm_compute in ("<<<M1264>>>" ++ check (runes_of_ascii "packet B {
    u8 a,
}
root packet P {
    u8 K,
    match K as Body {
        1 : B,
    },
    u16 L @lengthOf(Body),
}
")).
Eval vm_compute in ("<<<M1152>>>" ++ check (runes_of_ascii "MetaData leftPad { chars MetaDataX
// c
, } packet repeatCount { char[ 255 ] uint8x `" ++ [233]%N ++ runes_of_ascii "` , } MetaData pack { As Foo , }")).
Eval vm_compute in ("<<<M1184>>>" ++ check (runes_of_ascii "MetaData leftPad { chars MetaDataX , } packet repeatCount { char[ 255 ] uint8x `" ++ [233]%N ++ runes_of_ascii "` , } MetaData pack { As
// c
Foo , }")).
Eval vm_compute in ("<<<M894>>>" ++ check (runes_of_ascii "packet A {
  match k as n {
    [""a"", ""bb"", ""c c"", ""d"", ""e"", ""f"", ""g"", ""h"", ""i"", ""j"", ""k""] : B
    2 : C
  },
}")).
Eval vm_compute in ("<<<M1279>>>" ++ check (runes_of_ascii "options {
    LittleEndian = true;
}
root packet P {
    u16 a,
    u32 Sum @calculatedFrom(""CR\
C32""),
}
")).
Eval vm_compute in ("<<<M1718>>>" ++ check (runes_of_ascii "packet _x {
}// trailing space 

options {
    repeatCount = 42;
    Pad = true;
    x_y_z = 65535;
}")).
Eval vm_compute in ("<<<M590>>>" ++ check (runes_of_ascii "
packet
    asx {match u128 as lengthOf
MetaData
//	t
// `tick` ""quote"" 'q'
255 : x ,
    } ,	}")).
Eval vm_compute in ("<<<M891>>>" ++ check (runes_of_ascii "packet A {
  match k as n {
    [1, 22, 007, 4, 5, 66, 7, 8, 9, 10, 11] : B,
    2 : C
  },
}")).
Eval vm_compute in ("<<<M559>>>" ++ check (runes_of_ascii "
packet
    { asx match u128 as lengthOf
{
//	t
// `tick` ""quote"" 'q'
255 : x ,
    } ,	}")).
Eval vm_compute in ("<<<M874>>>" ++ check (runes_of_ascii "packet A {
  match k as n {
    [1, 22, ""c c"", 4, 5, ""f"", 7, 8, ""i""] : B
    2 : C
  },
}")).
Eval vm_compute in ("<<<M1289>>>" ++ check (runes_of_ascii "
root

    packet

P
{repeat	string
    ss
    ,  repeat
    u16
ns
    ,

    }
")).
Eval vm_compute in ("<<<M1560>>>" ++ check (runes_of_ascii "packet A {
    match k as n {
        [""a"", ""bb"", 007] : B,
        2 : C,
    },
}")).
Eval vm_compute in ("<<<M819>>>" ++ check (runes_of_ascii "packet A {
  match k as n {
    [""a"", 22, ""c c"", 4, ""e""] : B,
    2 : C
  },
}")).
Eval vm_compute in ("<<<M821>>>" ++ check (runes_of_ascii "packet A {
  match k as n {
    [1, 22, ""c c"", 4, 5] : B,
    2 : C
  },
}")).
Eval vm_compute in ("<<<M793>>>" ++ check (runes_of_ascii "packet A {
  match k as n {
    [""a"", 22, ""c c""] : B,
    2 : C
  },
}")).
Eval vm_compute in ("<<<M1290>>>" ++ check (runes_of_ascii "root packet P {
    u8 s_u8,
    repeat u8 r_u8,
    u16 b_len,
}
")).
Eval vm_compute in ("<<<M825>>>" ++ check (runes_of_ascii "packet A { Inner { match k as n { [1,22,007,4,5] : B, }, }, }")).
Eval vm_compute in ("<<<M1088>>>" ++ check (runes_of_ascii "packet A { @tag(1) // a
 @leftPad('0') // b
 char[4] x, }")).
Eval vm_compute in ("<<<M963>>>" ++ check (runes_of_ascii "MetaData M {
    u8 x `tab
	x`,
    T t `tab
	x`,
}")).
Eval vm_compute in ("<<<M1708>>>" ++ check (runes_of_ascii "

  packet

A
    { u8 
x

`d" ++ [12]%N ++ runes_of_ascii "`
    , 	 // c" ++ [12]%N ++ runes_of_ascii "
  	}")).
Eval vm_compute in ("<<<M1658>>>" ++ check (runes_of_ascii "
MetaData	M { 
}	// c
	MetaData 
N 
{

}// d")).
Eval vm_compute in ("<<<M1240>>>" ++ check (runes_of_ascii "root packet P {
    char c,
    u8 x,
}
")).
Eval vm_compute in ("<<<M1408>>>" ++ check (runes_of_ascii "
options

    { 	 // a // b
  }
")).
Eval vm_compute in ("<<<M753>>>" ++ check (runes_of_ascii ":l" ++ [65533; 23]%N ++ runes_of_ascii "9" ++ [65533; 1549]%N ++ runes_of_ascii "F" ++ [65533; 65533; 65533; 65533]%N ++ runes_of_ascii "j)" ++ [65533; 65533; 27; 25; 65533; 65533; 261; 14; 65533]%N ++ runes_of_ascii "V" ++ [65533; 65533]%N ++ runes_of_ascii "4b-" ++ [65533; 65533]%N)).
Eval vm_compute in ("<<<M1703>>>" ++ check (runes_of_ascii "

  packet 
A
{ }
    // c x")).
Eval vm_compute in ("<<<M713>>>" ++ check (runes_of_ascii "// @lengthOf(
packet i8i8")).
Eval vm_compute in ("<<<M1064>>>" ++ check (runes_of_ascii "packet A {
}// a// b")).
Eval vm_compute in ("<<<M1062>>>" ++ check (runes_of_ascii "// c x
packet A {
}")).
Eval vm_compute in ("<<<M1016>>>" ++ check (runes_of_ascii "packet A {
}
// c" ++ [8233]%N)).
Eval vm_compute in ("<<<M989>>>" ++ check (runes_of_ascii "packet A {
}// c" ++ [133]%N)).
Eval vm_compute in ("<<<M1909>>>" ++ check (runes_of_ascii "packet zchar {
}")).
Eval vm_compute in ("<<<M1870>>>" ++ check (runes_of_ascii "// " ++ [128512]%N ++ runes_of_ascii " emoji")).
Eval vm_compute in ("<<<M293>>>" ++ check (runes_of_ascii "  

")).
