From FP Require Import Lexer Parser ShowPT Digest Formatter.
From Coq Require Import String List NArith.
Import ListNotations.
Open Scope string_scope.
Set Printing Width 100000000.
Set Printing Depth 100000000.
Definition show_fres (r : fres) : string :=
  match r with
  | FOk s => "OK:" ++ sh_escaped s ""
  | FErr s => "ERR:" ++ sh_escaped s ""
  | FPanic p => "PANIC:" ++ p
  end.
Definition check (rs : list rune) : string := digest (show_fres (format_res rs)).
Definition full (rs : list rune) : string := show_fres (format_res rs).
Eval vm_compute in ("<<<M1492>>>" ++ check (runes_of_ascii "
// top

options  
  // c0
      {  // c1a
	// c1b

LittleEndian 
// c2
  =	// c3a
    // c3b
	false 

// c4
; ArrayPrefixLenType=  // c7a

	// c7b
u8  
  // c8
;// c9
FixedStringPadFromLeft	// c10a

	// c10b
	=// c11

  true 
;	// c13
    FixedStringPadChar 
        // c14

	=
'0' 	 // c16
      ;

    // c17
		}  // c18
	packet 
    // c19
  Heartbeat{ 
	// c21
	  string	lastPx
	, uint8  // c25
  	Qty
, 
    // c27
	i64 	 // c28a
    // c28b
    Acct 

    // c29
	  ,  
      // c30
    char[// c31

4

    ]  // c33
	Ref	// c34
		, 	 // c35
  	} packet // c37
Fill  // c38
      {	// c39

uint8 	 // c40a
  	// c40b
	Ref 	 // c41
    ,	Heartbeat 	 // c43
  , 	 // c44a
      // c44b
	f32  // c45
  OrderId, // c47
		repeat	f32 	 // c49
x 
      // c50
,// c51a
  // c51b
}	root
packet Order
// c55
    {// c56a
      // c56b
      zchar[
    // c57
  2 // c58
]// c59a

// c59b
	OrderId ,  
      // c61
	zchar[ // c62a

// c62b
2 ] 
    // c64
    Acct 
// c65
,
// c66
	zchar[	// c67
	1  ] // c69
Note // c70a
	// c70b
  ,
    // c71
  zchar[ 
        // c72
	  9 	 // c73
] Qty // c75a
	  // c75b

  , // c76a
    // c76b
    string price// c78
  , // c79
	string // c80a

// c80b
  tag7 
	// c81
, 	 // c82a
	// c82b
u32 

    // c83

	x
    // c84
  ,  // c85a
	// c85b
match  // c86
	  x as 	 // c88
	Body  // c89

{  // c90
123  // c91
  :  // c92a
    	// c92b
Fill , 	 // c94a
	// c94b
112 // c95a
	// c95b
  :// c96a
// c96b
  Heartbeat
	, 	 // c98
  } // c99
  ,	// c100
  u32 seqNo
    // c102
	@calculatedFrom( 	 // c103
	  ""CRC32"" 	 // c104
    )  
      // c105

  ,
    // c106
    }  // c107
")).
Eval vm_compute in ("<<<M53>>>" ++ check (runes_of_ascii "root
packet u {
    char[007 ]x_y_z
`two words` , int16 u8x
    @calculatedFrom( ""packet""
    )
    // @lengthOf(
    ,
    float64
    falsey
@calculatedFrom( ""\" ++ [233]%N ++ runes_of_ascii """ ) `u8 x,`
    ,
    trueish @calculatedFrom(
    """ ++ [233]%N ++ runes_of_ascii "t" ++ [233]%N ++ runes_of_ascii """ )
`tab	here` , @tag( 1	) repeat char[
4294967296 ]
    // " ++ [128512]%N ++ runes_of_ascii " emoji
    u , match
    // " ++ [27880; 37322]%N ++ runes_of_ascii "
    i8i8
    //
    as // " ++ [128512]%N ++ runes_of_ascii " emoji
o
    { [""a\\""
    ]:
    matchKey,[ 0123456789
    //x
    , ""x y""  , 0 ,
/// triple
/// triple
00 , ""a	b"" ,""{,}"" , // a // b
""{,}"" ,
007 ] :
u8x,
255 : u128 , [
""" ++ [28040; 24687]%N ++ runes_of_ascii """
    , 0123456789	,65535 ,
    // a // b
    ""\n"" ] : _x, 7 :
falsey} , @leftPad ( )// " ++ [128512]%N ++ runes_of_ascii " emoji
charz @lengthOf(A ) , // `tick` ""quote"" 'q'
} root packet stringy
{
    repeat
    MetaDataX {float32
T , string
    x_y_z `a\`
, repeat	_x  zchar`u8 x,` , }
    , } packet Foo {
    @lengthOf(  roots
    ) calculatedFrom a1, zchar[ 0123456789]	_x,
// @lengthOf(
// trailing space 
match //
roots as MetaDataX // c
{ /// triple
42 :	_x ,
3// a // b
:msg_type  7 : a1, """"	:i8i8 , //x
[ """ ++ [233]%N ++ runes_of_ascii "t" ++ [233]%N ++ runes_of_ascii """ ]: i8i8 , 00 : leftPad ,
    } , @calculatedFrom( // @lengthOf(
"""" ) char[  00 // c
]
Foo
@lengthOf( uint8x) ,  f32 chars , }packet
    metadata
    //	t
    { } MetaData i64_ // packet A { u8 x, }
{ lengthOf options1 ,
// @lengthOf(
//x
a1 A,
    x Header ,
    }
")).
Eval vm_compute in ("<<<M1854>>>" ++ check (runes_of_ascii "root packet metadata {
    @lengthOf(options1)
    int32 zchar @calculatedFrom(""// no comment"") `
    `,
    repeat calculatedFrom `it's`,//
    match BodyLength as lengthOf {
        3 : leftPad,
    },
    repeat u128,
    char[10] chars,// @lengthOf(
    falsey @calculatedFrom(""x y"") `{ , }`,
    @tag(42)
    float64 i64_,
    u8x @calculatedFrom(""{,}"") `two words`,
    @lengthOf(T)
    char[255] pack `it's`,
    match MetaDataX as i64_ {
        //
        """ ++ [28040; 24687]%N ++ runes_of_ascii """ : Header,
        0 : x_y_z,
        3 : int,
        ""abc"" : u8x,
    },
}

packet i64_ {
    @rightPad()
    /// triple
    pack {
        match MetaDataX as trueish {
            1 : len,
            00 : falsey,
            """" : x,
        },
    },
    @tag(1)
    char[] int @lengthOf(metadata),
    a1 @lengthOf(calculatedFrom),
    @tag(7)
    tag @lengthOf(u),
    BodyLength @calculatedFrom(""it's"") `say ""hi""`,
    string msg_type,
}

MetaData Logon {
    BodyLength _x `it's`,
    int32 body,
    // trailing space 
}

root packet body {
}")).
Eval vm_compute in ("<<<M70>>>" ++ check (runes_of_ascii "packet pack { @lengthOf(
Foo
    // c
    )
    asx @lengthOf( _x ) /// triple
, u8	x_y_z `two words` ,repeat
    zchar[0
    ] roots `
`
    // `tick` ""quote"" 'q'
    , lengthOf @calculatedFrom( ""abc""
) ,
@tag( 3 ) @rightPad	( ' ')@calculatedFrom(
""1""
//x
// " ++ [27880; 37322]%N ++ runes_of_ascii "
)
repeat uint64 i64_ // trailing space 
`say ""hi""` // @lengthOf(
,	@tag( 007 ) match roots as float {	""a	b""
    : lengthOf,
    [1, // @lengthOf(
""\n""
,
""a\""b"" , ""\" ++ [233]%N ++ runes_of_ascii """ ,  ""1"",
    42 ]: msg_type, """ ++ [128512]%N ++ runes_of_ascii """: Foo} ,T//x
{
    match
Header
as trueish
{ [
// `tick` ""quote"" 'q'
// @lengthOf(
0 , 3// @lengthOf(
, ""{,}"" ,
""1"" ,
00  ,
0123456789
,
    ""// no comment"" ]
:As
    , }
    , } , repeat char[
    10
]
o `
`
, @calculatedFrom(
    //
    ""`tick`"" //x
) repeat crc {
    repeatCount o ,
    u8x
As, } ,
} packet pack{@calculatedFrom( """ ++ [233]%N ++ runes_of_ascii "t" ++ [233]%N ++ runes_of_ascii """ )  u32 f32a
,
}
    MetaData float
{u32 options1 , }
packet
f32a { }
")).
Eval vm_compute in ("<<<M322>>>" ++ check (runes_of_ascii "packet leftPad { //
i8 stringy @calculatedFrom( """ ++ [128512]%N ++ runes_of_ascii """	) , int@calculatedFrom(
// c
// " ++ [128512]%N ++ runes_of_ascii " emoji
""a	b"" )
`it's` ,
    @leftPad () @tag( 0123456789
    )int32 u8x , @lengthOf(A )float64	u128	@calculatedFrom(
    ""a\\"" ), //x
} options { //x
Pad = 0 u =
    ' ' }MetaData
    a1 { char[]
metadata	`// not a comment`
    // @lengthOf(
    ,
}	packet
Foo { @tag(
42 )	repeat BodyLength ,
    int8 metadata`{ , }` ,@leftPad ( // c
)// " ++ [27880; 37322]%N ++ runes_of_ascii "
@calculatedFrom(//
""`tick`""
    ) @calculatedFrom(	""a	b""	) u32 stringy , @lengthOf( roots ) zchar[ 0 ] msg_type @lengthOf( i64_
)`tab	here`	,i8 Header	`{ , }`
, char[ 7
] trueish @lengthOf(	packetx
    )
, u64	charz `
`
    ,
    zchar[
//	t
// c
65535]
repeatCount
`it's`
    ,match // @lengthOf(
calculatedFrom as calculatedFrom  {""a	b""
: roots 42	: MetaDataX	,
},
}")).
Eval vm_compute in ("<<<M354>>>" ++ check (runes_of_ascii "options {
} packet u8x{ string uint8x@calculatedFrom(""{,}"" )	`crlf
line`	,} MetaData falsey{
    Logon packetx `tab	here` , } root packet o
{ falsey@calculatedFrom(
//x
// " ++ [27880; 37322]%N ++ runes_of_ascii "
""" ++ [28040; 24687]%N ++ runes_of_ascii """ ) ,	@tag(0123456789) // `tick` ""quote"" 'q'
char[
    // `tick` ""quote"" 'q'
    0123456789
]	u128@calculatedFrom(
""{,}"" ) ,
    @tag(
    00)
@lengthOf( stringy
) @tag( 4294967296
)  rootA Header,  @lengthOf(As
    )
    repeat leftPad `// not a comment`// c
, i8 leftPad @calculatedFrom( """" ) , @tag( 10
) zchar[ 007
] packetx
@lengthOf( // packet A { u8 x, }
u8x )	`" ++ [28040; 24687; 31867; 22411]%N ++ runes_of_ascii "` ,
}packet	options1 {
//	t
// trailing space 
falsey// packet A { u8 x, }
{ //	t
zchar[ 3
    ]// " ++ [128512]%N ++ runes_of_ascii " emoji
roots
//
// a // b
,
    u32 Header // c
,
} ,// a // b
}")).
Eval vm_compute in ("<<<M1957>>>" ++ check (runes_of_ascii "options {
    // c1a
    // c1b
    LittleEndian = true;
    // c5
    StringPrefixLenType = u64;
    // c9
    ArrayPrefixLenType = u16;// c13a
    // c13b
    FixedStringPadFromLeft = false;
    FixedStringPadChar = ' ';
    // c21
}

packet Logon {
    // c25
    zchar[5] Side2,// c30
}

root packet Logout {
    // c35
    repeat i64 Tail,// c39
    Logon,// c41
    repeat i16 OrderId,// c45
    char[] venue,
    uint64 x,
    // c51
    repeat i16 count,
    u8 Flags,
    match Flags as Body {
        25 : Logon,
        // c67a
        // c67b
    },// c69a
    // c69b
    u16 Qty @calculatedFrom(""CRC32""),// c75a
    // c75b
}
// c76")).
Eval vm_compute in ("<<<M305>>>" ++ check (runes_of_ascii "packet
pack{ u8 x ,
char[
    255 ]trueish
@calculatedFrom(
""// no comment"" ) `tab	here`,	@lengthOf( asx) repeat //
zchar[
0
] stringy `
`, @leftPad( '0' ) @calculatedFrom( // trailing space 
""abc"" )
    @calculatedFrom( ""it's""
) char[] packetx@calculatedFrom( ""a	b"" ) `doc` , repeat string len
    `two words`
, uint16 matchKey
    @lengthOf(
    asx ) ,zchar[ 0 ]
x `it's` // trailing space 
, }
    packet packetx {body  , string trueish `" ++ [233]%N ++ runes_of_ascii "` , @tag(255 )
@tag(
3
// packet A { u8 x, }
//	t
) @calculatedFrom(
    ""\n"" ) repeat f64 roots// trailing space 
`" ++ [233]%N ++ runes_of_ascii "`	, /// triple
} 	 ")).
Eval vm_compute in ("<<<M1367>>>" ++ check (runes_of_ascii "options {
    StringPrefixLenType = u8;
    ArrayPrefixLenType = u8;
    FixedStringPadFromLeft = false;
    FixedStringPadChar = ' ';
}
packet Ack {
    char[] tag7,
}
packet Reject {
    InSym61 {
        repeat Ack,
        zchar[4] f1,
    },
}
packet Logout {
    char[4] clOrdID,
}
root packet Cancel {
    @leftPad(' ') char[10] price,
    u8 x,
    u32 venue @lengthOf(Body),
    match x as Body {
        [92, 175] : Logout,
        26 : Reject,
        144 : Ack,
    },
    u16 count @calculatedFrom(""CR\
C32""),
}
")).
Eval vm_compute in ("<<<M340>>>" ++ check (runes_of_ascii "packet leftPad//
{@rightPad () repeat chars	{crc /// triple
pack  ,
} ,
@calculatedFrom( """ ++ [28040; 24687]%N ++ runes_of_ascii """ )@lengthOf(options1  )@tag( 65535 ) Foo,match
matchKey
    as // " ++ [128512]%N ++ runes_of_ascii " emoji
tag	{
    // c
    [ ""{,}"",
""""
, ""`tick`"" ,
3 ,""it's"",  """ ++ [128512]%N ++ runes_of_ascii """	,
""it's""] :As
    , [
/// triple
//	t
""x y""]
    //x
    :
chars,""" ++ [233]%N ++ runes_of_ascii "t" ++ [233]%N ++ runes_of_ascii """	:uint8x,4294967296:	packetx
""// no comment""
:
calculatedFrom , }
,  @calculatedFrom( ""// no comment""// @lengthOf(
)
char[// trailing space 
007 ]	f32a ,} // a // b")).
Eval vm_compute in ("<<<M1444>>>" ++ check (runes_of_ascii "  options// " ++ [27880; 37322]%N ++ runes_of_ascii "

  {

T
    =zchar[ 42 ]
options1
    = 
uint8 ;
lengthOf

= 
// a // b
		char[ 4294967296 ]; } packet Z9_
	{
repeat MetaDataX
	`crlf
line`

, 
repeat string 
x_y_z,  u32
    x	,// `tick` ""quote"" 'q'

  @tag(
	// " ++ [128512]%N ++ runes_of_ascii " emoji
	// " ++ [128512]%N ++ runes_of_ascii " emoji

	00
    ) repeat
    i64  Logon	,  u8x
f32a ,repeat	lengthOf 
``,
repeat stringy

Pad
        // @lengthOf(
    `
`	,  repeat
string_
    chars `// not a comment` , }
")).
Eval vm_compute in ("<<<M76>>>" ++ check (runes_of_ascii "packet rootA { repeat uint16 stringy `" ++ [233]%N ++ runes_of_ascii "`
,body
@lengthOf( stringy ) , int32 matchKey // " ++ [27880; 37322]%N ++ runes_of_ascii "
,
    @lengthOf(roots)@calculatedFrom( ""a\""b""
) @leftPad(' ') i64
    leftPad
@lengthOf( repeatCount )
`u8 x,` , //	t
f64 len
    @lengthOf( BodyLength// trailing space 
) `// not a comment` , @rightPad
(
)
    @leftPad ( '0')repeat
string len
, // c
char[] chars `two words`	, } //	t")).
Eval vm_compute in ("<<<M77>>>" ++ check (runes_of_ascii "
packet	float { char[ 42] int`say ""hi""` , @tag( 255// packet A { u8 x, }
) match// a // b
stringy  as
    x { [ 00 ,42
]: i64_ 42 : matchKey , [ ""1"" , 1
, 42
    ,
""" ++ [28040; 24687]%N ++ runes_of_ascii """ , ""abc"" ,
// a // b
//x
1 // trailing space 
]
: //
roots
,
    65535
: trueish ,	} ,@calculatedFrom( ""{,}"" )body @calculatedFrom(""" ++ [28040; 24687]%N ++ runes_of_ascii """ ) , zchar[
    007 ] lengthOf, }
")).
Eval vm_compute in ("<<<M1880>>>" ++ check (runes_of_ascii "packet A {
    u8 a,
}

packet B {
    u16 b,
}

packet C {
    u32 c,
}

root packet M {
    u16 Kc,
    u16 Kb,
    u16 Ka,
    match Kc as X {
        9 : A,
        10 : B,
    },
    match Kb as Y {
        2 : C,
        1 : A,
    },
    match Ka as Z {
        1 : B,
    },
    A,
    B,
    C,
}")).
Eval vm_compute in ("<<<M1514>>>" ++ check (runes_of_ascii "packet FooBar // c1
		{
	u8

    a
, 
    // c5
    }	// c6
  packet
    foo_bar 	 // c8a
  	// c8b
  {

// c9
u16
        // c10

b

,  // c12a
  // c12b
    }  // c13

root// c14
      packet R {  // c17a
	  // c17b

FooBar ,  
  // c19

	foo_bar 	 // c20
	,  }")).
Eval vm_compute in ("<<<M234>>>" ++ check (runes_of_ascii "//	t
options{
    chars=true As= char[]
// trailing space 
// " ++ [128512]%N ++ runes_of_ascii " emoji
; /// triple
x_y_z	= 7; // " ++ [27880; 37322]%N ++ runes_of_ascii "
i8i8 = true packetx = /// triple
' ' } root packet	x_y_z {repeat
    char[
    42
    //x
    ] //	t
Pad,
    }
// packet A { u8 x, }
")).
Eval vm_compute in ("<<<M1303>>>" ++ check (runes_of_ascii "// top
packet
    // c0
order_item // c1
{ u8 // c3
a // c4a
  // c4b
, // c5
} root // c7
packet
    // c8
new_order
    // c9
{ // c10
order_item
    // c11
,
    // c12
u8 // c13a
  // c13b
x ,
    // c15
} ")).
Eval vm_compute in ("<<<M186>>>" ++ check (runes_of_ascii "root packet packetx	{	char[ 1 ]chars @calculatedFrom(
""packet"" ) `say ""hi""` ,} options
    // trailing space 
    { asx
    // a // b
    = 65535 u = float64 repeatCount  =""\" ++ [233]%N ++ runes_of_ascii """}
")).
Eval vm_compute in ("<<<M1790>>>" ++ check (runes_of_ascii "MetaData
    leftPad{

    chars 
MetaDataX
,  }

packet

    repeatCount  {	char[	// c

255
	]uint8x
`" ++ [233]%N ++ runes_of_ascii "`
	,} 
MetaData 
pack

{

    As
    Foo
    , }
")).
Eval vm_compute in ("<<<M521>>>" ++ check (runes_of_ascii "packet uint8x
{ match pack
    as msg_type	{
    0123456789 :	float
}
,
} packet //	t
a1
    { } options {packetx
    = '\x00'	; u128= ""a	b"" ""a	b""  ; }
")).
Eval vm_compute in ("<<<M426>>>" ++ check (runes_of_ascii "packet uint8x
{ match pack
    as msg_type	{ {
    0123456789 :	float
}
,
} packet //	t
a1
    { } options {packetx
    = '\x00'	; u128= ""a	b""  ; }
")).
Eval vm_compute in ("<<<M1299>>>" ++ check (runes_of_ascii "packet A {
    u8 a,
}
packet B {
    u16 b,
}
root packet P {
    u8 K,
    match K as M {
        [1, 2] : A,
        3 : B,
        7 : A,
    },
}
")).
Eval vm_compute in ("<<<M517>>>" ++ check (runes_of_ascii "packet uint8x
{ match pack
    as msg_type	{
    0123456789 :	float
}
,
} packet //	t
a1
    { } options {packetx
    = '\x00'	; u128""a	b"" =  ; }
")).
Eval vm_compute in ("<<<M666>>>" ++ check (runes_of_ascii "// @lengthOf(
packet i8i8 { u128 u128 o , }
options { MetaDataX = true;
    BodyLength =""packet"" x_y_z= 007
crc //x
= ""abc"" ;
    msg_type =
i16 }")).
Eval vm_compute in ("<<<M695>>>" ++ check (runes_of_ascii "// @lengthOf(
packet i8i8 { u128 o , }
options { MetaDataX = true;
    BodyLe@xngth =""packet"" x_y_z= 007
crc //x
= ""abc"" ;
    msg_type =
i16 }")).
Eval vm_compute in ("<<<M720>>>" ++ check (runes_of_ascii "// @lengthOf(
packet i8i8 { u128 o , }
options { MetaDataX = true;
    BodyLength =""packet"" =x_y_z 007
crc //x
= ""abc"" ;
    msg_type =
i16 }")).
Eval vm_compute in ("<<<M1263>>>" ++ check (runes_of_ascii "
packet B {u8 
a ,
}  root	packet P
{

    u8
K, 
u64	L
@lengthOf(

Body
)	, match
    K
as

    Body
{ 1

    : 
B

,
}	, }

")).
Eval vm_compute in ("<<<M1266>>>" ++ check (runes_of_ascii "  packet B
    {
u8 a
	,
    } 
root  packet

P {
u8
    K  ,
	match
    K as Body

{
1

:  B,
}  ,
	u16	L@lengthOf(	Body

) ,
	}
")).
Eval vm_compute in ("<<<M223>>>" ++ check (runes_of_ascii "packet  u { repeat
    // " ++ [128512]%N ++ runes_of_ascii " emoji
    A , @lengthOf( lengthOf
)
    repeat
    i64
i64_
, //
zchar[
3// a // b
] body , }
")).
Eval vm_compute in ("<<<M1146>>>" ++ check (runes_of_ascii "MetaData leftPad
// c
{ chars MetaDataX , } packet repeatCount { char[ 255 ] uint8x `" ++ [233]%N ++ runes_of_ascii "` , } MetaData pack { As Foo , }")).
Eval vm_compute in ("<<<M1178>>>" ++ check (runes_of_ascii "MetaData leftPad { chars MetaDataX , } packet repeatCount { char[ 255 ] uint8x `" ++ [233]%N ++ runes_of_ascii "` , } MetaData
// c
pack { As Foo , }")).
Eval vm_compute in ("<<<M1841>>>" ++ check (runes_of_ascii "MetaData Packet {
    u lengthOf `say ""hi""`,
}

MetaData metadata {
    crc chars `crlf
    line`,
    asx f32a,
}")).
Eval vm_compute in ("<<<M901>>>" ++ check (runes_of_ascii "packet A {
  match k as n {
    [""a"", ""bb"", 007, ""d"", ""e"", 66, ""g"", ""h"", 9, ""j"", ""k""] : B,
    2 : C
  },
}")).
Eval vm_compute in ("<<<M867>>>" ++ check (runes_of_ascii "packet A {
  match k as n {
    [""a"", ""bb"", ""c c"", ""d"", ""e"", ""f"", ""g"", ""h"", ""i""] : B,
    2 : C
  },
}")).
Eval vm_compute in ("<<<M479>>>" ++ check (runes_of_ascii "packet uint8x
{ match pack
    as msg_type	{
    0123456789 :	float
}
,
} packet //	t
a1
    {")).
Eval vm_compute in ("<<<M119>>>" ++ check (runes_of_ascii "packet u{ @tag(10 // a // b
) tag  @lengthOf( A
// " ++ [128512]%N ++ runes_of_ascii " emoji
// a // b
) , repeat options1 ,  }")).
Eval vm_compute in ("<<<M629>>>" ++ check (runes_of_ascii "
packet
    asx {match u128 as lengthOf
{
//	t
// `tick` ""quote"" 'q'
255 : x ,
    } ~ ,	}")).
Eval vm_compute in ("<<<M599>>>" ++ check (runes_of_ascii "
packet
    asx {match u128 as lengthOf
{
//	t
// `tick` ""quote"" 'q'
255 x : ,
    } ,	}")).
Eval vm_compute in ("<<<M1307>>>" ++ check (runes_of_ascii "  packet
orderItem 
{
	u8
    a
    , 
}root
packet
newOrder{ orderItem	, 
u8
x
	,
}")).
Eval vm_compute in ("<<<M1845>>>" ++ check (runes_of_ascii "
packet

    A {@leftPad 
(
)
char[
4 ]x
    ,  @rightPad 
( )zchar[
2 ]	y ,
	} ")).
Eval vm_compute in ("<<<M839>>>" ++ check (runes_of_ascii "packet A {
  match k as n {
    [1, 22, 007, 4, 5, 66, 7] : B,
    2 : C
  },
}")).
Eval vm_compute in ("<<<M810>>>" ++ check (runes_of_ascii "packet A {
  match k as n {
    [""a"", ""bb"", 007, ""d""] : B,
    2 : C
  },
}")).
Eval vm_compute in ("<<<M814>>>" ++ check (runes_of_ascii "packet A {
  match k as n {
    [1, 22, 007, 4, 5] : B
    2 : C
  },
}")).
Eval vm_compute in ("<<<M1756>>>" ++ check (runes_of_ascii "  packet
    body

{ // c
	  i32 f32a

`{ , }`
	,  }  options

{} ")).
Eval vm_compute in ("<<<M88>>>" ++ check (runes_of_ascii "options// @lengthOf(
{a1 = 65535
// `tick` ""quote"" 'q'
// c
}")).
Eval vm_compute in ("<<<M1622>>>" ++ check (runes_of_ascii "

  MetaData 
lengthOf	{Header

    o`doc`  ,

    }
")).
Eval vm_compute in ("<<<M1219>>>" ++ check (runes_of_ascii "packet body { i32 f32a `{ , }` , } options { } // c
")).
Eval vm_compute in ("<<<M1085>>>" ++ check (runes_of_ascii "packet A { B { // a
 u8 x, // b
 } // c
 , // d
 }")).
Eval vm_compute in ("<<<M434>>>" ++ check (runes_of_ascii "packet uint8x
{ match pack
    as msg_type	{")).
Eval vm_compute in ("<<<M1806>>>" ++ check (runes_of_ascii "  root	packet

A{

    u8
x 
`
x`	,
} ")).
Eval vm_compute in ("<<<M1399>>>" ++ check (runes_of_ascii "packet

    x
{
} 
    // c
 
")).
Eval vm_compute in ("<<<M1830>>>" ++ check (runes_of_ascii "packet A {
    u8 x `d" ++ [8202]%N ++ runes_of_ascii "`,// c" ++ [8202]%N ++ runes_of_ascii "
}")).
Eval vm_compute in ("<<<M1076>>>" ++ check (runes_of_ascii "MetaData M {
}// c
packet A {}")).
Eval vm_compute in ("<<<M1926>>>" ++ check (runes_of_ascii "packet
A
    { }
	// c" ++ [8192]%N ++ runes_of_ascii "
")).
Eval vm_compute in ("<<<M295>>>" ++ check (runes_of_ascii "root  packet
u128 { }")).
Eval vm_compute in ("<<<M170>>>" ++ check (runes_of_ascii "packet pack
{
} 	 ")).
Eval vm_compute in ("<<<M1002>>>" ++ check (runes_of_ascii "// c" ++ [8192]%N ++ runes_of_ascii "
packet A {
}")).
Eval vm_compute in ("<<<M729>>>" ++ check (runes_of_ascii "// only a comment")).
Eval vm_compute in ("<<<M1438>>>" ++ check (runes_of_ascii "packet Logon{	}
")).
Eval vm_compute in ("<<<M1505>>>" ++ check (runes_of_ascii "
// c" ++ [8192]%N ++ runes_of_ascii "
")).
Eval vm_compute in ("<<<M726>>>" ++ check (runes_of_ascii "
	 ")).
