From FP Require Import Lexer Parser ShowPT Digest Formatter.
From Coq Require Import String List NArith.
Import ListNotations.
Open Scope string_scope.
Set Printing Width 100000000.
Set Printing Depth 100000000.
Definition show_fres (r : fres) : string :=
  match r with
  | FOk s => "OK:" ++ sh_escaped s ""
  | FErr s => "ERR:" ++ sh_escaped s ""
  | FPanic p => "PANIC:" ++ p
  end.
Definition check (rs : list rune) : string := digest (show_fres (format_res rs)).
Definition full (rs : list rune) : string := show_fres (format_res rs).
Eval vm_compute in ("<<<M1685>>>" ++ check (runes_of_ascii "// c
packet uint8x {
    @tag(65535)
    x_y_z,
    char[] a1 @calculatedFrom(""`tick`""),
    @tag(1)
    @tag(1)
    @tag(4294967296)
    repeat string rootA `tab	here`,
    repeat i32 tag,
}

packet pack {
    @calculatedFrom(""// no comment"")
    @lengthOf(uint8x)
    string zchar @calculatedFrom(""`tick`""),
}

root packet tag {
    // trailing space 
    @tag(42)
    @lengthOf(As)
    @leftPad('0')
    match u128 as float {
        [00] : charz,
    },
}

packet chars {
    @leftPad('\x00')
    char[10] len @calculatedFrom(""a	b""),
    @tag(00)
    @tag(10)
    uint64 matchKey,
    x_y_z {
        repeat string rootA `doc`,
        tag,
        repeat char MetaDataX,
        int64 asx,
    },// trailing space 
    i16 stringy,
    match x_y_z as BodyLength {
        [
            ""\" ++ [233]%N ++ runes_of_ascii """, """ ++ [28040; 24687]%N ++ runes_of_ascii """, 7, 0, 7,
            4294967296
        ] : A,
        // " ++ [128512]%N ++ runes_of_ascii " emoji
    },
    @calculatedFrom(""\n"")
    @leftPad()
    f64 msg_type,
    repeat Logon `say ""hi""`,
    @tag(007)
    match crc as msg_type {
        [
            ""a\\"", 0123456789, ""`tick`"", """ ++ [233]%N ++ runes_of_ascii "t" ++ [233]%N ++ runes_of_ascii """, ""{,}"",
            255, 0123456789
        ] : Header,
        0123456789 : len,
        65535 : BodyLength,
        ""CRC32"" : string_,
        4294967296 : len,
        """ ++ [28040; 24687]%N ++ runes_of_ascii """ : trueish,
    },
    repeat string u,
    lengthOf Z9_ `{ , }`,
}// 50% %s

packet trueish {
    f32 Logon @calculatedFrom(""1""),
    i64 matchKey @calculatedFrom(""x y"") `" ++ [28040; 24687; 31867; 22411]%N ++ runes_of_ascii "`,
    i8i8 `it's`,
    msg_type,
    uint8 lengthOf,
    int trueish,
    char[0123456789] uint8x,
    i8 int @lengthOf(msg_type) `say ""hi""`,
    @rightPad()
    repeat f64 Z9_,
    metadata {
        falsey @calculatedFrom(""abc""),
    },
}")).
Eval vm_compute in ("<<<M1970>>>" ++ check (runes_of_ascii "// top
options {
    LittleEndian = false;// c5
    FixedStringPadChar = ' ';
    // c9
}// c10a

// c10b
packet Fill {
    // c13
    InFlags6 {
        // c15
        repeat u64 count,
    },// c21a
    // c21b
    char[8] price,
    repeat char[2] lastPx,
    // c32
    char[] count,
}// c36

packet Quote {
    // c39
    char[] Qty,
    int32 sym,
    // c45
    zchar[9] Flags,
    int8 tag7,
    // c53
    char[7] count,// c58a
    // c58b
}// c59a

// c59b
packet Cancel {
    string Acct,
    @rightPad('\x00')
    // c69
    char[2] Note,// c74a
    // c74b
    zchar[5] Side2,
    // c79
}// c80a

// c80b
packet Trade {
    repeat Quote,
    // c86
    Fill,
    // c88
    repeat i64 Side2,
    // c92
    uint16 Tail,
    zchar[7] OrderId,// c100
}

// c101
root packet Party {
    repeat InLastpx79 {
        // c108a
        // c108b
        char[12] Px,
        int8 Tail,
    },
    f32 count,
    // c121
    repeat u8 Note,
    // c125
    Trade,// c127a
    // c127b
    f64 venue,// c130
    @rightPad('\x00')
    char[11] tag7,
    u16 Px,// c142a
    // c142b
    u32 Side2 @lengthOf(Body),
    match Px as Body {
        [48, 188] : Fill,
        // c161
        190 : Trade,
        160 : Quote,
        // c169
        85 : Cancel,
    },
    // c175
}
// c176")).
Eval vm_compute in ("<<<M1817>>>" ++ check (runes_of_ascii "

  MetaData 
Z9_{	string roots 
, 
repeatCount

    packetx `say ""hi""`,	}  
      //
  // packet A { u8 x, }
packet

    float

{ 
repeat
    char[]
    metadata,

    zchar[00 
]

    leftPad @calculatedFrom(

    """ ++ [233]%N ++ runes_of_ascii "t" ++ [233]%N ++ runes_of_ascii """) `" ++ [233]%N ++ runes_of_ascii "` ,string
T
	@lengthOf( Pad
)  `doc` , match 
f32a  as	crc 
{ ""x y"" 
: Foo ,  // @lengthOf(

  0  :_x 
[
""1""
    ]  : 
      // a // b
  	// packet A { u8 x, }
  As
	[255 , 1,
"""", 
""1""

    ,
	""abc"" ,

    """ ++ [233]%N ++ runes_of_ascii "t" ++ [233]%N ++ runes_of_ascii """,10 ] 
: leftPad

    , // @lengthOf(
  ""{,}""
: 
a1

4294967296
	: body  ,

//
  }  ,

    lengthOf 
@calculatedFrom(
	""\" ++ [233]%N ++ runes_of_ascii """)	,// packet A { u8 x, }
      @calculatedFrom(""`tick`""
	)

@lengthOf( u
	)

    @leftPad (

'0'
)	match
o as
	BodyLength{[ 3  ,  1 ,	""a\\"",

    ""`tick`"" 
,  // @lengthOf(
	1
,  1
]  :  asx ,
[ ""a	b"" ,
255
, 3 ,

""abc""
, 65535
    ] :asx
	,  10:
    Z9_  ,  [
    10
, //
    	""CRC32""

    ,7 
]
	: roots  ,

    } , 
// 50% %s

u16

a1

,
@tag(

00

    ) uint32
MetaDataX`u8 x,`  , @leftPad (

'\x00' )  @rightPad	//x
  ()i64	calculatedFrom ,
} ")).
Eval vm_compute in ("<<<M122>>>" ++ check (runes_of_ascii "
packet metadata { float // " ++ [27880; 37322]%N ++ runes_of_ascii "
, repeat string calculatedFrom , @rightPad ( ' ' ) chars
a1,
    @leftPad ('0')	@tag(
    255 ) @calculatedFrom( """ ++ [233]%N ++ runes_of_ascii "t" ++ [233]%N ++ runes_of_ascii """ )
match trueish as x { // packet A { u8 x, }
""x y"":
calculatedFrom [
    42 ]
    // 50% %s
    : float ,  3 // @lengthOf(
:packetx // c
,
} ,
zchar[ 00 ]	crc , repeat
char[ 1 ] roots`doc` ,// trailing space 
match float as Logon
{
7 :metadata,
    },@lengthOf(
    Logon )
    @tag(
    00 ) @tag(42 )
    match Logon as options1
{7 :MetaDataX 3
:// " ++ [128512]%N ++ runes_of_ascii " emoji
calculatedFrom ,10 :Pad // 50% %s
, [
    """ ++ [128512]%N ++ runes_of_ascii """ , ""// no comment""
]: packetx
,
[ 42
, ""packet"" , ""1""
,
""a\""b""
, 42 ]: Z9_ },
    float32// a // b
falsey //	t
`{ , }` ,
@calculatedFrom( ""CRC32"" )i64 As
    `doc`
    ,
}/// triple
packet	_x // " ++ [27880; 37322]%N ++ runes_of_ascii "
{
repeat
    //	t
    u {
    // " ++ [27880; 37322]%N ++ runes_of_ascii "
    repeat zchar calculatedFrom//	t
`a\` , leftPad A
`it's` , string leftPad @lengthOf(Pad )``, } ,
    }
// a // b
")).
Eval vm_compute in ("<<<M1417>>>" ++ check (runes_of_ascii "
// a // b
  packet

    rootA
    {@tag(

    0
)
string falsey @calculatedFrom(  ""// no comment"" 
)	,  u32
string_

,	}
	packet  Header	{ 
        //	t

	repeat 	 // c
      zchar[10	// " ++ [27880; 37322]%N ++ runes_of_ascii "
] 
Header`" ++ [28040; 24687; 31867; 22411]%N ++ runes_of_ascii "`
,}root
    packet 	 // trailing space 
		charz
    {
@tag(42
    )	f32	Z9_  // packet A { u8 x, }

  @calculatedFrom( ""a\""b"")  `it's`

    , @calculatedFrom(	""\" ++ [233]%N ++ runes_of_ascii """
	)match

    rootA  as
    rootA  {
    """ ++ [28040; 24687]%N ++ runes_of_ascii """:
//	t
  x	7//
	  :
    charz }	, // c
  int64
metadata @calculatedFrom(

    """ ++ [233]%N ++ runes_of_ascii "t" ++ [233]%N ++ runes_of_ascii """  )
    ,
	match  i8i8
    as
	i64_
    { 3  : Logon
	, [
	7, 
""" ++ [28040; 24687]%N ++ runes_of_ascii """
]: repeatCount
    // `tick` ""quote"" 'q'
,  ""\" ++ [233]%N ++ runes_of_ascii """
:msg_type  //
	,
} 
        //
		, @lengthOf(

    Logon

    )
repeat

    leftPad
    BodyLength,repeat //	t
uint8x `
`
	,
} ")).
Eval vm_compute in ("<<<M169>>>" ++ check (runes_of_ascii "MetaData
i8i8	{
char[// " ++ [128512]%N ++ runes_of_ascii " emoji
00 ] msg_type
`say ""hi""`  ,
} // " ++ [128512]%N ++ runes_of_ascii " emoji
MetaData// packet A { u8 x, }
charz
{ zchar[ 0
]
    options1 ,	}packet	MetaDataX
{ // packet A { u8 x, }
Header /// triple
u8x`// not a comment` ,
    x rootA , @lengthOf(falsey
    )
@lengthOf(
//x
// " ++ [27880; 37322]%N ++ runes_of_ascii "
i8i8
    )
    match MetaDataX as stringy { [// " ++ [128512]%N ++ runes_of_ascii " emoji
""" ++ [128512]%N ++ runes_of_ascii """ // @lengthOf(
, ""a\""b""  ] : i64_// c
,} , } MetaData
    // `tick` ""quote"" 'q'
    msg_type { string
// `tick` ""quote"" 'q'
// trailing space 
zchar `doc` ,
    //
    } MetaData leftPad{ uint8 x`crlf
line`
, i32 msg_type
// packet A { u8 x, }
//x
`// not a comment` ,
char[255] leftPad , // a // b
char[]
    u , //	t
} 	 ")).
Eval vm_compute in ("<<<M107>>>" ++ check (runes_of_ascii "  MetaData As { }
packet// 50% %s
rootA {
    zchar[ 4294967296	]  uint8x, @calculatedFrom( ""`tick`"") f64 asx	@calculatedFrom(""a\""b""
), @leftPad('\x00'
    // trailing space 
    )// @lengthOf(
@calculatedFrom(""1""	)
    @lengthOf( stringy // " ++ [128512]%N ++ runes_of_ascii " emoji
)repeat float falsey `say ""hi""` , repeat // @lengthOf(
i64 A  ,
    // a // b
    @leftPad // trailing space 
( ' ') @calculatedFrom( ""it's"" )
chars	{  repeat char[] rootA ,  } , } packet roots{ @calculatedFrom( ""x y"")
@lengthOf( crc ) u8 tag ,} MetaData
    body // trailing space 
{
T	msg_type , _x
Logon `two words`
,
    }
")).
Eval vm_compute in ("<<<M1848>>>" ++ check (runes_of_ascii "packet msg_type {
    @lengthOf(trueish)
    @calculatedFrom(""packet"")
    @rightPad()
    trueish chars,
}

root packet i64_ {
}

packet charz {
    // " ++ [128512]%N ++ runes_of_ascii " emoji
    repeat float64 u8x `{ , }`,
    roots @lengthOf(BodyLength) ``,
    repeat string Header,
    Z9_ @lengthOf(A),
    @rightPad()
    repeat len `" ++ [233]%N ++ runes_of_ascii "`,
    float64 Foo @lengthOf(Header),
    repeat char[0] charz `say ""hi""`,
    string a1,
    @leftPad('0')
    metadata {
        zchar[42] i8i8 @lengthOf(lengthOf),
        //x
        /// triple
    },
}

options {
}")).
Eval vm_compute in ("<<<M303>>>" ++ check (runes_of_ascii "
options
{  charz
    = false ; Z9_
    = ""\" ++ [233]%N ++ runes_of_ascii """ ;// c
} options { falsey
= char[] ;} packet metadata {
@tag(
    4294967296
    ) match int as
    float
{
[ 0 ,0123456789
,  42 ,7 ,""a\""b"" , 7 ]
: zchar
, ""1""  :options1
//
// " ++ [128512]%N ++ runes_of_ascii " emoji
,
    }, @tag(10 ) match msg_type
as Foo  { ""a	b"" : rootA , 65535
    : roots /// triple
, 00:// `tick` ""quote"" 'q'
trueish,""\" ++ [233]%N ++ runes_of_ascii """
    : MetaDataX,
//x
// 50% %s
00
    :Logon ,
} ,repeat len packetx
,
    @lengthOf(Foo ) len`two words`	, roots, } //x")).
Eval vm_compute in ("<<<M1641>>>" ++ check (runes_of_ascii "packet int
{ uint16 BodyLength

, 
zchar[255 ] charz 	 // @lengthOf(
    `100% of %d`
    , Logon
@lengthOf( MetaDataX)
,	}

packet	// " ++ [27880; 37322]%N ++ runes_of_ascii "
a1{

    match pack as // `tick` ""quote"" 'q'
    msg_type
	{ 10
:float
,""" ++ [233]%N ++ runes_of_ascii "t" ++ [233]%N ++ runes_of_ascii """ 
:
	charz
,
	4294967296 : 
Foo

    ,

""" ++ [233]%N ++ runes_of_ascii "t" ++ [233]%N ++ runes_of_ascii """ 
:	u128,	} ,
    repeat

Pad 
{ repeat Foo 
  //x
{ uint64 
    // `tick` ""quote"" 'q'
      Header,repeat

    roots  rootA 
`say ""hi""`, }
    ,
	}
,} 
packet
	Header{
    }
")).
Eval vm_compute in ("<<<M1384>>>" ++ check (runes_of_ascii "options {
    LittleEndian = false;
    StringPrefixLenType = u16;
    FixedStringPadFromLeft = true;
    FixedStringPadChar = '0';
}
packet Fill {
}
root packet Order {
    repeat Fill,
    char[] clOrdID,
    @rightPad('\x00') char[4] lastPx,
    char[] OrderId,
    int8 tag7,
    u8 f1,
    u16 count @lengthOf(Body),
    match f1 as Body {
        [159, 49] : Fill,
    },
    u16 Tail @calculatedFrom(""CRC32""),
}
")).
Eval vm_compute in ("<<<M1362>>>" ++ check (runes_of_ascii "options

    {
	LittleEndian
= true
	;StringPrefixLenType 
=u16  ;
	ArrayPrefixLenType=

u16

    ; 
FixedStringPadFromLeft
= true
;
FixedStringPadChar

    =  '0' ;

    }	packet	Leg { u16 Flags
, 
u8
price , 
} packet

    Quote
{

    uint16

count
	,
    InNote89

{	repeat  Leg, }

,} root
packet
Ack {  char[
	3

    ] price , u64 sym, 
zchar[
1 
]

Tail, }
")).
Eval vm_compute in ("<<<M1159>>>" ++ check (runes_of_ascii "// top
MetaData // c0
x // c1
{ // c2
f32a // c3
Pad // c4
`` // c5
, // c6
} // c7
packet // c8
leftPad // c9
{ // c10
repeat // c11
int64 // c12
crc // c13
, // c14
BodyLength // c15
{ // c16
uint8 // c17
pack // c18
`say ""hi""` // c19
, // c20
lengthOf // c21
@lengthOf( // c22
asx // c23
) // c24
`" ++ [28040; 24687; 31867; 22411]%N ++ runes_of_ascii "` // c25
, // c26
} // c27
, // c28
} // c29
")).
Eval vm_compute in ("<<<M1373>>>" ++ check (runes_of_ascii "options {
    StringPrefixLenType = u16;
    ArrayPrefixLenType = u64;
}
packet Order {
    float64 Ref,
    repeat i32 lastPx,
}
packet Fill {
    zchar[9] Ref,
    zchar[4] Px,
    Order,
    int8 count,
}
packet Cancel {
    i16 Side2,
    Order,
}
root packet Party {
    float64 Px,
    zchar[1] clOrdID,
}
")).
Eval vm_compute in ("<<<M340>>>" ++ check (runes_of_ascii "packet o {
    float64  zchar
@lengthOf(trueish ) // `tick` ""quote"" 'q'
, } packet packetx
    {  } root	packet trueish { char[1 ]Z9_ @lengthOf( body
    ) , @lengthOf(chars
)
    msg_type i64_ , u16
Logon ,
int64 Packet
    // `tick` ""quote"" 'q'
    , // packet A { u8 x, }
}
")).
Eval vm_compute in ("<<<M1465>>>" ++ check (runes_of_ascii "packet BodyLength {
}

MetaData Z9_ {
    // c
    Z9_ _x,
}

packet float {
    @tag(42)
    @calculatedFrom(""// no comment"")
    char[42] packetx `it's`,
}

MetaData body {
    uint16 zchar `" ++ [233]%N ++ runes_of_ascii "`,
    i32 Pad `" ++ [28040; 24687; 31867; 22411]%N ++ runes_of_ascii "`,
    i8 Header,
    u16 u128,
    i32 u,
}")).
Eval vm_compute in ("<<<M390>>>" ++ check (runes_of_ascii "4294967296
    asx { @calculatedFrom(
""""  ) @tag( 255 )repeat
// packet A { u8 x, }
// trailing space 
int16 u8x
,
@tag(
    //
    007 )
    @tag( 0
    /// triple
    ) @tag( 1) u
    @lengthOf( T ),
// `tick` ""quote"" 'q'
//x
} // " ++ [128512]%N ++ runes_of_ascii " emoji")).
Eval vm_compute in ("<<<M531>>>" ++ check (runes_of_ascii "packet
    asx { @calculatedFrom(
""""  ) @tag( 255 )repeat
// packet A { u8 x, }
// trailing space 
int16 u8x
,
@tag(
    //
    007 )
    @tag( 0" ++ [8232]%N ++ runes_of_ascii "
    /// triple
    ) @tag( 1) u
    @lengthOf( T ),
// `tick` ""quote"" 'q'
//x
} // " ++ [128512]%N ++ runes_of_ascii " emoji")).
Eval vm_compute in ("<<<M478>>>" ++ check (runes_of_ascii "packet
    asx { @calculatedFrom(
""""  ) @tag( 255 )repeat
// packet A { u8 x, }
// trailing space 
int16 u8x
,
@tag(
    //
    007 )
    @tag( 0
    /// triple
    @tag( ) 1) u
    @lengthOf( T ),
// `tick` ""quote"" 'q'
//x
} // " ++ [128512]%N ++ runes_of_ascii " emoji")).
Eval vm_compute in ("<<<M394>>>" ++ check (runes_of_ascii "packet
    { { @calculatedFrom(
""""  ) @tag( 255 )repeat
// packet A { u8 x, }
// trailing space 
int16 u8x
,
@tag(
    //
    007 )
    @tag( 0
    /// triple
    ) @tag( 1) u
    @lengthOf( T ),
// `tick` ""quote"" 'q'
//x
} // " ++ [128512]%N ++ runes_of_ascii " emoji")).
Eval vm_compute in ("<<<M206>>>" ++ check (runes_of_ascii "options
{ crc
    ='\x00' ; uint8x = // " ++ [27880; 37322]%N ++ runes_of_ascii "
""x y""; a1= """ ++ [28040; 24687]%N ++ runes_of_ascii """
o =
    '\x00'
// trailing space 
// trailing space 
charz = 4294967296 //
}
    options  {
    // " ++ [128512]%N ++ runes_of_ascii " emoji
    stringy
// `tick` ""quote"" 'q'
// 50% %s
= '0'; }
")).
Eval vm_compute in ("<<<M1973>>>" ++ check (runes_of_ascii "// top
options {
    // c1
}// c2

options {
    // c4
    MetaDataX = char;// c8
}// c9

MetaData Pad {
    // c12
    i8 metadata,// c15
    string stringy,// c18
    int8 As `{ , }`,// c22
}// c23")).
Eval vm_compute in ("<<<M505>>>" ++ check (runes_of_ascii "packet
    asx { @calculatedFrom(
""""  ) @tag( 255 )repeat
// packet A { u8 x, }
// trailing space 
int16 u8x
,
@tag(
    //
    007 )
    @tag( 0
    /// triple
    ) @tag( 1) u")).
Eval vm_compute in ("<<<M639>>>" ++ check (runes_of_ascii "MetaData u
    { } MetaData o
{ float uint8x
`100% of %d` ,repeatCount u8x, string_ leftPad
, i32
    `two words` , int64 x `two words` , calculatedFrom
stringy `a\` ,
}
")).
Eval vm_compute in ("<<<M557>>>" ++ check (runes_of_ascii "MetaData u
    { { } MetaData o
{ float uint8x
`100% of %d` ,repeatCount u8x, string_ leftPad
, i32
    Foo , int64 x `two words` , calculatedFrom
stringy `a\` ,
}
")).
Eval vm_compute in ("<<<M1653>>>" ++ check (runes_of_ascii "  packet A 
{
	match
k
as

    n  {
	[
    ""a"" , ""bb""
	, ""c c"" ,
	""d""

, 
""e""

, 
""f"" , ""g"",

    ""h""	, ""i""

,

""j""
	,	""k"", ""l"" ] 
:
	B

2 :

    C

    },}
")).
Eval vm_compute in ("<<<M668>>>" ++ check (runes_of_ascii "MetaData u
    { } MetaData o
{ float uint8x
`100% of %d` ,repeatCount u8x, string_ leftPad
, i32
    Foo , int64 x `two words` , stringy
calculatedFrom `a\` ,
}
")).
Eval vm_compute in ("<<<M689>>>" ++ check (runes_of_ascii "MetaData u
    { } MetaData o
{ float uint8x
`100% of %d` ,repeatCount u8x, string_ leftPad
, i32
    Foo , int64 x `two words` , calculatedFrom
stringy `a\` ,")).
Eval vm_compute in ("<<<M203>>>" ++ check (runes_of_ascii "options { Foo
    =true len = '0' ; metadata
=
    u32
;repeatCount =42
}
MetaData lengthOf {}
    options {options1
= zchar[
    0123456789  ] } // " ++ [27880; 37322]%N)).
Eval vm_compute in ("<<<M1765>>>" ++ check (runes_of_ascii "
options

    {  }options
{

    MetaDataX
=
char 
;  } MetaData 
Pad 
{ 
i8 metadata,
	string
stringy

    , int8	As // c
    	`{ , }`

,
}")).
Eval vm_compute in ("<<<M1277>>>" ++ check (runes_of_ascii "

  packet

    B { u8
    a ,
}root
packet
P { u8 
K,
	match
    K
    as
	Body{

1 :

B , } ,u16 L
    @lengthOf( 
Body  ) ,
}
")).
Eval vm_compute in ("<<<M1676>>>" ++ check (runes_of_ascii "packet A {
    u16 len @lengthOf(body) `tab
        	x`,
    u32 crc @calculatedFrom(""CRC32"") `tab
        	x`,
    string body,
}")).
Eval vm_compute in ("<<<M199>>>" ++ check (runes_of_ascii "MetaData matchKey { u8
T	, rootA _x	, falsey options1
`100% of %d` , zchar[ 7 ] msg_type
, zchar /// triple
charz ,
}")).
Eval vm_compute in ("<<<M1206>>>" ++ check (runes_of_ascii "options {
// c
} options { MetaDataX = char ; } MetaData Pad { i8 metadata , string stringy , int8 As `{ , }` , }")).
Eval vm_compute in ("<<<M1238>>>" ++ check (runes_of_ascii "options { } options { MetaDataX = char ; } MetaData Pad { i8 metadata , string stringy
// c
, int8 As `{ , }` , }")).
Eval vm_compute in ("<<<M374>>>" ++ check (runes_of_ascii "
packet options1{
repeat char[] A `" ++ [233]%N ++ runes_of_ascii "`
//x
// 50% %s
, float rootA
    ,  Foo ,
    } root packet Z9_  {
}
")).
Eval vm_compute in ("<<<M1580>>>" ++ check (runes_of_ascii "
// top
	options
	// c0
	{ 
	// c1
  A

// c2
		=
// c3
""// no comment""
    // c4
	  }
// c5
")).
Eval vm_compute in ("<<<M883>>>" ++ check (runes_of_ascii "packet A {
  match k as n {
    [""a"", 22, ""c c"", 4, ""e"", 66, ""g"", 8, ""i"", 10] : B
    2 : C
  },
}")).
Eval vm_compute in ("<<<M1293>>>" ++ check (runes_of_ascii "root packet

    P
{
    u16  a ,
u32
    Sum

    @calculatedFrom(
	""CRC32"" ) ,

    } ")).
Eval vm_compute in ("<<<M1727>>>" ++ check (runes_of_ascii "

  packet A{	// a
  @tag(

    1)  u8 x , // b

	// c
  @tag(
2	)
u8

    y , 
} ")).
Eval vm_compute in ("<<<M1257>>>" ++ check (runes_of_ascii "options {
    LittleEndian = true;
}
root packet P {
    repeat char cs,
    u8 x,
}
")).
Eval vm_compute in ("<<<M1847>>>" ++ check (runes_of_ascii "

  packet  _x
{	}
    root
	packet 
leftPad {	} 
options{Pad
=

    string;}

")).
Eval vm_compute in ("<<<M1430>>>" ++ check (runes_of_ascii "packet A {
    // a
    @tag(1)
    u8 x,// b
    // c
    @tag(2)
    u8 y,
}")).
Eval vm_compute in ("<<<M1941>>>" ++ check (runes_of_ascii "root packet
    P
    {
u16 a
,
	u32
	Sum @calculatedFrom(""CRC32""  )
, 
}")).
Eval vm_compute in ("<<<M1809>>>" ++ check (runes_of_ascii "
packet
	int	// 50% %s
{ Logon	@calculatedFrom( ""1""
)
,	} // 50% %s
")).
Eval vm_compute in ("<<<M1180>>>" ++ check (runes_of_ascii "// top
options // c0a
  // c0b
{ A
    // c2
= ""// no comment"" } ")).
Eval vm_compute in ("<<<M1121>>>" ++ check (runes_of_ascii "// top
MetaData
    // c0
tag
    // c1
{ // c2
}
    // c3
")).
Eval vm_compute in ("<<<M205>>>" ++ check (runes_of_ascii "
options { f32a =
true
    // " ++ [128512]%N ++ runes_of_ascii " emoji
    ; } // " ++ [128512]%N ++ runes_of_ascii " emoji")).
Eval vm_compute in ("<<<M1821>>>" ++ check (runes_of_ascii "options{

    A  =	// c
		""// no comment"" 
}
")).
Eval vm_compute in ("<<<M1444>>>" ++ check (runes_of_ascii "MetaData
float {  uint16

    float

, }")).
Eval vm_compute in ("<<<M768>>>" ++ check (runes_of_ascii "w<w-(B[D_CTb}.VTf6[j)R_7Mxw1`%hl?2D>/d")).
Eval vm_compute in ("<<<M1189>>>" ++ check (runes_of_ascii "options { A = // c
""// no comment"" }")).
Eval vm_compute in ("<<<M742>>>" ++ check (runes_of_ascii "i16 string match { MetaData uint8")).
Eval vm_compute in ("<<<M1764>>>" ++ check (runes_of_ascii "packet A {
    // a
    u8 x,
}")).
Eval vm_compute in ("<<<M759>>>" ++ check ([15]%N ++ runes_of_ascii "2	k" ++ [65533]%N ++ runes_of_ascii "p" ++ [65533; 65533]%N ++ runes_of_ascii "6" ++ [65533]%N ++ runes_of_ascii "f" ++ [65533]%N ++ runes_of_ascii "@""y" ++ [65533; 25; 65533; 65533]%N ++ runes_of_ascii "?" ++ [65533; 65533; 65533]%N ++ runes_of_ascii "Y" ++ [65533; 65533]%N ++ runes_of_ascii "#" ++ [65533]%N)).
Eval vm_compute in ("<<<M1103>>>" ++ check (runes_of_ascii "packet A { // a
 u8 x, }")).
Eval vm_compute in ("<<<M1088>>>" ++ check (runes_of_ascii "// a// bpacket A {}")).
Eval vm_compute in ("<<<M1020>>>" ++ check (runes_of_ascii "packet A {
}
// c" ++ [8192]%N)).
Eval vm_compute in ("<<<M727>>>" ++ check (runes_of_ascii "// only a comment")).
Eval vm_compute in ("<<<M1532>>>" ++ check (runes_of_ascii "MetaData tag {
}")).
Eval vm_compute in ("<<<M395>>>" ++ check (runes_of_ascii "packet")).
Eval vm_compute in ("<<<M726>>>" ++ check (runes_of_ascii "		")).
