From FP Require Import Lexer Parser ShowPT Digest Formatter.
From Coq Require Import String List NArith.
Import ListNotations.
Open Scope string_scope.
Set Printing Width 100000000.
Set Printing Depth 100000000.
Definition show_fres (r : fres) : string :=
  match r with
  | FOk s => "OK:" ++ sh_escaped s ""
  | FErr s => "ERR:" ++ sh_escaped s ""
  | FPanic p => "PANIC:" ++ p
  end.
Definition check (rs : list rune) : string := digest (show_fres (format_res rs)).
Definition full (rs : list rune) : string := show_fres (format_res rs).
Eval vm_compute in ("<<<M263>>>" ++ check (runes_of_ascii "
packet Z9_ //x
{ @calculatedFrom( ""1"" )
match
body as u8x{ [ 7 ] :
u ,
[7
,00, ""a\""b""
, """" , ""\n"" , 00
] : charz , 1	: // c
Packet
, """ ++ [28040; 24687]%N ++ runes_of_ascii """ :
f32a ,  00 : // trailing space 
len } ,@lengthOf(calculatedFrom )	MetaDataX
    , Packet	@lengthOf(
    int ) , repeat // `tick` ""quote"" 'q'
char[ 7 ]calculatedFrom, @calculatedFrom(""a\\"" ) zchar[ //
255 // " ++ [128512]%N ++ runes_of_ascii " emoji
] f32a @calculatedFrom( """ ++ [233]%N ++ runes_of_ascii "t" ++ [233]%N ++ runes_of_ascii """ ) ,	@calculatedFrom( ""a\""b"" // packet A { u8 x, }
)char[7
    //	t
    ] i8i8 @calculatedFrom(""a\\"") `crlf
line` ,zchar[
    0123456789	]
x `line1
line2`
,@leftPad () repeat
u64 stringy , @lengthOf( x	) repeat
body
{//	t
Z9_ {
repeat asx , repeat crc i64_ // " ++ [27880; 37322]%N ++ runes_of_ascii "
, repeat rootA { repeat rootA MetaDataX `line1
line2`
    // `tick` ""quote"" 'q'
    ,match
i64_ as
calculatedFrom {
    7
:
x[ 7 ] : stringy , ""1"": i8i8 , [
""1"" , 42 ,
// trailing space 
/// triple
""" ++ [233]%N ++ runes_of_ascii "t" ++ [233]%N ++ runes_of_ascii """ , 10 ,
255 , 0 , 10 ]
: u ,
""x y""
:
    i8i8 }
// `tick` ""quote"" 'q'
//x
,uint64 _x `
` ,char[ 0 ] i64_ @calculatedFrom( ""CRC32""
)
    , }, x_y_z {
char[] T
// a // b
// @lengthOf(
,} ,} ,repeat  u64 Foo `a\`,
    uint8
uint8x,
match
//	t
// trailing space 
roots
as chars {1
    : _x ""a\""b"" :uint8x, 42 : metadata // " ++ [128512]%N ++ runes_of_ascii " emoji
, // `tick` ""quote"" 'q'
[// @lengthOf(
""\n"" ,
255]
: zchar
[ """ ++ [233]%N ++ runes_of_ascii "t" ++ [233]%N ++ runes_of_ascii """ ,3
, 4294967296 ,// trailing space 
0123456789 , ""x y"" ] : metadata[ // c
""it's"" , ""// no comment""
]  :Z9_
    , }
,	}
    , } // a // b
MetaData rootA	{ char[ 4294967296 ] msg_type,// @lengthOf(
char[]  u128, uint64 a1 , int8 crc , Pad
    msg_type `doc`
,
}
//	t
/// triple
packet x_y_z
    {@lengthOf( crc) match packetx as f32a	{ 0123456789:A
,	00 :	u // @lengthOf(
}, }
")).
Eval vm_compute in ("<<<M225>>>" ++ check (runes_of_ascii "packet T
    // " ++ [128512]%N ++ runes_of_ascii " emoji
    { match repeatCount as
Packet {
    ""packet"" : msg_type , 00 :
    Foo
    ,""" ++ [128512]%N ++ runes_of_ascii """ : trueish, """": repeatCount
    [ // packet A { u8 x, }
4294967296 , 65535 ] :	u ,	}, @calculatedFrom( ""a\\"" )
    float32 len @lengthOf(// " ++ [128512]%N ++ runes_of_ascii " emoji
string_
    ), stringy Pad, roots{ repeat x_y_z
    `// not a comment`
, T
`" ++ [233]%N ++ runes_of_ascii "` , }, @tag(
007 )  _x
{// " ++ [128512]%N ++ runes_of_ascii " emoji
char[] body
@calculatedFrom( """ ++ [233]%N ++ runes_of_ascii "t" ++ [233]%N ++ runes_of_ascii """
    //	t
    ) ,repeat Pad// packet A { u8 x, }
``
// c
/// triple
, }
    //x
    , match	u as packetx{// `tick` ""quote"" 'q'
[ ""// no comment"" ,
007]	: T
, [  ""\" ++ [233]%N ++ runes_of_ascii """// " ++ [27880; 37322]%N ++ runes_of_ascii "
] :// trailing space 
u8x } , @rightPad( ) int8 _x , @lengthOf(
A	)match/// triple
crc
as metadata { [ 00,
    //	t
    ""a\""b"" ,3
    , 1
    ,
10 ] : Packet , //	t
[
4294967296	, ""abc"" , """"] // @lengthOf(
:
// `tick` ""quote"" 'q'
// " ++ [27880; 37322]%N ++ runes_of_ascii "
a1 , """ ++ [28040; 24687]%N ++ runes_of_ascii """ // `tick` ""quote"" 'q'
:
    repeatCount  , } , }options { }MetaData Header
{  trueish Pad ,
    } MetaData Z9_ { char[]
metadata ,
// " ++ [128512]%N ++ runes_of_ascii " emoji
// packet A { u8 x, }
Header A
`doc`
// a // b
// a // b
, //x
uint32 // " ++ [27880; 37322]%N ++ runes_of_ascii "
packetx ,
int16 uint8x
    //
    , Header// @lengthOf(
leftPad
    , // packet A { u8 x, }
}
// trailing space 
")).
Eval vm_compute in ("<<<M1723>>>" ++ check (runes_of_ascii "

  options // @lengthOf(

{zchar
=

    char[]
Z9_ =	'0'  ; 
} options	{ asx
=
char[]

}  root
packet
    leftPad 
{ T

@lengthOf(
f32a  //
) , }	//
  root 
        //x

	// @lengthOf(
    packet
calculatedFrom
{ u

    {//	t
char[] // packet A { u8 x, }
T
    `" ++ [233]%N ++ runes_of_ascii "`, match
    stringy	/// triple
  as//	t
  	chars 
{ 
[ 
0123456789  ]
:
T,
    // `tick` ""quote"" 'q'
		// " ++ [27880; 37322]%N ++ runes_of_ascii "
  }
    ,
uint16
    a1

    @lengthOf(x
) ,
	string

chars
    `two words` ,
} ,@calculatedFrom(
    ""x y""
)
char[]
	    // " ++ [27880; 37322]%N ++ runes_of_ascii "
    // " ++ [128512]%N ++ runes_of_ascii " emoji
    body
    @lengthOf(
lengthOf 
)
    /// triple
    ,
@lengthOf(
	A

)
	rootA
,@lengthOf(
i64_
) // packet A { u8 x, }
	repeat
f32a  {	lengthOf 
// " ++ [128512]%N ++ runes_of_ascii " emoji
    charz// a // b
		`" ++ [28040; 24687; 31867; 22411]%N ++ runes_of_ascii "` ,
	} 
    // packet A { u8 x, }
  ,

    match
	tag
as 
      //x
  //	t
		T
{	[ 3] 
:
falsey ,
    }
, 
zchar[

00
] 
charz@lengthOf( Pad

)

    ,

    @tag( 3 )
lengthOf
{
i16 
As , 
}
    ,
}

root
packet body

{
	}")).
Eval vm_compute in ("<<<M1678>>>" ++ check (runes_of_ascii "options {
    StringPrefixLenType = u64;
    ArrayPrefixLenType = u32;
    FixedStringPadFromLeft = false;
}

packet Party {
    zchar[7] OrderId,
    InTail6 {
        repeat char[1] msgKind,
        char[3] Tail,
        char[3] Flags,
        i16 tag7,
    },
    @rightPad('0')
    char[12] clOrdID,
}

packet Quote {
    @leftPad('0')
    char[11] price,
    repeat InCount7 {
        i32 x,
        Party,
        u8 Ref,
        u8 tag7,
    },
    char[] seqNo,
    Party,
}

packet Logon {
    @rightPad('\x00')
    char[5] Note,
    i16 sym,
    InPrice72 {
        char[9] Ref,
        zchar[1] venue,
    },
    char[] clOrdID,
}

root packet Reject {
    repeat Logon,
    @leftPad(' ')
    char[4] seqNo,
    zchar[5] Acct,
    u32 x,
    u16 f1 @lengthOf(Body),
    match x as Body {
        [169, 74] : Quote,
        45 : Party,
        7 : Logon,
    },
}")).
Eval vm_compute in ("<<<M228>>>" ++ check (runes_of_ascii "packet
//
// " ++ [27880; 37322]%N ++ runes_of_ascii "
BodyLength  {
repeat
    // @lengthOf(
    zchar[	255]tag `crlf
line` , } MetaData BodyLength	{
char[ 65535] //	t
packetx `" ++ [28040; 24687; 31867; 22411]%N ++ runes_of_ascii "` , } options
    {
    metadata =3; // trailing space 
} packet Packet
{ o { uint16	Logon
    , } , @leftPad (  )char[ 0123456789 ]
a1 `" ++ [28040; 24687; 31867; 22411]%N ++ runes_of_ascii "` // a // b
,
    repeat string
lengthOf
    `{ , }`	,stringy crc
,@rightPad (
' ' ) u32	MetaDataX
    ,
@rightPad('0' ) tag	{repeat f64 tag `u8 x,`
, }
    //	t
    , char[
    00 ] uint8x `` , match leftPad  as Header {""" ++ [233]%N ++ runes_of_ascii "t" ++ [233]%N ++ runes_of_ascii """  : Foo
, [	""\" ++ [233]%N ++ runes_of_ascii """
, 007
,00 , 10, ""\" ++ [233]%N ++ runes_of_ascii """ ]: crc
, [ 1 ,007 , ""a\\""
    ,
""packet""
    ]: //	t
len // packet A { u8 x, }
, 10 : MetaDataX
//x
// " ++ [128512]%N ++ runes_of_ascii " emoji
,  }
//	t
/// triple
, } packet
    i64_{
@rightPad	('\x00'
)
@leftPad(
) i8 body@calculatedFrom(""" ++ [233]%N ++ runes_of_ascii "t" ++ [233]%N ++ runes_of_ascii """) `it's` , }
// @lengthOf(
")).
Eval vm_compute in ("<<<M1346>>>" ++ check (runes_of_ascii "options
{ StringPrefixLenType	= u16	;	ArrayPrefixLenType =
u32; FixedStringPadFromLeft = 
true;  FixedStringPadChar 
=	'0'
    ;

    } packet Cancel{
    }

packet
Party
{

    } packet	Logon { } packet 
Ack
{ }
packet 
Logout
{ repeat
InSym87 {InClordid94

{ string clOrdID	,
    } 
, 
string
    Px , i16  Qty,	repeat  InCount71	{repeat
    Cancel 
,
uint16	Tail
, char[
	2

]
x
    ,repeat string Ref

,

}

, Cancel
	,
}
    , } 
root
    packet
    Order  {
    repeat
string 
tag7 
,

@leftPad

( ' ' ) char[3  ]
	Px
	, u8	Qty ,
    match  Qty

    as
Body
    {
	[ 
28

    ,	62 ]
    : 
Logon

    ,148 : Ack, 88:Party	, 184
: 
Cancel	, }
    , u16	Note@calculatedFrom(
	""CRC32"" )

,  }
")).
Eval vm_compute in ("<<<M1421>>>" ++ check (runes_of_ascii "packet tag {
    @calculatedFrom(""x y"")
    lengthOf {
        options1 `
        `,
    },
    @tag(7)
    int {
        //x
        // " ++ [27880; 37322]%N ++ runes_of_ascii "
        char[007] calculatedFrom @lengthOf(metadata),
        tag @lengthOf(falsey),
        f32 calculatedFrom `{ , }`,
        i8i8 {
            string i64_ @lengthOf(asx) `it's`,
            u @calculatedFrom(""\n""),
        },
    },
    @calculatedFrom(""abc"")
    @leftPad(' ')
    uint64 calculatedFrom,// " ++ [27880; 37322]%N ++ runes_of_ascii "
}

packet o {
    Header,
    @lengthOf(i8i8)
    float32 Pad,
    char[42] leftPad @calculatedFrom(""""),
    @tag(255)
    body u,
}

packet lengthOf {
    @tag(255)
    char[0123456789] o `
    `,
}")).
Eval vm_compute in ("<<<M1294>>>" ++ check (runes_of_ascii "// top
packet // c0a
  // c0b
A // c1
{
    // c2
u8
    // c3
a // c4a
  // c4b
, } // c6a
  // c6b
packet // c7a
  // c7b
B // c8a
  // c8b
{ u16 // c10
b // c11a
  // c11b
,
    // c12
}
    // c13
root // c14
packet P // c16
{ // c17a
  // c17b
u8 K1 // c19
, // c20
u8 // c21a
  // c21b
K2 // c22a
  // c22b
, // c23a
  // c23b
match // c24a
  // c24b
K1 as
    // c26
M1 // c27a
  // c27b
{ // c28a
  // c28b
1
    // c29
:
    // c30
A // c31
, // c32a
  // c32b
} , match K2
    // c36
as
    // c37
M2 // c38
{ 1 : // c41a
  // c41b
B
    // c42
, } ,
    // c45
} // c46
")).
Eval vm_compute in ("<<<M1300>>>" ++ check (runes_of_ascii "// top
packet // c0
A { u8
    // c3
a , // c5a
  // c5b
} // c6
packet
    // c7
B { // c9a
  // c9b
u16 // c10a
  // c10b
b // c11
, // c12
}
    // c13
root packet // c15a
  // c15b
P { // c17
u8 // c18
K // c19
, // c20
match // c21
K // c22
as // c23
M // c24a
  // c24b
{
    // c25
[ // c26
1
    // c27
,
    // c28
2 // c29a
  // c29b
] // c30a
  // c30b
: // c31a
  // c31b
A // c32a
  // c32b
, 3
    // c34
: // c35
B // c36a
  // c36b
, 7 // c38
: // c39a
  // c39b
A // c40
, // c41
} ,
    // c43
}
    // c44
")).
Eval vm_compute in ("<<<M33>>>" ++ check (runes_of_ascii "packet
int {zchar[ 007 ] metadata ,i16	matchKey,
@rightPad('0')
@lengthOf(
    metadata) repeat zchar[
    10 ]
//
// " ++ [128512]%N ++ runes_of_ascii " emoji
charz
    // trailing space 
    ,	} packet int { @tag( 65535 )
u32 x @calculatedFrom(
    ""x y""// " ++ [27880; 37322]%N ++ runes_of_ascii "
),match pack as MetaDataX
{
    [	""abc"" ,
    // " ++ [27880; 37322]%N ++ runes_of_ascii "
    0123456789 , ""`tick`"" ] :
body}	, @lengthOf( zchar ) match leftPad as u8x{
    10:  u8x ,
[
007
    // " ++ [128512]%N ++ runes_of_ascii " emoji
    , 255
    ]
    :
    chars	"""" :
    body ,42 : trueish , }, }")).
Eval vm_compute in ("<<<M1750>>>" ++ check (runes_of_ascii "
options
    { u

= 7
        // " ++ [27880; 37322]%N ++ runes_of_ascii "
roots
    =

zchar[
    65535

]
msg_type=""" ++ [233]%N ++ runes_of_ascii "t" ++ [233]%N ++ runes_of_ascii """  ;x
=  false
}MetaData  string_

{  char[	// trailing space 
    42
        //x
  // " ++ [128512]%N ++ runes_of_ascii " emoji

	]
    i8i8  `" ++ [28040; 24687; 31867; 22411]%N ++ runes_of_ascii "`
, u8  x_y_z ,
packetx

    lengthOf
`` 
// " ++ [27880; 37322]%N ++ runes_of_ascii "
  	,T Header

    `line1
line2`, char[]// " ++ [27880; 37322]%N ++ runes_of_ascii "
  	u8x
	`two words`	, 
}packet
    float //x
    { 
calculatedFrom
, @rightPad  ('0'  ) char[3  ]
    u128 ,
}
")).
Eval vm_compute in ("<<<M1625>>>" ++ check (runes_of_ascii "// top
options {
    // c1
    uint8x = 007;
    // c5
    lengthOf = i8;
}

// c10
packet i64_ {
    @calculatedFrom(""1"")
    @tag(3)
    @lengthOf(rootA)
    // c22
    repeat int8 Packet `u8 x,`,
}

// c28
root packet stringy {
    @rightPad(' ')
    // c36
    repeat char[10] repeatCount,
    @tag(255)
    // c45
    float64 msg_type @calculatedFrom(""packet""),
}")).
Eval vm_compute in ("<<<M323>>>" ++ check (runes_of_ascii "options{ }
MetaData  string_ // `tick` ""quote"" 'q'
{ u32
matchKey `u8 x,`,
    string  MetaDataX , uint8
Logon, uint64 options1
, char[ 00 ] len
// `tick` ""quote"" 'q'
// trailing space 
`tab	here` , u8
options1
, }// a // b
packet a1 { chars ,
char[]
i64_ @lengthOf(
    // " ++ [27880; 37322]%N ++ runes_of_ascii "
    stringy
) ,char T,repeat i8 charz
`a\`
,
}
")).
Eval vm_compute in ("<<<M205>>>" ++ check (runes_of_ascii "  root packet
    chars{ string T `say ""hi""`
, @tag(
    1  ) body { repeat o { f64 Packet @calculatedFrom( ""a\\"") ,  } , }	,
} packet pack
// @lengthOf(
// a // b
{
@tag( 4294967296 // `tick` ""quote"" 'q'
) repeat char[]
    Logon
    // trailing space 
    , repeat
BodyLength len ,
    // c
    }")).
Eval vm_compute in ("<<<M1756>>>" ++ check (runes_of_ascii "options {
    LittleEndian = false;
    StringPrefixLenType = u16;
}

packet Heartbeat {
    @rightPad('0')
    char[7] seqNo,
    uint64 Tail,
    i16 Flags,
    u16 msgKind,
}

root packet Reject {
    zchar[3] tag7,
    repeat Heartbeat,
    repeat string clOrdID,
}")).
Eval vm_compute in ("<<<M1682>>>" ++ check (runes_of_ascii "packet zchar {
    zchar[42] uint8x,
    match A as As {
        0 : int,
    },
    @tag(7)
    @calculatedFrom(""packet"")
    match i64_ as metadata {
        ""CRC32"" : A,
    },
}

root packet uint8x {
    char[00] crc,// " ++ [128512]%N ++ runes_of_ascii " emoji
}")).
Eval vm_compute in ("<<<M207>>>" ++ check (runes_of_ascii "
MetaData chars { } options
{ As
= true ;As // `tick` ""quote"" 'q'
= false; stringy
= true} packet repeatCount  {string
    float@lengthOf(
    matchKey )
// packet A { u8 x, }
//x
`say ""hi""` ,
}
")).
Eval vm_compute in ("<<<M1455>>>" ++ check (runes_of_ascii "options {
    Z9_ = ""packet"";
    float = false;
    A = ' '
}

MetaData pack {
    zchar[3] leftPad,
    zchar falsey `it's`,
    char[] repeatCount,
    char[65535] Z9_,
}")).
Eval vm_compute in ("<<<M145>>>" ++ check (runes_of_ascii "MetaData //x
Packet
/// triple
// " ++ [27880; 37322]%N ++ runes_of_ascii "
{	u
/// triple
// c
lengthOf `say ""hi""`
    , } MetaData metadata {
    crc chars `crlf
line` , asx f32a /// triple
,
}

")).
Eval vm_compute in ("<<<M1936>>>" ++ check (runes_of_ascii "// top
	  packet// c0
body	// c1
	{	// c2
    	i32 	 // c3
    	f32a 	 // c4
    	`{ , }` 	 // c5

	,  // c6

}// c7

options  // c8
{	// c9
  }	// c10
")).
Eval vm_compute in ("<<<M516>>>" ++ check (runes_of_ascii "packet uint8x
{ match pack
    as msg_type	{
    0123456789 :	float
}
,
} packet //	t
a1
    { } options {packetx
    = '\x00'	; u128= = ""a	b""  ; }
")).
Eval vm_compute in ("<<<M422>>>" ++ check (runes_of_ascii "packet uint8x
{ match pack
    as {	msg_type
    0123456789 :	float
}
,
} packet //	t
a1
    { } options {packetx
    = '\x00'	; u128= ""a	b""  ; }
")).
Eval vm_compute in ("<<<M435>>>" ++ check (runes_of_ascii "packet uint8x
{ match pack
    as msg_type	{
    0123456789 	float
}
,
} packet //	t
a1
    { } options {packetx
    = '\x00'	; u128= ""a	b""  ; }
")).
Eval vm_compute in ("<<<M1896>>>" ++ check (runes_of_ascii "packet uint8x {
    match pack as msg_type {
        ""`tick`"" : float,
    },
}

packet a1 {
}

options {
    packetx = '\x00';
    u128 = ""a	b"";
}")).
Eval vm_compute in ("<<<M660>>>" ++ check (runes_of_ascii "/""/ @lengthOf(
packet i8i8 { u128 o , }
options { MetaDataX = true;
    BodyLength =""packet"" x_y_z= 007
crc //x
= ""abc"" ;
    msg_type =
i16 }")).
Eval vm_compute in ("<<<M420>>>" ++ check (runes_of_ascii "packet uint8x
{ match pack
    as 	{
    0123456789 :	float
}
,
} packet //	t
a1
    { } options {packetx
    = '\x00'	; u128= ""a	b""  ; }
")).
Eval vm_compute in ("<<<M1669>>>" ++ check (runes_of_ascii "packet A {
    match k as n {
        [
            22, 4, 66, 8, ""a"",
            ""c c"", ""e"", ""g""
        ] : B,
        2 : C,
    },
}")).
Eval vm_compute in ("<<<M1638>>>" ++ check (runes_of_ascii "// top
  root
	    // c0
  packet// c1a
      // c1b

	P
    // c2
  {  // c3

	string
	s 	 // c5a
		// c5b
, 
      // c6
}
")).
Eval vm_compute in ("<<<M1748>>>" ++ check (runes_of_ascii "packet
A
{ match k as

n {
    [
""a""

    ,

22

    ,""c c""
, 4
,""e""
,

    66 ] :
B ,
    2  : C	}

,
    }
")).
Eval vm_compute in ("<<<M1164>>>" ++ check (runes_of_ascii "MetaData leftPad { chars MetaDataX , } packet repeatCount { char[
// c
255 ] uint8x `" ++ [233]%N ++ runes_of_ascii "` , } MetaData pack { As Foo , }")).
Eval vm_compute in ("<<<M499>>>" ++ check (runes_of_ascii "packet uint8x
{ match pack
    as msg_type	{
    0123456789 :	float
}
,
} packet //	t
a1
    { } options {packetx")).
Eval vm_compute in ("<<<M1722>>>" ++ check (runes_of_ascii "options {
    LittleEndian = true;
}

root packet P {
    repeat char cs,// c14a
    // c14b
    u8 x,// c17
}")).
Eval vm_compute in ("<<<M897>>>" ++ check (runes_of_ascii "packet A {
  match k as n {
    [""a"", 22, ""c c"", 4, ""e"", 66, ""g"", 8, ""i"", 10, ""k""] : B,
    2 : C
  },
}")).
Eval vm_compute in ("<<<M641>>>" ++ check (runes_of_ascii "
packet
    asx {match u128 as lengthOf
{
//	t
// `tick` ""quote"" 'q'
255 : x ,
    } @lengthOf ,	}")).
Eval vm_compute in ("<<<M1652>>>" ++ check (runes_of_ascii "packet B {
    u8 a,
    string s,
}

root packet P {
    u16 L @lengthOf(B),
    B,
    u8 t,
}")).
Eval vm_compute in ("<<<M717>>>" ++ check (runes_of_ascii "// @lengthOf(
packet i8i8 { u128 o , }
options { MetaDataX = true;
    BodyLength =""packet"" ")).
Eval vm_compute in ("<<<M640>>>" ++ check (runes_of_ascii "
packet
    asx {match u128 as lengthOf
{
//	t
// `tick` ""quote"" 'q'
$255 : x ,
    } ,	}")).
Eval vm_compute in ("<<<M602>>>" ++ check (runes_of_ascii "
packet
    asx {match u128 as lengthOf
{
//	t
// `tick` ""quote"" 'q'
255 :  ,
    } ,	}")).
Eval vm_compute in ("<<<M860>>>" ++ check (runes_of_ascii "packet A {
  match k as n {
    [1, 22, ""c c"", 4, 5, ""f"", 7, 8] : B,
    2 : C
  },
}")).
Eval vm_compute in ("<<<M852>>>" ++ check (runes_of_ascii "packet A {
  match k as n {
    [1, 22, 007, 4, 5, 66, 7, 8] : B,
    2 : C
  },
}")).
Eval vm_compute in ("<<<M840>>>" ++ check (runes_of_ascii "packet A {
  match k as n {
    [1, 22, 007, 4, 5, 66, 7] : B
    2 : C
  },
}")).
Eval vm_compute in ("<<<M1249>>>" ++ check (runes_of_ascii "packet Inner {
    u8 a,
}
root packet P {
    Inner ref_obj,
    u8 x,
}
")).
Eval vm_compute in ("<<<M1516>>>" ++ check (runes_of_ascii "  options
{	asx
=	""1""//	t
    	Pad=
	0
    stringy
=	'\x00'
    ;  }
")).
Eval vm_compute in ("<<<M1290>>>" ++ check (runes_of_ascii "root packet P {
    u8 s_u8,
    repeat u8 r_u8,
    u16 b_len,
}
")).
Eval vm_compute in ("<<<M1894>>>" ++ check (runes_of_ascii "packet

A{

B b
`
x` , B `
x` ,
    repeat 
B bs 
`
x`  , }
")).
Eval vm_compute in ("<<<M799>>>" ++ check (runes_of_ascii "packet A { Inner { match k as n { [1,22,007] : B, }, }, }")).
Eval vm_compute in ("<<<M1197>>>" ++ check (runes_of_ascii "// c
packet body { i32 f32a `{ , }` , } options { }")).
Eval vm_compute in ("<<<M251>>>" ++ check (runes_of_ascii "
root packet
chars
{
    i16 leftPad
    , }
")).
Eval vm_compute in ("<<<M1744>>>" ++ check (runes_of_ascii "options {
    a1 = ""packet"";
}// @lengthOf(")).
Eval vm_compute in ("<<<M1918>>>" ++ check (runes_of_ascii "packet A {
    u8 x `tab
        	x`,
}")).
Eval vm_compute in ("<<<M1870>>>" ++ check (runes_of_ascii "MetaData M {
}

MetaData N {
}// d")).
Eval vm_compute in ("<<<M983>>>" ++ check (runes_of_ascii "packet A {
 u8 x `d" ++ [12288]%N ++ runes_of_ascii "`, // c" ++ [12288]%N ++ runes_of_ascii "
}")).
Eval vm_compute in ("<<<M581>>>" ++ check (runes_of_ascii "
packet
    asx {match u128")).
Eval vm_compute in ("<<<M268>>>" ++ check (runes_of_ascii " // packet A { u8 x, }")).
Eval vm_compute in ("<<<M1873>>>" ++ check (runes_of_ascii "root packet chars {
}")).
Eval vm_compute in ("<<<M977>>>" ++ check (runes_of_ascii "// c 
packet A {
}")).
Eval vm_compute in ("<<<M1059>>>" ++ check (runes_of_ascii "packet A {
}// c x")).
Eval vm_compute in ("<<<M1227>>>" ++ check (runes_of_ascii "packet
// c
x { }")).
Eval vm_compute in ("<<<M1521>>>" ++ check (runes_of_ascii "// @lengthOf(")).
Eval vm_compute in ("<<<M1010>>>" ++ check (runes_of_ascii "// c" ++ [8232]%N)).
Eval vm_compute in ("<<<M734>>>" ++ check ([65279]%N)).
