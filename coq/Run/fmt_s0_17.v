From FP Require Import Lexer Parser ShowPT Digest Formatter.
From Coq Require Import String List NArith.
Import ListNotations.
Open Scope string_scope.
Set Printing Width 100000000.
Set Printing Depth 100000000.
Definition show_fres (r : fres) : string :=
  match r with
  | FOk s => "OK:" ++ sh_escaped s ""
  | FErr s => "ERR:" ++ sh_escaped s ""
  | FPanic p => "PANIC:" ++ p
  end.
Definition check (rs : list rune) : string := digest (show_fres (format_res rs)).
Definition full (rs : list rune) : string := show_fres (format_res rs).
Eval vm_compute in ("<<<M5>>>" ++ check (runes_of_ascii "MetaData  asx {char[] MetaDataX ,
lengthOf Z9_	, crc
    Foo ,char[ 4294967296]
BodyLength , Foo leftPad `doc`, tag // a // b
u128 , } root packet
    stringy { // trailing space 
match Header as
    repeatCount	{ [ ""{,}""] :
Header
/// triple
//
,255 :repeatCount , 00 :pack, 1 : trueish
    , 7
    : A }
    ,
T
    {Z9_
`
` ,
} ,
    int16 o
@calculatedFrom(
""it's""
) `line1
line2`	, match zchar
as As{ ""CRC32"" :	a1, 42: Header [ 10
    //
    ] : zchar // trailing space 
,
    }// " ++ [128512]%N ++ runes_of_ascii " emoji
, @tag( 42 )repeat i64_{
    // c
    char[00 ] _x `{ , }` ,
}
,repeat //x
char[] uint8x
`crlf
line` ,@leftPad
(	'\x00'
    ) @tag( 7 )
    int32
// a // b
// @lengthOf(
repeatCount
    @calculatedFrom(
""x y"" )
`// not a comment` , u32 zchar
    `
` , repeat stringy { i8i8 lengthOf
, } , // packet A { u8 x, }
@calculatedFrom(  ""abc"" ) @lengthOf( tag ) @lengthOf( /// triple
rootA )  char[3	] // c
rootA`" ++ [233]%N ++ runes_of_ascii "` ,// c
}MetaData crc
{
float32
asx `" ++ [233]%N ++ runes_of_ascii "` ,	string i64_// " ++ [128512]%N ++ runes_of_ascii " emoji
,
    }
root packet Packet
    //
    {charz @lengthOf( zchar) ,	f32
    f32a `{ , }` // a // b
, i64 matchKey @lengthOf( leftPad )
    , string trueish, @leftPad (  '0')
    // trailing space 
    tag@lengthOf( // a // b
string_ ) `doc` , match stringy
// @lengthOf(
// @lengthOf(
as calculatedFrom
    { [
0123456789 ]: repeatCount
//	t
//
,} ,// trailing space 
char[
3]
Header ,
int64 MetaDataX
,	@leftPad( ) len { packetx @lengthOf(chars ) `` ,
    }, @rightPad ( '0'
    )  x_y_z
,
} options{ rootA
// packet A { u8 x, }
//x
= '0'
; Foo =char
    ;A
    = zchar[ 0123456789 ]
// " ++ [27880; 37322]%N ++ runes_of_ascii "
//x
;packetx = """ ++ [233]%N ++ runes_of_ascii "t" ++ [233]%N ++ runes_of_ascii """
float = true } //x")).
Eval vm_compute in ("<<<M1492>>>" ++ check (runes_of_ascii "options {
    // c1
    FixedStringPadFromLeft = true;
    FixedStringPadChar = '0';// c9a
}// c10

packet Leg {
    repeat InSym93 {
        zchar[3] Acct,// c21a
        // c21b
        string Side2,// c24a
        // c24b
        i32 Flags,
        // c27
        f32 Note,
        i32 msgKind,
    },// c35
    f64 Note,
    // c38
    uint16 Px,// c41
}

packet Quote {
    zchar[2] OrderId,
}

// c51
packet Ack {
    // c54
    repeat string lastPx,
    zchar[4] price,// c63
    uint32 OrderId,
    Quote,
    int8 Acct,
}

packet Fill {
    // c75
    repeat Leg,// c78a
    @rightPad('0')
    // c82a
    // c82b
    char[11] Note,
    // c87
    f64 Px,// c90
    @rightPad('\x00')
    // c94
    char[5] Flags,
    zchar[9] x,// c104
    string msgKind,// c107
}

// c108
root packet Order {
    Leg,// c114
    repeat Ack,// c117
    @rightPad('\x00')
    // c121
    char[3] Side2,// c126a
    // c126b
    repeat char[1] seqNo,
    u16 clOrdID,
    match clOrdID as Body {
        // c140
        198 : Leg,
        23 : Quote,
        // c148a
        // c148b
        13 : Ack,
        159 : Fill,
    },
    u32 venue @calculatedFrom(""CRC32""),// c164
}// c165a")).
Eval vm_compute in ("<<<M1608>>>" ++ check (runes_of_ascii "

  // packet A { u8 x, }
    root	packet
leftPad {

    @calculatedFrom(
//x
  ""`tick`""

)

    @rightPad 
( ) 
    // " ++ [128512]%N ++ runes_of_ascii " emoji
	string_
// `tick` ""quote"" 'q'
    // a // b
	@lengthOf(  tag)
    `a\`
,  i64 T`" ++ [233]%N ++ runes_of_ascii "`

,//	t
} packet	Pad 	 // @lengthOf(
{  @lengthOf( float
)

    char[]
	x
@calculatedFrom( ""a\""b"")
    ,// trailing space 
	  @tag( 
0 // " ++ [128512]%N ++ runes_of_ascii " emoji
    ) // " ++ [27880; 37322]%N ++ runes_of_ascii "
		repeatCount 	 // packet A { u8 x, }
,
repeat 
rootA 
{_x , 
zchar[ 
3 ]roots 
    /// triple
  `crlf
line`
	, },
	/// triple
// a // b
	match

metadata

as  BodyLength {[ 
      // c
	  10

,
    10  ,  ""a\""b"" 
,
	"""" 
,
	""\n""
    ,

    ""a\\"" ,
	4294967296
]
    :

    u	, 
} , repeat
i64_
Packet `" ++ [28040; 24687; 31867; 22411]%N ++ runes_of_ascii "`
	, 
@tag(// packet A { u8 x, }
    65535	)

char[] float 
`it's`, char[ 7 ]

    x
    @calculatedFrom(

""{,}"")
    ,  }

    MetaData leftPad	// a // b
  {

body
rootA`crlf
line`,

int64
	msg_type
	`doc` ,  // @lengthOf(
  }
")).
Eval vm_compute in ("<<<M221>>>" ++ check (runes_of_ascii "packet u128
{ @rightPad (
' ' )
i64_ { Logon ,char[ 4294967296
    // @lengthOf(
    ] MetaDataX@calculatedFrom( """ ++ [28040; 24687]%N ++ runes_of_ascii """ ) , } // " ++ [27880; 37322]%N ++ runes_of_ascii "
,	rootA{ zchar[
    // " ++ [128512]%N ++ runes_of_ascii " emoji
    1 // a // b
]rootA ,
asx { rootA @calculatedFrom( ""abc""  ), repeat uint16 x_y_z
,
    // packet A { u8 x, }
    zchar[
42
    ] stringy ,body , }, }, @leftPad
( '\x00' ) char[ 3]Z9_ @lengthOf(  roots )
    // trailing space 
    `" ++ [233]%N ++ runes_of_ascii "`	, @lengthOf( charz	) @leftPad ( '0')@calculatedFrom(  ""a\""b"" )
    zchar[//	t
7 ]
    // @lengthOf(
    a1 @calculatedFrom( ""\" ++ [233]%N ++ runes_of_ascii """
) //
`// not a comment` ,
@lengthOf( lengthOf ) repeat
i16
chars
,int
{
    //	t
    zchar[
    1 ] calculatedFrom`line1
line2`,Packet `" ++ [28040; 24687; 31867; 22411]%N ++ runes_of_ascii "` , } ,// " ++ [128512]%N ++ runes_of_ascii " emoji
@rightPad ( '\x00'  )
    zchar[255 // `tick` ""quote"" 'q'
]
    repeatCount @calculatedFrom(""\" ++ [233]%N ++ runes_of_ascii """ ) , repeat
    char[] Pad
`a\` ,  @lengthOf( pack )	i8 int , }")).
Eval vm_compute in ("<<<M1577>>>" ++ check (runes_of_ascii "packet calculatedFrom {
    // a // b
    string charz `two words`,
}

packet stringy {
    @lengthOf(msg_type)
    crc,
    @leftPad('0')
    crc @lengthOf(u128),
    @leftPad(' ')
    match x_y_z as rootA {
        [3, 255] : int,
        ""1"" : o,
        // a // b
        10 : tag,
        // c
        10 : Header,
        3 : a1,
        """ ++ [128512]%N ++ runes_of_ascii """ : packetx,
    },
    match o as x {
        ""a	b"" : u8x,
    },
    @rightPad()
    repeat u packetx,
    T,
    repeat Logon,
    T {
        repeat x_y_z,// a // b
        i8 crc `two words`,
        char[] calculatedFrom @calculatedFrom(""x y""),
    },
    roots calculatedFrom,
    @lengthOf(asx)
    repeat x_y_z {
        T matchKey,
    },
}

options {
    float = char[1];
    msg_type = i8
    x = zchar[7];
    f32a = ""\n""
}")).
Eval vm_compute in ("<<<M369>>>" ++ check (runes_of_ascii "root
packet leftPad { @calculatedFrom( """ ++ [128512]%N ++ runes_of_ascii """) int64 len
`{ , }` , } packet
    u128
    { zchar[ 65535 ] chars @calculatedFrom( ""\" ++ [233]%N ++ runes_of_ascii """
    ), @lengthOf(  int
// packet A { u8 x, }
// @lengthOf(
) i64_ , crc { match	Z9_ as Logon
    {
10 : int ,
[ 0 ]
: u8x ,
// trailing space 
//x
42 :
    trueish , [ ""\" ++ [233]%N ++ runes_of_ascii """ , 4294967296
    ]
:Z9_
    ""\n""	: u128 ,	} ,
    repeat string_ uint8x, i8i8 , match u as body
{ 4294967296:
// " ++ [27880; 37322]%N ++ runes_of_ascii "
/// triple
Z9_, 10
:	Z9_,
[ """ ++ [128512]%N ++ runes_of_ascii """
    ,
    ""x y"" ]
: pack ,
    } , }
, @tag( // " ++ [128512]%N ++ runes_of_ascii " emoji
0123456789 )
    @lengthOf( calculatedFrom) @leftPad ( '\x00' // c
) zchar[ 3 ]
    T ,
match A  as
    leftPad{ [ """ ++ [28040; 24687]%N ++ runes_of_ascii """ ] :i64_""// no comment"" :
    string_
    ,
} , } // trailing space ")).
Eval vm_compute in ("<<<M122>>>" ++ check (runes_of_ascii "
packet u128  { // trailing space 
string  Header `say ""hi""` , repeat crc
f32a,
    char[ 10
    ] _x	,	@calculatedFrom( ""x y""	) repeat
    //
    charz	{
    Logon @lengthOf(T) `crlf
line`
, repeat char[ // trailing space 
0123456789 ]Z9_
    `crlf
line` ,
    } ,
    match Packet
    as
// " ++ [128512]%N ++ runes_of_ascii " emoji
// `tick` ""quote"" 'q'
float // a // b
{
    1
:  lengthOf }  ,  MetaDataX , match x as
u8x { 10 :crc } , } root packet // `tick` ""quote"" 'q'
Header // a // b
{ @calculatedFrom( ""{,}"") a1
    {  char[
    // packet A { u8 x, }
    007 ] pack ,stringy //x
zchar
    , repeat
char[]
    // " ++ [128512]%N ++ runes_of_ascii " emoji
    o `it's`	, } , }")).
Eval vm_compute in ("<<<M327>>>" ++ check (runes_of_ascii "root packet asx
    { tag body `u8 x,` , }
packet string_ {
    @lengthOf(
len // a // b
)repeat	zchar[ 42 ] u8x,zchar[ 0 ] asx
    , } packet
// " ++ [128512]%N ++ runes_of_ascii " emoji
// " ++ [27880; 37322]%N ++ runes_of_ascii "
int {repeat crc
    { zchar float , match
    i8i8 as rootA//x
{ 255 : lengthOf , 1 :lengthOf
,3
    :
roots , 3 : uint8x ,0
    :As , ""`tick`"" :	repeatCount , }  , repeat
/// triple
//
char[]
falsey ,
    u64 lengthOf ,} , @lengthOf( crc ) lengthOf i64_ , leftPad
`crlf
line`, }
    root	packet zchar{ f32 _x @calculatedFrom( ""a\\"" ), }	MetaData chars // trailing space 
{//
}")).
Eval vm_compute in ("<<<M1337>>>" ++ check (runes_of_ascii "options {
    ArrayPrefixLenType = u64;
    FixedStringPadFromLeft = true;
    FixedStringPadChar = '0';
}
packet Quote {
}
packet Ack {
    repeat InNote66 {
        u8 pad0,
    },
}
packet Reject {
}
root packet Order {
    Quote,
    repeat Reject,
    string venue,
    string seqNo,
    uint32 Ref,
    u16 lastPx,
    u32 clOrdID @lengthOf(Body),
    match lastPx as Body {
        190 : Reject,
        186 : Quote,
        22 : Ack,
    },
    u16 Flags @calculatedFrom(""CRC32""),
}
")).
Eval vm_compute in ("<<<M180>>>" ++ check (runes_of_ascii "options
    // @lengthOf(
    {}
packet charz { @rightPad (  ' ') @calculatedFrom(
    ""a\\"" ) repeat int	crc `two words` , string stringy
    @calculatedFrom( ""a	b""
    // " ++ [128512]%N ++ runes_of_ascii " emoji
    )`// not a comment`	,//
char i8i8,
}  MetaData	crc {// `tick` ""quote"" 'q'
crc i64_`{ , }`
,
    // `tick` ""quote"" 'q'
    i32// c
u128 ,// packet A { u8 x, }
BodyLength Header
    ,char[ 0123456789]
/// triple
//
Packet `u8 x,`
, uint8 repeatCount , //	t
}")).
Eval vm_compute in ("<<<M1657>>>" ++ check (runes_of_ascii "// top
options {
    // c1a
    // c1b
    LittleEndian = false;// c5a
    // c5b
    StringPrefixLenType = u16;
}// c10

packet Heartbeat {
    @rightPad('0')
    char[7] seqNo,// c22a
    // c22b
    uint64 Tail,// c25a
    // c25b
    i16 Flags,// c28a
    // c28b
    u16 msgKind,
}// c32a

// c32b
root packet Reject {
    zchar[3] tag7,// c41
    repeat Heartbeat,
    repeat string clOrdID,
}")).
Eval vm_compute in ("<<<M74>>>" ++ check (runes_of_ascii "options{ u = 7
    // " ++ [27880; 37322]%N ++ runes_of_ascii "
    roots
=zchar[
65535
    ]
msg_type = """ ++ [233]%N ++ runes_of_ascii "t" ++ [233]%N ++ runes_of_ascii """
; x =false
    } MetaData string_ { char[ // trailing space 
42
//x
// " ++ [128512]%N ++ runes_of_ascii " emoji
]
i8i8 `" ++ [28040; 24687; 31867; 22411]%N ++ runes_of_ascii "`	, u8
    x_y_z
, packetx lengthOf``
    // " ++ [27880; 37322]%N ++ runes_of_ascii "
    ,
T Header `line1
line2` ,
char[] // " ++ [27880; 37322]%N ++ runes_of_ascii "
u8x `two words` ,}packet
float //x
{
    calculatedFrom
    ,
@rightPad ( '0'
) char[
    3
] u128 , } 	 ")).
Eval vm_compute in ("<<<M30>>>" ++ check (runes_of_ascii "packet
repeatCount
    {@calculatedFrom(	""abc"" ) zchar[
    // @lengthOf(
    0
] // `tick` ""quote"" 'q'
MetaDataX  `
`	, string_
@calculatedFrom( ""1""
    ) ,	match string_
    as msg_type{ [// a // b
65535	,// a // b
""a	b""
    , 7
    ,	255 ]:
matchKey , 10 :
    options1 , 3 :Logon
    , } ,
    // " ++ [27880; 37322]%N ++ runes_of_ascii "
    packetx `a\` ,}
")).
Eval vm_compute in ("<<<M370>>>" ++ check (runes_of_ascii "  root packet trueish // " ++ [128512]%N ++ runes_of_ascii " emoji
{ char[] MetaDataX , @leftPad (
    // trailing space 
    '0' )match float as
//x
// trailing space 
crc { 0123456789 :// " ++ [27880; 37322]%N ++ runes_of_ascii "
chars	, ""{,}"" : i8i8,
}
, f32a
    // " ++ [128512]%N ++ runes_of_ascii " emoji
    f32a `tab	here` ,// " ++ [128512]%N ++ runes_of_ascii " emoji
@lengthOf( Foo )
    Packet@calculatedFrom( """ ++ [28040; 24687]%N ++ runes_of_ascii """ ) `it's` , }
")).
Eval vm_compute in ("<<<M1405>>>" ++ check (runes_of_ascii "

  packet

P1{
    u8

    a , }packet	P2 {

    P1 ,	}

packet P3 
{
    P2, P1,	}

    packet  P4

    {
	repeat
	P3 
,P2
,}
root
packet 
P5	{
    P4

,

    P3 , P1
, 
u8

K
,

match K
    as Body	{

4

: P4
,
3
: P3
, 
2 : P2
, 1 
:
    P1
,
}
	, }")).
Eval vm_compute in ("<<<M267>>>" ++ check (runes_of_ascii "packet trueish{
@leftPad (// @lengthOf(
'0'  ) @tag(  3/// triple
) @tag(
7 ) repeat
//x
// @lengthOf(
matchKey
{ u32 u,
}  , @lengthOf( chars
) @calculatedFrom(
""a	b"") @tag( 0123456789
    )zchar[255 ]Pad ,  } root
    packet u { }
")).
Eval vm_compute in ("<<<M318>>>" ++ check (runes_of_ascii "options {Z9_ =// trailing space 
""packet"" ;float = false
; A =
' ' }
    // c
    MetaData pack
{ zchar[
3] leftPad
,zchar
    falsey `it's` , char[] repeatCount ,char[ 65535 // " ++ [128512]%N ++ runes_of_ascii " emoji
] Z9_, }
//	t
")).
Eval vm_compute in ("<<<M1281>>>" ++ check (runes_of_ascii "// top
root // c0a
  // c0b
packet P {
    // c3
u16
    // c4
a
    // c5
,
    // c6
u32 // c7a
  // c7b
Sum // c8
@calculatedFrom( // c9a
  // c9b
""CRC32"" ) , } // c13
")).
Eval vm_compute in ("<<<M355>>>" ++ check (runes_of_ascii "options  { As = true
    MetaDataX =true	}	packet A { repeat calculatedFrom `say ""hi""`
    ,} MetaData crc { u crc ,
    uint32 body , i16 stringy
`u8 x,`
, }
")).
Eval vm_compute in ("<<<M1818>>>" ++ check (runes_of_ascii "
packet

A
	{ match

    k
    as  n

{
[ ""a""
,

    ""bb"" ,
007  ,	""d""
    ,
""e""
,
    66  ,
""g"" ,  ""h"" 
,
9, 
""j""

,

    ""k""
]
	:B,
	2 : 
C
}
,
}")).
Eval vm_compute in ("<<<M488>>>" ++ check (runes_of_ascii "packet uint8x
{ match pack
    as msg_type	{
    0123456789 :	float
}
,
} packet //	t
a1
    { } options i8 packetx
    = '\x00'	; u128= ""a	b""  ; }
")).
Eval vm_compute in ("<<<M402>>>" ++ check (runes_of_ascii "packet uint8x
match { pack
    as msg_type	{
    0123456789 :	float
}
,
} packet //	t
a1
    { } options {packetx
    = '\x00'	; u128= ""a	b""  ; }
")).
Eval vm_compute in ("<<<M1459>>>" ++ check (runes_of_ascii "

  MetaData leftPad
{chars 
MetaDataX	,
}  packet repeatCount	{char[

    255]
uint8x`" ++ [233]%N ++ runes_of_ascii "`

,
    }
    MetaData
	pack  {	// c
As

    Foo
, 
}

")).
Eval vm_compute in ("<<<M394>>>" ++ check (runes_of_ascii "u32 uint8x
{ match pack
    as msg_type	{
    0123456789 :	float
}
,
} packet //	t
a1
    { } options {packetx
    = '\x00'	; u128= ""a	b""  ; }
")).
Eval vm_compute in ("<<<M1503>>>" ++ check (runes_of_ascii "packet
u128 	 //x
	  { 
@calculatedFrom( ""x y""
)  // `tick` ""quote"" 'q'
      @rightPad
(
' ' ) char[ 42
	]
Header  @calculatedFrom(

""abc""),}
")).
Eval vm_compute in ("<<<M721>>>" ++ check (runes_of_ascii "// @lengthOf(
packet i8i8 { u128 o , }
options { MetaDataX = true;
    BodyLength =""packet"" x_y_z= 007
crc //x
= ""abc"" msg_type
    ; =
i16 }")).
Eval vm_compute in ("<<<M669>>>" ++ check (runes_of_ascii "// @lengthOf(
packet i8i8 {  o , }
options { MetaDataX = true;
    BodyLength =""packet"" x_y_z= 007
crc //x
= ""abc"" ;
    msg_type =
i16 }")).
Eval vm_compute in ("<<<M1270>>>" ++ check (runes_of_ascii "options {
    LittleEndian = true;
}
packet B {
    u8 a,
    string s,
}
root packet P {
    u16 L @lengthOf(B),
    B,
    u8 t,
}
")).
Eval vm_compute in ("<<<M343>>>" ++ check (runes_of_ascii "packet Header { repeat char[  0123456789 ]BodyLength`" ++ [28040; 24687; 31867; 22411]%N ++ runes_of_ascii "`/// triple
, zchar[ 3
    ] chars
    ,// trailing space 
A, } //")).
Eval vm_compute in ("<<<M1148>>>" ++ check (runes_of_ascii "MetaData leftPad {
// c
chars MetaDataX , } packet repeatCount { char[ 255 ] uint8x `" ++ [233]%N ++ runes_of_ascii "` , } MetaData pack { As Foo , }")).
Eval vm_compute in ("<<<M1180>>>" ++ check (runes_of_ascii "MetaData leftPad { chars MetaDataX , } packet repeatCount { char[ 255 ] uint8x `" ++ [233]%N ++ runes_of_ascii "` , } MetaData pack
// c
{ As Foo , }")).
Eval vm_compute in ("<<<M239>>>" ++ check (runes_of_ascii "options { lengthOf =3
trueish
// packet A { u8 x, }
// trailing space 
=
    true
; calculatedFrom =
007;} 	 ")).
Eval vm_compute in ("<<<M142>>>" ++ check (runes_of_ascii "packet
len
    // " ++ [128512]%N ++ runes_of_ascii " emoji
    { int64 a1	@lengthOf(x_y_z )	, }
// c
// trailing space 
packet x_y_z { }

")).
Eval vm_compute in ("<<<M671>>>" ++ check (runes_of_ascii "// @lengthOf(
packet i8i8 { u128 o , }
options { MetaDataX = true;
    BodyLength =""packet"" x_y_z= 0")).
Eval vm_compute in ("<<<M883>>>" ++ check (runes_of_ascii "packet A {
  match k as n {
    [1, ""bb"", 007, ""d"", 5, ""f"", 7, ""h"", 9, ""j""] : B
    2 : C
  },
}")).
Eval vm_compute in ("<<<M580>>>" ++ check (runes_of_ascii "
packet
    asx {match u128 char[ lengthOf
{
//	t
// `tick` ""quote"" 'q'
255 : x ,
    } ,	}")).
Eval vm_compute in ("<<<M632>>>" ++ check (runes_of_ascii "
packet
    asx {match u128 a|s lengthOf
{
//	t
// `tick` ""quote"" 'q'
255 : x ,
    } ,	}")).
Eval vm_compute in ("<<<M575>>>" ++ check (runes_of_ascii "
packet
    asx {match u64 as lengthOf
{
//	t
// `tick` ""quote"" 'q'
255 : x ,
    } ,	}")).
Eval vm_compute in ("<<<M1579>>>" ++ check (runes_of_ascii "
packet
    i64_{
    @tag(	0123456789
    )
	repeat
    u16

    stringy
    ,

}

")).
Eval vm_compute in ("<<<M815>>>" ++ check (runes_of_ascii "packet A {
  match k as n {
    [""a"", ""bb"", ""c c"", ""d"", ""e""] : B,
    2 : C
  },
}")).
Eval vm_compute in ("<<<M819>>>" ++ check (runes_of_ascii "packet A {
  match k as n {
    [""a"", 22, ""c c"", 4, ""e""] : B,
    2 : C
  },
}")).
Eval vm_compute in ("<<<M1691>>>" ++ check (runes_of_ascii "options {
    charz = ""1""
    _x = """ ++ [128512]%N ++ runes_of_ascii """
    u = string;
    stringy = """ ++ [28040; 24687]%N ++ runes_of_ascii """
}")).
Eval vm_compute in ("<<<M793>>>" ++ check (runes_of_ascii "packet A {
  match k as n {
    [""a"", 22, ""c c""] : B,
    2 : C
  },
}")).
Eval vm_compute in ("<<<M924>>>" ++ check (runes_of_ascii "packet A {
    B b `a
b`,
    B `a
b`,
    repeat B bs `a
b`,
}")).
Eval vm_compute in ("<<<M785>>>" ++ check (runes_of_ascii "packet A {
  match k as n {
    [""a"", 22] : B
    2 : C
  },
}")).
Eval vm_compute in ("<<<M1638>>>" ++ check (runes_of_ascii "MetaData M {
    u8 x `x
        `,
    T t `x
        `,
}")).
Eval vm_compute in ("<<<M1078>>>" ++ check (runes_of_ascii "// a
MetaData M {} // b
// c
MetaData N {} // d
// e")).
Eval vm_compute in ("<<<M777>>>" ++ check (runes_of_ascii "packet A { Inner { match k as n { [1] : B, }, }, }")).
Eval vm_compute in ("<<<M434>>>" ++ check (runes_of_ascii "packet uint8x
{ match pack
    as msg_type	{")).
Eval vm_compute in ("<<<M1240>>>" ++ check (runes_of_ascii "root packet P {
    char c,
    u8 x,
}
")).
Eval vm_compute in ("<<<M928>>>" ++ check (runes_of_ascii "root packet A {
    u8 x `a
b`,
}")).
Eval vm_compute in ("<<<M1721>>>" ++ check (runes_of_ascii "options {
    u8x = ""packet"";
}")).
Eval vm_compute in ("<<<M1917>>>" ++ check (runes_of_ascii "// c
packet asx {
}/// triple")).
Eval vm_compute in ("<<<M1817>>>" ++ check (runes_of_ascii "
packet  A 
{	} 	 // c" ++ [8287]%N ++ runes_of_ascii "
")).
Eval vm_compute in ("<<<M1106>>>" ++ check (runes_of_ascii "MetaData
// c
tag { }")).
Eval vm_compute in ("<<<M1135>>>" ++ check (runes_of_ascii "MetaData u {
// c
}")).
Eval vm_compute in ("<<<M1039>>>" ++ check (runes_of_ascii "packet A {
}// c 	")).
Eval vm_compute in ("<<<M1034>>>" ++ check (runes_of_ascii "packet A {
}// c" ++ [12]%N)).
Eval vm_compute in ("<<<M99>>>" ++ check (runes_of_ascii "
 // " ++ [128512]%N ++ runes_of_ascii " emoji")).
Eval vm_compute in ("<<<M1010>>>" ++ check (runes_of_ascii "// c" ++ [8232]%N)).
