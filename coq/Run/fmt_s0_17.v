From FP Require Import Lexer Parser ShowPT Digest Formatter.
From Coq Require Import String List NArith.
Import ListNotations.
Open Scope string_scope.
Set Printing Width 100000000.
Set Printing Depth 100000000.
Definition show_fres (r : fres) : string :=
  match r with
  | FOk s => "OK:" ++ sh_escaped s ""
  | FErr s => "ERR:" ++ sh_escaped s ""
  | FPanic p => "PANIC:" ++ p
  end.
Definition check (rs : list rune) : string := digest (show_fres (format_res rs)).
Definition full (rs : list rune) : string := show_fres (format_res rs).
Eval vm_compute in ("<<<M218>>>" ++ check (runes_of_ascii "packet rootA
    {Header { repeat i64 int ,
char[]x	@lengthOf(
metadata
    ) , }
,@leftPad (// a // b
'\x00'
    /// triple
    )a1 string_ , @tag( 0 ) char[]
    pack @lengthOf( uint8x
), @calculatedFrom(""a	b"" )
// " ++ [128512]%N ++ runes_of_ascii " emoji
//x
f64
string_
    , char[] packetx ,
}
packet  repeatCount	{@rightPad(	)
falsey A
    `" ++ [233]%N ++ runes_of_ascii "`,// packet A { u8 x, }
repeat _x {
    u8x
, f32a {char[ 7 ] Header
    // `tick` ""quote"" 'q'
    @lengthOf( i8i8 )
`" ++ [233]%N ++ runes_of_ascii "` ,
    // trailing space 
    } , Header Pad , u8x Logon
`100% of %d`, }  , repeat string o , int16 zchar@calculatedFrom(// a // b
""CRC32"" )	`two words`, @tag( 4294967296 )chars { Pad
packetx`two words` , uint32 stringy@lengthOf( x_y_z ) ``	,	}
    ,	repeat Header{
repeat char[ // c
4294967296
] Header ,	trueish As , //x
body ,
u8 msg_type `tab	here` , } , // a // b
f64
    u8x
`two words`,  repeat len
    lengthOf,
    } options/// triple
{
rootA
=
'0' i64_
    =/// triple
zchar[ 0123456789] ; } packet msg_type
    { x @lengthOf( uint8x) ,@tag( 00 ) char[] calculatedFrom	,
    repeat Z9_
{ repeat float64 Pad
    //x
    , } ,}// c
root
    packet calculatedFrom{ zchar[
1
    ]
    f32a, repeat
    uint8x {
match crc  as u8x{0 : zchar , [
65535 ,
0
, ""CRC32""  ,	4294967296 ,
42, ""\" ++ [233]%N ++ runes_of_ascii """] :chars, ""`tick`"" :
pack , 255
// " ++ [128512]%N ++ runes_of_ascii " emoji
//	t
:Pad, }
    ,
    string a1 `it's`
,
tag
{ a1
    , //
match BodyLength as //x
options1
{
    ""packet""
: Z9_ } , MetaDataX@calculatedFrom( """ ++ [28040; 24687]%N ++ runes_of_ascii """
    ) // packet A { u8 x, }
,
tag
Pad
// a // b
// 50% %s
, },
    }  ,
@tag(
255
)zchar[0123456789
    ]o //x
,  int16 Logon , @calculatedFrom( """ ++ [128512]%N ++ runes_of_ascii """
)
char[ 0 ] metadata
`it's`
    , }
")).
Eval vm_compute in ("<<<M1725>>>" ++ check (runes_of_ascii "// @lengthOf(
MetaData BodyLength {
    u8x u128 `a\`,
}

packet stringy {
}

packet a1 {
    i8 f32a `
        `,
    repeat i64 len,
    @calculatedFrom(""\" ++ [233]%N ++ runes_of_ascii """)
    string leftPad `line1
        line2`,
    match a1 as float {
        [007, 3] : repeatCount,
        3 : MetaDataX,
        ""CRC32"" : u128,
        [""a\""b"", ""// no comment""] : roots,
        ""\" ++ [233]%N ++ runes_of_ascii """ : A,
    },
    zchar[42] Pad,/// triple
    @calculatedFrom(""" ++ [233]%N ++ runes_of_ascii "t" ++ [233]%N ++ runes_of_ascii """)
    // `tick` ""quote"" 'q'
    match chars as string_ {
        3 : options1,
    },
    uint32 packetx ``,
    @tag(42)
    @tag(1)
    /// triple
    @calculatedFrom(""" ++ [128512]%N ++ runes_of_ascii """)
    _x `// not a comment`,
}

root packet repeatCount {
    @leftPad(
        )
    char[0] x_y_z @calculatedFrom(""1""),
    @rightPad( )
    char[] int,
    f64 asx,
    repeat Pad,
    match i64_ as roots {
        [""1"", ""packet""] : a1,
        ""`tick`"" : trueish,
        [
            3, ""\n"", ""`tick`"", ""it's"", 10,
            ""a\""b"", ""CRC32""
        ] : As,
        [10, 10] : options1,
        ""CRC32"" : a1,
        65535 : u,
        // c
    },
    @calculatedFrom(""x y"")
    @tag(255)
    @tag(1)
    // c
    zchar[1] crc `
        `,
    repeat u16 tag `crlf
        line`,
    @leftPad(' ')
    roots @calculatedFrom(""""),
}")).
Eval vm_compute in ("<<<M347>>>" ++ check (runes_of_ascii "
options
{} MetaData f32a
{
// packet A { u8 x, }
// 50% %s
uint32 u128//
`" ++ [28040; 24687; 31867; 22411]%N ++ runes_of_ascii "` ,
// " ++ [27880; 37322]%N ++ runes_of_ascii "
// a // b
zchar[ 0 ]
    //	t
    o
    , char[
    0 ]float,
    msg_type msg_type , } packet // a // b
x_y_z { // a // b
repeat T
    { match
    msg_type as
packetx {// a // b
""packet"" :
falsey 42:	a1,} , int o , char[// c
42	]i64_ `100% of %d`, repeatCount	@calculatedFrom( ""it's"" // a // b
),
// trailing space 
// " ++ [27880; 37322]%N ++ runes_of_ascii "
}
,  @tag( //
0 ) // " ++ [27880; 37322]%N ++ runes_of_ascii "
falsey @lengthOf(BodyLength
)
//	t
// c
, @leftPad
    // packet A { u8 x, }
    () @calculatedFrom( ""1"" ) @lengthOf( // " ++ [128512]%N ++ runes_of_ascii " emoji
int )
    match trueish as body{ [ 007 ,
7 //
, ""abc"",
""x y""
, 00
    ,
    ""// no comment""
    ,255 ,
1
    ]
: body,} , @lengthOf( Pad
    ) metadata	@calculatedFrom(	""it's""
) , @leftPad ( )
//
/// triple
@calculatedFrom(
""" ++ [233]%N ++ runes_of_ascii "t" ++ [233]%N ++ runes_of_ascii """ // 50% %s
)char // @lengthOf(
falsey	`{ , }` , char[ 007 ]
metadata @lengthOf(chars ) , @rightPad ( '0'  ) u8 roots @calculatedFrom( ""packet"" )
    // @lengthOf(
    ,
//x
//x
}")).
Eval vm_compute in ("<<<M1361>>>" ++ check (runes_of_ascii "// top
options
    // c0
{ LittleEndian // c2a
  // c2b
= // c3
true // c4
;
    // c5
StringPrefixLenType =
    // c7
u16 // c8
; // c9a
  // c9b
ArrayPrefixLenType = u16 // c12a
  // c12b
;
    // c13
FixedStringPadFromLeft // c14
= // c15a
  // c15b
true
    // c16
; // c17a
  // c17b
FixedStringPadChar = // c19
'0' // c20
; // c21
}
    // c22
packet
    // c23
Leg { // c25a
  // c25b
u16 // c26
Flags // c27
,
    // c28
u8 price , } // c32
packet
    // c33
Quote // c34a
  // c34b
{ uint16
    // c36
count
    // c37
, // c38
InNote89 // c39a
  // c39b
{ repeat Leg // c42a
  // c42b
, // c43a
  // c43b
}
    // c44
, } root // c47
packet // c48a
  // c48b
Ack // c49a
  // c49b
{
    // c50
char[ 3 ]
    // c53
price // c54a
  // c54b
, // c55
u64 sym ,
    // c58
zchar[ // c59
1 // c60a
  // c60b
] // c61
Tail // c62a
  // c62b
, // c63
} // c64a
  // c64b
")).
Eval vm_compute in ("<<<M116>>>" ++ check (runes_of_ascii "packet crc {uint16
    // " ++ [128512]%N ++ runes_of_ascii " emoji
    MetaDataX @calculatedFrom( ""{,}""
)	`two words`
, @tag( 3
    //x
    )repeat roots { repeat string	f32a ,	} , @tag(	42 )
char[]//
a1  `" ++ [28040; 24687; 31867; 22411]%N ++ runes_of_ascii "` ,@calculatedFrom(// a // b
""packet"" // trailing space 
) i16
    // trailing space 
    float
    `tab	here` , match metadata as Logon	{
    """"
    :u , 42: MetaDataX
255:
roots,[ 3 ,10
//
// `tick` ""quote"" 'q'
]: _x 4294967296 :
chars
10 // " ++ [128512]%N ++ runes_of_ascii " emoji
: uint8x , }
,
@lengthOf(  trueish )
    repeat char[// 50% %s
007] roots ,}  options { roots  = int32 ; } root packet Logon
    { // packet A { u8 x, }
@leftPad
( '\x00')asx @calculatedFrom(
    ""// no comment"" ) `{ , }`
    , }
MetaData
    Packet {
    i32
// " ++ [128512]%N ++ runes_of_ascii " emoji
//
trueish `100% of %d`, }")).
Eval vm_compute in ("<<<M1952>>>" ++ check (runes_of_ascii "  packet 
msg_type 
{

    @lengthOf( trueish ) @calculatedFrom( 	 //	t

  ""packet""
    )
    @rightPad (
    ) trueish
chars 

    // c
    	, }root	packet
	i64_  { }	packet

charz	{// " ++ [128512]%N ++ runes_of_ascii " emoji
  repeat float64 	 // @lengthOf(
  u8x
`{ , }`

    ,

roots
@lengthOf(
	BodyLength
)
`` ,
	repeat string Header
    //x
  ,
Z9_

@lengthOf(A 
) 
, @rightPad ( 
) repeat
len

`" ++ [233]%N ++ runes_of_ascii "`
	, float64
    Foo

@lengthOf(

    Header
    )

    ,

    repeat

char[
0 ] charz  // c

	`say ""hi""`,
	string

a1
	, 
@leftPad
    (	'0'
)
    metadata	{  zchar[
    42] i8i8	@lengthOf( lengthOf)	,  
      //x
    /// triple
	}
,  }
    options {
	}

")).
Eval vm_compute in ("<<<M1803>>>" ++ check (runes_of_ascii "  MetaData

T{ char[
	0123456789
    ]

rootA `line1
line2` ,
	i32 Logon

,
    rootA
asx ,

} 
root	/// triple
  packet
Header
{
uint32

len  @lengthOf( u
	)
    `
`

    , repeat

char	MetaDataX/// triple
    `" ++ [28040; 24687; 31867; 22411]%N ++ runes_of_ascii "` 
, uint8x	@lengthOf(
	zchar) // @lengthOf(
`u8 x,`  
  // " ++ [27880; 37322]%N ++ runes_of_ascii "

// packet A { u8 x, }
  ,uint8 Z9_,  @lengthOf(
u128
	)
    @lengthOf( MetaDataX ) @tag(0123456789

)
    Logon	@lengthOf(
        /// triple
    body
	)

,}
options
{	Z9_

=

uint32  ;
options1

    = '\x00'	}options  { Foo

    =	""// no comment"" 
;	}
	packet float 
{  }
")).
Eval vm_compute in ("<<<M1386>>>" ++ check (runes_of_ascii "options

    {
LittleEndian = false

    ;
	StringPrefixLenType =

u16
;FixedStringPadFromLeft =	true

    ;	FixedStringPadChar  = 
'0' ; } packet

Fill 
{
	}

    root
    packet

Order	{
repeat

Fill  , 
char[]clOrdID  ,
    @rightPad
    ('\x00'	)

    char[4

    ]

lastPx
, char[] 
OrderId	, int8 tag7

    ,u8 f1
, u16 count

    @lengthOf( Body
    ) ,match
f1

as
Body

    {
	[159
	, 
49	]:
    Fill

,
    }

    ,  u16  Tail  @calculatedFrom(
""CRC32""

    ), 
}")).
Eval vm_compute in ("<<<M135>>>" ++ check (runes_of_ascii "packet	repeatCount {
@tag(
7 )
    match
T as
    i64_ {
""" ++ [233]%N ++ runes_of_ascii "t" ++ [233]%N ++ runes_of_ascii """:/// triple
body,
    }
,@lengthOf( crc ) float64 body  `u8 x,` , repeat // a // b
rootA //	t
{  int16 x_y_z`two words` // " ++ [27880; 37322]%N ++ runes_of_ascii "
, zchar[  4294967296
    // @lengthOf(
    ] trueish`two words` ,Pad@lengthOf(	Pad )  `// not a comment` ,  } ,
tag string_
    , @lengthOf( len )
    // packet A { u8 x, }
    @tag(255 ) @lengthOf(
    // " ++ [27880; 37322]%N ++ runes_of_ascii "
    Logon
)int
, Foo @lengthOf( leftPad )`
` , }
")).
Eval vm_compute in ("<<<M1387>>>" ++ check (runes_of_ascii "options {
    LittleEndian = false;
    StringPrefixLenType = u16;
    FixedStringPadFromLeft = true;
    FixedStringPadChar = '0';
}
packet Fill {
}
root packet Order {
    repeat Fill,
    char[] clOrdID,
    @rightPad('\x00') char[4] lastPx,
    char[] OrderId,
    int8 tag7,
    u8 f1,
    u16 count @lengthOf(Body),
    match f1 as Body {
        [159, 49] : Fill,
    },
    u16 Tail @calculatedFrom(""CR\
C32""),
}
")).
Eval vm_compute in ("<<<M226>>>" ++ check (runes_of_ascii "packet Foo  {
    char
pack@calculatedFrom(""CRC32"") `crlf
line` // " ++ [128512]%N ++ runes_of_ascii " emoji
,
@leftPad (
    )
    Logon
, } options
{ tag  = ' '  msg_type // " ++ [128512]%N ++ runes_of_ascii " emoji
=  ""// no comment"" ; x_y_z
=//x
int32 calculatedFrom =// `tick` ""quote"" 'q'
string
; u128= char[]
} packet BodyLength { char[]
body @calculatedFrom(
""" ++ [233]%N ++ runes_of_ascii "t" ++ [233]%N ++ runes_of_ascii """
    // " ++ [128512]%N ++ runes_of_ascii " emoji
    )
    ,	uint16 MetaDataX @calculatedFrom(
""a	b"" )  ,}
")).
Eval vm_compute in ("<<<M102>>>" ++ check (runes_of_ascii "  packet matchKey { repeat BodyLength
{
metadata ,
    string asx `{ , }` ,
    }
    , len
{
    repeat a1 charz
    // trailing space 
    ,}  ,} packet
i8i8 { repeat  char[
0123456789 // @lengthOf(
]Z9_
    `it's` ,  match // trailing space 
Packet  as float { 1 :
lengthOf}
    , }
    packet x_y_z	{	repeat char[	1 ]
    //
    falsey	,
    }
")).
Eval vm_compute in ("<<<M217>>>" ++ check (runes_of_ascii "root packet i8i8 {
    msg_type@lengthOf( asx
    // packet A { u8 x, }
    )  , Logon
{ msg_type{ repeat
x_y_z `say ""hi""` ,
    }
, } ,
    Z9_ , repeatCount
//x
/// triple
{char[]	asx,
    // " ++ [128512]%N ++ runes_of_ascii " emoji
    float32 options1,
repeat  uint64 x	`two words`,chars
    `` , } ,
// 50% %s
// 50% %s
repeat A float , } 	 ")).
Eval vm_compute in ("<<<M108>>>" ++ check (runes_of_ascii "packet matchKey {repeat len{ zchar,
match Foo as x { 65535 : asx , 65535 :
// " ++ [128512]%N ++ runes_of_ascii " emoji
//	t
charz 1 : BodyLength ,
""{,}"": falsey, 1 :zchar, } , }  , }  MetaData // 50% %s
zchar
    // packet A { u8 x, }
    {zchar[7 ] trueish ,u16 matchKey	,
} options {
MetaDataX	=
false }")).
Eval vm_compute in ("<<<M1826>>>" ++ check (runes_of_ascii "packet rootA {
    match BodyLength as A {
        42 : leftPad,
        1 : u8x,
        [10, """ ++ [128512]%N ++ runes_of_ascii """] : i8i8,
        7 : u8x,
        007 : trueish,
        // c
    },
    o uint8x,
    repeat zchar[7] pack,
    string x_y_z @lengthOf(charz) `
    `,
}// c")).
Eval vm_compute in ("<<<M474>>>" ++ check (runes_of_ascii "packet
    asx { @calculatedFrom(
""""  ) @tag( 255 )repeat
// packet A { u8 x, }
// trailing space 
int16 u8x
,
@tag(
    //
    007 )
    @tag( uint32
    /// triple
    ) @tag( 1) u
    @lengthOf( T ),
// `tick` ""quote"" 'q'
//x
} // " ++ [128512]%N ++ runes_of_ascii " emoji")).
Eval vm_compute in ("<<<M534>>>" ++ check (runes_of_ascii "packet
    asx { @calculatedFrom(
""""  ) @tag( 255 )repeat
// packet A { u8 x, }
// trailing space 
int16 u8x
,
@tag(
    //
    007 )
    @tag( 0
    /// triple
    ) @tag( 1| ) u
    @lengthOf( T ),
// `tick` ""quote"" 'q'
//x
} // " ++ [128512]%N ++ runes_of_ascii " emoji")).
Eval vm_compute in ("<<<M453>>>" ++ check (runes_of_ascii "packet
    asx { @calculatedFrom(
""""  ) @tag( 255 )repeat
// packet A { u8 x, }
// trailing space 
int16 u8x
,
007
    //
    @tag( )
    @tag( 0
    /// triple
    ) @tag( 1) u
    @lengthOf( T ),
// `tick` ""quote"" 'q'
//x
} // " ++ [128512]%N ++ runes_of_ascii " emoji")).
Eval vm_compute in ("<<<M496>>>" ++ check (runes_of_ascii "packet
    asx { @calculatedFrom(
""""  ) @tag( 255 )repeat
// packet A { u8 x, }
// trailing space 
int16 u8x
,
@tag(
    //
    007 )
    @tag( 0
    /// triple
    ) @tag( 1) 
    @lengthOf( T ),
// `tick` ""quote"" 'q'
//x
} // " ++ [128512]%N ++ runes_of_ascii " emoji")).
Eval vm_compute in ("<<<M1599>>>" ++ check (runes_of_ascii "root  packet

    //	t
Logon { zchar[

42 	 // packet A { u8 x, }
	  ] 
        // c
// 50% %s
    uint8x
    `it's` 
, 
        //x
    @lengthOf(
Z9_ ) Pad 
{
    repeat 	 // `tick` ""quote"" 'q'
	i64_ 
`" ++ [28040; 24687; 31867; 22411]%N ++ runes_of_ascii "`

    ,	}	, }
")).
Eval vm_compute in ("<<<M1588>>>" ++ check (runes_of_ascii "options
{

    Packet=u16;  f32a 
    //
	= ""a\""b""

lengthOf=
'0'  ;
	uint8x	= i8	uint8x =
	'\x00'
; 
}
    packet	rootA	{
} 
options

    {

    uint8x= 

// a // b
		""\" ++ [233]%N ++ runes_of_ascii """
	}
    MetaData 
Packet 
{	} ")).
Eval vm_compute in ("<<<M1317>>>" ++ check (runes_of_ascii "// top
packet
    // c0
orderItem { // c2a
  // c2b
u8 // c3
a , }
    // c6
root
    // c7
packet // c8a
  // c8b
newOrder { // c10
orderItem ,
    // c12
u8 x // c14a
  // c14b
, // c15
} ")).
Eval vm_compute in ("<<<M1683>>>" ++ check (runes_of_ascii "packet A {
    match k as n {
        ""\
        "" : B,
        [""\
        "", 1] : C,
        [
            1, 2, 3, 4, 5,
            ""\
            ""
        ] : D,
    },
}")).
Eval vm_compute in ("<<<M654>>>" ++ check (runes_of_ascii "MetaData u
    { } MetaData o
{ float uint8x
`100% of %d` ,repeatCount u8x, string_ leftPad
, i32
    Foo , int64 uint8 `two words` , calculatedFrom
stringy `a\` ,
}
")).
Eval vm_compute in ("<<<M696>>>" ++ check (runes_of_ascii "MetaData u
    { } MetaData o
{ float uint8x
`100% of %d` ,repeatCount u8x, string_ leftPad
'', i32
    Foo , int64 x `two words` , calculatedFrom
stringy `a\` ,
}
")).
Eval vm_compute in ("<<<M608>>>" ++ check (runes_of_ascii "MetaData u
    { } MetaData o
{ float uint8x
`100% of %d` ,repeatCount ,u8x string_ leftPad
, i32
    Foo , int64 x `two words` , calculatedFrom
stringy `a\` ,
}
")).
Eval vm_compute in ("<<<M661>>>" ++ check (runes_of_ascii "MetaData u
    { } MetaData o
{ float uint8x
`100% of %d` ,repeatCount u8x, string_ leftPad
, i32
    Foo , int64 x `two words`  calculatedFrom
stringy `a\` ,
}
")).
Eval vm_compute in ("<<<M619>>>" ++ check (runes_of_ascii "MetaData u
    { } MetaData o
{ float uint8x
`100% of %d` ,repeatCount u8x, : leftPad
, i32
    Foo , int64 x `two words` , calculatedFrom
stringy `a\` ,
}
")).
Eval vm_compute in ("<<<M1822>>>" ++ check (runes_of_ascii "options  {
}	options

    {
    MetaDataX 	 // c
	=

char ;
    }MetaData  Pad
    {

i8  metadata ,
    string stringy  , int8 As `{ , }`  ,
    }
")).
Eval vm_compute in ("<<<M1659>>>" ++ check (runes_of_ascii "packet A {
    match k as n {
        [
            1, 22, ""c c"", 4, 5,
            ""f"", 7, 8, ""i"", 10
        ] : B,
        2 : C,
    },
}")).
Eval vm_compute in ("<<<M1613>>>" ++ check (runes_of_ascii "options 

// c
  {	} 
options
	{

MetaDataX=
    char
;

    }MetaData Pad {	i8 metadata	,string

stringy ,	int8	As
`{ , }` ,

}
")).
Eval vm_compute in ("<<<M1513>>>" ++ check (runes_of_ascii "options{	} options{	MetaDataX=
char;  }MetaData Pad{
i8  metadata
, string stringy
	, int8

As

    `{ , }`
	// c
,

}
")).
Eval vm_compute in ("<<<M905>>>" ++ check (runes_of_ascii "packet A {
  match k as n {
    [""a"", ""bb"", ""c c"", ""d"", ""e"", ""f"", ""g"", ""h"", ""i"", ""j"", ""k"", ""l""] : B
    2 : C
  },
}")).
Eval vm_compute in ("<<<M1215>>>" ++ check (runes_of_ascii "options { } options { MetaDataX = // c
char ; } MetaData Pad { i8 metadata , string stringy , int8 As `{ , }` , }")).
Eval vm_compute in ("<<<M1247>>>" ++ check (runes_of_ascii "options { } options { MetaDataX = char ; } MetaData Pad { i8 metadata , string stringy , int8 As `{ , }` , // c
}")).
Eval vm_compute in ("<<<M953>>>" ++ check (runes_of_ascii "packet A {
    u16 len @lengthOf(body) `
x`,
    u32 crc @calculatedFrom(""CRC32"") `
x`,
    string body,
}")).
Eval vm_compute in ("<<<M1727>>>" ++ check (runes_of_ascii "packet  A	{ 
Inner 
{

u8
    x  `100% of %s %d %v` 
, Deep
{  u8 y`100% of %s %d %v`  ,
	}  ,

}	,}
")).
Eval vm_compute in ("<<<M345>>>" ++ check (runes_of_ascii "
options
    { Packet//x
=""a\\""
Logon
    = true f32a
    = true // 50% %s
;falsey = false
; }")).
Eval vm_compute in ("<<<M356>>>" ++ check (runes_of_ascii "options{asx
    // " ++ [128512]%N ++ runes_of_ascii " emoji
    = char
}
options{  }
    packet BodyLength {
    a1 uint8x , }")).
Eval vm_compute in ("<<<M857>>>" ++ check (runes_of_ascii "packet A {
  match k as n {
    [""a"", 22, ""c c"", 4, ""e"", 66, ""g"", 8] : B
    2 : C
  },
}")).
Eval vm_compute in ("<<<M1257>>>" ++ check (runes_of_ascii "options {
    LittleEndian = true;
}
root packet P {
    repeat char cs,
    u8 x,
}
")).
Eval vm_compute in ("<<<M45>>>" ++ check (runes_of_ascii "root packet
// a // b
/// triple
msg_type{ uint64 matchKey@lengthOf(
    _x ), }
")).
Eval vm_compute in ("<<<M620>>>" ++ check (runes_of_ascii "MetaData u
    { } MetaData o
{ float uint8x
`100% of %d` ,repeatCount u8x,")).
Eval vm_compute in ("<<<M820>>>" ++ check (runes_of_ascii "packet A {
  match k as n {
    [1, 22, ""c c"", 4, 5] : B
    2 : C
  },
}")).
Eval vm_compute in ("<<<M796>>>" ++ check (runes_of_ascii "packet A {
  match k as n {
    [""a"", ""bb"", 007] : B
    2 : C
  },
}")).
Eval vm_compute in ("<<<M1180>>>" ++ check (runes_of_ascii "// top
options // c0a
  // c0b
{ A
    // c2
= ""// no comment"" } ")).
Eval vm_compute in ("<<<M1163>>>" ++ check (runes_of_ascii "// top
packet
    // c0
x
    // c1
{
    // c2
}
    // c3
")).
Eval vm_compute in ("<<<M772>>>" ++ check (runes_of_ascii "packet A {
  match k as n {
    [1] : B
    2 : C
  },
}")).
Eval vm_compute in ("<<<M1485>>>" ++ check (runes_of_ascii "// c
MetaData leftPad {
    msg_type As `{ , }`,
}")).
Eval vm_compute in ("<<<M1656>>>" ++ check (runes_of_ascii "
packet

    A{
    u8
x `d" ++ [12]%N ++ runes_of_ascii "`,  // c" ++ [12]%N ++ runes_of_ascii "
}

")).
Eval vm_compute in ("<<<M1791>>>" ++ check (runes_of_ascii "root packet A {
    u8 x `x
        `,
}")).
Eval vm_compute in ("<<<M1184>>>" ++ check (runes_of_ascii "options
// c
{ A = ""// no comment"" }")).
Eval vm_compute in ("<<<M742>>>" ++ check (runes_of_ascii "i16 string match { MetaData uint8")).
Eval vm_compute in ("<<<M1012>>>" ++ check (runes_of_ascii "packet A {
 u8 x `d" ++ [133]%N ++ runes_of_ascii "`, // c" ++ [133]%N ++ runes_of_ascii "
}")).
Eval vm_compute in ("<<<M575>>>" ++ check (runes_of_ascii "MetaData u
    { } MetaData")).
Eval vm_compute in ("<<<M1943>>>" ++ check (runes_of_ascii "

  options//	t

	{ 
}
")).
Eval vm_compute in ("<<<M1126>>>" ++ check (runes_of_ascii "MetaData tag // c
{ }")).
Eval vm_compute in ("<<<M1021>>>" ++ check (runes_of_ascii "// c" ++ [8192]%N ++ runes_of_ascii "
packet A {
}")).
Eval vm_compute in ("<<<M998>>>" ++ check (runes_of_ascii "packet A {
}// c" ++ [12288]%N)).
Eval vm_compute in ("<<<M1563>>>" ++ check (runes_of_ascii "MetaData tag {
}")).
Eval vm_compute in ("<<<M748>>>" ++ check (runes_of_ascii "&{`8[")).
Eval vm_compute in ("<<<M729>>>" ++ check (runes_of_ascii "/")).
